(* Proofs about the path-resolution model (Resolve/Model.v). *)
From Coq Require Import List NArith Bool Lia Arith.
From NV Require Import Gen.Resolve Resolve.Model.
Import ListNotations.
Open Scope N_scope.

(* ------------------------------------------------------------------ equality tests *)
Lemma name_eqb_eq : forall a b, name_eqb a b = true <-> a = b.
Proof.
  induction a as [|x a IH]; destruct b as [|y b]; cbn [name_eqb]; split; intro H;
    try reflexivity; try discriminate.
  - apply andb_true_iff in H as [H1 H2]. apply N.eqb_eq in H1. apply IH in H2. now subst.
  - inversion H; subst. rewrite N.eqb_refl. cbn. now apply IH.
Qed.

Lemma name_eqb_refl : forall a, name_eqb a a = true.
Proof. intros; now apply name_eqb_eq. Qed.

Lemma path_eqb_eq : forall a b, path_eqb a b = true <-> a = b.
Proof.
  induction a as [|x a IH]; destruct b as [|y b]; cbn [path_eqb]; split; intro H;
    try reflexivity; try discriminate.
  - apply andb_true_iff in H as [H1 H2]. apply name_eqb_eq in H1. apply IH in H2. now subst.
  - inversion H; subst. rewrite name_eqb_refl. cbn. now apply IH.
Qed.

Lemma proper_prefix_spec : forall b p,
  proper_prefix b p = true <-> exists c r, p = b ++ c :: r.
Proof.
  induction b as [|x b IH]; intros p; destruct p as [|y p]; cbn [proper_prefix]; split; intro H;
    try discriminate.
  - destruct H as (c & r & H). discriminate.
  - now exists y, p.
  - reflexivity.
  - destruct H as (c & r & H). discriminate.
  - apply andb_true_iff in H as [H1 H2]. apply name_eqb_eq in H1. apply IH in H2.
    destruct H2 as (c & r & ->). subst. now exists c, r.
  - destruct H as (c & r & H). cbn in H. inversion H; subst.
    rewrite name_eqb_refl. cbn. apply IH. now exists c, r.
Qed.

(* ------------------------------------------------------------------ the tree *)
Definition notlink (n : fsnode) : Prop := match n with Link _ => False | _ => True end.
Definition nodd (p : list name) : Prop := Forall (fun c => name_eqb c dotdot = false) p.

Lemma get_app : forall p q t,
  get t (p ++ q) = match get t p with Some n => get n q | None => None end.
Proof.
  induction p as [|c p IH]; intros q t; cbn [app get]; [reflexivity|].
  destruct t; try reflexivity. destruct (assoc c entries); [apply IH | reflexivity].
Qed.

Lemma get_link_nil : forall tg q n, get (Link tg) q = Some n -> q = [] /\ n = Link tg.
Proof. intros tg [|c q] n H; cbn in H; [now inversion H | discriminate]. Qed.

Lemma lget_get : forall p t n, lget t p = KOk n <-> get t p = Some n.
Proof.
  induction p as [|c p IH]; intros t n; cbn [lget get].
  - split; intro H; inversion H; reflexivity.
  - destruct t; try (split; discriminate).
    destruct (assoc c entries); [apply IH | split; discriminate].
Qed.

(* a path all of whose components exist, none of them a link: reached through directories only *)
Definition good (t : fsnode) (p : path) : Prop :=
  nodd p /\ exists n, get t p = Some n /\ notlink n.

Lemma removelast_snoc : forall (A : Type) (l : list A) x, removelast (l ++ [x]) = l.
Proof. intros. rewrite removelast_app by discriminate. cbn. apply app_nil_r. Qed.

Lemma snoc_cases : forall (A : Type) (l : list A), l = [] \/ exists l' x, l = l' ++ [x].
Proof.
  intros A l. induction l as [|a l IH] using rev_ind; [now left | right; eauto].
Qed.

Lemma nodd_app : forall p q, nodd (p ++ q) <-> nodd p /\ nodd q.
Proof. intros; unfold nodd; apply Forall_app. Qed.

Lemma good_pop : forall t p, good t p -> good t (pop p).
Proof.
  intros t p [Hn (n & Hg & Hl)]. unfold pop.
  destruct (snoc_cases _ p) as [->|(p' & x & ->)]; [split; [assumption | eauto]|].
  rewrite removelast_snoc. apply nodd_app in Hn as [Hn _]. split; [assumption|].
  rewrite get_app in Hg. destruct (get t p') as [m|] eqn:E; [|discriminate].
  exists m. split; [reflexivity|]. destruct m; cbn; auto. cbn in Hg. discriminate.
Qed.

Lemma good_root : forall es, good (Dir es) [].
Proof. intros; split; [constructor | exists (Dir es); cbn; auto]. Qed.

(* ------------------------------------------------------------------ strict realpath *)
Lemma pyres_strict_good : forall fuel t stack cur cs r,
  pyres fuel true t stack cur cs = PDone r -> good t cur -> good t r.
Proof.
  induction fuel as [|f IH]; intros t stack cur cs r H Hg; [discriminate|].
  cbn [pyres] in H. destruct cs as [|c cs]; [inversion H; now subst|].
  destruct (name_eqb c dotdot) eqn:Edd; [eapply IH; [exact H | now apply good_pop]|].
  destruct (lget t (cur ++ [c])) as [n|e] eqn:El; [|discriminate].
  assert (Hnp : notlink n -> good t (cur ++ [c])).
  { intro Hn. destruct Hg as [Hd _]. split.
    - apply nodd_app. split; [assumption | now constructor].
    - exists n. split; [now apply lget_get | assumption]. }
  destruct n as [b|es|tg].
  - eapply IH; [exact H | now apply Hnp].
  - eapply IH; [exact H | now apply Hnp].
  - destruct (mem_path (cur ++ [c]) stack); [discriminate|].
    destruct (pyres f true t ((cur ++ [c]) :: stack) (if is_abs tg then [] else cur) (comps tg))
      as [mid|q|e] eqn:Ei; try discriminate.
    eapply IH; [exact H|]. eapply IH; [exact Ei|].
    destruct (is_abs tg); [|assumption].
    split; [constructor|]. exists t. split; [reflexivity|].
    destruct Hg as [_ (n & Hn & Hl)]. destruct t; cbn; auto.
    apply get_link_nil in Hn as [_ ->]. exact Hl.
Qed.

(* on a good path strict realpath is the identity *)
Lemma pyres_strict_id : forall fuel t stack cs cur n,
  get t (cur ++ cs) = Some n -> notlink n -> nodd cs -> (length cs < fuel)%nat ->
  pyres fuel true t stack cur cs = PDone (cur ++ cs).
Proof.
  induction fuel as [|f IH]; intros t stack cs cur n Hg Hl Hd Hf; [lia|].
  cbn [pyres]. destruct cs as [|c cs]; [now rewrite app_nil_r|].
  inversion Hd as [|? ? Hc Hd']; subst. rewrite Hc.
  assert (Hg' := Hg). replace (cur ++ c :: cs) with ((cur ++ [c]) ++ cs) in Hg'
    by (rewrite <- app_assoc; reflexivity).
  rewrite get_app in Hg'. destruct (get t (cur ++ [c])) as [m|] eqn:Em; [|discriminate].
  apply lget_get in Em. rewrite Em.
  assert (Hm : notlink m).
  { destruct m; cbn; auto. apply get_link_nil in Hg' as [-> ->]. exact Hl. }
  cbn [length] in Hf.
  replace (cur ++ c :: cs) with ((cur ++ [c]) ++ cs) by (rewrite <- app_assoc; reflexivity).
  apply lget_get in Em.
  destruct m; try contradiction;
    (eapply IH; [rewrite get_app, Em; exact Hg' | exact Hl | exact Hd' | lia]).
Qed.

(* ------------------------------------------------------------------ the kernel walk on a good path *)
Lemma kwalk_good : forall fuel hops t follow cs cur n,
  get t (cur ++ cs) = Some n -> notlink n -> nodd cs ->
  kwalk fuel hops t cur cs follow = KErr EFuel \/
  kwalk fuel hops t cur cs follow = KOk (cur ++ cs, n).
Proof.
  induction fuel as [|f IH]; intros hops t follow cs cur n Hg Hl Hd; [now left|].
  cbn [kwalk]. destruct cs as [|c cs].
  - rewrite app_nil_r in *. rewrite Hg. now right.
  - inversion Hd as [|? ? Hc Hd']; subst.
    assert (Hg' := Hg). rewrite get_app in Hg'.
    destruct (get t cur) as [m|] eqn:Em; [|discriminate].
    destruct m as [b|es|tg]; cbn [get] in Hg'; try discriminate.
    rewrite Hc. destruct (assoc c es) as [m|] eqn:Ea; [|discriminate].
    assert (Hm : notlink m).
    { destruct m; cbn; auto. apply get_link_nil in Hg' as [-> ->]. exact Hl. }
    replace (cur ++ c :: cs) with ((cur ++ [c]) ++ cs) by (rewrite <- app_assoc; reflexivity).
    assert (Hstep : get t ((cur ++ [c]) ++ cs) = Some n).
    { rewrite <- app_assoc. exact Hg. }
    destruct m; try contradiction; apply IH; assumption.
Qed.

Lemma kwalk_good_fuel : forall fuel hops t follow cs cur n,
  get t (cur ++ cs) = Some n -> notlink n -> nodd cs -> (length cs < fuel)%nat ->
  kwalk fuel hops t cur cs follow = KOk (cur ++ cs, n).
Proof.
  induction fuel as [|f IH]; intros hops t follow cs cur n Hg Hl Hd Hf; [lia|].
  cbn [kwalk]. destruct cs as [|c cs].
  - rewrite app_nil_r in *. now rewrite Hg.
  - inversion Hd as [|? ? Hc Hd']; subst.
    assert (Hg' := Hg). rewrite get_app in Hg'.
    destruct (get t cur) as [m|] eqn:Em; [|discriminate].
    destruct m as [b|es|tg]; cbn [get] in Hg'; try discriminate.
    rewrite Hc. destruct (assoc c es) as [m|] eqn:Ea; [|discriminate].
    assert (Hm : notlink m).
    { destruct m; cbn; auto. apply get_link_nil in Hg' as [-> ->]. exact Hl. }
    replace (cur ++ c :: cs) with ((cur ++ [c]) ++ cs) by (rewrite <- app_assoc; reflexivity).
    assert (Hstep : get t ((cur ++ [c]) ++ cs) = Some n).
    { rewrite <- app_assoc. exact Hg. }
    cbn [length] in Hf.
    destruct m; try contradiction; apply IH; try assumption; lia.
Qed.

(* ------------------------------------------------------------------ outputs of resolve have no ".." *)
Lemma nodd_pop : forall p, nodd p -> nodd (pop p).
Proof.
  intros p H. unfold pop. destruct (snoc_cases _ p) as [->|(p' & x & ->)]; [assumption|].
  rewrite removelast_snoc. now apply nodd_app in H as [H _].
Qed.

Lemma pyres_nodd : forall fuel strict t stack cur cs r,
  pyres fuel strict t stack cur cs = PDone r -> nodd cur -> nodd r.
Proof.
  induction fuel as [|f IH]; intros strict t stack cur cs r H Hn; [discriminate|].
  cbn [pyres] in H. destruct cs as [|c cs]; [inversion H; now subst|].
  destruct (name_eqb c dotdot) eqn:Edd; [eapply IH; [exact H | now apply nodd_pop]|].
  assert (Hnp : nodd (cur ++ [c])) by (apply nodd_app; split; [assumption | now constructor]).
  destruct (lget t (cur ++ [c])) as [n|e].
  - destruct n as [b|es|tg]; try (eapply IH; [exact H | exact Hnp]).
    destruct (mem_path (cur ++ [c]) stack); [destruct strict; discriminate|].
    destruct (pyres f strict t ((cur ++ [c]) :: stack) (if is_abs tg then [] else cur) (comps tg))
      as [mid|q|e] eqn:Ei; try discriminate.
    eapply IH; [exact H|]. eapply IH; [exact Ei|]. destruct (is_abs tg); [constructor | assumption].
  - destruct strict; [discriminate|]. eapply IH; [exact H | exact Hnp].
Qed.

Lemma lexnorm_nodd_aux : forall q acc,
  nodd acc ->
  nodd (fold_left (fun acc c => if name_eqb c dotdot then pop acc else acc ++ [c]) q acc).
Proof.
  induction q as [|c q IH]; intros acc H; cbn [fold_left]; [assumption|].
  apply IH. destruct (name_eqb c dotdot) eqn:E; [now apply nodd_pop|].
  apply nodd_app; split; [assumption | now constructor].
Qed.

Lemma lexnorm_nodd : forall q, nodd (lexnorm q).
Proof. intros; apply lexnorm_nodd_aux; constructor. Qed.

Lemma resolve_nodd : forall fuel t cs p, resolve fuel t cs = KOk p -> nodd p.
Proof.
  intros fuel t cs p H. unfold resolve in H.
  destruct (pyres fuel false t [] [] cs) as [r|q|e] eqn:E; [| |discriminate].
  - assert (nodd r) by (eapply pyres_nodd; [exact E | constructor]).
    unfold stat_check in H. destruct (kwalk fuel MAXSYMLINKS t [] r true) as [x|e].
    + inversion H; now subst.
    + destruct e; inversion H; now subst.
  - unfold stat_check in H. destruct (kwalk fuel MAXSYMLINKS t [] (lexnorm q) true) as [x|e].
    + inversion H; subst; apply lexnorm_nodd.
    + destruct e; inversion H; subst; apply lexnorm_nodd.
Qed.

(* ------------------------------------------------------------------ the theorems *)
Lemma get_prefix_not_link : forall t q s n, get t (q ++ s) = Some n -> notlink n ->
  forall tg, get t q <> Some (Link tg).
Proof.
  intros t q s n H Hl tg Hq. rewrite get_app, Hq in H.
  apply get_link_nil in H as [_ ->]. exact Hl.
Qed.

Theorem served_inside : forall fuel root base nm p b,
  simple_resolve fuel root base nm = Served p b ->
  (exists c r, p = base ++ c :: r) /\
  get (Dir root) p = Some (Reg b) /\
  (forall q s, p = q ++ s -> forall tg, get (Dir root) q <> Some (Link tg)).
Proof.
  intros fuel root base nm p b H. unfold simple_resolve in H.
  unfold request_resolved, recheck_strict in H.
  destruct (resolve fuel (Dir root) (pcomps (join base nm))) as [p1|e] eqn:E1; [|discriminate].
  destruct (proper_prefix base p1) eqn:Epp; [|discriminate].
  destruct (resolve_strict fuel (Dir root) p1) as [p2|e] eqn:E2; [|discriminate].
  destruct (path_eqb p1 p2) eqn:Eeq; [|discriminate].
  apply path_eqb_eq in Eeq. subst p2.
  unfold resolve_strict in E2.
  destruct (pyres fuel true (Dir root) [] [] p1) as [r|q|e] eqn:Ep; try discriminate.
  inversion E2; subst r. clear E2.
  pose proof (pyres_strict_good _ _ _ _ _ _ Ep (good_root root)) as [Hd (n & Hg & Hl)].
  unfold open_rb in H.
  destruct (kwalk_good fuel MAXSYMLINKS (Dir root) true p1 [] n Hg Hl Hd) as [K|K];
    cbn [app] in K; rewrite K in H; [discriminate|].
  destruct n as [b'|es|tg]; try discriminate. inversion H; subst. clear H.
  split; [now apply proper_prefix_spec|]. split; [exact Hg|].
  intros q s -> tg. eapply get_prefix_not_link; [exact Hg | exact Hl].
Qed.

Theorem inside_served : forall fuel root base nm r b,
  resolve fuel (Dir root) (pcomps (join base nm)) = KOk r ->
  (exists c s, r = base ++ c :: s) ->
  get (Dir root) r = Some (Reg b) ->
  (length r < fuel)%nat ->
  simple_resolve fuel root base nm = Served r b.
Proof.
  intros fuel root base nm r b Hr Hpp Hg Hf. unfold simple_resolve.
  unfold request_resolved, recheck_strict. rewrite Hr.
  apply proper_prefix_spec in Hpp. rewrite Hpp.
  pose proof (resolve_nodd _ _ _ _ Hr) as Hd.
  unfold resolve_strict.
  rewrite (pyres_strict_id fuel (Dir root) [] r [] (Reg b)); cbn [app]; auto; [|exact I].
  rewrite (proj2 (path_eqb_eq r r) eq_refl).
  unfold open_rb.
  rewrite (kwalk_good_fuel fuel MAXSYMLINKS (Dir root) true r [] (Reg b)); cbn [app]; auto.
  exact I.
Qed.

(* link-free names: walking `base ++ cs` through existing directories only *)
Lemma pyres_nonstrict_id : forall fuel t stack cs cur n,
  get t (cur ++ cs) = Some n -> notlink n -> nodd cs -> (length cs < fuel)%nat ->
  pyres fuel false t stack cur cs = PDone (cur ++ cs).
Proof.
  induction fuel as [|f IH]; intros t stack cs cur n Hg Hl Hd Hf; [lia|].
  cbn [pyres]. destruct cs as [|c cs]; [now rewrite app_nil_r|].
  inversion Hd as [|? ? Hc Hd']; subst. rewrite Hc.
  assert (Hg' := Hg). replace (cur ++ c :: cs) with ((cur ++ [c]) ++ cs) in Hg'
    by (rewrite <- app_assoc; reflexivity).
  rewrite get_app in Hg'. destruct (get t (cur ++ [c])) as [m|] eqn:Em; [|discriminate].
  apply lget_get in Em. rewrite Em.
  assert (Hm : notlink m).
  { destruct m; cbn; auto. apply get_link_nil in Hg' as [-> ->]. exact Hl. }
  cbn [length] in Hf.
  replace (cur ++ c :: cs) with ((cur ++ [c]) ++ cs) by (rewrite <- app_assoc; reflexivity).
  apply lget_get in Em.
  destruct m; try contradiction;
    (eapply IH; [rewrite get_app, Em; exact Hg' | exact Hl | exact Hd' | lia]).
Qed.

Theorem direct_inside_served : forall fuel root base nm c s b,
  proot (parse_path nm) = 0 ->
  pcomps (parse_path nm) = c :: s ->
  nodd (base ++ c :: s) ->
  get (Dir root) (base ++ c :: s) = Some (Reg b) ->
  (length (base ++ c :: s) < fuel)%nat ->
  simple_resolve fuel root base nm = Served (base ++ c :: s) b.
Proof.
  intros fuel root base nm c s b Hroot Hcs Hd Hg Hf.
  apply inside_served; try assumption; [|now exists c, s].
  unfold join. rewrite Hroot, Hcs. cbn [N.eqb pcomps].
  unfold resolve.
  rewrite (pyres_nonstrict_id fuel (Dir root) [] (base ++ c :: s) [] (Reg b)); cbn [app]; auto;
    [|exact I].
  unfold stat_check.
  rewrite (kwalk_good_fuel fuel MAXSYMLINKS (Dir root) true (base ++ c :: s) [] (Reg b));
    cbn [app]; auto. exact I.
Qed.

Theorem refusal_is_access_violation : forall fuel root base nm p,
  resolve fuel (Dir root) (pcomps (join base nm)) = KOk p ->
  (~ exists c r, p = base ++ c :: r) ->
  simple_resolve fuel root base nm = Refused EPerm /\ error_code EPerm = Some 2.
Proof.
  intros fuel root base nm p Hr Hn. split; [|reflexivity].
  unfold simple_resolve, request_resolved. rewrite Hr.
  destruct (proper_prefix base p) eqn:E; [|reflexivity].
  apply proper_prefix_spec in E. contradiction.
Qed.

Theorem error_codes :
  error_code EPerm = Some 2 /\ error_code ENoEnt = Some 1 /\
  error_code EIsDir = Some 0 /\ error_code ENotDir = Some 0 /\
  error_code ELoop = Some 0 /\ error_code ENameTooLong = Some 0 /\
  error_code ERuntime = Some 0.
Proof. repeat split; reflexivity. Qed.
