From Coq Require Import List NArith String.
From NV Require Import Lib.Val Lib.Wire Resolve.Model.
Import ListNotations.
Open Scope string_scope.

(* tree on the wire: (0 bytes) | (1 ((name node) ...)) | (2 target) *)
Fixpoint dec_node (v : val) : fsnode :=
  match v with
  | VL [VN 0%N; VS b] => Reg b
  | VL [VN 1%N; VL es] =>
    Dir (map (fun e => match e with
                       | VL [VS k; n] => (k, dec_node n)
                       | _ => ([], Reg [])
                       end) es)
  | VL [VN 2%N; VS tg] => Link tg
  | _ => Reg []
  end.

Definition entries (v : val) : list (name * fsnode) :=
  match dec_node v with Dir es => es | _ => [] end.

Definition err_name (e : rerr) : string :=
  match e with
  | EPerm => "PermissionError" | ENoEnt => "FileNotFoundError"
  | EIsDir => "IsADirectoryError" | ENotDir => "NotADirectoryError"
  | ELoop => "OSError:ELOOP" | ENameTooLong => "OSError:ENAMETOOLONG"
  | ERuntime => "RuntimeError" | EFuel => "OutOfFuel"
  end.

Definition VPath (p : path) : val := VL (map VS p).
Definition VKres {A} (f : A -> val) (r : kres A) : val :=
  match r with KOk a => VL [VN 0; f a] | KErr e => VL [VN 1; VStr (err_name e)] end.
Definition VOutcome (o : outcome) : val :=
  match o with
  | Served p b => VL [VN 0; VL [VPath p; VS b]]
  | Refused e => VL [VN 1; VStr (err_name e)]
  end.
Definition VCode (e : rerr) : val :=
  VL [VStr (err_name e); match error_code e with Some c => VL [VN c] | None => VL [] end].

Definition dispatch (cmd : string) (a : val) : val :=
  if String.eqb cmd "resolve" then
    VOutcome (simple_resolve (getNat (arg 3 a)) (entries (arg 0 a)) (getLs (arg 1 a)) (getS (arg 2 a)))
  else if String.eqb cmd "join" then
    let j := join (getLs (arg 0 a)) (getS (arg 1 a)) in VL [VN (proot j); VPath (pcomps j)]
  else if String.eqb cmd "realpath" then
    let t := Dir (entries (arg 0 a)) in
    let cs := comps (getS (arg 1 a)) in
    VKres VPath (if getB (arg 3 a) then resolve_strict (getNat (arg 2 a)) t cs
                 else resolve (getNat (arg 2 a)) t cs)
  else if String.eqb cmd "codes" then
    VL (map VCode [EPerm; ENoEnt; EIsDir; ENotDir; ELoop; ENameTooLong; ERuntime])
  else VErr "unknown command".
