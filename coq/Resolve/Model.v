(* Model of the stand-alone directory server's path resolution
   (nobodd/tftpd.py: SimpleTFTPServer.__init__, SimpleTFTPHandler.resolve_path,
   TFTPClientState.__init__'s open('rb'), and the exception ladder of do_RRQ).
   Executable definitions only; proofs are in Proofs.v.

   The file system is an abstract POSIX tree.  Three layers:
   - pathlib's pure part: parsing a request name and `base / name`;
   - `pyres`: posixpath._joinrealpath of CPython 3.12 (what Path.resolve() runs):
     symlinks are expanded recursively, `..` pops AFTER the link before it was
     resolved, missing components are kept literally (non-strict) or raise
     (strict), and a symlink that is met again while it is being expanded makes
     the non-strict variant give up and return the path built so far joined with
     the unprocessed rest, which Path.resolve() then normalises lexically
     (os.path.abspath) and merely stat()s to turn ELOOP into RuntimeError.
     This function SPECIFIES what Path.resolve() is assumed to do; the
     correspondence check compares it with the real thing.  (CPython caches
     resolved links in `seen`; on a static tree the cached value equals what
     recomputation gives, so the model recomputes.)
   - `kwalk`: the kernel's own path walk (symlinks followed with a budget of 40,
     physical `..`), used for stat() and open(). *)
From Coq Require Import List NArith Bool.
From NV Require Import Gen.Resolve.
Import ListNotations.
Open Scope N_scope.

Definition name := list N.          (* one path component, code points *)
Definition path := list name.       (* absolute path: components from the root *)

Inductive fsnode :=
| Reg (content : list N)
| Dir (entries : list (name * fsnode))
| Link (target : list N).           (* the raw target string *)

Inductive rerr :=
| EPerm          (* PermissionError raised by resolve_path *)
| ENoEnt         (* FileNotFoundError *)
| EIsDir         (* IsADirectoryError *)
| ENotDir        (* NotADirectoryError *)
| ELoop          (* OSError(ELOOP) from open *)
| ENameTooLong   (* OSError(ENAMETOOLONG) *)
| ERuntime       (* RuntimeError("Symlink loop from ...") raised by Path.resolve *)
| EFuel.         (* model ran out of fuel: not an outcome of the implementation *)

Inductive kres (A : Type) := KOk (a : A) | KErr (e : rerr).
Arguments KOk {A} a.
Arguments KErr {A} e.

(* ------------------------------------------------------------------ names *)
Fixpoint name_eqb (a b : name) : bool :=
  match a, b with
  | [], [] => true
  | x :: a', y :: b' => (x =? y) && name_eqb a' b'
  | _, _ => false
  end.

Fixpoint path_eqb (a b : path) : bool :=
  match a, b with
  | [], [] => true
  | x :: a', y :: b' => name_eqb x y && path_eqb a' b'
  | _, _ => false
  end.

Definition SLASH := 47.
Definition dot : name := [46].
Definition dotdot : name := [46; 46].
Definition is_nil {A} (l : list A) : bool := match l with [] => true | _ => false end.

Fixpoint split_slash (s : list N) (cur : name) : list name :=
  match s with
  | [] => [rev cur]
  | c :: r => if c =? SLASH then rev cur :: split_slash r [] else split_slash r (c :: cur)
  end.

(* the components pathlib / posixpath keep: empty ones and "." are dropped, ".." stays *)
Definition comps (s : list N) : list name :=
  filter (fun c => negb (is_nil c || name_eqb c dot)) (split_slash s []).

Fixpoint lead_slashes (s : list N) : nat :=
  match s with
  | c :: r => if c =? SLASH then S (lead_slashes r) else O
  | [] => O
  end.

Definition is_abs (s : list N) : bool := match lead_slashes s with O => false | _ => true end.

(* PurePosixPath(s): root "" (0), "/" (1) or "//" (2: exactly two leading slashes) *)
Record ppath := { proot : N; pcomps : list name }.
Definition parse_path (s : list N) : ppath :=
  {| proot := match lead_slashes s with O => 0 | 2%nat => 2 | _ => 1 end; pcomps := comps s |}.

(* base / name with base an absolute normal path: an anchored name REPLACES base *)
Definition join (base : path) (nm : list N) : ppath :=
  let p := parse_path nm in
  if proot p =? 0 then {| proot := 1; pcomps := base ++ pcomps p |} else p.

(* ------------------------------------------------------------------ the tree *)
Fixpoint assoc (c : name) (es : list (name * fsnode)) : option fsnode :=
  match es with
  | [] => None
  | (k, v) :: r => if name_eqb c k then Some v else assoc c r
  end.

(* descend through directories only (no link is followed) *)
Fixpoint get (t : fsnode) (p : path) : option fsnode :=
  match p with
  | [] => Some t
  | c :: r =>
    match t with
    | Dir es => match assoc c es with Some n => get n r | None => None end
    | _ => None
    end
  end.

Definition utf8len (c : name) : N :=
  fold_right (fun x acc => acc + (if x <? 128 then 1 else if x <? 2048 then 2
                                  else if x <? 65536 then 3 else 4)) 0 c.
Definition NAME_MAX := 255.
Definition missing (c : name) : rerr := if NAME_MAX <? utf8len c then ENameTooLong else ENoEnt.

(* os.lstat(p) for a p whose parent has already been resolved *)
Fixpoint lget (t : fsnode) (p : path) : kres fsnode :=
  match p with
  | [] => KOk t
  | c :: r =>
    match t with
    | Dir es => match assoc c es with Some n => lget n r | None => KErr (missing c) end
    | Reg _ => KErr ENotDir
    | Link _ => KErr ELoop       (* not reachable from pyres *)
    end
  end.

Definition pop (p : path) : path := removelast p.

(* ------------------------------------------------------------------ the kernel's walk *)
Definition MAXSYMLINKS : nat := 40.

Fixpoint kwalk (fuel hops : nat) (t : fsnode) (cur : path) (cs : list name) (follow : bool)
  : kres (path * fsnode) :=
  match fuel with
  | O => KErr EFuel
  | S f =>
    match cs with
    | [] => match get t cur with Some n => KOk (cur, n) | None => KErr ENoEnt end
    | c :: r =>
      match get t cur with
      | Some (Dir es) =>
        if name_eqb c dotdot then kwalk f hops t (pop cur) r follow
        else match assoc c es with
             | None => KErr (missing c)
             | Some (Link tg) =>
               if is_nil r && negb follow then KOk (cur ++ [c], Link tg)
               else match hops with
                    | O => KErr ELoop
                    | S h => kwalk f h t (if is_abs tg then [] else cur) (comps tg ++ r) follow
                    end
             | Some _ => kwalk f hops t (cur ++ [c]) r follow
             end
      | Some (Reg _) => KErr ENotDir
      | Some (Link _) => KErr ELoop
      | None => KErr ENoEnt
      end
    end
  end.

(* ------------------------------------------------------------------ posixpath._joinrealpath *)
Inductive pres :=
| PDone (p : path)            (* (path, True) *)
| PBail (q : list name)       (* (join(path, rest), False): may contain ".." *)
| PErr (e : rerr).

Fixpoint mem_path (p : path) (l : list path) : bool :=
  match l with [] => false | q :: r => path_eqb p q || mem_path p r end.

Fixpoint pyres (fuel : nat) (strict : bool) (t : fsnode) (stack : list path) (cur : path)
         (cs : list name) : pres :=
  match fuel with
  | O => PErr EFuel
  | S f =>
    match cs with
    | [] => PDone cur
    | c :: r =>
      if name_eqb c dotdot then pyres f strict t stack (pop cur) r
      else
        let np := cur ++ [c] in
        match lget t np with
        | KErr e => if strict then PErr e else pyres f strict t stack np r
        | KOk (Link tg) =>
          if mem_path np stack then
            (if strict
             then (* os.stat(newpath): normally ELOOP, which Path.resolve turns into RuntimeError;
                     the kernel may object earlier, e.g. ENOTDIR for "file/.." inside a target *)
                  PErr (match kwalk f MAXSYMLINKS t [] np true with
                        | KErr ELoop => ERuntime
                        | KErr e => e
                        | KOk _ => ERuntime
                        end)
             else PBail (np ++ r))
          else match pyres f strict t (np :: stack) (if is_abs tg then [] else cur) (comps tg) with
               | PDone mid => pyres f strict t stack mid r
               | PBail q => PBail (q ++ r)
               | PErr e => PErr e
               end
        | KOk _ => pyres f strict t stack np r
        end
    end
  end.

(* os.path.normpath on an absolute path given as components *)
Definition lexnorm (q : list name) : path :=
  fold_left (fun acc c => if name_eqb c dotdot then pop acc else acc ++ [c]) q [].

(* Path.resolve() (non-strict): realpath, abspath, then stat() only to detect loops *)
Definition stat_check (fuel : nat) (t : fsnode) (p : path) : kres path :=
  match kwalk fuel MAXSYMLINKS t [] p true with
  | KErr ELoop => KErr ERuntime
  | KErr EFuel => KErr EFuel
  | _ => KOk p
  end.

Definition resolve (fuel : nat) (t : fsnode) (cs : list name) : kres path :=
  match pyres fuel false t [] [] cs with
  | PDone p => stat_check fuel t p
  | PBail q => stat_check fuel t (lexnorm q)
  | PErr e => KErr e
  end.

(* Path.resolve(strict=True) *)
Definition resolve_strict (fuel : nat) (t : fsnode) (cs : list name) : kres path :=
  match pyres fuel true t [] [] cs with
  | PDone p => KOk p
  | PBail _ => KErr ERuntime
  | PErr e => KErr e
  end.

(* `base in p.parents` *)
Fixpoint proper_prefix (b p : path) : bool :=
  match b, p with
  | [], _ :: _ => true
  | x :: b', y :: p' => name_eqb x y && proper_prefix b' p'
  | _, _ => false
  end.

(* ------------------------------------------------------------------ the server *)
Inductive outcome :=
| Served (p : path) (content : list N)    (* the path that was opened and what it holds *)
| Refused (e : rerr).

(* TFTPClientState: path.open('rb') *)
Definition open_rb (fuel : nat) (t : fsnode) (p : path) : outcome :=
  match kwalk fuel MAXSYMLINKS t [] p true with
  | KOk (_, Reg b) => Served p b
  | KOk (_, Dir _) => Refused EIsDir
  | KOk (_, Link _) => Refused ELoop
  | KErr e => Refused e
  end.

(* SimpleTFTPHandler.resolve_path followed by the open; `base` is
   SimpleTFTPServer.base_path, `root` the entries of "/" *)
Definition simple_resolve (fuel : nat) (root : list (name * fsnode)) (base : path) (nm : list N)
  : outcome :=
  let t := Dir root in
  let j := join base nm in
  match (if request_resolved then resolve fuel t (pcomps j) else KOk (pcomps j)) with
  | KErr e => Refused e
  | KOk p =>
    if proper_prefix base p then
      if recheck_strict then
        match resolve_strict fuel t p with
        | KErr e => Refused e
        | KOk p2 => if path_eqb p p2 then open_rb fuel t p else Refused EPerm
        end
      else open_rb fuel t p
    else Refused EPerm
  end.

(* ------------------------------------------------------------------ ERROR codes *)
(* python classes (ids as in harness/gen_resolve.py) each error is an instance of *)
Definition exn_classes (e : rerr) : list N :=
  match e with
  | EPerm => [1; 3; 6]
  | ENoEnt => [2; 3; 6]
  | EIsDir | ENotDir | ELoop | ENameTooLong => [3; 6]
  | ERuntime => [6]
  | EFuel => []
  end.

Fixpoint ladder_code (cls : list N) (l : list (N * N)) : option N :=
  match l with
  | [] => None
  | (c, code) :: r => if existsb (N.eqb c) cls then Some code else ladder_code cls r
  end.

(* the except clauses of do_RRQ in source order, then those of TFTPHandler.handle *)
Definition error_code (e : rerr) : option N :=
  match ladder_code (exn_classes e) rrq_ladder with
  | Some c => Some c
  | None => ladder_code (exn_classes e) handle_ladder
  end.
