(* Wire interface of the extracted Disk model (see runner/driver.ml).
     build       (S layout)            -> image bytes
     wf          layout                -> bool
     defined     (S layout)            -> [(n, start, length, type, label)] the layout defines
     partitions  (S image [probe...])  -> result of DiskImage(sector_size=S).partitions:
                                          (is_gpt, len, keys, [getitem key...], [getitem probe...])
     crc32       bytes                 -> N
   Layout encoding:
     MBR: (0 sig tail (slot...))   slot = (0) | (1 ty first size) | (2 ty first (ebr...))
                                   ebr  = (has ty rel size link gap)
     GPT: (1 k table_lba disk_guid table_crc backup first_usable last_usable sector0 tail (entry...))
                                   sector0 = 512 bytes;  entry = () | (type guid first last flags (unit...)) *)
From Coq Require Import String List NArith ZArith.
From NV Require Import Lib.Val Lib.Res Lib.Wire Lib.Struct Disk.Model Disk.Build.
Import ListNotations.
Open Scope string_scope.

Definition get_ebr (v : val) : ebr :=
  {| e_part := if getB (arg 0 v)
               then Some {| l_type := getN (arg 1 v); l_rel := getN (arg 2 v); l_size := getN (arg 3 v) |}
               else None;
     e_link := getN (arg 4 v); e_gap := getN (arg 5 v) |}.

Definition get_slot (v : val) : slot :=
  match getN (arg 0 v) with
  | 1%N => SPrimary (getN (arg 1 v)) (getN (arg 2 v)) (getN (arg 3 v))
  | 2%N => SExtended (getN (arg 1 v)) (getN (arg 2 v)) (map get_ebr (getL (arg 3 v)))
  | _ => SEmpty
  end.

Definition get_entry (v : val) : option gentry :=
  match getL v with
  | [] => None
  | _ => Some {| ge_type := getS (arg 0 v); ge_guid := getS (arg 1 v); ge_first := getN (arg 2 v);
                 ge_last := getN (arg 3 v); ge_flags := getN (arg 4 v);
                 ge_label := map getN (getL (arg 5 v)) |}
  end.

Definition get_layout (v : val) : dlayout :=
  match getN (arg 0 v) with
  | 0%N => MBRLayout {| ml_sig := getN (arg 1 v); ml_tail := getN (arg 2 v);
                        ml_slots := map get_slot (getL (arg 3 v)) |}
  | _ => GPTLayout {| gl_esize_log := getN (arg 1 v); gl_table_lba := getN (arg 2 v);
                      gl_disk_guid := getS (arg 3 v); gl_table_crc := getN (arg 4 v);
                      gl_backup_lba := getN (arg 5 v); gl_first_usable := getN (arg 6 v);
                      gl_last_usable := getN (arg 7 v);
                      gl_sector0 := getS (arg 8 v);
                      gl_tail := getN (arg 9 v);
                      gl_entries := map get_entry (getL (arg 10 v)) |}
  end.

Definition VType (t : ptype) : val := match t with TMbr n => VN n | TGpt g => VS g end.
Definition VPart (p : part) : val :=
  VL [VN (p_start p); VN (lenN (p_data p)); VType (p_type p); VS (p_label p)].

Definition VTable (probes : list Z) (t : ptable) : val :=
  let keys := tab_keys t in
  VL [VB (tab_is_gpt t);
      VRes VN (tab_len t);
      VRes (fun ks => VL (map VN ks)) keys;
      VL (match keys with
          | Ok ks => map (fun k => VRes VPart (tab_getitem t (Z.of_N k))) ks
          | Err _ => []
          end);
      VL (map (fun i => VRes VPart (tab_getitem t i)) probes)].

Definition VDefined (S : N) (l : dlayout) : val :=
  match l with
  | MBRLayout m =>
    VL (map (fun x => match x with (n, (ty, first, size)) =>
                        VL [VN n; VN (first * S); VN (size * S); VN ty; VS (mbr_label_text n)] end)
            (mbr_defined m))
  | GPTLayout g =>
    VL (map (fun x => match x with (n, e) =>
                        VL [VN n; VN (ge_first e * S); VN ((ge_last e + 1 - ge_first e) * S);
                            VS (ge_type e); VS (ge_label e)] end)
            (gpt_defined g))
  end.

Definition dispatch (cmd : string) (a : val) : val :=
  if String.eqb cmd "build" then VS (build (getN (arg 0 a)) (get_layout (arg 1 a)))
  else if String.eqb cmd "wf" then VB (wf (get_layout a))
  else if String.eqb cmd "defined" then VDefined (getN (arg 0 a)) (get_layout (arg 1 a))
  else if String.eqb cmd "partitions" then
    VRes (VTable (map getZ (getL (arg 2 a)))) (partitions (getS (arg 1 a)) (getN (arg 0 a)))
  else if String.eqb cmd "crc32" then VN (crc32 (getS a))
  else VErr "unknown command".
