(* Specification side of C12: disk layouts and the image a layout denotes.
   The on-disk formats are written down here from the standards (classic MBR /
   EBR chain; UEFI GPT header and entry array), independently of the tables in
   nobodd/mbr.py and nobodd/gpt.py: Proofs.v shows that the generated layouts
   coincide with these.  Executable definitions only. *)
From Coq Require Import String List NArith ZArith Bool.
From NV Require Import Lib.Val Lib.Res Lib.Struct Disk.Model.
Import ListNotations.
Open Scope N_scope.

(* ---------------------------------------------------------------- standard formats *)
Local Open Scope string_scope.
Definition STD_MBR_HEADER : layout :=
  [(FPad 218, "bootstrap_code"); (FU 2, "zero"); (FU 1, "physical_drive"); (FU 1, "seconds");
   (FU 1, "minutes"); (FU 1, "hours"); (FPad 216, "bootstrap_code"); (FU 4, "disk_sig");
   (FU 2, "copy_protect"); (FS 16, "partition_1"); (FS 16, "partition_2");
   (FS 16, "partition_3"); (FS 16, "partition_4"); (FU 2, "boot_sig")].
Definition STD_MBR_PARTITION : layout :=
  [(FU 1, "status"); (FS 3, "first_chs"); (FU 1, "part_type"); (FS 3, "last_chs");
   (FU 4, "first_lba"); (FU 4, "part_size")].
Definition STD_GPT_HEADER : layout :=
  [(FS 8, "signature"); (FU 4, "revision"); (FU 4, "header_size"); (FU 4, "header_crc32");
   (FPad 4, "reserved"); (FU 8, "current_lba"); (FU 8, "backup_lba");
   (FU 8, "first_usable_lba"); (FU 8, "last_usable_lba"); (FS 16, "disk_guid");
   (FU 8, "part_table_lba"); (FU 4, "part_table_size"); (FU 4, "part_entry_size");
   (FU 4, "part_table_crc32")].
Definition STD_GPT_PARTITION : layout :=
  [(FS 16, "type_guid"); (FS 16, "part_guid"); (FU 8, "first_lba"); (FU 8, "last_lba");
   (FU 8, "flags"); (FS 72, "part_label")].
Local Close Scope string_scope.

Definition BOOT_SIG : N := 0xAA55.
Definition EFI_PART : list N := [69; 70; 73; 32; 80; 65; 82; 84].   (* "EFI PART" *)
Definition GPT_REVISION : N := 0x10000.
Definition GPT_HEADER_SIZE : N := 92.
Definition PROTECTIVE : N := 0xEE.

(* ---------------------------------------------------------------- layouts *)
Record logical := { l_type : N; l_rel : N; l_size : N }.
(* one extended boot record: its first slot (a logical partition starting l_rel
   sectors after the EBR, or empty), the type used for the link to the next
   EBR, and a gap of unused sectors before the next EBR *)
Record ebr := { e_part : option logical; e_link : N; e_gap : N }.

Inductive slot :=
| SEmpty
| SPrimary (ty first size : N)
| SExtended (ty first : N) (chain : list ebr).

Record mbr_layout := { ml_sig : N; ml_slots : list slot; ml_tail : N }.

Record gentry := { ge_type : list N; ge_guid : list N; ge_first : N; ge_last : N;
                   ge_flags : N; ge_label : list N (* UTF-16 code units *) }.

Record gpt_layout := {
  gl_esize_log : N;                  (* entry size = 128 * 2^k *)
  gl_entries : list (option gentry); (* the entry array, None = unused slot *)
  gl_table_lba : N;
  gl_disk_guid : list N;
  gl_table_crc : N;
  gl_backup_lba : N; gl_first_usable : N; gl_last_usable : N;
  gl_sector0 : list N;               (* the first 512 bytes: anything (zeros, protective or hybrid MBR) *)
  gl_tail : N }.

Inductive dlayout := MBRLayout (l : mbr_layout) | GPTLayout (l : gpt_layout).

(* ---------------------------------------------------------------- filler *)
(* byte at image offset o is (7o + 5) mod 251, produced with a small running state *)
Definition fbyte (o : N) : N := (o * 7 + 5) mod 251.
Definition fnext (c : N) : N := let c' := c + 7 in if c' <? 251 then c' else c' - 251.
Fixpoint fill (n : nat) (c : N) : list N :=
  match n with O => [] | S k => c :: fill k (fnext c) end.
(* n filler bytes for image offsets o, o+1, ... *)
Definition fillN (n o : N) : list N := fill (N.to_nat n) (fbyte o).

(* ---------------------------------------------------------------- MBR images *)
Definition part_entry (ty first size : N) : list N :=
  pack_or_nil STD_MBR_PARTITION
    [VInt 0; VBytes [0; 0; 0]; VInt ty; VBytes [0; 0; 0]; VInt first; VInt size].
Definition empty_entry : list N := part_entry 0 0 0.

Definition boot_vals (sig : N) (p1 p2 p3 p4 : list N) : list fieldval :=
  [VInt 0; VInt 0; VInt 0; VInt 0; VInt 0; VInt sig; VInt 0;
   VBytes p1; VBytes p2; VBytes p3; VBytes p4; VInt BOOT_SIG].
Definition boot_sector (sig : N) (p1 p2 p3 p4 : list N) : list N :=
  pack_or_nil STD_MBR_HEADER (boot_vals sig p1 p2 p3 p4).

Definition ebr_span (e : ebr) : N :=
  match e_part e with Some l => l_rel l + l_size l | None => 1 end + e_gap e.

Definition ebr_slot1 (e : ebr) : list N :=
  match e_part e with
  | Some l => part_entry (l_type l) (l_rel l) (l_size l)
  | None => empty_entry
  end.

(* the EBR chain laid out from sector [cur]; links are relative to [ext] *)
Fixpoint chain (S ext cur : N) (es : list ebr) : list N :=
  match es with
  | [] => []
  | e :: rest =>
    let next := cur + ebr_span e in
    let s2 := match rest with
              | [] => empty_entry
              | e' :: _ => part_entry (e_link e) (next - ext) (ebr_span e')
              end in
    boot_sector 0 (ebr_slot1 e) s2 empty_entry empty_entry
      ++ fillN (S * ebr_span e - 512) (S * cur + 512)
      ++ chain S ext next rest
  end.

Definition chain_span (es : list ebr) : N := fold_right (fun e a => ebr_span e + a) 0 es.

Definition slot_entry (s : slot) : list N :=
  match s with
  | SEmpty => empty_entry
  | SPrimary ty first size => part_entry ty first size
  | SExtended ty first es => part_entry ty first (chain_span es)
  end.

Fixpoint ext_of (slots : list slot) : option (N * list ebr) :=
  match slots with
  | [] => None
  | SExtended _ first es :: _ => Some (first, es)
  | _ :: r => ext_of r
  end.

Definition slot_end (s : slot) : N :=
  match s with SPrimary _ first size => first + size | _ => 0 end.
Definition slots_need (slots : list slot) : N := fold_right (fun s a => N.max (slot_end s) a) 0 slots.

Definition mbr_image (S : N) (l : mbr_layout) : list N :=
  let slots := ml_slots l in
  let ent i := slot_entry (nth i slots SEmpty) in
  let '(first, es) := match ext_of slots with Some x => x | None => (2, []) end in
  let chain_end := first + chain_span es in
  boot_sector (ml_sig l) (ent 0%nat) (ent 1%nat) (ent 2%nat) (ent 3%nat)
    ++ fillN (S - 512) 512
    ++ zeros S
    ++ fillN (S * (first - 2)) (S * 2)
    ++ chain S first first es
    ++ fillN (S * ((slots_need slots - chain_end) + ml_tail l)) (S * chain_end).

(* what the layout defines: (number, type, first_lba, size) in table order,
   logical partitions numbered consecutively from 5 *)
Fixpoint chain_parts (cur : N) (es : list ebr) : list (N * N * N) :=
  match es with
  | [] => []
  | e :: rest =>
    match e_part e with
    | Some l => [(l_type l, cur + l_rel l, l_size l)]
    | None => []
    end ++ chain_parts (cur + ebr_span e) rest
  end.

Fixpoint number_from {A} (n : N) (l : list A) : list (N * A) :=
  match l with [] => [] | x :: r => (n, x) :: number_from (n + 1) r end.

Fixpoint slots_parts (num : N) (slots : list slot) : list (N * (N * N * N)) :=
  match slots with
  | [] => []
  | SEmpty :: r => slots_parts (num + 1) r
  | SPrimary ty first size :: r => (num, (ty, first, size)) :: slots_parts (num + 1) r
  | SExtended _ first es :: r => number_from 5 (chain_parts first es) ++ slots_parts (num + 1) r
  end.

(* MBR partitions have no label: "Partition <n>" *)
Definition mbr_label_text (n : N) : list N := str "Partition " ++ decimal n.

Definition mbr_defined (l : mbr_layout) : list (N * (N * N * N)) := slots_parts 1 (ml_slots l).

(* ---- well-formedness *)
Definition u8 (x : N) : bool := x <? 256.
Definition u32 (x : N) : bool := x <? 4294967296.
Definition u64 (x : N) : bool := x <? 18446744073709551616.
Definition ext_type (t : N) : bool := (t =? 5) || (t =? 15).

Definition wf_logical (l : logical) : bool :=
  negb (l_type l =? 0) && u8 (l_type l) && (1 <=? l_rel l) && u32 (l_rel l) && u32 (l_size l).

Definition wf_ebr (e : ebr) : bool :=
  match e_part e with Some l => wf_logical l | None => true end
  && ext_type (e_link e) && u32 (ebr_span e).

Definition wf_slot (s : slot) : bool :=
  match s with
  | SEmpty => true
  | SPrimary ty first size =>
    negb (ty =? 0) && negb (ext_type ty) && u8 ty && u32 first && u32 size
  | SExtended ty first es =>
    ext_type ty && (2 <=? first) && u32 first && u32 (chain_span es)
    && negb (match es with [] => true | _ => false end) && forallb wf_ebr es
  end.

Definition is_ext (s : slot) : bool := match s with SExtended _ _ _ => true | _ => false end.

(* a lone type-0xEE partition in slot 1 is a protective MBR, not an MBR disk *)
Definition protective_shape (l : mbr_layout) : bool :=
  match mbr_defined l with
  | [(1, (ty, _, _))] => ty =? PROTECTIVE
  | _ => false
  end.

Definition wf_mbr (l : mbr_layout) : bool :=
  (length (ml_slots l) =? 4)%nat && u32 (ml_sig l) && forallb wf_slot (ml_slots l)
  && (length (filter is_ext (ml_slots l)) <=? 1)%nat && negb (protective_shape l).

(* ---------------------------------------------------------------- GPT images *)
Definition unit_bytes (u : N) : list N := [u mod 256; u / 256].
Definition label_bytes (us : list N) : list N :=
  flat_map unit_bytes us ++ zeros (72 - 2 * lenN us).

Definition zero16 : list N := zeros 16.
Definition entry_vals (o : option gentry) : list fieldval :=
  match o with
  | Some e => [VBytes (ge_type e); VBytes (ge_guid e); VInt (ge_first e); VInt (ge_last e);
               VInt (ge_flags e); VBytes (label_bytes (ge_label e))]
  | None => [VBytes zero16; VBytes zero16; VInt 0; VInt 0; VInt 0; VBytes (zeros 72)]
  end.

Definition esize_of (l : gpt_layout) : N := 128 * 2 ^ gl_esize_log l.
Definition count_of (l : gpt_layout) : N := lenN (gl_entries l).

Definition entry_bytes (esize : N) (o : option gentry) : list N :=
  pack_or_nil STD_GPT_PARTITION (entry_vals o) ++ zeros (esize - 128).

Definition header_vals (l : gpt_layout) (crc : N) : list fieldval :=
  [VBytes EFI_PART; VInt GPT_REVISION; VInt GPT_HEADER_SIZE; VInt crc; VInt 1;
   VInt (gl_backup_lba l); VInt (gl_first_usable l); VInt (gl_last_usable l);
   VBytes (gl_disk_guid l); VInt (gl_table_lba l); VInt (count_of l); VInt (esize_of l);
   VInt (gl_table_crc l)].

(* the stored checksum is the CRC-32 of the header with the checksum field zero *)
Definition header_crc (l : gpt_layout) : N :=
  crc32 (pack_or_nil STD_GPT_HEADER (header_vals l 0)).
Definition header_bytes (l : gpt_layout) : list N :=
  pack_or_nil STD_GPT_HEADER (header_vals l (header_crc l)).

Definition table_sectors (S : N) (l : gpt_layout) : N := (count_of l * esize_of l + S - 1) / S.

Definition entry_end (o : option gentry) : N := match o with Some e => ge_last e + 1 | None => 0 end.
Definition entries_need (es : list (option gentry)) : N :=
  fold_right (fun o a => N.max (entry_end o) a) 0 es.

Definition gpt_image (S : N) (l : gpt_layout) : list N :=
  let ts := table_sectors S l in
  let tend := gl_table_lba l + ts in
  gl_sector0 l
    ++ fillN (S - 512) 512
    ++ (header_bytes l ++ zeros (S - 92))
    ++ fillN (S * (gl_table_lba l - 2)) (S * 2)
    ++ (concat (map (entry_bytes (esize_of l)) (gl_entries l))
          ++ zeros (S * ts - count_of l * esize_of l))
    ++ fillN (S * ((entries_need (gl_entries l) - tend) + gl_tail l)) (S * tend).

(* the protective MBR: one partition of type 0xEE from LBA 1 *)
Definition protective_sector (size : N) : list N :=
  boot_sector 0 (part_entry PROTECTIVE 1 size) empty_entry empty_entry empty_entry.

(* defined partitions: 1-based positions of the used slots *)
Fixpoint entries_defined (n : N) (es : list (option gentry)) : list (N * gentry) :=
  match es with
  | [] => []
  | Some e :: r => (n, e) :: entries_defined (n + 1) r
  | None :: r => entries_defined (n + 1) r
  end.
Definition gpt_defined (l : gpt_layout) : list (N * gentry) := entries_defined 1 (gl_entries l).

(* ---- well-formedness *)
Definition guid_ok (g : list N) : bool :=
  (length g =? 16)%nat && bytes_ok g && negb (bytes_eqb g zero16).

(* label: at most 36 BMP non-surrogate code units, not ending in NUL *)
Definition unit_ok (u : N) : bool := (u <? 0xD800) || ((0xE000 <=? u) && (u <? 65536)).
Definition label_ok (us : list N) : bool :=
  (length us <=? 36)%nat && forallb unit_ok us && negb (last us 1 =? 0).

Definition wf_gentry (e : gentry) : bool :=
  guid_ok (ge_type e) && guid_ok (ge_guid e) && (ge_first e <=? ge_last e)
  && u64 (ge_last e + 1) && u64 (ge_flags e) && label_ok (ge_label e).

Definition wf_gpt (l : gpt_layout) : bool :=
  (gl_esize_log l <=? 8) && negb (match gl_entries l with [] => true | _ => false end)
  && u32 (count_of l)
  && forallb (fun o => match o with Some e => wf_gentry e | None => true end) (gl_entries l)
  && (2 <=? gl_table_lba l) && u64 (gl_table_lba l)
  && (length (gl_disk_guid l) =? 16)%nat && bytes_ok (gl_disk_guid l)
  && u32 (gl_table_crc l) && u64 (gl_backup_lba l) && u64 (gl_first_usable l)
  && u64 (gl_last_usable l)
  && (length (gl_sector0 l) =? 512)%nat && bytes_ok (gl_sector0 l).

(* ---------------------------------------------------------------- build *)
Definition build (S : N) (l : dlayout) : list N :=
  match l with MBRLayout m => mbr_image S m | GPTLayout g => gpt_image S g end.

Definition wf (l : dlayout) : bool :=
  match l with MBRLayout m => wf_mbr m | GPTLayout g => wf_gpt g end.

(* sector sizes: positive multiples of 512 *)
Definition sector_ok (S : N) : Prop := exists k, 0 < k /\ S = 512 * k.
