(* C12 proofs, part 2: MBR / EBR chains.  parse (build layout) = layout. *)
From Coq Require Import String List NArith ZArith Bool Arith Lia.
From NV Require Import Lib.Val Lib.Res Lib.Struct Lib.StructProofs Gen.Disk Disk.Model Disk.Build
  Disk.ProofsBase.
Import ListNotations.
Open Scope N_scope.

(* ================================================================ partition entries *)
Definition mk (x : N * N * N) : mpart :=
  match x with (ty, first, size) => {| mp_type := ty; mp_first := first; mp_size := size |} end.

Lemma part_entry_vals_ok ty first size :
  ty < 256 -> first < 4294967296 -> size < 4294967296 ->
  vals_ok MBR_PARTITION
    [VInt 0; VBytes [0; 0; 0]; VInt ty; VBytes [0; 0; 0]; VInt first; VInt size] = true.
Proof.
  intros H1 H2 H3. rewrite mbr_partition_std. unfold STD_MBR_PARTITION. cbn [vals_ok].
  rewrite (val_ok_u1 ty H1), (val_ok_u4 first H2), (val_ok_u4 size H3). reflexivity.
Qed.

Lemma parse_part_entry ty first size :
  ty < 256 -> first < 4294967296 -> size < 4294967296 ->
  parse_mpart (part_entry ty first size) = Ok (mk (ty, first, size)).
Proof.
  intros H1 H2 H3. unfold parse_mpart, part_entry. rewrite <- mbr_partition_std.
  rewrite unpack_exact_pack by now apply part_entry_vals_ok. reflexivity.
Qed.

Lemma parse_empty_entry : parse_mpart empty_entry = Ok (mk (0, 0, 0)).
Proof. apply parse_part_entry; lia. Qed.

Definition entry16 (p : list N) : Prop := length p = 16%nat /\ bytes_ok p = true.

Lemma part_entry_16 ty first size :
  ty < 256 -> first < 4294967296 -> size < 4294967296 -> entry16 (part_entry ty first size).
Proof.
  intros H1 H2 H3. split.
  - apply length_lenN. unfold part_entry. rewrite <- mbr_partition_std.
    rewrite lenN_pack_or_nil by now apply part_entry_vals_ok. reflexivity.
  - apply bytes_ok_pack_or_nil.
Qed.

Lemma empty_entry_16 : entry16 empty_entry.
Proof. apply part_entry_16; lia. Qed.

(* ================================================================ boot sectors *)
Lemma boot_vals_ok sig p1 p2 p3 p4 :
  sig < 4294967296 -> entry16 p1 -> entry16 p2 -> entry16 p3 -> entry16 p4 ->
  vals_ok MBR_HEADER (boot_vals sig p1 p2 p3 p4) = true.
Proof.
  intros Hs [L1 B1] [L2 B2] [L3 B3] [L4 B4].
  rewrite mbr_header_std. unfold STD_MBR_HEADER, boot_vals. cbn [vals_ok].
  rewrite (val_ok_u4 sig Hs), !val_ok_s by assumption. reflexivity.
Qed.

Lemma lenN_boot_sector sig p1 p2 p3 p4 :
  sig < 4294967296 -> entry16 p1 -> entry16 p2 -> entry16 p3 -> entry16 p4 ->
  lenN (boot_sector sig p1 p2 p3 p4) = 512.
Proof.
  intros. unfold boot_sector. rewrite <- mbr_header_std.
  rewrite lenN_pack_or_nil by now apply boot_vals_ok. reflexivity.
Qed.

Lemma read_boot_sector pre post off sig p1 p2 p3 p4 :
  sig < 4294967296 -> entry16 p1 -> entry16 p2 -> entry16 p3 -> entry16 p4 ->
  lenN pre = off ->
  unpack_from MBR_HEADER (pre ++ boot_sector sig p1 p2 p3 p4 ++ post) off
  = Ok (boot_vals sig p1 p2 p3 p4).
Proof.
  intros. unfold boot_sector. rewrite <- mbr_header_std.
  apply unpack_from_app; [now apply boot_vals_ok|assumption].
Qed.

Lemma boot_vals_sig sig p1 p2 p3 p4 :
  get_int MBR_HEADER "boot_sig" (boot_vals sig p1 p2 p3 p4) = BOOT_SIG.
Proof. reflexivity. Qed.
Lemma boot_vals_zero sig p1 p2 p3 p4 :
  get_int MBR_HEADER "zero" (boot_vals sig p1 p2 p3 p4) = 0.
Proof. reflexivity. Qed.
Lemma boot_vals_p1 sig p1 p2 p3 p4 :
  get_bytes MBR_HEADER "partition_1" (boot_vals sig p1 p2 p3 p4) = p1.
Proof. reflexivity. Qed.
Lemma boot_vals_p2 sig p1 p2 p3 p4 :
  get_bytes MBR_HEADER "partition_2" (boot_vals sig p1 p2 p3 p4) = p2.
Proof. reflexivity. Qed.
Lemma boot_vals_slots sig p1 p2 p3 p4 :
  header_slots (boot_vals sig p1 p2 p3 p4) = [p1; p2; p3; p4].
Proof. reflexivity. Qed.

(* ================================================================ _get_logical *)
(* one turn of the loop on an EBR whose two slots are known *)
Lemma get_logical_step f mem ss ext lo sig s1 s2 s3 s4 t1 f1 z1 t2 f2 z2 :
  unpack_from MBR_HEADER mem (ebr_offset lo ss) = Ok (boot_vals sig s1 s2 s3 s4) ->
  parse_mpart s1 = Ok (mk (t1, f1, z1)) -> parse_mpart s2 = Ok (mk (t2, f2, z2)) ->
  get_logical (S f) mem ss ext lo =
    let y := if ebr_first_yielded t1 f1 z1
             then [mk (t1, logical_first_lba f1 lo ext, z1)] else [] in
    if ebr_terminal t2 f2 z2 then Ok y
    else if ebr_link_bad t2 f2 z2 then Err ValueError
    else do rest <- get_logical f mem ss ext (next_logical_offset f2 lo ext); Ok (y ++ rest).
Proof.
  intros H0 H1 H2. cbn [get_logical]. rewrite H0. cbn [bind].
  rewrite boot_vals_sig, boot_vals_p1, boot_vals_p2, H1, H2. cbn [bind mk mp_type mp_first mp_size].
  reflexivity.
Qed.

Lemma ext_type_cases t : ext_type t = true -> t = 5 \/ t = 15.
Proof.
  unfold ext_type. intros H. apply orb_true_iff in H as [H|H]; apply N.eqb_eq in H; auto.
Qed.

Lemma ebr_span_pos e : wf_ebr e = true -> 1 <= ebr_span e.
Proof.
  unfold wf_ebr, ebr_span. intros H. destruct (e_part e) as [l|]; [|lia].
  apply andb_true_iff in H as [H _]. apply andb_true_iff in H as [H _].
  unfold wf_logical in H. repeat (apply andb_true_iff in H as [H ?]).
  match goal with H : (1 <=? _) = true |- _ => apply N.leb_le in H end. lia.
Qed.

Lemma wf_ebr_parts e :
  wf_ebr e = true ->
  (e_link e = 5 \/ e_link e = 15) /\ ebr_span e < 4294967296 /\
  match e_part e with
  | Some l => l_type l <> 0 /\ l_type l < 256 /\ 1 <= l_rel l /\ l_rel l < 4294967296
              /\ l_size l < 4294967296
  | None => True
  end.
Proof.
  unfold wf_ebr. intros H. apply andb_true_iff in H as [H Hs]. apply andb_true_iff in H as [Hp Hl].
  split; [now apply ext_type_cases|]. split; [now apply u32_lt|].
  destruct (e_part e) as [l|]; [|exact I]. unfold wf_logical in Hp.
  repeat (apply andb_true_iff in Hp as [Hp ?]).
  repeat match goal with
         | H : u8 _ = true |- _ => apply u8_lt in H
         | H : u32 _ = true |- _ => apply u32_lt in H
         | H : (_ <=? _) = true |- _ => apply N.leb_le in H
         | H : negb (_ =? _) = true |- _ => apply negb_true_iff, N.eqb_neq in H
         end.
  repeat split; assumption.
Qed.

Lemma ebr_slot1_16 e : wf_ebr e = true -> entry16 (ebr_slot1 e).
Proof.
  intros H. apply wf_ebr_parts in H as (_ & _ & H). unfold ebr_slot1.
  destruct (e_part e) as [l|]; [|apply empty_entry_16].
  destruct H as (_ & ? & _ & ? & ?). now apply part_entry_16.
Qed.

Lemma parse_ebr_slot1 e :
  wf_ebr e = true ->
  parse_mpart (ebr_slot1 e) =
  Ok (mk (match e_part e with Some l => (l_type l, l_rel l, l_size l) | None => (0, 0, 0) end)).
Proof.
  intros H. apply wf_ebr_parts in H as (_ & _ & H). unfold ebr_slot1.
  destruct (e_part e) as [l|]; [|apply parse_empty_entry].
  destruct H as (_ & ? & _ & ? & ?). now apply parse_part_entry.
Qed.

Lemma chain_span_cons e es : chain_span (e :: es) = ebr_span e + chain_span es.
Proof. reflexivity. Qed.

Lemma chain_cons S ext cur e rest :
  chain S ext cur (e :: rest) =
  boot_sector 0 (ebr_slot1 e)
    (match rest with
     | [] => empty_entry
     | e' :: _ => part_entry (e_link e) (cur + ebr_span e - ext) (ebr_span e')
     end) empty_entry empty_entry
    ++ fillN (S * ebr_span e - 512) (S * cur + 512)
    ++ chain S ext (cur + ebr_span e) rest.
Proof. reflexivity. Qed.

Lemma chain_parts_cons cur e rest :
  chain_parts cur (e :: rest) =
  match e_part e with
  | Some l => [(l_type l, cur + l_rel l, l_size l)]
  | None => []
  end ++ chain_parts (cur + ebr_span e) rest.
Proof. reflexivity. Qed.

Lemma lenN_chain S ext : sector_ok S -> forall es cur,
  forallb wf_ebr es = true -> cur + chain_span es < ext + 4294967296 -> ext <= cur ->
  lenN (chain S ext cur es) = S * chain_span es.
Proof.
  intros HS es. pose proof (sector_ok_ge S HS) as HS'.
  induction es as [|e rest IH]; intros cur W B Hle.
  - cbn. unfold lenN. cbn. lia.
  - cbn [forallb] in W. apply andb_true_iff in W as [We Wr].
    pose proof (ebr_span_pos e We) as Hp.
    pose proof (wf_ebr_parts e We) as (Hl & Hsp & _).
    rewrite chain_span_cons in *. rewrite chain_cons.
    rewrite !lenN_app, lenN_fillN, IH by (try assumption; lia).
    assert (512 <= S * ebr_span e) by nia.
    rewrite lenN_boot_sector; try apply empty_entry_16; try (now apply ebr_slot1_16); try lia.
    + destruct rest as [|e' r']; [apply empty_entry_16|].
      cbn [forallb] in Wr. apply andb_true_iff in Wr as [We' _].
      pose proof (wf_ebr_parts e' We') as (_ & Hsp' & _).
      apply part_entry_16; [destruct Hl as [-> | ->]; lia| |lia].
      rewrite chain_span_cons in B. lia.
Qed.

Definition slot1_triple (e : ebr) : N * N * N :=
  match e_part e with Some l => (l_type l, l_rel l, l_size l) | None => (0, 0, 0) end.

Lemma ebr_yield e cur ext t1 f1 z1 :
  wf_ebr e = true -> slot1_triple e = (t1, f1, z1) ->
  (if ebr_first_yielded t1 f1 z1 then [mk (t1, logical_first_lba f1 cur ext, z1)] else [])
  = map mk (match e_part e with
            | Some l => [(l_type l, cur + l_rel l, l_size l)]
            | None => []
            end).
Proof.
  intros We T. apply wf_ebr_parts in We as (_ & _ & Hpart). unfold slot1_triple in T.
  destruct (e_part e) as [l|]; injection T as <- <- <-.
  - destruct Hpart as (Hty & _). unfold ebr_first_yielded, logical_first_lba.
    apply N.eqb_neq in Hty. rewrite Hty. cbn [negb map]. now rewrite N.add_comm.
  - reflexivity.
Qed.

Lemma ebr_terminal_link t f z : t = 5 \/ t = 15 -> ebr_terminal t f z = false.
Proof. intros [-> | ->]; reflexivity. Qed.
Lemma ebr_link_ok t f z : t = 5 \/ t = 15 -> ebr_link_bad t f z = false.
Proof. intros [-> | ->]; reflexivity. Qed.

(* the partitions a chain defines, as the parser reports them *)
Theorem get_logical_chain S ext : sector_ok S -> forall es cur pre post fuel,
  es <> [] -> forallb wf_ebr es = true ->
  cur + chain_span es < ext + 4294967296 -> ext <= cur ->
  lenN pre = S * cur -> (length es <= fuel)%nat ->
  get_logical fuel (pre ++ chain S ext cur es ++ post) S ext cur
  = Ok (map mk (chain_parts cur es)).
Proof.
  intros HS es. pose proof (sector_ok_ge S HS) as HS'.
  induction es as [|e rest IH]; intros cur pre post fuel Hne W B Hle Hpre Hf; [congruence|].
  cbn [forallb] in W. apply andb_true_iff in W as [We Wr].
  pose proof (ebr_span_pos e We) as Hp.
  pose proof (wf_ebr_parts e We) as (Hl & Hsp & _).
  rewrite chain_span_cons in B.
  destruct fuel as [|f]; [cbn in Hf; lia|]. cbn [length] in Hf.
  destruct (slot1_triple e) as [[t1 f1] z1] eqn:T1.
  pose proof (parse_ebr_slot1 e We) as P1. fold (slot1_triple e) in P1. rewrite T1 in P1.
  pose proof (ebr_yield e cur ext t1 f1 z1 We T1) as Hy.
  destruct rest as [|e' r'].
  - (* last EBR of the chain: terminal second slot *)
    rewrite chain_cons, chain_parts_cons. cbn [chain chain_parts]. rewrite !app_nil_r, <- !app_assoc.
    erewrite get_logical_step; cycle 1.
    + unfold ebr_offset. rewrite N.mul_comm.
      apply read_boot_sector; try assumption; try apply empty_entry_16; try lia.
      now apply ebr_slot1_16.
    + exact P1.
    + apply parse_empty_entry.
    + cbv zeta. rewrite Hy. reflexivity.
  - (* link to the next EBR *)
    cbn [forallb] in Wr. pose proof Wr as Wr'. apply andb_true_iff in Wr' as [We' _].
    pose proof (wf_ebr_parts e' We') as (_ & Hsp' & _).
    pose proof (ebr_span_pos e' We') as Hp'.
    pose proof B as B'. rewrite chain_span_cons in B'.
    assert (Hlk : e_link e < 256) by (destruct Hl as [-> | ->]; lia).
    rewrite chain_cons, chain_parts_cons.
    set (next := cur + ebr_span e) in *.
    set (s2 := part_entry (e_link e) (next - ext) (ebr_span e')).
    assert (H16 : entry16 s2) by (apply part_entry_16; subst next; lia).
    assert (P2 : parse_mpart s2 = Ok (mk (e_link e, next - ext, ebr_span e')))
      by (apply parse_part_entry; subst next; lia).
    set (blk := boot_sector 0 (ebr_slot1 e) s2 empty_entry empty_entry
                  ++ fillN (S * ebr_span e - 512) (S * cur + 512)).
    assert (Hblk : lenN blk = S * ebr_span e).
    { subst blk. assert (512 <= S * ebr_span e) by nia.
      rewrite lenN_app, lenN_fillN, lenN_boot_sector; try apply empty_entry_16;
        try assumption; try (now apply ebr_slot1_16); lia. }
    set (mem := pre ++ (boot_sector 0 (ebr_slot1 e) s2 empty_entry empty_entry
                   ++ fillN (S * ebr_span e - 512) (S * cur + 512)
                   ++ chain S ext next (e' :: r')) ++ post).
    assert (Hmem : mem = (pre ++ blk) ++ chain S ext next (e' :: r') ++ post).
    { subst mem blk. now rewrite <- !app_assoc. }
    erewrite get_logical_step; cycle 1.
    + subst mem. rewrite <- !app_assoc. unfold ebr_offset. rewrite N.mul_comm.
      apply read_boot_sector; try assumption; try apply empty_entry_16; try lia.
      now apply ebr_slot1_16.
    + exact P1.
    + exact P2.
    + cbv zeta. rewrite Hy, (ebr_terminal_link _ _ _ Hl), (ebr_link_ok _ _ _ Hl).
      replace (next_logical_offset (next - ext) cur ext) with next
        by (unfold next_logical_offset; subst next; lia).
      rewrite Hmem, IH; try assumption; try discriminate; try (subst next; lia).
      * cbn [bind]. now rewrite map_app.
      * rewrite lenN_app, Hblk, Hpre. subst next. lia.
Qed.

(* ================================================================ _get_primary *)
Definition mk2 (x : N * (N * N * N)) : N * mpart := (fst x, mk (snd x)).

Lemma primary_loop_cons mem ss buf r num p :
  parse_mpart buf = Ok p ->
  primary_loop mem ss (buf :: r) num =
  if is_extended (mp_type p) then
    do ls <- get_logical (chain_fuel mem ss) mem ss
                         (logical_ext_offset (mp_first p)) (logical_ext_offset (mp_first p));
    do rest <- primary_loop mem ss r (num + 1);
    Ok (enumerate logical_start ls ++ rest)
  else if primary_defined (mp_type p) then
    do rest <- primary_loop mem ss r (num + 1); Ok ((num, p) :: rest)
  else primary_loop mem ss r (num + 1).
Proof. intros H. cbn [primary_loop]. rewrite H. reflexivity. Qed.

Lemma wf_slot_primary ty first size :
  wf_slot (SPrimary ty first size) = true ->
  ty <> 0 /\ ext_type ty = false /\ ty < 256 /\ first < 4294967296 /\ size < 4294967296.
Proof.
  cbn [wf_slot]. intros H. repeat (apply andb_true_iff in H as [H ?]).
  repeat match goal with
         | H : u8 _ = true |- _ => apply u8_lt in H
         | H : u32 _ = true |- _ => apply u32_lt in H
         | H : negb (_ =? _) = true |- _ => apply negb_true_iff, N.eqb_neq in H
         | H : negb _ = true |- _ => apply negb_true_iff in H
         end.
  repeat split; assumption.
Qed.

Lemma wf_slot_extended ty first es :
  wf_slot (SExtended ty first es) = true ->
  ext_type ty = true /\ 2 <= first /\ first < 4294967296 /\ chain_span es < 4294967296 /\
  es <> [] /\ forallb wf_ebr es = true.
Proof.
  cbn [wf_slot]. intros H. repeat (apply andb_true_iff in H as [H ?]).
  repeat match goal with
         | H : u32 _ = true |- _ => apply u32_lt in H
         | H : (_ <=? _) = true |- _ => apply N.leb_le in H
         end.
  repeat split; try assumption. destruct es; [discriminate|discriminate].
Qed.

Lemma slots_parts_cons num s r :
  slots_parts num (s :: r) =
  match s with
  | SEmpty => slots_parts (num + 1) r
  | SPrimary ty first size => (num, (ty, first, size)) :: slots_parts (num + 1) r
  | SExtended _ first es => number_from 5 (chain_parts first es) ++ slots_parts (num + 1) r
  end.
Proof. destruct s; reflexivity. Qed.

Theorem primary_loop_slots mem S : forall ss num,
  forallb wf_slot ss = true ->
  (forall ty first es, In (SExtended ty first es) ss ->
     get_logical (chain_fuel mem S) mem S first first = Ok (map mk (chain_parts first es))) ->
  primary_loop mem S (map slot_entry ss) num = Ok (map mk2 (slots_parts num ss)).
Proof.
  induction ss as [|s r IH]; intros num W HL; [reflexivity|].
  cbn [forallb] in W. apply andb_true_iff in W as [Ws Wr].
  assert (IH' := IH (num + 1) Wr (fun ty first es H => HL ty first es (or_intror H))).
  cbn [map]. rewrite slots_parts_cons. destruct s as [|ty first size|ty first es]; cbn [slot_entry].
  - rewrite (primary_loop_cons _ _ _ _ _ _ parse_empty_entry). cbn [mk mp_type].
    change (is_extended 0) with false. change (primary_defined 0) with false. cbn iota. exact IH'.
  - apply wf_slot_primary in Ws as (H0 & He & H1 & H2 & H3).
    rewrite (primary_loop_cons _ _ _ _ _ _ (parse_part_entry ty first size H1 H2 H3)).
    cbn [mk mp_type]. change (is_extended ty) with (ext_type ty). rewrite He.
    unfold primary_defined. apply N.eqb_neq in H0. rewrite H0. cbn [negb]. rewrite IH'. reflexivity.
  - apply wf_slot_extended in Ws as (He & H2 & H3 & H4 & Hne & Wes).
    assert (T : ty < 256) by (apply ext_type_cases in He as [-> | ->]; lia).
    rewrite (primary_loop_cons _ _ _ _ _ _ (parse_part_entry ty first (chain_span es) T H3 H4)).
    cbn [mk mp_type mp_first]. change (is_extended ty) with (ext_type ty). rewrite He.
    unfold logical_ext_offset. rewrite (HL ty first es (or_introl eq_refl)). cbn [bind].
    rewrite IH'. cbn [bind]. change logical_start with 5.
    rewrite enumerate_number_from, number_from_map, map_app. reflexivity.
Qed.

(* ================================================================ the image *)
Lemma ext_of_unique ss ty first es :
  (length (filter is_ext ss) <= 1)%nat -> In (SExtended ty first es) ss ->
  ext_of ss = Some (first, es).
Proof.
  induction ss as [|s r IH]; intros L H; [destruct H|].
  destruct H as [->|H].
  - reflexivity.
  - destruct s as [| |ty' first' es']; cbn [filter is_ext ext_of length] in *; try (apply IH; [lia|assumption]).
    exfalso. assert (In (SExtended ty first es) (filter is_ext r)) by (apply filter_In; auto).
    destruct (filter is_ext r); [contradiction|cbn in L; lia].
Qed.

Lemma ext_of_in ss first es :
  ext_of ss = Some (first, es) -> exists ty, In (SExtended ty first es) ss.
Proof.
  induction ss as [|s r IH]; intros H; [discriminate|].
  destruct s as [|t0 f0 z0|t0 f0 c0]; cbn [ext_of] in H; try (destruct (IH H) as [ty' ?]; exists ty'; now right).
  injection H as <- <-. eexists. left. reflexivity.
Qed.

Lemma chain_span_ge_length es :
  forallb wf_ebr es = true -> N.of_nat (length es) <= chain_span es.
Proof.
  induction es as [|e r IH]; intros W; [cbn; lia|].
  cbn [forallb] in W. apply andb_true_iff in W as [We Wr].
  rewrite chain_span_cons. cbn [length]. pose proof (ebr_span_pos e We). specialize (IH Wr). lia.
Qed.

Lemma slot_entry_16 s : wf_slot s = true -> entry16 (slot_entry s).
Proof.
  destruct s as [|ty first size|ty first es]; intros W; cbn [slot_entry].
  - apply empty_entry_16.
  - apply wf_slot_primary in W as (H0 & He & H1 & H2 & H3). now apply part_entry_16.
  - apply wf_slot_extended in W as (He & H2 & H3 & H4 & Hne & Wes).
    apply part_entry_16; try assumption. apply ext_type_cases in He as [-> | ->]; lia.
Qed.

(* the pieces of an MBR image *)
Record mbr_image_facts (S : N) (l : mbr_layout) (img : list N) : Prop := {
  mf_boot : unpack_from MBR_HEADER img 0 =
            Ok (boot_vals (ml_sig l) (slot_entry (nth 0 (ml_slots l) SEmpty))
                          (slot_entry (nth 1 (ml_slots l) SEmpty))
                          (slot_entry (nth 2 (ml_slots l) SEmpty))
                          (slot_entry (nth 3 (ml_slots l) SEmpty)));
  mf_gpt : gpt_init img S = Err ValueError;
  mf_chain : forall ty first es, In (SExtended ty first es) (ml_slots l) ->
             get_logical (chain_fuel img S) img S first first = Ok (map mk (chain_parts first es));
  mf_len : forall ty first es, In (SExtended ty first es) (ml_slots l) ->
           S * (first + chain_span es) <= lenN img;
  mf_need : S * slots_need (ml_slots l) <= lenN img }.

Definition zero_gpt_header : res (list fieldval) :=
  Eval vm_compute in unpack_exact GPT_HEADER (zeros (sizeN GPT_HEADER)).

Lemma zero_gpt_header_eq : unpack_exact GPT_HEADER (zeros (sizeN GPT_HEADER)) = zero_gpt_header.
Proof. vm_compute. reflexivity. Qed.

Lemma wf_mbr_parts l :
  wf_mbr l = true ->
  length (ml_slots l) = 4%nat /\ ml_sig l < 4294967296 /\ forallb wf_slot (ml_slots l) = true /\
  (length (filter is_ext (ml_slots l)) <= 1)%nat /\ protective_shape l = false.
Proof.
  unfold wf_mbr. intros H. repeat (apply andb_true_iff in H as [H ?]).
  repeat match goal with
         | H : u32 _ = true |- _ => apply u32_lt in H
         | H : (_ =? _)%nat = true |- _ => apply Nat.eqb_eq in H
         | H : (_ <=? _)%nat = true |- _ => apply Nat.leb_le in H
         | H : negb _ = true |- _ => apply negb_true_iff in H
         end.
  repeat split; assumption.
Qed.

Theorem mbr_image_ok S l : sector_ok S -> wf_mbr l = true -> mbr_image_facts S l (mbr_image S l).
Proof.
  intros HS W. pose proof (sector_ok_ge S HS) as HS'.
  apply wf_mbr_parts in W as (L4 & Hsig & Wss & Hone & _).
  assert (E16 : forall i, entry16 (slot_entry (nth i (ml_slots l) SEmpty))).
  { intros i. apply slot_entry_16. destruct (nth_in_or_default i (ml_slots l) SEmpty) as [H|H]; [|rewrite H; reflexivity].
    rewrite forallb_forall in Wss. now apply Wss. }
  unfold mbr_image.
  set (ext := match ext_of (ml_slots l) with Some x => x | None => (2, []) end).
  destruct ext as [first es] eqn:Eext.
  set (b := boot_sector (ml_sig l) _ _ _ _).
  assert (Lb : lenN b = 512) by (subst b; apply lenN_boot_sector; auto).
  (* facts about the extended partition (or the default 2, []) *)
  assert (Hext : 2 <= first /\ first + chain_span es < first + 4294967296 /\ forallb wf_ebr es = true /\
                 (forall ty f e, In (SExtended ty f e) (ml_slots l) -> f = first /\ e = es /\ e <> [])).
  { subst ext. destruct (ext_of (ml_slots l)) as [[f e]|] eqn:E.
    - injection Eext as E1 E2. subst f e. destruct (ext_of_in _ _ _ E) as [ty Hin].
      rewrite forallb_forall in Wss. pose proof (Wss _ Hin) as Ws.
      apply wf_slot_extended in Ws as (He & H2 & H3 & H4 & Hne & Wes).
      split; [assumption|]. split; [lia|]. split; [assumption|].
      intros ty' f' e' Hin'. pose proof (ext_of_unique _ _ _ _ Hone Hin') as U.
      rewrite E in U. injection U as U1 U2. subst f' e'. auto.
    - injection Eext as E1 E2. subst first es.
      split; [lia|]. split; [cbn; lia|]. split; [reflexivity|].
      intros ty' f' e' Hin'. pose proof (ext_of_unique _ _ _ _ Hone Hin') as U.
      rewrite E in U. discriminate. }
  destruct Hext as (Hf2 & Hb & Wes & Huniq).
  assert (Lc : lenN (chain S first first es) = S * chain_span es) by (apply lenN_chain; auto; lia).
  set (tailfill := fillN _ (S * (first + chain_span es))).
  assert (Ltotal : lenN (b ++ fillN (S - 512) 512 ++ zeros S ++ fillN (S * (first - 2)) (S * 2)
                           ++ chain S first first es ++ tailfill)
                   = S * (first + chain_span es
                          + (slots_need (ml_slots l) - (first + chain_span es) + ml_tail l))).
  { subst tailfill. rewrite !lenN_app, !lenN_fillN, lenN_zeros, Lb, Lc. nia. }
  constructor.
  - change 0 with (lenN (@nil N)) at 1. rewrite <- (app_nil_l (b ++ _)).
    subst b. apply read_boot_sector; auto.
  - eapply reject_bad_gpt.
    + unfold gpt_header_offset. rewrite N.mul_1_r.
      rewrite (app_assoc b). rewrite unpack_from_zeros.
      * rewrite zero_gpt_header_eq. unfold zero_gpt_header. reflexivity.
      * rewrite lenN_app, lenN_fillN, Lb. lia.
      * change (sizeN GPT_HEADER) with 92. lia.
    + left. discriminate.
  - intros ty f e Hin. destruct (Huniq _ _ _ Hin) as (-> & -> & Hne).
    rewrite !app_assoc. rewrite <- (app_assoc _ (chain S first first es)).
    apply get_logical_chain; auto; try lia.
    + rewrite !lenN_app, !lenN_fillN, lenN_zeros, Lb. nia.
    + unfold chain_fuel. rewrite <- !app_assoc.
      change (lenN (b ++ fillN (S - 512) 512 ++ zeros S ++ fillN (S * (first - 2)) (S * 2)
                      ++ chain S first first es ++ tailfill)) with
          (lenN (b ++ fillN (S - 512) 512 ++ zeros S ++ fillN (S * (first - 2)) (S * 2)
                   ++ chain S first first es ++ tailfill)).
      rewrite Ltotal. pose proof (chain_span_ge_length es Wes).
      rewrite N.mul_comm, N.div_mul by lia. lia.
  - intros ty f e Hin. destruct (Huniq _ _ _ Hin) as (-> & -> & Hne). rewrite Ltotal. nia.
  - rewrite Ltotal. nia.
Qed.

(* ================================================================ partition numbers are distinct *)
Lemma NoDup_app_intro {A} (a b : list A) :
  NoDup a -> NoDup b -> (forall x, In x a -> ~ In x b) -> NoDup (a ++ b).
Proof.
  induction a as [|x a IH]; intros Ha Hb D; [exact Hb|].
  inversion Ha as [|? ? Hx Ha']; subst. cbn [app]. constructor.
  - intros H. apply in_app_or in H as [H|H]; [contradiction|]. exact (D x (or_introl eq_refl) H).
  - apply IH; auto. intros y Hy. apply D. now right.
Qed.

Lemma number_from_keys {A} n (L : list A) k :
  In k (map fst (number_from n L)) -> n <= k.
Proof.
  revert n. induction L as [|x L IH]; intros n H; [destruct H|].
  cbn in H. destruct H as [<-|H]; [lia|]. apply IH in H. lia.
Qed.

Lemma number_from_nodup {A} n (L : list A) : NoDup (map fst (number_from n L)).
Proof.
  revert n. induction L as [|x L IH]; intros n; cbn; constructor; [|apply IH].
  intros H. apply number_from_keys in H. lia.
Qed.

Definition keys_of (num : N) (ss : list slot) : list N := map fst (slots_parts num ss).

Lemma keys_noext num ss k :
  filter is_ext ss = [] -> In k (keys_of num ss) -> num <= k < num + N.of_nat (length ss).
Proof.
  unfold keys_of. revert num. induction ss as [|s r IH]; intros num F H; [destruct H|].
  rewrite slots_parts_cons in H. cbn [length]. destruct s; cbn [filter is_ext] in F; try discriminate.
  - apply IH in H; auto. lia.
  - cbn in H. destruct H as [<-|H]; [lia|]. apply IH in H; auto. lia.
Qed.

Lemma keys_any num ss k :
  In k (keys_of num ss) -> num <= k < num + N.of_nat (length ss) \/ 5 <= k.
Proof.
  unfold keys_of. revert num. induction ss as [|s r IH]; intros num H; [destruct H|].
  rewrite slots_parts_cons in H. cbn [length]. destruct s.
  - apply IH in H. lia.
  - cbn in H. destruct H as [<-|H]; [lia|]. apply IH in H. lia.
  - rewrite map_app in H. apply in_app_or in H as [H|H].
    + apply number_from_keys in H. lia.
    + apply IH in H. lia.
Qed.

Lemma keys_nodup ss : forall num,
  (length (filter is_ext ss) <= 1)%nat -> num + N.of_nat (length ss) <= 5 ->
  NoDup (keys_of num ss).
Proof.
  unfold keys_of. induction ss as [|s r IH]; intros num F B; [constructor|].
  rewrite slots_parts_cons. cbn [length] in B. destruct s; cbn [filter is_ext length] in F.
  - apply IH; [assumption|lia].
  - cbn [map fst]. constructor; [|apply IH; [assumption|lia]].
    intros H. apply (keys_any (num + 1) r) in H. lia.
  - rewrite map_app. apply NoDup_app_intro.
    + apply number_from_nodup.
    + apply IH; [lia|lia].
    + intros k H1 H2. apply number_from_keys in H1.
      apply (keys_noext (num + 1) r) in H2; [lia|].
      destruct (filter is_ext r); [reflexivity|cbn in F; lia].
Qed.

Theorem mbr_defined_nodup l : wf_mbr l = true -> NoDup (map fst (mbr_defined l)).
Proof.
  intros W. apply wf_mbr_parts in W as (L4 & _ & _ & Hone & _).
  apply (keys_nodup (ml_slots l) 1); [assumption|]. rewrite L4. cbn. lia.
Qed.

(* ================================================================ windows lie inside the image *)
Lemma chain_parts_bound es : forall cur ty a z,
  forallb wf_ebr es = true -> In (ty, a, z) (chain_parts cur es) ->
  a + z <= cur + chain_span es.
Proof.
  induction es as [|e r IH]; intros cur ty a z W H; [destruct H|].
  cbn [forallb] in W. apply andb_true_iff in W as [We Wr].
  rewrite chain_parts_cons in H. rewrite chain_span_cons.
  apply in_app_or in H as [H|H].
  - unfold ebr_span. destruct (e_part e) as [l|]; [|destruct H].
    destruct H as [H|[]]. injection H as <- <- <-. lia.
  - apply IH in H; auto. lia.
Qed.

Lemma number_from_in {A} n (L : list A) k x : In (k, x) (number_from n L) -> In x L.
Proof.
  revert n. induction L as [|y L IH]; intros n H; [destruct H|].
  cbn in H. destruct H as [H|H]; [injection H as _ <-; now left|right; eauto].
Qed.

Lemma slots_need_cons s r : slots_need (s :: r) = N.max (slot_end s) (slots_need r).
Proof. reflexivity. Qed.

Lemma slots_parts_bound ss : forall num n ty first size,
  forallb wf_slot ss = true -> In (n, (ty, first, size)) (slots_parts num ss) ->
  first + size <= slots_need ss \/
  exists ty' f es, In (SExtended ty' f es) ss /\ first + size <= f + chain_span es.
Proof.
  induction ss as [|s r IH]; intros num n ty first size W H; [destruct H|].
  cbn [forallb] in W. apply andb_true_iff in W as [Ws Wr].
  rewrite slots_parts_cons in H.
  assert (Hrest : In (n, (ty, first, size)) (slots_parts (num + 1) r) ->
          first + size <= slots_need (s :: r) \/
          exists ty' f es, In (SExtended ty' f es) (s :: r) /\ first + size <= f + chain_span es).
  { intros H'. destruct (IH _ _ _ _ _ Wr H') as [B|(ty' & f & es & Hin & B)].
    - left. rewrite slots_need_cons. lia.
    - right. exists ty', f, es. split; [now right|assumption]. }
  destruct s as [|ty0 f0 z0|ty0 f0 es0].
  - auto.
  - destruct H as [H|H]; [|auto]. injection H as _ <- <- <-. left.
    rewrite slots_need_cons. cbn [slot_end]. lia.
  - apply in_app_or in H as [H|H]; [|auto].
    apply number_from_in in H. apply wf_slot_extended in Ws as (_ & _ & _ & _ & _ & Wes).
    right. exists ty0, f0, es0. split; [now left|]. eapply chain_parts_bound; eauto.
Qed.

(* ================================================================ the theorem *)
Lemma find_num_mk2 i D :
  find_num i (map mk2 D) = option_map mk2 (find (fun x => Z.eqb (Z.of_N (fst x)) i) D).
Proof.
  unfold find_num. induction D as [|x D IH]; [reflexivity|].
  cbn [map find]. cbn [mk2 fst]. destruct (Z.eqb (Z.of_N (fst x)) i); [reflexivity|exact IH].
Qed.

Lemma find_key_in {B} (D : list (N * B)) n x :
  NoDup (map fst D) -> In (n, x) D ->
  find (fun y => Z.eqb (Z.of_N (fst y)) (Z.of_N n)) D = Some (n, x).
Proof.
  induction D as [|y D IH]; intros ND H; [destruct H|].
  cbn [map] in ND. inversion ND as [|? ? Hy ND']; subst. cbn [find].
  destruct H as [->|H].
  - cbn [fst]. now rewrite Z.eqb_refl.
  - destruct (Z.eqb_spec (Z.of_N (fst y)) (Z.of_N n)) as [E|_]; [|auto].
    exfalso. apply Hy. apply N2Z.inj in E. rewrite E.
    change n with (fst (n, x)). now apply in_map.
Qed.

Lemma find_key_none {B} (D : list (N * B)) i :
  (forall n, In n (map fst D) -> Z.of_N n <> i) ->
  find (fun y => Z.eqb (Z.of_N (fst y)) i) D = None.
Proof.
  induction D as [|y D IH]; intros H; [reflexivity|]. cbn [find].
  destruct (Z.eqb_spec (Z.of_N (fst y)) i) as [E|_].
  - exfalso. apply (H (fst y)); [now left|assumption].
  - apply IH. intros n Hn. apply H. now right.
Qed.

Lemma slots4 (ss : list slot) :
  length ss = 4%nat ->
  [slot_entry (nth 0 ss SEmpty); slot_entry (nth 1 ss SEmpty);
   slot_entry (nth 2 ss SEmpty); slot_entry (nth 3 ss SEmpty)] = map slot_entry ss.
Proof.
  destruct ss as [|a [|b [|c [|d [|e r]]]]]; try discriminate. reflexivity.
Qed.

(* the protective-MBR test lets every well-formed MBR layout through *)
Lemma not_protective (l : mbr_layout) (m : mbr) :
  protective_shape l = false ->
  let ps := map mk2 (mbr_defined l) in
  (if mbr_protective_needs_item1 (lenN ps) (match find_num 1 ps with Some _ => true | None => false end)
   then match find_num 1 ps with
        | None => Err KeyError
        | Some (_, p) =>
          if mbr_protective (lenN ps) (match find_num 1 ps with Some _ => true | None => false end) (mp_type p)
          then Err ValueError else Ok m
        end
   else Ok m) = Ok m.
Proof.
  intros P ps. subst ps. unfold protective_shape in P. unfold mbr_protective_needs_item1, mbr_protective.
  destruct (mbr_defined l) as [|[n [[ty f] z]] [|y r]].
  - reflexivity.
  - unfold find_num, mk2. cbn [map fst snd find mk].
    destruct (Z.eqb_spec (Z.of_N n) 1) as [E|E].
    + assert (n = 1) by lia. subst n. cbn [mp_type].
      change PROTECTIVE with 238 in P. rewrite P. reflexivity.
    + reflexivity.
  - cbn [map]. rewrite !lenN_cons.
    destruct (N.eqb_spec (1 + (1 + lenN (map mk2 r))) 1) as [E|_]; [lia|]. reflexivity.
Qed.

Theorem parse_build_mbr S l :
  sector_ok S -> wf_mbr l = true ->
  let img := mbr_image S l in
  exists t,
    partitions img S = Ok t /\ tab_is_gpt t = false /\
    tab_keys t = Ok (map fst (mbr_defined l)) /\ NoDup (map fst (mbr_defined l)) /\
    tab_len t = Ok (lenN (mbr_defined l)) /\
    (forall n ty first size, In (n, (ty, first, size)) (mbr_defined l) ->
       tab_getitem t (Z.of_N n) =
         Ok {| p_start := first * S;
               p_data := slice (first * S) ((first + size) * S) img;
               p_type := TMbr ty; p_label := mbr_label_text n |}
       /\ lenN (slice (first * S) ((first + size) * S) img) = size * S) /\
    (forall i, (forall n, In n (map fst (mbr_defined l)) -> Z.of_N n <> i) ->
       tab_getitem t i = Err KeyError).
Proof.
  intros HS W img. pose proof (mbr_image_ok S l HS W) as F. fold img in F.
  pose proof (mbr_defined_nodup l W) as ND.
  pose proof (wf_mbr_parts l W) as (L4 & Hsig & Wss & Hone & Hprot).
  destruct F as [Fboot Fgpt Fchain Flen Fneed].
  set (hv := boot_vals _ _ _ _ _) in Fboot.
  set (m := {| m_mem := img; m_ss := S; m_hdr := hv |}).
  assert (GP : get_primary m = Ok (map mk2 (mbr_defined l))).
  { unfold get_primary, m. cbn [m_mem m_ss m_hdr]. subst hv. rewrite boot_vals_slots.
    rewrite (slots4 _ L4). change primary_start with 1. apply primary_loop_slots; assumption. }
  assert (MI : mbr_init img S = Ok m).
  { unfold mbr_init. change (mbr_header_offset S) with 0. rewrite Fboot. cbn [bind].
    rewrite mbr_checks_unfold. subst hv. rewrite boot_vals_sig, boot_vals_zero.
    change (negb (BOOT_SIG =? BOOT_SIG) || (negb (0 =? 0) || false)) with false. cbv iota.
    fold m. rewrite GP. cbn [bind]. now apply not_protective. }
  exists (TabMBR m). split; [now apply partitions_mbr|]. split; [reflexivity|].
  cbn [tab_keys tab_len tab_getitem]. unfold mbr_keys, mbr_len, mbr_getitem. rewrite GP. cbn [bind].
  split; [|split; [exact ND|split]].
  - rewrite map_map. reflexivity.
  - now rewrite lenN_map.
  - split.
    + intros n ty first size Hin.
      assert (Bnd : S * (first + size) <= lenN img).
      { destruct (slots_parts_bound _ _ _ _ _ _ Wss Hin) as [B|(ty' & f & es & Hi & B)].
        - eapply N.le_trans; [|exact Fneed]. nia.
        - eapply N.le_trans; [|exact (Flen _ _ _ Hi)]. nia. }
      split.
      * rewrite find_num_mk2, (find_key_in _ _ _ ND Hin). cbn [option_map mk2 fst snd mk].
        unfold mbr_part, window. cbn [m_mem m_ss mp_first mp_size mp_type fst snd].
        unfold mbr_last_lba, mbr_part_start, mbr_part_stop.
        subst m. cbn [m_mem m_ss]. rewrite (N.mul_comm S first), (N.mul_comm S (first + size)).
        rewrite N.min_l by nia. reflexivity.
      * rewrite slice_full_length; nia.
    + intros i Hi. rewrite find_num_mk2, (find_key_none _ _ Hi). reflexivity.
Qed.
