(* Model of nobodd/disk.py: DiskImage.partitions, DiskPartitionsGPT, DiskPartitionsMBR
   over the struct layouts and the constants/expressions regenerated in Gen/Disk.v.
   Executable definitions only; proofs are in Disk/Proofs*.v.

   Conventions: the image (mmap / memoryview) is a `list N` of bytes; offsets are N;
   memoryview slices clip to the buffer like python slices (Lib.Struct.slice);
   struct.error is StructError (it is NOT a ValueError, so DiskImage.partitions
   does not catch it). *)
From Coq Require Import String List NArith ZArith Bool.
From NV Require Import Lib.Val Lib.Res Lib.Struct Gen.Disk.
Import ListNotations.
Open Scope N_scope.

(* ---------------------------------------------------------------- CRC-32 (binascii.crc32) *)
(* IEEE 802.3, reflected, polynomial 0xEDB88320, bit-serial *)
Definition crc_poly : N := 0xEDB88320.
Definition mask32 : N := 0xFFFFFFFF.
Definition crc_bit (c : N) : N :=
  if N.odd c then N.lxor (N.shiftr c 1) crc_poly else N.shiftr c 1.
Definition crc_byte (c b : N) : N :=
  crc_bit (crc_bit (crc_bit (crc_bit (crc_bit (crc_bit (crc_bit (crc_bit (N.lxor c b)))))))).
Definition crc32 (bs : list N) : N :=
  N.land (N.lxor (fold_left crc_byte bs mask32) mask32) mask32.

(* ---------------------------------------------------------------- small python pieces *)
Fixpoint mapM {A B} (f : A -> res B) (l : list A) : res (list B) :=
  match l with
  | [] => Ok []
  | x :: r => do y <- f x; do ys <- mapM f r; Ok (y :: ys)
  end.

Fixpoint nrange (k : nat) (start step : N) : list N :=
  match k with O => [] | S k' => start :: nrange k' (start + step) step end.
(* range(start, stop, step) for step > 0 *)
Definition py_range (start stop step : N) : list N :=
  nrange (N.to_nat ((stop - start + step - 1) / step)) start step.

Fixpoint enumerate {A} (start : N) (l : list A) : list (N * A) :=
  match l with [] => [] | x :: r => (start, x) :: enumerate (start + 1) r end.

(* bytes.decode('utf-16-le') on an even number of bytes *)
Fixpoint units_of (bs : list N) : res (list N) :=
  match bs with
  | [] => Ok []
  | [_] => Err UnicodeDecodeError
  | a :: b :: r => do t <- units_of r; Ok ((a + 256 * b) :: t)
  end.

Definition is_high (u : N) : bool := (0xD800 <=? u) && (u <? 0xDC00).
Definition is_low (u : N) : bool := (0xDC00 <=? u) && (u <? 0xE000).

Fixpoint utf16_units_decode (us : list N) : res (list N) :=
  match us with
  | [] => Ok []
  | u :: r =>
    if is_high u then
      match r with
      | v :: r' =>
        if is_low v
        then do t <- utf16_units_decode r';
             Ok ((0x10000 + (u - 0xD800) * 1024 + (v - 0xDC00)) :: t)
        else Err UnicodeDecodeError
      | [] => Err UnicodeDecodeError
      end
    else if is_low u then Err UnicodeDecodeError
    else do t <- utf16_units_decode r; Ok (u :: t)
  end.

Definition utf16le_decode (bs : list N) : res (list N) :=
  do us <- units_of bs; utf16_units_decode us.

(* str.rstrip(chars) *)
Fixpoint rstrip (cs s : list N) : list N :=
  match s with
  | [] => []
  | c :: r =>
    match rstrip cs r with
    | [] => if existsb (N.eqb c) cs then [] else [c]
    | t => c :: t
    end
  end.

(* str(n) for n >= 0 *)
Fixpoint dec_digits (fuel : nat) (n : N) (acc : list N) : list N :=
  match fuel with
  | O => acc
  | S f =>
    let acc' := (48 + n mod 10) :: acc in
    if n / 10 =? 0 then acc' else dec_digits f (n / 10) acc'
  end.
Definition decimal (n : N) : list N := dec_digits (S (N.to_nat (N.log2 n))) n [].

(* ---------------------------------------------------------------- DiskPartition *)
Inductive ptype := TMbr (t : N) | TGpt (guid : list N).   (* int / uuid.UUID(bytes_le=guid) *)

(* p_start: offset of the window in the image (after clipping), p_data: its bytes *)
Record part := { p_start : N; p_data : list N; p_type : ptype; p_label : list N }.

(* mem[start:finish] *)
Definition window (mem : list N) (start finish : N) : N * list N :=
  (N.min start (lenN mem), slice start finish mem).

(* ---------------------------------------------------------------- DiskPartitionsGPT *)
Record gpt := { g_mem : list N; g_ss : N; g_hdr : list fieldval }.

Definition hint (g : gpt) (name : string) : N := get_int GPT_HEADER name (g_hdr g).
Definition eb (name : string) (e : list fieldval) : list N := get_bytes GPT_PARTITION name e.
Definition ei (name : string) (e : list fieldval) : N := get_int GPT_PARTITION name e.

Definition gpt_header_bad (h : list fieldval) (crc : N) : bool :=
  existsb (fun c => c (get_bytes GPT_HEADER "signature" h) (get_int GPT_HEADER "revision" h)
                      (get_int GPT_HEADER "header_size" h) (get_int GPT_HEADER "header_crc32" h)
                      (sizeN GPT_HEADER) crc) gpt_init_checks.

(* crc32(bytes(header._replace(header_crc32=0))): the header re-packed (pad bytes
   zero) with the checksum field cleared.  Re-packing unpacked values cannot
   fail (Proofs: repack_total), the None branch is never taken. *)
Definition header_crc_of (h : list fieldval) : N :=
  match pack GPT_HEADER (set GPT_HEADER gpt_crc_replaced_field (VInt 0) h) with
  | Some b => crc32 b
  | None => 0
  end.

(* DiskPartitionsGPT.__init__ *)
Definition gpt_init (mem : list N) (ss : N) : res gpt :=
  do h <- unpack_from GPT_HEADER mem (gpt_header_offset ss);
  if gpt_header_bad h (header_crc_of h) then Err ValueError
  else Ok {| g_mem := mem; g_ss := ss; g_hdr := h |}.

(* _get_table *)
Definition gpt_table (g : gpt) : list N :=
  let start := hint g "part_table_lba" in
  let ts := gpt_table_sectors (g_ss g) (hint g "part_table_size") (hint g "part_entry_size") in
  slice (gpt_table_start (g_ss g) start ts) (gpt_table_stop (g_ss g) start ts) (g_mem g).

(* __len__: counts over the whole sector-rounded table *)
Definition gpt_len (g : gpt) : res N :=
  let table := gpt_table g in
  let esize := hint g "part_entry_size" in
  if esize =? 0 then Err ValueError        (* range() arg 3 must not be zero *)
  else
    do es <- mapM (unpack_from GPT_PARTITION table)
                  (py_range gpt_len_range_start (lenN table) esize);
    Ok (lenN (filter (fun e => gpt_len_counts (eb "type_guid" e) (eb "part_guid" e)) es)).

(* __iter__ *)
Definition gpt_keys (g : gpt) : res (list N) :=
  let table := gpt_table g in
  let esize := hint g "part_entry_size" in
  do es <- mapM (fun idx => do e <- unpack_from GPT_PARTITION table (gpt_iter_offset esize idx);
                            Ok (idx, e))
                (py_range 0 (hint g "part_table_size") 1);
  Ok (map (fun x => gpt_iter_key (fst x))
          (filter (fun x => negb (gpt_iter_skip (eb "type_guid" (snd x)) (eb "part_guid" (snd x)))) es)).

(* __getitem__ *)
Definition gpt_getitem (g : gpt) (index : Z) : res part :=
  if gpt_index_bad index (Z.of_N (hint g "part_table_size")) then Err KeyError
  else
    let table := gpt_table g in
    do e <- unpack_from GPT_PARTITION table
                        (gpt_getitem_offset (hint g "part_entry_size") (Z.to_N index));
    if gpt_entry_unused (eb "type_guid" e) (eb "part_guid" e) then Err KeyError
    else
      let first := ei "first_lba" e in
      let last := ei "last_lba" e in
      let w := window (g_mem g) (gpt_part_start (g_ss g) first last)
                      (gpt_part_finish (g_ss g) first last) in
      do label <- utf16le_decode (eb "part_label" e);
      Ok {| p_start := fst w; p_data := snd w; p_type := TGpt (eb "type_guid" e);
            p_label := rstrip gpt_label_strip label |}.

(* ---------------------------------------------------------------- DiskPartitionsMBR *)
Record mpart := { mp_type : N; mp_first : N; mp_size : N }.
Definition mpart_of (vs : list fieldval) : mpart :=
  {| mp_type := get_int MBR_PARTITION "part_type" vs;
     mp_first := get_int MBR_PARTITION "first_lba" vs;
     mp_size := get_int MBR_PARTITION "part_size" vs |}.
(* MBRPartition.from_bytes *)
Definition parse_mpart (buf : list N) : res mpart :=
  do v <- unpack_exact MBR_PARTITION buf; Ok (mpart_of v).

Record mbr := { m_mem : list N; m_ss : N; m_hdr : list fieldval }.

(* _get_logical: `while True` made total by fuel (an EBR chain can loop);
   fuel = number of sectors in the image + 1 *)
Fixpoint get_logical (fuel : nat) (mem : list N) (ss ext lo : N) : res (list mpart) :=
  match fuel with
  | O => Err OutOfFuel
  | S f =>
    do ebr <- unpack_from MBR_HEADER mem (ebr_offset lo ss);
    if ebr_sig_bad (get_int MBR_HEADER "boot_sig" ebr) then Err ValueError
    else
      do p1 <- parse_mpart (get_bytes MBR_HEADER "partition_1" ebr);
      let y := if ebr_first_yielded (mp_type p1) (mp_first p1) (mp_size p1)
               then [{| mp_type := mp_type p1;
                        mp_first := logical_first_lba (mp_first p1) lo ext;
                        mp_size := mp_size p1 |}]
               else [] in
      do p2 <- parse_mpart (get_bytes MBR_HEADER "partition_2" ebr);
      if ebr_terminal (mp_type p2) (mp_first p2) (mp_size p2) then Ok y
      else if ebr_link_bad (mp_type p2) (mp_first p2) (mp_size p2) then Err ValueError
      else do rest <- get_logical f mem ss ext (next_logical_offset (mp_first p2) lo ext);
           Ok (y ++ rest)
  end.

Definition chain_fuel (mem : list N) (ss : N) : nat := S (N.to_nat (lenN mem / ss)).

(* _get_primary over the slots still to visit, [num] = number of the next slot *)
Fixpoint primary_loop (mem : list N) (ss : N) (slots : list (list N)) (num : N)
  : res (list (N * mpart)) :=
  match slots with
  | [] => Ok []
  | buf :: r =>
    do p <- parse_mpart buf;
    if is_extended (mp_type p) then
      do ls <- get_logical (chain_fuel mem ss) mem ss
                           (logical_ext_offset (mp_first p)) (logical_ext_offset (mp_first p));
      do rest <- primary_loop mem ss r (num + 1);
      Ok (enumerate logical_start ls ++ rest)
    else if primary_defined (mp_type p) then
      do rest <- primary_loop mem ss r (num + 1); Ok ((num, p) :: rest)
    else primary_loop mem ss r (num + 1)
  end.

Definition header_slots (h : list fieldval) : list (list N) :=
  map (fun lab => get_bytes MBR_HEADER lab h) mbr_partitions_labels.

Definition get_primary (m : mbr) : res (list (N * mpart)) :=
  primary_loop (m_mem m) (m_ss m) (header_slots (m_hdr m)) primary_start.

Definition mbr_part (m : mbr) (num : N) (p : mpart) : part :=
  let last := mbr_last_lba (mp_first p) (mp_size p) in
  let w := window (m_mem m) (mbr_part_start (m_ss m) (mp_first p) last)
                  (mbr_part_stop (m_ss m) (mp_first p) last) in
  {| p_start := fst w; p_data := snd w; p_type := TMbr (mp_type p);
     p_label := mbr_label_prefix ++ decimal num |}.

Definition find_num (index : Z) (ps : list (N * mpart)) : option (N * mpart) :=
  find (fun x => Z.eqb (Z.of_N (fst x)) index) ps.

(* __len__, __iter__, __getitem__ *)
Definition mbr_len (m : mbr) : res N := do ps <- get_primary m; Ok (lenN ps).
Definition mbr_keys (m : mbr) : res (list N) := do ps <- get_primary m; Ok (map fst ps).
Definition mbr_getitem (m : mbr) (index : Z) : res part :=
  do ps <- get_primary m;
  match find_num index ps with
  | Some (num, p) => Ok (mbr_part m num p)
  | None => Err KeyError
  end.

Definition mbr_header_bad (h : list fieldval) : bool :=
  existsb (fun c => c (get_int MBR_HEADER "boot_sig" h) (get_int MBR_HEADER "zero" h))
          mbr_init_checks.

(* DiskPartitionsMBR.__init__ (the protective-MBR test evaluates len(self) and,
   depending on the short-circuit, self[1]) *)
Definition mbr_init (mem : list N) (ss : N) : res mbr :=
  do h <- unpack_from MBR_HEADER mem (mbr_header_offset ss);
  if mbr_header_bad h then Err ValueError
  else
    let m := {| m_mem := mem; m_ss := ss; m_hdr := h |} in
    do ps <- get_primary m;
    let len := lenN ps in
    let has1 := match find_num 1%Z ps with Some _ => true | None => false end in
    if mbr_protective_needs_item1 len has1 then
      match find_num 1%Z ps with
      | None => Err KeyError
      | Some (_, p) =>
        if mbr_protective len has1 (mp_type p) then Err ValueError else Ok m
      end
    else Ok m.

(* ---------------------------------------------------------------- DiskImage.partitions *)
Inductive ptable := TabGPT (g : gpt) | TabMBR (m : mbr).

Definition init_class (c : pclass) (mem : list N) (ss : N) : res ptable :=
  match c with
  | ClsGPT => do g <- gpt_init mem ss; Ok (TabGPT g)
  | ClsMBR => do m <- mbr_init mem ss; Ok (TabMBR m)
  end.

Fixpoint try_classes (cs : list pclass) (mem : list N) (ss : N) : res ptable :=
  match cs with
  | [] => Err ValueError
  | c :: r =>
    match init_class c mem ss with
    | Ok t => Ok t
    | Err ValueError => try_classes r mem ss
    | Err e => Err e
    end
  end.

Definition partitions (mem : list N) (ss : N) : res ptable :=
  try_classes partition_classes mem ss.

Definition tab_is_gpt (t : ptable) : bool := match t with TabGPT _ => true | TabMBR _ => false end.
Definition tab_len (t : ptable) : res N :=
  match t with TabGPT g => gpt_len g | TabMBR m => mbr_len m end.
Definition tab_keys (t : ptable) : res (list N) :=
  match t with TabGPT g => gpt_keys g | TabMBR m => mbr_keys m end.
Definition tab_getitem (t : ptable) (index : Z) : res part :=
  match t with TabGPT g => gpt_getitem g index | TabMBR m => mbr_getitem m index end.
