(* C12 proofs, part 1: the generated layouts are the standard ones, field access
   on concrete headers, small generic lemmas (mapM, ranges, labels, filler). *)
From Coq Require Import String List NArith ZArith Bool Arith Lia.
From NV Require Import Lib.Val Lib.Res Lib.Struct Lib.StructProofs Gen.Disk Disk.Model Disk.Build.
Import ListNotations.
Open Scope N_scope.

(* ================================================================ layouts *)
(* The tables parsed out of nobodd/mbr.py and nobodd/gpt.py are the standard
   on-disk formats written down in Build.v. *)
Lemma mbr_header_std : MBR_HEADER = STD_MBR_HEADER.        Proof. reflexivity. Qed.
Lemma mbr_partition_std : MBR_PARTITION = STD_MBR_PARTITION. Proof. reflexivity. Qed.
Lemma gpt_header_std : GPT_HEADER = STD_GPT_HEADER.        Proof. reflexivity. Qed.
Lemma gpt_partition_std : GPT_PARTITION = STD_GPT_PARTITION. Proof. reflexivity. Qed.

Theorem layouts_standard :
  MBR_HEADER = STD_MBR_HEADER /\ MBR_PARTITION = STD_MBR_PARTITION /\
  GPT_HEADER = STD_GPT_HEADER /\ GPT_PARTITION = STD_GPT_PARTITION /\
  struct_prefix_le = true /\
  sizeN MBR_HEADER = 512 /\ sizeN MBR_PARTITION = 16 /\
  sizeN GPT_HEADER = 92 /\ sizeN GPT_PARTITION = 128.
Proof. repeat split; reflexivity. Qed.

(* ================================================================ sector sizes *)
Lemma sector_ok_ge S : sector_ok S -> 512 <= S.
Proof. intros (k & Hk & ->). lia. Qed.

(* ================================================================ small arithmetic *)
Lemma u8_lt x : u8 x = true <-> x < 256.
Proof. unfold u8. apply N.ltb_lt. Qed.
Lemma u32_lt x : u32 x = true <-> x < 4294967296.
Proof. unfold u32. apply N.ltb_lt. Qed.
Lemma u64_lt x : u64 x = true <-> x < 18446744073709551616.
Proof. unfold u64. apply N.ltb_lt. Qed.

Lemma val_ok_u1 x : x < 256 -> val_ok (FU 1) (VInt x) = true.
Proof. intros H. cbn [val_ok]. apply N.ltb_lt. exact H. Qed.
Lemma val_ok_u2 x : x < 65536 -> val_ok (FU 2) (VInt x) = true.
Proof. intros H. cbn [val_ok]. apply N.ltb_lt. exact H. Qed.
Lemma val_ok_u4 x : x < 4294967296 -> val_ok (FU 4) (VInt x) = true.
Proof. intros H. cbn [val_ok]. apply N.ltb_lt. exact H. Qed.
Lemma val_ok_u8 x : x < 18446744073709551616 -> val_ok (FU 8) (VInt x) = true.
Proof. intros H. cbn [val_ok]. apply N.ltb_lt. exact H. Qed.
Lemma val_ok_s n b : length b = n -> bytes_ok b = true -> val_ok (FS n) (VBytes b) = true.
Proof. intros H B. cbn [val_ok]. rewrite H, Nat.eqb_refl, B. reflexivity. Qed.

Lemma length_lenN {A} (l : list A) n : lenN l = N.of_nat n -> length l = n.
Proof. unfold lenN. lia. Qed.

(* ceil(a / S) * S covers a *)
Lemma ceil_mul_ge a S : 0 < S -> a <= S * ((a + S - 1) / S).
Proof.
  intros HS. pose proof (N.div_mod (a + S - 1) S ltac:(lia)) as D.
  pose proof (N.mod_lt (a + S - 1) S ltac:(lia)) as M. lia.
Qed.

Lemma lt_ceil_mul j a b : 0 < b -> j < (a + b - 1) / b -> j * b < a.
Proof.
  intros Hb H.
  assert (Q : (j + 1) * b <= a + b - 1).
  { pose proof (N.mul_div_le (a + b - 1) b ltac:(lia)) as L.
    assert ((j + 1) * b <= b * ((a + b - 1) / b)) by nia. lia. }
  nia.
Qed.

Lemma le_ceil q a b : 0 < b -> q * b <= a -> q <= (a + b - 1) / b.
Proof.
  intros Hb H. apply N.div_le_lower_bound; [lia|]. nia.
Qed.

(* ================================================================ filler *)
Lemma fill_length n o : length (fill n o) = n.
Proof. revert o. induction n; intros; cbn [fill length]; auto. Qed.
Lemma lenN_fillN n o : lenN (fillN n o) = n.
Proof. unfold lenN, fillN. rewrite fill_length. lia. Qed.

(* ================================================================ mapM / ranges *)
Lemma mapM_ok {A B} (f : A -> res B) (g : A -> B) l :
  (forall x, In x l -> f x = Ok (g x)) -> mapM f l = Ok (map g l).
Proof.
  induction l as [|x r IH]; intros H; cbn [mapM map]; [reflexivity|].
  rewrite (H x (or_introl eq_refl)). cbn [bind]. rewrite IH; [reflexivity|].
  intros y Hy. apply H. now right.
Qed.

Lemma nrange_map k start step :
  nrange k start step = map (fun j => start + N.of_nat j * step) (seq 0 k).
Proof.
  revert start. induction k as [|k IH]; intros start; [reflexivity|].
  cbn [nrange seq map]. f_equal; [lia|].
  rewrite IH, <- seq_shift, map_map. apply map_ext. intros j. lia.
Qed.

Lemma mapM_map_ok {A B C} (f : B -> res C) (h : A -> B) (g : A -> C) l :
  (forall x, In x l -> f (h x) = Ok (g x)) -> mapM f (map h l) = Ok (map g l).
Proof.
  induction l as [|x r IH]; intros H; cbn [mapM map]; [reflexivity|].
  rewrite (H x (or_introl eq_refl)). cbn [bind]. rewrite IH; [reflexivity|].
  intros y Hy. apply H. now right.
Qed.

Lemma mapM_nrange {B} (f : N -> res B) (g : nat -> B) k start step :
  (forall j, (j < k)%nat -> f (start + N.of_nat j * step) = Ok (g j)) ->
  mapM f (nrange k start step) = Ok (map g (seq 0 k)).
Proof.
  intros H. rewrite nrange_map. apply mapM_map_ok.
  intros j Hj. apply H. apply in_seq in Hj. lia.
Qed.

Lemma enumerate_number_from {A} n (l : list A) : enumerate n l = number_from n l.
Proof. revert n. induction l; intros; cbn; [reflexivity|]. now rewrite IHl. Qed.

Lemma number_from_map {A B} (f : A -> B) n l :
  number_from n (map f l) = map (fun x => (fst x, f (snd x))) (number_from n l).
Proof. revert n. induction l; intros; cbn; [reflexivity|]. now rewrite IHl. Qed.

(* ================================================================ header checks (any image) *)
Lemma gpt_checks_unfold h crc :
  gpt_header_bad h crc =
  (negb (bytes_eqb (get_bytes GPT_HEADER "signature" h) EFI_PART)
   || (negb (get_int GPT_HEADER "revision" h =? GPT_REVISION)
   || (negb (get_int GPT_HEADER "header_size" h =? GPT_HEADER_SIZE)
   || (negb (crc =? get_int GPT_HEADER "header_crc32" h) || false)))).
Proof. reflexivity. Qed.

Lemma mbr_checks_unfold h :
  mbr_header_bad h =
  (negb (get_int MBR_HEADER "boot_sig" h =? BOOT_SIG)
   || (negb (get_int MBR_HEADER "zero" h =? 0) || false)).
Proof. reflexivity. Qed.

Theorem reject_bad_gpt mem ss h :
  unpack_from GPT_HEADER mem (gpt_header_offset ss) = Ok h ->
  get_bytes GPT_HEADER "signature" h <> EFI_PART \/
  get_int GPT_HEADER "revision" h <> GPT_REVISION \/
  get_int GPT_HEADER "header_size" h <> GPT_HEADER_SIZE \/
  header_crc_of h <> get_int GPT_HEADER "header_crc32" h ->
  gpt_init mem ss = Err ValueError.
Proof.
  intros H Bad. unfold gpt_init. rewrite H. cbn [bind]. rewrite gpt_checks_unfold.
  destruct (bytes_eqb (get_bytes GPT_HEADER "signature" h) EFI_PART) eqn:E1; [|reflexivity].
  destruct (N.eqb_spec (get_int GPT_HEADER "revision" h) GPT_REVISION) as [E2|E2]; [|reflexivity].
  destruct (N.eqb_spec (get_int GPT_HEADER "header_size" h) GPT_HEADER_SIZE) as [E3|E3]; [|reflexivity].
  destruct (N.eqb_spec (header_crc_of h) (get_int GPT_HEADER "header_crc32" h)) as [E4|E4]; [|reflexivity].
  exfalso. destruct Bad as [B|[B|[B|B]]]; try contradiction.
  apply B. revert E1. generalize (get_bytes GPT_HEADER "signature" h). unfold bytes_eqb.
  intros s. generalize EFI_PART. induction s as [|x s IH]; intros [|y t] E; cbn in E; try discriminate; auto.
  apply andb_true_iff in E as [Ea Eb]. apply N.eqb_eq in Ea. f_equal; auto.
Qed.

Theorem gpt_init_accepts mem ss h :
  unpack_from GPT_HEADER mem (gpt_header_offset ss) = Ok h ->
  get_bytes GPT_HEADER "signature" h = EFI_PART ->
  get_int GPT_HEADER "revision" h = GPT_REVISION ->
  get_int GPT_HEADER "header_size" h = GPT_HEADER_SIZE ->
  header_crc_of h = get_int GPT_HEADER "header_crc32" h ->
  gpt_init mem ss = Ok {| g_mem := mem; g_ss := ss; g_hdr := h |}.
Proof.
  intros H E1 E2 E3 E4. unfold gpt_init. rewrite H. cbn [bind]. rewrite gpt_checks_unfold.
  rewrite E1, E2, E3, E4, !N.eqb_refl. reflexivity.
Qed.

Theorem reject_bad_mbr mem ss h :
  unpack_from MBR_HEADER mem (mbr_header_offset ss) = Ok h ->
  get_int MBR_HEADER "boot_sig" h <> BOOT_SIG \/ get_int MBR_HEADER "zero" h <> 0 ->
  mbr_init mem ss = Err ValueError.
Proof.
  intros H Bad. unfold mbr_init. rewrite H. cbn [bind]. rewrite mbr_checks_unfold.
  destruct (N.eqb_spec (get_int MBR_HEADER "boot_sig" h) BOOT_SIG) as [E1|E1]; [|reflexivity].
  destruct (N.eqb_spec (get_int MBR_HEADER "zero" h) 0) as [E2|E2]; [|reflexivity].
  exfalso. destruct Bad; contradiction.
Qed.

(* a buffer too short for the header: struct.error, which is not a ValueError *)
Theorem short_image_struct_error mem ss :
  lenN mem < gpt_header_offset ss + 92 -> partitions mem ss = Err StructError.
Proof.
  intros H. unfold partitions. change partition_classes with [ClsGPT; ClsMBR].
  cbn [try_classes init_class]. unfold gpt_init.
  rewrite unpack_from_short by exact H. reflexivity.
Qed.

(* DiskImage.partitions: GPT first, then MBR, else ValueError *)
Theorem reject_bad mem ss :
  gpt_init mem ss = Err ValueError -> mbr_init mem ss = Err ValueError ->
  partitions mem ss = Err ValueError.
Proof.
  intros G M. unfold partitions. change partition_classes with [ClsGPT; ClsMBR].
  cbn [try_classes init_class]. rewrite G. cbn [bind]. rewrite M. reflexivity.
Qed.

Lemma partitions_gpt mem ss g : gpt_init mem ss = Ok g -> partitions mem ss = Ok (TabGPT g).
Proof.
  intros G. unfold partitions. change partition_classes with [ClsGPT; ClsMBR].
  cbn [try_classes init_class]. rewrite G. reflexivity.
Qed.

Lemma partitions_mbr mem ss m :
  gpt_init mem ss = Err ValueError -> mbr_init mem ss = Ok m -> partitions mem ss = Ok (TabMBR m).
Proof.
  intros G M. unfold partitions. change partition_classes with [ClsGPT; ClsMBR].
  cbn [try_classes init_class]. rewrite G. cbn [bind]. rewrite M. reflexivity.
Qed.

(* reading a structure out of a zero-filled region *)
Lemma unpack_from_zeros l pre rest off n :
  lenN pre = off -> sizeN l <= n ->
  unpack_from l (pre ++ zeros n ++ rest) off = unpack_exact l (zeros (sizeN l)).
Proof.
  intros L Hn. unfold unpack_from. rewrite !lenN_app, lenN_zeros, L.
  destruct (N.ltb_spec (off + (n + lenN rest)) (off + sizeN l)) as [H|_]; [lia|].
  rewrite (dropN_app_exact off) by exact L.
  rewrite takeN_app_le by (rewrite lenN_zeros; exact Hn).
  now rewrite takeN_zeros.
Qed.
