(* C12 proofs, part 3: GPT.  parse (build layout) = layout; protective MBR. *)
From Coq Require Import String List NArith ZArith Bool Arith Lia.
From NV Require Import Lib.Val Lib.Res Lib.Struct Lib.StructProofs Gen.Disk Disk.Model Disk.Build
  Disk.ProofsBase Disk.ProofsMBR.
Import ListNotations.
Open Scope N_scope.

(* ================================================================ CRC-32 is a 32-bit value *)
Lemma crc32_bound bs : crc32 bs < 4294967296.
Proof.
  unfold crc32. change mask32 with (N.ones 32) at 3. rewrite N.land_ones.
  apply N.mod_lt. discriminate.
Qed.

Theorem crc32_check_vector : crc32 [49; 50; 51; 52; 53; 54; 55; 56; 57] = 0xCBF43926.
Proof. vm_compute. reflexivity. Qed.

(* ================================================================ labels *)
Lemma unit_ok_plain u : unit_ok u = true -> is_high u = false /\ is_low u = false /\ u < 65536.
Proof.
  unfold unit_ok, is_high, is_low. intros H.
  apply orb_true_iff in H as [H|H].
  - apply N.ltb_lt in H. repeat split; try lia.
    + apply andb_false_iff. left. apply N.leb_gt. lia.
    + apply andb_false_iff. left. apply N.leb_gt. lia.
  - apply andb_true_iff in H as [H1 H2]. apply N.leb_le in H1. apply N.ltb_lt in H2.
    repeat split; try lia.
    + apply andb_false_iff. right. apply N.ltb_ge. lia.
    + apply andb_false_iff. right. apply N.ltb_ge. lia.
Qed.

Lemma units_of_flat us rest :
  units_of (flat_map unit_bytes us ++ rest) = do t <- units_of rest; Ok (us ++ t).
Proof.
  induction us as [|u r IH]; cbn [flat_map app].
  - destruct (units_of rest); reflexivity.
  - unfold unit_bytes at 1. cbn [app units_of]. rewrite IH.
    destruct (units_of rest); cbn [bind]; [|reflexivity].
    f_equal. f_equal. pose proof (N.div_mod u 256). lia.
Qed.

Lemma units_of_repeat0 k : units_of (repeat 0 (2 * k)) = Ok (repeat 0 k).
Proof.
  induction k as [|k IH]; [reflexivity|].
  replace (2 * S k)%nat with (S (S (2 * k))) by lia. cbn [repeat units_of]. rewrite IH. reflexivity.
Qed.

Lemma decode_plain us :
  forallb (fun u => negb (is_high u) && negb (is_low u)) us = true ->
  utf16_units_decode us = Ok us.
Proof.
  induction us as [|u r IH]; intros H; [reflexivity|].
  cbn [forallb] in H. apply andb_true_iff in H as [Hu Hr]. apply andb_true_iff in Hu as [H1 H2].
  apply negb_true_iff in H1, H2. cbn [utf16_units_decode]. rewrite H1, H2, (IH Hr). reflexivity.
Qed.

Lemma rstrip_zeros k : rstrip [0] (repeat 0 k) = [].
Proof. induction k as [|k IH]; [reflexivity|]. cbn [repeat rstrip]. rewrite IH. reflexivity. Qed.

Lemma rstrip_padded us k : last us 1 <> 0 -> rstrip [0] (us ++ repeat 0 k) = us.
Proof.
  induction us as [|c r IH]; intros H; [apply rstrip_zeros|].
  cbn [app rstrip]. destruct r as [|d r'].
  - cbn [app]. rewrite rstrip_zeros. cbn [last] in H. cbn [existsb].
    apply N.eqb_neq in H. rewrite H. reflexivity.
  - rewrite IH by exact H. reflexivity.
Qed.

Lemma label_ok_parts us :
  label_ok us = true ->
  (length us <= 36)%nat /\ forallb unit_ok us = true /\ last us 1 <> 0.
Proof.
  unfold label_ok. intros H. apply andb_true_iff in H as [H H3]. apply andb_true_iff in H as [H1 H2].
  apply Nat.leb_le in H1. apply negb_true_iff, N.eqb_neq in H3. auto.
Qed.

Lemma flat_unit_bytes us :
  forallb unit_ok us = true ->
  length (flat_map unit_bytes us) = (2 * length us)%nat /\ bytes_ok (flat_map unit_bytes us) = true.
Proof.
  induction us as [|u r IH]; intros H; [split; reflexivity|].
  cbn [forallb] in H. apply andb_true_iff in H as [Hu Hr]. destruct (IH Hr) as [L B].
  apply unit_ok_plain in Hu as (_ & _ & Hu).
  cbn [flat_map]. unfold unit_bytes at 1 3. cbn [app length]. split; [lia|].
  apply bytes_ok_cons. split; [apply N.mod_lt; discriminate|].
  apply bytes_ok_cons. split; [apply N.div_lt_upper_bound; lia|exact B].
Qed.

Lemma label_bytes_ok us :
  label_ok us = true -> length (label_bytes us) = 72%nat /\ bytes_ok (label_bytes us) = true.
Proof.
  intros H. apply label_ok_parts in H as (L & U & _). destruct (flat_unit_bytes us U) as [Lf Bf].
  unfold label_bytes. split.
  - rewrite app_length, Lf. unfold zeros, lenN. rewrite repeat_length. lia.
  - rewrite bytes_ok_app, Bf, bytes_ok_zeros. reflexivity.
Qed.

Theorem label_roundtrip us :
  label_ok us = true ->
  (do t <- utf16le_decode (label_bytes us); Ok (rstrip gpt_label_strip t)) = Ok us.
Proof.
  intros H. apply label_ok_parts in H as (L & U & Hlast).
  unfold utf16le_decode, label_bytes. rewrite units_of_flat.
  replace (zeros (72 - 2 * lenN us)) with (repeat 0 (2 * (36 - length us))).
  2:{ unfold zeros, lenN. f_equal. lia. }
  rewrite units_of_repeat0. cbn [bind]. rewrite decode_plain.
  - cbn [bind]. change gpt_label_strip with [0]. now rewrite rstrip_padded.
  - rewrite forallb_app. apply andb_true_iff. split.
    + rewrite forallb_forall in *. intros u Hu. apply U, unit_ok_plain in Hu as (-> & -> & _). reflexivity.
    + clear. induction (36 - length us)%nat; [reflexivity|exact IHn].
Qed.

(* ================================================================ entries *)
Lemma guid_ok_parts g :
  guid_ok g = true -> length g = 16%nat /\ bytes_ok g = true /\ bytes_eqb g zero16 = false.
Proof.
  unfold guid_ok. intros H. apply andb_true_iff in H as [H H3]. apply andb_true_iff in H as [H1 H2].
  apply Nat.eqb_eq in H1. apply negb_true_iff in H3. auto.
Qed.

Lemma wf_gentry_parts e :
  wf_gentry e = true ->
  guid_ok (ge_type e) = true /\ guid_ok (ge_guid e) = true /\ ge_first e <= ge_last e /\
  ge_last e + 1 < 18446744073709551616 /\ ge_flags e < 18446744073709551616 /\
  label_ok (ge_label e) = true.
Proof.
  unfold wf_gentry. intros H. do 5 (apply andb_true_iff in H as [H ?]).
  repeat match goal with
         | H : u64 _ = true |- _ => apply u64_lt in H
         | H : (_ <=? _) = true |- _ => apply N.leb_le in H
         end.
  repeat split; assumption.
Qed.

Definition entry_wf (o : option gentry) : bool :=
  match o with Some e => wf_gentry e | None => true end.

Lemma entry_vals_ok o : entry_wf o = true -> vals_ok GPT_PARTITION (entry_vals o) = true.
Proof.
  destruct o as [e|]; cbn [entry_wf entry_vals]; intros W; [|reflexivity].
  apply wf_gentry_parts in W as (T & G & Hfl & Hl & Hf & Lab).
  apply guid_ok_parts in T as (T1 & T2 & _). apply guid_ok_parts in G as (G1 & G2 & _).
  destruct (label_bytes_ok _ Lab) as [L1 L2].
  rewrite gpt_partition_std. unfold STD_GPT_PARTITION. cbn [vals_ok].
  rewrite !val_ok_s, !val_ok_u8 by (assumption || lia). reflexivity.
Qed.

Lemma lenN_entry_bytes esize o :
  entry_wf o = true -> 128 <= esize -> lenN (entry_bytes esize o) = esize.
Proof.
  intros W H. unfold entry_bytes. rewrite lenN_app, lenN_zeros, <- gpt_partition_std.
  rewrite lenN_pack_or_nil by now apply entry_vals_ok. change (sizeN GPT_PARTITION) with 128. lia.
Qed.

(* reading entry i of the array *)
Lemma read_entry esize es post i o :
  forallb entry_wf es = true -> 128 <= esize -> nth_error es i = Some o ->
  unpack_from GPT_PARTITION (concat (map (entry_bytes esize) es) ++ post) (esize * N.of_nat i)
  = Ok (entry_vals o).
Proof.
  intros W H Hn.
  assert (Hu : Forall (fun b => lenN b = esize) (map (entry_bytes esize) es)).
  { apply Forall_forall. intros b Hb. apply in_map_iff in Hb as (x & <- & Hx).
    apply lenN_entry_bytes; [|exact H]. rewrite forallb_forall in W. now apply W. }
  assert (Hn' : nth_error (map (entry_bytes esize) es) i = Some (entry_bytes esize o))
    by (rewrite nth_error_map, Hn; reflexivity).
  rewrite (concat_split_nth _ _ _ Hn'). unfold entry_bytes at 2.
  rewrite <- !app_assoc, <- gpt_partition_std.
  apply unpack_from_app.
  - apply entry_vals_ok. rewrite forallb_forall in W. apply W. eapply nth_error_In; eauto.
  - rewrite (lenN_concat_uniform esize).
    + rewrite lenN_firstn_le; [reflexivity|].
      apply Nat.lt_le_incl. apply nth_error_Some. congruence.
    + rewrite Forall_forall in *. intros x Hx. apply Hu.
      rewrite <- (firstn_skipn i (map (entry_bytes esize) es)). apply in_or_app. now left.
Qed.

Definition zero_entry : res (list fieldval) :=
  Eval vm_compute in unpack_exact GPT_PARTITION (zeros (sizeN GPT_PARTITION)).
Lemma zero_entry_eq : unpack_exact GPT_PARTITION (zeros (sizeN GPT_PARTITION)) = Ok (entry_vals None).
Proof. vm_compute. reflexivity. Qed.

(* reading an entry-sized block out of the zero padding behind the array *)
Lemma read_padding E Z post off :
  lenN E <= off -> off + 128 <= lenN E + Z ->
  unpack_from GPT_PARTITION (E ++ zeros Z ++ post) off = Ok (entry_vals None).
Proof.
  intros H1 H2.
  replace (zeros Z) with (zeros (off - lenN E) ++ zeros (Z - (off - lenN E)))
    by (rewrite <- zeros_app; f_equal; lia).
  rewrite <- app_assoc, (app_assoc E).
  rewrite unpack_from_zeros.
  - apply zero_entry_eq.
  - rewrite lenN_app, lenN_zeros. lia.
  - change (sizeN GPT_PARTITION) with 128. lia.
Qed.

(* ================================================================ the header *)
Lemma esize_bounds l : gl_esize_log l <= 8 -> 128 <= esize_of l /\ esize_of l <= 32768.
Proof.
  intros H. unfold esize_of.
  assert (1 <= 2 ^ gl_esize_log l) by (pose proof (N.pow_nonzero 2 (gl_esize_log l) ltac:(lia)); lia).
  assert (2 ^ gl_esize_log l <= 2 ^ 8) by (apply N.pow_le_mono_r; lia).
  change (2 ^ 8) with 256 in *. lia.
Qed.

Record gpt_wf_facts (l : gpt_layout) : Prop := {
  gw_k : gl_esize_log l <= 8;
  gw_ne : gl_entries l <> [];
  gw_count : count_of l < 4294967296;
  gw_entries : forallb entry_wf (gl_entries l) = true;
  gw_tlba : 2 <= gl_table_lba l /\ gl_table_lba l < 18446744073709551616;
  gw_guid : length (gl_disk_guid l) = 16%nat /\ bytes_ok (gl_disk_guid l) = true;
  gw_misc : gl_table_crc l < 4294967296 /\ gl_backup_lba l < 18446744073709551616 /\
            gl_first_usable l < 18446744073709551616 /\ gl_last_usable l < 18446744073709551616;
  gw_sector0 : length (gl_sector0 l) = 512%nat /\ bytes_ok (gl_sector0 l) = true }.

Lemma wf_gpt_parts l : wf_gpt l = true -> gpt_wf_facts l.
Proof.
  unfold wf_gpt. intros H. repeat (apply andb_true_iff in H as [H ?]).
  repeat match goal with
         | H : u32 _ = true |- _ => apply u32_lt in H
         | H : u64 _ = true |- _ => apply u64_lt in H
         | H : (_ <=? _) = true |- _ => apply N.leb_le in H
         | H : (_ =? _)%nat = true |- _ => apply Nat.eqb_eq in H
         end.
  constructor; auto.
  destruct (gl_entries l); [discriminate|discriminate].
Qed.

Lemma header_vals_ok l crc :
  gpt_wf_facts l -> crc < 4294967296 -> vals_ok GPT_HEADER (header_vals l crc) = true.
Proof.
  intros [Hk _ Hc _ [_ Ht] [G1 G2] (M1 & M2 & M3 & M4) _] Hcrc.
  destruct (esize_bounds l Hk) as [_ He].
  rewrite gpt_header_std. unfold STD_GPT_HEADER, header_vals. cbn [vals_ok].
  rewrite !val_ok_s, !val_ok_u8, !val_ok_u4 by (assumption || reflexivity || (unfold GPT_REVISION, GPT_HEADER_SIZE; lia)).
  reflexivity.
Qed.

Lemma header_get l c :
  get_bytes GPT_HEADER "signature" (header_vals l c) = EFI_PART /\
  get_int GPT_HEADER "revision" (header_vals l c) = GPT_REVISION /\
  get_int GPT_HEADER "header_size" (header_vals l c) = GPT_HEADER_SIZE /\
  get_int GPT_HEADER "header_crc32" (header_vals l c) = c /\
  get_int GPT_HEADER "part_table_lba" (header_vals l c) = gl_table_lba l /\
  get_int GPT_HEADER "part_table_size" (header_vals l c) = count_of l /\
  get_int GPT_HEADER "part_entry_size" (header_vals l c) = esize_of l.
Proof. repeat split; reflexivity. Qed.

Lemma header_crc_matches l c :
  gpt_wf_facts l -> header_crc_of (header_vals l c) = header_crc l.
Proof.
  intros W. unfold header_crc_of.
  change (set GPT_HEADER gpt_crc_replaced_field (VInt 0) (header_vals l c)) with (header_vals l 0).
  rewrite pack_or_nil_ok by (apply header_vals_ok; [assumption|lia]). reflexivity.
Qed.

(* ================================================================ the image *)
Definition table_bytes (S : N) (l : gpt_layout) : list N :=
  concat (map (entry_bytes (esize_of l)) (gl_entries l))
    ++ zeros (S * table_sectors S l - count_of l * esize_of l).

Record gpt_image_facts (S : N) (l : gpt_layout) (img : list N) : Prop := {
  gf_init : gpt_init img S = Ok {| g_mem := img; g_ss := S; g_hdr := header_vals l (header_crc l) |};
  gf_table : gpt_table {| g_mem := img; g_ss := S; g_hdr := header_vals l (header_crc l) |}
             = table_bytes S l;
  gf_need : S * entries_need (gl_entries l) <= lenN img;
  gf_sector0 : exists rest, img = gl_sector0 l ++ rest }.

Lemma lenN_entries_concat l :
  gpt_wf_facts l ->
  lenN (concat (map (entry_bytes (esize_of l)) (gl_entries l))) = count_of l * esize_of l.
Proof.
  intros W. destruct (esize_bounds l (gw_k l W)) as [He _].
  rewrite (lenN_concat_uniform (esize_of l)).
  - rewrite lenN_map. unfold count_of. lia.
  - apply Forall_forall. intros b Hb. apply in_map_iff in Hb as (x & <- & Hx).
    apply lenN_entry_bytes; [|exact He]. pose proof (gw_entries l W) as E.
    rewrite forallb_forall in E. now apply E.
Qed.

Lemma lenN_table_bytes S l :
  sector_ok S -> gpt_wf_facts l -> lenN (table_bytes S l) = S * table_sectors S l.
Proof.
  intros HS W. pose proof (sector_ok_ge S HS). unfold table_bytes.
  rewrite lenN_app, lenN_zeros, lenN_entries_concat by assumption.
  pose proof (ceil_mul_ge (count_of l * esize_of l) S ltac:(lia)). unfold table_sectors. lia.
Qed.

Theorem gpt_image_ok S l : sector_ok S -> wf_gpt l = true -> gpt_image_facts S l (gpt_image S l).
Proof.
  intros HS W0. pose proof (sector_ok_ge S HS) as HS'. pose proof (wf_gpt_parts l W0) as W.
  destruct (gw_tlba l W) as [Ht2 Ht64].
  unfold gpt_image. fold (table_bytes S l).
  set (A := gl_sector0 l).
  assert (LA : lenN A = 512) by (subst A; unfold lenN; rewrite (proj1 (gw_sector0 l W)); reflexivity).
  set (hdr := header_bytes l ++ zeros (S - 92)).
  assert (Hcrc : header_crc l < 4294967296) by apply crc32_bound.
  assert (Lh : lenN hdr = S).
  { subst hdr. rewrite lenN_app, lenN_zeros. unfold header_bytes. rewrite <- gpt_header_std.
    rewrite lenN_pack_or_nil by now apply header_vals_ok. change (sizeN GPT_HEADER) with 92. lia. }
  set (tailfill := fillN _ (S * (gl_table_lba l + table_sectors S l))).
  set (gap := fillN (S * (gl_table_lba l - 2)) (S * 2)).
  set (g := {| g_mem := A ++ fillN (S - 512) 512 ++ hdr ++ gap ++ table_bytes S l ++ tailfill;
               g_ss := S; g_hdr := header_vals l (header_crc l) |}).
  destruct (header_get l (header_crc l)) as (G1 & G2 & G3 & G4 & G5 & G6 & G7).
  constructor.
  - apply gpt_init_accepts; try assumption.
    + unfold gpt_header_offset. rewrite N.mul_1_r. subst hdr. unfold header_bytes.
      rewrite (app_assoc A), <- (app_assoc (pack_or_nil _ _)), <- gpt_header_std.
      apply unpack_from_app; [now apply header_vals_ok|].
      rewrite lenN_app, lenN_fillN, LA. lia.
    + rewrite G4. now apply header_crc_matches.
  - fold g. unfold gpt_table, hint. cbn [g_hdr g_ss g_mem g]. rewrite G5, G6, G7.
    unfold gpt_table_start, gpt_table_stop.
    change (gpt_table_sectors S (count_of l) (esize_of l)) with (table_sectors S l).
    rewrite (app_assoc A), (app_assoc (A ++ _)), (app_assoc ((A ++ _) ++ _)).
    apply slice_app_mid.
    + subst gap. rewrite !lenN_app, !lenN_fillN, LA, Lh. nia.
    + rewrite lenN_table_bytes by assumption. nia.
  - subst tailfill gap. rewrite !lenN_app, !lenN_fillN, LA, Lh, lenN_table_bytes by assumption. nia.
  - exists (fillN (S - 512) 512 ++ hdr ++ gap ++ table_bytes S l ++ tailfill). reflexivity.
Qed.

(* ================================================================ entry fields *)
Definition used_vals (v : list fieldval) : bool :=
  negb (gpt_iter_skip (eb "type_guid" v) (eb "part_guid" v)).
Definition counted_vals (v : list fieldval) : bool :=
  gpt_len_counts (eb "type_guid" v) (eb "part_guid" v).

Lemma entry_flags o :
  entry_wf o = true ->
  used_vals (entry_vals o) = (match o with Some _ => true | None => false end) /\
  counted_vals (entry_vals o) = (match o with Some _ => true | None => false end) /\
  gpt_entry_unused (eb "type_guid" (entry_vals o)) (eb "part_guid" (entry_vals o))
    = (match o with Some _ => false | None => true end).
Proof.
  destruct o as [e|]; cbn [entry_wf]; intros W; [|repeat split; reflexivity].
  apply wf_gentry_parts in W as (T & G & _).
  apply guid_ok_parts in T as (_ & _ & T). apply guid_ok_parts in G as (_ & _ & G).
  unfold used_vals, counted_vals, gpt_iter_skip, gpt_len_counts, gpt_entry_unused.
  change (eb "type_guid" (entry_vals (Some e))) with (ge_type e).
  change (eb "part_guid" (entry_vals (Some e))) with (ge_guid e).
  change [0; 0; 0; 0; 0; 0; 0; 0; 0; 0; 0; 0; 0; 0; 0; 0] with zero16.
  rewrite T, G. repeat split; reflexivity.
Qed.

Lemma map_nth_seq {A} (l : list A) d : map (fun j => nth j l d) (seq 0 (length l)) = l.
Proof.
  induction l as [|x r IH]; [reflexivity|].
  cbn [length seq map nth]. f_equal. rewrite <- seq_shift, map_map. exact IH.
Qed.

Lemma map_f_nth_seq {A B} (f : A -> B) (l : list A) d :
  map (fun j => f (nth j l d)) (seq 0 (length l)) = map f l.
Proof. rewrite <- (map_map (fun j => nth j l d) f), map_nth_seq. reflexivity. Qed.

(* keys produced by __iter__ from the entry values = positions of the used slots *)
Lemma keys_list es : forall base,
  forallb entry_wf es = true ->
  map (fun x => gpt_iter_key (fst x))
      (filter (fun x => used_vals (snd x))
              (map (fun j => (base + N.of_nat j, entry_vals (nth j es None))) (seq 0 (length es))))
  = map fst (entries_defined (base + 1) es).
Proof.
  induction es as [|o r IH]; intros base W; [reflexivity|].
  cbn [forallb] in W. apply andb_true_iff in W as [Wo Wr].
  cbn [length seq map nth]. rewrite <- seq_shift, map_map.
  rewrite (map_ext _ (fun j => (base + 1 + N.of_nat j, entry_vals (nth j r None)))).
  2:{ intros j. cbn [nth]. f_equal. lia. }
  cbn [filter snd fst]. destruct (entry_flags o Wo) as (U & _ & _). rewrite U.
  destruct o as [e|]; cbn [entries_defined map fst].
  - unfold gpt_iter_key at 1. rewrite N.add_0_r. f_equal. apply IH, Wr.
  - apply IH, Wr.
Qed.

Lemma counted_list es :
  forallb entry_wf es = true ->
  lenN (filter counted_vals (map entry_vals es)) = lenN (entries_defined 1 es).
Proof.
  generalize 1. induction es as [|o r IH]; intros base W; [reflexivity|].
  cbn [forallb] in W. apply andb_true_iff in W as [Wo Wr].
  cbn [map filter]. destruct (entry_flags o Wo) as (_ & C & _). rewrite C.
  destruct o as [e|]; cbn [entries_defined]; rewrite ?lenN_cons, (IH (base + 1) Wr); reflexivity.
Qed.

Lemma defined_in_iff es : forall base n e,
  In (n, e) (entries_defined base es) <->
  base <= n /\ nth_error es (N.to_nat (n - base)) = Some (Some e).
Proof.
  induction es as [|o r IH]; intros base n e.
  - cbn. split; [tauto|]. intros [_ H]. destruct (N.to_nat (n - base)); discriminate.
  - assert (Step : forall X : Prop,
              (X <-> (n = base /\ o = Some e)) ->
              (X \/ In (n, e) (entries_defined (base + 1) r)) <->
              base <= n /\ nth_error (o :: r) (N.to_nat (n - base)) = Some (Some e)).
    { intros X HX. rewrite HX, IH. split.
      - intros [[-> ->]|[H1 H2]].
        + split; [lia|]. now rewrite N.sub_diag.
        + split; [lia|]. replace (N.to_nat (n - base)) with (S (N.to_nat (n - (base + 1)))) by lia.
          exact H2.
      - intros [H1 H2]. destruct (N.eq_dec n base) as [->|Hne].
        + left. rewrite N.sub_diag in H2. cbn in H2. injection H2 as ->. auto.
        + right. split; [lia|].
          replace (N.to_nat (n - base)) with (S (N.to_nat (n - (base + 1)))) in H2 by lia. exact H2. }
    destruct o as [e0|]; cbn [entries_defined In].
    + apply Step. split.
      * intros H. injection H as -> ->. auto.
      * intros [-> H]. injection H as ->. reflexivity.
    + rewrite <- (Step False).
      * tauto.
      * split; [tauto|]. intros [_ H]. discriminate.
Qed.

Lemma entries_need_ge es e : In (Some e) es -> ge_last e + 1 <= entries_need es.
Proof.
  induction es as [|o r IH]; intros H; [destruct H|].
  change (entries_need (o :: r)) with (N.max (entry_end o) (entries_need r)).
  destruct H as [->|H]; [cbn [entry_end]; lia|]. specialize (IH H). lia.
Qed.

Lemma defined_nodup es base : NoDup (map fst (entries_defined base es)).
Proof.
  assert (K : forall es base k, In k (map fst (entries_defined base es)) -> base <= k).
  { clear. induction es as [|o r IH]; intros base k H; [destruct H|].
    destruct o; cbn [entries_defined map fst In] in H.
    - destruct H as [<-|H]; [lia|]. apply IH in H. lia.
    - apply IH in H. lia. }
  revert base. induction es as [|o r IH]; intros base; [constructor|].
  destruct o; cbn [entries_defined map fst]; [|apply IH].
  constructor; [|apply IH]. intros H. apply K in H. lia.
Qed.

Lemma filter_pad es s :
  (forall j, In j s -> (length es <= j)%nat) ->
  filter counted_vals (map (fun j => entry_vals (nth j es None)) s) = [].
Proof.
  induction s as [|j s IH]; intros H; [reflexivity|].
  cbn [map filter]. rewrite nth_overflow by (apply H; now left).
  change (counted_vals (entry_vals None)) with false. apply IH. intros x Hx. apply H. now right.
Qed.

(* ================================================================ the theorem *)
Theorem parse_build_gpt S l :
  sector_ok S -> wf_gpt l = true ->
  let img := gpt_image S l in
  exists t,
    partitions img S = Ok t /\ tab_is_gpt t = true /\
    tab_keys t = Ok (map fst (gpt_defined l)) /\ NoDup (map fst (gpt_defined l)) /\
    tab_len t = Ok (lenN (gpt_defined l)) /\
    (forall n e, In (n, e) (gpt_defined l) ->
       tab_getitem t (Z.of_N n) =
         Ok {| p_start := ge_first e * S;
               p_data := slice (ge_first e * S) ((ge_last e + 1) * S) img;
               p_type := TGpt (ge_type e); p_label := ge_label e |}
       /\ lenN (slice (ge_first e * S) ((ge_last e + 1) * S) img)
          = (ge_last e + 1 - ge_first e) * S) /\
    (forall i, (forall n, In n (map fst (gpt_defined l)) -> Z.of_N n <> i) ->
       tab_getitem t i = Err KeyError).
Proof.
  intros HS W0 img. pose proof (sector_ok_ge S HS) as HS'. pose proof (wf_gpt_parts l W0) as W.
  destruct (gpt_image_ok S l HS W0) as [Finit Ftable Fneed _]. fold img in Finit, Ftable, Fneed.
  set (g := {| g_mem := img; g_ss := S; g_hdr := header_vals l (header_crc l) |}) in *.
  destruct (header_get l (header_crc l)) as (_ & _ & _ & _ & _ & G6 & G7).
  destruct (esize_bounds l (gw_k l W)) as [He1 He2].
  pose proof (gw_entries l W) as Wes.
  set (es := gl_entries l) in *.
  assert (Hcount : count_of l = N.of_nat (length es)) by reflexivity.
  (* reading the entries *)
  assert (Rd : forall j, (j < length es)%nat ->
             unpack_from GPT_PARTITION (table_bytes S l) (esize_of l * N.of_nat j)
             = Ok (entry_vals (nth j es None))).
  { intros j Hj. unfold table_bytes. apply read_entry; auto. now apply nth_error_nth'. }
  exists (TabGPT g). split; [now apply partitions_gpt|]. split; [reflexivity|].
  cbn [tab_keys tab_len tab_getitem].
  split; [|split; [apply defined_nodup|split; [|split]]].
  - (* __iter__ *)
    unfold gpt_keys. rewrite Ftable. unfold hint. cbn [g_hdr g]. rewrite G6, G7.
    unfold py_range.
    replace ((count_of l - 0 + 1 - 1) / 1) with (count_of l) by (rewrite N.div_1_r; lia).
    rewrite Hcount, Nat2N.id.
    erewrite (mapM_nrange _ (fun j => (0 + N.of_nat j, entry_vals (nth j es None)))).
    + cbn [bind]. f_equal. apply (keys_list es 0 Wes).
    + intros j Hj. unfold gpt_iter_offset.
      replace (0 + N.of_nat j * 1) with (N.of_nat j) by lia.
      rewrite (Rd j Hj). reflexivity.
  - (* __len__ *)
    unfold gpt_len. rewrite Ftable. unfold hint. cbn [g_hdr g]. rewrite G7.
    destruct (N.eqb_spec (esize_of l) 0) as [E|_]; [lia|].
    change gpt_len_range_start with 0. unfold py_range.
    rewrite lenN_table_bytes by assumption. rewrite N.sub_0_r.
    set (L := S * table_sectors S l).
    set (k := N.to_nat ((L + esize_of l - 1) / esize_of l)).
    assert (Hcov : count_of l * esize_of l <= L).
    { subst L. unfold table_sectors. apply ceil_mul_ge. lia. }
    assert (Hk : (length es <= k)%nat).
    { subst k. pose proof (le_ceil (count_of l) L (esize_of l) ltac:(lia) Hcov). lia. }
    erewrite (mapM_nrange _ (fun j => entry_vals (nth j es None))).
    + cbn [bind]. f_equal.
      replace k with (length es + (k - length es))%nat by lia.
      rewrite seq_app, map_app, filter_app, map_f_nth_seq.
      fold counted_vals.
      rewrite filter_pad by (intros j Hj; apply in_seq in Hj; lia).
      rewrite app_nil_r. apply counted_list, Wes.
    + intros j Hj. destruct (Nat.lt_ge_cases j (length es)) as [Hlt|Hge].
      * replace (0 + N.of_nat j * esize_of l) with (esize_of l * N.of_nat j) by lia. now apply Rd.
      * rewrite nth_overflow by exact Hge. unfold table_bytes.
        rewrite <- (app_nil_r (zeros _)).
        assert (Hj' : N.of_nat j * esize_of l < L).
        { apply lt_ceil_mul; [lia|]. subst k. lia. }
        destruct HS as (s & Hs & HSs).
        apply read_padding; rewrite lenN_entries_concat by assumption.
        -- rewrite Hcount. nia.
        -- unfold esize_of in *. subst L. rewrite HSs in *.
           set (p := 2 ^ gl_esize_log l) in *. set (ts := table_sectors (512 * s) l) in *.
           assert (E1 : 0 + N.of_nat j * (128 * p) = 128 * (p * N.of_nat j)) by lia.
           assert (E2 : 512 * s * ts = 128 * (4 * (s * ts))) by lia.
           rewrite E1. rewrite E2 in Hj', Hcov |- *.
           assert (E3 : N.of_nat j * (128 * p) = 128 * (p * N.of_nat j)) by lia.
           rewrite E3 in Hj'. lia.
  - (* __getitem__ of a defined number *)
    intros n e Hin. apply (defined_in_iff es 1) in Hin as [Hn1 Hnth].
    assert (Hj : (N.to_nat (n - 1) < length es)%nat) by (apply nth_error_Some; congruence).
    assert (Hnth' : nth (N.to_nat (n - 1)) es None = Some e) by (now apply nth_error_nth).
    assert (Hin' : In (Some e) es) by (eapply nth_error_In; eauto).
    pose proof (entries_need_ge es e Hin') as Hneed.
    pose proof Wes as Wes'. rewrite forallb_forall in Wes'. pose proof (Wes' _ Hin') as We.
    cbn [entry_wf] in We. pose proof (wf_gentry_parts e We) as (_ & _ & Hfl & _ & _ & Lab).
    assert (Bnd : S * (ge_last e + 1) <= lenN img) by (eapply N.le_trans; [|exact Fneed]; nia).
    split.
    + unfold gpt_getitem. rewrite Ftable. unfold hint. cbn [g_hdr g g_mem g_ss]. rewrite G6, G7.
      assert (B : gpt_index_bad (Z.of_N n) (Z.of_N (count_of l)) = false).
      { unfold gpt_index_bad. apply negb_false_iff, andb_true_iff.
        split; apply Z.leb_le; lia. }
      rewrite B, N2Z.id. unfold gpt_getitem_offset.
      replace (n - 1) with (N.of_nat (N.to_nat (n - 1))) by lia.
      rewrite (Rd _ Hj), Hnth'. cbn [bind].
      destruct (entry_flags (Some e) We) as (_ & _ & U). rewrite U.
      change (eb "part_label" (entry_vals (Some e))) with (label_bytes (ge_label e)).
      change (ei "first_lba" (entry_vals (Some e))) with (ge_first e).
      change (ei "last_lba" (entry_vals (Some e))) with (ge_last e).
      change (eb "type_guid" (entry_vals (Some e))) with (ge_type e).
      pose proof (label_roundtrip _ Lab) as LR.
      destruct (utf16le_decode (label_bytes (ge_label e))) as [t|]; [|discriminate].
      cbn [bind] in LR |- *. injection LR as LR. rewrite LR.
      unfold window, gpt_part_start, gpt_part_finish. cbn [fst snd].
      rewrite (N.mul_comm S (ge_first e)), (N.mul_comm S (ge_last e + 1)).
      rewrite N.min_l by nia. reflexivity.
    + rewrite slice_full_length; nia.
  - (* undefined numbers *)
    intros i Hi. unfold gpt_getitem. rewrite Ftable. unfold hint. cbn [g_hdr g g_mem g_ss]. rewrite G6, G7.
    destruct (gpt_index_bad i (Z.of_N (count_of l))) eqn:B; [reflexivity|].
    unfold gpt_index_bad in B. apply negb_false_iff, andb_true_iff in B as [B1 B2].
    apply Z.leb_le in B1, B2.
    set (n := Z.to_N i). assert (Hn : Z.of_N n = i) by (subst n; lia).
    assert (Hj : (N.to_nat (n - 1) < length es)%nat) by lia.
    unfold gpt_getitem_offset.
    replace (n - 1) with (N.of_nat (N.to_nat (n - 1))) by lia.
    rewrite (Rd _ Hj). cbn [bind].
    destruct (nth (N.to_nat (n - 1)) es None) as [e|] eqn:E.
    + exfalso. apply (Hi n); [|exact Hn].
      change n with (fst (n, e)). apply in_map. apply (defined_in_iff es 1). split; [lia|].
      rewrite <- E. now apply nth_error_nth'.
    + reflexivity.
Qed.

(* ================================================================ protective MBR *)
Theorem protective_mbr_rejected S l size :
  sector_ok S -> wf_gpt l = true -> size < 4294967296 -> gl_sector0 l = protective_sector size ->
  mbr_init (gpt_image S l) S = Err ValueError.
Proof.
  intros HS W0 Hsz P. pose proof (wf_gpt_parts l W0) as W.
  destruct (gpt_image_ok S l HS W0) as [_ _ _ (rest & Himg)].
  rewrite P in Himg. unfold protective_sector in Himg.
  assert (T : PROTECTIVE < 256) by (unfold PROTECTIVE; lia).
  assert (E16 : entry16 (part_entry PROTECTIVE 1 size)) by (apply part_entry_16; lia).
  set (img := gpt_image S l) in *.
  set (hv := boot_vals 0 (part_entry PROTECTIVE 1 size) empty_entry empty_entry empty_entry).
  assert (Hboot : unpack_from MBR_HEADER img 0 = Ok hv).
  { rewrite Himg. change 0 with (lenN (@nil N)) at 1. rewrite <- (app_nil_l (boot_sector _ _ _ _ _ ++ rest)).
    apply read_boot_sector; auto using empty_entry_16; lia. }
  set (m := {| m_mem := img; m_ss := S; m_hdr := hv |}).
  assert (GP : get_primary m = Ok [(1, mk (PROTECTIVE, 1, size))]).
  { unfold get_primary, m. cbn [m_mem m_ss m_hdr]. subst hv. rewrite boot_vals_slots.
    change [part_entry PROTECTIVE 1 size; empty_entry; empty_entry; empty_entry]
      with (map slot_entry [SPrimary PROTECTIVE 1 size; SEmpty; SEmpty; SEmpty]).
    change primary_start with 1. rewrite primary_loop_slots.
    - reflexivity.
    - cbn [forallb wf_slot]. apply u32_lt in Hsz. rewrite Hsz. reflexivity.
    - intros ty first es [H|[H|[H|[H|[]]]]]; discriminate. }
  unfold mbr_init. change (mbr_header_offset S) with 0. rewrite Hboot. cbn [bind].
  rewrite mbr_checks_unfold. subst hv. rewrite boot_vals_sig, boot_vals_zero.
  change (negb (BOOT_SIG =? BOOT_SIG) || (negb (0 =? 0) || false)) with false. cbv iota.
  fold m. rewrite GP. reflexivity.
Qed.

Theorem protective_defers S l size :
  sector_ok S -> wf_gpt l = true -> size < 4294967296 -> gl_sector0 l = protective_sector size ->
  let img := gpt_image S l in
  (exists g, partitions img S = Ok (TabGPT g) /\
             tab_keys (TabGPT g) = Ok (map fst (gpt_defined l))) /\
  mbr_init img S = Err ValueError.
Proof.
  intros HS W0 Hsz P img. split; [|now apply (protective_mbr_rejected S l size)].
  destruct (parse_build_gpt S l HS W0) as (t & Hp & Hg & Hk & _). fold img in Hp.
  destruct t as [g|m]; [|discriminate]. exists g. auto.
Qed.

(* corruption of a CRC-covered field (everything else intact): rejected exactly
   when CRC-32 tells the two headers apart -- no claim that it always does *)
Theorem reject_corrupt_covered_partial mem ss h :
  unpack_from GPT_HEADER mem (gpt_header_offset ss) = Ok h ->
  get_bytes GPT_HEADER "signature" h = EFI_PART ->
  get_int GPT_HEADER "revision" h = GPT_REVISION ->
  get_int GPT_HEADER "header_size" h = GPT_HEADER_SIZE ->
  (gpt_init mem ss = Err ValueError <-> header_crc_of h <> get_int GPT_HEADER "header_crc32" h).
Proof.
  intros H E1 E2 E3. split.
  - intros R E4. rewrite (gpt_init_accepts mem ss h H E1 E2 E3 E4) in R. discriminate.
  - intros N4. eapply reject_bad_gpt; eauto.
Qed.

(* re-packing an unpacked header never fails (the None branch of header_crc_of) *)
Theorem repack_total mem off h :
  bytes_ok mem = true -> unpack_from GPT_HEADER mem off = Ok h ->
  exists b, pack GPT_HEADER (set GPT_HEADER gpt_crc_replaced_field (VInt 0) h) = Some b.
Proof.
  intros B H. unfold unpack_from in H.
  destruct (lenN mem <? off + sizeN GPT_HEADER); [discriminate|].
  unfold unpack_exact in H.
  destruct (unpack GPT_HEADER (takeN (sizeN GPT_HEADER) (dropN off mem))) as [v|] eqn:U; [|discriminate].
  injection H as ->.
  assert (V : vals_ok GPT_HEADER h = true)
    by (eapply unpack_vals_ok; eauto using bytes_ok_takeN, bytes_ok_dropN).
  apply pack_some.
  rewrite gpt_header_std in *. unfold STD_GPT_HEADER in *.
  do 13 (destruct h as [|? h];
         [cbn [vals_ok] in V; repeat rewrite andb_false_r in V; discriminate V|]).
  destruct h; [|cbn [vals_ok] in V; repeat rewrite andb_false_r in V; discriminate V].
  cbn [vals_ok] in V. do 12 (apply andb_true_iff in V as [? V]).
  change (set _ gpt_crc_replaced_field (VInt 0) [f; f0; f1; f2; f3; f4; f5; f6; f7; f8; f9; f10; f11])
    with [f; f0; f1; VInt 0; f3; f4; f5; f6; f7; f8; f9; f10; f11].
  rewrite andb_true_r in V.
  cbn [vals_ok]. repeat (apply andb_true_iff; split); try assumption; reflexivity.
Qed.
