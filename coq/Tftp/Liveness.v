(* Completion (liveness) of an octet transfer: the closed loop
     RFC 1350 client  <->  lossy / duplicating / re-ordering network  <->  nobodd transfer
   built from the EXISTING executable definitions: the server side is [do_ACK],
   [sub_handle] and [tick] of Tftp/Transfer.v, the client side is [client_step]
   ([client_run]) of Transfer.v / TransferProofs.v.  Definitions only; the proofs
   are in Tftp/LivenessProofs.v. *)
From Coq Require Import List NArith ZArith Bool.
From NV Require Import Lib.Res Gen.Tftp Tftp.Packet Tftp.Transfer Tftp.TransferProofs.
Import ListNotations.
Open Scope N_scope.

(* ---------- what the receiving client answers (RFC 1350 section 2, RFC 2347) ----------
   [c] is the client BEFORE the datagram [p] (from the transfer's TID) is taken by
   [client_step]: the block it was waiting for is acknowledged; an OACK is
   acknowledged with block 0 as long as no data has arrived; everything else
   (duplicates, stale blocks, errors) is answered by nothing -- re-sending the last
   ACK is the business of the client's retransmission timer ([CliTimer] below),
   so a client that re-ACKs duplicates is a particular schedule of this one. *)
Definition client_reply (c : client) (p : packet) : option N :=
  if c_finished c then None
  else match p with
       | DATA k _ => if k =? c_expect c then Some k else None
       | OACK _ => if c_expect c =? 1 then Some 0 else None
       | _ => None
       end.

(* bytes(ACKPacket(b)) *)
Definition ack_dgram (b : N) : bytes := be16 op_ACK ++ be16 b.

(* number of DATA packets of a complete transfer: |F|/B full blocks and a short
   (possibly empty) last one *)
Definition nblocks (F : bytes) (B : N) : nat := (length F / N.to_nat B + 1)%nat.

(* DATA k, DATA k+1, ... ([cnt] of them) carrying the right slices of F *)
Fixpoint data_seq (F : bytes) (B : N) (k : N) (cnt : nat) : list packet :=
  match cnt with
  | O => []
  | S c => DATA k (slice F B k) :: data_seq F B (k + 1) c
  end.

(* ---------- a transfer just started by an accepted request ----------
   [p] is the first packet ([Started st p] of [do_RRQ]): DATA 1 (no option
   acknowledged) or an OACK (then nothing has been read yet). *)
Definition fresh (F : bytes) (B : N) (st : tstate) (p : packet) : Prop :=
  Inv F B st /\ ts_done st = false /\ ts_dead st = false /\
  ((ts_blocks_read st = 1 /\ ts_blocks st = [(1, slice F B 1)] /\ p = DATA 1 (slice F B 1)) \/
   (ts_blocks_read st = 0 /\ exists o, p = OACK o)).

(* ================= 1. loss-free lock step ================= *)
(* [p] is the datagram in flight to the client; the client takes it, answers, the
   answer goes through [do_ACK], whose reply is the next datagram in flight.
   [log] = every datagram the server has put on the wire, oldest first. *)
Fixpoint ideal_run (B tid : N) (fuel : nat) (st : tstate) (c : client) (p : packet)
         (log : list packet) : client * tstate * list packet :=
  match fuel with
  | O => (c, st, log)
  | S f =>
    let c' := client_step B tid c tid p in
    match client_reply c p with
    | None => (c', st, log)
    | Some b =>
      let x := do_ACK b st in
      match snd x with
      | Some p' => ideal_run B tid f (fst x) c' p' (log ++ [p'])
      | None => (c', fst x, log)
      end
    end
  end.

Definition ideal (B tid : N) (fuel : nat) (st0 : tstate) (p0 : packet) :=
  ideal_run B tid fuel st0 client_init p0 [p0].

(* ================= 2. the lossy closed loop ================= *)
Record sys := {
  sv : tstate;                    (* the transfer (TFTPSubServer + TFTPClientState) *)
  cl : client;                    (* the receiving client *)
  cl_last : option N;             (* the last ACK the client sent (what its timer re-sends) *)
  to_cl : list packet;            (* datagrams in flight to the client, newest first *)
  to_sv : list N;                 (* ACK block numbers in flight to the server, newest first *)
  sent : list packet;             (* every datagram the server put on the wire, newest first *)
  heard : list (N * packet)       (* every datagram handed to the client, oldest first *)
}.

Definition sys_init (st0 : tstate) (p0 : packet) : sys :=
  {| sv := st0; cl := client_init; cl_last := None; to_cl := [p0]; to_sv := [];
     sent := [p0]; heard := [] |}.

(* any packet in flight may be chosen (index from the newest): re-ordering *)
Inductive ev :=
| DeliverData (i : nat)            (* arrives at the client and leaves the network *)
| DupData (i : nat)                (* arrives at the client, a copy stays in flight *)
| LoseData (i : nat)
| DeliverAck (i : nat) (now : Z)   (* arrives at the transfer's port at time [now] *)
| DupAck (i : nat) (now : Z)
| LoseAck (i : nat)
| SrvTimer (now : Z)               (* TFTPSubServer.service_actions at time [now] *)
| CliTimer.                        (* the client's timeout: it re-sends its last ACK *)

Definition drop {A} (i : nat) (l : list A) : list A := firstn i l ++ skipn (S i) l.

(* a transfer marked done (or whose thread died) is reaped: it handles nothing more *)
Definition srv_up (st : tstate) : bool := negb (ts_done st || ts_dead st).

Definition set_to_cl (s : sys) (l : list packet) : sys :=
  {| sv := sv s; cl := cl s; cl_last := cl_last s; to_cl := l; to_sv := to_sv s;
     sent := sent s; heard := heard s |}.
Definition set_to_sv (s : sys) (l : list N) : sys :=
  {| sv := sv s; cl := cl s; cl_last := cl_last s; to_cl := to_cl s; to_sv := l;
     sent := sent s; heard := heard s |}.

Definition cli_recv (B tid : N) (s : sys) (p : packet) : sys :=
  {| sv := sv s;
     cl := client_step B tid (cl s) tid p;
     cl_last := match client_reply (cl s) p with Some b => Some b | None => cl_last s end;
     to_cl := to_cl s;
     to_sv := match client_reply (cl s) p with Some b => b :: to_sv s | None => to_sv s end;
     sent := sent s;
     heard := heard s ++ [(tid, p)] |}.

Definition srv_out (s : sys) (st : tstate) (out : list packet) : sys :=
  {| sv := st; cl := cl s; cl_last := cl_last s; to_cl := out ++ to_cl s; to_sv := to_sv s;
     sent := out ++ sent s; heard := heard s |}.

Definition srv_recv (s : sys) (b : N) (now : Z) : sys :=
  if srv_up (sv s) then
    let x := sub_handle (sv s) (ts_addr (sv s)) (ack_dgram b) now in
    srv_out s (fst x) (match snd x with Some p => [p] | None => [] end)
  else s.

Definition srv_timer (s : sys) (now : Z) : sys :=
  if srv_up (sv s) then
    let x := tick (sv s) now in srv_out s (fst x) (rev (snd x))
  else s.

Definition cli_timer (s : sys) : sys :=
  match cl_last s with
  | Some b => set_to_sv s (b :: to_sv s)
  | None => s
  end.

Definition step (B tid : N) (s : sys) (e : ev) : sys :=
  match e with
  | DeliverData i =>
    match nth_error (to_cl s) i with
    | Some p => cli_recv B tid (set_to_cl s (drop i (to_cl s))) p
    | None => s
    end
  | DupData i =>
    match nth_error (to_cl s) i with Some p => cli_recv B tid s p | None => s end
  | LoseData i => set_to_cl s (drop i (to_cl s))
  | DeliverAck i now =>
    match nth_error (to_sv s) i with
    | Some b => srv_recv (set_to_sv s (drop i (to_sv s))) b now
    | None => s
    end
  | DupAck i now =>
    match nth_error (to_sv s) i with Some b => srv_recv s b now | None => s end
  | LoseAck i => set_to_sv s (drop i (to_sv s))
  | SrvTimer now => srv_timer s now
  | CliTimer => cli_timer s
  end.

Fixpoint lrun (B tid : N) (s : sys) (sch : list ev) : sys :=
  match sch with
  | [] => s
  | e :: r => lrun B tid (step B tid s e) r
  end.

(* ---------- the retry limit of the model ----------
   [tick] abandons the transfer (marks it done) exactly when more than one timeout
   has passed since the last datagram from the client AND (nothing was ever sent OR
   the last send happened more than five timeouts after that datagram).  A
   schedule is "never abandoned" when no [SrvTimer] event finds this condition. *)
Definition gives_up (st : tstate) (now : Z) : bool :=
  gen_tick_recv_cmp now (ts_last_recv st) (ts_timeout st) &&
  match ts_last_send st with
  | None => true
  | Some ls => gen_tick_giveup_cmp ls (ts_last_recv st) (ts_timeout st)
  end.

Fixpoint never_abandoned (B tid : N) (s : sys) (sch : list ev) : Prop :=
  match sch with
  | [] => True
  | e :: r =>
    match e with SrvTimer now => gives_up (sv s) now = false | _ => True end /\
    never_abandoned B tid (step B tid s e) r
  end.

(* a sufficient condition on the clock alone: the server's timer never sees more
   than five timeouts of silence (time since the last datagram from the client),
   and the clock does not run backwards between a send and the next arrival *)
Definition clock_ok (st : tstate) : Prop :=
  (0 <= ts_timeout st)%Z /\
  exists ls, ts_last_send st = Some ls /\ (ls - ts_last_recv st <= 5 * ts_timeout st)%Z.

Fixpoint never_silent (B tid : N) (s : sys) (sch : list ev) : Prop :=
  match sch with
  | [] => True
  | e :: r =>
    match e with
    | SrvTimer now => (now - ts_last_recv (sv s) <= 5 * ts_timeout (sv s))%Z
    | DeliverAck _ now | DupAck _ now =>
      match ts_last_send (sv s) with Some ls => (ls <= now)%Z | None => True end
    | _ => True
    end /\ never_silent B tid (step B tid s e) r
  end.

(* ---------- effective deliveries ----------
   the event hands the client the DATA block it is waiting for, or hands the
   server the ACK of the newest block it has read: the "current" packet gets
   through (everything else in flight is stale) *)
Definition effective (s : sys) (e : ev) : bool :=
  match e with
  | DeliverData i | DupData i =>
    match nth_error (to_cl s) i with
    | Some (DATA k _) => k =? c_expect (cl s)
    | _ => false
    end
  | DeliverAck i _ | DupAck i _ =>
    match nth_error (to_sv s) i with
    | Some b => b =? ts_blocks_read (sv s)
    | None => false
    end
  | _ => false
  end.

Fixpoint effective_count (B tid : N) (s : sys) (sch : list ev) : nat :=
  match sch with
  | [] => O
  | e :: r => ((if effective s e then 1 else 0) + effective_count B tid (step B tid s e) r)%nat
  end.

(* how many effective deliveries a fresh transfer needs: every DATA block once and
   every ACK but the last once (the last ACK only lets the server finish); one
   more ACK (of block 0) when the transfer starts with an OACK *)
Definition deliveries_needed (F : bytes) (B : N) (p0 : packet) : nat :=
  match p0 with
  | DATA _ _ => (2 * nblocks F B - 1)%nat
  | _ => (2 * nblocks F B)%nat
  end.
