(* Completion of an octet transfer: proofs over the closed loop of Tftp/Liveness.v. *)
From Coq Require Import List NArith ZArith Bool Lia Arith ZifyN ZifyNat ZifyBool.
From NV Require Import Lib.Res Lib.PyInt Gen.Tftp Tftp.Packet Tftp.PacketProofs Tftp.Transfer
  Tftp.TransferProofs Tftp.NegotiateProofs Tftp.Liveness Netascii.Model.
Import ListNotations.
Open Scope N_scope.

(* ---------- the ACK datagram ---------- *)
Lemma ack_dgram_serialize b : serialize (ACK b) = Ok (ack_dgram b).
Proof. reflexivity. Qed.

Lemma parse_ack_dgram b : b <= 65535 -> parse (ack_dgram b) = Ok (ACK b).
Proof.
  intros Hb.
  assert (Hnf : nf (ACK b) = true).
  { cbn [nf]. unfold ack_block_min, ack_block_max. apply andb_true_iff. split; apply N.leb_le; lia. }
  destruct (parse_serialize (ACK b) Hnf) as (d & Hs & Hp).
  rewrite ack_dgram_serialize in Hs. injection Hs as <-. exact Hp.
Qed.

Lemma mk_DATA_in k d : 1 <= k <= 65535 -> mk_DATA k d = Ok (DATA k d).
Proof.
  intros Hk. unfold mk_DATA, data_block_min, data_block_max.
  replace ((1 <=? k) && (k <=? 65535)) with true; [reflexivity|].
  symmetry. apply andb_true_iff. split; apply N.leb_le; lia.
Qed.

(* setters never touch the flags the reaper looks at, except the one they set *)
Lemma ack_flags b st : ts_done (ack b st) = ts_done st /\ ts_dead (ack b st) = ts_dead st.
Proof. unfold ack. destruct (blk_lookup b (ts_blocks st)); split; reflexivity. Qed.

Section Live.
Variable F : bytes.
Variable B : N.
Hypothesis B_pos : 1 <= B.
Hypothesis F_fits : N.of_nat (length F) < 65535 * B.

Notation bn := (Bn B).
Notation L := (length F).
Notation nb := (length F / Bn B)%nat.
Notation slice := (slice F B).
Notation Inv := (Inv F B).
Notation CInv := (CInv F B).
Notation sound := (sound F B).

Lemma bn_pos : (1 <= bn)%nat. Proof. unfold Bn. lia. Qed.
Lemma bn_eq : bn = N.to_nat B. Proof. reflexivity. Qed.

Lemma F_fits_nat : (L < N.to_nat 65535 * bn)%nat.
Proof. unfold Bn. rewrite <- N2Nat.inj_mul. lia. Qed.

Lemma nb_lo : (nb * bn <= L)%nat.
Proof. pose proof bn_pos. rewrite Nat.mul_comm. apply Nat.mul_div_le. lia. Qed.
Lemma nb_hi : (L < (nb + 1) * bn)%nat.
Proof.
  pose proof bn_pos. replace (nb + 1)%nat with (S nb) by lia.
  rewrite Nat.mul_comm. apply Nat.mul_succ_div_gt. lia.
Qed.
Lemma full_le k : (k * bn <= L)%nat -> (k <= nb)%nat.
Proof. pose proof bn_pos as Hb. intros H. apply Nat.div_le_lower_bound; [lia|]. rewrite Nat.mul_comm. exact H. Qed.
Lemma short_gt k : (L < k * bn)%nat -> (nb < k)%nat.
Proof. pose proof bn_pos as Hb. intros H. apply Nat.div_lt_upper_bound; [lia|]. rewrite Nat.mul_comm. exact H. Qed.
Lemma start_le k : (k * bn <= L)%nat -> (k < N.to_nat 65535)%nat.
Proof.
  intros H. pose proof F_fits_nat as Hf.
  destruct (le_lt_dec (N.to_nat 65535) k) as [Hge|Hlt]; [|exact Hlt].
  pose proof (Nat.mul_le_mono_r _ _ bn Hge). lia.
Qed.

Lemma mul_succ_bn k : ((k + 1) * bn = k * bn + bn)%nat.
Proof. lia. Qed.

(* block k (k >= 1, starting inside the file) is full or short *)
Lemma slice_cases k : 1 <= k -> ((N.to_nat k - 1) * bn <= L)%nat ->
  (length (slice k) = bn /\ (N.to_nat k * bn <= L)%nat) \/
  ((length (slice k) < bn)%nat /\ (L < N.to_nat k * bn)%nat).
Proof.
  intros Hk Hs. rewrite slice_len.
  pose proof (mul_pred (N.to_nat k) bn ltac:(lia)) as Hm.
  destruct (le_lt_dec (N.to_nat k * bn) L); [left|right]; lia.
Qed.

(* ---------- the server's protocol state ---------- *)
Lemma Inv_r_le st : Inv st -> ts_blocks_read st <= 65535.
Proof.
  intros (_ & _ & _ & _ & H1).
  destruct (N.eq_dec (ts_blocks_read st) 0) as [Z|NZ]; [lia|].
  destruct (H1 ltac:(lia)) as (Hs & _). pose proof (start_le _ Hs). lia.
Qed.

Lemma Inv_start st : Inv st -> 1 <= ts_blocks_read st ->
  ((N.to_nat (ts_blocks_read st) - 1) * bn <= L)%nat.
Proof. intros (_ & _ & _ & _ & H1) Hr. apply H1. exact Hr. Qed.

Lemma Inv_cached_pos st : Inv st -> ts_blocks st <> [] -> 1 <= ts_blocks_read st.
Proof.
  intros (_ & _ & _ & H0 & _) Hne.
  destruct (N.eq_dec (ts_blocks_read st) 0) as [Z|NZ]; [|lia].
  destruct (H0 Z) as (_ & X). congruence.
Qed.

Lemma ack_other st b : Inv st -> b <> ts_blocks_read st -> ack b st = st.
Proof.
  intros (_ & _ & Hblk & _) Hne. unfold ack.
  destruct Hblk as [-> | ->]; cbn [blk_lookup]; [reflexivity|].
  destruct (N.eqb_spec (ts_blocks_read st) b); [congruence|reflexivity].
Qed.

(* reading the next block *)
Lemma get_block_next st :
  Inv st -> ts_blocks st = [] -> finished st = false ->
  exists st2, get_block (ts_blocks_read st + 1) st = Ok (slice (ts_blocks_read st + 1), st2) /\
    Inv st2 /\ ts_blocks_read st2 = ts_blocks_read st + 1 /\
    ts_blocks st2 = [(ts_blocks_read st + 1, slice (ts_blocks_read st + 1))] /\
    ts_done st2 = ts_done st /\ ts_dead st2 = ts_dead st.
Proof.
  intros HI Hnil Hfin.
  pose proof (get_block_spec F B B_pos st (ts_blocks_read st + 1) HI (fun _ => Hnil)) as G.
  destruct HI as (Hbs & Hsrc & _).
  unfold get_block, gen_next_block_cmp in *. rewrite N.eqb_refl, Hfin in *.
  rewrite Hsrc, Hbs in *. cbn [src_read bind fst snd] in *.
  destruct G as (HI2 & Hd & _).
  eexists. split; [rewrite Hd at 1; reflexivity|].
  split; [exact HI2|]. cbn [ts_blocks_read ts_blocks ts_done ts_dead set_blocks set_src].
  rewrite Hnil. cbn [blk_set]. rewrite <- Hd. repeat split; reflexivity.
Qed.

(* ACK of the newest block, another block follows: it is read and sent *)
Lemma do_ACK_advance st :
  Inv st ->
  (ts_blocks_read st = 0 \/ (1 <= ts_blocks_read st /\ (N.to_nat (ts_blocks_read st) * bn <= L)%nat)) ->
  exists st', do_ACK (ts_blocks_read st) st =
                (st', Some (DATA (ts_blocks_read st + 1) (slice (ts_blocks_read st + 1)))) /\
    Inv st' /\ ts_blocks_read st' = ts_blocks_read st + 1 /\
    ts_blocks st' = [(ts_blocks_read st + 1, slice (ts_blocks_read st + 1))] /\
    ts_done st' = ts_done st /\ ts_dead st' = ts_dead st.
Proof.
  intros HI Hcase. set (r := ts_blocks_read st) in *.
  assert (Hr1 : 1 <= r + 1 <= 65535).
  { destruct Hcase as [Z|(Hr & Hf)]; [lia|]. pose proof (start_le _ Hf). lia. }
  assert (Hst1 : Inv (ack r st) /\ ts_blocks (ack r st) = [] /\ finished (ack r st) = false /\
                 ts_blocks_read (ack r st) = r).
  { destruct (Inv_ack F B B_pos st r HI) as (HI1 & Hpop & Hrr & Hbs1 & _ & _).
    split; [exact HI1|]. destruct Hcase as [Z|(Hr & Hf)].
    - assert (HI' := HI). destruct HI' as (_ & _ & _ & H0 & _). destruct (H0 Z) as (Hla & Hb).
      unfold ack. rewrite Hb. cbn [blk_lookup]. split; [exact Hb|]. split; [|reflexivity].
      unfold finished. rewrite Hla. reflexivity.
    - destruct (Hpop eq_refl Hr) as (Hb & Hla). split; [exact Hb|]. split; [|exact Hrr].
      unfold finished. rewrite Hla, Hbs1. unfold gen_finished_cmp. apply N.ltb_ge.
      destruct (slice_cases r Hr (Inv_start st HI Hr)) as [(E & _)|(_ & X)]; [|lia].
      rewrite E. unfold Bn. lia. }
  destruct Hst1 as (HI1 & Hb1 & Hf1 & Hr1').
  destruct (get_block_next (ack r st) HI1 Hb1 Hf1) as (st2 & Eg & HI2 & Hr2 & Hb2 & Hd2 & Hx2).
  rewrite Hr1' in *. destruct (ack_flags r st) as (Ha1 & Ha2).
  exists st2. unfold do_ACK. rewrite Eg, (mk_DATA_in _ _ Hr1).
  split; [reflexivity|]. split; [exact HI2|]. split; [exact Hr2|]. split; [exact Hb2|].
  split; congruence.
Qed.

(* ACK of the newest block, which was short: the transfer is complete *)
Lemma do_ACK_finish st :
  Inv st -> 1 <= ts_blocks_read st -> (L < N.to_nat (ts_blocks_read st) * bn)%nat ->
  do_ACK (ts_blocks_read st) st = (set_done (ack (ts_blocks_read st) st), None) /\
  Inv (ack (ts_blocks_read st) st) /\ finished (ack (ts_blocks_read st) st) = true /\
  ts_blocks_read (ack (ts_blocks_read st) st) = ts_blocks_read st /\
  ts_dead (ack (ts_blocks_read st) st) = ts_dead st.
Proof.
  intros HI Hr Hshort. set (r := ts_blocks_read st) in *.
  destruct (Inv_ack F B B_pos st r HI) as (HI1 & Hpop & Hrr & Hbs1 & _ & _).
  destruct (Hpop eq_refl Hr) as (Hb & Hla).
  assert (Hfin : finished (ack r st) = true).
  { unfold finished. rewrite Hla, Hbs1. unfold gen_finished_cmp. apply N.ltb_lt.
    destruct (slice_cases r Hr (Inv_start st HI Hr)) as [(_ & X)|(X & _)]; [lia|].
    unfold Bn in X. lia. }
  split; [|split; [exact HI1|split; [exact Hfin|split; [exact Hrr|apply ack_flags]]]].
  unfold do_ACK, get_block, gen_next_block_cmp. rewrite Hrr, N.eqb_refl, Hfin. reflexivity.
Qed.

(* ACK of an older block: nothing changes; the newest block is re-sent when the
   ACK is for the one before it and it is still unacknowledged *)
Lemma do_ACK_stale st b :
  Inv st -> b < ts_blocks_read st ->
  do_ACK b st =
  (st, if (b + 1 =? ts_blocks_read st) && negb (match ts_blocks st with [] => true | _ => false end)
       then Some (DATA (ts_blocks_read st) (slice (ts_blocks_read st))) else None).
Proof.
  intros HI Hlt.
  pose proof (Inv_r_le st HI) as Hr.
  unfold do_ACK. rewrite (ack_other st b HI) by lia.
  destruct HI as (_ & _ & Hblk & _).
  unfold get_block, gen_next_block_cmp, gen_already_acked_cmp.
  destruct (N.eqb_spec (ts_blocks_read st + 1) (b + 1)) as [E|_]; [lia|].
  destruct Hblk as [Hb|Hb]; rewrite Hb; cbn [blk_lookup negb andb].
  - rewrite andb_false_r. destruct (N.leb_spec (b + 1) (ts_blocks_read st)); [reflexivity|lia].
  - rewrite andb_true_r. rewrite (N.eqb_sym (ts_blocks_read st)).
    destruct (N.eqb_spec (b + 1) (ts_blocks_read st)) as [E|E].
    + rewrite <- E. rewrite mk_DATA_in by lia. reflexivity.
    + destruct (N.leb_spec (b + 1) (ts_blocks_read st)); [reflexivity|lia].
Qed.

(* ================= 1. loss-free lock step ================= *)
Lemma client_accept tid c k d :
  c_finished c = false -> c_expect c = k ->
  client_step B tid c tid (DATA k d) =
    {| c_expect := k + 1; c_buf := c_buf c ++ d;
       c_finished := N.of_nat (length d) <? B |} /\
  client_reply c (DATA k d) = Some k.
Proof.
  intros Hf <-. unfold client_step, client_reply. rewrite Hf, !N.eqb_refl. cbn [negb].
  split; reflexivity.
Qed.

Lemma client_step_nodata tid c p :
  (forall k d, p <> DATA k d) -> client_step B tid c tid p = c.
Proof.
  intros Hn. unfold client_step. destruct (c_finished c); [reflexivity|].
  rewrite N.eqb_refl. cbn [negb]. destruct p; try reflexivity. exfalso. eapply Hn. reflexivity.
Qed.

Lemma sound_current k : 1 <= k -> ((N.to_nat k - 1) * bn <= L)%nat -> sound (DATA k (slice k)).
Proof.
  intros Hk Hs. cbn [TransferProofs.sound]. split; [|split; [reflexivity|exact Hs]].
  pose proof (mul_pred (N.to_nat k) bn ltac:(lia)) as Hm.
  destruct (le_lt_dec (N.to_nat 65535) (N.to_nat k - 1)) as [Hge|Hlt]; [|lia].
  pose proof (Nat.mul_le_mono_r _ _ bn Hge). pose proof F_fits_nat. lia.
Qed.

Lemma data_seq_length k cnt : length (data_seq F B k cnt) = cnt.
Proof. revert k; induction cnt as [|c IH]; intros k; cbn [data_seq length]; [reflexivity|]. rewrite IH. reflexivity. Qed.

(* the server has just sent DATA k (k = blocks_read), the client waits for it *)
Lemma ideal_from_block tid : forall fuel st c log,
  Inv st -> 1 <= ts_blocks_read st ->
  CInv c -> c_expect c = ts_blocks_read st -> c_finished c = false ->
  (nb + 2 <= fuel + N.to_nat (ts_blocks_read st))%nat ->
  let '(c', st', log') :=
    ideal_run B tid fuel st c (DATA (ts_blocks_read st) (slice (ts_blocks_read st))) log in
  c_finished c' = true /\ c_buf c' = F /\ ts_done st' = true /\ finished st' = true /\
  Inv st' /\
  log' = log ++ data_seq F B (ts_blocks_read st + 1) (nb + 1 - N.to_nat (ts_blocks_read st)).
Proof.
  induction fuel as [|f IH]; intros st c log HI Hr HC He Hf Hfuel.
  - exfalso. destruct HC as (_ & _ & _ & Hs). specialize (Hs Hf). rewrite He in Hs.
    pose proof (full_le _ Hs). lia.
  - assert (Hstart : ((N.to_nat (ts_blocks_read st) - 1) * bn <= L)%nat) by (apply Inv_start; assumption).
    pose proof (client_step_inv F B B_pos tid c tid _ HC (fun _ => sound_current _ Hr Hstart)) as HC1.
    cbn [ideal_run].
    destruct (client_accept tid c _ (slice (ts_blocks_read st)) Hf He) as (E1 & E2).
    rewrite E1 in HC1. rewrite E1, E2. clear E1 E2.
    destruct (slice_cases _ Hr Hstart) as [(Hlen & Hfull)|(Hlen & Hshort)].
    + destruct (do_ACK_advance st HI (or_intror (conj Hr Hfull))) as (st' & E & HI' & Hr' & _ & _ & _).
      rewrite E. cbn [fst snd].
      pose proof (full_le _ Hfull) as Hle.
      assert (Hr1 : 1 <= ts_blocks_read st') by lia.
      rewrite <- Hr' in HC1 |- *.
      specialize (IH st' _ (log ++ [DATA (ts_blocks_read st') (slice (ts_blocks_read st'))]) HI' Hr1 HC1).
      cbn [c_expect c_finished] in IH.
      specialize (IH eq_refl).
      assert (Hnf : (N.of_nat (length (slice (ts_blocks_read st))) <? B) = false).
      { apply N.ltb_ge. rewrite Hlen. unfold Bn. lia. }
      specialize (IH Hnf ltac:(lia)).
      destruct (ideal_run B tid f st' _ _ _) as [[c2 st2] log2].
      destruct IH as (A1 & A2 & A3 & A4 & A5 & A6).
      repeat (split; [assumption|]). rewrite A6.
      replace (nb + 1 - N.to_nat (ts_blocks_read st))%nat
        with (S (nb + 1 - N.to_nat (ts_blocks_read st')))%nat by lia.
      cbn [data_seq]. rewrite <- app_assoc. reflexivity.
    + destruct (do_ACK_finish st HI Hr Hshort) as (E & HI' & Hfin & _ & _).
      rewrite E. cbn [fst snd].
      assert (Hsh : (N.of_nat (length (slice (ts_blocks_read st))) <? B) = true).
      { apply N.ltb_lt. unfold Bn in Hlen. lia. }
      destruct HC1 as (_ & _ & Hbuf & _). cbn [c_finished c_buf] in *.
      split; [exact Hsh|]. split; [apply Hbuf; exact Hsh|]. split; [reflexivity|].
      split; [exact Hfin|]. split; [apply Inv_done; exact HI'|].
      pose proof (short_gt _ Hshort).
      replace (nb + 1 - N.to_nat (ts_blocks_read st))%nat with O by lia.
      cbn [data_seq]. rewrite app_nil_r. reflexivity.
Qed.

(* completion without loss, for a transfer started by DATA 1 or by an OACK *)
Theorem ideal_run_completes tid st0 p0 fuel :
  fresh F B st0 p0 -> (L / N.to_nat B + 2 <= fuel)%nat ->
  let '(c, st, log) := ideal B tid fuel st0 p0 in
  c_finished c = true /\ c_buf c = F /\
  ts_done st = true /\ finished st = true /\ Inv st /\
  log = (match p0 with DATA _ _ => [] | _ => [p0] end) ++ data_seq F B 1 (L / N.to_nat B + 1).
Proof.
  intros (HI & Hdone & Hdead & Hcase) Hfuel. fold bn in *. unfold ideal.
  remember nb as n eqn:En.
  destruct Hcase as [(Hr & Hb & ->)|(Hr & o & ->)].
  - pose proof (ideal_from_block tid fuel st0 client_init [DATA 1 (slice 1)] HI) as G.
    rewrite Hr, <- En in G. specialize (G ltac:(lia) (CInv_init F B B_pos) eq_refl eq_refl ltac:(lia)).
    destruct (ideal_run B tid fuel st0 client_init _ _) as [[c st] log].
    destruct G as (A1 & A2 & A3 & A4 & A5 & A6). repeat (split; [assumption|]).
    rewrite A6. change (N.to_nat 1) with 1%nat. rewrite Nat.add_sub, Nat.add_1_r. reflexivity.
  - destruct fuel as [|f]; [lia|]. cbn [ideal_run].
    change (client_reply client_init (OACK o)) with (Some 0).
    rewrite client_step_nodata by (intros; discriminate).
    destruct (do_ACK_advance st0 HI (or_introl Hr)) as (st' & E & HI' & Hr' & _ & _ & _).
    rewrite Hr in *. rewrite E. cbn [fst snd]. change (0 + 1) with 1 in *.
    pose proof (ideal_from_block tid f st' client_init [OACK o; DATA 1 (slice 1)] HI') as G.
    rewrite Hr', <- En in G. specialize (G ltac:(lia) (CInv_init F B B_pos) eq_refl eq_refl ltac:(lia)).
    change ([OACK o] ++ [DATA 1 (slice 1)]) with [OACK o; DATA 1 (slice 1)].
    destruct (ideal_run B tid f st' client_init _ _) as [[c st] log].
    destruct G as (A1 & A2 & A3 & A4 & A5 & A6). repeat (split; [assumption|]).
    rewrite A6. change (N.to_nat 1) with 1%nat. rewrite Nat.add_sub, Nat.add_1_r. reflexivity.
Qed.

Corollary ideal_run_data_count tid st0 p0 fuel :
  fresh F B st0 p0 -> (L / N.to_nat B + 2 <= fuel)%nat ->
  length (filter (fun p => match p with DATA _ _ => true | _ => false end)
                 (snd (ideal B tid fuel st0 p0))) = nblocks F B.
Proof.
  intros Hfr Hfuel. pose proof (ideal_run_completes tid st0 p0 fuel Hfr Hfuel) as G.
  destruct (ideal B tid fuel st0 p0) as [[c st] log]. destruct G as (_ & _ & _ & _ & _ & ->).
  cbn [snd]. rewrite filter_app.
  assert (X : forall k cnt, filter (fun p => match p with DATA _ _ => true | _ => false end)
                                   (data_seq F B k cnt) = data_seq F B k cnt).
  { intros k cnt; revert k; induction cnt as [|n IH]; intros k; cbn [data_seq filter]; [reflexivity|].
    rewrite IH. reflexivity. }
  rewrite X, app_length, data_seq_length. unfold nblocks.
  destruct Hfr as (_ & _ & _ & [(_ & _ & ->)|(_ & o & ->)]); reflexivity.
Qed.

(* ================= 2. the lossy closed loop ================= *)
(* ---------- one ACK datagram at the transfer's port ---------- *)
Lemma sub_handle_ack st b now :
  ts_dead st = false -> b <= 65535 ->
  sub_handle st (ts_addr st) (ack_dgram b) now =
  (let r := do_ACK b (set_recv st now) in
   match snd r with Some p => (set_send (fst r) now, Some p) | None => r end).
Proof.
  intros Hd Hb. unfold sub_handle. rewrite Hd, N.eqb_refl, (parse_ack_dgram b Hb). reflexivity.
Qed.

Definition is_nil {A} (l : list A) : bool := match l with [] => true | _ => false end.

Lemma srv_ack_stale st b now :
  Inv st -> ts_dead st = false -> b < ts_blocks_read st ->
  let x := sub_handle st (ts_addr st) (ack_dgram b) now in
  Inv (fst x) /\ ts_blocks_read (fst x) = ts_blocks_read st /\ ts_blocks (fst x) = ts_blocks st /\
  ts_done (fst x) = ts_done st /\ ts_dead (fst x) = false /\
  snd x = if (b + 1 =? ts_blocks_read st) && negb (is_nil (ts_blocks st))
          then Some (DATA (ts_blocks_read st) (slice (ts_blocks_read st))) else None.
Proof.
  intros HI Hd Hlt. pose proof (Inv_r_le st HI) as Hr. cbn zeta.
  rewrite sub_handle_ack by (assumption || lia).
  rewrite (do_ACK_stale (set_recv st now) b (Inv_recv F B st now HI) Hlt).
  cbn [ts_blocks_read ts_blocks set_recv]. fold (is_nil (ts_blocks st)).
  destruct ((b + 1 =? ts_blocks_read st) && negb (is_nil (ts_blocks st))); cbn [fst snd].
  - split; [apply Inv_send, Inv_recv; exact HI|]. repeat split; try reflexivity. exact Hd.
  - split; [apply Inv_recv; exact HI|]. repeat split; try reflexivity. exact Hd.
Qed.

Lemma srv_ack_advance st now :
  Inv st -> ts_dead st = false ->
  (ts_blocks_read st = 0 \/ (1 <= ts_blocks_read st /\ (N.to_nat (ts_blocks_read st) * bn <= L)%nat)) ->
  let x := sub_handle st (ts_addr st) (ack_dgram (ts_blocks_read st)) now in
  Inv (fst x) /\ ts_blocks_read (fst x) = ts_blocks_read st + 1 /\
  ts_blocks (fst x) = [(ts_blocks_read st + 1, slice (ts_blocks_read st + 1))] /\
  ts_done (fst x) = ts_done st /\ ts_dead (fst x) = false /\
  snd x = Some (DATA (ts_blocks_read st + 1) (slice (ts_blocks_read st + 1))).
Proof.
  intros HI Hd Hc. pose proof (Inv_r_le st HI) as Hr. cbn zeta.
  rewrite sub_handle_ack by (assumption || lia).
  destruct (do_ACK_advance (set_recv st now) (Inv_recv F B st now HI) Hc)
    as (st' & E & HI' & Hr' & Hb' & Hd' & Hx').
  cbn [ts_blocks_read ts_done ts_dead set_recv] in *. rewrite E. cbn [fst snd].
  split; [apply Inv_send; exact HI'|]. cbn [ts_blocks_read ts_blocks ts_done ts_dead set_send].
  repeat split; try assumption; congruence.
Qed.

Lemma srv_ack_finish st now :
  Inv st -> ts_dead st = false ->
  1 <= ts_blocks_read st -> (L < N.to_nat (ts_blocks_read st) * bn)%nat ->
  let x := sub_handle st (ts_addr st) (ack_dgram (ts_blocks_read st)) now in
  Inv (fst x) /\ ts_blocks_read (fst x) = ts_blocks_read st /\
  ts_done (fst x) = true /\ ts_dead (fst x) = false /\ snd x = None /\ finished (fst x) = true.
Proof.
  intros HI Hd Hr1 Hs. pose proof (Inv_r_le st HI) as Hr. cbn zeta.
  rewrite sub_handle_ack by (assumption || lia).
  destruct (do_ACK_finish (set_recv st now) (Inv_recv F B st now HI) Hr1 Hs)
    as (E & HI' & Hfin & Hr' & Hx').
  cbn [ts_blocks_read ts_dead set_recv] in *. rewrite E. cbn [fst snd].
  split; [apply Inv_done; exact HI'|]. cbn [ts_blocks_read ts_done ts_dead set_done].
  repeat split; try assumption; congruence.
Qed.

(* ---------- service_actions ---------- *)
Lemma tick_cases st now :
  Inv st -> ts_dead st = false ->
  let x := tick st now in
  (gives_up st now = true /\ x = (set_done st, [])) \/
  (gives_up st now = false /\ Inv (fst x) /\ ts_blocks_read (fst x) = ts_blocks_read st /\
   ts_blocks (fst x) = ts_blocks st /\ ts_done (fst x) = ts_done st /\ ts_dead (fst x) = false /\
   (snd x = [] \/
    (snd x = [DATA (ts_blocks_read st) (slice (ts_blocks_read st))] /\
     ts_blocks st = [(ts_blocks_read st, slice (ts_blocks_read st))] /\ 1 <= ts_blocks_read st))).
Proof.
  intros HI Hd. pose proof (Inv_r_le st HI) as Hr. cbn zeta. unfold tick, gives_up. rewrite Hd.
  destruct (gen_tick_recv_cmp now (ts_last_recv st) (ts_timeout st)); cbn [andb];
    [|right; cbn [fst snd]; split; [reflexivity|split; [exact HI|repeat split; auto]]].
  destruct (ts_last_send st) as [ls|]; [|left; split; reflexivity].
  destruct (gen_tick_giveup_cmp ls (ts_last_recv st) (ts_timeout st)); [left; split; reflexivity|].
  right. split; [reflexivity|].
  destruct (gen_tick_resend_cmp now ls (ts_timeout st)); [|cbn [fst snd]; split; [exact HI|repeat split; auto]].
  assert (Hblk := HI). destruct Hblk as (_ & _ & Hblk & _).
  destruct Hblk as [Hb|Hb]; rewrite Hb; cbn [resend].
  - cbn [fst snd]. split; [apply Inv_send; exact HI|]. cbn [ts_blocks_read ts_blocks ts_done ts_dead set_send].
    repeat split; auto.
  - assert (Hr1 : 1 <= ts_blocks_read st) by (apply Inv_cached_pos; [exact HI|rewrite Hb; discriminate]).
    rewrite mk_DATA_in by lia. cbn [fst snd].
    split; [apply Inv_send; exact HI|]. cbn [ts_blocks_read ts_blocks ts_done ts_dead set_send].
    repeat split; auto.
Qed.

(* ---------- the invariant of the closed loop ---------- *)
Variable tid : N.

Definition pkt_ok (r : N) (p : packet) : Prop :=
  sound p /\ match p with DATA k _ => k <= r | _ => True end.

Record LInv (s : sys) : Prop := {
  li_inv : Inv (sv s);
  li_dead : ts_dead (sv s) = false;
  li_cinv : CInv (cl s);
  (* the server is at the block the client waits for, or at the one before *)
  li_lo : c_expect (cl s) <= ts_blocks_read (sv s) + 1;
  li_hi : ts_blocks_read (sv s) <= c_expect (cl s);
  li_cached : ts_blocks_read (sv s) = c_expect (cl s) ->
              ts_blocks (sv s) = [(ts_blocks_read (sv s), slice (ts_blocks_read (sv s)))];
  (* everything in flight is stale or current, never from the future *)
  li_acks : forall b, In b (to_sv s) -> b + 1 <= c_expect (cl s);
  li_data : forall p, In p (to_cl s) -> pkt_ok (ts_blocks_read (sv s)) p;
  li_last : forall b, cl_last s = Some b -> b + 1 <= c_expect (cl s);
  li_last2 : 2 <= c_expect (cl s) -> cl_last s = Some (c_expect (cl s) - 1);
  (* the server has sent exactly blocks 1 .. blocks_read, each with the right bytes *)
  li_sent : forall k d, In (DATA k d) (sent s) <->
                        (1 <= k <= ts_blocks_read (sv s) /\ d = slice k);
  li_heard : cl s = client_run B tid client_init (heard s)
}.

(* the transfer has not been given up before the client has everything *)
Definition Alive (s : sys) : Prop := c_finished (cl s) = false -> ts_done (sv s) = false.

Definition phase (s : sys) : nat :=
  (N.to_nat (c_expect (cl s)) + N.to_nat (ts_blocks_read (sv s)))%nat.

Lemma LInv_init st0 p0 : fresh F B st0 p0 -> LInv (sys_init st0 p0) /\ Alive (sys_init st0 p0).
Proof.
  intros (HI & Hdone & Hdead & Hcase). split; [|intros _; exact Hdone].
  split; cbn [sv cl cl_last to_cl to_sv sent heard sys_init client_init c_expect client_run];
    try assumption.
  - apply CInv_init; exact B_pos.
  - destruct Hcase as [(-> & _)|(-> & _)]; lia.
  - destruct Hcase as [(-> & _)|(-> & _)]; lia.
  - destruct Hcase as [(Hr & Hb & _)|(Hr & _)]; [intros _; rewrite Hb, Hr; reflexivity|lia].
  - intros b [].
  - intros p [<-|[]]. destruct Hcase as [(Hr & _ & ->)|(Hr & o & ->)].
    + split; [apply sound_current; cbn; lia|lia].
    + split; exact I.
  - discriminate.
  - lia.
  - intros k d. destruct Hcase as [(Hr & _ & ->)|(Hr & o & ->)]; rewrite Hr; split.
    + intros [E|[]]. injection E as <- <-. split; [lia|reflexivity].
    + intros (Hk & ->). left. f_equal; [lia|]. f_equal. lia.
    + intros [E|[]]. discriminate.
    + intros (Hk & _). lia.
  - reflexivity.
Qed.

(* ---------- network-only events ---------- *)
Lemma In_drop {A} (x : A) i : forall l, In x (drop i l) -> In x l.
Proof.
  unfold drop. induction i as [|i IH]; intros [|y l]; cbn [firstn skipn app In]; auto.
  intros [->|H]; auto.
Qed.

Lemma LInv_set_to_cl s l : LInv s -> (forall p, In p l -> In p (to_cl s)) -> LInv (set_to_cl s l).
Proof. intros [] Hsub. split; cbn [sv cl cl_last to_cl to_sv sent heard set_to_cl]; auto. Qed.

Lemma LInv_set_to_sv s l : LInv s -> (forall b, In b l -> In b (to_sv s)) -> LInv (set_to_sv s l).
Proof. intros [] Hsub. split; cbn [sv cl cl_last to_cl to_sv sent heard set_to_sv]; auto. Qed.

Lemma LInv_cli_timer s : LInv s -> LInv (cli_timer s).
Proof.
  intros H. unfold cli_timer. destruct (cl_last s) as [b|] eqn:E; [|exact H].
  destruct H. split; cbn [sv cl cl_last to_cl to_sv sent heard set_to_sv]; auto.
  intros b' [<-|Hin]; auto.
Qed.

(* ---------- a datagram reaches the client ---------- *)
Lemma client_cases c p :
  (exists d, p = DATA (c_expect c) d /\ c_finished c = false /\
     client_step B tid c tid p =
       {| c_expect := c_expect c + 1; c_buf := c_buf c ++ d;
          c_finished := N.of_nat (length d) <? B |} /\
     client_reply c p = Some (c_expect c)) \/
  (client_step B tid c tid p = c /\
   (forall d, p = DATA (c_expect c) d -> c_finished c = true) /\
   (client_reply c p = None \/ (client_reply c p = Some 0 /\ c_expect c = 1))).
Proof.
  unfold client_step, client_reply. destruct (c_finished c); [right; auto|].
  rewrite N.eqb_refl. cbn [negb].
  destruct p as [f m o|f m o|k d|k|e m|o]; try solve [right; split; [reflexivity|split; [discriminate|auto]]].
  - destruct (N.eqb_spec k (c_expect c)) as [->|Hne].
    + left. exists d. auto.
    + right. split; [reflexivity|]. split; [intros d' E; congruence|auto].
  - right. split; [reflexivity|]. split; [discriminate|].
    destruct (N.eqb_spec (c_expect c) 1); auto.
Qed.

Lemma client_run_snoc c ds x :
  client_run B tid c (ds ++ [x]) = client_step B tid (client_run B tid c ds) (fst x) (snd x).
Proof.
  revert c; induction ds as [|[f q] r IH]; intros c; cbn [client_run app]; [destruct x; reflexivity|].
  apply IH.
Qed.

Lemma cli_recv_props s p :
  LInv s -> pkt_ok (ts_blocks_read (sv s)) p ->
  let s' := cli_recv B tid s p in
  LInv s' /\ sv s' = sv s /\ (c_expect (cl s) <= c_expect (cl s')) /\
  (c_finished (cl s) = true -> c_finished (cl s') = true) /\
  (c_finished (cl s) = false -> (exists d, p = DATA (c_expect (cl s)) d) ->
   c_expect (cl s') = c_expect (cl s) + 1).
Proof.
  intros H (Hs & Hk). cbn zeta.
  pose proof (client_step_inv F B B_pos tid (cl s) tid p (li_cinv s H) (fun _ => Hs)) as HC1.
  assert (Hh : client_step B tid (cl s) tid p = client_run B tid client_init (heard s ++ [(tid, p)])).
  { rewrite client_run_snoc, <- (li_heard s H). reflexivity. }
  unfold cli_recv.
  destruct (client_cases (cl s) p) as [(d & -> & Hf & E1 & E2)|(E1 & Hnd & E2)].
  - rewrite E1 in *. rewrite E2. destruct H.
    split; [|cbn [sv cl c_expect c_finished]; split; [reflexivity|split; [lia|split; [congruence|intros; reflexivity]]]].
    split; cbn [sv cl cl_last to_cl to_sv sent heard c_expect]; auto; try lia.
    + intros b [<-|Hin]; [lia|]. specialize (li_acks0 b Hin). lia.
    + intros b Hb. injection Hb as <-. lia.
    + intros _. f_equal. lia.
  - rewrite E1 in *.
    split; [|cbn [sv cl]; split; [reflexivity|split; [lia|split; [auto|]]]].
    + destruct H. destruct E2 as [E2|(E2 & He)]; rewrite E2;
        split; cbn [sv cl cl_last to_cl to_sv sent heard]; auto.
      * intros b [<-|Hin]; [lia|auto].
      * intros b Hb. injection Hb as <-. lia.
      * lia.
    + intros Hf (d & ->). rewrite (Hnd d eq_refl) in Hf. discriminate.
Qed.

(* ---------- the server moves and emits ---------- *)
Lemma LInv_srv_out s st' out :
  LInv s -> Inv st' -> ts_dead st' = false ->
  ts_blocks_read (sv s) <= ts_blocks_read st' <= c_expect (cl s) ->
  (ts_blocks_read st' = c_expect (cl s) ->
   ts_blocks st' = [(ts_blocks_read st', slice (ts_blocks_read st'))]) ->
  (out = [] \/ (out = [DATA (ts_blocks_read st') (slice (ts_blocks_read st'))] /\
                1 <= ts_blocks_read st')) ->
  (ts_blocks_read st' = ts_blocks_read (sv s) \/
   (ts_blocks_read st' = ts_blocks_read (sv s) + 1 /\
    out = [DATA (ts_blocks_read st') (slice (ts_blocks_read st'))])) ->
  LInv (srv_out s st' out).
Proof.
  intros H HI' Hd' Hr Hc Hout Hstep. destruct H.
  split; cbn [sv cl cl_last to_cl to_sv sent heard srv_out]; auto; try lia.
  - intros p Hin. apply in_app_or in Hin as [Hin|Hin].
    + destruct Hout as [->|(-> & Hr1)]; [destruct Hin|]. destruct Hin as [<-|[]].
      split; [apply sound_current; [exact Hr1|apply Inv_start; assumption]|lia].
    + destruct (li_data0 p Hin) as (Hs & Hk). split; [exact Hs|]. destruct p; auto. lia.
  - intros k d. rewrite in_app_iff, li_sent0. split.
    + intros [Hin|(Hk & ->)]; [|split; [lia|reflexivity]].
      destruct Hout as [->|(-> & Hr1)]; [destruct Hin|]. destruct Hin as [E|[]].
      injection E as <- <-. split; [lia|reflexivity].
    + intros (Hk & ->). destruct (N.le_gt_cases k (ts_blocks_read (sv s))) as [Hle|Hgt].
      * right. split; [lia|reflexivity].
      * left. destruct Hstep as [E|(E & ->)]; [lia|]. left. f_equal; [lia|]. f_equal. lia.
Qed.

Lemma srv_recv_props s b now :
  LInv s -> b + 1 <= c_expect (cl s) ->
  let s' := srv_recv s b now in
  LInv s' /\ cl s' = cl s /\ ts_blocks_read (sv s) <= ts_blocks_read (sv s') /\
  (Alive s -> Alive s') /\
  (Alive s -> c_finished (cl s) = false -> b = ts_blocks_read (sv s) ->
   ts_blocks_read (sv s') = ts_blocks_read (sv s) + 1).
Proof.
  intros H Hb. cbn zeta. unfold srv_recv, Alive.
  assert (H' := H). destruct H' as [HI Hd HC Hlo Hhi Hca _ _ _ _ _ _].
  destruct (srv_up (sv s)) eqn:Hup.
  2:{ split; [exact H|]. split; [reflexivity|]. split; [lia|]. split; [auto|].
      intros Ha Hf _. specialize (Ha Hf). unfold srv_up in Hup. rewrite Ha, Hd in Hup. discriminate. }
  assert (Hbr : b < ts_blocks_read (sv s) \/ b = ts_blocks_read (sv s)) by lia.
  destruct Hbr as [Hlt| ->].
  - (* stale *)
    destruct (srv_ack_stale (sv s) b now HI Hd Hlt) as (HI' & Hr' & Hb' & Hd' & Hx' & Ho).
    set (x := sub_handle (sv s) (ts_addr (sv s)) (ack_dgram b) now) in *.
    split; [|cbn [sv cl srv_out]; split; [reflexivity|split; [lia|split; [|lia]]]].
    + apply LInv_srv_out; auto; try lia.
      * rewrite Hr', Hb'. exact Hca.
      * rewrite Ho, Hr'. destruct (b + 1 =? ts_blocks_read (sv s)); cbn [andb]; [|left; reflexivity].
        destruct (ts_blocks (sv s)) eqn:Eb; cbn [is_nil negb]; [left; reflexivity|].
        right. split; [reflexivity|]. apply Inv_cached_pos; [exact HI|rewrite Eb; discriminate].
    + intros Ha Hf. rewrite Hd'. apply Ha. exact Hf.
  - destruct (N.eq_dec (ts_blocks_read (sv s)) 0) as [Z|NZ].
    + (* ACK 0 after an OACK *)
      destruct (srv_ack_advance (sv s) now HI Hd (or_introl Z)) as (HI' & Hr' & Hb' & Hd' & Hx' & Ho).
      set (x := sub_handle (sv s) (ts_addr (sv s)) (ack_dgram (ts_blocks_read (sv s))) now) in *.
      split; [|cbn [sv cl srv_out]; split; [reflexivity|split; [lia|split; [|auto]]]].
      * apply LInv_srv_out; auto; try lia.
        -- intros _. rewrite Hr'. exact Hb'.
        -- rewrite Ho, Hr'. right. split; [reflexivity|lia].
        -- right. split; [exact Hr'|]. rewrite Ho, Hr'. reflexivity.
      * intros Ha Hf. rewrite Hd'. apply Ha. exact Hf.
    + assert (Hr1 : 1 <= ts_blocks_read (sv s)) by lia.
      destruct (slice_cases _ Hr1 (Inv_start _ HI Hr1)) as [(_ & Hfull)|(_ & Hshort)].
      * (* the block was full: the next one is read and sent *)
        destruct (srv_ack_advance (sv s) now HI Hd (or_intror (conj Hr1 Hfull)))
          as (HI' & Hr' & Hb' & Hd' & Hx' & Ho).
        set (x := sub_handle (sv s) (ts_addr (sv s)) (ack_dgram (ts_blocks_read (sv s))) now) in *.
        split; [|cbn [sv cl srv_out]; split; [reflexivity|split; [lia|split; [|auto]]]].
        -- apply LInv_srv_out; auto; try lia.
           ++ intros _. rewrite Hr'. exact Hb'.
           ++ rewrite Ho, Hr'. right. split; [reflexivity|lia].
           ++ right. split; [exact Hr'|]. rewrite Ho, Hr'. reflexivity.
        -- intros Ha Hf. rewrite Hd'. apply Ha. exact Hf.
      * (* the block was short: the transfer is complete *)
        destruct (srv_ack_finish (sv s) now HI Hd Hr1 Hshort) as (HI' & Hr' & Hd' & Hx' & Ho & _).
        set (x := sub_handle (sv s) (ts_addr (sv s)) (ack_dgram (ts_blocks_read (sv s))) now) in *.
        assert (Hfin : c_finished (cl s) = true).
        { destruct (c_finished (cl s)) eqn:Ef; [reflexivity|]. exfalso.
          destruct HC as (_ & _ & _ & Hs). specialize (Hs Ef).
          replace (N.to_nat (c_expect (cl s)) - 1)%nat with (N.to_nat (ts_blocks_read (sv s))) in Hs by lia.
          lia. }
        split; [|cbn [sv cl srv_out]; split; [reflexivity|split; [lia|split]]].
        -- apply LInv_srv_out; auto; try lia. rewrite Ho. left. reflexivity.
        -- intros _ Hf. congruence.
        -- intros _ Hf. congruence.
Qed.

Lemma srv_timer_props s now :
  LInv s ->
  let s' := srv_timer s now in
  LInv s' /\ cl s' = cl s /\ ts_blocks_read (sv s') = ts_blocks_read (sv s) /\
  (gives_up (sv s) now = false -> Alive s -> Alive s').
Proof.
  intros H. cbn zeta. unfold srv_timer, Alive.
  assert (H' := H). destruct H' as [HI Hd HC Hlo Hhi Hca _ _ _ _ _ _].
  destruct (srv_up (sv s)) eqn:Hup; [|split; [exact H|]; split; [reflexivity|]; split; [reflexivity|auto]].
  destruct (tick_cases (sv s) now HI Hd) as [(Hg & E)|(Hg & HI' & Hr' & Hb' & Hd' & Hx' & Ho)].
  - rewrite E. cbn [fst snd rev].
    split; [|cbn [sv cl srv_out]; split; [reflexivity|split; [reflexivity|congruence]]].
    apply LInv_srv_out; cbn [ts_blocks_read ts_blocks ts_dead set_done]; auto; try lia.
  - set (x := tick (sv s) now) in *.
    split; [|cbn [sv cl srv_out]; split; [reflexivity|split; [exact Hr'|]]].
    + apply LInv_srv_out; auto; try lia.
      * rewrite Hr', Hb'. exact Hca.
      * rewrite Hr'. destruct Ho as [->|(-> & _ & Hr1)]; [left; reflexivity|right; split; [reflexivity|exact Hr1]].
    + intros _ Ha Hf. rewrite Hd'. apply Ha. exact Hf.
Qed.

(* ---------- one event ---------- *)
Lemma cli_summary s p :
  LInv s -> pkt_ok (ts_blocks_read (sv s)) p ->
  let s' := cli_recv B tid s p in
  LInv s' /\ (Alive s -> Alive s') /\ (phase s <= phase s')%nat /\
  (c_finished (cl s) = true -> c_finished (cl s') = true) /\
  (c_finished (cl s) = false -> (exists d, p = DATA (c_expect (cl s)) d) ->
   (phase s + 1 <= phase s')%nat).
Proof.
  intros H Hp. destruct (cli_recv_props s p H Hp) as (HL & Hsv & He & Hfin & Hacc).
  cbn zeta. unfold Alive, phase. rewrite Hsv.
  split; [exact HL|]. split; [|split; [lia|split; [exact Hfin|]]].
  - intros Ha Hf'. apply Ha. destruct (c_finished (cl s)); [|reflexivity].
    rewrite Hfin in Hf' by reflexivity. discriminate.
  - intros Hf Hd. rewrite (Hacc Hf Hd). lia.
Qed.

Lemma srv_summary s b now :
  LInv s -> b + 1 <= c_expect (cl s) ->
  let s' := srv_recv s b now in
  LInv s' /\ (Alive s -> Alive s') /\ (phase s <= phase s')%nat /\
  (c_finished (cl s) = true -> c_finished (cl s') = true) /\
  (Alive s -> c_finished (cl s) = false -> b = ts_blocks_read (sv s) ->
   (phase s + 1 <= phase s')%nat).
Proof.
  intros H Hb. destruct (srv_recv_props s b now H Hb) as (HL & Hcl & Hr & Ha & Hadv).
  cbn zeta. unfold phase. rewrite Hcl.
  split; [exact HL|]. split; [exact Ha|]. split; [lia|]. split; [auto|].
  intros A Hf E. rewrite (Hadv A Hf E). lia.
Qed.

Definition ev_ok (s : sys) (e : ev) : Prop :=
  match e with SrvTimer now => gives_up (sv s) now = false | _ => True end.

Lemma step_props s e :
  LInv s ->
  let s' := step B tid s e in
  LInv s' /\ (ev_ok s e -> Alive s -> Alive s') /\ (phase s <= phase s')%nat /\
  (c_finished (cl s) = true -> c_finished (cl s') = true) /\
  (Alive s -> c_finished (cl s) = false -> effective s e = true ->
   (phase s + 1 <= phase s')%nat).
Proof.
  intros H. cbn zeta.
  assert (Triv : LInv s /\ (ev_ok s e -> Alive s -> Alive s) /\ (phase s <= phase s)%nat /\
                 (c_finished (cl s) = true -> c_finished (cl s) = true) /\
                 (Alive s -> c_finished (cl s) = false -> false = true -> (phase s + 1 <= phase s)%nat)).
  { split; [exact H|]. split; [auto|]. split; [lia|]. split; [auto|]. intros _ _ X; discriminate X. }
  destruct e as [i|i|i|i now|i now|i| now|]; cbn [step effective ev_ok].
  - (* DeliverData *)
    destruct (nth_error (to_cl s) i) as [p|] eqn:En; [|exact Triv].
    pose proof (li_data s H p (nth_error_In _ _ En)) as Hp.
    assert (H1 : LInv (set_to_cl s (drop i (to_cl s)))) by (apply LInv_set_to_cl; [exact H|intros q; apply In_drop]).
    destruct (cli_summary _ p H1 Hp) as (A1 & A2 & A3 & A4 & A5).
    split; [exact A1|]. split; [intros _; exact A2|]. split; [exact A3|]. split; [exact A4|].
    intros Ha Hf He. apply A5; [exact Hf|]. destruct p; try discriminate.
    apply N.eqb_eq in He. subst. eexists; reflexivity.
  - (* DupData *)
    destruct (nth_error (to_cl s) i) as [p|] eqn:En; [|exact Triv].
    pose proof (li_data s H p (nth_error_In _ _ En)) as Hp.
    destruct (cli_summary _ p H Hp) as (A1 & A2 & A3 & A4 & A5).
    split; [exact A1|]. split; [intros _; exact A2|]. split; [exact A3|]. split; [exact A4|].
    intros Ha Hf He. apply A5; [exact Hf|]. destruct p; try discriminate.
    apply N.eqb_eq in He. subst. eexists; reflexivity.
  - (* LoseData *)
    split; [apply LInv_set_to_cl; [exact H|intros q; apply In_drop]|].
    split; [auto|]. split; [unfold phase; cbn [sv cl set_to_cl]; lia|]. split; [auto|]. intros _ _ X; discriminate X.
  - (* DeliverAck *)
    destruct (nth_error (to_sv s) i) as [b|] eqn:En; [|exact Triv].
    pose proof (li_acks s H b (nth_error_In _ _ En)) as Hb.
    assert (H1 : LInv (set_to_sv s (drop i (to_sv s)))) by (apply LInv_set_to_sv; [exact H|intros q; apply In_drop]).
    destruct (srv_summary _ b now H1 Hb) as (A1 & A2 & A3 & A4 & A5).
    split; [exact A1|]. split; [intros _; exact A2|]. split; [exact A3|]. split; [exact A4|].
    intros Ha Hf He. apply A5; [exact Ha|exact Hf|]. apply N.eqb_eq in He. exact He.
  - (* DupAck *)
    destruct (nth_error (to_sv s) i) as [b|] eqn:En; [|exact Triv].
    pose proof (li_acks s H b (nth_error_In _ _ En)) as Hb.
    destruct (srv_summary _ b now H Hb) as (A1 & A2 & A3 & A4 & A5).
    split; [exact A1|]. split; [intros _; exact A2|]. split; [exact A3|]. split; [exact A4|].
    intros Ha Hf He. apply A5; [exact Ha|exact Hf|]. apply N.eqb_eq in He. exact He.
  - (* LoseAck *)
    split; [apply LInv_set_to_sv; [exact H|intros q; apply In_drop]|].
    split; [auto|]. split; [unfold phase; cbn [sv cl set_to_sv]; lia|]. split; [auto|]. intros _ _ X; discriminate X.
  - (* SrvTimer *)
    destruct (srv_timer_props s now H) as (A1 & A2 & A3 & A4).
    unfold phase, Alive in *. rewrite A2 in *. rewrite A3.
    split; [exact A1|]. split; [exact A4|]. split; [lia|]. split; [auto|]. intros _ _ X; discriminate X.
  - (* CliTimer *)
    split; [apply LInv_cli_timer; exact H|].
    unfold cli_timer.
    destruct (cl_last s); (split; [auto|]; split; [unfold phase; cbn [sv cl set_to_sv]; lia|];
                           split; [auto|]; intros _ _ X; discriminate X).
Qed.

(* ---------- every schedule ---------- *)
Lemma lrun_LInv sch : forall s, LInv s -> LInv (lrun B tid s sch).
Proof.
  induction sch as [|e r IH]; intros s H; cbn [lrun]; [exact H|].
  apply IH. apply step_props. exact H.
Qed.

Lemma lossy_progress sch : forall s,
  LInv s -> Alive s -> never_abandoned B tid s sch ->
  (c_finished (cl s) = true -> c_finished (cl (lrun B tid s sch)) = true) /\
  (c_finished (cl (lrun B tid s sch)) = true \/
   (phase s + effective_count B tid s sch <= phase (lrun B tid s sch))%nat).
Proof.
  induction sch as [|e r IH]; intros s H Ha Hna; cbn [lrun effective_count never_abandoned] in *.
  - split; [auto|right; lia].
  - destruct Hna as (Hok & Hna).
    destruct (step_props s e H) as (A1 & A2 & A3 & A4 & A5).
    destruct (IH _ A1 (A2 Hok Ha) Hna) as (B1 & B2).
    split; [auto|]. destruct B2 as [B2|B2]; [left; exact B2|].
    destruct (c_finished (cl s)) eqn:Ef; [left; auto|]. right.
    destruct (effective s e) eqn:Ee; [specialize (A5 Ha eq_refl eq_refl)|]; lia.
Qed.

Lemma phase_bound s : LInv s -> c_finished (cl s) = false -> (phase s <= 2 * nblocks F B)%nat.
Proof.
  intros H Hf. destruct (li_cinv s H) as (He & _ & _ & Hs). specialize (Hs Hf).
  pose proof (full_le _ Hs) as Hle. pose proof (li_hi s H).
  unfold phase, nblocks. fold bn. remember nb as n. lia.
Qed.

(* completion from any reachable state *)
Theorem lossy_completes_from s sch :
  LInv s -> Alive s -> never_abandoned B tid s sch ->
  (2 * nblocks F B + 1 <= phase s + effective_count B tid s sch)%nat ->
  c_finished (cl (lrun B tid s sch)) = true /\ c_buf (cl (lrun B tid s sch)) = F.
Proof.
  intros H Ha Hna Hcnt.
  pose proof (lrun_LInv sch s H) as H'.
  destruct (lossy_progress sch s H Ha Hna) as (_ & [Hf|Hp]).
  - split; [exact Hf|]. destruct (li_cinv _ H') as (_ & _ & Hb & _). apply Hb. exact Hf.
  - destruct (c_finished (cl (lrun B tid s sch))) eqn:Ef.
    + split; [reflexivity|]. destruct (li_cinv _ H') as (_ & _ & Hb & _). apply Hb. exact Ef.
    + pose proof (phase_bound _ H' Ef). lia.
Qed.

(* completion of a fresh transfer under loss, duplication and re-ordering *)
Theorem lossy_run_completes st0 p0 sch :
  fresh F B st0 p0 ->
  never_abandoned B tid (sys_init st0 p0) sch ->
  (deliveries_needed F B p0 <= effective_count B tid (sys_init st0 p0) sch)%nat ->
  let s := lrun B tid (sys_init st0 p0) sch in
  c_finished (cl s) = true /\ c_buf (cl s) = F /\
  cl s = client_run B tid client_init (heard s).
Proof.
  intros Hfr Hna Hcnt. destruct (LInv_init st0 p0 Hfr) as (H0 & Ha0). cbn zeta.
  assert (G : c_finished (cl (lrun B tid (sys_init st0 p0) sch)) = true /\
              c_buf (cl (lrun B tid (sys_init st0 p0) sch)) = F).
  { apply lossy_completes_from; try assumption.
    assert (Hn : (1 <= nblocks F B)%nat) by (unfold nblocks; apply Nat.le_add_l).
    unfold phase. cbn [sys_init sv cl client_init c_expect]. unfold deliveries_needed in Hcnt.
    remember (nblocks F B) as n.
    destruct Hfr as (_ & _ & _ & [(Hr & _ & ->)|(Hr & o & ->)]); rewrite Hr; lia. }
  destruct G as (G1 & G2). split; [exact G1|]. split; [exact G2|].
  apply li_heard. apply lrun_LInv. exact H0.
Qed.

(* safety for EVERY schedule, abandoned or not: the buffer is the acknowledged
   prefix, the server has sent exactly blocks 1..blocks_read (no block skipped,
   none altered), nothing unsound is in flight, server and client are at most
   one block apart *)
Theorem lossy_run_safe st0 p0 sch :
  fresh F B st0 p0 ->
  let s := lrun B tid (sys_init st0 p0) sch in
  c_buf (cl s) = firstn ((N.to_nat (c_expect (cl s)) - 1) * bn) F /\
  (c_finished (cl s) = true -> c_buf (cl s) = F) /\
  cl s = client_run B tid client_init (heard s) /\
  (forall k d, In (DATA k d) (sent s) <-> (1 <= k <= ts_blocks_read (sv s) /\ d = slice k)) /\
  (forall p, In p (to_cl s) -> sound p) /\
  c_expect (cl s) <= ts_blocks_read (sv s) + 1 /\ ts_blocks_read (sv s) <= c_expect (cl s).
Proof.
  intros Hfr. destruct (LInv_init st0 p0 Hfr) as (H0 & _). cbn zeta.
  pose proof (lrun_LInv sch _ H0) as H. destruct H.
  destruct li_cinv0 as (_ & Hb & Hf & _).
  repeat (split; [assumption|]). split; [|split; assumption].
  intros p Hin. apply li_data0. exact Hin.
Qed.

(* ---------- a lost packet is always recoverable by the timers ---------- *)
Lemma cl_last_exact s b : LInv s -> cl_last s = Some b -> b + 1 = c_expect (cl s).
Proof.
  intros H E. pose proof (li_last s H b E). destruct (li_cinv s H) as (He & _).
  destruct (N.le_gt_cases 2 (c_expect (cl s))) as [H2|H2]; [|lia].
  pose proof (li_last2 s H H2) as E2. rewrite E in E2. injection E2 as ->. lia.
Qed.

Lemma Alive_up s : LInv s -> Alive s -> c_finished (cl s) = false -> srv_up (sv s) = true.
Proof. intros H Ha Hf. unfold srv_up. rewrite (Ha Hf), (li_dead s H). reflexivity. Qed.

(* whatever was lost, once the client has acknowledged anything its timer alone
   restores progress: the re-sent ACK either is the one the server waits for, or
   makes the server re-send the block the client waits for *)
Theorem recover_by_client_timer s now :
  LInv s -> Alive s -> c_finished (cl s) = false -> cl_last s <> None ->
  let sch := if ts_blocks_read (sv s) =? c_expect (cl s)
             then [CliTimer; DeliverAck 0 now; DeliverData 0]
             else [CliTimer; DeliverAck 0 now] in
  never_abandoned B tid s sch /\ effective_count B tid s sch = 1%nat.
Proof.
  intros H Ha Hf Hl. destruct (cl_last s) as [b|] eqn:El; [clear Hl|congruence].
  pose proof (cl_last_exact s b H El) as Hb.
  pose proof (Alive_up s H Ha Hf) as Hup.
  pose proof (li_lo s H) as Hlo. pose proof (li_hi s H) as Hhi.
  destruct (N.eqb_spec (ts_blocks_read (sv s)) (c_expect (cl s))) as [E|E]; cbn zeta.
  - (* the DATA was lost: the stale ACK makes the server re-send it *)
    split; [cbn; auto|].
    cbn [effective_count effective step]. unfold cli_timer. rewrite El.
    cbn [to_sv set_to_sv nth_error sv]. unfold drop. cbn [firstn skipn app].
    assert (Hlt : b < ts_blocks_read (sv s)) by lia.
    destruct (N.eqb_spec b (ts_blocks_read (sv s))) as [X|_]; [lia|].
    unfold srv_recv. cbn [sv set_to_sv]. rewrite Hup.
    destruct (srv_ack_stale (sv s) b now (li_inv s H) (li_dead s H) Hlt) as (_ & _ & _ & _ & _ & Ho).
    rewrite Ho. rewrite (li_cached s H E). cbn [is_nil negb].
    replace (b + 1 =? ts_blocks_read (sv s)) with true by (symmetry; apply N.eqb_eq; lia).
    cbn [andb srv_out to_cl app nth_error cl set_to_sv]. rewrite E, N.eqb_refl. reflexivity.
  - (* the ACK was lost: it is re-sent and is the one the server waits for *)
    split; [cbn; auto|].
    cbn [effective_count effective step]. unfold cli_timer. rewrite El.
    cbn [to_sv set_to_sv nth_error sv].
    replace (b =? ts_blocks_read (sv s)) with true by (symmetry; apply N.eqb_eq; lia).
    reflexivity.
Qed.

(* before the client has acknowledged anything (DATA 1 lost) the server's own
   retransmission restores progress, provided its timer fires in time *)
Theorem recover_by_server_timer s now ls :
  LInv s -> Alive s -> c_finished (cl s) = false ->
  ts_blocks_read (sv s) = c_expect (cl s) ->
  ts_last_send (sv s) = Some ls ->
  (ts_timeout (sv s) < now - ts_last_recv (sv s))%Z -> (ts_timeout (sv s) < now - ls)%Z ->
  (ls - ts_last_recv (sv s) <= ts_timeout (sv s) * 5)%Z ->
  never_abandoned B tid s [SrvTimer now; DeliverData 0] /\
  effective_count B tid s [SrvTimer now; DeliverData 0] = 1%nat.
Proof.
  intros H Ha Hf E Hls H1 H2 H3.
  pose proof (Alive_up s H Ha Hf) as Hup.
  pose proof (li_cached s H E) as Hc.
  assert (Hr1 : 1 <= ts_blocks_read (sv s) <= 65535).
  { split; [destruct (li_cinv s H); lia|apply Inv_r_le, (li_inv s H)]. }
  assert (Hres : resend (ts_blocks (sv s)) =
                 ([DATA (ts_blocks_read (sv s)) (slice (ts_blocks_read (sv s)))], true)).
  { rewrite Hc. cbn [resend]. rewrite mk_DATA_in by lia. reflexivity. }
  assert (Ht : tick (sv s) now =
               (set_send (sv s) now, [DATA (ts_blocks_read (sv s)) (slice (ts_blocks_read (sv s)))])).
  { unfold tick, gen_tick_recv_cmp, gen_tick_resend_cmp, gen_tick_giveup_cmp.
    rewrite (li_dead s H), Hls, Hres. cbn [fst snd].
    destruct (Z.ltb_spec (ts_timeout (sv s)) (now - ts_last_recv (sv s))); [|lia].
    destruct (Z.ltb_spec (ts_timeout (sv s) * 5) (ls - ts_last_recv (sv s))); [lia|].
    destruct (Z.ltb_spec (ts_timeout (sv s)) (now - ls)); [reflexivity|lia]. }
  split.
  - cbn [never_abandoned]. split; [|auto].
    unfold gives_up, gen_tick_giveup_cmp. rewrite Hls.
    destruct (Z.ltb_spec (ts_timeout (sv s) * 5) (ls - ts_last_recv (sv s))); [lia|].
    apply andb_false_r.
  - cbn [effective_count effective step]. unfold srv_timer. rewrite Hup, Ht.
    cbn [fst snd rev app srv_out to_cl nth_error cl]. rewrite E, N.eqb_refl. reflexivity.
Qed.

(* ---------- FINDING: a lost OACK is never re-sent ----------
   [tick] re-sends only what is in the block cache; the OACK is not in it.  If
   the OACK is lost, no schedule whatsoever -- any timers at any times -- makes
   this transfer hand anything to the client. *)
Lemma tick_nil st now :
  ts_blocks st = [] -> snd (tick st now) = [] /\ ts_blocks (fst (tick st now)) = [].
Proof.
  intros Hb. unfold tick. destruct (ts_dead st); [auto|].
  destruct (gen_tick_recv_cmp now (ts_last_recv st) (ts_timeout st)); [|auto].
  destruct (ts_last_send st) as [ls|]; [|auto].
  destruct (gen_tick_giveup_cmp ls (ts_last_recv st) (ts_timeout st)); [auto|].
  destruct (gen_tick_resend_cmp now ls (ts_timeout st)); [|auto].
  rewrite Hb. cbn [resend fst snd]. auto.
Qed.

Theorem lost_oack_blocks st0 o sch :
  fresh F B st0 (OACK o) ->
  let s := lrun B tid (sys_init st0 (OACK o)) (LoseData 0 :: sch) in
  cl s = client_init /\ sent s = [OACK o] /\ to_cl s = [] /\ to_sv s = [].
Proof.
  intros (HI & _ & _ & Hcase). cbn zeta.
  assert (Hb0 : ts_blocks st0 = []).
  { destruct Hcase as [(_ & _ & X)|(Hr & _)]; [discriminate|].
    destruct HI as (_ & _ & _ & H0 & _). apply H0. exact Hr. }
  cbn [lrun step]. unfold drop. cbn [sys_init to_cl firstn skipn app].
  set (Q := fun s : sys => ts_blocks (sv s) = [] /\ to_cl s = [] /\ to_sv s = [] /\
                          cl_last s = None /\ cl s = client_init /\ sent s = [OACK o]).
  assert (Hstep : forall s e, Q s -> Q (step B tid s e)).
  { intros s e (Q1 & Q2 & Q3 & Q4 & Q5 & Q6).
    destruct e as [i|i|i|i now|i now|i|now|]; cbn [step].
    - rewrite Q2. destruct i; cbn [nth_error]; repeat split; assumption.
    - rewrite Q2. destruct i; cbn [nth_error]; repeat split; assumption.
    - rewrite Q2. unfold drop. rewrite firstn_nil, skipn_nil. repeat split; assumption.
    - rewrite Q3. destruct i; cbn [nth_error]; repeat split; assumption.
    - rewrite Q3. destruct i; cbn [nth_error]; repeat split; assumption.
    - rewrite Q3. unfold drop. rewrite firstn_nil, skipn_nil. repeat split; assumption.
    - unfold srv_timer. destruct (srv_up (sv s)); [|repeat split; assumption].
      destruct (tick_nil (sv s) now Q1) as (T1 & T2). rewrite T1.
      repeat split; cbn [sv cl cl_last to_cl to_sv sent srv_out rev app]; assumption.
    - unfold cli_timer. rewrite Q4. repeat split; assumption. }
  assert (Hrun : forall sch' s, Q s -> Q (lrun B tid s sch')).
  { induction sch' as [|e r IH]; intros s Hq; cbn [lrun]; [exact Hq|]. apply IH, Hstep, Hq. }
  destruct (Hrun sch (set_to_cl (sys_init st0 (OACK o)) [])) as (_ & Q2 & Q3 & _ & Q5 & Q6).
  { repeat split; cbn; auto. }
  auto.
Qed.

End Live.

(* ---------- an accepted octet request starts a fresh transfer ---------- *)
Theorem accepted_request_fresh resolve addr f m o fl now content st p :
  resolve f = RFile content -> list_eqb_N m tftp_netascii_name = false ->
  do_RRQ resolve addr f m o fl now = Started st p ->
  1 <= ts_block_size st /\ fresh content (ts_block_size st) st p.
Proof.
  intros Hr Hm. unfold do_RRQ. rewrite Hr.
  destruct (negotiate o fl (new_state addr content m now)) as [[o' st1]|e] eqn:En;
    [|destruct e; discriminate].
  destruct (negotiate_state _ _ _ _ _ En) as (bs & t & -> & _ & Hbs).
  assert (Hb : 1 <= bs).
  { destruct (opt_get tftp_blksize_name (o0_of o));
      [destruct Hbs as (z & _ & _ & Hrange & _); unfold tftp_min_blksize in Hrange; lia|].
    subst bs. unfold new_state; cbn. unfold tftp_def_blksize. lia. }
  assert (I0 : Inv content bs (set_neg (new_state addr content m now) bs t)).
  { unfold Inv, new_state. rewrite Hm. cbn. repeat split; auto; try lia; try discriminate. }
  destruct o' as [|kv o''].
  - destruct (get_block_next content bs Hb _ I0 eq_refl eq_refl)
      as (st2 & Eg & HI2 & Hr2 & Hb2 & Hd2 & Hx2).
    change (ts_blocks_read (set_neg (new_state addr content m now) bs t) + 1) with 1 in *.
    rewrite Eg. rewrite mk_DATA_in by lia. intros H. injection H as <- <-.
    assert (Hbs2 : ts_block_size st2 = bs) by (destruct HI2 as (X & _); exact X).
    cbn [ts_block_size set_send]. rewrite Hbs2. split; [exact Hb|].
    split; [apply Inv_send; exact HI2|]. cbn [ts_done ts_dead ts_blocks_read ts_blocks set_send].
    split; [rewrite Hd2; reflexivity|]. split; [rewrite Hx2; reflexivity|].
    left. split; [exact Hr2|]. split; [exact Hb2|reflexivity].
  - intros H. injection H as <- <-. cbn [ts_block_size set_send set_neg]. split; [exact Hb|].
    split; [apply Inv_send; exact I0|].
    split; [reflexivity|]. split; [reflexivity|]. right. split; [reflexivity|].
    eexists. reflexivity.
Qed.

(* ================= the retry limit, in terms of the clock ================= *)
Definition times (st : tstate) := (ts_timeout st, ts_last_recv st, ts_last_send st).

Lemma ack_times b st : times (ack b st) = times st.
Proof. unfold ack. destruct (blk_lookup b (ts_blocks st)); reflexivity. Qed.

Lemma get_block_times n st d st2 : get_block n st = Ok (d, st2) -> times st2 = times st.
Proof.
  unfold get_block. destruct (gen_next_block_cmp (ts_blocks_read st) n).
  - destruct (finished st); [discriminate|].
    destruct (src_read (ts_block_size st) (ts_src st)) as [[d' s']|e]; cbn [bind fst snd]; [|discriminate].
    intros X. injection X as <- <-. reflexivity.
  - destruct (blk_lookup n (ts_blocks st)); [intros X; injection X as <- <-; reflexivity|].
    destruct (gen_already_acked_cmp n (ts_blocks_read st)); discriminate.
Qed.

Lemma do_ACK_times b st : times (fst (do_ACK b st)) = times st.
Proof.
  unfold do_ACK. destruct (get_block (b + 1) (ack b st)) as [[d st2]|e] eqn:E.
  - pose proof (get_block_times _ _ _ _ E) as T. rewrite ack_times in T.
    destruct (mk_DATA (b + 1) d); cbn [fst]; exact T.
  - destruct e; cbn [fst]; apply ack_times.
Qed.

Lemma clock_ok_no_giveup st now : clock_ok st -> gives_up st now = false.
Proof.
  intros (_ & ls & Hls & Hle). unfold gives_up, gen_tick_giveup_cmp. rewrite Hls.
  destruct (Z.ltb_spec (ts_timeout st * 5) (ls - ts_last_recv st)); [lia|apply andb_false_r].
Qed.

Lemma clock_ok_times st st' : times st' = times st -> clock_ok st -> clock_ok st'.
Proof. unfold times, clock_ok. intros E. injection E as -> -> ->. auto. Qed.

Lemma tick_clock st now :
  clock_ok st -> (now - ts_last_recv st <= 5 * ts_timeout st)%Z -> clock_ok (fst (tick st now)).
Proof.
  intros Hc Hq. assert (Hc' := Hc). destruct Hc' as (HT & ls & Hls & Hle). unfold tick.
  destruct (ts_dead st); [exact Hc|].
  destruct (gen_tick_recv_cmp now (ts_last_recv st) (ts_timeout st)); [|exact Hc].
  rewrite Hls.
  destruct (gen_tick_giveup_cmp ls (ts_last_recv st) (ts_timeout st)); [exact Hc|].
  destruct (gen_tick_resend_cmp now ls (ts_timeout st)); [|exact Hc].
  destruct (snd (resend (ts_blocks st))); cbn [fst]; [|exact Hc].
  split; [exact HT|]. exists now. cbn [ts_last_send ts_last_recv ts_timeout set_send]. auto.
Qed.

Lemma sub_handle_clock st src d now :
  clock_ok st -> (forall ls, ts_last_send st = Some ls -> (ls <= now)%Z) ->
  clock_ok (fst (sub_handle st src d now)).
Proof.
  intros Hc Hmono. assert (Hc' := Hc). destruct Hc' as (HT & ls & Hls & Hle).
  specialize (Hmono ls Hls). unfold sub_handle.
  destruct (ts_dead st); [exact Hc|]. destruct (negb (src =? ts_addr st)); [exact Hc|].
  set (r := match parse d with
            | Ok (ACK b) => do_ACK b (set_recv st now)
            | Ok (ERROR _ _) => (set_done (set_recv st now), None)
            | Ok _ => (set_recv st now, Some (handle_exn AttributeError))
            | Err e => (set_recv st now, Some (handle_exn e))
            end).
  assert (Hr : times (fst r) = times (set_recv st now)).
  { unfold r. destruct (parse d) as [p|e]; [destruct p|]; cbn [fst]; try reflexivity.
    apply do_ACK_times. }
  unfold times in Hr. cbn [ts_timeout ts_last_recv ts_last_send set_recv] in Hr.
  injection Hr as R1 R2 R3.
  destruct (snd r); cbn [fst]; unfold clock_ok;
    cbn [ts_timeout ts_last_recv ts_last_send set_send]; rewrite R1, R2.
  - split; [exact HT|]. exists now. split; [reflexivity|lia].
  - rewrite R3, Hls. split; [exact HT|]. exists ls. split; [reflexivity|lia].
Qed.

Lemma step_clock B tid s e :
  clock_ok (sv s) ->
  match e with
  | SrvTimer now => (now - ts_last_recv (sv s) <= 5 * ts_timeout (sv s))%Z
  | DeliverAck _ now | DupAck _ now =>
    match ts_last_send (sv s) with Some ls => (ls <= now)%Z | None => True end
  | _ => True
  end ->
  clock_ok (sv (step B tid s e)).
Proof.
  intros Hc He.
  assert (Hrecv : forall s1 b now, sv s1 = sv s ->
            match ts_last_send (sv s) with Some ls => (ls <= now)%Z | None => True end ->
            clock_ok (sv (srv_recv s1 b now))).
  { intros s1 b now E Hm. unfold srv_recv. rewrite E.
    destruct (srv_up (sv s)); [|rewrite E; exact Hc]. cbn [sv srv_out].
    apply sub_handle_clock; [exact Hc|]. intros ls Hls. rewrite Hls in Hm. exact Hm. }
  destruct e as [i|i|i|i now|i now|i|now|]; cbn [step].
  - destruct (nth_error (to_cl s) i); exact Hc.
  - destruct (nth_error (to_cl s) i); exact Hc.
  - exact Hc.
  - destruct (nth_error (to_sv s) i); [|exact Hc]. apply Hrecv; [reflexivity|exact He].
  - destruct (nth_error (to_sv s) i); [|exact Hc]. apply Hrecv; [reflexivity|exact He].
  - exact Hc.
  - unfold srv_timer. destruct (srv_up (sv s)); [|exact Hc]. cbn [sv srv_out].
    apply tick_clock; assumption.
  - unfold cli_timer. destruct (cl_last s); exact Hc.
Qed.

(* the model's retry limit is never exhausted when its timer never sees more than
   five timeouts of silence *)
Theorem never_silent_never_abandoned B tid sch : forall s,
  clock_ok (sv s) -> never_silent B tid s sch -> never_abandoned B tid s sch.
Proof.
  induction sch as [|e r IH]; intros s Hc Hs; cbn [never_silent never_abandoned] in *; [exact I|].
  destruct Hs as (He & Hs). split.
  - destruct e; try exact I. apply clock_ok_no_giveup. exact Hc.
  - apply IH; [|exact Hs]. apply step_clock; assumption.
Qed.

(* a transfer started by an accepted request has a sane clock *)
Theorem accepted_request_clock resolve addr f m o fl now st p :
  do_RRQ resolve addr f m o fl now = Started st p -> clock_ok st.
Proof.
  unfold do_RRQ. destruct (resolve f) as [content|e]; [|destruct e; discriminate].
  destruct (negotiate o fl (new_state addr content m now)) as [[o' st1]|e] eqn:En;
    [|destruct e; discriminate].
  destruct (negotiate_state _ _ _ _ _ En) as (bs & t & -> & Hr & _).
  assert (Ht : (0 <= t)%Z).
  { unfold in_range_timeout, tftp_min_timeout_ns in Hr. lia. }
  assert (G : forall st2, times st2 = times (set_neg (new_state addr content m now) bs t) ->
                          clock_ok (set_send st2 now)).
  { intros st2 E. unfold times in E. cbn [ts_timeout ts_last_recv ts_last_send set_neg new_state] in E.
    injection E as E1 E2 _. unfold clock_ok. cbn [ts_timeout ts_last_recv ts_last_send set_send].
    rewrite E1, E2. split; [exact Ht|]. exists now. split; [reflexivity|lia]. }
  destruct o' as [|kv o''].
  - destruct (get_block 1 _) as [[d st2]|e] eqn:Eg; [|destruct e; discriminate].
    destruct (mk_DATA 1 d); [|destruct e; discriminate].
    intros X. injection X as <- _. apply G. eapply get_block_times. exact Eg.
  - intros X. injection X as <- _. apply G. reflexivity.
Qed.

(* completion with the retry hypothesis stated on the clock *)
Theorem lossy_run_completes_timed F B tid st0 p0 sch :
  1 <= B -> N.of_nat (length F) < 65535 * B ->
  fresh F B st0 p0 -> clock_ok st0 ->
  never_silent B tid (sys_init st0 p0) sch ->
  (deliveries_needed F B p0 <= effective_count B tid (sys_init st0 p0) sch)%nat ->
  let s := lrun B tid (sys_init st0 p0) sch in
  c_finished (cl s) = true /\ c_buf (cl s) = F /\
  cl s = client_run B tid client_init (heard s).
Proof.
  intros HB HF Hfr Hc Hs Hcnt. apply lossy_run_completes; try assumption.
  apply never_silent_never_abandoned; assumption.
Qed.

(* ================= non-vacuity ================= *)
(* a 10-byte file in blocks of 4: DATA 1 [1..4], DATA 2 [5..8], DATA 3 [9;10] *)
Definition exF : bytes := [1;2;3;4;5;6;7;8;9;10].
Definition ex_st1 : tstate :=
  set_neg (new_state 7 exF tftp_binary_name 0%Z) 4 (Z.of_N tftp_def_timeout_ns).
Definition ex_start : tstate * packet :=
  match get_block 1 ex_st1 with
  | Ok (d, st) => (set_send st 0%Z, DATA 1 d)
  | Err _ => (ex_st1, ERROR 0 [])
  end.

Example ex_fresh : fresh exF 4 (fst ex_start) (snd ex_start) /\ clock_ok (fst ex_start).
Proof.
  split.
  - split; [|split; [reflexivity|split; [reflexivity|left; repeat split; reflexivity]]].
    unfold Inv. split; [reflexivity|]. split; [reflexivity|]. split; [right; reflexivity|].
    split; [intros X; vm_compute in X; discriminate X|]. intros _.
    split; [vm_compute; lia|left; reflexivity].
  - unfold clock_ok. split; [vm_compute; discriminate|]. exists 0%Z.
    split; [reflexivity|vm_compute; discriminate].
Qed.

Example ex_ideal :
  ideal 4 99 4 (fst ex_start) (snd ex_start) =
  ({| c_expect := 4; c_buf := exF; c_finished := true |},
   snd (fst (ideal 4 99 4 (fst ex_start) (snd ex_start))),
   [DATA 1 [1;2;3;4]; DATA 2 [5;6;7;8]; DATA 3 [9;10]]) /\
  ts_done (snd (fst (ideal 4 99 4 (fst ex_start) (snd ex_start)))) = true /\
  nblocks exF 4 = 3%nat.
Proof. vm_compute. repeat split. Qed.

(* two losses (DATA 1, then ACK 1), a duplicated ACK delivered late and out of
   order, a stale DATA delivered out of order: t1 < t2 are two timeouts apart *)
Definition ex_t (k : Z) : Z := (k * 2000000000)%Z.
Definition ex_sched : list ev :=
  [ LoseData 0;                 (* DATA 1 lost *)
    SrvTimer (ex_t 1);          (* server re-sends DATA 1 *)
    DeliverData 0;              (* client: block 1, ACK 1 *)
    LoseAck 0;                  (* ACK 1 lost *)
    CliTimer;                   (* client re-sends ACK 1 *)
    DupAck 0 (ex_t 2);          (* ACK 1 arrives (DATA 2 sent), a copy stays in flight *)
    DeliverData 0;              (* client: block 2, ACK 2 *)
    DeliverAck 1 (ex_t 2);      (* the stale copy of ACK 1 overtaken by ACK 2: DATA 2 re-sent *)
    DeliverAck 0 (ex_t 2);      (* ACK 2: DATA 3 sent *)
    DeliverData 1;              (* the stale second DATA 2: ignored *)
    DeliverData 0;              (* client: block 3 (short) -- finished, ACK 3 *)
    DeliverAck 0 (ex_t 3) ].    (* server: done *)

Example ex_lossy :
  let s := lrun 4 99 (sys_init (fst ex_start) (snd ex_start)) ex_sched in
  c_finished (cl s) = true /\ c_buf (cl s) = exF /\ ts_done (sv s) = true /\
  sent s = [DATA 3 [9;10]; DATA 2 [5;6;7;8]; DATA 2 [5;6;7;8]; DATA 1 [1;2;3;4]; DATA 1 [1;2;3;4]] /\
  to_cl s = [] /\ to_sv s = [] /\
  effective_count 4 99 (sys_init (fst ex_start) (snd ex_start)) ex_sched = 6%nat /\
  deliveries_needed exF 4 (snd ex_start) = 5%nat.
Proof. vm_compute. repeat split. Qed.

Example ex_lossy_hyps :
  never_abandoned 4 99 (sys_init (fst ex_start) (snd ex_start)) ex_sched /\
  never_silent 4 99 (sys_init (fst ex_start) (snd ex_start)) ex_sched.
Proof. split; vm_compute; repeat split; discriminate. Qed.

(* the same conclusion obtained from the theorem *)
Example ex_lossy_by_theorem :
  c_buf (cl (lrun 4 99 (sys_init (fst ex_start) (snd ex_start)) ex_sched)) = exF.
Proof.
  refine (proj1 (proj2 (lossy_run_completes exF 4 _ _ 99 _ _ ex_sched (proj1 ex_fresh) (proj1 ex_lossy_hyps) _))).
  - discriminate.
  - reflexivity.
  - vm_compute. repeat constructor.
Qed.

(* a real request with blksize=8 for a 20-byte file: the transfer starts with an
   OACK; lock step delivers 8 + 8 + 4 bytes *)
Definition exG : bytes := [1;2;3;4;5;6;7;8;9;10;11;12;13;14;15;16;17;18;19;20].
Definition ex_rrq : rrq_result :=
  do_RRQ (fun _ => RFile exG) 7 [102] tftp_binary_name [(tftp_blksize_name, OStr [56])]
         (Err ValueError) 0%Z.

Example ex_oack_ideal :
  match ex_rrq with
  | Started st p =>
    fresh exG 8 st p /\
    p = OACK [(tftp_blksize_name, OInt 8)] /\
    snd (ideal 8 99 4 st p) =
      [p; DATA 1 [1;2;3;4;5;6;7;8]; DATA 2 [9;10;11;12;13;14;15;16]; DATA 3 [17;18;19;20]] /\
    c_buf (fst (fst (ideal 8 99 4 st p))) = exG /\
    c_finished (fst (fst (ideal 8 99 4 st p))) = true /\
    ts_done (snd (fst (ideal 8 99 4 st p))) = true
  | Refused _ => False
  end.
Proof.
  pose proof (accepted_request_fresh (fun _ => RFile exG) 7 [102] tftp_binary_name
                [(tftp_blksize_name, OStr [56])] (Err ValueError) 0%Z exG) as A.
  fold ex_rrq in A. destruct ex_rrq as [st p|q] eqn:E; [|vm_compute in E; discriminate].
  destruct (A st p eq_refl eq_refl eq_refl) as (_ & Hfr).
  assert (Hbs : ts_block_size st = 8) by (vm_compute in E; injection E as <- _; reflexivity).
  rewrite Hbs in Hfr. split; [exact Hfr|].
  vm_compute in E. injection E as <- <-. vm_compute. repeat split.
Qed.

(* FINDING, concretely: the OACK is lost; the server's timer fires again and
   again, nothing is ever re-sent, the transfer is abandoned *)
Example ex_lost_oack :
  match ex_rrq with
  | Started st p =>
    let s := lrun 8 99 (sys_init st p)
                  [LoseData 0; SrvTimer (ex_t 1); CliTimer; SrvTimer (ex_t 2); SrvTimer (ex_t 3);
                   SrvTimer (ex_t 4); SrvTimer (ex_t 5)] in
    sent s = [p] /\ to_cl s = [] /\ cl s = client_init /\ ts_done (sv s) = true
  | Refused _ => False
  end.
Proof. vm_compute. repeat split. Qed.

(* why the bound counts EFFECTIVE deliveries and not deliveries: ten deliveries,
   nine of them of a stale duplicate, move the client by one block only *)
Example ex_stale_deliveries :
  let s := lrun 4 99 (sys_init (fst ex_start) (snd ex_start))
                [DupData 0; DupData 0; DupData 0; DupData 0; DupData 0;
                 DupData 0; DupData 0; DupData 0; DupData 0; DupData 0] in
  c_expect (cl s) = 2 /\ c_finished (cl s) = false /\ c_buf (cl s) = [1;2;3;4] /\ to_sv s = [1].
Proof. vm_compute. repeat split. Qed.

(* OBSERVATION (RFC 1123 4.2.3.1, "Sorcerer's Apprentice"): [get_block] answers a
   duplicate ACK of block n-1 by re-sending the unacknowledged block n.  With a
   client that re-acknowledges duplicates (here: DupData, then its timer) one
   duplicated DATA 1 makes every later block go out twice.  Completion and the
   buffer are not affected. *)
Example ex_sorcerer :
  let s := lrun 4 99 (sys_init (fst ex_start) (snd ex_start))
                [DupData 0; DeliverData 0; CliTimer;            (* DATA 1 twice: ACK 1 twice *)
                 DeliverAck 1 (ex_t 1); DeliverAck 0 (ex_t 1);   (* DATA 2 twice *)
                 DeliverData 0; DeliverData 0; CliTimer;        (* ACK 2 twice *)
                 DeliverAck 1 (ex_t 1); DeliverAck 0 (ex_t 1);   (* DATA 3 twice *)
                 DeliverData 0; DeliverData 0] in
  sent s = [DATA 3 [9;10]; DATA 3 [9;10]; DATA 2 [5;6;7;8]; DATA 2 [5;6;7;8]; DATA 1 [1;2;3;4]] /\
  c_finished (cl s) = true /\ c_buf (cl s) = exF.
Proof. vm_compute. repeat split. Qed.
