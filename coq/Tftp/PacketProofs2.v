(* Second direction of C20: every datagram that parses to a serialisable packet re-serialises
   to a datagram that parses to the same packet. *)
From Coq Require Import List NArith ZArith Bool Lia Arith.
From NV Require Import Lib.Res Lib.PyInt Gen.Tftp Tftp.Packet Tftp.PacketProofs.
Import ListNotations.
Open Scope N_scope.

Lemma span_fst_forall p l : forallb p (fst (span p l)) = true.
Proof. induction l as [|c r IH]; cbn; [reflexivity|]. destruct (p c) eqn:E; cbn; [rewrite E, IH|]; reflexivity. Qed.

Definition scan_ok (kv : bytes * bytes) : bool :=
  negb (match fst kv with [] => true | _ => false end) && forallb ge20 (fst kv) && forallb nonzero (snd kv).

Lemma prefix_pairs_scan_ok fuel : forall l, forallb scan_ok (prefix_pairs fuel l) = true.
Proof.
  induction fuel as [|f IH]; intros l; cbn [prefix_pairs]; [reflexivity|].
  pose proof (span_fst_forall ge20 l) as Hk.
  destruct (fst (span ge20 l)) as [|k0 k'] eqn:Ek; [reflexivity|].
  destruct (snd (span ge20 l)) as [|z r1]; [reflexivity|].
  destruct z; [|reflexivity].
  pose proof (span_fst_forall nonzero r1) as Hv.
  destruct (snd (span nonzero r1)) as [|z2 r2]; [reflexivity|]. destruct z2; [|reflexivity].
  cbn [forallb]. rewrite IH. unfold scan_ok. cbn [fst snd]. rewrite Hk, Hv. reflexivity.
Qed.

Lemma find_pairs_scan_ok fuel : forall l, forallb scan_ok (find_pairs fuel l) = true.
Proof.
  induction fuel as [|f IH]; intros l; cbn [find_pairs]; [reflexivity|].
  destruct l as [|c rest]; [reflexivity|].
  destruct (ge20 c) eqn:Ec; [|apply IH].
  pose proof (span_fst_forall ge20 (c :: rest)) as Hk.
  assert (Hne : fst (span ge20 (c :: rest)) <> []) by (cbn; rewrite Ec; discriminate).
  destruct (snd (span ge20 (c :: rest))) as [|z r1]; [reflexivity|].
  destruct z; [|apply IH].
  pose proof (span_fst_forall nonzero r1) as Hv.
  destruct (snd (span nonzero r1)) as [|z2 r2]; [reflexivity|]. destruct z2; [|reflexivity].
  cbn [forallb]. rewrite IH. unfold scan_ok. cbn [fst snd]. rewrite Hk, Hv.
  destruct (fst (span ge20 (c :: rest))); [congruence|reflexivity].
Qed.

Lemma ge20_lt128_name s : forallb ge20 s = true -> all_lt 128 s = true -> forallb name_char s = true.
Proof.
  unfold all_lt. induction s as [|c r IH]; cbn; [reflexivity|]. intros H1 H2.
  apply andb_true_iff in H1 as [A1 A2]. apply andb_true_iff in H2 as [B1 B2].
  unfold name_char at 1. unfold ge20 in A1. rewrite A1, B1, (IH A2 B2). reflexivity.
Qed.
Lemma nonzero_lt128_val s : forallb nonzero s = true -> all_lt 128 s = true -> forallb val_char s = true.
Proof.
  unfold all_lt. induction s as [|c r IH]; cbn; [reflexivity|]. intros H1 H2.
  apply andb_true_iff in H1 as [A1 A2]. apply andb_true_iff in H2 as [B1 B2].
  unfold val_char at 1. rewrite B1, (IH A2 B2). unfold nonzero in A1.
  destruct (N.eqb_spec c 0); [discriminate|]. destruct (N.leb_spec 1 c); [reflexivity|lia].
Qed.

Lemma lower_nonempty s : s <> [] -> lower s <> [].
Proof. destruct s; [congruence|discriminate]. Qed.

(* dict_set keeps the option list in normal form *)
Lemma keys_dict_set k v d : forall x,
  existsb (list_eqb_N x) (map fst (dict_set k v d)) = existsb (list_eqb_N x) (map fst d) || list_eqb_N x k.
Proof.
  induction d as [|[k' v'] r IH]; intros x; cbn; [rewrite orb_false_r; reflexivity|].
  destruct (list_eqb_N k k') eqn:E; cbn.
  - apply list_eqb_N_eq in E. subst. destruct (list_eqb_N x k'); cbn; [reflexivity|rewrite orb_false_r; reflexivity].
  - rewrite IH. destruct (list_eqb_N x k'); cbn; reflexivity.
Qed.

Lemma dict_set_nodup k v d : nodup_keys (map fst d) = true -> nodup_keys (map fst (dict_set k v d)) = true.
Proof.
  induction d as [|[k' v'] r IH]; cbn; [reflexivity|]. intros H. apply andb_true_iff in H as [H1 H2].
  destruct (list_eqb_N k k') eqn:E; cbn.
  - apply list_eqb_N_eq in E. subst. rewrite H1, H2. reflexivity.
  - rewrite (IH H2). rewrite keys_dict_set. apply negb_true_iff in H1. rewrite H1. cbn.
    rewrite list_eqb_N_sym, E. reflexivity.
Qed.

Lemma dict_set_ok k v d : opt_ok (k, v) = true -> forallb opt_ok d = true -> forallb opt_ok (dict_set k v d) = true.
Proof.
  intros Hk. induction d as [|[k' v'] r IH]; cbn [dict_set forallb]; [intros _; rewrite Hk; reflexivity|].
  intros H. apply andb_true_iff in H as [H1 H2].
  destruct (list_eqb_N k k'); cbn [forallb]; [rewrite Hk, H2|rewrite H1, (IH H2)]; reflexivity.
Qed.

Lemma dict_of_pairs_nf ps : forall acc o,
  forallb scan_ok ps = true -> opts_nf acc = true -> dict_of_pairs ps acc = Ok o ->
  opts_nf o = true /\ strs o = o -> True.
Proof. auto. Qed.

Definition all_str (o : options) : bool := forallb (fun kv => match snd kv with OStr _ => true | OInt _ => false end) o.

Lemma strs_all_str o : all_str o = true -> strs o = o.
Proof.
  unfold all_str, strs. induction o as [|[k v] r IH]; cbn [forallb map fst snd]; [reflexivity|].
  intros H. apply andb_true_iff in H as [H1 H2].
  destruct v; [|discriminate]. cbn [oval_str]. rewrite (IH H2). reflexivity.
Qed.

Lemma dict_set_all_str k s d : all_str d = true -> all_str (dict_set k (OStr s) d) = true.
Proof.
  unfold all_str. induction d as [|[k' v'] r IH]; cbn [dict_set forallb fst snd]; [reflexivity|].
  intros H. apply andb_true_iff in H as [H1 H2].
  destruct (list_eqb_N k k'); cbn [forallb fst snd]; [exact H2|rewrite H1, (IH H2); reflexivity].
Qed.

Lemma dict_of_pairs_inv ps : forall acc o,
  forallb scan_ok ps = true -> opts_nf acc = true -> all_str acc = true ->
  dict_of_pairs ps acc = Ok o -> opts_nf o = true /\ all_str o = true.
Proof.
  induction ps as [|[k v] r IH]; intros acc o Hs Hacc Hstr; cbn [dict_of_pairs].
  - intros H; injection H as <-. auto.
  - cbn [forallb] in Hs. apply andb_true_iff in Hs as [Hkv Hr].
    unfold scan_ok in Hkv. cbn [fst snd] in Hkv. apply andb_true_iff in Hkv as [Hkv Hv].
    apply andb_true_iff in Hkv as [Hne Hk].
    unfold dec_ascii_strict. destruct (all_lt 128 k) eqn:Ak; cbn [bind]; [|discriminate].
    destruct (all_lt 128 v) eqn:Av; cbn [bind]; [|discriminate].
    apply IH; [exact Hr| |apply dict_set_all_str; exact Hstr].
    unfold opts_nf in *. apply andb_true_iff in Hacc as [Ha1 Ha2]. apply andb_true_iff. split.
    + apply dict_set_ok; [|exact Ha1]. unfold opt_ok, pair_ok. cbn [fst snd oval_str].
      rewrite (lower_name_char k (ge20_lt128_name k Hk Ak)), (lower_val_char v (nonzero_lt128_val v Hv Av)).
      rewrite !lower_is_no_upper. destruct k; [discriminate|reflexivity].
    + unfold keys in *. apply dict_set_nodup. exact Ha2.
Qed.

Lemma rstrip0_cons c r :
  rstrip0 (c :: r) = match rstrip0 r with [] => if c =? 0 then [] else [c] | r' => c :: r' end.
Proof. reflexivity. Qed.

Lemma rstrip0_idem l : rstrip0 (rstrip0 l) = rstrip0 l.
Proof.
  induction l as [|c r IH]; [reflexivity|]. rewrite rstrip0_cons.
  destruct (rstrip0 r) as [|x xs] eqn:E.
  - destruct (c =? 0) eqn:Ec; [reflexivity|]. rewrite rstrip0_cons. cbn [rstrip0]. rewrite Ec. reflexivity.
  - rewrite rstrip0_cons, IH. reflexivity.
Qed.

Lemma rstrip0_map_repl l : rstrip0 (dec_ascii_replace l) = dec_ascii_replace (rstrip0 l).
Proof.
  unfold dec_ascii_replace. induction l as [|c r IH]; [reflexivity|].
  cbn [map]. rewrite !rstrip0_cons, IH.
  destruct (rstrip0 r) as [|x xs]; cbn [map].
  - destruct (N.eqb_spec c 0) as [->|Hc]; [reflexivity|].
    destruct (c <? 128) eqn:E; cbn [map]; rewrite ?E.
    + destruct (N.eqb_spec c 0); [congruence|reflexivity].
    + reflexivity.
  - reflexivity.
Qed.

Lemma utf8_decode_ascii_id fuel : forall bs s,
  utf8_decode fuel bs = Some s -> all_lt 128 s = true -> s = bs.
Proof.
  induction fuel as [|f IH]; intros bs s; cbn [utf8_decode].
  - destruct bs; [intros H _; injection H as <-; reflexivity|discriminate].
  - destruct bs as [|c r]; [intros H _; injection H as <-; reflexivity|].
    destruct (c <? 128) eqn:Ec.
    + destruct (utf8_decode f r) as [t|] eqn:Et; cbn; [|discriminate].
      intros H Ha; injection H as <-. unfold all_lt in Ha. cbn in Ha. apply andb_true_iff in Ha as [_ Ha].
      f_equal. apply (IH r t Et Ha).
    + (* a multi-byte sequence decodes to a code point >= 128 *)
      intros H Ha. exfalso. unfold all_lt in Ha.
      destruct ((194 <=? c) && (c <=? 223)) eqn:E2.
      { destruct r as [|c1 r1]; [discriminate|]. destruct (is_cont c1) eqn:Ec1; [|discriminate].
        destruct (utf8_decode f r1); cbn in H; [|discriminate]. injection H as <-. cbn in Ha.
        apply andb_true_iff in Ha as [Ha _]. apply andb_true_iff in E2 as [E2 _]. unfold is_cont in Ec1.
        apply andb_true_iff in Ec1 as [Ec1 _]. apply N.ltb_lt in Ha. apply N.leb_le in E2, Ec1. lia. }
      destruct ((224 <=? c) && (c <=? 239)) eqn:E3.
      { destruct r as [|c1 [|c2 r2]]; try discriminate.
        match type of H with (if ?b then _ else _) = _ => destruct b eqn:Eb end; [|discriminate].
        destruct (utf8_decode f r2); cbn in H; [|discriminate]. injection H as <-. cbn in Ha.
        apply andb_true_iff in Ha as [Ha _]. apply N.ltb_lt in Ha.
        apply andb_true_iff in E3 as [E3 _]. apply N.leb_le in E3.
        apply andb_true_iff in Eb as [Eb Ec2]. apply andb_true_iff in Eb as [Elo _]. apply N.leb_le in Elo.
        unfold is_cont in Ec2. apply andb_true_iff in Ec2 as [Ec2 _]. apply N.leb_le in Ec2.
        destruct (N.eqb_spec c 224); lia. }
      destruct ((240 <=? c) && (c <=? 244)) eqn:E4; [|discriminate].
      destruct r as [|c1 [|c2 [|c3 r3]]]; try discriminate.
      match type of H with (if ?b then _ else _) = _ => destruct b eqn:Eb end; [|discriminate].
      destruct (utf8_decode f r3); cbn in H; [|discriminate]. injection H as <-. cbn in Ha.
      apply andb_true_iff in Ha as [Ha _]. apply N.ltb_lt in Ha.
      apply andb_true_iff in E4 as [E4 _]. apply N.leb_le in E4.
      apply andb_true_iff in Eb as [Eb _]. apply andb_true_iff in Eb as [Eb _]. apply andb_true_iff in Eb as [Elo _].
      apply N.leb_le in Elo. destruct (N.eqb_spec c 240); lia.
Qed.

Lemma lower_alpha_mode m : mode_ok (lower m) = true -> mode_ok (lower m) = true.
Proof. auto. Qed.

Lemma parse_rq_nf mk data p :
  (forall f m o, nf (mk f m o) = (fname_ok f && mode_ok m && opts_nf o)) ->
  (forall f m o, strs_packet (mk f m o) = mk f m (strs o)) ->
  (forall f m o b, serialize (mk f m o) = Ok b -> all_lt 128 f = true) ->
  parse_rq mk data = Ok p -> (exists b, serialize p = Ok b) -> nf p = true /\ strs_packet p = p.
Proof.
  intros Hnf Hstrs Hser. unfold parse_rq. cbv zeta.
  pose proof (span_fst_forall ge20 data) as Hf.
  destruct (fst (span ge20 data)) as [|f0 f'] eqn:Ef; [discriminate|].
  destruct (snd (span ge20 data)) as [|z r1]; [discriminate|]. destruct z; [|discriminate].
  destruct (fst (span is_alpha r1)) as [|m0 m'] eqn:Em; [discriminate|].
  destruct (snd (span is_alpha r1)) as [|z r2]; [discriminate|]. destruct z; [|discriminate].
  destruct (py_utf8_decode (f0 :: f')) as [fname|] eqn:Eu; [|discriminate].
  match goal with |- context [if ?c then _ else _] => destruct c eqn:Emo end; [|discriminate].
  match goal with |- context [bind ?c _] => destruct c as [o|e] eqn:Ed end; cbn [bind]; [|discriminate].
  intros H [b Hb]. injection H as <-.
  destruct (dict_of_pairs_inv _ [] o (prefix_pairs_scan_ok _ _) eq_refl eq_refl Ed) as (Ho & Hs).
  pose proof (Hser _ _ _ _ Hb) as Hascii.
  pose proof (utf8_decode_ascii_id _ _ _ Eu Hascii) as ->.
  split.
  - rewrite Hnf. apply andb_true_iff. split; [apply andb_true_iff; split|exact Ho].
    + unfold fname_ok. rewrite (ge20_lt128_name _ Hf Hascii). reflexivity.
    + exact Emo.
  - rewrite Hstrs, (strs_all_str o Hs). reflexivity.
Qed.

Theorem parse_image_nf d p b : parse d = Ok p -> serialize p = Ok b -> nf p = true /\ strs_packet p = p.
Proof.
  unfold parse. destruct d as [|h [|l data]]; try discriminate.
  destruct (h * 256 + l =? op_RRQ).
  { intros H Hs. eapply (parse_rq_nf RRQ); eauto; try reflexivity.
    intros f m o b0. cbn [serialize]. unfold enc_ascii. destruct (all_lt 128 f); [reflexivity|discriminate]. }
  destruct (h * 256 + l =? op_WRQ).
  { intros H Hs. eapply (parse_rq_nf WRQ); eauto; try reflexivity.
    intros f m o b0. cbn [serialize]. unfold enc_ascii. destruct (all_lt 128 f); [reflexivity|discriminate]. }
  destruct (h * 256 + l =? op_DATA).
  { destruct data as [|bh [|bl payload]]; try discriminate.
    destruct ((data_block_min <=? bh * 256 + bl) && (bh * 256 + bl <=? data_block_max)) eqn:E; [|discriminate].
    intros H _. injection H as <-. cbn [nf strs_packet]. rewrite E. auto. }
  destruct (h * 256 + l =? op_ACK).
  { destruct data as [|bh [|bl rest]]; try discriminate.
    destruct ((ack_block_min <=? bh * 256 + bl) && (bh * 256 + bl <=? ack_block_max)) eqn:E; [|discriminate].
    intros H _. injection H as <-. cbn [nf strs_packet]. rewrite E. auto. }
  destruct (h * 256 + l =? op_ERROR).
  { destruct data as [|ch [|cl msg]]; try discriminate.
    destruct (existsb (N.eqb (ch * 256 + cl)) error_codes) eqn:E; [|discriminate].
    intros H Hs. injection H as <-. cbn [nf strs_packet]. rewrite E. split; [|reflexivity].
    cbn [serialize] in Hs. unfold enc_ascii in Hs.
    destruct (all_lt 128 (dec_ascii_replace (rstrip0 msg))) eqn:Ea; [|discriminate].
    unfold msg_ok. rewrite Ea. cbn [andb]. apply list_eqb_N_eq.
    rewrite rstrip0_map_repl, rstrip0_idem. reflexivity. }
  destruct (h * 256 + l =? op_OACK); [|discriminate].
  destruct (dict_of_pairs (find_pairs (length data) data) []) as [o|e] eqn:Ed; cbn [bind]; [|discriminate].
  intros H _. injection H as <-.
  destruct (dict_of_pairs_inv _ [] o (find_pairs_scan_ok _ _) eq_refl eq_refl Ed) as (Ho & Hs).
  cbn [nf strs_packet]. rewrite (strs_all_str o Hs). auto.
Qed.

(* the second direction of the round trip, for every datagram *)
Theorem serialize_parse d p b : parse d = Ok p -> serialize p = Ok b -> parse b = Ok p.
Proof.
  intros Hp Hs. destruct (parse_image_nf d p b Hp Hs) as (Hnf & Hst).
  destruct (parse_serialize p Hnf) as (b' & Hb' & Hparse). rewrite Hs in Hb'. injection Hb' as <-.
  rewrite Hparse, Hst. reflexivity.
Qed.
