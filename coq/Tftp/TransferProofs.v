(* C01: every DATA packet an octet transfer ever emits carries the right bytes of
   the file; an RFC 1350 client fed with any selection of them reconstructs it. *)
From Coq Require Import List NArith ZArith Bool Lia Arith ZifyN ZifyNat ZifyBool.
From NV Require Import Lib.Res Lib.PyInt Gen.Tftp Tftp.Packet Tftp.Transfer Netascii.Model.
Import ListNotations.
Open Scope N_scope.

(* ---------- list slicing ---------- *)
Lemma skipn_skipn_add {A} a b (l : list A) : skipn b (skipn a l) = skipn (a + b) l.
Proof.
  revert l; induction a as [|a IH]; intros l; [reflexivity|].
  destruct l as [|x l]; [cbn; apply skipn_nil|]. cbn [skipn Nat.add]. apply IH.
Qed.
Lemma firstn_firstn_skipn {A} a b (l : list A) :
  firstn a l ++ firstn b (skipn a l) = firstn (a + b) l.
Proof.
  revert l; induction a as [|a IH]; intros l; [reflexivity|].
  destruct l as [|x l]; [cbn; rewrite firstn_nil; reflexivity|]. cbn [firstn skipn Nat.add app]. f_equal. apply IH.
Qed.
Lemma slice_length {A} a b (l : list A) :
  length (firstn b (skipn a l)) = Nat.min b (length l - a).
Proof. rewrite firstn_length, skipn_length. reflexivity. Qed.

Lemma mul_pred (a b : nat) : (1 <= a)%nat -> (a * b = (a - 1) * b + b)%nat.
Proof. intros H. destruct a as [|a]; [lia|]. replace (S a - 1)%nat with a by lia. cbn. lia. Qed.

Section Octet.
Variable F : bytes.          (* the file *)
Variable B : N.              (* negotiated block size *)
Hypothesis B_pos : 1 <= B.

Definition Bn : nat := N.to_nat B.
Definition slice (k : N) : bytes := firstn Bn (skipn ((N.to_nat k - 1) * Bn) F).

Lemma slice_len k : length (slice k) = Nat.min Bn (length F - (N.to_nat k - 1) * Bn).
Proof. apply slice_length. Qed.

(* a DATA packet is sound when its block number is legal and it carries exactly
   bytes [(k-1)*B, k*B) of the file, its start lying inside (or at the end of) the file *)
Definition sound (p : packet) : Prop :=
  match p with
  | DATA k d => 1 <= k <= 65535 /\ d = slice k /\ ((N.to_nat k - 1) * Bn <= length F)%nat
  | _ => True
  end.

Definition Inv (st : tstate) : Prop :=
  ts_block_size st = B /\
  ts_src st = SOctet (skipn (N.to_nat (ts_blocks_read st) * Bn) F) /\
  (ts_blocks st = [] \/ ts_blocks st = [(ts_blocks_read st, slice (ts_blocks_read st))]) /\
  (ts_blocks_read st = 0 -> ts_last_ack st = None /\ ts_blocks st = []) /\
  (1 <= ts_blocks_read st ->
     ((N.to_nat (ts_blocks_read st) - 1) * Bn <= length F)%nat /\
     (ts_blocks st = [(ts_blocks_read st, slice (ts_blocks_read st))] \/
      ts_last_ack st = Some (N.of_nat (length (slice (ts_blocks_read st)))))).

(* field-preserving updates keep the invariant *)
Lemma Inv_ext st st' :
  ts_block_size st' = ts_block_size st -> ts_src st' = ts_src st -> ts_blocks st' = ts_blocks st ->
  ts_blocks_read st' = ts_blocks_read st -> ts_last_ack st' = ts_last_ack st -> Inv st -> Inv st'.
Proof. unfold Inv. intros -> -> -> -> ->. exact (fun H => H). Qed.

Lemma Inv_recv st t : Inv st -> Inv (set_recv st t). Proof. apply Inv_ext; reflexivity. Qed.
Lemma Inv_send st t : Inv st -> Inv (set_send st t). Proof. apply Inv_ext; reflexivity. Qed.
Lemma Inv_done st : Inv st -> Inv (set_done st). Proof. apply Inv_ext; reflexivity. Qed.
Lemma Inv_dead st : Inv st -> Inv (set_dead st). Proof. apply Inv_ext; reflexivity. Qed.

(* ---------- ack ---------- *)
Lemma Inv_ack st b : Inv st -> Inv (ack b st) /\
  (b = ts_blocks_read st -> 1 <= b ->
     ts_blocks (ack b st) = [] /\
     ts_last_ack (ack b st) = Some (N.of_nat (length (slice b)))) /\
  ts_blocks_read (ack b st) = ts_blocks_read st /\ ts_block_size (ack b st) = B /\
  ts_src (ack b st) = ts_src st /\
  (ts_blocks (ack b st) = ts_blocks st \/ ts_blocks (ack b st) = []).
Proof.
  intros HI. assert (HI' := HI). destruct HI' as (Hbs & Hsrc & Hblk & H0 & H1). unfold ack.
  destruct Hblk as [Hnil|Hone].
  - rewrite Hnil. cbn [blk_lookup].
    split; [exact HI|]. split.
    + intros -> Hb. split; [exact Hnil|]. destruct (H1 Hb) as (_ & [X|X]); [congruence|exact X].
    + split; [reflexivity|]. split; [exact Hbs|]. split; [reflexivity|]. first [left; reflexivity | left; assumption | right; assumption].
  - rewrite Hone. cbn [blk_lookup blk_remove].
    destruct (N.eqb_spec (ts_blocks_read st) b) as [E|E].
    + subst b.
      assert (Hr : 1 <= ts_blocks_read st).
      { destruct (N.eq_dec (ts_blocks_read st) 0) as [Z|NZ]; [|lia].
        destruct (H0 Z) as (_ & X). rewrite X in Hone. discriminate. }
      split.
      * unfold Inv; cbn [ts_block_size ts_src ts_blocks ts_blocks_read ts_last_ack set_ack].
        split; [exact Hbs|]. split; [exact Hsrc|]. split; [left; reflexivity|].
        split; [intros Z; lia|]. intros _. split; [apply H1; exact Hr|right; reflexivity].
      * split; [intros _ _; split; reflexivity|]. cbn [ts_block_size ts_src ts_blocks ts_blocks_read set_ack].
        split; [reflexivity|]. split; [exact Hbs|]. split; [reflexivity|]. right; reflexivity.
    + split; [exact HI|]. split; [intros ->; congruence|].
      split; [reflexivity|]. split; [exact Hbs|]. split; [reflexivity|]. first [left; reflexivity | left; assumption | right; assumption].
Qed.

(* ---------- get_block ---------- *)
Lemma to_nat_succ r : N.to_nat (r + 1) = S (N.to_nat r). Proof. lia. Qed.

Lemma get_block_spec st n :
  Inv st ->
  (ts_blocks_read st + 1 = n -> ts_blocks st = []) ->
  match get_block n st with
  | Ok (d, st') => Inv st' /\ d = slice n /\ ((N.to_nat n - 1) * Bn <= length F)%nat /\ 1 <= n
  | Err _ => True
  end.
Proof.
  intros HI Hcache. assert (HI' := HI). destruct HI' as (Hbs & Hsrc & Hblk & H0 & H1).
  unfold get_block, gen_next_block_cmp.
  destruct (N.eqb_spec (ts_blocks_read st + 1) n) as [E|E].
  - (* read the next block *)
    destruct (finished st) eqn:Hfin; [exact I|].
    rewrite Hsrc, Hbs. cbn [src_read bind fst snd]. fold Bn.
    specialize (Hcache E).
    (* the start of block n lies inside the file *)
    assert (Hstart : (N.to_nat (ts_blocks_read st) * Bn <= length F)%nat).
    { destruct (N.eq_dec (ts_blocks_read st) 0) as [Z|NZ]; [rewrite Z; cbn; lia|].
      assert (Hr : 1 <= ts_blocks_read st) by lia.
      destruct (H1 Hr) as (Hle & [X|X]); [congruence|].
      unfold finished in Hfin. rewrite X, Hbs in Hfin. unfold gen_finished_cmp in Hfin.
      apply N.ltb_ge in Hfin. rewrite slice_len in Hfin.
      assert (Bn = N.to_nat B) by reflexivity.
      pose proof (mul_pred (N.to_nat (ts_blocks_read st)) Bn ltac:(lia)). lia. }
    subst n. split; [|split; [|split]].
    + unfold Inv. cbn [ts_block_size ts_src ts_blocks ts_blocks_read ts_last_ack set_blocks set_src].
      rewrite Hcache. cbn [blk_set]. rewrite to_nat_succ.
      split; [exact Hbs|]. split.
      { f_equal. rewrite skipn_skipn_add. f_equal. lia. }
      split.
      { right. unfold slice. rewrite to_nat_succ. repeat f_equal. lia. }
      split; [intros Z; lia|].
      intros _. split; [lia|]. left. unfold slice. rewrite to_nat_succ. repeat f_equal. lia.
    + unfold slice. rewrite to_nat_succ. repeat f_equal. lia.
    + rewrite to_nat_succ. lia.
    + lia.
  - (* cached block, or refusal *)
    destruct Hblk as [Hnil|Hone].
    + rewrite Hnil. cbn [blk_lookup]. destruct (gen_already_acked_cmp n (ts_blocks_read st)); exact I.
    + rewrite Hone. cbn [blk_lookup].
      destruct (N.eqb_spec (ts_blocks_read st) n) as [E2|E2];
        [|destruct (gen_already_acked_cmp n (ts_blocks_read st)); exact I].
      subst n. split; [exact HI|]. split; [reflexivity|].
      assert (Hr : 1 <= ts_blocks_read st).
      { destruct (N.eq_dec (ts_blocks_read st) 0) as [Z|NZ]; [|lia].
        destruct (H0 Z) as (_ & X). rewrite X in Hone. discriminate. }
      split; [apply H1; exact Hr|exact Hr].
Qed.

Lemma mk_DATA_ok k d p : mk_DATA k d = Ok p -> p = DATA k d /\ 1 <= k <= 65535.
Proof.
  unfold mk_DATA, data_block_min, data_block_max.
  destruct ((1 <=? k) && (k <=? 65535)) eqn:E; [|discriminate].
  intros H; inversion H; subst. split; [reflexivity|]. lia.
Qed.

(* ---------- do_ACK ---------- *)
Lemma do_ACK_spec st b :
  Inv st ->
  Inv (fst (do_ACK b st)) /\ (forall p, snd (do_ACK b st) = Some p -> sound p).
Proof.
  intros HI. destruct (Inv_ack st b HI) as (HI1 & Hpop & Hr1 & Hbs1 & Hsrc1 & Hblk1).
  unfold do_ACK.
  assert (Hcache : ts_blocks_read (ack b st) + 1 = b + 1 -> ts_blocks (ack b st) = []).
  { rewrite Hr1. intros E. assert (Eb : b = ts_blocks_read st) by lia.
    destruct (N.eq_dec b 0) as [Z|NZ].
    - destruct HI as (_ & _ & _ & H0 & _). subst b. rewrite Z in H0. destruct (H0 eq_refl) as (_ & X).
      destruct Hblk1 as [Y|Y]; congruence.
    - apply Hpop; [exact Eb|lia]. }
  pose proof (get_block_spec (ack b st) (b + 1) HI1 Hcache) as G.
  destruct (get_block (b + 1) (ack b st)) as [[d st2]|e].
  - destruct G as (HI2 & Hd & Hle & Hn).
    destruct (mk_DATA (b + 1) d) as [p|e] eqn:Em; cbn [fst snd].
    + split; [exact HI2|]. intros p' Hp. inversion Hp; subst p'.
      destruct (mk_DATA_ok _ _ _ Em) as (-> & Hk). cbn [sound]. auto.
    + split; [apply Inv_done; exact HI2|]. intros p' Hp. inversion Hp; subst.
      unfold handle_exn. destruct e; exact I.
  - destruct e; cbn [fst snd];
      first [ split; [exact HI1|intros p' Hp; discriminate]
            | split; [apply Inv_done; exact HI1|intros p' Hp; inversion Hp; subst; exact I] ].
Qed.

(* ---------- one datagram at the transfer port ---------- *)
Lemma handle_exn_sound e : sound (handle_exn e).
Proof. destruct e; exact I. Qed.

Theorem sub_handle_spec st src dgram now :
  Inv st ->
  Inv (fst (sub_handle st src dgram now)) /\
  (forall p, snd (sub_handle st src dgram now) = Some p -> sound p).
Proof.
  intros HI. unfold sub_handle.
  destruct (ts_dead st); [split; [exact HI|intros p Hp; discriminate]|].
  destruct (negb (src =? ts_addr st)); [split; [exact HI|intros p Hp; discriminate]|].
  pose proof (Inv_recv st now HI) as HI1.
  set (r := match parse dgram with
            | Ok (ACK b) => do_ACK b (set_recv st now)
            | Ok (ERROR _ _) => (set_done (set_recv st now), None)
            | Ok _ => (set_recv st now, Some (handle_exn AttributeError))
            | Err e => (set_recv st now, Some (handle_exn e))
            end).
  assert (Hr : Inv (fst r) /\ (forall p, snd r = Some p -> sound p)).
  { unfold r. destruct (parse dgram) as [p|e].
    - destruct p; cbn [fst snd];
        try (split; [exact HI1|intros p' Hp; injection Hp as <-; first [exact I | apply handle_exn_sound]]).
      + apply do_ACK_spec; exact HI1.
      + split; [apply Inv_done; exact HI1|intros p' Hp; discriminate].
    - cbn [fst snd]. split; [exact HI1|intros p' Hp; injection Hp as <-; first [exact I | apply handle_exn_sound]]. }
  destruct Hr as (Hr1 & Hr2). destruct (snd r) as [p|] eqn:Es; cbn [fst snd].
  - split; [apply Inv_send; exact Hr1|]. intros p' Hp. injection Hp as <-. apply Hr2. reflexivity.
  - split; [exact Hr1|]. intros p' Hp. rewrite Es in Hp. discriminate.
Qed.

(* ---------- retransmission on timeout ---------- *)
Lemma resend_sound blocks :
  (forall k d, In (k, d) blocks -> d = slice k /\ ((N.to_nat k - 1) * Bn <= length F)%nat) ->
  forall p, In p (fst (resend blocks)) -> sound p.
Proof.
  induction blocks as [|[k d] r IH]; intros Hall p Hin; [destruct Hin|].
  cbn [resend] in Hin. destruct (mk_DATA k d) as [q|e] eqn:Em; [|destruct Hin].
  cbn [fst] in Hin. destruct Hin as [<-|Hin].
  - destruct (mk_DATA_ok _ _ _ Em) as (-> & Hk). cbn [sound].
    destruct (Hall k d (or_introl eq_refl)) as (Hd & Hle). auto.
  - apply IH; [|exact Hin]. intros k' d' H'. apply Hall. right. exact H'.
Qed.

Theorem tick_spec st now :
  Inv st -> Inv (fst (tick st now)) /\ (forall p, In p (snd (tick st now)) -> sound p).
Proof.
  intros HI. unfold tick.
  destruct (ts_dead st); [split; [exact HI|intros p []]|].
  destruct (gen_tick_recv_cmp now (ts_last_recv st) (ts_timeout st)); [|split; [exact HI|intros p []]].
  destruct (ts_last_send st) as [ls|]; [|split; [apply Inv_done; exact HI|intros p []]].
  destruct (gen_tick_giveup_cmp ls (ts_last_recv st) (ts_timeout st)); [split; [apply Inv_done; exact HI|intros p []]|].
  destruct (gen_tick_resend_cmp now ls (ts_timeout st)); [|split; [exact HI|intros p []]].
  assert (Hs : forall p, In p (fst (resend (ts_blocks st))) -> sound p).
  { apply resend_sound. intros k d Hin. destruct HI as (_ & _ & Hblk & H0 & H1).
    destruct Hblk as [X|X]; rewrite X in Hin; [destruct Hin|].
    destruct Hin as [E|[]]. inversion E; subst k d. split; [reflexivity|].
    assert (Hr : 1 <= ts_blocks_read st).
    { destruct (N.eq_dec (ts_blocks_read st) 0) as [Z|NZ]; [|lia].
      destruct (H0 Z) as (_ & Y). rewrite Y in X. discriminate. }
    apply H1; exact Hr. }
  destruct (snd (resend (ts_blocks st))); cbn [fst snd];
    (split; [first [apply Inv_send|apply Inv_dead]; exact HI|exact Hs]).
Qed.

(* ---------- every schedule ---------- *)
Inductive event :=
| EvPacket (src : N) (dgram : bytes) (now : Z)     (* any datagram from any endpoint *)
| EvTick (now : Z).

Fixpoint run (st : tstate) (evs : list event) : list packet * tstate :=
  match evs with
  | [] => ([], st)
  | EvPacket src d now :: r =>
    let x := sub_handle st src d now in
    let y := run (fst x) r in
    ((match snd x with Some p => [p] | None => [] end) ++ fst y, snd y)
  | EvTick now :: r =>
    let x := tick st now in
    let y := run (fst x) r in
    (snd x ++ fst y, snd y)
  end.

Theorem data_sound evs : forall st,
  Inv st -> (forall p, In p (fst (run st evs)) -> sound p) /\ Inv (snd (run st evs)).
Proof.
  induction evs as [|[src d now|now] r IH]; intros st HI; cbn [run fst snd].
  - split; [intros p []|exact HI].
  - destruct (sub_handle_spec st src d now HI) as (H1 & H2).
    destruct (IH _ H1) as (H3 & H4). split; [|exact H4].
    intros p Hin. apply in_app_or in Hin as [Hin|Hin]; [|apply H3; exact Hin].
    destruct (snd (sub_handle st src d now)) as [q|]; [|destruct Hin].
    destruct Hin as [<-|[]]. apply H2. reflexivity.
  - destruct (tick_spec st now HI) as (H1 & H2).
    destruct (IH _ H1) as (H3 & H4). split; [|exact H4].
    intros p Hin. apply in_app_or in Hin as [Hin|Hin]; [apply H2|apply H3]; exact Hin.
Qed.

(* only the last block is short; an exact multiple ends with an empty block *)
Theorem short_only_last k d :
  sound (DATA k d) -> (length d < Bn)%nat ->
  ((N.to_nat k - 1) * Bn + length d = length F)%nat.
Proof.
  intros (Hk & -> & Hle) Hlt. rewrite slice_len in *. lia.
Qed.

(* ---------- the receiving client ---------- *)
Definition CInv (c : client) : Prop :=
  1 <= c_expect c /\
  c_buf c = firstn ((N.to_nat (c_expect c) - 1) * Bn) F /\
  (c_finished c = true -> c_buf c = F) /\
  (c_finished c = false -> ((N.to_nat (c_expect c) - 1) * Bn <= length F)%nat).

Lemma CInv_init : CInv client_init.
Proof. unfold CInv, client_init; cbn. repeat split; try lia; try discriminate. Qed.

Theorem client_step_inv tid c from p :
  CInv c -> (from = tid -> sound p) -> CInv (client_step B tid c from p).
Proof.
  intros HC Hs. assert (HC' := HC). destruct HC' as (He & Hbuf & Hfin & Hle). unfold client_step.
  destruct (c_finished c) eqn:Ef; [exact HC|].
  destruct (N.eqb_spec from tid) as [E|E]; cbn [negb]; [|exact HC].
  specialize (Hs E). destruct p as [f m o|f m o|k d|k|c0 m|o]; try exact HC.
  destruct (N.eqb_spec k (c_expect c)) as [Ek|Ek]; [|exact HC].
  subst k. destruct Hs as (Hk & -> & Hstart).
  assert (HB : (1 <= Bn)%nat) by (unfold Bn; lia).
  assert (HBn : Bn = N.to_nat B) by reflexivity.
  pose proof (slice_len (c_expect c)) as Hlen.
  assert (Hmul : ((S (N.to_nat (c_expect c)) - 1) * Bn = (N.to_nat (c_expect c) - 1) * Bn + Bn)%nat).
  { replace (S (N.to_nat (c_expect c)) - 1)%nat with (N.to_nat (c_expect c)) by lia.
    apply mul_pred. lia. }
  unfold CInv; cbn [c_expect c_buf c_finished]. rewrite to_nat_succ. split; [lia|]. split.
  - rewrite Hbuf. unfold slice. rewrite firstn_firstn_skipn. f_equal. lia.
  - split.
    + intros Hshort. apply N.ltb_lt in Hshort.
      rewrite Hbuf. unfold slice. rewrite firstn_firstn_skipn.
      apply firstn_all2. lia.
    + intros Hfull. apply N.ltb_ge in Hfull. lia.
Qed.

Fixpoint client_run (tid : N) (c : client) (ds : list (N * packet)) : client :=
  match ds with
  | [] => c
  | (from, p) :: r => client_run tid (client_step B tid c from p) r
  end.

(* any sequence of datagrams: those from the transfer's TID are sound (emitted by
   the server at any time, in any order, any number of times), the others arbitrary *)
Theorem client_reconstructs tid ds :
  (forall from p, In (from, p) ds -> from = tid -> sound p) ->
  let c := client_run tid client_init ds in
  c_buf c = firstn ((N.to_nat (c_expect c) - 1) * Bn) F /\ (c_finished c = true -> c_buf c = F).
Proof.
  intros Hall. cbn zeta.
  assert (G : forall c, CInv c -> (forall from p, In (from, p) ds -> from = tid -> sound p) -> CInv (client_run tid c ds)).
  { clear Hall. induction ds as [|[from p] r IH]; intros c HC Hall; [exact HC|].
    cbn [client_run]. apply IH.
    - apply client_step_inv; [exact HC|]. apply Hall. left. reflexivity.
    - intros f q Hin. apply Hall. right. exact Hin. }
  destruct (G _ CInv_init Hall) as (_ & H1 & H2 & _). split; assumption.
Qed.

(* a file that does not fit in 65535 blocks is never reported complete *)
Theorem no_wrap tid ds :
  65535 * B <= N.of_nat (length F) ->
  (forall from p, In (from, p) ds -> from = tid -> sound p) ->
  c_finished (client_run tid client_init ds) = false /\
  c_expect (client_run tid client_init ds) <= 65536.
Proof.
  intros Hbig Hall.
  assert (G : forall c, CInv c -> c_finished c = false -> c_expect c <= 65536 ->
              (forall from p, In (from, p) ds -> from = tid -> sound p) ->
              c_finished (client_run tid c ds) = false /\ c_expect (client_run tid c ds) <= 65536).
  { clear Hall. induction ds as [|[from p] r IH]; intros c HC Hf He Hall; [auto|].
    cbn [client_run].
    assert (Hs : from = tid -> sound p) by (apply Hall; left; reflexivity).
    pose proof (client_step_inv tid c from p HC Hs) as HC'.
    assert (X : c_finished (client_step B tid c from p) = false /\ c_expect (client_step B tid c from p) <= 65536).
    { unfold client_step. rewrite Hf.
      destruct (N.eqb_spec from tid) as [E|E]; cbn [negb]; [|auto].
      destruct p as [f m o|f m o|k d|k|c0 m|o]; auto. destruct (N.eqb_spec k (c_expect c)) as [Ek|Ek]; [|auto].
      cbn [c_finished c_expect]. destruct (Hs E) as (Hk & -> & Hstart). subst k. split; [|lia].
      apply N.ltb_ge. rewrite slice_len.
      assert (X1 : c_expect c * B <= 65535 * B) by (apply N.mul_le_mono_r; lia).
      assert (X2 : (N.to_nat (c_expect c) * Bn <= length F)%nat) by (unfold Bn; rewrite <- N2Nat.inj_mul; lia).
      pose proof (mul_pred (N.to_nat (c_expect c)) Bn ltac:(lia)) as X3.
      assert (HBn : Bn = N.to_nat B) by reflexivity. lia. }
    destruct X as (X1 & X2). apply IH; auto. intros f q Hin. apply Hall. right. exact Hin. }
  apply G; [apply CInv_init|reflexivity|cbn; lia|exact Hall].
Qed.

End Octet.

(* ---------- the reply to ACK 65535 when another block would be needed ---------- *)
Theorem no_wrap_error st d st2 :
  get_block 65536 (ack 65535 st) = Ok (d, st2) ->
  do_ACK 65535 st = (set_done st2, Some (handle_exn ValueError)).
Proof. intros H. unfold do_ACK. change (65535 + 1) with 65536. rewrite H. reflexivity. Qed.

(* ---------- a freshly accepted octet request satisfies the invariant ---------- *)
Lemma filter_nil_negotiate st fl :
  negotiate [] fl st =
  (if ((Z.of_N tftp_min_timeout_ns <=? ts_timeout st) && (ts_timeout st <=? Z.of_N tftp_max_timeout_ns))%Z
   then Ok ([], set_neg st (ts_block_size st) (ts_timeout st)) else Err BadOptions).
Proof. reflexivity. Qed.
