(* C08: what negotiate acknowledges and what the transfer then uses. *)
From Coq Require Import List NArith ZArith Bool Lia Arith ZifyN ZifyNat ZifyBool.
From NV Require Import Lib.Res Lib.PyInt Gen.Tftp Tftp.Packet Tftp.PacketProofs Tftp.Transfer
     Tftp.TransferProofs Netascii.Model.
Import ListNotations.
Open Scope N_scope.

Definition keys (o : options) : list str := map fst o.

(* ---- small dictionary lemmas ---- *)
Lemma keys_dict_set_present k v o :
  in_strs k (keys o) = true -> keys (dict_set k v o) = keys o.
Proof.
  unfold keys. induction o as [|[k' v'] r IH]; cbn; [discriminate|].
  destruct (list_eqb_N k k') eqn:E; cbn.
  - intros _. apply list_eqb_N_eq in E. subst. reflexivity.
  - intros H. rewrite IH; [reflexivity|exact H].
Qed.

Lemma opt_get_in k o v : opt_get k o = Some v -> in_strs k (keys o) = true.
Proof.
  unfold keys. induction o as [|[k' v'] r IH]; cbn; [discriminate|].
  destruct (list_eqb_N k k'); cbn; [reflexivity|exact IH].
Qed.

Lemma opt_get_dict_set_same k v o : opt_get k (dict_set k v o) = Some v.
Proof.
  induction o as [|[k' v'] r IH]; cbn; [rewrite list_eqb_N_refl; reflexivity|].
  destruct (list_eqb_N k k') eqn:E; cbn; [rewrite list_eqb_N_refl; reflexivity|rewrite E; exact IH].
Qed.

Lemma opt_get_dict_set_other k k2 v o :
  list_eqb_N k2 k = false -> opt_get k2 (dict_set k v o) = opt_get k2 o.
Proof.
  intros H. induction o as [|[k' v'] r IH]; cbn; [rewrite H; reflexivity|].
  destruct (list_eqb_N k k') eqn:E; cbn.
  - apply list_eqb_N_eq in E. subst k'. rewrite H. reflexivity.
  - destruct (list_eqb_N k2 k'); [reflexivity|exact IH].
Qed.

Lemma opt_get_opt_del_other k k2 o :
  list_eqb_N k2 k = false -> opt_get k2 (opt_del k o) = opt_get k2 o.
Proof.
  intros H. induction o as [|[k' v'] r IH]; cbn; [reflexivity|].
  destruct (list_eqb_N k k') eqn:E; cbn.
  - apply list_eqb_N_eq in E. subst k'. rewrite H. reflexivity.
  - destruct (list_eqb_N k2 k'); [reflexivity|exact IH].
Qed.

(* sub-list relation: order preserving selection *)
Inductive sublist {A} : list A -> list A -> Prop :=
| sub_nil : sublist [] []
| sub_keep x a b : sublist a b -> sublist (x :: a) (x :: b)
| sub_skip x a b : sublist a b -> sublist a (x :: b).
Lemma sublist_refl {A} (l : list A) : sublist l l.
Proof. induction l; constructor; assumption. Qed.
Lemma sublist_trans {A} (a b c : list A) : sublist a b -> sublist b c -> sublist a c.
Proof.
  intros H1 H2. revert a H1. induction H2; intros a' H1.
  - exact H1.
  - inversion H1; subst; constructor; auto.
  - constructor. auto.
Qed.
Lemma sublist_filter {A} f (l : list A) : sublist (filter f l) l.
Proof. induction l as [|x l IH]; cbn; [constructor|]. destruct (f x); constructor; exact IH. Qed.
Lemma sublist_map {A B} (f : A -> B) a b : sublist a b -> sublist (map f a) (map f b).
Proof. induction 1; cbn; constructor; assumption. Qed.
Lemma sublist_opt_del k o : sublist (keys (opt_del k o)) (keys o).
Proof.
  unfold keys. induction o as [|[k' v'] r IH]; cbn; [constructor|].
  destruct (list_eqb_N k k'); cbn; [constructor; apply sublist_refl|constructor; exact IH].
Qed.
Lemma sublist_In {A} (a b : list A) x : sublist a b -> In x a -> In x b.
Proof. induction 1; cbn; intros H0; auto. destruct H0; auto. Qed.

Lemma keys_filter o f : keys (filter (fun kv => f (fst kv)) o) = filter f (keys o).
Proof. unfold keys. induction o as [|[k v] r IH]; cbn; [reflexivity|]. destruct (f k); cbn; rewrite IH; reflexivity. Qed.

(* ---- negotiate, stage by stage ---- *)
Definition o0_of (o : options) : options := filter (fun kv => in_strs (fst kv) tftp_options) o.

Lemma neg_blk_spec o0 st x1 :
  neg_blk o0 st = Ok x1 ->
  keys (fst x1) = keys o0 /\
  match opt_get tftp_blksize_name o0 with
  | None => snd x1 = ts_block_size st /\ fst x1 = o0
  | Some v => exists z, int_of_oval v = Ok z /\
                snd x1 = Z.to_N (Z.min (Z.of_N tftp_max_blksize) z) /\
                tftp_min_blksize <= snd x1 <= tftp_max_blksize /\
                opt_get tftp_blksize_name (fst x1) = Some (OInt (Z.of_N (snd x1)))
  end.
Proof.
  unfold neg_blk. destruct (opt_get tftp_blksize_name o0) as [v|] eqn:E.
  - destruct (int_of_oval v) as [z|e]; cbn [bind]; [|discriminate].
    destruct (Z.ltb_spec (Z.min (Z.of_N tftp_max_blksize) z) (Z.of_N tftp_min_blksize)) as [Hlt|Hge]; [discriminate|].
    intros H; injection H as <-. cbn [fst snd]. split.
    + apply keys_dict_set_present. eapply opt_get_in; exact E.
    + exists z. split; [reflexivity|]. split; [reflexivity|]. split.
      * unfold tftp_min_blksize, tftp_max_blksize in *. lia.
      * rewrite opt_get_dict_set_same. f_equal. f_equal. unfold tftp_min_blksize, tftp_max_blksize in *. lia.
  - intros H; injection H as <-. cbn [fst snd]. auto.
Qed.

Lemma neg_tsize_keys o1 st : sublist (keys (neg_tsize o1 st)) (keys o1).
Proof.
  unfold neg_tsize. destruct (opt_get tftp_tsize_name o1) eqn:E; [|apply sublist_refl].
  destruct (ts_size st); [rewrite keys_dict_set_present; [apply sublist_refl|eapply opt_get_in; exact E]|apply sublist_opt_del].
Qed.

Lemma neg_tsize_blk o1 st : opt_get tftp_blksize_name (neg_tsize o1 st) = opt_get tftp_blksize_name o1.
Proof.
  unfold neg_tsize. destruct (opt_get tftp_tsize_name o1); [|reflexivity].
  destruct (ts_size st); [apply opt_get_dict_set_other|apply opt_get_opt_del_other]; reflexivity.
Qed.

Lemma neg_utimeout_spec o2 t1 x3 :
  neg_utimeout o2 t1 = Ok x3 ->
  sublist (keys (fst x3)) (keys o2) /\
  (forall k, list_eqb_N k tftp_timeout_name = false -> opt_get k (fst x3) = opt_get k o2).
Proof.
  unfold neg_utimeout. destruct (opt_get tftp_utimeout_name o2) as [v|].
  - destruct (int_of_oval v); cbn [bind]; [|discriminate]. intros H; injection H as <-. cbn [fst].
    split; [apply sublist_opt_del|]. intros k Hk. apply opt_get_opt_del_other. exact Hk.
  - intros H; injection H as <-. cbn [fst]. split; [apply sublist_refl|reflexivity].
Qed.

Ltac neg_destruct H :=
  unfold negotiate in H; cbn zeta in H;
  match type of H with context [neg_blk ?a ?b] => destruct (neg_blk a b) as [x1|?] eqn:E1; cbn [bind] in H; [|discriminate] end;
  match type of H with context [neg_timeout ?a ?b ?c] => destruct (neg_timeout a b c) as [t1|?] eqn:E2; cbn [bind] in H; [|discriminate] end;
  match type of H with context [neg_utimeout ?a ?b] => destruct (neg_utimeout a b) as [x3|?] eqn:E3; cbn [bind] in H; [|discriminate] end;
  match type of H with context [in_range_timeout ?a] => destruct (in_range_timeout a) eqn:E4; [|discriminate] end;
  injection H as <- <-.

(* what negotiate does to the state: only block size and timeout *)
Theorem negotiate_state o fl st o' st' :
  negotiate o fl st = Ok (o', st') ->
  exists bs t, st' = set_neg st bs t /\ in_range_timeout t = true /\
    match opt_get tftp_blksize_name (o0_of o) with
    | None => bs = ts_block_size st
    | Some v => exists z, int_of_oval v = Ok z /\
                  bs = Z.to_N (Z.min (Z.of_N tftp_max_blksize) z) /\
                  tftp_min_blksize <= bs <= tftp_max_blksize /\
                  opt_get tftp_blksize_name o' = Some (OInt (Z.of_N bs))
    end.
Proof.
  intros H. neg_destruct H.
  exists (snd x1), (snd x3). split; [reflexivity|]. split; [exact E4|].
  destruct (neg_blk_spec _ _ _ E1) as (_ & Hb). fold (o0_of o) in Hb.
  destruct (opt_get tftp_blksize_name (o0_of o)); [|apply Hb].
  destruct Hb as (z & Hz & Hbs & Hr & Hg). exists z. repeat split; auto; try apply Hr.
  destruct (neg_utimeout_spec _ _ _ E3) as (_ & Hk). rewrite Hk by reflexivity.
  rewrite neg_tsize_blk. exact Hg.
Qed.

(* acknowledged names: a selection, in the client's order, of the supported
   names the client sent; nothing else can appear *)
Theorem negotiate_names o fl st o' st' :
  negotiate o fl st = Ok (o', st') ->
  sublist (keys o') (filter (fun k => in_strs k tftp_options) (keys o)).
Proof.
  intros H. neg_destruct H.
  rewrite <- (keys_filter o (fun k => in_strs k tftp_options)).
  destruct (neg_blk_spec _ _ _ E1) as (Hk1 & _). rewrite <- Hk1.
  eapply sublist_trans; [apply (neg_utimeout_spec _ _ _ E3)|apply neg_tsize_keys].
Qed.

(* tsize, when acknowledged, is the exact size *)
Theorem negotiate_tsize_exact o fl st o' st' v sz :
  negotiate o fl st = Ok (o', st') -> ts_size st = Some sz ->
  opt_get tftp_tsize_name o' = Some v -> v = OInt (Z.of_N sz).
Proof.
  intros H Hsz. neg_destruct H.
  destruct (neg_utimeout_spec _ _ _ E3) as (_ & Hk). rewrite Hk by reflexivity.
  unfold neg_tsize. rewrite Hsz. destruct (opt_get tftp_tsize_name (fst x1)) eqn:E; [|congruence].
  rewrite opt_get_dict_set_same. intros X; injection X as <-. reflexivity.
Qed.

(* with utimeout present, timeout is not acknowledged (dict keys are unique) *)
Theorem negotiate_timeout_range o fl st o' st' :
  negotiate o fl st = Ok (o', st') ->
  (Z.of_N tftp_min_timeout_ns <= ts_timeout st' <= Z.of_N tftp_max_timeout_ns)%Z.
Proof.
  intros H. destruct (negotiate_state _ _ _ _ _ H) as (bs & t & -> & Hr & _).
  cbn [ts_timeout set_neg]. unfold in_range_timeout in Hr. lia.
Qed.

(* no option survives  =>  the first reply is DATA 1 with up to 512 bytes, and a
   refused negotiation never starts a transfer *)
Theorem no_option_data1 resolve addr f m fl now content :
  resolve f = RFile content -> list_eqb_N m tftp_netascii_name = false ->
  do_RRQ resolve addr f m [] fl now =
  Started (set_send (set_blocks (set_src (set_neg (new_state addr content m now) tftp_def_blksize (Z.of_N tftp_def_timeout_ns))
                                         (SOctet (skipn (N.to_nat tftp_def_blksize) content)))
                                [(1, firstn (N.to_nat tftp_def_blksize) content)] 1) now)
          (DATA 1 (firstn (N.to_nat tftp_def_blksize) content)).
Proof.
  intros Hr Hm. unfold do_RRQ. rewrite Hr. unfold new_state. rewrite Hm. reflexivity.
Qed.

Theorem bad_options_refused resolve addr f m o fl now content e :
  resolve f = RFile content -> negotiate o fl (new_state addr content m now) = Err e ->
  exists p, do_RRQ resolve addr f m o fl now = Refused p.
Proof.
  intros Hr Hn. unfold do_RRQ. rewrite Hr, Hn. destruct e; eexists; reflexivity.
Qed.

(* an accepted octet request starts in a state satisfying the transfer invariant
   of C01 for the negotiated block size, and its first packet is sound *)
Theorem accepted_request_inv resolve addr f m o fl now content st p :
  resolve f = RFile content -> list_eqb_N m tftp_netascii_name = false ->
  do_RRQ resolve addr f m o fl now = Started st p ->
  1 <= ts_block_size st /\ Inv content (ts_block_size st) st /\ sound content (ts_block_size st) p.
Proof.
  intros Hr Hm. unfold do_RRQ. rewrite Hr.
  destruct (negotiate o fl (new_state addr content m now)) as [[o' st1]|e] eqn:En;
    [|destruct e; discriminate].
  destruct (negotiate_state _ _ _ _ _ En) as (bs & t & -> & _ & Hbs).
  assert (Hb : 1 <= bs).
  { destruct (opt_get tftp_blksize_name (o0_of o)); [destruct Hbs as (z & _ & _ & Hrange & _); unfold tftp_min_blksize in Hrange; lia|].
    subst bs. unfold new_state; cbn. unfold tftp_def_blksize. lia. }
  assert (I0 : Inv content bs (set_neg (new_state addr content m now) bs t)).
  { unfold Inv, new_state. rewrite Hm. cbn. repeat split; auto; try lia; try discriminate. }
  destruct o' as [|kv o''].
  - pose proof (get_block_spec content bs Hb _ 1 I0 (fun _ => eq_refl)) as G.
    unfold new_state in *. rewrite Hm in *.
    destruct (get_block 1 _) as [[d st2]|e]; [|destruct e; discriminate].
    destruct G as (HI2 & Hd & Hle & _).
    destruct (mk_DATA 1 d) as [q|e] eqn:Em; [|destruct e; discriminate].
    intros H. injection H as <- <-.
    destruct (mk_DATA_ok _ Hb _ _ _ Em) as (-> & Hk).
    assert (Hbs2 : ts_block_size st2 = bs) by (destruct HI2 as (X & _); exact X).
    cbn [ts_block_size set_send]. rewrite Hbs2. split; [exact Hb|]. split; [apply Inv_send; exact HI2|].
    cbn [sound]. auto.
  - intros H. injection H as <- <-. cbn [ts_block_size set_send set_neg]. split; [exact Hb|].
    split; [apply Inv_send; exact I0|exact I].
Qed.
