(* Model of nobodd/tftpd.py: TFTPClientState, TFTPSubHandler/TFTPSubServer
   (one transfer), TFTPBaseHandler.do_RRQ and the listening handler, and the
   TFTPSubServers registry.  Executable definitions only. *)
From Coq Require Import List NArith ZArith Bool.
From NV Require Import Lib.Res Lib.PyInt Gen.Tftp Tftp.Packet Netascii.Model.
Import ListNotations.
Open Scope N_scope.

Inductive source :=
| SOctet (rest : bytes)                 (* unread part of the file *)
| SNet (x : xstate).                    (* BufferedTranscoder over the file *)

Record tstate := {
  ts_addr : N;                          (* client (host, port), abstractly *)
  ts_src : source;
  ts_size : option N;                   (* what get_size() returns, None = OSError *)
  ts_blocks : list (N * bytes);         (* insertion-ordered dict *)
  ts_blocks_read : N;
  ts_block_size : N;
  ts_last_ack : option N;
  ts_timeout : Z;
  ts_last_recv : Z;
  ts_last_send : option Z;
  ts_done : bool;
  ts_dead : bool                        (* serve_forever left by an exception *)
}.

Definition set_blocks st b r :=
  {| ts_addr := ts_addr st; ts_src := ts_src st; ts_size := ts_size st; ts_blocks := b;
     ts_blocks_read := r; ts_block_size := ts_block_size st; ts_last_ack := ts_last_ack st;
     ts_timeout := ts_timeout st; ts_last_recv := ts_last_recv st;
     ts_last_send := ts_last_send st; ts_done := ts_done st; ts_dead := ts_dead st |}.
Definition set_src st s :=
  {| ts_addr := ts_addr st; ts_src := s; ts_size := ts_size st; ts_blocks := ts_blocks st;
     ts_blocks_read := ts_blocks_read st; ts_block_size := ts_block_size st;
     ts_last_ack := ts_last_ack st; ts_timeout := ts_timeout st; ts_last_recv := ts_last_recv st;
     ts_last_send := ts_last_send st; ts_done := ts_done st; ts_dead := ts_dead st |}.
Definition set_ack st b a :=
  {| ts_addr := ts_addr st; ts_src := ts_src st; ts_size := ts_size st; ts_blocks := b;
     ts_blocks_read := ts_blocks_read st; ts_block_size := ts_block_size st; ts_last_ack := a;
     ts_timeout := ts_timeout st; ts_last_recv := ts_last_recv st;
     ts_last_send := ts_last_send st; ts_done := ts_done st; ts_dead := ts_dead st |}.
Definition set_recv st t :=
  {| ts_addr := ts_addr st; ts_src := ts_src st; ts_size := ts_size st; ts_blocks := ts_blocks st;
     ts_blocks_read := ts_blocks_read st; ts_block_size := ts_block_size st;
     ts_last_ack := ts_last_ack st; ts_timeout := ts_timeout st; ts_last_recv := t;
     ts_last_send := ts_last_send st; ts_done := ts_done st; ts_dead := ts_dead st |}.
Definition set_send st t :=
  {| ts_addr := ts_addr st; ts_src := ts_src st; ts_size := ts_size st; ts_blocks := ts_blocks st;
     ts_blocks_read := ts_blocks_read st; ts_block_size := ts_block_size st;
     ts_last_ack := ts_last_ack st; ts_timeout := ts_timeout st; ts_last_recv := ts_last_recv st;
     ts_last_send := Some t; ts_done := ts_done st; ts_dead := ts_dead st |}.
Definition set_done st :=
  {| ts_addr := ts_addr st; ts_src := ts_src st; ts_size := ts_size st; ts_blocks := ts_blocks st;
     ts_blocks_read := ts_blocks_read st; ts_block_size := ts_block_size st;
     ts_last_ack := ts_last_ack st; ts_timeout := ts_timeout st; ts_last_recv := ts_last_recv st;
     ts_last_send := ts_last_send st; ts_done := true; ts_dead := ts_dead st |}.
Definition set_dead st :=
  {| ts_addr := ts_addr st; ts_src := ts_src st; ts_size := ts_size st; ts_blocks := ts_blocks st;
     ts_blocks_read := ts_blocks_read st; ts_block_size := ts_block_size st;
     ts_last_ack := ts_last_ack st; ts_timeout := ts_timeout st; ts_last_recv := ts_last_recv st;
     ts_last_send := ts_last_send st; ts_done := ts_done st; ts_dead := true |}.
Definition set_neg st bs to :=
  {| ts_addr := ts_addr st; ts_src := ts_src st; ts_size := ts_size st; ts_blocks := ts_blocks st;
     ts_blocks_read := ts_blocks_read st; ts_block_size := bs;
     ts_last_ack := ts_last_ack st; ts_timeout := to; ts_last_recv := ts_last_recv st;
     ts_last_send := ts_last_send st; ts_done := ts_done st; ts_dead := ts_dead st |}.

(* source.read(n) *)
Definition src_read (n : N) (s : source) : res (bytes * source) :=
  match s with
  | SOctet rest => Ok (firstn (N.to_nat n) rest, SOctet (skipn (N.to_nat n) rest))
  | SNet x => do r <- xreadinto (N.to_nat n) x; Ok (fst r, SNet (snd r))
  end.

Fixpoint blk_lookup (n : N) (b : list (N * bytes)) : option bytes :=
  match b with
  | [] => None
  | (k, d) :: r => if k =? n then Some d else blk_lookup n r
  end.
Fixpoint blk_remove (n : N) (b : list (N * bytes)) : list (N * bytes) :=
  match b with
  | [] => []
  | (k, d) :: r => if k =? n then r else (k, d) :: blk_remove n r
  end.
Fixpoint blk_set (n : N) (d : bytes) (b : list (N * bytes)) : list (N * bytes) :=
  match b with
  | [] => [(n, d)]
  | (k, d') :: r => if k =? n then (k, d) :: r else (k, d') :: blk_set n d r
  end.

(* TFTPClientState.finished -- comparison regenerated from the source *)
Definition finished (st : tstate) : bool :=
  match ts_last_ack st with
  | None => false
  | Some s => gen_finished_cmp s (ts_block_size st)
  end.

(* TFTPClientState.ack *)
Definition ack (n : N) (st : tstate) : tstate :=
  match blk_lookup n (ts_blocks st) with
  | Some d => set_ack st (blk_remove n (ts_blocks st)) (Some (N.of_nat (length d)))
  | None => st
  end.

(* TFTPClientState.get_block: the state is returned also on failure (it may
   have been mutated before the failure only in the read case, which cannot fail
   after mutation) *)
Definition get_block (n : N) (st : tstate) : res (bytes * tstate) :=
  if gen_next_block_cmp (ts_blocks_read st) n then
    if finished st then Err TransferDone
    else
      do r <- src_read (ts_block_size st) (ts_src st);
      let st1 := set_src st (snd r) in
      Ok (fst r, set_blocks st1 (blk_set n (fst r) (ts_blocks st1)) (ts_blocks_read st1 + 1))
  else
    match blk_lookup n (ts_blocks st) with
    | Some d => Ok (d, st)
    | None => if gen_already_acked_cmp n (ts_blocks_read st) then Err AlreadyAcked else Err ValueError
    end.

(* canonical message tags for generated ERROR packets *)
Definition s_invalid_request : str := [73;110;118;97;108;105;100;32;114;101;113;117;101;115;116].
Definition s_unsupported : str := [85;110;115;117;112;112;111;114;116;101;100;32;111;112;101;114;97;116;105;111;110].
Definition s_server_error : str := [83;101;114;118;101;114;32;101;114;114;111;114].
Definition s_oserror : str := [60;111;115;101;114;114;111;114;62].
Definition s_silly_block : str := [115;105;108;108;121;32;98;108;111;99;107;32;115;105;122;101].
Definition s_silly_timeout : str := [115;105;108;108;121;32;116;105;109;101;111;117;116].

(* the except-ladder of TFTPHandler.handle applied to an exception *)
Definition handle_exn (e : exn) : packet :=
  match e with
  | AttributeError => ERROR err_UNDEFINED s_unsupported
  | ValueError | UnicodeDecodeError | UnicodeEncodeError | UnicodeError | BadOptions | AlreadyAcked =>
      ERROR err_UNDEFINED s_invalid_request
  | _ => ERROR err_UNDEFINED s_server_error
  end.

(* TFTPSubHandler.do_ACK *)
Definition do_ACK (b : N) (st : tstate) : tstate * option packet :=
  let st1 := ack b st in
  match get_block (b + 1) st1 with
  | Ok (d, st2) =>
    match mk_DATA (b + 1) d with
    | Ok p => (st2, Some p)
    | Err e => (set_done st2, Some (handle_exn e))
    end
  | Err AlreadyAcked => (st1, None)
  | Err TransferDone => (set_done st1, None)
  | Err e => (set_done st1, Some (handle_exn e))
  end.

(* TFTPSubHandler.handle + finish, for a datagram from [src] at time [now] *)
Definition sub_handle (st : tstate) (src : N) (dgram : bytes) (now : Z)
  : tstate * option packet :=
  if ts_dead st then (st, None)
  else if negb (src =? ts_addr st) then (st, None)
  else
    let st1 := set_recv st now in
    let r :=
      match parse dgram with
      | Ok (ACK b) => do_ACK b st1
      | Ok (ERROR _ _) => (set_done st1, None)
      | Ok _ => (st1, Some (handle_exn AttributeError))
      | Err e => (st1, Some (handle_exn e))
      end in
    match snd r with
    | Some p => (set_send (fst r) now, Some p)
    | None => r
    end.

(* TFTPSubServer.service_actions at time [now]: datagrams re-sent *)
Fixpoint resend (b : list (N * bytes)) : list packet * bool :=
  match b with
  | [] => ([], true)
  | (k, d) :: r =>
    match mk_DATA k d with
    | Ok p => let x := resend r in (p :: fst x, snd x)
    | Err _ => ([], false)
    end
  end.

Definition tick (st : tstate) (now : Z) : tstate * list packet :=
  if ts_dead st then (st, [])
  else if gen_tick_recv_cmp now (ts_last_recv st) (ts_timeout st) then
    match ts_last_send st with
    | None => (set_done st, [])
    | Some ls =>
      if gen_tick_giveup_cmp ls (ts_last_recv st) (ts_timeout st) then (set_done st, [])
      else if gen_tick_resend_cmp now ls (ts_timeout st) then
        let x := resend (ts_blocks st) in
        if snd x then (set_send st now, fst x) else (set_dead st, fst x)
      else (st, [])
    end
  else (st, []).

(* ---- option negotiation ---- *)
Definition in_strs (k : str) (l : list str) : bool := existsb (list_eqb_N k) l.
Fixpoint opt_get (k : str) (o : options) : option oval :=
  match o with
  | [] => None
  | (k', v) :: r => if list_eqb_N k k' then Some v else opt_get k r
  end.
Fixpoint opt_del (k : str) (o : options) : options :=
  match o with
  | [] => []
  | (k', v) :: r => if list_eqb_N k k' then r else (k', v) :: opt_del k r
  end.

Definition int_of_oval (v : oval) : res Z :=
  match v with
  | OInt z => Ok z
  | OStr s => match py_int s with Some z => Ok z | None => Err ValueError end
  end.

(* [fl] = what int(float(v) * 1_000_000_000) gives for the timeout string in
   CPython (supplied by the caller: float parsing is not modelled) *)
Definition neg_blk (o0 : options) (st : tstate) : res (options * N) :=
  match opt_get tftp_blksize_name o0 with
  | None => Ok (o0, ts_block_size st)
  | Some v =>
    do z <- int_of_oval v;
    let bs := Z.min (Z.of_N tftp_max_blksize) z in
    if (bs <? Z.of_N tftp_min_blksize)%Z then Err BadOptions
    else Ok (dict_set tftp_blksize_name (OInt bs) o0, Z.to_N bs)
  end.
Definition neg_tsize (o1 : options) (st : tstate) : options :=
  match opt_get tftp_tsize_name o1 with
  | None => o1
  | Some _ => match ts_size st with
              | Some sz => dict_set tftp_tsize_name (OInt (Z.of_N sz)) o1
              | None => opt_del tftp_tsize_name o1
              end
  end.
Definition neg_timeout (o2 : options) (fl : res Z) (st : tstate) : res Z :=
  match opt_get tftp_timeout_name o2 with
  | None => Ok (ts_timeout st)
  | Some v =>
    match int_of_oval v with
    | Ok z => Ok (z * 1000000000)%Z
    | Err _ => fl
    end
  end.
Definition neg_utimeout (o2 : options) (t1 : Z) : res (options * Z) :=
  match opt_get tftp_utimeout_name o2 with
  | None => Ok (o2, t1)
  | Some v => do z <- int_of_oval v; Ok (opt_del tftp_timeout_name o2, (z * 1000)%Z)
  end.
Definition in_range_timeout (t : Z) : bool :=
  ((Z.of_N tftp_min_timeout_ns <=? t) && (t <=? Z.of_N tftp_max_timeout_ns))%Z.

Definition negotiate (o : options) (fl : res Z) (st : tstate) : res (options * tstate) :=
  let o0 := filter (fun kv => in_strs (fst kv) tftp_options) o in
  do x1 <- neg_blk o0 st;
  let o2 := neg_tsize (fst x1) st in
  do t1 <- neg_timeout o2 fl st;
  do x3 <- neg_utimeout o2 t1;
  if in_range_timeout (snd x3) then Ok (fst x3, set_neg st (snd x1) (snd x3))
  else Err BadOptions.

(* ---- the listening handler ---- *)
Inductive resolved := RFile (content : bytes) | RErr (e : exn).

Definition new_state (addr : N) (content : bytes) (mode : str) (now : Z) : tstate :=
  let net := list_eqb_N mode tftp_netascii_name in
  {| ts_addr := addr;
     ts_src := if net then SNet {| xsrc := content; xbuf := [] |} else SOctet content;
     ts_size := if net then None else Some (N.of_nat (length content));
     ts_blocks := []; ts_blocks_read := 0; ts_block_size := tftp_def_blksize;
     ts_last_ack := None; ts_timeout := Z.of_N tftp_def_timeout_ns;
     ts_last_recv := now; ts_last_send := None; ts_done := false; ts_dead := false |}.

Inductive rrq_result :=
| Started (st : tstate) (first : packet)      (* sent from the new transfer's port *)
| Refused (reply : packet).

Definition do_RRQ (resolve : str -> resolved) (addr : N) (f m : str) (o : options)
           (fl : res Z) (now : Z) : rrq_result :=
  match resolve f with
  | RErr PermissionErr =>
      Refused (ERROR err_NOT_AUTH (match default_message err_NOT_AUTH with Some s => s | None => [] end))
  | RErr FileNotFound =>
      Refused (ERROR err_NOT_FOUND (match default_message err_NOT_FOUND with Some s => s | None => [] end))
  | RErr (OSError_Other | IsADirectory | NotADirectory | OSError_ENOSPC | FileExists | NotEmpty) =>
      Refused (ERROR err_UNDEFINED s_oserror)
  | RErr e => Refused (handle_exn e)
  | RFile content =>
    let st0 := new_state addr content m now in
    match negotiate o fl st0 with
    | Err BadOptions => Refused (ERROR err_INVALID_OPT s_silly_block)
    | Err e => Refused (handle_exn e)
    | Ok (o', st1) =>
      match o' with
      | _ :: _ => Started (set_send st1 now) (OACK o')
      | [] =>
        match get_block 1 st1 with
        | Ok (d, st2) =>
          match mk_DATA 1 d with
          | Ok p => Started (set_send st2 now) p
          | Err e => Refused (handle_exn e)
          end
        | Err e => Refused (handle_exn e)
        end
      end
    end
  end.

Inductive main_result :=
| MNone                                       (* nothing sent, nothing started *)
| MReply (p : packet)                         (* sent from the listening port *)
| MStart (st : tstate) (first : packet).

Definition main_handle (resolve : str -> resolved) (src : N) (dgram : bytes)
           (fl : res Z) (now : Z) : main_result :=
  match parse dgram with
  | Ok (RRQ f m o) =>
    match do_RRQ resolve src f m o fl now with
    | Started st p => MStart st p
    | Refused p => MReply p
    end
  | Ok (ERROR _ _) => MNone
  | Ok _ => MReply (handle_exn AttributeError)
  | Err e => MReply (handle_exn e)
  end.

(* ---- registry of running transfers (TFTPSubServers) ---- *)
Definition registry := list (N * tstate).      (* tid -> transfer *)
Definition reg_add (tid : N) (st : tstate) (r : registry) : registry :=
  (tid, st) :: filter (fun x => negb (fst x =? tid)) r.
Definition reap (r : registry) : registry := filter (fun x => negb (ts_done (snd x))) r.
Definition close_all (r : registry) : registry := [].
Fixpoint reg_update (tid : N) (f : tstate -> tstate) (r : registry) : registry :=
  match r with
  | [] => []
  | (t, st) :: r' => if t =? tid then (t, f st) :: r' else (t, st) :: reg_update tid f r'
  end.

(* ---- an RFC 1350 receiving client (specification side) ---- *)
Record client := { c_expect : N; c_buf : bytes; c_finished : bool }.
Definition client_init : client := {| c_expect := 1; c_buf := []; c_finished := false |}.
(* a datagram [p] arriving from TID [from]; the client is locked to [server_tid] *)
Definition client_step (B : N) (server_tid : N) (c : client) (from : N) (p : packet) : client :=
  if c_finished c then c
  else if negb (from =? server_tid) then c
  else match p with
       | DATA k d =>
         if k =? c_expect c then
           {| c_expect := c_expect c + 1; c_buf := c_buf c ++ d;
              c_finished := N.of_nat (length d) <? B |}
         else c
       | _ => c
       end.
