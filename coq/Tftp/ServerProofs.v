(* C05 / C07 / C09: replies are well-formed, garbage is inert, transfers are
   independent, timeouts abandon, the reaper releases. *)
From Coq Require Import List NArith ZArith Bool Lia Arith ZifyN ZifyNat ZifyBool.
From NV Require Import Lib.Res Lib.PyInt Gen.Tftp Tftp.Packet Tftp.PacketProofs Tftp.Transfer Netascii.Model.
Import ListNotations.
Open Scope N_scope.

(* ================= C05: well-formed replies ================= *)

(* what a server may send: DATA with a legal block number, or an ERROR with a
   known code and an ASCII message -- both always serialisable *)
Definition wf_server_reply (p : packet) : Prop :=
  match p with
  | DATA k _ => 1 <= k <= 65535
  | ERROR c m => existsb (N.eqb c) error_codes = true /\ all_lt 128 m = true
  | _ => False
  end.

Lemma wf_reply_serialises p : wf_server_reply p -> exists b, serialize p = Ok b.
Proof.
  destruct p; cbn [wf_server_reply]; try contradiction.
  - intros _. eexists. reflexivity.
  - intros (_ & H). cbn [serialize]. unfold enc_ascii. rewrite H. eexists. reflexivity.
Qed.

Lemma handle_exn_wf e : wf_server_reply (handle_exn e).
Proof. destruct e; cbn; split; reflexivity. Qed.

Ltac hwf := first [apply handle_exn_wf | (split; reflexivity) | (cbn; split; reflexivity)].

Lemma mk_DATA_wf k d p : mk_DATA k d = Ok p -> wf_server_reply p.
Proof.
  unfold mk_DATA, data_block_min, data_block_max.
  destruct ((1 <=? k) && (k <=? 65535)) eqn:E; [|discriminate].
  intros H; inversion H; subst. cbn. lia.
Qed.

Lemma do_ACK_wf b st p : snd (do_ACK b st) = Some p -> wf_server_reply p.
Proof.
  unfold do_ACK. destruct (get_block (b + 1) (ack b st)) as [[d st2]|e].
  - destruct (mk_DATA (b + 1) d) as [q|e] eqn:Em; cbn [snd]; intros H; injection H as <-.
    + eapply mk_DATA_wf; exact Em.
    + hwf.
  - destruct e; cbn [snd]; intros H; try discriminate; injection H as <-; hwf.
Qed.

(* every reply on a transfer port, for every state, datagram and source *)
Theorem sub_reply_wellformed st src d now p :
  snd (sub_handle st src d now) = Some p -> wf_server_reply p.
Proof.
  unfold sub_handle. destruct (ts_dead st); [discriminate|].
  destruct (negb (src =? ts_addr st)); [discriminate|].
  set (r := match parse d with
            | Ok (ACK b) => do_ACK b (set_recv st now)
            | Ok (ERROR _ _) => (set_done (set_recv st now), None)
            | Ok _ => (set_recv st now, Some (handle_exn AttributeError))
            | Err e => (set_recv st now, Some (handle_exn e))
            end).
  assert (Hr : forall q, snd r = Some q -> wf_server_reply q).
  { unfold r. destruct (parse d) as [q|e].
    - destruct q; cbn [snd]; intros q' H; try (injection H as <-; hwf); try discriminate.
      eapply do_ACK_wf; exact H.
    - cbn [snd]. intros q' H. injection H as <-. hwf. }
  destruct (snd r) as [q|] eqn:Es; cbn [snd]; intros H.
  - injection H as <-. apply Hr. reflexivity.
  - rewrite Es in H. discriminate.
Qed.

Theorem tick_reply_wellformed st now p : In p (snd (tick st now)) -> wf_server_reply p.
Proof.
  unfold tick. destruct (ts_dead st); [intros []|].
  destruct (gen_tick_recv_cmp now (ts_last_recv st) (ts_timeout st)); [|intros []].
  destruct (ts_last_send st) as [ls|]; [|intros []].
  destruct (gen_tick_giveup_cmp ls (ts_last_recv st) (ts_timeout st)); [intros []|].
  destruct (gen_tick_resend_cmp now ls (ts_timeout st)); [|intros []].
  assert (G : forall bl q, In q (fst (resend bl)) -> wf_server_reply q).
  { induction bl as [|[k dd] r IH]; intros q Hin; [destruct Hin|].
    cbn [resend] in Hin. destruct (mk_DATA k dd) as [q'|e] eqn:Em; [|destruct Hin].
    cbn [fst] in Hin. destruct Hin as [<-|Hin]; [eapply mk_DATA_wf; exact Em|apply IH; exact Hin]. }
  destruct (snd (resend (ts_blocks st))); cbn [snd]; apply G.
Qed.

(* on the listening port: a refusal is always an ERROR packet *)
Lemma default_message_ascii c s : default_message c = Some s -> all_lt 128 s = true.
Proof.
  unfold default_message, error_messages. cbn [find fst snd].
  repeat (match goal with |- context [if ?b then _ else _] => destruct b end;
          [intros H; injection H as <-; reflexivity|]).
  discriminate.
Qed.

Theorem refused_is_error resolve addr f m o fl now p :
  do_RRQ resolve addr f m o fl now = Refused p -> exists c msg, p = ERROR c msg /\ wf_server_reply p.
Proof.
  unfold do_RRQ.
  assert (X : forall e, exists c msg, handle_exn e = ERROR c msg /\ wf_server_reply (handle_exn e)).
  { intros e. destruct e; eexists; eexists; (split; [reflexivity|split; reflexivity]). }
  destruct (resolve f) as [content|e].
  - destruct (negotiate o fl (new_state addr content m now)) as [[o' st1]|e].
    + destruct o' as [|kv o''].
      * destruct (get_block 1 st1) as [[d st2]|e]; [|intros H; injection H as <-; apply X].
        destruct (mk_DATA 1 d) as [q|e]; [discriminate|intros H; injection H as <-; apply X].
      * discriminate.
    + destruct e; intros H; injection H as <-;
        first [apply X | (eexists; eexists; split; [reflexivity|split; reflexivity])].
  - destruct e; intros H; injection H as <-;
      first [apply X | (eexists; eexists; split; [reflexivity|split; reflexivity])].
Qed.

(* anything that is not a read request gets an ERROR (or nothing) and starts nothing *)
Theorem listen_non_rrq resolve src d fl now :
  (forall f m o, parse d <> Ok (RRQ f m o)) ->
  match main_handle resolve src d fl now with
  | MNone => True
  | MReply p => exists c msg, p = ERROR c msg /\ wf_server_reply p
  | MStart _ _ => False
  end.
Proof.
  intros Hn. unfold main_handle. destruct (parse d) as [p|e].
  - destruct p; try (eexists; eexists; split; [reflexivity|split; reflexivity]); try exact I.
    exfalso. eapply Hn. reflexivity.
  - destruct e; eexists; eexists; (split; [reflexivity|split; reflexivity]).
Qed.

Theorem wrq_refused resolve src d fl now f m o :
  parse d = Ok (WRQ f m o) ->
  main_handle resolve src d fl now = MReply (handle_exn AttributeError).
Proof. intros H. unfold main_handle. rewrite H. reflexivity. Qed.

Theorem listen_reply_is_error resolve src d fl now p :
  main_handle resolve src d fl now = MReply p -> exists c msg, p = ERROR c msg /\ wf_server_reply p.
Proof.
  unfold main_handle. destruct (parse d) as [q|e].
  - destruct q; try discriminate;
      try (intros H; injection H as <-; eexists; eexists; split; [reflexivity|split; reflexivity]).
    destruct (do_RRQ resolve src filename mode opts fl now) eqn:E; [discriminate|].
    intros H; injection H as <-. eapply refused_is_error; exact E.
  - intros H; injection H as <-. destruct e; eexists; eexists; (split; [reflexivity|split; reflexivity]).
Qed.

(* garbage is inert on a transfer port *)
Theorem foreign_ignored st src d now :
  src <> ts_addr st -> sub_handle st src d now = (st, None).
Proof.
  intros H. unfold sub_handle. destruct (ts_dead st); [reflexivity|].
  destruct (N.eqb_spec src (ts_addr st)); [congruence|reflexivity].
Qed.

Theorem malformed_changes_only_clocks st d now e :
  ts_dead st = false -> parse d = Err e ->
  sub_handle st (ts_addr st) d now = (set_send (set_recv st now) now, Some (handle_exn e)).
Proof.
  intros Hd Hp. unfold sub_handle. rewrite Hd, N.eqb_refl, Hp. reflexivity.
Qed.

(* ================= C09: endings ================= *)
Theorem client_error_ends st d now c m :
  ts_dead st = false -> parse d = Ok (ERROR c m) ->
  ts_done (fst (sub_handle st (ts_addr st) d now)) = true /\ snd (sub_handle st (ts_addr st) d now) = None.
Proof. intros Hd Hp. unfold sub_handle. rewrite Hd, N.eqb_refl, Hp. split; reflexivity. Qed.

Theorem completion_ends b st :
  get_block (b + 1) (ack b st) = Err TransferDone ->
  ts_done (fst (do_ACK b st)) = true /\ snd (do_ACK b st) = None.
Proof. intros H. unfold do_ACK. rewrite H. split; reflexivity. Qed.

Theorem server_error_ends b st e :
  get_block (b + 1) (ack b st) = Err e -> e <> AlreadyAcked ->
  ts_done (fst (do_ACK b st)) = true.
Proof. intros H Hne. unfold do_ACK. rewrite H. destruct e; try reflexivity. congruence. Qed.

Lemma tick_keeps_done st now : ts_done st = true -> ts_done (fst (tick st now)) = true.
Proof.
  intros H. unfold tick. destruct (ts_dead st); [exact H|].
  destruct (gen_tick_recv_cmp now (ts_last_recv st) (ts_timeout st)); [|exact H].
  destruct (ts_last_send st) as [ls|]; [|reflexivity].
  destruct (gen_tick_giveup_cmp ls (ts_last_recv st) (ts_timeout st)); [reflexivity|].
  destruct (gen_tick_resend_cmp now ls (ts_timeout st)); [|exact H].
  destruct (snd (resend (ts_blocks st))); exact H.
Qed.

(* the retransmission rule: nothing is re-sent unless more than one timeout has
   passed since the last send AND since the last datagram from the client; when
   both have passed (and the give-up condition does not hold) the cached block(s)
   are re-sent at that very tick *)
Theorem resend_only_after_timeout st now :
  snd (tick st now) <> [] ->
  exists ls, ts_last_send st = Some ls /\
             (ts_timeout st < now - ls)%Z /\ (ts_timeout st < now - ts_last_recv st)%Z.
Proof.
  unfold tick, gen_tick_recv_cmp, gen_tick_resend_cmp.
  destruct (ts_dead st); [cbn [snd]; intros HH; congruence|].
  destruct (Z.ltb_spec (ts_timeout st) (now - ts_last_recv st)) as [G1|G1]; [|cbn [snd]; intros HH; congruence].
  destruct (ts_last_send st) as [ls|]; [|cbn [snd]; intros HH; congruence].
  destruct (gen_tick_giveup_cmp ls (ts_last_recv st) (ts_timeout st)); [cbn [snd]; intros X; congruence|].
  destruct (Z.ltb_spec (ts_timeout st) (now - ls)) as [G2|G2]; [|cbn [snd]; intros X; congruence].
  intros _. exists ls. auto.
Qed.

Theorem resend_when_due st now ls :
  ts_dead st = false -> ts_last_send st = Some ls ->
  (ts_timeout st < now - ts_last_recv st)%Z -> (ts_timeout st < now - ls)%Z ->
  (ls - ts_last_recv st <= ts_timeout st * 5)%Z ->
  snd (resend (ts_blocks st)) = true ->
  tick st now = (set_send st now, fst (resend (ts_blocks st))).
Proof.
  intros Hd Hs H1 H2 H3 H4. unfold tick, gen_tick_recv_cmp, gen_tick_resend_cmp, gen_tick_giveup_cmp.
  rewrite Hd, Hs, H4.
  destruct (Z.ltb_spec (ts_timeout st) (now - ts_last_recv st)); [|lia].
  destruct (Z.ltb_spec (ts_timeout st * 5) (ls - ts_last_recv st)); [lia|].
  destruct (Z.ltb_spec (ts_timeout st) (now - ls)); [reflexivity|lia].
Qed.

(* silence: once a tick happens later than six timeouts after the last datagram
   from the client, the next tick (at the latest) marks the transfer done *)
Theorem silence_abandons st t1 t2 :
  ts_dead st = false -> (0 <= ts_timeout st)%Z ->
  snd (resend (ts_blocks st)) = true ->
  (ts_last_recv st + 6 * ts_timeout st < t1)%Z -> (t1 <= t2)%Z ->
  ts_done (fst (tick (fst (tick st t1)) t2)) = true.
Proof.
  intros Hd Ht Hr H1 H2.
  assert (E1 : gen_tick_recv_cmp t1 (ts_last_recv st) (ts_timeout st) = true)
    by (unfold gen_tick_recv_cmp; apply Z.ltb_lt; lia).
  unfold tick at 2. rewrite Hd, E1.
  destruct (ts_last_send st) as [ls|] eqn:Els; [|apply tick_keeps_done; reflexivity].
  destruct (gen_tick_giveup_cmp ls (ts_last_recv st) (ts_timeout st)) eqn:Eg; [apply tick_keeps_done; reflexivity|].
  unfold gen_tick_giveup_cmp in Eg. apply Z.ltb_ge in Eg.
  destruct (gen_tick_resend_cmp t1 ls (ts_timeout st)) eqn:Er.
  - (* re-sent at t1: last_send = t1, far beyond five timeouts after last_recv *)
    rewrite Hr. cbn [fst]. unfold tick. cbn [ts_dead ts_last_recv ts_timeout ts_last_send set_send].
    rewrite Hd.
    assert (E2 : gen_tick_recv_cmp t2 (ts_last_recv st) (ts_timeout st) = true)
      by (unfold gen_tick_recv_cmp; apply Z.ltb_lt; lia).
    rewrite E2.
    assert (E3 : gen_tick_giveup_cmp t1 (ts_last_recv st) (ts_timeout st) = true)
      by (unfold gen_tick_giveup_cmp; apply Z.ltb_lt; lia).
    rewrite E3. reflexivity.
  - (* not due at t1: then last_send >= t1 - timeout, already beyond five timeouts *)
    unfold gen_tick_resend_cmp in Er. apply Z.ltb_ge in Er. lia.
Qed.

(* ---- the registry ---- *)
Theorem reap_releases r :
  forallb (fun x => negb (ts_done (snd x))) (reap r) = true /\
  (forall x, In x r -> ts_done (snd x) = false -> In x (reap r)) /\
  (forall x, In x (reap r) -> In x r).
Proof.
  unfold reap. split; [|split].
  - apply forallb_forall. intros x Hin. apply filter_In in Hin. apply Hin.
  - intros x Hin Hd. apply filter_In. split; [exact Hin|]. rewrite Hd. reflexivity.
  - intros x Hin. apply filter_In in Hin. apply Hin.
Qed.

Theorem close_all_empties r : close_all r = [].
Proof. reflexivity. Qed.

Theorem refused_leaves_nothing resolve src d fl now :
  match main_handle resolve src d fl now with
  | MStart _ _ => exists f m o, parse d = Ok (RRQ f m o)
  | _ => True
  end.
Proof.
  unfold main_handle. destruct (parse d) as [p|e]; [|exact I].
  destruct p; try exact I. destruct (do_RRQ resolve src filename mode opts fl now); [|exact I].
  eexists; eexists; eexists; reflexivity.
Qed.

(* ================= C07: independence of transfers ================= *)
Inductive tev :=
| TPacket (src : N) (d : bytes) (now : Z)
| TTick (now : Z).
Definition tapply (e : tev) (st : tstate) : tstate :=
  match e with
  | TPacket src d now => fst (sub_handle st src d now)
  | TTick now => fst (tick st now)
  end.
Definition gstep (reg : registry) (x : N * tev) : registry :=
  reg_update (fst x) (tapply (snd x)) reg.

Fixpoint reg_get (tid : N) (r : registry) : option tstate :=
  match r with [] => None | (t, st) :: r' => if t =? tid then Some st else reg_get tid r' end.

Lemma reg_get_update_other a b f r : a <> b -> reg_get b (reg_update a f r) = reg_get b r.
Proof.
  intros Hab. induction r as [|[t st] r IH]; [reflexivity|]. cbn [reg_update].
  destruct (N.eqb_spec t a) as [->|Hta]; cbn [reg_get].
  - destruct (N.eqb_spec a b); [congruence|reflexivity].
  - rewrite IH. reflexivity.
Qed.

Lemma reg_get_update_same a f r : reg_get a (reg_update a f r) = option_map f (reg_get a r).
Proof.
  induction r as [|[t st] r IH]; [reflexivity|]. cbn [reg_update].
  destruct (N.eqb_spec t a) as [->|Hta]; cbn [reg_get].
  - rewrite N.eqb_refl. reflexivity.
  - destruct (N.eqb_spec t a); [congruence|]. exact IH.
Qed.

(* handling anything addressed to transfer a leaves transfer b untouched *)
Theorem step_frame reg a e b : a <> b -> reg_get b (gstep reg (a, e)) = reg_get b reg.
Proof. intros H. unfold gstep. cbn [fst snd]. apply reg_get_update_other. exact H. Qed.

(* for every interleaving of the events of any number of transfers, the state of
   transfer a is what a reaches alone on its own events *)
Theorem interleave_projection evs : forall reg a,
  reg_get a (fold_left gstep evs reg) =
  option_map (fun st => fold_left (fun s e => tapply e s)
                                  (map snd (filter (fun x => fst x =? a) evs)) st)
             (reg_get a reg).
Proof.
  induction evs as [|[t e] evs IH]; intros reg a; cbn [fold_left filter map fst snd].
  - destruct (reg_get a reg); reflexivity.
  - rewrite IH. destruct (N.eqb_spec t a) as [->|Hne]; cbn [map fold_left snd].
    + unfold gstep at 1. cbn [fst snd]. rewrite reg_get_update_same.
      destruct (reg_get a reg); reflexivity.
    + rewrite step_frame by exact Hne. reflexivity.
Qed.

(* the listening handler's decision does not depend on the running transfers:
   [main_handle] takes no registry argument; registering a new transfer never
   changes an existing one *)
Theorem listener_independent tid st reg b : tid <> b -> reg_get b (reg_add tid st reg) = reg_get b reg.
Proof.
  intros H. unfold reg_add. cbn [reg_get]. destruct (N.eqb_spec tid b); [congruence|].
  induction reg as [|[t s] r IH]; [reflexivity|]. cbn [filter fst].
  destruct (N.eqb_spec t tid) as [->|Ht]; cbn [negb reg_get].
  - destruct (N.eqb_spec tid b); [congruence|exact IH].
  - destruct (t =? b); [reflexivity|exact IH].
Qed.
