(* Proofs about the packet model: parse (serialize p) = p, case folding, wire format. *)
From Coq Require Import List NArith ZArith Bool Lia Arith.
From NV Require Import Lib.Res Lib.PyInt Gen.Tftp Tftp.Packet.
Import ListNotations.
Open Scope N_scope.

(* ---------- small facts ---------- *)
Lemma list_eqb_N_eq a : forall b, list_eqb_N a b = true <-> a = b.
Proof.
  induction a as [|x a IH]; intros [|y b]; cbn; split; try congruence; try discriminate.
  - intros H. apply andb_true_iff in H as [H1 H2]. apply N.eqb_eq in H1. apply IH in H2. congruence.
  - intros H. inversion H; subst. rewrite N.eqb_refl. cbn. apply IH. reflexivity.
Qed.
Lemma list_eqb_N_refl a : list_eqb_N a a = true.
Proof. apply list_eqb_N_eq. reflexivity. Qed.
Lemma list_eqb_N_neq a b : a <> b -> list_eqb_N a b = false.
Proof. intros H. destruct (list_eqb_N a b) eqn:E; [apply list_eqb_N_eq in E; congruence|reflexivity]. Qed.

Lemma be16_parse b : b <= 65535 -> forall rest,
  match be16 b ++ rest with
  | h :: l :: r => h * 256 + l = b /\ r = rest
  | _ => False
  end.
Proof. intros H rest. cbn. split; [|reflexivity]. pose proof (N.div_mod b 256). lia. Qed.

Lemma span_app p s c r :
  forallb p s = true -> p c = false -> span p (s ++ c :: r) = (s, c :: r).
Proof.
  induction s as [|x s IH]; cbn; intros Hs Hc.
  - rewrite Hc. reflexivity.
  - apply andb_true_iff in Hs as [Hx Hs]. rewrite Hx, (IH Hs Hc). reflexivity.
Qed.
Lemma span_all p s : forallb p s = true -> span p s = (s, []).
Proof.
  induction s as [|x s IH]; cbn; [reflexivity|]. intros H. apply andb_true_iff in H as [Hx Hs].
  rewrite Hx, (IH Hs). reflexivity.
Qed.

(* character classes *)
Definition name_char (c : N) : bool := (32 <=? c) && (c <? 128).
Definition val_char (c : N) : bool := (1 <=? c) && (c <? 128).
Definition no_upper (s : list N) : bool := forallb (fun c => negb (is_upper c)) s.

Lemma name_char_ge20 s : forallb name_char s = true -> forallb ge20 s = true.
Proof. induction s as [|c s IH]; cbn; [reflexivity|]. unfold name_char at 1, ge20 at 1.
  intros H. apply andb_true_iff in H as [H1 H2]. apply andb_true_iff in H1 as [H1 _]. rewrite H1, (IH H2). reflexivity. Qed.
Lemma name_char_lt128 s : forallb name_char s = true -> all_lt 128 s = true.
Proof. unfold all_lt. induction s as [|c s IH]; cbn; [reflexivity|]. unfold name_char at 1.
  intros H. apply andb_true_iff in H as [H1 H2]. apply andb_true_iff in H1 as [_ H1]. rewrite H1, (IH H2). reflexivity. Qed.
Lemma val_char_nonzero s : forallb val_char s = true -> forallb nonzero s = true.
Proof. induction s as [|c s IH]; cbn; [reflexivity|]. unfold val_char at 1, nonzero at 1.
  intros H. apply andb_true_iff in H as [H1 H2]. apply andb_true_iff in H1 as [H1 _].
  rewrite (IH H2). destruct (N.eqb_spec c 0); [subst; discriminate|reflexivity]. Qed.
Lemma val_char_lt128 s : forallb val_char s = true -> all_lt 128 s = true.
Proof. unfold all_lt. induction s as [|c s IH]; cbn; [reflexivity|]. unfold val_char at 1.
  intros H. apply andb_true_iff in H as [H1 H2]. apply andb_true_iff in H1 as [_ H1]. rewrite H1, (IH H2). reflexivity. Qed.

Lemma lower_no_upper s : no_upper s = true -> lower s = s.
Proof. unfold no_upper, lower. induction s as [|c s IH]; cbn [map forallb]; [reflexivity|].
  intros H. apply andb_true_iff in H as [H1 H2]. rewrite (IH H2). unfold lower1.
  destruct (is_upper c); [discriminate|reflexivity]. Qed.
Lemma lower1_no_upper c : is_upper (lower1 c) = false.
Proof. unfold lower1. destruct (is_upper c) eqn:E; [|exact E]. unfold is_upper in *.
  apply andb_true_iff in E as [E1 E2]. apply N.leb_le in E1, E2.
  apply andb_false_iff. right. apply N.leb_gt. lia. Qed.
Lemma lower_is_no_upper s : no_upper (lower s) = true.
Proof. unfold no_upper, lower. induction s as [|c s IH]; cbn [map forallb]; [reflexivity|]. rewrite lower1_no_upper, IH. reflexivity. Qed.
Lemma lower1_name_char c : name_char c = true -> name_char (lower1 c) = true.
Proof. unfold lower1, name_char, is_upper. intros H. apply andb_true_iff in H as [H1 H2].
  apply N.leb_le in H1. apply N.ltb_lt in H2.
  destruct ((65 <=? c) && (c <=? 90)) eqn:E; [|apply andb_true_iff; split; [apply N.leb_le|apply N.ltb_lt]; lia].
  apply andb_true_iff in E as [E1 E2]. apply N.leb_le in E1, E2.
  apply andb_true_iff; split; [apply N.leb_le|apply N.ltb_lt]; lia. Qed.
Lemma lower1_val_char c : val_char c = true -> val_char (lower1 c) = true.
Proof. unfold lower1, val_char, is_upper. intros H. apply andb_true_iff in H as [H1 H2].
  apply N.leb_le in H1. apply N.ltb_lt in H2.
  destruct ((65 <=? c) && (c <=? 90)) eqn:E; [|apply andb_true_iff; split; [apply N.leb_le|apply N.ltb_lt]; lia].
  apply andb_true_iff in E as [E1 E2]. apply N.leb_le in E1, E2.
  apply andb_true_iff; split; [apply N.leb_le|apply N.ltb_lt]; lia. Qed.
Lemma lower_name_char s : forallb name_char s = true -> forallb name_char (lower s) = true.
Proof. unfold lower. induction s as [|c s IH]; cbn [map forallb]; [reflexivity|]. intros H. apply andb_true_iff in H as [H1 H2].
  rewrite (lower1_name_char c H1), (IH H2). reflexivity. Qed.
Lemma lower_val_char s : forallb val_char s = true -> forallb val_char (lower s) = true.
Proof. unfold lower. induction s as [|c s IH]; cbn [map forallb]; [reflexivity|]. intros H. apply andb_true_iff in H as [H1 H2].
  rewrite (lower1_val_char c H1), (IH H2). reflexivity. Qed.

(* ASCII is a fixed point of UTF-8 decoding *)
Lemma utf8_ascii fuel s : (length s <= fuel)%nat -> all_lt 128 s = true -> utf8_decode fuel s = Some s.
Proof.
  revert s; induction fuel as [|f IH]; intros s Hl Ha.
  - destruct s; [reflexivity|cbn in Hl; lia].
  - destruct s as [|c r]; [reflexivity|]. cbn [utf8_decode]. unfold all_lt in Ha. cbn in Ha.
    apply andb_true_iff in Ha as [Hc Hr]. rewrite Hc. rewrite IH; [reflexivity|cbn in Hl; lia|exact Hr].
Qed.
Lemma py_utf8_ascii s : all_lt 128 s = true -> py_utf8_decode s = Some s.
Proof. intros H. apply utf8_ascii; [lia|exact H]. Qed.

(* ---------- option pairs on the wire ---------- *)
Definition pair_ok (kv : bytes * bytes) : bool :=
  negb (match fst kv with [] => true | _ => false end) &&
  forallb name_char (fst kv) && forallb val_char (snd kv).

Fixpoint wire_pairs (ps : list (bytes * bytes)) : bytes :=
  match ps with
  | [] => []
  | (k, v) :: r => k ++ [0] ++ v ++ [0] ++ wire_pairs r
  end.

Lemma ge20_0 : ge20 0 = false. Proof. reflexivity. Qed.
Lemma nonzero_0 : nonzero 0 = false. Proof. reflexivity. Qed.

Lemma prefix_pairs_wire ps : forall fuel,
  forallb pair_ok ps = true -> (length ps <= fuel)%nat ->
  prefix_pairs fuel (wire_pairs ps) = ps.
Proof.
  induction ps as [|[k v] r IH]; intros fuel Hok Hf.
  - destruct fuel; reflexivity.
  - destruct fuel as [|f]; [cbn in Hf; lia|].
    cbn [forallb] in Hok. apply andb_true_iff in Hok as [Hkv Hr].
    unfold pair_ok in Hkv. cbn [fst snd] in Hkv.
    apply andb_true_iff in Hkv as [Hkv Hv]. apply andb_true_iff in Hkv as [Hne Hk].
    cbn [wire_pairs prefix_pairs]. cbn [app].
    rewrite (span_app ge20 k 0 _ (name_char_ge20 k Hk) ge20_0). cbn [fst snd].
    destruct k as [|k0 k']; [discriminate|].
    rewrite (span_app nonzero v 0 _ (val_char_nonzero v Hv) nonzero_0). cbn [fst snd].
    rewrite IH; [reflexivity|exact Hr|cbn in Hf; lia].
Qed.

Lemma find_pairs_wire ps : forall fuel,
  forallb pair_ok ps = true -> (length ps <= fuel)%nat ->
  find_pairs fuel (wire_pairs ps) = ps.
Proof.
  induction ps as [|[k v] r IH]; intros fuel Hok Hf.
  - destruct fuel; reflexivity.
  - destruct fuel as [|f]; [cbn in Hf; lia|].
    cbn [forallb] in Hok. apply andb_true_iff in Hok as [Hkv Hr].
    unfold pair_ok in Hkv. cbn [fst snd] in Hkv.
    apply andb_true_iff in Hkv as [Hkv Hv]. apply andb_true_iff in Hkv as [Hne Hk].
    destruct k as [|k0 k']; [discriminate|].
    cbn [wire_pairs]. cbn [app find_pairs].
    assert (Hk0 : ge20 k0 = true).
    { pose proof (name_char_ge20 _ Hk) as X. cbn in X. apply andb_true_iff in X as [X _]. exact X. }
    rewrite Hk0.
    change (k0 :: k' ++ 0 :: v ++ 0 :: wire_pairs r) with ((k0 :: k') ++ 0 :: v ++ 0 :: wire_pairs r).
    rewrite (span_app ge20 (k0 :: k') 0 _ (name_char_ge20 _ Hk) ge20_0). cbn [fst snd].
    rewrite (span_app nonzero v 0 _ (val_char_nonzero v Hv) nonzero_0). cbn [fst snd].
    rewrite IH; [reflexivity|exact Hr|cbn in Hf; lia].
Qed.

Lemma wire_pairs_length ps : (length ps <= length (wire_pairs ps))%nat.
Proof. induction ps as [|[k v] r IH]; cbn; [lia|]. rewrite !app_length. cbn. rewrite !app_length. cbn. lia. Qed.

(* the dict built from the pairs: python {lower(k): lower(v) ...} *)
Fixpoint fold_pairs (ps : list (bytes * bytes)) (acc : options) : options :=
  match ps with
  | [] => acc
  | (k, v) :: r => fold_pairs r (dict_set (lower k) (OStr (lower v)) acc)
  end.

Lemma dict_of_pairs_ok ps : forall acc,
  forallb pair_ok ps = true -> dict_of_pairs ps acc = Ok (fold_pairs ps acc).
Proof.
  induction ps as [|[k v] r IH]; intros acc Hok; [reflexivity|].
  cbn [forallb] in Hok. apply andb_true_iff in Hok as [Hkv Hr].
  unfold pair_ok in Hkv. cbn [fst snd] in Hkv.
  apply andb_true_iff in Hkv as [Hkv Hv]. apply andb_true_iff in Hkv as [_ Hk].
  cbn [dict_of_pairs fold_pairs]. unfold dec_ascii_strict.
  rewrite (name_char_lt128 k Hk), (val_char_lt128 v Hv). cbn [bind]. apply IH; exact Hr.
Qed.

(* keys of an option list *)
Definition keys (o : options) : list str := map fst o.
Fixpoint nodup_keys (ks : list str) : bool :=
  match ks with
  | [] => true
  | k :: r => negb (existsb (list_eqb_N k) r) && nodup_keys r
  end.

Lemma dict_set_fresh k v acc :
  existsb (list_eqb_N k) (keys acc) = false -> dict_set k v acc = acc ++ [(k, v)].
Proof.
  induction acc as [|[k' v'] r IH]; cbn; [reflexivity|].
  intros H. apply orb_false_iff in H as [H1 H2]. rewrite H1, (IH H2). reflexivity.
Qed.

Lemma existsb_app_false {A} (f : A -> bool) a b :
  existsb f (a ++ b) = false <-> existsb f a = false /\ existsb f b = false.
Proof. rewrite existsb_app. apply orb_false_iff. Qed.

Lemma list_eqb_N_sym a b : list_eqb_N a b = list_eqb_N b a.
Proof.
  destruct (list_eqb_N a b) eqn:E.
  - apply list_eqb_N_eq in E; subst. symmetry. apply list_eqb_N_refl.
  - symmetry. apply list_eqb_N_neq. intros ->. rewrite list_eqb_N_refl in E. discriminate.
Qed.

(* already lower-case, unique keys: the dict is the list itself *)
Definition as_pairs (o : options) : list (bytes * bytes) := map (fun kv => (fst kv, oval_str (snd kv))) o.
Definition strs (o : options) : options := map (fun kv => (fst kv, OStr (oval_str (snd kv)))) o.

Definition opt_ok (kv : str * oval) : bool :=
  pair_ok (fst kv, oval_str (snd kv)) && no_upper (fst kv) && no_upper (oval_str (snd kv)).

Lemma fold_pairs_canonical o : forall acc,
  forallb opt_ok o = true -> nodup_keys (keys o) = true ->
  (forall k, In k (keys o) -> existsb (list_eqb_N k) (keys acc) = false) ->
  fold_pairs (as_pairs o) acc = acc ++ strs o.
Proof.
  induction o as [|[k v] r IH]; intros acc Hok Hnd Hfresh; cbn [as_pairs strs map fold_pairs].
  - rewrite app_nil_r. reflexivity.
  - cbn [forallb] in Hok. apply andb_true_iff in Hok as [Hkv Hr].
    unfold opt_ok in Hkv. cbn [fst snd] in Hkv.
    apply andb_true_iff in Hkv as [Hkv Hnv]. apply andb_true_iff in Hkv as [_ Hnk].
    cbn [keys map nodup_keys fst] in Hnd. apply andb_true_iff in Hnd as [Hnotin Hnd].
    cbn [fst snd]. rewrite (lower_no_upper k Hnk), (lower_no_upper _ Hnv).
    rewrite dict_set_fresh by (apply Hfresh; left; reflexivity).
    fold (as_pairs r). fold (strs r). rewrite IH; [rewrite <- app_assoc; reflexivity|exact Hr|exact Hnd|].
    intros k2 Hin. unfold keys. rewrite map_app. apply existsb_app_false. split.
    + apply Hfresh. right. exact Hin.
    + cbn. rewrite orb_false_r.
      destruct (list_eqb_N k2 k) eqn:E; [|reflexivity].
      apply list_eqb_N_eq in E; subst k2. apply negb_true_iff in Hnotin.
      assert (X : existsb (list_eqb_N k) (map fst r) = true).
      { apply existsb_exists. exists k. split; [exact Hin|apply list_eqb_N_refl]. }
      unfold keys in *. congruence.
Qed.

Lemma ser_options_wire o :
  forallb opt_ok o = true -> ser_options o = Ok (wire_pairs (as_pairs o)).
Proof.
  induction o as [|[k v] r IH]; intros Hok; [reflexivity|].
  cbn [forallb] in Hok. apply andb_true_iff in Hok as [Hkv Hr].
  unfold opt_ok, pair_ok in Hkv. cbn [fst snd] in Hkv.
  apply andb_true_iff in Hkv as [Hkv _]. apply andb_true_iff in Hkv as [Hkv _].
  apply andb_true_iff in Hkv as [Hkv Hv]. apply andb_true_iff in Hkv as [_ Hk].
  cbn [ser_options as_pairs map wire_pairs fst snd]. unfold enc_ascii.
  rewrite (name_char_lt128 k Hk), (val_char_lt128 _ Hv). cbn [bind].
  fold (as_pairs r). rewrite (IH Hr). reflexivity.
Qed.

Lemma as_pairs_ok o : forallb opt_ok o = true -> forallb pair_ok (as_pairs o) = true.
Proof.
  induction o as [|[k v] r IH]; intros Hok; [reflexivity|].
  cbn [forallb] in Hok. apply andb_true_iff in Hok as [Hkv Hr].
  unfold opt_ok in Hkv. apply andb_true_iff in Hkv as [Hkv _]. apply andb_true_iff in Hkv as [Hkv _].
  cbn [as_pairs map forallb]. fold (as_pairs r). rewrite (IH Hr). cbn [fst snd] in *. rewrite Hkv. reflexivity.
Qed.

(* ---------- normal form of packet values ---------- *)
Definition opts_nf (o : options) : bool := forallb opt_ok o && nodup_keys (keys o).

Definition fname_ok (f : str) : bool :=
  negb (match f with [] => true | _ => false end) && forallb name_char f.

Definition msg_ok (m : str) : bool :=
  all_lt 128 m && list_eqb_N (rstrip0 m) m.

Definition nf (p : packet) : bool :=
  match p with
  | RRQ f m o | WRQ f m o => fname_ok f && mode_ok m && opts_nf o
  | DATA b _ => (data_block_min <=? b) && (b <=? data_block_max)
  | ACK b => (ack_block_min <=? b) && (b <=? ack_block_max)
  | ERROR c m => existsb (N.eqb c) error_codes && msg_ok m
  | OACK o => opts_nf o
  end.

(* what parsing returns: option values always come back as strings *)
Definition strs_packet (p : packet) : packet :=
  match p with
  | RRQ f m o => RRQ f m (strs o)
  | WRQ f m o => WRQ f m (strs o)
  | OACK o => OACK (strs o)
  | _ => p
  end.

Lemma mode_ok_cases m : mode_ok m = true -> m = tftp_binary_name \/ m = tftp_netascii_name.
Proof.
  unfold mode_ok, tftp_modes. cbn [existsb]. rewrite orb_false_r.
  intros H. apply orb_true_iff in H as [H|H]; apply list_eqb_N_eq in H; subst; [right|left]; reflexivity.
Qed.

Lemma parse_rq_wire mk f m ps :
  fname_ok f = true -> mode_ok (lower m) = true -> forallb is_alpha m = true -> m <> [] ->
  forallb pair_ok ps = true ->
  parse_rq mk (f ++ [0] ++ m ++ [0] ++ wire_pairs ps) = Ok (mk f (lower m) (fold_pairs ps [])).
Proof.
  intros Hf Hm Ha Hne Hps. unfold fname_ok in Hf. apply andb_true_iff in Hf as [Hfne Hfc].
  unfold parse_rq. cbn [app].
  rewrite (span_app ge20 f 0 _ (name_char_ge20 f Hfc) ge20_0). cbn [fst snd].
  destruct f as [|f0 f']; [discriminate|].
  assert (Ha0 : is_alpha 0 = false) by reflexivity.
  rewrite (span_app is_alpha m 0 _ Ha Ha0). cbn [fst snd].
  destruct m as [|m0 m']; [congruence|].
  rewrite (py_utf8_ascii _ (name_char_lt128 _ Hfc)). rewrite Hm.
  rewrite prefix_pairs_wire; [|exact Hps|apply wire_pairs_length].
  rewrite (dict_of_pairs_ok ps [] Hps). reflexivity.
Qed.

Lemma modes_alpha m : mode_ok m = true -> forallb is_alpha m = true /\ m <> [] /\ lower m = m /\ all_lt 128 m = true.
Proof. intros H. destruct (mode_ok_cases m H) as [->| ->]; repeat split; try reflexivity; discriminate. Qed.

Lemma parse_opcode (op : N) data : op <= 6 -> parse (be16 op ++ data) =
  (if op =? op_RRQ then parse_rq RRQ data else if op =? op_WRQ then parse_rq WRQ data
   else if op =? op_DATA then
      match data with
      | bh :: bl :: payload =>
        let b := bh * 256 + bl in
        if (data_block_min <=? b) && (b <=? data_block_max) then Ok (DATA b payload) else Err ValueError
      | _ => Err StructError end
   else if op =? op_ACK then
      match data with
      | bh :: bl :: _ =>
        let b := bh * 256 + bl in
        if (ack_block_min <=? b) && (b <=? ack_block_max) then Ok (ACK b) else Err ValueError
      | _ => Err StructError end
   else if op =? op_ERROR then
      match data with
      | ch :: cl :: msg =>
        let c := ch * 256 + cl in
        if existsb (N.eqb c) error_codes then Ok (ERROR c (dec_ascii_replace (rstrip0 msg))) else Err ValueError
      | _ => Err StructError end
   else if op =? op_OACK then do o <- dict_of_pairs (find_pairs (length data) data) []; Ok (OACK o)
   else Err ValueError).
Proof.
  intros H. unfold parse, be16. cbn [app].
  replace (op / 256 * 256 + op mod 256) with op; [reflexivity|].
  pose proof (N.div_mod op 256). lia.
Qed.

Lemma dec_ascii_replace_id m : all_lt 128 m = true -> dec_ascii_replace m = m.
Proof. unfold all_lt, dec_ascii_replace. induction m as [|c r IH]; cbn; [reflexivity|].
  intros H. apply andb_true_iff in H as [H1 H2]. rewrite H1, (IH H2). reflexivity. Qed.

Lemma rstrip0_app0 m : rstrip0 (m ++ [0]) = rstrip0 m.
Proof.
  induction m as [|c r IH]; [reflexivity|]. cbn [app rstrip0]. rewrite IH. reflexivity.
Qed.

(* ---------- main theorem: parse (serialize p) = p ---------- *)
Theorem parse_serialize p :
  nf p = true -> exists b, serialize p = Ok b /\ parse b = Ok (strs_packet p).
Proof.
  destruct p as [f m o|f m o|b d|b|c m|o]; cbn [nf]; intros H.
  - (* RRQ *)
    apply andb_true_iff in H as [H Ho]. apply andb_true_iff in H as [Hf Hm].
    unfold opts_nf in Ho. apply andb_true_iff in Ho as [Hok Hnd].
    destruct (modes_alpha m Hm) as (Ha & Hne & Hl & Hlt).
    assert (Hf' := Hf). unfold fname_ok in Hf'. apply andb_true_iff in Hf' as [_ Hfc].
    eexists. split.
    + cbn [serialize opcode_of]. unfold enc_ascii. rewrite (name_char_lt128 f Hfc), Hlt. cbn [bind].
      rewrite (ser_options_wire o Hok). cbn [bind]. reflexivity.
    + rewrite parse_opcode by (unfold op_RRQ; lia). cbn [N.eqb op_RRQ Pos.eqb].
      rewrite parse_rq_wire; [|exact Hf|rewrite Hl; exact Hm|exact Ha|exact Hne|apply as_pairs_ok; exact Hok].
      rewrite Hl. cbn [strs_packet]. f_equal. f_equal.
      rewrite (fold_pairs_canonical o [] Hok Hnd); [reflexivity|intros; reflexivity].
  - (* WRQ *)
    apply andb_true_iff in H as [H Ho]. apply andb_true_iff in H as [Hf Hm].
    unfold opts_nf in Ho. apply andb_true_iff in Ho as [Hok Hnd].
    destruct (modes_alpha m Hm) as (Ha & Hne & Hl & Hlt).
    assert (Hf' := Hf). unfold fname_ok in Hf'. apply andb_true_iff in Hf' as [_ Hfc].
    eexists. split.
    + cbn [serialize opcode_of]. unfold enc_ascii. rewrite (name_char_lt128 f Hfc), Hlt. cbn [bind].
      rewrite (ser_options_wire o Hok). cbn [bind]. reflexivity.
    + rewrite parse_opcode by (unfold op_WRQ; lia). cbn [N.eqb op_WRQ op_RRQ Pos.eqb].
      rewrite parse_rq_wire; [|exact Hf|rewrite Hl; exact Hm|exact Ha|exact Hne|apply as_pairs_ok; exact Hok].
      rewrite Hl. cbn [strs_packet]. f_equal. f_equal.
      rewrite (fold_pairs_canonical o [] Hok Hnd); [reflexivity|intros; reflexivity].
  - (* DATA *)
    eexists. split; [reflexivity|]. rewrite parse_opcode by (unfold op_DATA; lia).
    cbn [N.eqb op_DATA op_RRQ op_WRQ Pos.eqb]. unfold be16. cbn [app].
    apply andb_true_iff in H as [H1 H2].
    replace (b / 256 * 256 + b mod 256) with b by (pose proof (N.div_mod b 256); lia).
    cbn zeta. rewrite H1, H2. reflexivity.
  - (* ACK *)
    eexists. split; [reflexivity|]. rewrite parse_opcode by (unfold op_ACK; lia).
    cbn [N.eqb op_ACK op_DATA op_RRQ op_WRQ Pos.eqb]. unfold be16. cbn [app].
    apply andb_true_iff in H as [H1 H2].
    replace (b / 256 * 256 + b mod 256) with b by (pose proof (N.div_mod b 256); lia).
    cbn zeta. rewrite H1, H2. reflexivity.
  - (* ERROR *)
    apply andb_true_iff in H as [Hc Hm]. unfold msg_ok in Hm. apply andb_true_iff in Hm as [Hlt Hrs].
    apply list_eqb_N_eq in Hrs.
    eexists. split.
    + cbn [serialize]. unfold enc_ascii. rewrite Hlt. cbn [bind]. reflexivity.
    + rewrite parse_opcode by (unfold op_ERROR; lia).
      cbn [N.eqb op_ERROR op_ACK op_DATA op_RRQ op_WRQ Pos.eqb]. unfold be16. cbn [app].
      replace (c / 256 * 256 + c mod 256) with c by (pose proof (N.div_mod c 256); lia).
      cbn zeta. rewrite Hc. rewrite rstrip0_app0, Hrs, (dec_ascii_replace_id m Hlt). reflexivity.
  - (* OACK *)
    unfold opts_nf in H. apply andb_true_iff in H as [Hok Hnd].
    eexists. split.
    + cbn [serialize]. rewrite (ser_options_wire o Hok). cbn [bind]. reflexivity.
    + rewrite parse_opcode by (unfold op_OACK; lia).
      cbn [N.eqb op_OACK op_ERROR op_ACK op_DATA op_RRQ op_WRQ Pos.eqb].
      rewrite find_pairs_wire; [|apply as_pairs_ok; exact Hok|apply wire_pairs_length].
      rewrite (dict_of_pairs_ok _ [] (as_pairs_ok o Hok)). cbn [bind strs_packet]. f_equal. f_equal.
      rewrite (fold_pairs_canonical o [] Hok Hnd); [reflexivity|intros; reflexivity].
Qed.

(* ---------- case folding: any letter case on the wire ---------- *)
Theorem case_folding_rrq f m ps :
  fname_ok f = true -> mode_ok (lower m) = true -> forallb is_alpha m = true -> m <> [] ->
  forallb pair_ok ps = true ->
  parse (be16 op_RRQ ++ f ++ [0] ++ m ++ [0] ++ wire_pairs ps)
  = Ok (RRQ f (lower m) (fold_pairs ps [])).
Proof.
  intros. rewrite parse_opcode by (unfold op_RRQ; lia). cbn [N.eqb op_RRQ Pos.eqb].
  apply parse_rq_wire; assumption.
Qed.

Theorem case_folding_oack ps :
  forallb pair_ok ps = true ->
  parse (be16 op_OACK ++ wire_pairs ps) = Ok (OACK (fold_pairs ps [])).
Proof.
  intros H. rewrite parse_opcode by (unfold op_OACK; lia).
  cbn [N.eqb op_OACK op_ERROR op_ACK op_DATA op_RRQ op_WRQ Pos.eqb].
  rewrite find_pairs_wire; [|exact H|apply wire_pairs_length].
  rewrite (dict_of_pairs_ok _ [] H). reflexivity.
Qed.

(* every key and value of the folded dict is lower-case *)
Lemma dict_set_no_upper k v acc :
  no_upper k = true -> (forall s, v = OStr s -> no_upper s = true) ->
  forallb (fun kv => no_upper (fst kv) && match snd kv with OStr s => no_upper s | OInt _ => true end) acc = true ->
  forallb (fun kv => no_upper (fst kv) && match snd kv with OStr s => no_upper s | OInt _ => true end)
          (dict_set k v acc) = true.
Proof.
  intros Hk Hv. induction acc as [|[k' v'] r IH]; cbn [dict_set forallb fst snd].
  - intros _. rewrite Hk. destruct v; [rewrite (Hv s eq_refl)|]; reflexivity.
  - intros H. apply andb_true_iff in H as [H1 H2].
    destruct (list_eqb_N k k'); cbn [forallb fst snd].
    + rewrite Hk, H2. destruct v; [rewrite (Hv s eq_refl)|]; reflexivity.
    + rewrite H1, (IH H2). reflexivity.
Qed.

Theorem fold_pairs_lower ps : forall acc,
  forallb (fun kv => no_upper (fst kv) && match snd kv with OStr s => no_upper s | OInt _ => true end) acc = true ->
  forallb (fun kv => no_upper (fst kv) && match snd kv with OStr s => no_upper s | OInt _ => true end)
          (fold_pairs ps acc) = true.
Proof.
  induction ps as [|[k v] r IH]; intros acc H; [exact H|]. cbn [fold_pairs]. apply IH.
  apply dict_set_no_upper; [apply lower_is_no_upper| |exact H].
  intros s E. inversion E; subst. apply lower_is_no_upper.
Qed.

(* ---------- wire format ---------- *)
Theorem wire_format :
  (forall b d, serialize (DATA b d) = Ok ([op_DATA / 256; op_DATA mod 256; b / 256; b mod 256] ++ d)) /\
  (forall b, serialize (ACK b) = Ok [op_ACK / 256; op_ACK mod 256; b / 256; b mod 256]) /\
  (forall c m, all_lt 128 m = true ->
     serialize (ERROR c m) = Ok ([op_ERROR / 256; op_ERROR mod 256; c / 256; c mod 256] ++ m ++ [0])) /\
  (forall f m o, fname_ok f = true -> mode_ok m = true -> forallb opt_ok o = true ->
     serialize (RRQ f m o) = Ok ([op_RRQ / 256; op_RRQ mod 256] ++ f ++ [0] ++ m ++ [0] ++ wire_pairs (as_pairs o))) /\
  (forall o, forallb opt_ok o = true ->
     serialize (OACK o) = Ok ([op_OACK / 256; op_OACK mod 256] ++ wire_pairs (as_pairs o))) /\
  (forall b d, exists w, serialize (DATA b d) = Ok w /\ length w = (4 + length d)%nat).
Proof.
  repeat split.
  - intros c m H. cbn [serialize]. unfold enc_ascii. rewrite H. reflexivity.
  - intros f m o Hf Hm Ho. destruct (modes_alpha m Hm) as (_ & _ & _ & Hlt).
    unfold fname_ok in Hf. apply andb_true_iff in Hf as [_ Hfc].
    cbn [serialize opcode_of]. unfold enc_ascii. rewrite (name_char_lt128 f Hfc), Hlt. cbn [bind].
    rewrite (ser_options_wire o Ho). reflexivity.
  - intros o Ho. cbn [serialize]. rewrite (ser_options_wire o Ho). reflexivity.
  - intros b d. eexists. split; [reflexivity|]. cbn. reflexivity.
Qed.
