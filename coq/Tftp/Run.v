From Coq Require Import List NArith ZArith String Bool.
From NV Require Import Lib.Val Lib.Res Lib.Wire Lib.PyInt Gen.Tftp Tftp.Packet Tftp.Transfer Netascii.Model.
Import ListNotations.
Open Scope string_scope.

Definition VOval (v : oval) : val :=
  match v with OStr s => VL [VN 0; VS s] | OInt z => VL [VN 1; VZ z] end.
Definition VOpts (o : options) : val := VL (map (fun kv => VL [VS (fst kv); VOval (snd kv)]) o).
Definition VPacket (p : packet) : val :=
  match p with
  | RRQ f m o => VL [VN 1; VS f; VS m; VOpts o]
  | WRQ f m o => VL [VN 2; VS f; VS m; VOpts o]
  | DATA b d => VL [VN 3; VN b; VS d]
  | ACK b => VL [VN 4; VN b]
  | ERROR c m => VL [VN 5; VN c; VS m]
  | OACK o => VL [VN 6; VOpts o]
  end.
Definition getOval (v : val) : oval :=
  match getN (arg 0 v) with 0%N => OStr (getS (arg 1 v)) | _ => OInt (getZ (arg 1 v)) end.
Definition getOpts (v : val) : options :=
  map (fun kv => (getS (arg 0 kv), getOval (arg 1 kv))) (getL v).
Definition getPacket (v : val) : packet :=
  match getN (arg 0 v) with
  | 1%N => RRQ (getS (arg 1 v)) (getS (arg 2 v)) (getOpts (arg 3 v))
  | 2%N => WRQ (getS (arg 1 v)) (getS (arg 2 v)) (getOpts (arg 3 v))
  | 3%N => DATA (getN (arg 1 v)) (getS (arg 2 v))
  | 4%N => ACK (getN (arg 1 v))
  | 5%N => ERROR (getN (arg 1 v)) (getS (arg 2 v))
  | _ => OACK (getOpts (arg 1 v))
  end.

Definition VOptN (o : option N) : val := match o with Some n => VL [VN n] | None => VL [] end.
Definition VOptZ (o : option Z) : val := match o with Some n => VL [VZ n] | None => VL [] end.
Definition VState (st : tstate) : val :=
  VL [VN (ts_blocks_read st); VN (ts_block_size st); VOptN (ts_last_ack st); VZ (ts_timeout st);
      VZ (ts_last_recv st); VOptZ (ts_last_send st); VB (ts_done st); VB (ts_dead st);
      VL (map (fun kd => VN (fst kd)) (ts_blocks st))].

Definition getRes (v : val) : res Z :=
  match getN (arg 0 v) with
  | 0%N => Ok (getZ (arg 1 v))
  | 1%N => Err ValueError
  | _ => Err OverflowErr
  end.

Definition exn_of_tag (n : N) : exn :=
  match n with
  | 1%N => FileNotFound | 2%N => PermissionErr | 3%N => IsADirectory
  | 4%N => OSError_Other | _ => ValueError
  end.

Fixpoint lookup_file (files : list (list N * resolved)) (f : list N) : resolved :=
  match files with
  | [] => if Nat.ltb 255 (List.length f) then RErr OSError_Other else RErr FileNotFound
  | (k, r) :: rest => if list_eqb_N k f then r else lookup_file rest f
  end.
Definition getFiles (v : val) : list (list N * resolved) :=
  map (fun e => (getS (arg 0 e),
                 match getN (arg 1 e) with
                 | 0%N => RFile (getS (arg 2 e))
                 | t => RErr (exn_of_tag t)
                 end)) (getL v).

(* server state for a session: registry, next tid *)
Definition ser_packet (p : packet) : val :=
  match serialize p with Ok b => VS b | Err e => VStr (exn_name e) end.

Fixpoint reg_get (tid : N) (r : registry) : option tstate :=
  match r with [] => None | (t, st) :: r' => if N.eqb t tid then Some st else reg_get tid r' end.

(* events:  (0 tid src dgram fl now)  datagram to port tid (0 = listening port)
            (1 tid now)               service_actions of transfer tid
            (2)                       reaper pass
   output per event: (list of (from_tid, bytes), list of (tid, state)) *)
Fixpoint session (files : list (list N * resolved)) (evs : list val) (reg : registry) (next : N)
  : list val :=
  match evs with
  | [] => []
  | e :: rest =>
    let regv r := VL (map (fun x => VL [VN (fst x); VState (snd x)]) r) in
    match getN (arg 0 e) with
    | 0%N =>
      let tid := getN (arg 1 e) in let src := getN (arg 2 e) in
      let dg := getS (arg 3 e) in let fl := getRes (arg 4 e) in let now := getZ (arg 5 e) in
      if N.eqb tid 0 then
        match main_handle (lookup_file files) src dg fl now with
        | MNone => VL [VL []; regv reg] :: session files rest reg next
        | MReply p => VL [VL [VL [VN 0; ser_packet p]]; regv reg] :: session files rest reg next
        | MStart st p =>
          let reg' := reg_add next st reg in
          VL [VL [VL [VN next; ser_packet p]]; regv reg'] :: session files rest reg' (next + 1)
        end
      else
        match reg_get tid reg with
        | None => VL [VL []; regv reg] :: session files rest reg next
        | Some st =>
          let r := sub_handle st src dg now in
          let reg' := reg_update tid (fun _ => fst r) reg in
          VL [VL (match snd r with Some p => [VL [VN tid; ser_packet p]] | None => [] end); regv reg']
             :: session files rest reg' next
        end
    | 1%N =>
      let tid := getN (arg 1 e) in let now := getZ (arg 2 e) in
      match reg_get tid reg with
      | None => VL [VL []; regv reg] :: session files rest reg next
      | Some st =>
        let r := tick st now in
        let reg' := reg_update tid (fun _ => fst r) reg in
        VL [VL (map (fun p => VL [VN tid; ser_packet p]) (snd r)); regv reg'] :: session files rest reg' next
      end
    | _ =>
      let reg' := reap reg in
      VL [VL []; regv reg'] :: session files rest reg' next
    end
  end.

Definition dispatch (cmd : string) (a : val) : val :=
  if String.eqb cmd "parse" then VRes VPacket (parse (getS a))
  else if String.eqb cmd "serialize" then VRes VS (serialize (getPacket a))
  else if String.eqb cmd "session" then VL (session (getFiles (arg 0 a)) (getL (arg 1 a)) [] 1)
  else if String.eqb cmd "py_int" then
    match py_int (getS a) with Some z => VL [VZ z] | None => VL [] end
  else if String.eqb cmd "str_of_Z" then VS (str_of_Z (getZ a))
  else if String.eqb cmd "utf8" then
    match py_utf8_decode (getS a) with Some s => VL [VS s] | None => VL [] end
  else VErr "unknown command".
