(* Model of nobodd/tftp.py: the six packet classes, bytes(packet) and
   Packet.from_bytes.  Executable definitions only. *)
From Coq Require Import List NArith ZArith Bool.
From NV Require Import Lib.Res Lib.PyInt Gen.Tftp.
Import ListNotations.
Open Scope N_scope.

Definition str := list N.           (* python str: code points *)
Definition bytes := list N.

Inductive oval := OStr (s : str) | OInt (z : Z).
Definition oval_str (v : oval) : str :=
  match v with OStr s => s | OInt z => str_of_Z z end.
Definition options := list (str * oval).   (* insertion-ordered dict, unique keys *)

Inductive packet :=
| RRQ (filename : str) (mode : str) (opts : options)
| WRQ (filename : str) (mode : str) (opts : options)
| DATA (block : N) (data : bytes)
| ACK (block : N)
| ERROR (code : N) (message : str)
| OACK (opts : options).

Definition opcode_of (p : packet) : N :=
  match p with
  | RRQ _ _ _ => op_RRQ | WRQ _ _ _ => op_WRQ | DATA _ _ => op_DATA
  | ACK _ => op_ACK | ERROR _ _ => op_ERROR | OACK _ => op_OACK
  end.

Definition be16 (n : N) : bytes := [n / 256; n mod 256].

(* str.encode('ascii') *)
Definition all_lt (k : N) (s : list N) : bool := forallb (fun c => c <? k) s.
Definition enc_ascii (s : str) : res bytes :=
  if all_lt 128 s then Ok s else Err UnicodeEncodeError.

Fixpoint ser_options (o : options) : res bytes :=
  match o with
  | [] => Ok []
  | (k, v) :: r =>
    do kb <- enc_ascii k;
    do vb <- enc_ascii (oval_str v);
    do rb <- ser_options r;
    Ok (kb ++ [0] ++ vb ++ [0] ++ rb)
  end.

(* bytes(packet) *)
Definition serialize (p : packet) : res bytes :=
  match p with
  | RRQ f m o | WRQ f m o =>
    do fb <- enc_ascii f;
    do mb <- enc_ascii m;
    do ob <- ser_options o;
    Ok (be16 (opcode_of p) ++ fb ++ [0] ++ mb ++ [0] ++ ob)
  | DATA b d => Ok (be16 op_DATA ++ be16 b ++ d)
  | ACK b => Ok (be16 op_ACK ++ be16 b)
  | ERROR c m =>
    do mb <- enc_ascii m;
    Ok (be16 op_ERROR ++ be16 c ++ mb ++ [0])
  | OACK o =>
    do ob <- ser_options o;
    Ok (be16 op_OACK ++ ob)
  end.

(* ---- parsing ---- *)
Fixpoint span (p : N -> bool) (l : list N) : list N * list N :=
  match l with
  | [] => ([], [])
  | c :: r => if p c then let x := span p r in (c :: fst x, snd x) else ([], l)
  end.

Definition ge20 (c : N) : bool := 32 <=? c.
Definition is_alpha (c : N) : bool :=
  ((65 <=? c) && (c <=? 90)) || ((97 <=? c) && (c <=? 122)).
Definition nonzero (c : N) : bool := negb (c =? 0).

(* the sequence of (name NUL value NUL) groups matched by
   (?:[\x20-\xFF]+\0[\x01-\xFF]*\0)* at the start of l (fuel = length) *)
Fixpoint prefix_pairs (fuel : nat) (l : list N) : list (bytes * bytes) :=
  match fuel with
  | O => []
  | S f =>
    let n := span ge20 l in
    match fst n, snd n with
    | _ :: _, 0 :: r1 =>
      let v := span nonzero r1 in
      match snd v with
      | 0 :: r2 => (fst n, fst v) :: prefix_pairs f r2
      | _ => []
      end
    | _, _ => []
    end
  end.

(* options_re.finditer over arbitrary bytes (leftmost, non-overlapping) *)
Fixpoint find_pairs (fuel : nat) (l : list N) : list (bytes * bytes) :=
  match fuel with
  | O => []
  | S f =>
    match l with
    | [] => []
    | c :: rest =>
      if ge20 c then
        let n := span ge20 l in
        match snd n with
        | 0 :: r1 =>
          let v := span nonzero r1 in
          match snd v with
          | 0 :: r2 => (fst n, fst v) :: find_pairs f r2
          | _ => []          (* no terminating NUL anywhere after: no further match *)
          end
        | _ :: r1 => find_pairs f r1   (* run ended by a control byte: skip past it *)
        | [] => []
        end
      else find_pairs f rest
    end
  end.

Definition dec_ascii_strict (b : bytes) : res str :=
  if all_lt 128 b then Ok b else Err UnicodeDecodeError.

Fixpoint list_eqb_N (a b : list N) : bool :=
  match a, b with
  | [], [] => true
  | x :: a', y :: b' => (x =? y) && list_eqb_N a' b'
  | _, _ => false
  end.

Fixpoint dict_set (k : str) (v : oval) (d : options) : options :=
  match d with
  | [] => [(k, v)]
  | (k', v') :: r => if list_eqb_N k k' then (k, v) :: r else (k', v') :: dict_set k v r
  end.

(* {name.decode('ascii').lower(): value.decode('ascii').lower() for match in ...} *)
Fixpoint dict_of_pairs (ps : list (bytes * bytes)) (acc : options) : res options :=
  match ps with
  | [] => Ok acc
  | (n, v) :: r =>
    do ns <- dec_ascii_strict n;
    do vs <- dec_ascii_strict v;
    dict_of_pairs r (dict_set (lower ns) (OStr (lower vs)) acc)
  end.

Definition mode_ok (m : str) : bool :=
  existsb (list_eqb_N m) tftp_modes.

Definition parse_rq (mk : str -> str -> options -> packet) (data : bytes) : res packet :=
  let f := span ge20 data in
  match fst f, snd f with
  | _ :: _, 0 :: r1 =>
    let m := span is_alpha r1 in
    match fst m, snd m with
    | _ :: _, 0 :: r2 =>
      match py_utf8_decode (fst f) with
      | None => Err UnicodeDecodeError
      | Some fname =>
        let mode := lower (fst m) in
        if mode_ok mode then
          do o <- dict_of_pairs (prefix_pairs (length r2) r2) [];
          Ok (mk fname mode o)
        else Err ValueError
      end
    | _, _ => Err ValueError
    end
  | _, _ => Err ValueError
  end.

Fixpoint rstrip0 (l : list N) : list N :=
  match l with
  | [] => []
  | c :: r => match rstrip0 r with
              | [] => if c =? 0 then [] else [c]
              | r' => c :: r'
              end
  end.

Definition dec_ascii_replace (b : bytes) : str :=
  map (fun c => if c <? 128 then c else 65533) b.

(* Packet.from_bytes *)
Definition parse (s : bytes) : res packet :=
  match s with
  | h :: l :: data =>
    let opcode := h * 256 + l in
    if opcode =? op_RRQ then parse_rq RRQ data
    else if opcode =? op_WRQ then parse_rq WRQ data
    else if opcode =? op_DATA then
      match data with
      | bh :: bl :: payload =>
        let b := bh * 256 + bl in
        if (data_block_min <=? b) && (b <=? data_block_max) then Ok (DATA b payload)
        else Err ValueError
      | _ => Err StructError
      end
    else if opcode =? op_ACK then
      match data with
      | bh :: bl :: _ =>
        let b := bh * 256 + bl in
        if (ack_block_min <=? b) && (b <=? ack_block_max) then Ok (ACK b) else Err ValueError
      | _ => Err StructError
      end
    else if opcode =? op_ERROR then
      match data with
      | ch :: cl :: msg =>
        let c := ch * 256 + cl in
        if existsb (N.eqb c) error_codes
        then Ok (ERROR c (dec_ascii_replace (rstrip0 msg)))
        else Err ValueError
      | _ => Err StructError
      end
    else if opcode =? op_OACK then
      do o <- dict_of_pairs (find_pairs (length data) data) [];
      Ok (OACK o)
    else Err ValueError
  | _ => Err StructError
  end.

(* constructors as the Python __init__ methods validate them *)
Definition mk_DATA (b : N) (d : bytes) : res packet :=
  if (data_block_min <=? b) && (b <=? data_block_max) then Ok (DATA b d) else Err ValueError.
Definition default_message (c : N) : option str :=
  match find (fun x => fst x =? c) error_messages with
  | Some x => Some (snd x) | None => None end.
