(* Lemmas about the tree and world primitives of Shell/Model.v. *)
From Coq Require Import List NArith Bool Lia.
From NV Require Import Lib.Val Lib.Res Shell.Model.
Import ListNotations.
Open Scope N_scope.

Lemma bytes_eqb_eq : forall a b, bytes_eqb a b = true <-> a = b.
Proof.
  unfold bytes_eqb. induction a as [|x a IH]; destruct b as [|y b]; cbn [list_eqb]; split; intro H;
    try reflexivity; try discriminate.
  - apply andb_true_iff in H as [H1 H2]. apply N.eqb_eq in H1. apply IH in H2. now subst.
  - inversion H; subst. apply andb_true_iff; split; [apply N.eqb_refl | now apply IH].
Qed.

(* nested induction over nodes *)
Fixpoint node_ind' (P : node -> Prop) (HF : forall c, P (File c))
         (HD : forall ch, Forall (fun e => P (snd e)) ch -> P (Dir ch)) (n : node) : P n :=
  match n with
  | File c => HF c
  | Dir ch => HD ch ((fix go (l : list (name * node)) : Forall (fun e => P (snd e)) l :=
                        match l with
                        | [] => Forall_nil _
                        | e :: r => Forall_cons e (node_ind' P HF HD (snd e)) (go r)
                        end) ch)
  end.

Section Tree.
Variable kf : name -> name.
Notation keq := (keq kf).
Notation find := (find kf).
Notation upd := (upd kf).
Notation del := (del kf).
Notation walk := (walk kf).
Notation put := (put kf).
Notation rem := (rem kf).
Notation prefix := (prefix kf).

Lemma keq_iff : forall a b, keq a b = true <-> kf a = kf b.
Proof. intros; unfold Model.keq; apply bytes_eqb_eq. Qed.
Lemma keq_refl : forall a, keq a a = true.
Proof. intros; now apply keq_iff. Qed.
Lemma keq_sym : forall a b, keq a b = keq b a.
Proof.
  intros. destruct (keq a b) eqn:E, (keq b a) eqn:F; try reflexivity.
  - apply keq_iff in E. symmetry in E. apply keq_iff in E. congruence.
  - apply keq_iff in F. symmetry in F. apply keq_iff in F. congruence.
Qed.
Lemma keq_right : forall x a b, keq a b = true -> keq x a = keq x b.
Proof. intros x a b H. apply keq_iff in H. unfold Model.keq. now rewrite H. Qed.
Lemma keq_left : forall x a b, keq a b = true -> keq a x = keq b x.
Proof. intros x a b H. apply keq_iff in H. unfold Model.keq. now rewrite H. Qed.

(* ------------------------------------------------------------------ find / upd / del *)
Lemma find_keq : forall k k' l, keq k k' = true -> find k l = find k' l.
Proof.
  intros k k' l H. induction l as [|[x v] l IH]; cbn [Model.find]; [reflexivity|].
  rewrite (keq_right x k k' H), IH. reflexivity.
Qed.

Lemma find_upd_same : forall k v l, find k (upd k v l) = Some v.
Proof.
  intros k v l. induction l as [|[x y] l IH]; cbn [Model.upd Model.find].
  - now rewrite keq_refl.
  - destruct (keq x k) eqn:E; cbn [Model.find]; rewrite E; [reflexivity | exact IH].
Qed.

Lemma find_upd_other : forall k k' v l, keq k k' = false -> find k' (upd k v l) = find k' l.
Proof.
  intros k k' v l H. induction l as [|[x y] l IH]; cbn [Model.upd Model.find].
  - now rewrite H.
  - destruct (keq x k) eqn:E; cbn [Model.find].
    + rewrite (keq_left k' x k E), H. reflexivity.
    + now rewrite IH.
Qed.

Lemma find_del_same : forall k l, find k (del k l) = None.
Proof.
  intros k l. unfold Model.del. induction l as [|[x y] l IH]; cbn [filter Model.find fst]; [reflexivity|].
  destruct (keq x k) eqn:E; cbn [negb Model.find]; [exact IH | now rewrite E].
Qed.

Lemma find_del_other : forall k k' l, keq k k' = false -> find k' (del k l) = find k' l.
Proof.
  intros k k' l H. unfold Model.del. induction l as [|[x y] l IH]; cbn [filter Model.find fst]; [reflexivity|].
  destruct (keq x k) eqn:E; cbn [negb Model.find].
  - rewrite (keq_left k' x k E), H. exact IH.
  - now rewrite IH.
Qed.

Lemma upd_upd : forall k a b l, upd k b (upd k a l) = upd k b l.
Proof.
  intros k a b l. induction l as [|[x y] l IH]; cbn [Model.upd].
  - now rewrite keq_refl.
  - destruct (keq x k) eqn:E; cbn [Model.upd]; rewrite E; [reflexivity | now rewrite IH].
Qed.

Lemma upd_same : forall k v l, find k l = Some v -> upd k v l = l.
Proof.
  intros k v l. induction l as [|[x y] l IH]; cbn [Model.upd Model.find]; [discriminate|].
  destruct (keq x k); intro H; [now inversion H | now rewrite IH].
Qed.

(* appending a name that is not there *)
Lemma upd_fresh : forall k v l, find k l = None -> upd k v l = l ++ [(k, v)].
Proof.
  intros k v l. induction l as [|[x y] l IH]; cbn [Model.upd Model.find app]; [reflexivity|].
  destruct (keq x k); intro H; [discriminate | now rewrite IH].
Qed.

Lemma find_app_none : forall k l k' v, find k l = None -> find k (l ++ [(k', v)]) = if keq k' k then Some v else None.
Proof.
  intros k l k' v. induction l as [|[x y] l IH]; cbn [Model.find app]; [reflexivity|].
  destruct (keq x k); [discriminate | exact IH].
Qed.

(* ------------------------------------------------------------------ walk *)
Lemma walk_app : forall p s n,
  walk n (p ++ s) = match walk n p with LNode m => walk m s | o => o end.
Proof.
  induction p as [|k r IH]; intros s n; cbn [app Model.walk]; [reflexivity|].
  destruct n as [c|ch]; [reflexivity|]. destruct (find k ch); [apply IH | reflexivity].
Qed.

Lemma walk_peq : forall p q n, list_eqb keq p q = true -> walk n p = walk n q.
Proof.
  induction p as [|k r IH]; intros [|k' r'] n H; cbn [list_eqb] in H; try discriminate; [reflexivity|].
  apply andb_true_iff in H as [H1 H2]. cbn [Model.walk]. destruct n as [c|ch]; [reflexivity|].
  rewrite (find_keq k k' ch H1). destruct (find k' ch); [now apply IH | reflexivity].
Qed.

Definition has_parent (n : node) (p : list name) : Prop :=
  p = [] \/ exists ch, walk n (removelast p) = LNode (Dir ch).

Lemma walk_has_parent : forall p n x, walk n p = LNode x -> has_parent n p.
Proof.
  induction p as [|k r IH]; intros n x H; [now left|]. right.
  cbn [Model.walk] in H. destruct n as [c|ch]; [discriminate|].
  destruct (find k ch) as [c|] eqn:F; [|discriminate].
  destruct r as [|k2 r2].
  - exists ch. reflexivity.
  - destruct (IH c x H) as [E|[ch' E]]; [discriminate|].
    exists ch'. change (removelast (k :: k2 :: r2)) with (k :: removelast (k2 :: r2)).
    cbn [Model.walk]. now rewrite F.
Qed.

(* ------------------------------------------------------------------ put *)
Lemma put_nil : forall n v, put n [] v = v.
Proof. reflexivity. Qed.

Lemma put_single : forall ch k v, put (Dir ch) [k] v = Dir (upd k v ch).
Proof. intros. cbn [Model.put]. destruct (find k ch); reflexivity. Qed.

Lemma walk_put_below : forall p n v s, has_parent n p -> walk (put n p v) (p ++ s) = walk v s.
Proof.
  induction p as [|k r IH]; intros n v s H; [reflexivity|].
  destruct H as [H|[ch H]]; [discriminate|].
  destruct r as [|k2 r2].
  - cbn [removelast Model.walk] in H. inversion H; subst n. rewrite put_single.
    cbn [app Model.walk]. now rewrite find_upd_same.
  - change (removelast (k :: k2 :: r2)) with (k :: removelast (k2 :: r2)) in H.
    cbn [Model.walk] in H. destruct n as [c|ch0]; [discriminate|].
    destruct (find k ch0) as [c|] eqn:F; [|discriminate].
    cbn [Model.put]. rewrite F. change ((k :: k2 :: r2) ++ s) with (k :: ((k2 :: r2) ++ s)).
    cbn [Model.walk]. rewrite find_upd_same. apply IH. right. now exists ch.
Qed.

Lemma walk_put_same : forall p n v, has_parent n p -> walk (put n p v) p = LNode v.
Proof. intros. rewrite <- (app_nil_r p) at 2. now rewrite walk_put_below. Qed.

(* frame: a path that is neither above nor below p resolves as before *)
Lemma walk_put_other : forall p q n v,
  prefix p q = false -> prefix q p = false -> walk (put n p v) q = walk n q.
Proof.
  induction p as [|k r IH]; intros q n v H1 H2; [discriminate|].
  destruct q as [|k' r']; [discriminate|].
  cbn [Model.prefix] in H1, H2. cbn [Model.put]. destruct n as [c|ch]; [reflexivity|].
  destruct (keq k k') eqn:E.
  - rewrite keq_sym, E in H2. cbn [andb] in H1, H2.
    destruct (find k ch) as [c|] eqn:F.
    + cbn [Model.walk]. rewrite <- (find_keq k k' _ E), find_upd_same, <- (find_keq k k' _ E), F.
      now apply IH.
    + destruct r; [discriminate H1 | reflexivity].
  - assert (forall x, walk (Dir (upd k x ch)) (k' :: r') = walk (Dir ch) (k' :: r')) as A.
    { intro x. cbn [Model.walk]. now rewrite find_upd_other. }
    destruct (find k ch); [apply A | destruct r; [apply A | reflexivity]].
Qed.

Lemma put_put : forall p n a b, put (put n p a) p b = put n p b.
Proof.
  induction p as [|k r IH]; intros n a b; [reflexivity|].
  cbn [Model.put]. destruct n as [c|ch]; [reflexivity|].
  destruct (find k ch) as [c|] eqn:F.
  - cbn [Model.put]. rewrite find_upd_same, IH, upd_upd. reflexivity.
  - destruct r.
    + cbn [Model.put]. rewrite find_upd_same, upd_upd. reflexivity.
    + cbn [Model.put]. now rewrite F.
Qed.

Lemma put_same : forall p n x, walk n p = LNode x -> put n p x = n.
Proof.
  induction p as [|k r IH]; intros n x H; cbn [Model.walk] in H; [now inversion H|].
  destruct n as [c|ch]; [discriminate|]. destruct (find k ch) as [c|] eqn:F; [|discriminate].
  cbn [Model.put]. rewrite F, (IH c x H), upd_same; auto.
Qed.

(* writing a child of the directory at p = rewriting that directory *)
Lemma put_child : forall p n acc k v,
  walk n p = LNode (Dir acc) -> put n (p ++ [k]) v = put n p (Dir (upd k v acc)).
Proof.
  induction p as [|k0 r IH]; intros n acc k v H; cbn [Model.walk] in H.
  - inversion H; subst n. apply put_single.
  - destruct n as [c|ch]; [discriminate|]. destruct (find k0 ch) as [c|] eqn:F; [|discriminate].
    change ((k0 :: r) ++ [k]) with (k0 :: (r ++ [k])). cbn [Model.put]. rewrite F.
    rewrite (IH c acc k v H). destruct (r ++ [k]) eqn:E; [now destruct r|]. reflexivity.
Qed.

Lemma walk_child : forall p n acc k,
  walk n p = LNode (Dir acc) ->
  walk n (p ++ [k]) = match find k acc with Some c => LNode c | None => LNone end.
Proof. intros. rewrite walk_app, H. cbn [Model.walk]. now destruct (find k acc). Qed.

(* ------------------------------------------------------------------ rem *)
Lemma walk_rem_gone : forall p n s x, p <> [] -> walk (rem n p) (p ++ s) <> LNode x.
Proof.
  induction p as [|k r IH]; intros n s x Hp; [congruence|].
  cbn [Model.rem]. destruct n as [c|ch]; [cbn; discriminate|].
  destruct r as [|k2 r2].
  - cbn [app Model.walk]. now rewrite find_del_same.
  - change ((k :: k2 :: r2) ++ s) with (k :: ((k2 :: r2) ++ s)).
    destruct (find k ch) as [c|] eqn:F; cbn [Model.walk].
    + rewrite find_upd_same. apply IH. discriminate.
    + now rewrite F.
Qed.

Lemma walk_rem_other : forall p q n,
  prefix p q = false -> prefix q p = false -> walk (rem n p) q = walk n q.
Proof.
  induction p as [|k r IH]; intros q n H1 H2; [discriminate|].
  destruct q as [|k' r']; [discriminate|].
  cbn [Model.prefix] in H1, H2. cbn [Model.rem]. destruct n as [c|ch]; [reflexivity|].
  destruct (keq k k') eqn:E.
  - rewrite keq_sym, E in H2. cbn [andb] in H1, H2.
    destruct r as [|k2 r2]; [discriminate H1|].
    destruct (find k ch) as [c|] eqn:F; [|reflexivity].
    cbn [Model.walk]. rewrite <- (find_keq k k' _ E), find_upd_same, <- (find_keq k k' _ E), F.
    now apply IH.
  - destruct r as [|k2 r2].
    + cbn [Model.walk]. now rewrite find_del_other.
    + destruct (find k ch); [|reflexivity]. cbn [Model.walk]. now rewrite find_upd_other.
Qed.

Lemma del_upd : forall k v l, del k (upd k v l) = del k l.
Proof.
  intros k v l. unfold Model.del. induction l as [|[x y] l IH]; cbn [Model.upd filter fst].
  - now rewrite keq_refl.
  - destruct (keq x k) eqn:E; cbn [filter fst]; rewrite E; cbn [negb]; [reflexivity | now rewrite IH].
Qed.

Lemma rem_cons2 : forall ch k k2 r,
  rem (Dir ch) (k :: k2 :: r) =
  match find k ch with Some c => Dir (upd k (rem c (k2 :: r)) ch) | None => Dir ch end.
Proof. reflexivity. Qed.

(* removing something inside a directory and then the directory = removing the directory *)
Lemma rem_inside : forall p s n, p <> [] -> rem (rem n (p ++ s)) p = rem n p.
Proof.
  induction p as [|k r IH]; intros s n Hp; [congruence|].
  destruct n as [c|ch]; [destruct r; reflexivity|].
  destruct r as [|k2 r2].
  - cbn [app]. destruct s as [|k3 s3]; cbn [Model.rem].
    + unfold Model.del. f_equal. induction ch as [|[x y] ch IHc]; cbn [filter fst]; [reflexivity|].
      destruct (keq x k) eqn:E; cbn [negb filter fst]; [exact IHc | rewrite E; cbn [negb]; now rewrite IHc].
    + destruct (find k ch); [now rewrite del_upd | reflexivity].
  - change ((k :: k2 :: r2) ++ s) with (k :: k2 :: (r2 ++ s)).
    rewrite rem_cons2. destruct (find k ch) as [c|] eqn:F.
    + rewrite rem_cons2, find_upd_same, upd_upd.
      change (k2 :: r2 ++ s) with ((k2 :: r2) ++ s). rewrite IH by discriminate.
      rewrite rem_cons2, F. reflexivity.
    + now rewrite rem_cons2, F.
Qed.

(* ------------------------------------------------------------------ prefix *)
Lemma prefix_app : forall p s, prefix p (p ++ s) = true.
Proof. induction p; intros; cbn [app Model.prefix]; [reflexivity | now rewrite keq_refl, IHp]. Qed.

Lemma prefix_refl : forall p, prefix p p = true.
Proof. intros. rewrite <- (app_nil_r p) at 2. apply prefix_app. Qed.

Lemma prefix_trans : forall a b c, prefix a b = true -> prefix b c = true -> prefix a c = true.
Proof.
  induction a as [|x a IH]; intros [|y b] [|z c] H1 H2; cbn [Model.prefix] in *; try discriminate; try reflexivity.
  apply andb_true_iff in H1 as [H1 H1'], H2 as [H2 H2'].
  rewrite (keq_right x y z H2) in H1. rewrite H1. cbn [andb]. eapply IH; eauto.
Qed.

Lemma prefix_comparable : forall a b c,
  prefix a c = true -> prefix b c = true -> prefix a b = true \/ prefix b a = true.
Proof.
  induction a as [|x a IH]; intros [|y b] [|z c] H1 H2; cbn [Model.prefix] in *; try discriminate; auto.
  apply andb_true_iff in H1 as [H1 H1'], H2 as [H2 H2'].
  assert (keq x y = true) as E. { rewrite (keq_right x y z H2). exact H1. }
  rewrite E, (keq_sym y x), E. cbn [andb]. eapply IH; eauto.
Qed.

Lemma prefix_peq : forall a b, list_eqb keq a b = true -> prefix a b = true.
Proof.
  induction a as [|x a IH]; intros [|y b] H; cbn [list_eqb Model.prefix] in *; try discriminate; auto.
  apply andb_true_iff in H as [H1 H2]. now rewrite H1, IH.
Qed.

Lemma peq_sym : forall a b, list_eqb keq a b = list_eqb keq b a.
Proof.
  induction a as [|x a IH]; intros [|y b]; cbn [list_eqb]; try reflexivity. now rewrite keq_sym, IH.
Qed.

Definition incomparable (q p : list name) : Prop := prefix p q = false /\ prefix q p = false.

(* what is disjoint from p is disjoint from everything below p *)
Lemma incomparable_below : forall p p' q,
  prefix p p' = true -> incomparable q p -> incomparable q p'.
Proof.
  intros p p' q H [H1 H2]. split.
  - destruct (prefix p' q) eqn:E; [|reflexivity]. now rewrite (prefix_trans _ _ _ H E) in H1.
  - destruct (prefix q p') eqn:E; [|reflexivity].
    destruct (prefix_comparable _ _ _ E H); congruence.
Qed.
End Tree.

(* ------------------------------------------------------------------ worlds *)
Lemma getfs_setfs_same : forall w i n, getfs w i <> None -> getfs (setfs w i n) i = Some n.
Proof.
  induction w as [|[j x] w IH]; intros i n H; cbn [getfs setfs] in *; [congruence|].
  destruct (j =? i) eqn:E; cbn [getfs]; rewrite E; [reflexivity | now apply IH].
Qed.

Lemma getfs_setfs_other : forall w i j n, i <> j -> getfs (setfs w i n) j = getfs w j.
Proof.
  induction w as [|[k x] w IH]; intros i j n H; cbn [getfs setfs]; [reflexivity|].
  destruct (k =? i) eqn:E; cbn [getfs].
  - apply N.eqb_eq in E; subst k. destruct (i =? j) eqn:F; [apply N.eqb_eq in F; congruence | reflexivity].
  - destruct (k =? j); [reflexivity | now apply IH].
Qed.

Lemma setfs_setfs : forall w i a b, setfs (setfs w i a) i b = setfs w i b.
Proof.
  induction w as [|[k x] w IH]; intros i a b; cbn [setfs]; [reflexivity|].
  destruct (k =? i) eqn:E; cbn [setfs]; rewrite E; [reflexivity | now rewrite IH].
Qed.

Lemma setfs_same : forall w i n, getfs w i = Some n -> setfs w i n = w.
Proof.
  induction w as [|[k x] w IH]; intros i n H; cbn [getfs setfs] in *; [reflexivity|].
  destruct (k =? i); [now inversion H | now rewrite IH].
Qed.

Lemma setfs_comm : forall w i j a b, i <> j -> setfs (setfs w i a) j b = setfs (setfs w j b) i a.
Proof.
  induction w as [|[k x] w IH]; intros i j a b H; cbn [setfs]; [reflexivity|].
  destruct (k =? i) eqn:E, (k =? j) eqn:F; cbn [setfs]; rewrite ?E, ?F; try reflexivity.
  - apply N.eqb_eq in E, F. congruence.
  - now rewrite IH.
Qed.

Lemma setfs_fst : forall w i n, map fst (setfs w i n) = map fst w.
Proof.
  induction w as [|[k x] w IH]; intros; cbn [setfs map fst]; [reflexivity|].
  destruct (k =? i) eqn:E; cbn [map fst]; [reflexivity | now rewrite IH].
Qed.

Section World.
Variable fold : name -> name.
Notation key := (key fold).
Notation wwalk := (wwalk fold).
Notation wlookup := (wlookup fold).
Notation wput := (wput fold).
Notation wrem := (wrem fold).
Notation below := (below fold).

Definition disjoint (q p : path) : Prop := below p q = false /\ below q p = false.

Definition whas_parent (w : world) (p : path) : Prop :=
  exists r, getfs w (fst p) = Some r /\ has_parent (key (fst p)) r (snd p).

Lemma wwalk_has_parent : forall w p x, wwalk w p = LNode x -> whas_parent w p.
Proof.
  unfold Model.wwalk, whas_parent. intros w p x H. destruct (getfs w (fst p)) as [r|]; [|discriminate].
  exists r. split; [reflexivity|]. eapply walk_has_parent; eauto.
Qed.

Lemma parent_is_dir_has_parent : forall w p, parent_is_dir fold w p = true -> whas_parent w p.
Proof.
  unfold parent_is_dir, Model.wwalk, parent, whas_parent. cbn [fst snd]. intros w p H.
  destruct (getfs w (fst p)) as [r|]; [|discriminate]. exists r. split; [reflexivity|].
  destruct (walk (key (fst p)) r (removelast (snd p))) as [| |[c|ch]] eqn:E; try discriminate.
  right. now exists ch.
Qed.

Lemma wwalk_wput_below : forall w p v s, whas_parent w p ->
  wwalk (wput w p v) (fst p, snd p ++ s) = walk (key (fst p)) v s.
Proof.
  intros w p v s (r & G & H). unfold Model.wwalk, Model.wput. cbn [fst snd]. rewrite G.
  rewrite getfs_setfs_same by congruence. now apply walk_put_below.
Qed.

Lemma wwalk_wput_same : forall w p v, whas_parent w p -> wwalk (wput w p v) p = LNode v.
Proof.
  intros w [i p] v H. pose proof (wwalk_wput_below w (i, p) v [] H) as A.
  cbn [fst snd] in A. now rewrite app_nil_r in A.
Qed.

Lemma wwalk_wput_other : forall w p q v, disjoint q p -> wwalk (wput w p v) q = wwalk w q.
Proof.
  intros w [i p] [j q] v [H1 H2]. unfold Model.wwalk, Model.wput, Model.below in *. cbn [fst snd] in *.
  destruct (getfs w i) as [r|] eqn:G; [|reflexivity].
  destruct (N.eq_dec i j) as [->|N].
  - rewrite N.eqb_refl in H1, H2. cbn [andb] in *. rewrite G, getfs_setfs_same by congruence.
    now apply walk_put_other.
  - now rewrite getfs_setfs_other.
Qed.

Lemma wput_wput : forall w p a b, wput (wput w p a) p b = wput w p b.
Proof.
  intros w [i p] a b. unfold Model.wput. cbn [fst snd]. destruct (getfs w i) as [r|] eqn:G.
  - rewrite getfs_setfs_same by congruence. now rewrite setfs_setfs, put_put.
  - now rewrite G.
Qed.

Lemma wput_same : forall w p x, wwalk w p = LNode x -> wput w p x = w.
Proof.
  intros w [i p] x. unfold Model.wwalk, Model.wput. cbn [fst snd]. destruct (getfs w i) as [r|] eqn:G; [|reflexivity].
  intro H. rewrite (put_same _ _ _ _ H). now apply setfs_same.
Qed.

Lemma wput_child : forall w p acc k v, wwalk w p = LNode (Dir acc) ->
  wput w (join p k) v = wput w p (Dir (upd (key (fst p)) k v acc)).
Proof.
  intros w [i p] acc k v. unfold Model.wwalk, Model.wput, join. cbn [fst snd].
  destruct (getfs w i) as [r|]; [|reflexivity]. intro H. now rewrite (put_child _ _ _ _ _ _ H).
Qed.

Lemma wwalk_child : forall w p acc k, wwalk w p = LNode (Dir acc) ->
  wwalk w (join p k) = match find (key (fst p)) k acc with Some c => LNode c | None => LNone end.
Proof.
  intros w [i p] acc k. unfold Model.wwalk, join. cbn [fst snd].
  destruct (getfs w i) as [r|]; [|discriminate]. intro H. now apply walk_child.
Qed.

Lemma wwalk_wrem_gone : forall w p s x, snd p <> [] -> wwalk (wrem w p) (fst p, snd p ++ s) <> LNode x.
Proof.
  intros w [i p] s x Hp. unfold Model.wwalk, Model.wrem. cbn [fst snd] in *.
  destruct (getfs w i) as [r|] eqn:G.
  - rewrite getfs_setfs_same by congruence. now apply walk_rem_gone.
  - rewrite G. discriminate.
Qed.

Lemma wwalk_wrem_other : forall w p q, disjoint q p -> wwalk (wrem w p) q = wwalk w q.
Proof.
  intros w [i p] [j q] [H1 H2]. unfold Model.wwalk, Model.wrem, Model.below in *. cbn [fst snd] in *.
  destruct (getfs w i) as [r|] eqn:G; [|reflexivity].
  destruct (N.eq_dec i j) as [->|N].
  - rewrite N.eqb_refl in H1, H2. cbn [andb] in *. rewrite G, getfs_setfs_same by congruence.
    now apply walk_rem_other.
  - now rewrite getfs_setfs_other.
Qed.

Lemma below_refl : forall p, below p p = true.
Proof. intros [i p]. unfold Model.below. cbn [fst snd]. now rewrite N.eqb_refl, prefix_refl. Qed.

Lemma below_join : forall p k, below p (join p k) = true.
Proof. intros [i p] k. unfold Model.below, join. cbn [fst snd]. now rewrite N.eqb_refl, prefix_app. Qed.

Lemma below_trans : forall a b c, below a b = true -> below b c = true -> below a c = true.
Proof.
  intros [i a] [j b] [k c]. unfold Model.below. cbn [fst snd]. intros H1 H2.
  apply andb_true_iff in H1 as [E1 P1], H2 as [E2 P2]. apply N.eqb_eq in E1, E2. subst j k.
  rewrite N.eqb_refl. cbn [andb]. eapply prefix_trans; eauto.
Qed.

Lemma disjoint_below : forall p p' q, below p p' = true -> disjoint q p -> disjoint q p'.
Proof.
  intros [i p] [j p'] [k q]. unfold disjoint, Model.below. cbn [fst snd]. intros H [H1 H2].
  apply andb_true_iff in H as [E P]. apply N.eqb_eq in E. subst j.
  destruct (i =? k) eqn:E1; cbn [andb] in *.
  - apply N.eqb_eq in E1. subst k. rewrite N.eqb_refl in *. cbn [andb] in *.
    now apply (incomparable_below _ p p' q P).
  - split; [reflexivity|]. rewrite N.eqb_sym, E1. reflexivity.
Qed.
End World.
