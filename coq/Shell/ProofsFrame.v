(* Frame: what a command of Shell/Model.v can change, whatever its outcome. *)
From Coq Require Import List NArith Bool Lia.
From NV Require Import Lib.Val Lib.Res Shell.Model Shell.ProofsTree.
Import ListNotations.
Open Scope N_scope.

Section Frame.
Variable fold : name -> name.
Notation key := (key fold).
Notation wwalk := (wwalk fold).
Notation wput := (wput fold).
Notation wrem := (wrem fold).
Notation below := (below fold).
Notation disjoint := (disjoint fold).

(* the loops inside copy_node / move_node, named *)
Definition copy_list (r : bool) (sp dp : path) :=
  fix go (l : list (name * node)) (w : world) : world * res unit :=
    match l with
    | [] => (w, Ok tt)
    | (k, c) :: rest =>
      match copy_node fold r c (join sp k) (join dp k) w with
      | (w', Ok _) => go rest w'
      | (w', Err e) => (w', Err e)
      end
    end.

Lemma copy_node_dir : forall r ch sp dp w,
  copy_node fold r (Dir ch) sp dp w =
  if r then match p_mkdir fold w dp true with
            | Err e => (w, Err e)
            | Ok w1 => copy_list r sp dp ch w1
            end
  else match ch with [] => lift w (p_mkdir fold w dp false) | _ :: _ => (w, Err IsADirectory) end.
Proof. reflexivity. Qed.

Lemma copy_node_file : forall r c sp dp w,
  copy_node fold r (File c) sp dp w =
  if (fst sp =? fst dp) && exists_b fold w dp && patheq fold sp dp then (w, Err ValueError)
  else lift w (p_write fold w dp c).
Proof. reflexivity. Qed.

Definition move_list (sp dp : path) :=
  fix go (l : list (name * node)) (w : world) : world * res unit :=
    match l with
    | [] => (w, Ok tt)
    | (k, c) :: rest =>
      match move_node fold c (join sp k) (join dp k) w with
      | (w', Ok _) => go rest w'
      | (w', Err e) => (w', Err e)
      end
    end.

Lemma move_node_dir : forall ch sp dp w,
  move_node fold (Dir ch) sp dp w =
  match p_mkdir fold w dp true with
  | Err e => (w, Err e)
  | Ok w1 => match move_list sp dp ch w1 with
             | (w2, Ok _) => lift w2 (p_rmdir fold w2 sp)
             | (w2, Err e) => (w2, Err e)
             end
  end.
Proof. reflexivity. Qed.

Lemma move_node_file : forall c sp dp w,
  move_node fold (File c) sp dp w =
  match p_write fold w dp c with
  | Err e => (w, Err e)
  | Ok w1 => lift w1 (p_unlink fold w1 sp)
  end.
Proof. reflexivity. Qed.

(* ------------------------------------------------------------------ frames *)
Definition frame (P : list path) (w w' : world) : Prop :=
  forall q, (forall p, In p P -> disjoint q p) -> wwalk w' q = wwalk w q.

Lemma frame_refl : forall P w, frame P w w.
Proof. intros P w q _. reflexivity. Qed.

Lemma frame_trans : forall P w w1 w2, frame P w w1 -> frame P w1 w2 -> frame P w w2.
Proof. intros P w w1 w2 A B q H. rewrite (B q H). now apply A. Qed.

(* every written path of P' lies at or below one of P *)
Lemma frame_cover : forall P P' w w',
  (forall p', In p' P' -> exists p, In p P /\ below p p' = true) -> frame P' w w' -> frame P w w'.
Proof.
  intros P P' w w' C F q H. apply F. intros p' I. destruct (C p' I) as (p & Ip & B).
  eapply disjoint_below; eauto.
Qed.

Lemma frame_mono : forall P P' w w', incl P' P -> frame P' w w' -> frame P w w'.
Proof.
  intros P P' w w' I. apply frame_cover. intros p' Hp. exists p'. split; [now apply I | apply below_refl].
Qed.

Lemma frame_wput : forall w p v, frame [p] w (wput w p v).
Proof. intros w p v q H. apply wwalk_wput_other. apply H. now left. Qed.

Lemma frame_wrem : forall w p, frame [p] w (wrem w p).
Proof. intros w p q H. apply wwalk_wrem_other. apply H. now left. Qed.

Ltac prim_frame p :=
  match goal with
  | H : Ok _ = Ok _ |- _ => inversion H; subst; clear H
  | H : Err _ = Ok _ |- _ => discriminate H
  | H : context [if ?b then _ else _] |- _ => destruct b
  | H : context [match ?x with _ => _ end] |- _ => destruct x
  end.

Lemma p_mkdir_frame : forall w p e w', p_mkdir fold w p e = Ok w' -> frame [p] w w'.
Proof.
  unfold p_mkdir. intros w p e w' H. repeat prim_frame p; try apply frame_refl; apply frame_wput.
Qed.

Lemma p_write_frame : forall w p c w', p_write fold w p c = Ok w' -> frame [p] w w'.
Proof.
  unfold p_write. intros w p c w' H. repeat prim_frame p; try apply frame_refl; apply frame_wput.
Qed.

Lemma p_touch_frame : forall w p w', p_touch fold w p = Ok w' -> frame [p] w w'.
Proof.
  unfold p_touch. intros w p w' H. repeat prim_frame p; try apply frame_refl; apply frame_wput.
Qed.

Lemma p_unlink_frame : forall w p w', p_unlink fold w p = Ok w' -> frame [p] w w'.
Proof.
  unfold p_unlink. intros w p w' H. repeat prim_frame p; try apply frame_refl; apply frame_wrem.
Qed.

Lemma p_rmdir_frame : forall w p w', p_rmdir fold w p = Ok w' -> frame [p] w w'.
Proof.
  unfold p_rmdir. intros w p w' H. repeat prim_frame p; try apply frame_refl; apply frame_wrem.
Qed.

Lemma frame_put_rem : forall w s d v, frame [s; d] w (wrem (wput w d v) s).
Proof.
  intros. eapply frame_trans.
  - eapply frame_mono; [|apply (frame_wput w d v)]. intros x [<-|[]]. right; now left.
  - eapply frame_mono; [|apply frame_wrem]. intros x [<-|[]]. now left.
Qed.

Lemma p_rename_frame : forall w s d w', p_rename fold w s d = Ok w' -> frame [s; d] w w'.
Proof.
  unfold p_rename. intros w s d w' H.
  repeat prim_frame s; try apply frame_refl; apply frame_put_rem.
Qed.

Lemma lift_frame : forall P w r w' x,
  lift w r = (w', x) -> (forall w1, r = Ok w1 -> frame P w w1) -> frame P w w'.
Proof.
  intros P w [w1|e] w' x H A; cbn [lift] in H; inversion H; subst; [now apply A | apply frame_refl].
Qed.

Lemma each_frame : forall A (f : A -> world -> world * res unit) P l w w' x,
  (forall a u u' y, In a l -> f a u = (u', y) -> frame P u u') ->
  each f l w = (w', x) -> frame P w w'.
Proof.
  intros A f P. induction l as [|a l IH]; intros w w' x Hf H; cbn [each] in H.
  - inversion H; subst. apply frame_refl.
  - destruct (f a w) as [w1 [u|e]] eqn:E.
    + eapply frame_trans; [eapply Hf; [now left | exact E]|].
      eapply IH; [|exact H]. intros; eapply Hf; eauto. now right.
    + inversion H; subst. eapply Hf; [now left | exact E].
Qed.

Lemma frame_join : forall p k w w', frame [join p k] w w' -> frame [p] w w'.
Proof.
  intros p k w w'. apply frame_cover. intros p' [<-|[]]. exists p. split; [now left | apply below_join].
Qed.

Lemma frame_join2 : forall s d k w w', frame [join s k; join d k] w w' -> frame [s; d] w w'.
Proof.
  intros s d k w w'. apply frame_cover. intros p' [<-|[<-|[]]].
  - exists s. split; [now left | apply below_join].
  - exists d. split; [right; now left | apply below_join].
Qed.

Lemma copy_node_frame : forall n r sp dp w w' x,
  copy_node fold r n sp dp w = (w', x) -> frame [dp] w w'.
Proof.
  induction n as [c|ch IH] using node_ind'; intros r sp dp w w' x H.
  - rewrite copy_node_file in H. destruct (_ && _ && _).
    + inversion H; subst. apply frame_refl.
    + eapply lift_frame; [exact H|]. intros; eapply p_write_frame; eauto.
  - rewrite copy_node_dir in H. destruct r.
    + destruct (p_mkdir fold w dp true) as [w1|e] eqn:M.
      * eapply frame_trans; [eapply p_mkdir_frame; eauto|].
        clear M w. revert w1 w' x H. induction IH as [|[k c] l Hc _ IHl]; intros w w' x H; cbn [copy_list] in H.
        -- inversion H; subst. apply frame_refl.
        -- destruct (copy_node fold true c (join sp k) (join dp k) w) as [w2 [u|e]] eqn:E.
           ++ eapply frame_trans; [eapply frame_join, Hc, E | eapply IHl, H].
           ++ inversion H; subst. eapply frame_join, Hc, E.
      * inversion H; subst. apply frame_refl.
    + destruct ch.
      * eapply lift_frame; [exact H|]. intros; eapply p_mkdir_frame; eauto.
      * inversion H; subst. apply frame_refl.
Qed.

Lemma frame_second : forall s d w w', frame [d] w w' -> frame [s; d] w w'.
Proof. intros s d w w'. apply frame_mono. intros x [<-|[]]. right; now left. Qed.
Lemma frame_first : forall s d w w', frame [s] w w' -> frame [s; d] w w'.
Proof. intros s d w w'. apply frame_mono. intros x [<-|[]]. now left. Qed.

Lemma move_node_frame : forall n sp dp w w' x,
  move_node fold n sp dp w = (w', x) -> frame [sp; dp] w w'.
Proof.
  induction n as [c|ch IH] using node_ind'; intros sp dp w w' x H.
  - rewrite move_node_file in H. destruct (p_write fold w dp c) as [w1|e] eqn:W.
    + eapply frame_trans; [eapply frame_second, p_write_frame; eauto|].
      eapply lift_frame; [exact H|]. intros; eapply frame_first, p_unlink_frame; eauto.
    + inversion H; subst. apply frame_refl.
  - rewrite move_node_dir in H. destruct (p_mkdir fold w dp true) as [w1|e] eqn:M.
    + eapply frame_trans; [eapply frame_second, p_mkdir_frame; eauto|].
      destruct (move_list sp dp ch w1) as [w2 y] eqn:L.
      assert (frame [sp; dp] w1 w2) as A.
      { clear M w H. revert w1 w2 y L.
        induction IH as [|[k c] l Hc _ IHl]; intros w w2 y L; cbn [move_list] in L.
        - inversion L; subst. apply frame_refl.
        - destruct (move_node fold c (join sp k) (join dp k) w) as [w3 [u|e]] eqn:E.
          + eapply frame_trans; [eapply frame_join2, Hc, E | eapply IHl, L].
          + inversion L; subst. eapply frame_join2, Hc, E. }
      eapply frame_trans; [exact A|]. destruct y as [u|e].
      * eapply lift_frame; [exact H|]. intros; eapply frame_first, p_rmdir_frame; eauto.
      * inversion H; subst. apply frame_refl.
    + inversion H; subst. apply frame_refl.
Qed.

Lemma copy_top_frame : forall r s t w w' x, copy_top fold r s t w = (w', x) -> frame [t] w w'.
Proof.
  unfold copy_top. intros r s t w w' x H. destruct (wwalk w s) as [| |n].
  1,2: inversion H; subst; apply frame_refl.
  destruct (_ && _ && _); [inversion H; subst; apply frame_refl | eapply copy_node_frame; eauto].
Qed.

Lemma move_top_frame : forall s t w w' x, move_top fold s t w = (w', x) -> frame [s; t] w w'.
Proof.
  unfold move_top. intros s t w w' x H. destruct (fst s =? fst t).
  - eapply lift_frame; [exact H|]. intros; eapply p_rename_frame; eauto.
  - destruct (wwalk w s) as [| |n].
    1,2: inversion H; subst; apply frame_refl.
    eapply move_node_frame; eauto.
Qed.

Lemma below_target : forall d s, below d (target d s) = true.
Proof. intros. unfold target. destruct (is_root s); [apply below_refl | apply below_join]. Qed.

Lemma into_frame : forall op srcs dest w w' x,
  (forall s t u u' y, op s t u = (u', y) -> frame [s; t] u u') ->
  into fold op srcs dest w = (w', x) -> frame (dest :: srcs) w w'.
Proof.
  unfold into. intros op srcs dest w w' x Hop H.
  destruct (is_dir fold w dest) as [[|]|e].
  - eapply each_frame; [|exact H]. cbn beta. intros s u u' y I E.
    eapply frame_cover; [|eapply Hop, E]. intros p' [<-|[<-|[]]].
    + exists s. split; [now right | apply below_refl].
    + exists dest. split; [now left | apply below_target].
  - destruct srcs as [|s [|s2 r]]; try (inversion H; subst; apply frame_refl).
    eapply frame_mono; [|eapply Hop, H]. intros y [<-|[<-|[]]]; [right; now left | now left].
  - inversion H; subst. apply frame_refl.
Qed.

Lemma into_frame_dest : forall op srcs dest w w' x,
  (forall s t u u' y, op s t u = (u', y) -> frame [t] u u') ->
  into fold op srcs dest w = (w', x) -> frame [dest] w w'.
Proof.
  unfold into. intros op srcs dest w w' x Hop H.
  destruct (is_dir fold w dest) as [[|]|e].
  - eapply each_frame; [|exact H]. cbn beta. intros s u u' y I E.
    eapply frame_cover; [|eapply Hop, E]. intros p' [<-|[]].
    exists dest. split; [now left | apply below_target].
  - destruct srcs as [|s [|s2 r]]; try (inversion H; subst; apply frame_refl). eapply Hop, H.
  - inversion H; subst. apply frame_refl.
Qed.

Theorem do_cp_frame : forall r srcs dest w w' x,
  do_cp fold r srcs dest w = (w', x) -> frame [dest] w w'.
Proof. intros. eapply into_frame_dest; [|exact H]. intros; eapply copy_top_frame; eauto. Qed.

Theorem do_mv_frame : forall srcs dest w w' x,
  do_mv fold srcs dest w = (w', x) -> frame (dest :: srcs) w w'.
Proof. intros. eapply into_frame; [|exact H]. intros; eapply move_top_frame; eauto. Qed.

(* ------------------------------------------------------------------ rm, rmdir, touch *)
Lemma unlink_f_frame : forall f p w w' x, unlink_f fold f p w = (w', x) -> frame [p] w w'.
Proof.
  unfold unlink_f. intros f p w w' x H. destruct (p_unlink fold w p) as [w1|e] eqn:U.
  - inversion H; subst. eapply p_unlink_frame; eauto.
  - destruct e, f; inversion H; subst; apply frame_refl.
Qed.

Lemma rm_one_frame : forall r f p w w' x, rm_one fold r f p w = (w', x) -> frame [p] w w'.
Proof.
  unfold rm_one. intros r f p w w' x H. destruct r; [|eapply unlink_f_frame; eauto].
  destruct (is_dir fold w p) as [[|]|e].
  - destruct (is_root p); inversion H; subst; [apply frame_wput | apply frame_wrem].
  - eapply unlink_f_frame; eauto.
  - inversion H; subst. apply frame_refl.
Qed.

Lemma each_frame_ps : forall (f : path -> world -> world * res unit) ps w w' x,
  (forall p u u' y, f p u = (u', y) -> frame [p] u u') ->
  each f ps w = (w', x) -> frame ps w w'.
Proof.
  intros f ps w w' x Hf H. eapply each_frame; [|exact H]. intros p u u' y I E.
  eapply frame_mono; [|eapply Hf, E]. intros z [<-|[]]. exact I.
Qed.

Theorem do_rm_frame : forall r f ps w w' x, do_rm fold r f ps w = (w', x) -> frame ps w w'.
Proof. intros. eapply each_frame_ps; [|exact H]. intros; eapply rm_one_frame; eauto. Qed.

Theorem do_rmdir_frame : forall ps w w' x, do_rmdir fold ps w = (w', x) -> frame ps w w'.
Proof.
  intros. eapply each_frame_ps; [|exact H]. cbn beta. intros p u u' y E.
  eapply lift_frame; [exact E|]. intros; eapply p_rmdir_frame; eauto.
Qed.

Theorem do_touch_frame : forall ps w w' x, do_touch fold ps w = (w', x) -> frame ps w w'.
Proof.
  intros. eapply each_frame_ps; [|exact H]. cbn beta. intros p u u' y E.
  eapply lift_frame; [exact E|]. intros; eapply p_touch_frame; eauto.
Qed.

(* ------------------------------------------------------------------ mkdir *)
(* a new empty directory changes the answer at its own path only *)
Lemma walk_prefix_none : forall kf a q n,
  walk kf n a = LNone -> prefix kf a q = true -> walk kf n q = LNone.
Proof.
  induction a as [|x a IH]; intros q n H P; [discriminate|].
  destruct q as [|y q]; [discriminate|]. cbn [prefix] in P. apply andb_true_iff in P as [E P].
  cbn [walk] in *. destruct n as [c|ch]; [discriminate|].
  rewrite <- (find_keq kf x y ch E). destruct (find kf x ch); [now apply IH | reflexivity].
Qed.

Lemma walk_put_newdir_below : forall kf a q n,
  has_parent kf n a -> prefix kf a q = true -> prefix kf q a = false ->
  walk kf (put kf n a (Dir [])) q = LNone.
Proof.
  induction a as [|x a IH]; intros q n H P Q.
  - destruct q; [discriminate|]. reflexivity.
  - destruct q as [|y q]; [discriminate|]. cbn [prefix] in P, Q. apply andb_true_iff in P as [E P].
    rewrite keq_sym, E in Q. cbn [andb] in Q.
    destruct H as [H|[ch H]]; [discriminate|]. destruct a as [|x2 a2].
    + cbn [removelast walk] in H. inversion H; subst n. rewrite put_single. cbn [walk].
      rewrite <- (find_keq kf x y _ E), find_upd_same. destruct q; [discriminate|]. reflexivity.
    + change (removelast (x :: x2 :: a2)) with (x :: removelast (x2 :: a2)) in H. cbn [walk] in H.
      destruct n as [c|ch0]; [discriminate|]. destruct (find kf x ch0) as [c|] eqn:F; [|discriminate].
      cbn [put]. rewrite F. cbn [walk]. rewrite <- (find_keq kf x y _ E), find_upd_same.
      apply IH; auto. right. now exists ch.
Qed.

Lemma p_mkdir_new_frame : forall w p w', p_mkdir fold w p false = Ok w' ->
  forall q, below q p = false -> wwalk w' q = wwalk w q.
Proof.
  unfold p_mkdir. intros w p w' H q B.
  destruct (wwalk w p) as [| |[c|ch]] eqn:W; try discriminate.
  destruct (parent_is_dir fold w p) eqn:D; [|discriminate]. inversion H; subst w'. clear H.
  destruct (below p q) eqn:B2; [|apply wwalk_wput_other; now split].
  apply parent_is_dir_has_parent in D. destruct D as (r & G & HP).
  destruct p as [i p], q as [j q]. unfold Model.below in *. cbn [fst snd] in *.
  apply andb_true_iff in B2 as [E B2]. apply N.eqb_eq in E. subst j. rewrite N.eqb_refl in B. cbn [andb] in B.
  unfold Model.wwalk, Model.wput in *. cbn [fst snd] in *. rewrite G in *.
  rewrite getfs_setfs_same by congruence.
  rewrite (walk_prefix_none _ _ _ _ W B2). now apply walk_put_newdir_below.
Qed.

Lemma mkdir_p_frame : forall rest fs pre w w' x, mkdir_p fold fs pre rest w = (w', x) ->
  forall q, below q (fs, pre ++ rest) = false -> wwalk w' q = wwalk w q.
Proof.
  induction rest as [|k r IH]; intros fs pre w w' x H q B; cbn [mkdir_p] in H.
  - now inversion H.
  - assert (below q (fs, pre ++ [k]) = false) as B1.
    { destruct (below q (fs, pre ++ [k])) eqn:E; [|reflexivity].
      rewrite (below_trans fold q (fs, pre ++ [k]) (fs, pre ++ k :: r) E) in B; [discriminate|].
      unfold Model.below. cbn [fst snd]. rewrite N.eqb_refl.
      replace (pre ++ k :: r) with ((pre ++ [k]) ++ r) by (now rewrite <- app_assoc). apply prefix_app. }
    replace (pre ++ k :: r) with ((pre ++ [k]) ++ r) in B by (now rewrite <- app_assoc).
    destruct (exists_b fold w (fs, pre ++ [k])).
    + eapply IH; eauto.
    + destruct (p_mkdir fold w (fs, pre ++ [k]) false) as [w1|e] eqn:M.
      * rewrite (IH _ _ _ _ _ H q B). eapply p_mkdir_new_frame; eauto.
      * now inversion H.
Qed.

Lemma mkdir_one_frame : forall pa p w w' x, mkdir_one fold pa p w = (w', x) ->
  forall q, below q p = false -> wwalk w' q = wwalk w q.
Proof.
  unfold mkdir_one. intros pa p w w' x H q B. destruct pa.
  - destruct (is_dir fold w p); [|now inversion H]. destruct p as [i p]. eapply mkdir_p_frame; eauto.
  - destruct (p_mkdir fold w p false) as [w1|e] eqn:M; cbn [lift] in H; inversion H; subst; [|reflexivity].
    eapply p_mkdir_new_frame; eauto.
Qed.

(* mkdir [-p]: only paths that are a prefix of an operand can change *)
Theorem do_mkdir_frame_strong : forall pa ps w w' x, do_mkdir fold pa ps w = (w', x) ->
  forall q, (forall p, In p ps -> below q p = false) -> wwalk w' q = wwalk w q.
Proof.
  unfold do_mkdir. intros pa. induction ps as [|p ps IH]; intros w w' x H q B; cbn [each] in H.
  - now inversion H.
  - destruct (mkdir_one fold pa p w) as [w1 [u|e]] eqn:E.
    + rewrite (IH _ _ _ H q); [|intros; apply B; now right].
      eapply mkdir_one_frame; eauto. apply B. now left.
    + inversion H; subst. eapply mkdir_one_frame; eauto. apply B. now left.
Qed.

Theorem do_mkdir_frame : forall pa ps w w' x, do_mkdir fold pa ps w = (w', x) -> frame ps w w'.
Proof. intros pa ps w w' x H q D. eapply do_mkdir_frame_strong; eauto. intros p I. apply (D p I). Qed.

(* ------------------------------------------------------------------ cat *)
Theorem do_cat_frame : forall srcs out w w' x, do_cat fold srcs out w = (w', x) ->
  frame (match out with Some o => [o] | None => [] end) w w'.
Proof.
  unfold do_cat. intros srcs [o|] w w' x H.
  - destruct (p_write fold w o []) as [w1|e] eqn:W; [|inversion H; subst; apply frame_refl].
    eapply frame_trans; [eapply p_write_frame; eauto|].
    destruct (cat_read fold w1 srcs []) as [buf [e|]]; inversion H; subst; apply frame_wput.
  - destruct (cat_read fold w srcs []) as [buf [e|]]; inversion H; subst; apply frame_refl.
Qed.

(* ------------------------------------------------------------------ every command *)
Definition written (c : cmd) : list path :=
  match c with
  | Cp _ _ d => [d]
  | Mv s d => d :: s
  | Rm _ _ ps | Rmdir ps | Mkdir _ ps | Touch ps => ps
  | Cat _ (Some o) => [o]
  | Cat _ None => []
  end.

Lemma no_out_frame : forall P x w w' r, no_out x = (w', r) -> (forall y, x = (w', y) -> frame P w w') -> frame P w w'.
Proof. intros P [w1 [u|e]] w w' r H A; cbn [no_out] in H; inversion H; subst; eapply A; reflexivity. Qed.

(* whatever the outcome -- success or any error -- a command changes nothing outside the paths
   it is allowed to write: a path that is neither above nor below one of them (or lives on
   another file system) resolves exactly as before *)
Theorem command_frame : forall c w w' r, exec fold c w = (w', r) -> frame (written c) w w'.
Proof.
  unfold exec. intros c w w' r H. destruct (forallb (has_fs w) (cmd_paths c)).
  2: { inversion H; subst. apply frame_refl. }
  destruct c; cbn [written]; try (eapply no_out_frame; [exact H|]; intros y E).
  - eapply do_cp_frame; eauto.
  - eapply do_mv_frame; eauto.
  - eapply do_rm_frame; eauto.
  - eapply do_rmdir_frame; eauto.
  - eapply do_mkdir_frame; eauto.
  - eapply do_touch_frame; eauto.
  - pose proof (do_cat_frame _ _ _ _ _ H) as F. now destruct out.
Qed.

Theorem failing_command_frame : forall c w w' e q,
  exec fold c w = (w', Err e) ->
  (forall p, In p (written c) -> disjoint q p) ->
  wlookup fold w' q = wlookup fold w q.
Proof.
  intros c w w' e q H D. unfold wlookup. now rewrite (command_frame _ _ _ _ H q D).
Qed.
End Frame.

Print Assumptions command_frame.
Print Assumptions failing_command_frame.
