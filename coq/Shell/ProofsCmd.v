(* What the commands of Shell/Model.v do when they succeed (and when they must fail). *)
From Coq Require Import List NArith Bool Lia.
From NV Require Import Lib.Val Lib.Res Shell.Model Shell.ProofsTree Shell.ProofsFrame.
Import ListNotations.
Open Scope N_scope.

(* ------------------------------------------------------------------ more about one tree *)
Section Tree.
Variable kf : name -> name.

(* below something that exists: either the same entry, or a walk inside it *)
Lemma walk_prefix_cases : forall a b n x,
  walk kf n a = LNode x -> prefix kf a b = true ->
  list_eqb (keq kf) a b = true \/ exists k r, walk kf n b = walk kf x (k :: r).
Proof.
  induction a as [|y a IH]; intros b n x H P.
  - cbn [walk] in H. inversion H; subst. destruct b as [|k r]; [now left | right; now exists k, r].
  - destruct b as [|z b]; [discriminate|]. cbn [prefix] in P. apply andb_true_iff in P as [E P].
    cbn [walk] in H |- *. destruct n as [c|ch]; [discriminate|].
    rewrite <- (find_keq kf y z ch E). destruct (find kf y ch) as [c|]; [|discriminate].
    cbn [list_eqb]. rewrite E. cbn [andb]. now apply IH.
Qed.

(* the inner loop of merge, named *)
Definition merge_list :=
  fix go (l acc : list (name * node)) : list (name * node) :=
    match l with
    | [] => acc
    | (k, c) :: r => go r (upd kf k (merge kf (find kf k acc) c) acc)
    end.

Lemma merge_dir : forall old ch,
  merge kf old (Dir ch) = Dir (merge_list ch (match old with Some (Dir o) => o | _ => [] end)).
Proof. reflexivity. Qed.

(* no two siblings share a key, at any depth *)
Fixpoint fresh_keys (l : list (name * node)) : bool :=
  match l with
  | [] => true
  | (k, _) :: r => (match find kf k r with None => true | Some _ => false end) && fresh_keys r
  end.

Fixpoint wfb (n : node) : bool :=
  match n with
  | File _ => true
  | Dir ch => fresh_keys ch &&
              (fix all (l : list (name * node)) : bool :=
                 match l with [] => true | (_, c) :: r => wfb c && all r end) ch
  end.

Definition all_wfb := fix all (l : list (name * node)) : bool :=
  match l with [] => true | (_, c) :: r => wfb c && all r end.

Lemma wfb_dir : forall ch, wfb (Dir ch) = fresh_keys ch && all_wfb ch.
Proof. reflexivity. Qed.

Lemma find_none_forall : forall k l,
  find kf k l = None <-> Forall (fun e => keq kf (fst e) k = false) l.
Proof.
  intros k l. induction l as [|[x v] l IH]; cbn [find]; [split; auto|].
  destruct (keq kf x k) eqn:E; split; intro H.
  - discriminate.
  - inversion H; subst. cbn [fst] in *. congruence.
  - constructor; [exact E | now apply IH].
  - inversion H; subst. now apply IH.
Qed.

(* the keys of l are new to acc *)
Definition new_to (acc l : list (name * node)) : Prop :=
  Forall (fun e => find kf (fst e) acc = None) l.

Lemma new_to_step : forall acc k c r v,
  new_to acc ((k, c) :: r) -> find kf k r = None -> new_to (acc ++ [(k, v)]) r.
Proof.
  intros acc k c r v N F. inversion N as [|e l N1 N2]; subst. cbn [fst] in *.
  apply find_none_forall in F. unfold new_to in *. rewrite Forall_forall in *.
  intros e I. rewrite find_app_none by now apply N2.
  specialize (F e I). rewrite keq_sym, F. reflexivity.
Qed.

Lemma merge_list_fresh : forall l acc,
  Forall (fun e => merge kf None (snd e) = snd e) l ->
  fresh_keys l = true -> new_to acc l -> merge_list l acc = acc ++ l.
Proof.
  induction l as [|[k c] r IH]; intros acc HF FK N; cbn [merge_list]; [now rewrite app_nil_r|].
  cbn [fresh_keys] in FK. apply andb_true_iff in FK as [F1 F2].
  destruct (find kf k r) eqn:F; [discriminate|].
  inversion HF as [|e l H1 H2]; subst. cbn [snd] in H1.
  inversion N as [|e l N1 N2]; subst. cbn [fst] in N1.
  rewrite N1, H1, upd_fresh by exact N1.
  rewrite IH; auto.
  - now rewrite <- app_assoc.
  - eapply new_to_step; eauto.
Qed.

Lemma merge_fresh : forall n, wfb n = true -> merge kf None n = n.
Proof.
  induction n as [c|ch IH] using node_ind'; intro W; [reflexivity|].
  rewrite merge_dir. rewrite wfb_dir in W. apply andb_true_iff in W as [W1 W2].
  rewrite merge_list_fresh; auto.
  - clear W1. induction IH as [|[k c] l Hc _ IHl]; constructor.
    + cbn [all_wfb] in W2. apply andb_true_iff in W2 as [A _]. cbn [snd] in *. now apply Hc.
    + cbn [all_wfb] in W2. apply andb_true_iff in W2 as [_ B]. now apply IHl.
  - unfold new_to. apply Forall_forall. reflexivity.
Qed.
End Tree.

Section Cmd.
Variable fold : name -> name.
Notation key := (key fold).
Notation wwalk := (wwalk fold).
Notation wlookup := (wlookup fold).
Notation wput := (wput fold).
Notation wrem := (wrem fold).
Notation below := (below fold).
Notation disjoint := (disjoint fold).
Notation patheq := (patheq fold).
Notation frame := (frame fold).

Lemma wlookup_walk : forall w p n, wlookup w p = Some n <-> wwalk w p = LNode n.
Proof.
  unfold Model.wlookup. intros w p n. destruct (wwalk w p); split; intro H; try discriminate; now inversion H.
Qed.

(* where a single source ends up: in the destination when that is a directory, else at it *)
Definition dest_of (w : world) (d s : path) : path :=
  match is_dir fold w d with Ok true => target d s | _ => d end.

Lemma into_single : forall op s d w w' x,
  into fold op [s] d w = (w', Ok x) -> op s (dest_of w d s) w = (w', Ok tt).
Proof.
  unfold into, dest_of. intros op s d w w' x H. destruct (is_dir fold w d) as [[|]|e].
  - cbn [each] in H. destruct (op s (target d s) w) as [w1 [[]|e]]; inversion H; now subst.
  - destruct (op s d w) as [w1 [[]|e]]; inversion H; now subst.
  - discriminate.
Qed.

Lemma lift_ok : forall w r w' x, lift w r = (w', Ok x) -> r = Ok w'.
Proof. intros w [w1|e] w' x H; cbn [lift] in H; inversion H; now subst. Qed.

Definition creatable (w : world) (p : path) : Prop :=
  wwalk w p = LNone /\ parent_is_dir fold w p = true.

Lemma p_write_ok : forall w p c w', p_write fold w p c = Ok w' ->
  w' = wput w p (File c) /\ whas_parent fold w p /\
  (creatable w p \/ exists c0, wwalk w p = LNode (File c0)).
Proof.
  unfold p_write. intros w p c w' H. destruct (wwalk w p) as [| |[c0|ch]] eqn:W; try discriminate.
  - destruct (parent_is_dir fold w p) eqn:D; [|discriminate]. inversion H; subst.
    split; [reflexivity|]. split; [now apply parent_is_dir_has_parent | left; now split].
  - inversion H; subst. split; [reflexivity|]. split; [eapply wwalk_has_parent; eauto | right; now exists c0].
Qed.

Lemma p_mkdir_ok : forall w p w', p_mkdir fold w p true = Ok w' ->
  let o := match wlookup w p with Some (Dir o) => o | _ => [] end in
  w' = wput w p (Dir o) /\ whas_parent fold w p /\ wwalk w' p = LNode (Dir o).
Proof.
  unfold p_mkdir, Model.wlookup. intros w p w' H. destruct (wwalk w p) as [| |[c0|ch]] eqn:W; try discriminate.
  - destruct (parent_is_dir fold w p) eqn:D; [|discriminate]. inversion H; subst. cbn zeta.
    apply parent_is_dir_has_parent in D. split; [reflexivity|]. split; [exact D | now apply wwalk_wput_same].
  - inversion H; subst. cbn zeta. split; [symmetry; now apply wput_same|].
    split; [eapply wwalk_has_parent; eauto | exact W].
Qed.

(* ------------------------------------------------------------------ recursive copy = merge *)
Lemma copy_list_spec : forall sp dp l,
  Forall (fun e => forall sp dp w w', copy_node fold true (snd e) sp dp w = (w', Ok tt) ->
                   w' = wput w dp (merge (key (fst dp)) (wlookup w dp) (snd e))) l ->
  forall w w' acc, wwalk w dp = LNode (Dir acc) ->
  copy_list fold true sp dp l w = (w', Ok tt) ->
  w' = wput w dp (Dir (merge_list (key (fst dp)) l acc)).
Proof.
  intros sp dp. induction l as [|[k c] l IH]; intros HF w w' acc W H; cbn [copy_list merge_list] in *.
  - inversion H; subst. symmetry. now apply wput_same.
  - inversion HF as [|e l' Hc Hl]; subst. cbn [snd] in Hc.
    destruct (copy_node fold true c (join sp k) (join dp k) w) as [w1 [[]|e]] eqn:E; [|discriminate].
    apply Hc in E. unfold Model.wlookup in E. rewrite (wwalk_child fold w dp acc k W) in E.
    assert (merge (key (fst (join dp k))) match find (key (fst dp)) k acc with Some c0 => Some c0 | None => None end c
            = merge (key (fst dp)) (find (key (fst dp)) k acc) c) as M.
    { cbn [join fst]. now destruct (find (key (fst dp)) k acc). }
    replace (match match find (key (fst dp)) k acc with Some c0 => LNode c0 | None => LNone end with
             | LNode n => Some n | _ => None end)
      with (match find (key (fst dp)) k acc with Some c0 => Some c0 | None => None end) in E
      by now destruct (find (key (fst dp)) k acc).
    rewrite M, (wput_child fold w dp acc k _ W) in E.
    assert (wwalk w1 dp = LNode (Dir (upd (key (fst dp)) k (merge (key (fst dp)) (find (key (fst dp)) k acc) c) acc))) as W1.
    { subst w1. apply wwalk_wput_same. eapply wwalk_has_parent; eauto. }
    rewrite (IH Hl w1 w' _ W1 H). subst w1. apply wput_wput.
Qed.

Lemma copy_node_spec : forall n sp dp w w',
  copy_node fold true n sp dp w = (w', Ok tt) ->
  w' = wput w dp (merge (key (fst dp)) (wlookup w dp) n).
Proof.
  induction n as [c|ch IH] using node_ind'; intros sp dp w w' H.
  - rewrite copy_node_file in H. destruct (_ && _ && _); [discriminate|].
    apply lift_ok, p_write_ok in H. tauto.
  - rewrite copy_node_dir in H. destruct (p_mkdir fold w dp true) as [w1|e] eqn:M; [|discriminate].
    apply p_mkdir_ok in M. cbn zeta in M. destruct M as (E1 & HP & W1).
    rewrite (copy_list_spec sp dp ch IH w1 w' _ W1 H). rewrite merge_dir. subst w1. apply wput_wput.
Qed.

Lemma copy_node_has_parent : forall n r sp dp w w',
  copy_node fold r n sp dp w = (w', Ok tt) -> whas_parent fold w dp.
Proof.
  intros [c|ch] r sp dp w w' H.
  - rewrite copy_node_file in H. destruct (_ && _ && _); [discriminate|].
    apply lift_ok, p_write_ok in H. tauto.
  - rewrite copy_node_dir in H. destruct r.
    + destruct (p_mkdir fold w dp true) as [w1|e] eqn:M; [|discriminate]. apply p_mkdir_ok in M. tauto.
    + destruct ch; [|discriminate]. apply lift_ok in H. unfold p_mkdir in H.
      destruct (wwalk w dp) as [| |[c0|ch]]; try discriminate.
      destruct (parent_is_dir fold w dp) eqn:D; [|discriminate]. now apply parent_is_dir_has_parent.
Qed.

(* ------------------------------------------------------------------ paths inside one another *)
Lemma wwalk_below_none : forall w a b, wwalk w a = LNone -> below a b = true -> wwalk w b = LNone.
Proof.
  intros w [i a] [j b]. unfold Model.wwalk, Model.below. cbn [fst snd]. intros H B.
  apply andb_true_iff in B as [E B]. apply N.eqb_eq in E. subst j.
  destruct (getfs w i); [|reflexivity]. eapply walk_prefix_none; eauto.
Qed.

Lemma wwalk_below_cases : forall w a b x, wwalk w a = LNode x -> below a b = true ->
  patheq a b = true \/ exists k r, wwalk w b = walk (key (fst a)) x (k :: r).
Proof.
  intros w [i a] [j b] x. unfold Model.wwalk, Model.below, Model.patheq. cbn [fst snd]. intros H B.
  apply andb_true_iff in B as [E B]. apply N.eqb_eq in E. subst j. rewrite N.eqb_refl. cbn [andb].
  destruct (getfs w i); [|discriminate]. eapply walk_prefix_cases; eauto.
Qed.

Lemma wwalk_patheq : forall w a b, patheq a b = true -> wwalk w a = wwalk w b.
Proof.
  intros w [i a] [j b]. unfold Model.wwalk, Model.patheq. cbn [fst snd]. intro H.
  apply andb_true_iff in H as [E H]. apply N.eqb_eq in E. subst j.
  destruct (getfs w i); [|reflexivity]. now apply walk_peq.
Qed.

Lemma patheq_sym : forall a b, patheq a b = patheq b a.
Proof.
  intros [i a] [j b]. unfold Model.patheq. cbn [fst snd]. rewrite (N.eqb_sym i j).
  destruct (j =? i) eqn:E; [|reflexivity]. apply N.eqb_eq in E. subst j. cbn [andb]. apply peq_sym.
Qed.

Lemma patheq_fst : forall a b, patheq a b = true -> (fst a =? fst b) = true.
Proof. intros a b H. unfold Model.patheq in H. now apply andb_true_iff in H as [E _]. Qed.

Lemma disjoint_sym : forall a b, disjoint a b -> disjoint b a.
Proof. intros a b [H1 H2]. now split. Qed.

Lemma disjoint_other_fs : forall a b, fst a <> fst b -> disjoint a b.
Proof.
  intros a b N. unfold ProofsTree.disjoint, Model.below. split.
  - destruct (fst b =? fst a) eqn:E; [apply N.eqb_eq in E; congruence | reflexivity].
  - destruct (fst a =? fst b) eqn:E; [apply N.eqb_eq in E; congruence | reflexivity].
Qed.

(* a file that is copied somewhere else than onto itself is not touched by the copy *)
Lemma file_copy_disjoint : forall w s t c,
  wwalk w s = LNode (File c) ->
  (creatable w t \/ exists c0, wwalk w t = LNode (File c0)) ->
  (fst s =? fst t) && exists_b fold w t && patheq s t = false ->
  disjoint s t.
Proof.
  intros w s t c Hs Ht C. split.
  - destruct (below t s) eqn:B; [exfalso|reflexivity]. destruct Ht as [[Ht _]|[c0 Ht]].
    + rewrite (wwalk_below_none _ _ _ Ht B) in Hs. discriminate.
    + destruct (wwalk_below_cases _ _ _ _ Ht B) as [E|(k & r & E)].
      * rewrite patheq_sym in E. rewrite E, (patheq_fst _ _ E) in C.
        unfold exists_b in C. rewrite Ht in C. discriminate.
      * rewrite E in Hs. discriminate.
  - destruct (below s t) eqn:B; [exfalso|reflexivity].
    destruct (wwalk_below_cases _ _ _ _ Hs B) as [E|(k & r & E)].
    + rewrite E, (patheq_fst _ _ E) in C. unfold exists_b in C.
      rewrite <- (wwalk_patheq w _ _ E), Hs in C. discriminate.
    + cbn [walk] in E. destruct Ht as [[Ht _]|[c0 Ht]]; rewrite Ht in E; discriminate.
Qed.

(* ------------------------------------------------------------------ cp of one file *)
Theorem cp_file_exact : forall r s d c w w' x,
  do_cp fold r [s] d w = (w', Ok x) ->
  wlookup w s = Some (File c) ->
  let t := dest_of w d s in
  w' = wput w t (File c) /\
  wlookup w' t = Some (File c) /\
  wlookup w' s = Some (File c) /\
  (forall q, disjoint q t -> wlookup w' q = wlookup w q).
Proof.
  intros r s d c w w' x H Hs t. apply wlookup_walk in Hs.
  apply into_single in H. fold t in H. unfold copy_top in H. rewrite Hs in H.
  cbn [node_is_dir] in H. rewrite andb_false_r in H. cbn [andb] in H.
  rewrite copy_node_file in H.
  destruct ((fst s =? fst t) && exists_b fold w t && patheq s t) eqn:C; [discriminate|].
  apply lift_ok, p_write_ok in H. destruct H as (E & HP & K). subst w'.
  split; [reflexivity|]. split; [apply wlookup_walk; now apply wwalk_wput_same|].
  split.
  - apply wlookup_walk. rewrite wwalk_wput_other; [exact Hs|]. eapply file_copy_disjoint; eauto.
  - intros q D. unfold Model.wlookup. now rewrite wwalk_wput_other.
Qed.

(* ------------------------------------------------------------------ cp -r of a directory *)
Theorem cp_r_tree_exact : forall s d ch w w' x,
  do_cp fold true [s] d w = (w', Ok x) ->
  wlookup w s = Some (Dir ch) ->
  let t := dest_of w d s in
  let m := merge (key (fst t)) (wlookup w t) (Dir ch) in
  w' = wput w t m /\
  wlookup w' t = Some m /\
  (patheq s t = false -> wlookup w' s = Some (Dir ch)) /\
  (forall q, disjoint q t -> wlookup w' q = wlookup w q) /\
  (wlookup w t = None -> wfb (key (fst t)) (Dir ch) = true -> m = Dir ch).
Proof.
  intros s d ch w w' x H Hs t m. apply wlookup_walk in Hs.
  apply into_single in H. fold t in H. unfold copy_top in H. rewrite Hs in H.
  cbn [node_is_dir andb] in H. destruct (overlap fold s t) eqn:O; [discriminate|].
  pose proof (copy_node_has_parent _ _ _ _ _ _ H) as HP.
  apply copy_node_spec in H. fold m in H. subst w'.
  split; [reflexivity|]. split; [apply wlookup_walk; now apply wwalk_wput_same|].
  split; [|split].
  - intro E. apply wlookup_walk. rewrite wwalk_wput_other; [exact Hs|].
    unfold overlap in O. fold (patheq s t) in O. rewrite E in O. cbn [negb] in O. rewrite andb_true_r in O.
    apply orb_false_iff in O as [O1 O2]. now split.
  - intros q D. unfold Model.wlookup. now rewrite wwalk_wput_other.
  - intros N W. unfold m. rewrite N. now apply merge_fresh.
Qed.

(* ------------------------------------------------------------------ copying to a fresh place *)
Lemma parent_join : forall p k, parent (join p k) = p.
Proof. intros [i p] k. unfold parent, join. cbn [fst snd]. now rewrite removelast_last. Qed.

Lemma copy_list_fresh : forall sp dp l,
  Forall (fun e => forall sp dp w, wfb (key (fst dp)) (snd e) = true -> creatable w dp ->
                   copy_node fold true (snd e) sp dp w = (wput w dp (snd e), Ok tt)) l ->
  forall w acc, wwalk w dp = LNode (Dir acc) ->
  fresh_keys (key (fst dp)) l = true -> all_wfb (key (fst dp)) l = true -> new_to (key (fst dp)) acc l ->
  copy_list fold true sp dp l w = (wput w dp (Dir (acc ++ l)), Ok tt).
Proof.
  intros sp dp. induction l as [|[k c] l IH]; intros HF w acc W FK AW N; cbn [copy_list].
  - rewrite app_nil_r. now rewrite (wput_same fold w dp _ W).
  - inversion HF as [|e l' Hc Hl]; subst. cbn [snd] in Hc.
    cbn [fresh_keys] in FK. apply andb_true_iff in FK as [F1 F2].
    destruct (find (key (fst dp)) k l) eqn:F; [discriminate|].
    cbn [all_wfb] in AW. apply andb_true_iff in AW as [A1 A2].
    inversion N as [|e l' N1 N2]; subst. cbn [fst] in N1.
    rewrite Hc; [|exact A1|].
    2: { split.
         - rewrite (wwalk_child fold w dp acc k W), N1. reflexivity.
         - unfold parent_is_dir. rewrite parent_join, W. reflexivity. }
    rewrite (wput_child fold w dp acc k c W), upd_fresh by exact N1.
    rewrite (IH Hl _ (acc ++ [(k, c)])); auto.
    + rewrite wput_wput, <- app_assoc. reflexivity.
    + apply wwalk_wput_same. eapply wwalk_has_parent; eauto.
    + eapply new_to_step; eauto.
Qed.

Lemma copy_node_fresh : forall n sp dp w,
  wfb (key (fst dp)) n = true -> creatable w dp ->
  copy_node fold true n sp dp w = (wput w dp n, Ok tt).
Proof.
  induction n as [c|ch IH] using node_ind'; intros sp dp w W [C1 C2].
  - rewrite copy_node_file. unfold exists_b, p_write. rewrite C1, C2. cbn [andb]. rewrite andb_false_r. reflexivity.
  - rewrite copy_node_dir. unfold p_mkdir. rewrite C1, C2.
    rewrite wfb_dir in W. apply andb_true_iff in W as [W1 W2].
    rewrite (copy_list_fresh sp dp ch IH _ []); auto.
    + now rewrite wput_wput.
    + apply wwalk_wput_same. now apply parent_is_dir_has_parent.
    + unfold new_to. apply Forall_forall. reflexivity.
Qed.

(* exact comparison is finer than comparison up to fold *)
Lemma find_id_none : forall k l, find fold k l = None -> find (fun x => x) k l = None.
Proof.
  intros k l. induction l as [|[x v] l IH]; cbn [find]; [reflexivity|].
  destruct (keq fold x k) eqn:E; [discriminate|]. intro H.
  destruct (keq (fun y => y) x k) eqn:E2; [|now apply IH].
  apply keq_iff in E2. subst x. now rewrite keq_refl in E.
Qed.

Lemma wfb_id : forall n, wfb fold n = true -> wfb (fun x => x) n = true.
Proof.
  induction n as [c|ch IH] using node_ind'; intro W; [reflexivity|].
  rewrite wfb_dir in *. apply andb_true_iff in W as [W1 W2]. apply andb_true_iff. split.
  - clear IH W2. induction ch as [|[k c] l IHl]; [reflexivity|]. cbn [fresh_keys] in *.
    apply andb_true_iff in W1 as [A B]. destruct (find fold k l) eqn:F; [discriminate|].
    rewrite (find_id_none _ _ F). cbn [andb]. now apply IHl.
  - clear W1. induction IH as [|[k c] l Hc _ IHl]; [reflexivity|]. cbn [all_wfb] in *.
    apply andb_true_iff in W2 as [A B]. cbn [snd] in Hc. rewrite (Hc A). cbn [andb]. now apply IHl.
Qed.

Lemma wfb_key : forall i n, wfb fold n = true -> wfb (key i) n = true.
Proof.
  intros i n W. unfold Model.key. destruct (i =? 0).
  - change (fun k : name => k) with (fun x : name => x). now apply wfb_id.
  - exact W.
Qed.

Lemma cp_r_to_creatable : forall w s d n,
  wwalk w s = LNode n -> fst s <> fst d -> creatable w d -> wfb (key (fst d)) n = true ->
  do_cp fold true [s] d w = (wput w d n, Ok tt).
Proof.
  intros w s d n Hs N C W. unfold do_cp, into, is_dir. destruct C as [C1 C2]. rewrite C1.
  unfold copy_top. rewrite Hs.
  assert (overlap fold s d = false) as O.
  { unfold overlap, Model.below. rewrite (N.eqb_sym (fst d)).
    destruct (fst s =? fst d) eqn:E; [apply N.eqb_eq in E; congruence | reflexivity]. }
  rewrite O, andb_false_r. apply copy_node_fresh; [exact W | now split].
Qed.

Lemma creatable_other_fs : forall w p q v, fst p <> fst q -> creatable w p -> creatable (wput w q v) p.
Proof.
  intros w p q v N [C1 C2]. split.
  - rewrite wwalk_wput_other; [exact C1 | now apply disjoint_other_fs].
  - unfold parent_is_dir in *. rewrite wwalk_wput_other; [exact C2 | now apply disjoint_other_fs].
Qed.

Lemma creatable_has_parent : forall w p, creatable w p -> whas_parent fold w p.
Proof. intros w p [_ C]. now apply parent_is_dir_has_parent. Qed.

(* host -> partition -> host gives back the tree, names and bytes, provided no two sibling
   names anywhere in it are equal up to fold (a FAT directory cannot hold both) *)
Theorem roundtrip : forall w a b c n,
  fst a = 0 -> fst b <> 0 -> fst c = 0 ->
  wlookup w a = Some n -> wfb fold n = true ->
  creatable w b -> creatable w c ->
  exists w1 w2,
    do_cp fold true [a] b w = (w1, Ok tt) /\
    do_cp fold true [b] c w1 = (w2, Ok tt) /\
    wlookup w2 c = Some n /\ wlookup w2 b = Some n /\
    (below a c = false -> wlookup w2 a = Some n).
Proof.
  intros w a b c n Ha Hb Hc Hs W Cb Cc. apply wlookup_walk in Hs.
  assert (fst a <> fst b) as Nab by congruence. assert (fst b <> fst c) as Nbc by congruence.
  exists (wput w b n), (wput (wput w b n) c n).
  assert (wwalk (wput w b n) b = LNode n) as W1 by (apply wwalk_wput_same; now apply creatable_has_parent).
  assert (creatable (wput w b n) c) as Cc1 by (apply creatable_other_fs; [congruence | exact Cc]).
  split; [apply cp_r_to_creatable; auto; now apply wfb_key|].
  split; [apply cp_r_to_creatable; auto; now apply wfb_key|].
  split; [apply wlookup_walk, wwalk_wput_same; now apply creatable_has_parent|].
  split.
  - apply wlookup_walk. rewrite wwalk_wput_other; [exact W1 | now apply disjoint_other_fs].
  - intro B. apply wlookup_walk. rewrite wwalk_wput_other.
    + rewrite wwalk_wput_other; [exact Hs | now apply disjoint_other_fs].
    + split; [|exact B]. destruct (below c a) eqn:E; [|reflexivity].
      destruct Cc as [C1 _]. rewrite (wwalk_below_none _ _ _ C1 E) in Hs. discriminate.
Qed.

(* ------------------------------------------------------------------ mv on one file system *)
Lemma guard_below : forall sn (b e : bool),
  (match sn with Dir _ => true | File _ => false end) && b && negb e = false ->
  b = true -> e = false -> exists c, sn = File c.
Proof.
  intros [c|ch] b e G B E; [now exists c|]. rewrite B, E in G. discriminate.
Qed.

Lemma p_rename_ok : forall w s t n w',
  p_rename fold w s t = Ok w' -> wwalk w s = LNode n ->
  (patheq s t = true /\ w' = w) \/
  (patheq s t = false /\ w' = wrem (wput w t n) s /\ is_root s = false /\
   whas_parent fold w t /\ disjoint s t).
Proof.
  unfold p_rename. intros w s t n w' H Hs. rewrite Hs in H.
  destruct (is_root s) eqn:R; [discriminate|].
  destruct ((match n with Dir _ => true | File _ => false end) && below s t && negb (patheq s t)) eqn:G;
    [discriminate|].
  destruct (patheq s t) eqn:E.
  { left. split; [reflexivity|]. rewrite <- (wwalk_patheq w _ _ E), Hs in H. now inversion H. }
  right. split; [reflexivity|].
  assert (below s t = true -> exists c k r, n = File c /\ wwalk w t = walk (key (fst s)) (File c) (k :: r)) as BS.
  { intro B. destruct (guard_below _ _ _ G B eq_refl) as [c ->].
    destruct (wwalk_below_cases _ _ _ _ Hs B) as [E2|(k & r & E2)]; [congruence|]. now exists c, k, r. }
  destruct (wwalk w t) as [| |dn] eqn:Wt; [| discriminate |].
  - destruct (parent_is_dir fold w t) eqn:D; [|discriminate]. inversion H; subst w'.
    split; [reflexivity|]. split; [reflexivity|]. split; [now apply parent_is_dir_has_parent|]. split.
    + destruct (below t s) eqn:B; [|reflexivity]. rewrite (wwalk_below_none _ _ _ Wt B) in Hs. discriminate.
    + destruct (below s t) eqn:B; [|reflexivity]. destruct (BS eq_refl) as (c & k & r & _ & X). discriminate.
  - assert (below t s = true -> exists k r, wwalk w s = walk (key (fst t)) dn (k :: r)) as BT.
    { intro B. destruct (wwalk_below_cases _ _ _ _ Wt B) as [E2|X]; [|exact X].
      rewrite patheq_sym in E2. congruence. }
    assert (whas_parent fold w t) as HP by (eapply wwalk_has_parent; eauto).
    destruct n as [c|ch], dn as [c0|ch0]; try discriminate.
    + inversion H; subst w'. repeat (split; [reflexivity|]). split; [exact HP|]. split.
      * destruct (below t s) eqn:B; [|reflexivity]. destruct (BT eq_refl) as (k & r & X). rewrite Hs in X. discriminate.
      * destruct (below s t) eqn:B; [|reflexivity]. destruct (BS eq_refl) as (c1 & k & r & _ & X). discriminate.
    + destruct (on_host t); [|discriminate]. destruct ch0; [|discriminate]. inversion H; subst w'.
      repeat (split; [reflexivity|]). split; [exact HP|]. split.
      * destruct (below t s) eqn:B; [|reflexivity]. destruct (BT eq_refl) as (k & r & X). rewrite Hs in X. discriminate.
      * destruct (below s t) eqn:B; [|reflexivity]. destruct (BS eq_refl) as (c1 & k & r & X & _). discriminate.
Qed.

Lemma is_root_snd : forall p, is_root p = false -> snd p <> [].
Proof. intros [i [|k r]]; cbn; [discriminate | discriminate]. Qed.

Lemma wrem_gone : forall w p, is_root p = false -> wlookup (wrem w p) p = None.
Proof.
  intros w [i p] R. unfold Model.wlookup. pose proof (wwalk_wrem_gone fold w (i, p) []) as A.
  cbn [fst snd] in A. rewrite app_nil_r in A.
  destruct (wwalk (wrem w (i, p)) (i, p)) as [| |x] eqn:E; try reflexivity.
  exfalso. apply (A x); [now apply is_root_snd in R | reflexivity].
Qed.

(* mv within one file system is a rename: the source is gone, the target holds the old node,
   nothing else changes.  An existing regular file is replaced by a file; on the host an
   existing EMPTY directory is replaced by a directory (os.rename), FatPath.rename refuses every
   existing directory; moving an entry onto itself (any spelling) changes nothing *)
Theorem mv_moves : forall s d n w w' x,
  do_mv fold [s] d w = (w', Ok x) ->
  wlookup w s = Some n ->
  let t := dest_of w d s in
  fst s = fst t ->
  (patheq s t = true /\ w' = w) \/
  (patheq s t = false /\
   w' = wrem (wput w t n) s /\
   wlookup w' s = None /\
   wlookup w' t = Some n /\
   (forall q, disjoint q s -> disjoint q t -> wlookup w' q = wlookup w q)).
Proof.
  intros s d n w w' x H Hs t F. apply wlookup_walk in Hs.
  apply into_single in H. fold t in H. unfold move_top in H. rewrite F, N.eqb_refl in H.
  apply lift_ok in H. destruct (p_rename_ok _ _ _ _ _ H Hs) as [A|(E & -> & R & HP & D)]; [now left|].
  right. split; [exact E|]. split; [reflexivity|]. split; [now apply wrem_gone|]. split.
  - apply wlookup_walk. rewrite wwalk_wrem_other by now apply disjoint_sym.
    now apply wwalk_wput_same.
  - intros q D1 D2. unfold Model.wlookup. now rewrite wwalk_wrem_other, wwalk_wput_other.
Qed.

(* ------------------------------------------------------------------ mv across file systems *)
Lemma wput_wrem_comm : forall w a b v, fst a <> fst b -> wput (wrem w a) b v = wrem (wput w b v) a.
Proof.
  intros w [i a] [j b] v N. unfold Model.wput, Model.wrem. cbn [fst snd] in *.
  destruct (getfs w i) as [r|] eqn:Gi, (getfs w j) as [r2|] eqn:Gj.
  - rewrite (getfs_setfs_other w i j) by congruence. rewrite Gj.
    rewrite (getfs_setfs_other w j i) by congruence. rewrite Gi. now apply setfs_comm.
  - rewrite (getfs_setfs_other w i j) by congruence. rewrite Gj. now rewrite Gi.
  - rewrite (getfs_setfs_other w j i) by congruence. now rewrite Gi.
  - now rewrite Gi.
Qed.

Lemma wrem_inside : forall w p k, snd p <> [] -> wrem (wrem w (join p k)) p = wrem w p.
Proof.
  intros w [i p] k Hp. unfold Model.wrem, join. cbn [fst snd] in *.
  destruct (getfs w i) as [r|] eqn:G.
  - rewrite getfs_setfs_same by congruence. rewrite setfs_setfs, rem_inside by exact Hp. reflexivity.
  - now rewrite G.
Qed.

Lemma p_rmdir_ok : forall w p w', p_rmdir fold w p = Ok w' -> w' = wrem w p /\ is_root p = false.
Proof.
  unfold p_rmdir. intros w p w' H. destruct (wwalk w p) as [| |[c|ch]]; try discriminate.
  destruct (is_root p); [discriminate|]. destruct ch; [|discriminate]. inversion H. now split.
Qed.

Lemma p_unlink_ok : forall w p w', p_unlink fold w p = Ok w' -> w' = wrem w p.
Proof.
  unfold p_unlink. intros w p w' H. destruct (wwalk w p) as [| |[c|ch]]; try discriminate. now inversion H.
Qed.

Lemma move_list_spec : forall sp dp l, fst sp <> fst dp -> snd sp <> [] ->
  Forall (fun e => forall sp dp w w', fst sp <> fst dp ->
                   move_node fold (snd e) sp dp w = (w', Ok tt) ->
                   w' = wrem (wput w dp (merge (key (fst dp)) (wlookup w dp) (snd e))) sp) l ->
  forall w w' acc, wwalk w dp = LNode (Dir acc) ->
  move_list fold sp dp l w = (w', Ok tt) ->
  wrem w' sp = wrem (wput w dp (Dir (merge_list (key (fst dp)) l acc))) sp.
Proof.
  intros sp dp l N Hp. induction l as [|[k c] l IH]; intros HF w w' acc W H; cbn [move_list merge_list] in *.
  - inversion H; subst. now rewrite (wput_same fold w' dp _ W).
  - inversion HF as [|e l' Hc Hl]; subst. cbn [snd] in Hc.
    destruct (move_node fold c (join sp k) (join dp k) w) as [w1 [[]|e]] eqn:E; [|discriminate].
    apply Hc in E; [|exact N]. unfold Model.wlookup in E. rewrite (wwalk_child fold w dp acc k W) in E.
    set (m := merge (key (fst dp)) (find (key (fst dp)) k acc) c) in *.
    assert (E' : w1 = wrem (wput w dp (Dir (upd (key (fst dp)) k m acc))) (join sp k)).
    { rewrite E, <- (wput_child fold w dp acc k _ W). unfold m. cbn [join fst].
      now destruct (find (key (fst dp)) k acc). }
    clear E. set (acc1 := upd (key (fst dp)) k m acc) in *.
    assert (wwalk w1 dp = LNode (Dir acc1)) as W1.
    { subst w1. rewrite wwalk_wrem_other by (apply disjoint_other_fs; cbn [join fst]; congruence).
      apply wwalk_wput_same. eapply wwalk_has_parent; eauto. }
    rewrite (IH Hl w1 w' acc1 W1 H). subst w1.
    rewrite wput_wrem_comm by (cbn [join fst]; exact N).
    rewrite wput_wput. now apply wrem_inside.
Qed.

Lemma move_node_spec : forall n sp dp w w', fst sp <> fst dp ->
  move_node fold n sp dp w = (w', Ok tt) ->
  w' = wrem (wput w dp (merge (key (fst dp)) (wlookup w dp) n)) sp.
Proof.
  induction n as [c|ch IH] using node_ind'; intros sp dp w w' N H.
  - rewrite move_node_file in H. destruct (p_write fold w dp c) as [w1|e] eqn:P; [|discriminate].
    apply p_write_ok in P. destruct P as (-> & _). apply lift_ok, p_unlink_ok in H. exact H.
  - rewrite move_node_dir in H. destruct (p_mkdir fold w dp true) as [w1|e] eqn:M; [|discriminate].
    apply p_mkdir_ok in M. cbn zeta in M. destruct M as (E1 & HP & W1).
    destruct (move_list fold sp dp ch w1) as [w2 [[]|e]] eqn:L; [|discriminate].
    apply lift_ok, p_rmdir_ok in H. destruct H as (-> & R).
    rewrite (move_list_spec sp dp ch N (is_root_snd _ R) IH w1 w2 _ W1 L).
    rewrite merge_dir. subst w1. now rewrite wput_wput.
Qed.

Lemma move_node_has_parent : forall n sp dp w w',
  move_node fold n sp dp w = (w', Ok tt) -> whas_parent fold w dp.
Proof.
  intros [c|ch] sp dp w w' H.
  - rewrite move_node_file in H. destruct (p_write fold w dp c) as [w1|e] eqn:P; [|discriminate].
    apply p_write_ok in P. tauto.
  - rewrite move_node_dir in H. destruct (p_mkdir fold w dp true) as [w1|e] eqn:M; [|discriminate].
    apply p_mkdir_ok in M. tauto.
Qed.

(* mv between file systems copies and removes.  The result is the world a rename would give
   (wrem (wput w t n) s) whenever the target did not exist and no two sibling names in the
   moved tree clash on the target file system.  The difference: an existing target DIRECTORY
   is merged into (a rename refuses it, or on the host replaces it only when empty), and an
   existing file is replaced by a file as in a rename *)
Theorem mv_across : forall s d n w w' x,
  do_mv fold [s] d w = (w', Ok x) ->
  wlookup w s = Some n -> is_root s = false ->
  let t := dest_of w d s in
  fst s <> fst t ->
  let m := merge (key (fst t)) (wlookup w t) n in
  w' = wrem (wput w t m) s /\
  wlookup w' s = None /\
  wlookup w' t = Some m /\
  (forall q, disjoint q s -> disjoint q t -> wlookup w' q = wlookup w q) /\
  (wlookup w t = None -> wfb (key (fst t)) n = true -> w' = wrem (wput w t n) s).
Proof.
  intros s d n w w' x H Hs R t N m. apply wlookup_walk in Hs.
  apply into_single in H. fold t in H. unfold move_top in H.
  destruct (fst s =? fst t) eqn:E; [apply N.eqb_eq in E; congruence|]. rewrite Hs in H.
  pose proof (move_node_has_parent _ _ _ _ _ H) as HP.
  apply move_node_spec in H; [|exact N]. fold m in H. subst w'.
  split; [reflexivity|]. split; [now apply wrem_gone|]. split; [|split].
  - apply wlookup_walk. rewrite wwalk_wrem_other by (apply disjoint_other_fs; congruence).
    now apply wwalk_wput_same.
  - intros q D1 D2. unfold Model.wlookup. now rewrite wwalk_wrem_other, wwalk_wput_other.
  - intros T W. unfold m. rewrite T. now rewrite merge_fresh.
Qed.

(* ------------------------------------------------------------------ rm, rmdir *)
Theorem rm_removes_exactly : forall r f p n w w' x,
  do_rm fold r f [p] w = (w', Ok x) -> wlookup w p = Some n -> is_root p = false ->
  w' = wrem w p /\
  wlookup w' p = None /\
  (forall q, disjoint q p -> wlookup w' q = wlookup w q) /\
  (r = false -> exists c, n = File c).
Proof.
  intros r f p n w w' x H Hp R. apply wlookup_walk in Hp.
  assert (w' = wrem w p /\ (r = false -> exists c, n = File c)) as [-> A].
  { unfold do_rm in H. cbn [each] in H.
    destruct (rm_one fold r f p w) as [w1 [[]|e]] eqn:E; [|discriminate]. inversion H; subst w1. clear H.
    unfold rm_one, is_dir, unlink_f, p_unlink in E. rewrite Hp, R in E.
    destruct r, n as [c|ch]; inversion E; split; try reflexivity; try discriminate; intros _; now exists c. }
  split; [reflexivity|]. split; [now apply wrem_gone|]. split; [|exact A].
  intros q D. unfold Model.wlookup. now rewrite wwalk_wrem_other.
Qed.

Theorem rm_dir_needs_r : forall f p ch w,
  wlookup w p = Some (Dir ch) -> do_rm fold false f [p] w = (w, Err IsADirectory).
Proof.
  intros f p ch w H. apply wlookup_walk in H.
  unfold do_rm, rm_one, unlink_f, p_unlink. cbn [each]. now rewrite H.
Qed.

Theorem rm_missing : forall r f p w, wwalk w p = LNone ->
  do_rm fold r f [p] w = (w, if f then Ok tt else Err FileNotFound).
Proof.
  intros r f p w H. unfold do_rm, rm_one, is_dir, unlink_f, p_unlink. cbn [each]. rewrite H.
  destruct r, f; reflexivity.
Qed.

Theorem rmdir_removes_exactly : forall p w w' x,
  do_rmdir fold [p] w = (w', Ok x) ->
  wlookup w p = Some (Dir []) /\ is_root p = false /\
  w' = wrem w p /\ wlookup w' p = None /\
  (forall q, disjoint q p -> wlookup w' q = wlookup w q).
Proof.
  intros p w w' x H. unfold do_rmdir in H. cbn [each] in H.
  destruct (lift w (p_rmdir fold w p)) as [w1 [[]|e]] eqn:E; [|discriminate]. inversion H; subst w1. clear H.
  apply lift_ok in E. unfold p_rmdir in E.
  destruct (wwalk w p) as [| |[c|[|e ch]]] eqn:W; try discriminate; destruct (is_root p) eqn:R; try discriminate.
  inversion E; subst w'. split; [now apply wlookup_walk|]. split; [reflexivity|]. split; [reflexivity|].
  split; [now apply wrem_gone|]. intros q D. unfold Model.wlookup. now rewrite wwalk_wrem_other.
Qed.

Theorem rmdir_nonempty_fails : forall p e ch w,
  wlookup w p = Some (Dir (e :: ch)) -> is_root p = false -> do_rmdir fold [p] w = (w, Err NotEmpty).
Proof.
  intros p e ch w H R. apply wlookup_walk in H. unfold do_rmdir, p_rmdir. cbn [each]. now rewrite H, R.
Qed.

Theorem rmdir_file_fails : forall p c w,
  wlookup w p = Some (File c) -> do_rmdir fold [p] w = (w, Err NotADirectory).
Proof.
  intros p c w H. apply wlookup_walk in H. unfold do_rmdir, p_rmdir. cbn [each]. now rewrite H.
Qed.

(* ------------------------------------------------------------------ cat *)
Lemma cat_read_ok : forall w srcs cs acc,
  Forall2 (fun s c => wlookup w s = Some (File c)) srcs cs ->
  cat_read fold w srcs acc = (acc ++ concat cs, None).
Proof.
  intros w srcs cs acc H. revert acc. induction H as [|s c srcs cs Hs _ IH]; intro acc; cbn [cat_read concat].
  - now rewrite app_nil_r.
  - apply wlookup_walk in Hs. unfold p_read. rewrite Hs, IH, app_assoc. reflexivity.
Qed.

Theorem cat_concat : forall w srcs cs,
  Forall2 (fun s c => wlookup w s = Some (File c)) srcs cs ->
  do_cat fold srcs None w = (w, Ok (concat cs)).
Proof. intros w srcs cs H. unfold do_cat. now rewrite (cat_read_ok w srcs cs [] H). Qed.

Theorem cat_concat_o : forall w srcs cs o,
  Forall2 (fun s c => wlookup w s = Some (File c)) srcs cs ->
  (creatable w o \/ exists c0, wwalk w o = LNode (File c0)) ->
  Forall (fun s => disjoint s o) srcs ->
  let w' := wput w o (File (concat cs)) in
  do_cat fold srcs (Some o) w = (w', Ok []) /\
  wlookup w' o = Some (File (concat cs)) /\
  (forall q, disjoint q o -> wlookup w' q = wlookup w q).
Proof.
  intros w srcs cs o H C D w'.
  assert (p_write fold w o [] = Ok (wput w o (File [])) /\ whas_parent fold w o) as [P HP].
  { unfold p_write. destruct C as [[C1 C2]|[c0 C]].
    - rewrite C1, C2. split; [reflexivity | now apply parent_is_dir_has_parent].
    - rewrite C. split; [reflexivity | eapply wwalk_has_parent; eauto]. }
  split; [|split].
  - unfold do_cat. rewrite P. rewrite (cat_read_ok _ srcs cs []).
    + cbn [app]. unfold w'. now rewrite wput_wput.
    + clear P. induction H as [|s c srcs cs Hs _ IH]; constructor.
      * inversion D; subst. unfold Model.wlookup in *. now rewrite wwalk_wput_other.
      * inversion D; subst. now apply IH.
  - apply wlookup_walk. now apply wwalk_wput_same.
  - intros q Dq. unfold Model.wlookup, w'. now rewrite wwalk_wput_other.
Qed.
End Cmd.

Print Assumptions cp_file_exact.
Print Assumptions cp_r_tree_exact.
Print Assumptions roundtrip.
Print Assumptions mv_moves.
Print Assumptions mv_across.
Print Assumptions rm_removes_exactly.
Print Assumptions rm_dir_needs_r.
Print Assumptions rmdir_removes_exactly.
Print Assumptions rmdir_nonempty_fails.
Print Assumptions cat_concat.
Print Assumptions cat_concat_o.
