(* Runner entry for the Shell model.
   run [world; [cmd ...]] -> [[outcome ...]; final world (canonical: children sorted by name)]
   world = [[fs; node] ...]    node = [0; content] | [1; [[name; node] ...]]
   cmd   = [op; flags; [path ...]; [] | [path]]     path = [fs; [component ...]]
   op: cp (flag 1 = -r) | mv | rm (1 = -r, 2 = -f) | rmdir | mkdir (1 = -p) | touch | cat
   outcome = VRes of the bytes written to stdout *)
From Coq Require Import List NArith Bool String.
From NV Require Import Lib.Val Lib.Res Lib.Wire Shell.Model.
From NV Require Shell.Paths Shell.PathAlg.
Import ListNotations.
Open Scope N_scope.

Definition ascii_upper (s : name) : name :=
  map (fun c => if (97 <=? c) && (c <=? 122) then c - 32 else c) s.

Fixpoint dec_node (v : val) : node :=
  match v with
  | VL [VN 0; VS c] => File c
  | VL [VN _; VL l] =>
    Dir (map (fun e => match e with
                       | VL [VS k; x] => (k, dec_node x)
                       | _ => ([], File [])
                       end) l)
  | _ => File []
  end.

Definition dec_world (v : val) : world :=
  map (fun e => (getN (arg 0 e), dec_node (arg 1 e))) (getL v).

Definition dec_path (v : val) : path := (getN (arg 0 v), getLs (arg 1 v)).

Definition dec_cmd (v : val) : option cmd :=
  let op := getS (arg 0 v) in
  let fl := getN (arg 1 v) in
  let ps := map dec_path (getL (arg 2 v)) in
  let d := map dec_path (getL (arg 3 v)) in
  let is s := bytes_eqb op (str s) in
  if is "cp"%string then match d with [x] => Some (Cp (N.testbit fl 0) ps x) | _ => None end
  else if is "mv"%string then match d with [x] => Some (Mv ps x) | _ => None end
  else if is "rm"%string then Some (Rm (N.testbit fl 0) (N.testbit fl 1) ps)
  else if is "rmdir"%string then Some (Rmdir ps)
  else if is "mkdir"%string then Some (Mkdir (N.testbit fl 0) ps)
  else if is "touch"%string then Some (Touch ps)
  else if is "cat"%string then Some (Cat ps (match d with [x] => Some x | _ => None end))
  else None.

(* canonical form: children sorted by name *)
Fixpoint name_leb (a b : name) : bool :=
  match a, b with
  | [], _ => true
  | _ :: _, [] => false
  | x :: a', y :: b' => if x <? y then true else if y <? x then false else name_leb a' b'
  end.

Fixpoint insert (e : name * node) (l : list (name * node)) : list (name * node) :=
  match l with
  | [] => [e]
  | x :: r => if name_leb (fst e) (fst x) then e :: l else x :: insert e r
  end.

Fixpoint canon (n : node) : node :=
  match n with
  | File c => File c
  | Dir ch => Dir (fold_right insert [] (map (fun e => (fst e, canon (snd e))) ch))
  end.

Fixpoint enc_node (n : node) : val :=
  match n with
  | File c => VL [VN 0; VS c]
  | Dir ch => VL [VN 1; VL (map (fun e => VL [VS (fst e); enc_node (snd e)]) ch)]
  end.

Definition enc_world (w : world) : val :=
  VL (map (fun e => VL [VN (fst e); enc_node (canon (snd e))]) w).

Fixpoint run_all (cs : list val) (w : world) : list val * world :=
  match cs with
  | [] => ([], w)
  | c :: r =>
    match dec_cmd c with
    | None => ([VErr "bad command"], w)
    | Some c' =>
      let '(w', o) := exec ascii_upper c' w in
      let '(os, w'') := run_all r w' in
      (VRes VS o :: os, w'')
    end
  end.

Definition dispatch (cmd : string) (a : val) : val :=
  if String.eqb cmd "run" then
    let '(os, w) := run_all (getL (arg 1 a)) (dec_world (arg 0 a)) in
    VL [VL os; enc_world w]
  else if String.eqb cmd "parse_words" then
    (* [word ...] -> per word () | (image, () | (partition), path) : sh._image_re *)
    VL (map (fun w => match Shell.Paths.parse_image_word (getS w) with
                      | None => VL []
                      | Some (img, pt, p) => VL [VS img; match pt with None => VL [] | Some n => VL [VN n] end; VS p]
                      end) (getL a))
  else if String.eqb cmd "path_alg" then
    (* [segments; other segments; a name] -> everything the algebra says about FatPath(fs, *segments) *)
    let segs := getLs (arg 0 a) in
    let other := getLs (arg 1 a) in
    let nm := getS (arg 2 a) in
    let parts := Shell.PathAlg.get_parts segs in
    let opt o := match o with None => VL [] | Some l => VL [VLs l] end in
    VL [VLs parts; VS (Shell.PathAlg.path_str parts); VS (Shell.PathAlg.name parts); VS (Shell.PathAlg.suffix parts);
        VS (Shell.PathAlg.stem parts); VLs (Shell.PathAlg.parent parts); VLs (Shell.PathAlg.joinpath parts other);
        opt (Shell.PathAlg.with_name parts nm); opt (Shell.PathAlg.relative_to parts other);
        VB (Shell.PathAlg.is_absolute parts); opt (Shell.PathAlg.resolve_parts parts)]
  else VErr "unknown command".
