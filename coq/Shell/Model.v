(* Model of the command semantics of nobodd/sh.py (do_cp, do_mv, do_rm, do_rmdir, do_mkdir,
   do_touch, do_cat) over abstract file systems.  Executable definitions only; proofs are in
   Proofs*.v.

   A world maps file-system ids (0 = the host, 1.. = FAT partitions of the image) to a root
   directory.  Names are compared exactly on the host and through [fold] on a partition (the
   harness supplies ASCII upper-casing; FatDirectory compares upper-cased names, FatPath.__eq__
   lower-cased ones: the same equivalence on the names used).  8.3 aliases are not modelled.

   The primitives p_* are pathlib.Path / FatPath methods (mkdir, open('wb') + write, touch,
   unlink, rmdir, rename); the two differ in three places, all modelled: Path.is_dir()/exists()
   answer False below a regular file where FatPath raises NotADirectoryError; Path.touch()
   accepts a directory where FatPath.touch() raises IsADirectoryError; os.rename replaces an
   empty directory by a directory where FatPath.rename refuses any existing directory.

   Iteration order of a directory = order of the children list (the harness passes each world
   in the order the real system lists it).  A recursive copy whose source and target lie inside
   one another on one file system is not modelled (the real tool recurses into what it is
   writing): it is refused with OutOfFuel and changes nothing. *)
From Coq Require Import List NArith Bool.
From NV Require Import Lib.Val Lib.Res.
Import ListNotations.
Open Scope N_scope.

Definition name := list N.
Inductive node := File (content : list N) | Dir (children : list (name * node)).
Definition world := list (N * node).
Definition path := (N * list name)%type.

Inductive look := LNone | LNotDir | LNode (n : node).

(* ------------------------------------------------------------------ one tree *)
Section Tree.
Variable kf : name -> name.          (* comparison key of a name *)

Definition keq (a b : name) : bool := bytes_eqb (kf a) (kf b).

Fixpoint find (k : name) (l : list (name * node)) : option node :=
  match l with
  | [] => None
  | (k', v) :: r => if keq k' k then Some v else find k r
  end.

(* replace the first entry named k (its spelling is kept), else append *)
Fixpoint upd (k : name) (v : node) (l : list (name * node)) : list (name * node) :=
  match l with
  | [] => [(k, v)]
  | (k', x) :: r => if keq k' k then (k', v) :: r else (k', x) :: upd k v r
  end.

Definition del (k : name) (l : list (name * node)) : list (name * node) :=
  filter (fun e => negb (keq (fst e) k)) l.

Fixpoint walk (n : node) (p : list name) : look :=
  match p with
  | [] => LNode n
  | k :: r =>
    match n with
    | File _ => LNotDir
    | Dir ch => match find k ch with None => LNone | Some c => walk c r end
    end
  end.

(* set the node at p (the caller has checked that the parent is a directory) *)
Fixpoint put (n : node) (p : list name) (v : node) : node :=
  match p with
  | [] => v
  | k :: r =>
    match n with
    | File c => File c
    | Dir ch =>
      match find k ch, r with
      | Some c, _ => Dir (upd k (put c r v) ch)
      | None, [] => Dir (upd k v ch)
      | None, _ :: _ => Dir ch
      end
    end
  end.

Fixpoint rem (n : node) (p : list name) : node :=
  match p with
  | [] => n
  | k :: r =>
    match n with
    | File c => File c
    | Dir ch =>
      match r with
      | [] => Dir (del k ch)
      | _ :: _ => match find k ch with Some c => Dir (upd k (rem c r) ch) | None => Dir ch end
      end
    end
  end.

(* a is a prefix of b, component-wise under the key *)
Fixpoint prefix (a b : list name) : bool :=
  match a, b with
  | [], _ => true
  | x :: a', y :: b' => keq x y && prefix a' b'
  | _ :: _, [] => false
  end.

(* what a recursive copy of n leaves at a destination that held old:
   for every child in order, the destination child of that name is replaced by the merge *)
Fixpoint merge (old : option node) (n : node) : node :=
  match n with
  | File c => File c
  | Dir ch =>
    Dir ((fix go (l acc : list (name * node)) : list (name * node) :=
            match l with
            | [] => acc
            | (k, c) :: r => go r (upd k (merge (find k acc) c) acc)
            end) ch (match old with Some (Dir o) => o | _ => [] end))
  end.
End Tree.

(* ------------------------------------------------------------------ worlds *)
Fixpoint getfs (w : world) (i : N) : option node :=
  match w with [] => None | (j, n) :: r => if j =? i then Some n else getfs r i end.

Fixpoint setfs (w : world) (i : N) (n : node) : world :=
  match w with
  | [] => []
  | (j, x) :: r => if j =? i then (j, n) :: r else (j, x) :: setfs r i n
  end.

Section Shell.
Variable fold : name -> name.

Definition key (fs : N) (k : name) : name := if fs =? 0 then k else fold k.

Definition wwalk (w : world) (p : path) : look :=
  match getfs w (fst p) with None => LNone | Some r => walk (key (fst p)) r (snd p) end.
Definition wlookup (w : world) (p : path) : option node :=
  match wwalk w p with LNode n => Some n | _ => None end.
Definition wput (w : world) (p : path) (v : node) : world :=
  match getfs w (fst p) with
  | None => w
  | Some r => setfs w (fst p) (put (key (fst p)) r (snd p) v)
  end.
Definition wrem (w : world) (p : path) : world :=
  match getfs w (fst p) with
  | None => w
  | Some r => setfs w (fst p) (rem (key (fst p)) r (snd p))
  end.

Definition parent (p : path) : path := (fst p, removelast (snd p)).
Definition pname (p : path) : name := last (snd p) [].
Definition join (p : path) (k : name) : path := (fst p, snd p ++ [k]).
Definition is_root (p : path) : bool := match snd p with [] => true | _ => false end.
(* dest_root / source.name ; the name of a partition root is '' and joining it changes nothing *)
Definition target (dest s : path) : path := if is_root s then dest else join dest (pname s).
Definition on_host (p : path) : bool := fst p =? 0.
Definition patheq (a b : path) : bool :=
  (fst a =? fst b) && list_eqb (keq (key (fst a))) (snd a) (snd b).
Definition below (a b : path) : bool :=      (* b is at or below a *)
  (fst a =? fst b) && prefix (key (fst a)) (snd a) (snd b).
Definition parent_is_dir (w : world) (p : path) : bool :=
  match wwalk w (parent p) with LNode (Dir _) => true | _ => false end.
Definition exists_b (w : world) (p : path) : bool :=
  match wwalk w p with LNode _ => true | _ => false end.

(* path.is_dir() *)
Definition is_dir (w : world) (p : path) : res bool :=
  match wwalk w p with
  | LNode (Dir _) => Ok true
  | LNotDir => if on_host p then Ok false else Err NotADirectory
  | _ => Ok false
  end.

(* ------------------------------------------------------------------ primitives *)
(* path.mkdir(exist_ok=...) *)
Definition p_mkdir (w : world) (p : path) (exist_ok : bool) : res world :=
  match wwalk w p with
  | LNode (Dir _) => if exist_ok then Ok w else Err FileExists
  | LNode (File _) => Err FileExists
  | LNotDir => Err NotADirectory
  | LNone => if parent_is_dir w p then Ok (wput w p (Dir [])) else Err FileNotFound
  end.

(* with path.open('rb') as f: f.read() *)
Definition p_read (w : world) (p : path) : res (list N) :=
  match wwalk w p with
  | LNode (File c) => Ok c
  | LNode (Dir _) => Err IsADirectory
  | LNotDir => Err NotADirectory
  | LNone => Err FileNotFound
  end.

(* with path.open('wb') as f: f.write(c)   (create or truncate) *)
Definition p_write (w : world) (p : path) (c : list N) : res world :=
  match wwalk w p with
  | LNode (File _) => Ok (wput w p (File c))
  | LNode (Dir _) => Err IsADirectory
  | LNotDir => Err NotADirectory
  | LNone => if parent_is_dir w p then Ok (wput w p (File c)) else Err FileNotFound
  end.

(* path.touch(): time stamps are not part of the model *)
Definition p_touch (w : world) (p : path) : res world :=
  match wwalk w p with
  | LNode (File _) => Ok w
  | LNode (Dir _) => if on_host p then Ok w else Err IsADirectory
  | LNotDir => Err NotADirectory
  | LNone => if parent_is_dir w p then Ok (wput w p (File [])) else Err FileNotFound
  end.

Definition p_unlink (w : world) (p : path) : res world :=
  match wwalk w p with
  | LNode (File _) => Ok (wrem w p)
  | LNode (Dir _) => Err IsADirectory
  | LNotDir => Err NotADirectory
  | LNone => Err FileNotFound
  end.

Definition p_rmdir (w : world) (p : path) : res world :=
  match wwalk w p with
  | LNode (Dir ch) =>
    if is_root p then Err PermissionErr
    else match ch with [] => Ok (wrem w p) | _ :: _ => Err NotEmpty end
  | LNode (File _) => Err NotADirectory
  | LNotDir => Err NotADirectory
  | LNone => Err FileNotFound
  end.

(* source.rename(dest), both on one file system *)
Definition p_rename (w : world) (s d : path) : res world :=
  match wwalk w s with
  | LNone => Err FileNotFound
  | LNotDir => Err NotADirectory
  | LNode sn =>
    if is_root s then Err PermissionErr
    else if (match sn with Dir _ => true | File _ => false end) && below s d && negb (patheq s d)
    then Err OSError_Other                       (* EINVAL: a directory into itself *)
    else
      match wwalk w d with
      | LNotDir => Err NotADirectory
      | LNone => if parent_is_dir w d then Ok (wrem (wput w d sn) s) else Err FileNotFound
      | LNode dn =>
        if patheq s d then Ok w                   (* the very same entry: nothing to do *)
        else match sn, dn with
             | File _, File _ => Ok (wrem (wput w d sn) s)
             | File _, Dir _ => Err IsADirectory
             | Dir _, File _ => Err NotADirectory
             | Dir _, Dir ch =>
               if on_host d
               then match ch with [] => Ok (wrem (wput w d sn) s) | _ :: _ => Err NotEmpty end
               else Err IsADirectory
             end
      end
  end.

(* ------------------------------------------------------------------ plumbing *)
Definition lift (w : world) (r : res world) : world * res unit :=
  match r with Ok w' => (w', Ok tt) | Err e => (w, Err e) end.

(* for x in l: f(x)  -- stops at the first failure, what was done stays *)
Fixpoint each {A} (f : A -> world -> world * res unit) (l : list A) (w : world)
  : world * res unit :=
  match l with
  | [] => (w, Ok tt)
  | x :: r => match f x w with
              | (w', Ok _) => each f r w'
              | (w', Err e) => (w', Err e)
              end
  end.

(* ------------------------------------------------------------------ cp *)
(* _copy(source, dest) where source currently holds n *)
Fixpoint copy_node (r : bool) (n : node) (sp dp : path) (w : world) {struct n}
  : world * res unit :=
  match n with
  | File c =>
    if (fst sp =? fst dp) && exists_b w dp && patheq sp dp
    then (w, Err ValueError)                      (* "are the same file" *)
    else lift w (p_write w dp c)
  | Dir ch =>
    if r then
      match p_mkdir w dp true with
      | Err e => (w, Err e)
      | Ok w1 =>
        (fix go (l : list (name * node)) (w : world) : world * res unit :=
           match l with
           | [] => (w, Ok tt)
           | (k, c) :: rest =>
             match copy_node r c (join sp k) (join dp k) w with
             | (w', Ok _) => go rest w'
             | (w', Err e) => (w', Err e)
             end
           end) ch w1
      end
    else match ch with
         | [] => lift w (p_mkdir w dp false)
         | _ :: _ => (w, Err IsADirectory)        (* -r not specified *)
         end
  end.

Definition node_is_dir (n : node) : bool := match n with Dir _ => true | File _ => false end.

(* source and target lie strictly inside one another on one file system *)
Definition overlap (s t : path) : bool :=
  (below s t || below t s) && negb (patheq s t).

Definition copy_top (r : bool) (s t : path) (w : world) : world * res unit :=
  match wwalk w s with
  | LNode n =>
    if r && node_is_dir n && overlap s t then (w, Err OutOfFuel)
    else copy_node r n s t w
  | LNone => (w, Err FileNotFound)
  | LNotDir => (w, Err NotADirectory)
  end.

(* the common shape of do_cp and do_mv *)
Definition into (op : path -> path -> world -> world * res unit)
           (srcs : list path) (dest : path) (w : world) : world * res unit :=
  match is_dir w dest with
  | Err e => (w, Err e)
  | Ok true => each (fun s => op s (target dest s)) srcs w
  | Ok false =>
    match srcs with
    | [s] => op s dest w
    | [] => (w, Err IndexError)
    | _ :: _ :: _ => (w, Err NotADirectory)
    end
  end.

Definition do_cp (r : bool) (srcs : list path) (dest : path) (w : world) : world * res unit :=
  into (copy_top r) srcs dest w.

(* ------------------------------------------------------------------ mv *)
(* _move(source, dest) across file systems, source currently holds n *)
Fixpoint move_node (n : node) (sp dp : path) (w : world) {struct n} : world * res unit :=
  match n with
  | File c =>
    match p_write w dp c with
    | Err e => (w, Err e)
    | Ok w1 => lift w1 (p_unlink w1 sp)
    end
  | Dir ch =>
    match p_mkdir w dp true with
    | Err e => (w, Err e)
    | Ok w1 =>
      match (fix go (l : list (name * node)) (w : world) : world * res unit :=
               match l with
               | [] => (w, Ok tt)
               | (k, c) :: rest =>
                 match move_node c (join sp k) (join dp k) w with
                 | (w', Ok _) => go rest w'
                 | (w', Err e) => (w', Err e)
                 end
               end) ch w1 with
      | (w2, Ok _) => lift w2 (p_rmdir w2 sp)
      | (w2, Err e) => (w2, Err e)
      end
    end
  end.

Definition move_top (s t : path) (w : world) : world * res unit :=
  if fst s =? fst t then lift w (p_rename w s t)
  else match wwalk w s with
       | LNode n => move_node n s t w
       | LNone => (w, Err FileNotFound)
       | LNotDir => (w, Err NotADirectory)
       end.

Definition do_mv (srcs : list path) (dest : path) (w : world) : world * res unit :=
  into move_top srcs dest w.

(* ------------------------------------------------------------------ rm, rmdir, mkdir, touch *)
Definition unlink_f (force : bool) (p : path) (w : world) : world * res unit :=
  match p_unlink w p with
  | Ok w' => (w', Ok tt)
  | Err FileNotFound => if force then (w, Ok tt) else (w, Err FileNotFound)
  | Err e => (w, Err e)
  end.

(* _remove_dir(path); path.rmdir() : everything below goes, then the directory itself --
   except a root, which is emptied and then refused *)
Definition rm_one (recursive force : bool) (p : path) (w : world) : world * res unit :=
  if recursive then
    match is_dir w p with
    | Err e => (w, Err e)
    | Ok true => if is_root p then (wput w p (Dir []), Err PermissionErr) else (wrem w p, Ok tt)
    | Ok false => unlink_f force p w
    end
  else unlink_f force p w.

Definition do_rm (recursive force : bool) (ps : list path) (w : world) : world * res unit :=
  each (rm_one recursive force) ps w.

Definition do_rmdir (ps : list path) (w : world) : world * res unit :=
  each (fun p w => lift w (p_rmdir w p)) ps w.

Definition do_touch (ps : list path) (w : world) : world * res unit :=
  each (fun p w => lift w (p_touch w p)) ps w.

(* mkdir -p: sh.py collects the missing ancestors bottom-up and creates them top-down; the
   same thing top-down: every prefix that does not exist is created in turn *)
Fixpoint mkdir_p (fs : N) (pre rest : list name) (w : world) : world * res unit :=
  match rest with
  | [] => (w, Ok tt)
  | k :: r =>
    let q := (fs, pre ++ [k]) in
    if exists_b w q then mkdir_p fs (pre ++ [k]) r w
    else match p_mkdir w q false with
         | Ok w' => mkdir_p fs (pre ++ [k]) r w'
         | Err e => (w, Err e)
         end
  end.

Definition mkdir_one (parents : bool) (p : path) (w : world) : world * res unit :=
  if parents then
    match is_dir w p with          (* FatPath.exists() raises below a regular file *)
    | Err e => (w, Err e)
    | Ok _ => mkdir_p (fst p) [] (snd p) w
    end
  else lift w (p_mkdir w p false).

Definition do_mkdir (parents : bool) (ps : list path) (w : world) : world * res unit :=
  each (mkdir_one parents) ps w.

(* ------------------------------------------------------------------ cat *)
(* inputs are read one after the other; what was read before a failing input stays written *)
Fixpoint cat_read (w : world) (srcs : list path) (acc : list N) : list N * option exn :=
  match srcs with
  | [] => (acc, None)
  | s :: r => match p_read w s with
              | Ok c => cat_read w r (acc ++ c)
              | Err e => (acc, Some e)
              end
  end.

Definition do_cat (srcs : list path) (out : option path) (w : world) : world * res (list N) :=
  match out with
  | None =>
    match cat_read w srcs [] with
    | (buf, None) => (w, Ok buf)
    | (_, Some e) => (w, Err e)
    end
  | Some o =>
    match p_write w o [] with                      (* open('wb') creates / truncates first *)
    | Err e => (w, Err e)
    | Ok w1 =>
      match cat_read w1 srcs [] with
      | (buf, None) => (wput w1 o (File buf), Ok [])
      | (buf, Some e) => (wput w1 o (File buf), Err e)
      end
    end
  end.

(* ------------------------------------------------------------------ commands *)
Inductive cmd :=
| Cp (r : bool) (srcs : list path) (dest : path)
| Mv (srcs : list path) (dest : path)
| Rm (r f : bool) (ps : list path)
| Rmdir (ps : list path)
| Mkdir (p : bool) (ps : list path)
| Touch (ps : list path)
| Cat (srcs : list path) (out : option path).

Definition cmd_paths (c : cmd) : list path :=
  match c with
  | Cp _ s d | Mv s d => s ++ [d]
  | Rm _ _ ps | Rmdir ps | Mkdir _ ps | Touch ps => ps
  | Cat s o => s ++ match o with Some p => [p] | None => [] end
  end.

Definition no_out (x : world * res unit) : world * res (list N) :=
  match x with (w, Ok _) => (w, Ok []) | (w, Err e) => (w, Err e) end.

Definition has_fs (w : world) (p : path) : bool :=
  match getfs w (fst p) with Some _ => true | None => false end.

(* get_paths opens every partition named on the command line before anything is done *)
Definition exec (c : cmd) (w : world) : world * res (list N) :=
  if forallb (has_fs w) (cmd_paths c) then
    match c with
    | Cp r s d => no_out (do_cp r s d w)
    | Mv s d => no_out (do_mv s d w)
    | Rm r f ps => no_out (do_rm r f ps w)
    | Rmdir ps => no_out (do_rmdir ps w)
    | Mkdir p ps => no_out (do_mkdir p ps w)
    | Touch ps => no_out (do_touch ps w)
    | Cat s o => do_cat s o w
    end
  else (w, Err FileNotFound).
End Shell.
