(* sh.get_paths: which command-line words name something inside an image.
   _image_re = ^ image:[non-greedy any] ':' part:[1-9][0-9]{0,2} optional  path:['/' any] $   (the pattern text is
   regenerated in Gen/Copy.v)
   The scanner below follows Python's regex semantics for exactly this pattern: the image is the
   SHORTEST prefix before a colon after which an optional partition number (1..999, no leading
   zero) and a path starting with "/" follow up to the end of the word; "." matches no newline, and
   "$" also matches before one trailing newline.  Executable definitions, then the theorems. *)
From Coq Require Import List NArith ZArith Bool Lia.
Import ListNotations.
Ltac Zify.zify_post_hook ::= Z.to_euclidean_division_equations.
Open Scope N_scope.

Definition word := list N.
Definition is_digit (c : N) : bool := (48 <=? c) && (c <=? 57).
Definition is_digit19 (c : N) : bool := (49 <=? c) && (c <=? 57).
Definition no_nl (l : word) : bool := forallb (fun c => negb (c =? 10)) l.

(* the path group: a slash, then anything but a newline, up to the end *)
Definition path_tail (r : word) : option word :=
  match r with
  | 47 :: _ =>
    if no_nl r then Some r
    else match rev r with
         | 10 :: q => if no_nl q then Some (rev q) else None
         | _ => None
         end
  | _ => None
  end.

(* the optional partition group, then the path *)
Definition part_and_path (r : word) : option (option N * word) :=
  match path_tail r with
  | Some p => Some (None, p)
  | None =>
    match r with
    | d1 :: r1 =>
      if is_digit19 d1 then
        match path_tail r1 with
        | Some p => Some (Some (d1 - 48), p)
        | None =>
          match r1 with
          | d2 :: r2 =>
            if is_digit d2 then
              match path_tail r2 with
              | Some p => Some (Some ((d1 - 48) * 10 + (d2 - 48)), p)
              | None =>
                match r2 with
                | d3 :: r3 =>
                  if is_digit d3 then
                    match path_tail r3 with
                    | Some p => Some (Some (((d1 - 48) * 10 + (d2 - 48)) * 10 + (d3 - 48)), p)
                    | None => None
                    end
                  else None
                | [] => None
                end
              end
            else None
          | [] => None
          end
        end
      else None
    | [] => None
    end
  end.

(* the non-greedy image group up to a colon; [pre_rev] = what has been passed, reversed *)
Fixpoint parse_from (pre_rev : word) (s : word) : option (word * option N * word) :=
  match s with
  | [] => None
  | c :: r =>
    if c =? 10 then None
    else if c =? 58 then
      match part_and_path r with
      | Some (pt, p) => Some (rev pre_rev, pt, p)
      | None => parse_from (c :: pre_rev) r
      end
    else parse_from (c :: pre_rev) r
  end.
Definition parse_image_word (s : word) : option (word * option N * word) := parse_from [] s.

(* how a partition number is written *)
Definition digits_of (n : N) : word :=
  if n <? 10 then [48 + n]
  else if n <? 100 then [48 + n / 10; 48 + n mod 10]
  else [48 + n / 100; 48 + (n / 10) mod 10; 48 + n mod 10].
Definition part_text (p : option N) : word := match p with None => [] | Some n => digits_of n end.
Definition render (image : word) (p : option N) (path : word) : word := image ++ [58] ++ part_text p ++ path.

(* ------------------------------------------------------------------ proofs *)
Lemma no_nl_app a b : no_nl (a ++ b) = no_nl a && no_nl b.
Proof. unfold no_nl. apply forallb_app. Qed.

Lemma path_tail_slash p : path_tail p <> None -> exists q, p = 47 :: q.
Proof.
  destruct p as [|c q]; cbn [path_tail]; [congruence|]. intros H.
  destruct (N.eq_dec c 47) as [->|Hn]; [eauto|].
  exfalso. apply H. destruct c as [|c]; [reflexivity|].
  do 6 (destruct c as [c|c|]; try reflexivity). all: try (destruct c; reflexivity). congruence.
Qed.
Lemma path_tail_clean p q : p = 47 :: q -> no_nl p = true -> path_tail p = Some p.
Proof. intros -> H. cbn [path_tail]. rewrite H. reflexivity. Qed.
Lemma path_tail_not_digit c r : is_digit c = true -> path_tail (c :: r) = None.
Proof.
  intros H. destruct (path_tail (c :: r)) eqn:E; [|reflexivity]. exfalso.
  assert (X : path_tail (c :: r) <> None) by congruence. destruct (path_tail_slash _ X) as (q & Hq).
  inversion Hq; subst. discriminate.
Qed.

(* what is recognised is what was written: image ":" [part] path, up to one trailing newline *)
Lemma path_tail_sound r p : path_tail r = Some p ->
  (r = p \/ r = p ++ [10]) /\ no_nl p = true /\ exists q, p = 47 :: q.
Proof.
  destruct r as [|c q]; cbn [path_tail]; [discriminate|].
  destruct (N.eq_dec c 47) as [->|Hn].
  - destruct (no_nl (47 :: q)) eqn:E.
    + intros H. inversion H; subst. split; [left; reflexivity|]. split; [exact E|eauto].
    + destruct (rev (47 :: q)) as [|x t] eqn:R; [discriminate|].
      destruct (N.eq_dec x 10) as [->|Hx].
      * destruct (no_nl t) eqn:T; [|discriminate]. intros H. inversion H; subst.
        assert (E2 : 47 :: q = rev t ++ [10]) by (rewrite <- (rev_involutive (47 :: q)), R; reflexivity).
        split; [right; exact E2|]. split; [unfold no_nl in *; rewrite forallb_forall in *; intros y Hy; apply T, in_rev, Hy|].
        destruct (rev t) as [|y u] eqn:U; [cbn in E2; inversion E2|]. cbn in E2. inversion E2; subst. eauto.
      * intros H. exfalso. revert H. destruct x as [|x]; [discriminate|].
        do 4 (destruct x as [x|x|]; try discriminate). contradiction.
  - intros H. exfalso. assert (X : path_tail (c :: q) <> None) by (cbn [path_tail]; congruence).
    destruct (path_tail_slash _ X) as (q' & E). inversion E; subst. contradiction.
Qed.

Lemma digit_val c : is_digit c = true -> 48 + (c - 48) = c /\ c - 48 < 10.
Proof. unfold is_digit. intros H. apply andb_true_iff in H as [H1 H2]. apply N.leb_le in H1, H2. lia. Qed.
Lemma digit19_val c : is_digit19 c = true -> is_digit c = true /\ 1 <= c - 48.
Proof.
  unfold is_digit19, is_digit. intros H. apply andb_true_iff in H as [H1 H2]. apply N.leb_le in H1, H2.
  split; [apply andb_true_iff; split; apply N.leb_le; lia|lia].
Qed.

Lemma part_and_path_sound r pt p : part_and_path r = Some (pt, p) ->
  (r = part_text pt ++ p \/ r = part_text pt ++ p ++ [10]) /\
  no_nl p = true /\ (exists q, p = 47 :: q) /\ match pt with None => True | Some n => 1 <= n /\ n <= 999 end.
Proof.
  unfold part_and_path. destruct (path_tail r) as [p0|] eqn:P0.
  - intros H. inversion H; subst. destruct (path_tail_sound _ _ P0) as ([E|E] & N & Q); cbn [part_text app]; auto.
  - destruct r as [|d1 r1]; [discriminate|]. destruct (is_digit19 d1) eqn:D1; [|discriminate].
    destruct (digit19_val _ D1) as (D1' & L1). destruct (digit_val _ D1') as (V1 & B1).
    destruct (path_tail r1) as [p1|] eqn:P1.
    + intros H. inversion H; subst. destruct (path_tail_sound _ _ P1) as (E & N & Q).
      assert (T : part_text (Some (d1 - 48)) = [d1]).
      { cbn [part_text]. unfold digits_of. replace (d1 - 48 <? 10) with true by (symmetry; apply N.ltb_lt; lia). rewrite V1. reflexivity. }
      rewrite T. cbn [app]. split; [destruct E as [->| ->]; auto|]. split; [exact N|]. split; [exact Q|lia].
    + destruct r1 as [|d2 r2]; [discriminate|]. destruct (is_digit d2) eqn:D2; [|discriminate].
      destruct (digit_val _ D2) as (V2 & B2).
      destruct (path_tail r2) as [p2|] eqn:P2.
      * intros H. inversion H; subst. destruct (path_tail_sound _ _ P2) as (E & N & Q).
        set (n := (d1 - 48) * 10 + (d2 - 48)).
        assert (Hn : 10 <= n /\ n < 100 /\ n / 10 = d1 - 48 /\ n mod 10 = d2 - 48).
        { unfold n. repeat split; lia. }
        destruct Hn as (H1 & H2 & H3 & H4).
        assert (T : part_text (Some n) = [d1; d2]).
        { cbn [part_text]. unfold digits_of.
          replace (n <? 10) with false by (symmetry; apply N.ltb_ge; lia).
          replace (n <? 100) with true by (symmetry; apply N.ltb_lt; lia). rewrite H3, H4, V1, V2. reflexivity. }
        rewrite T. cbn [app]. split; [destruct E as [->| ->]; auto|]. split; [exact N|]. split; [exact Q|lia].
      * destruct r2 as [|d3 r3]; [discriminate|]. destruct (is_digit d3) eqn:D3; [|discriminate].
        destruct (digit_val _ D3) as (V3 & B3).
        destruct (path_tail r3) as [p3|] eqn:P3; [|discriminate].
        intros H. inversion H; subst. destruct (path_tail_sound _ _ P3) as (E & N & Q).
        set (n := ((d1 - 48) * 10 + (d2 - 48)) * 10 + (d3 - 48)).
        assert (Hn : 100 <= n /\ n < 1000 /\ n / 100 = d1 - 48 /\ (n / 10) mod 10 = d2 - 48 /\ n mod 10 = d3 - 48).
        { unfold n. repeat split; lia. }
        destruct Hn as (H1 & H2 & H3 & H4 & H5).
        assert (T : part_text (Some n) = [d1; d2; d3]).
        { cbn [part_text]. unfold digits_of.
          replace (n <? 10) with false by (symmetry; apply N.ltb_ge; lia).
          replace (n <? 100) with false by (symmetry; apply N.ltb_ge; lia). rewrite H3, H4, H5, V1, V2, V3. reflexivity. }
        rewrite T. cbn [app]. split; [destruct E as [->| ->]; auto|]. split; [exact N|]. split; [exact Q|lia].
Qed.

Lemma parse_from_sound s : forall pre img pt p, parse_from pre s = Some (img, pt, p) ->
  (rev pre ++ s = render img pt p \/ rev pre ++ s = render img pt p ++ [10]) /\
  no_nl p = true /\ (exists q, p = 47 :: q) /\
  match pt with None => True | Some n => 1 <= n /\ n <= 999 end /\
  exists t, img = rev pre ++ t /\ no_nl t = true.
Proof.
  induction s as [|c r IH]; intros pre img pt p; cbn [parse_from]; [discriminate|].
  destruct (N.eqb_spec c 10) as [->|Hnl]; [discriminate|].
  assert (Step : parse_from (c :: pre) r = Some (img, pt, p) ->
                 (rev pre ++ c :: r = render img pt p \/ rev pre ++ c :: r = render img pt p ++ [10]) /\
                 no_nl p = true /\ (exists q, p = 47 :: q) /\
                 match pt with None => True | Some n => 1 <= n /\ n <= 999 end /\
                 exists t, img = rev pre ++ t /\ no_nl t = true).
  { intros H. destruct (IH _ _ _ _ H) as (E & N & Q & R & t & It & Nt). cbn [rev] in E, It. rewrite <- app_assoc in E, It. cbn [app] in E, It.
    split; [exact E|]. split; [exact N|]. split; [exact Q|]. split; [exact R|].
    exists (c :: t). split; [exact It|]. cbn [no_nl forallb]. fold (no_nl t). rewrite Nt.
    destruct (N.eqb_spec c 10); [contradiction|reflexivity]. }
  destruct (N.eqb_spec c 58) as [->|Hc]; [|exact Step].
  destruct (part_and_path r) as [[pt0 p0]|] eqn:PP; [|exact Step].
  intros H. inversion H; subst. destruct (part_and_path_sound _ _ _ PP) as (E & N & Q & R).
  split; [unfold render; destruct E as [->| ->]; [left|right]; rewrite <- ?app_assoc; reflexivity|].
  split; [exact N|]. split; [exact Q|]. split; [exact R|]. exists []. rewrite app_nil_r. auto.
Qed.

(* soundness: a recognised word IS image ":" [partition] path (one trailing newline apart); the
   partition number is 1..999, the path starts with "/", neither image nor path holds a newline *)
Theorem parse_sound s img pt p : parse_image_word s = Some (img, pt, p) ->
  (s = render img pt p \/ s = render img pt p ++ [10]) /\
  no_nl img = true /\ no_nl p = true /\ (exists q, p = 47 :: q) /\
  match pt with None => True | Some n => 1 <= n /\ n <= 999 end.
Proof.
  intros H. destruct (parse_from_sound s [] img pt p H) as (E & N & Q & R & t & It & Nt). cbn [rev app] in E, It.
  subst t. tauto.
Qed.

(* a word without a colon is a host path *)
Lemma parse_from_no_colon s : forall pre, ~ In 58 s -> parse_from pre s = None.
Proof.
  induction s as [|c r IH]; intros pre H; [reflexivity|]. cbn [parse_from].
  destruct (c =? 10); [reflexivity|]. destruct (N.eqb_spec c 58) as [->|Hc]; [exfalso; apply H; left; reflexivity|].
  apply IH. intros X. apply H. right. exact X.
Qed.
Theorem host_words s : ~ In 58 s -> parse_image_word s = None.
Proof. apply parse_from_no_colon. Qed.

(* completeness for image names without a colon: what render writes is read back *)
Lemma part_and_path_render pt p q : p = 47 :: q -> no_nl p = true ->
  match pt with None => True | Some n => 1 <= n /\ n <= 999 end ->
  part_and_path (part_text pt ++ p) = Some (pt, p).
Proof.
  intros Hp N R. pose proof (path_tail_clean p q Hp N) as PT.
  destruct pt as [n|]; cbn [part_text app]; [|unfold part_and_path; rewrite PT; reflexivity].
  destruct R as [R1 R2]. unfold digits_of.
  destruct (N.ltb_spec n 10) as [L1|L1].
  - cbn [app]. unfold part_and_path.
    assert (D : is_digit19 (48 + n) = true) by (unfold is_digit19; apply andb_true_iff; split; apply N.leb_le; lia).
    destruct (digit19_val _ D) as (D' & _).
    rewrite (path_tail_not_digit _ _ D'), D, PT. do 2 f_equal. f_equal. lia.
  - destruct (N.ltb_spec n 100) as [L2|L2].
    + cbn [app]. unfold part_and_path.
      assert (A1 : 1 <= n / 10 /\ n / 10 < 10) by lia.
      assert (A2 : n mod 10 < 10) by lia.
      assert (D1 : is_digit19 (48 + n / 10) = true) by (unfold is_digit19; apply andb_true_iff; split; apply N.leb_le; lia).
      assert (D2 : is_digit (48 + n mod 10) = true) by (unfold is_digit; apply andb_true_iff; split; apply N.leb_le; lia).
      destruct (digit19_val _ D1) as (D1' & _).
      rewrite (path_tail_not_digit _ _ D1'), D1, (path_tail_not_digit _ _ D2), D2, PT. do 2 f_equal. f_equal.
      replace (48 + n / 10 - 48) with (n / 10) by lia. replace (48 + n mod 10 - 48) with (n mod 10) by lia.
      lia.
    + cbn [app]. unfold part_and_path.
      assert (A1 : 1 <= n / 100 /\ n / 100 < 10) by lia.
      assert (A2 : (n / 10) mod 10 < 10) by lia.
      assert (A3 : n mod 10 < 10) by lia.
      assert (D1 : is_digit19 (48 + n / 100) = true) by (unfold is_digit19; apply andb_true_iff; split; apply N.leb_le; lia).
      assert (D2 : is_digit (48 + (n / 10) mod 10) = true) by (unfold is_digit; apply andb_true_iff; split; apply N.leb_le; lia).
      assert (D3 : is_digit (48 + n mod 10) = true) by (unfold is_digit; apply andb_true_iff; split; apply N.leb_le; lia).
      destruct (digit19_val _ D1) as (D1' & _).
      rewrite (path_tail_not_digit _ _ D1'), D1, (path_tail_not_digit _ _ D2), D2, (path_tail_not_digit _ _ D3), D3, PT.
      do 2 f_equal. f_equal.
      replace (48 + n / 100 - 48) with (n / 100) by lia. replace (48 + (n / 10) mod 10 - 48) with ((n / 10) mod 10) by lia.
      replace (48 + n mod 10 - 48) with (n mod 10) by lia.
      lia.
Qed.

Lemma parse_from_prefix img : forall pre rest, ~ In 58 img -> no_nl img = true ->
  parse_from pre (img ++ 58 :: rest) =
  match part_and_path rest with
  | Some (pt, p) => Some (rev pre ++ img, pt, p)
  | None => parse_from (58 :: rev img ++ pre) rest
  end.
Proof.
  induction img as [|c r IH]; intros pre rest NC NN.
  - cbn [app parse_from rev]. replace (58 =? 10) with false by reflexivity. replace (58 =? 58) with true by reflexivity.
    rewrite app_nil_r. reflexivity.
  - cbn [app parse_from]. cbn [no_nl forallb] in NN. fold (no_nl r) in NN. apply andb_true_iff in NN as [N1 N2].
    destruct (N.eqb_spec c 10) as [->|_]; [discriminate|].
    destruct (N.eqb_spec c 58) as [->|_]; [exfalso; apply NC; left; reflexivity|].
    rewrite IH; [|intros X; apply NC; right; exact X|exact N2].
    cbn [rev]. rewrite <- !app_assoc. cbn [app]. reflexivity.
Qed.

Theorem parse_render img pt p q : ~ In 58 img -> no_nl img = true -> p = 47 :: q -> no_nl p = true ->
  match pt with None => True | Some n => 1 <= n /\ n <= 999 end ->
  parse_image_word (render img pt p) = Some (img, pt, p).
Proof.
  intros NC NN Hp Np R. unfold parse_image_word, render. cbn [app].
  rewrite (parse_from_prefix img [] (part_text pt ++ p) NC NN).
  rewrite (part_and_path_render pt p q Hp Np R). reflexivity.
Qed.

Example parse_examples :
  parse_image_word [100;46;105;109;103;58;49;47;97] = Some ([100;46;105;109;103], Some 1, [47;97]) /\          (* d.img:1/a *)
  parse_image_word [100;46;105;109;103;58;47;97] = Some ([100;46;105;109;103], None, [47;97]) /\               (* d.img:/a *)
  parse_image_word [100;58;48;49;47;97] = None /\                                                              (* d:01/a *)
  parse_image_word [100;58;49;50;51;52;47;97] = None /\                                                        (* d:1234/a *)
  parse_image_word [100;58;57;57;57;47] = Some ([100], Some 999, [47]) /\                                       (* d:999/ *)
  parse_image_word [97;58;98;58;50;47;120] = Some ([97;58;98], Some 2, [47;120]) /\                             (* a:b:2/x *)
  parse_image_word [97;58;47;98;58;50;47;120] = Some ([97], None, [47;98;58;50;47;120]) /\                      (* a:/b:2/x *)
  parse_image_word [47;104;111;115;116;47;102] = None /\                                                       (* /host/f *)
  parse_image_word [100;58;49;47;97;10] = Some ([100], Some 1, [47;97]) /\                                      (* trailing newline *)
  parse_image_word [100;58;49;47;97;10;98] = None /\ parse_image_word [100;10;58;49;47;97] = None.
Proof. repeat split; vm_compute; reflexivity. Qed.
