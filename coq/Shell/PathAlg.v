(* The pure path algebra of FatPath (path.py): get_parts, str, name / suffix / stem, parent,
   joinpath, with_name, relative_to -- what sh.py and prep.py use to build destination paths
   (`dest / item.name`, `path.relative_to(source)`, `parent`).  Strings are lists of code points;
   a path is its tuple of parts, [] :: _ marking an absolute path.  Executable definitions, then
   the laws.  (Name validation, lfn_valid, is a separate layer: FatNames.) *)
From Coq Require Import List NArith Arith Bool Lia.
Import ListNotations.
Open Scope N_scope.

Definition str := list N.
Definition is_nil {A} (l : list A) : bool := match l with [] => true | _ => false end.
Fixpoint str_eqb (a b : str) : bool :=
  match a, b with
  | [], [] => true
  | x :: a', y :: b' => (x =? y) && str_eqb a' b'
  | _, _ => false
  end.
Fixpoint parts_eqb (a b : list str) : bool :=
  match a, b with
  | [], [] => true
  | x :: a', y :: b' => str_eqb x y && parts_eqb a' b'
  | _, _ => false
  end.

(* str.split('/') *)
Fixpoint split_slash (cur : str) (s : str) : list str :=
  match s with
  | [] => [rev cur]
  | c :: r => if c =? 47 then rev cur :: split_slash [] r else split_slash (c :: cur) r
  end.
Definition nonempty (l : list str) : list str := filter (fun p => negb (is_nil p)) l.

(* get_parts( *pathsegments ): the first part of the first segment is kept even when empty (the
   root marker), every other empty part is dropped *)
Definition get_parts (segs : list str) : list str :=
  match segs with
  | [] => []
  | s0 :: rest =>
    match split_slash [] s0 with
    | p0 :: ps => p0 :: nonempty ps
    | [] => []
    end ++ flat_map (fun s => nonempty (split_slash [] s)) rest
  end.

Fixpoint join_slash (l : list str) : str :=
  match l with
  | [] => []
  | [x] => x
  | x :: r => x ++ 47 :: join_slash r
  end.
(* FatPath.__str__ *)
Definition path_str (parts : list str) : str :=
  match parts with [[]] => [47] | _ => join_slash parts end.

Definition name (parts : list str) : str := last parts [].
Fixpoint rindex_dot (s : str) (i : nat) (best : option nat) : option nat :=
  match s with
  | [] => best
  | c :: r => rindex_dot r (S i) (if c =? 46 then Some i else best)
  end.
Definition suffix (parts : list str) : str :=
  match rindex_dot (name parts) 0 None with Some i => skipn i (name parts) | None => [] end.
Definition stem (parts : list str) : str :=
  match rindex_dot (name parts) 0 None with Some i => firstn i (name parts) | None => name parts end.
Definition is_absolute (parts : list str) : bool := match parts with [] :: _ => true | _ => false end.

(* FatPath.parent *)
Definition parent (parts : list str) : list str :=
  match parts with
  | _ :: _ :: _ => removelast parts
  | _ => if parts_eqb parts [[]] || parts_eqb parts [[46]] then parts else [[46]]
  end.
(* FatPath.joinpath( *other ) / the "/" operator *)
Definition joinpath (parts : list str) (other : list str) : list str :=
  let o := get_parts other in
  if is_absolute o then o else get_parts (parts ++ o).
(* with_name: None = ValueError *)
Definition with_name (parts : list str) (nm : str) : option (list str) :=
  if is_nil (name parts) || is_nil nm then None else Some (get_parts (removelast parts ++ [nm])).
(* relative_to( *other ): None = ValueError *)
Definition relative_to (parts : list str) (other : list str) : option (list str) :=
  let to := get_parts other in
  if parts_eqb (firstn (length to) parts) to then Some (get_parts (skipn (length to) parts)) else None.

(* FatPath.resolve(): "." components dropped, every ".." cancels the component before it (at the root it is simply
   dropped); relative paths are refused (None = ValueError).  The code removes the leftmost ".." first, again and
   again; that is this stack machine. *)
Definition is_dot (p : str) : bool := str_eqb p [46].
Definition is_dotdot (p : str) : bool := str_eqb p [46; 46].
Fixpoint resolve_go (acc : list str) (rest : list str) : list str :=
  match rest with
  | [] => rev acc
  | p :: r => if is_dotdot p then resolve_go (tl acc) r else resolve_go (p :: acc) r
  end.
Definition resolve_parts (parts : list str) : option (list str) :=
  match parts with
  | [] :: rest => Some ([] :: resolve_go [] (filter (fun p => negb (is_dot p)) rest))
  | _ => None
  end.

(* ------------------------------------------------------------------ laws *)
(* canonical tuples: no part holds a slash, only the first may be empty *)
Definition slash_free (p : str) : bool := forallb (fun c => negb (c =? 47)) p.
Definition canon_tail (l : list str) : bool := forallb (fun p => slash_free p && negb (is_nil p)) l.
Definition canonical (parts : list str) : bool :=
  match parts with [] => true | p0 :: r => slash_free p0 && canon_tail r end.

Lemma str_eqb_refl a : str_eqb a a = true.
Proof. induction a as [|x a IH]; [reflexivity|]. cbn. rewrite N.eqb_refl. exact IH. Qed.
Lemma str_eqb_eq a : forall b, str_eqb a b = true -> a = b.
Proof.
  induction a as [|x a IH]; intros [|y b]; cbn; try discriminate; [reflexivity|].
  intros H. apply andb_true_iff in H as [H1 H2]. apply N.eqb_eq in H1. f_equal; [exact H1|apply IH, H2].
Qed.
Lemma parts_eqb_refl a : parts_eqb a a = true.
Proof. induction a as [|x a IH]; [reflexivity|]. cbn. rewrite str_eqb_refl. exact IH. Qed.
Lemma parts_eqb_eq a : forall b, parts_eqb a b = true -> a = b.
Proof.
  induction a as [|x a IH]; intros [|y b]; cbn; try discriminate; [reflexivity|].
  intros H. apply andb_true_iff in H as [H1 H2]. f_equal; [apply str_eqb_eq, H1|apply IH, H2].
Qed.

Lemma split_slash_free p : forall cur, slash_free p = true -> split_slash cur p = [rev cur ++ p].
Proof.
  induction p as [|c r IH]; intros cur H; cbn [split_slash].
  - rewrite app_nil_r. reflexivity.
  - cbn [slash_free forallb] in H. apply andb_true_iff in H as [H1 H2].
    destruct (c =? 47); [discriminate|]. rewrite (IH (c :: cur) H2). cbn [rev]. rewrite <- app_assoc. reflexivity.
Qed.
Lemma split_one p : slash_free p = true -> split_slash [] p = [p].
Proof. intros H. rewrite (split_slash_free p [] H). reflexivity. Qed.

(* every part produced by a split is slash free *)
Lemma split_parts_free s : forall cur, slash_free (rev cur) = true ->
  forallb slash_free (split_slash cur s) = true.
Proof.
  induction s as [|c r IH]; intros cur H; cbn [split_slash forallb].
  - rewrite H. reflexivity.
  - destruct (N.eqb_spec c 47) as [->|Hc]; cbn [forallb].
    + rewrite H. apply IH. reflexivity.
    + apply IH. cbn [rev]. unfold slash_free in *. rewrite forallb_app, H. cbn [forallb].
      destruct (N.eqb_spec c 47); [contradiction|reflexivity].
Qed.
Lemma nonempty_canon l : forallb slash_free l = true -> canon_tail (nonempty l) = true.
Proof.
  induction l as [|p r IH]; intros H; [reflexivity|]. cbn [forallb] in H. apply andb_true_iff in H as [H1 H2].
  cbn [nonempty filter]. destruct (is_nil p) eqn:E; cbn [negb]; [apply IH, H2|].
  cbn [canon_tail forallb]. rewrite H1, E. cbn. apply IH, H2.
Qed.
Lemma canon_tail_app a b : canon_tail (a ++ b) = canon_tail a && canon_tail b.
Proof. unfold canon_tail. apply forallb_app. Qed.
Lemma canon_tail_flat l : canon_tail (flat_map (fun s => nonempty (split_slash [] s)) l) = true.
Proof.
  induction l as [|s r IH]; [reflexivity|]. cbn [flat_map]. rewrite canon_tail_app, IH, andb_true_r.
  apply nonempty_canon, split_parts_free. reflexivity.
Qed.

(* whatever the segments, get_parts yields a canonical tuple *)
Theorem get_parts_canonical segs : canonical (get_parts segs) = true.
Proof.
  destruct segs as [|s0 rest]; [reflexivity|]. unfold get_parts.
  pose proof (split_parts_free s0 [] eq_refl) as F.
  destruct (split_slash [] s0) as [|p0 ps]; [cbn [app]; destruct (flat_map _ rest) eqn:E; [reflexivity|]|].
  - pose proof (canon_tail_flat rest) as C. rewrite E in C. cbn [canon_tail forallb] in C.
    apply andb_true_iff in C as [C1 C2]. apply andb_true_iff in C1 as [C1 _]. cbn [canonical]. rewrite C1. exact C2.
  - cbn [forallb] in F. apply andb_true_iff in F as [F1 F2]. cbn [app canonical]. rewrite F1.
    rewrite canon_tail_app, (nonempty_canon ps F2), canon_tail_flat. reflexivity.
Qed.

Lemma nonempty_id l : canon_tail l = true -> nonempty l = l.
Proof.
  induction l as [|p r IH]; intros H; [reflexivity|]. cbn [canon_tail forallb] in H.
  apply andb_true_iff in H as [H1 H2]. apply andb_true_iff in H1 as [_ H1].
  cbn [nonempty filter]. rewrite H1. f_equal. apply IH, H2.
Qed.
Lemma flat_id l : canon_tail l = true -> flat_map (fun s => nonempty (split_slash [] s)) l = l.
Proof.
  induction l as [|p r IH]; intros H; [reflexivity|]. cbn [canon_tail forallb] in H.
  apply andb_true_iff in H as [H1 H2]. apply andb_true_iff in H1 as [F N].
  cbn [flat_map]. rewrite (split_one p F). cbn [nonempty filter]. rewrite N. cbn [app]. f_equal. apply IH, H2.
Qed.
(* re-parsing the parts of a path gives the same path: FatPath(fs, *p._parts)._parts = p._parts *)
Theorem get_parts_stable parts : canonical parts = true -> get_parts parts = parts.
Proof.
  destruct parts as [|p0 r]; [reflexivity|]. cbn [canonical]. intros H. apply andb_true_iff in H as [F C].
  unfold get_parts. rewrite (split_one p0 F). cbn [nonempty filter app]. f_equal. apply flat_id, C.
Qed.
Theorem get_parts_idempotent segs : get_parts (get_parts segs) = get_parts segs.
Proof. apply get_parts_stable, get_parts_canonical. Qed.

(* str() and get_parts are inverse on canonical tuples with at least one part: a path survives
   being written out and parsed again *)
Lemma split_app_slash x : forall cur rest, slash_free x = true ->
  split_slash cur (x ++ 47 :: rest) = (rev cur ++ x) :: split_slash [] rest.
Proof.
  induction x as [|c x IH]; intros cur rest F; cbn [app split_slash].
  - replace (47 =? 47) with true by reflexivity. rewrite app_nil_r. reflexivity.
  - cbn [slash_free forallb] in F. apply andb_true_iff in F as [C1 C2].
    destruct (c =? 47); [discriminate|]. rewrite (IH (c :: cur) rest C2). cbn [rev]. rewrite <- app_assoc. reflexivity.
Qed.
Lemma split_join l : forall cur, l <> [] -> forallb slash_free l = true ->
  split_slash cur (join_slash l) = (rev cur ++ hd [] l) :: tl l.
Proof.
  induction l as [|x r IH]; intros cur NE F; [congruence|]. cbn [forallb] in F. apply andb_true_iff in F as [F1 F2].
  destruct r as [|y r'].
  - cbn [join_slash hd tl]. apply (split_slash_free x cur F1).
  - cbn [hd tl]. change (join_slash (x :: y :: r')) with (x ++ 47 :: join_slash (y :: r')).
    rewrite (split_app_slash x cur _ F1). f_equal.
    rewrite (IH [] ltac:(congruence) F2). reflexivity.
Qed.
Lemma canon_tail_free l : canon_tail l = true -> forallb slash_free l = true.
Proof.
  induction l as [|p r IH]; intros H; [reflexivity|]. cbn [canon_tail forallb] in H |- *.
  apply andb_true_iff in H as [H1 H2]. apply andb_true_iff in H1 as [H1 _]. rewrite H1. apply IH, H2.
Qed.
Theorem parse_str parts : canonical parts = true -> parts <> [] -> get_parts [path_str parts] = parts.
Proof.
  intros C NE. destruct parts as [|p0 r]; [congruence|]. cbn [canonical] in C. apply andb_true_iff in C as [F T].
  assert (FF : forallb slash_free (p0 :: r) = true) by (cbn [forallb]; rewrite F; apply canon_tail_free, T).
  unfold get_parts. cbn [flat_map]. rewrite app_nil_r.
  destruct p0 as [|c p0'].
  - destruct r as [|y r'].
    + cbn. reflexivity.
    + change (path_str ([] :: y :: r')) with (join_slash ([] :: y :: r')).
      rewrite (split_join ([] :: y :: r') [] ltac:(congruence) FF). cbn [rev app hd tl]. f_equal. apply nonempty_id, T.
  - change (path_str ((c :: p0') :: r)) with (join_slash ((c :: p0') :: r)).
    rewrite (split_join ((c :: p0') :: r) [] ltac:(congruence) FF). cbn [rev app hd tl]. f_equal. apply nonempty_id, T.
Qed.

(* the name of `p / n` is n and its parent is p: destination paths are built exactly this way *)
Lemma last_app_one {A} (l : list A) x d : last (l ++ [x]) d = x.
Proof. induction l as [|y l IH]; [reflexivity|]. cbn [app]. destruct (l ++ [x]) eqn:E; [destruct l; discriminate|exact IH]. Qed.
Theorem joinpath_child parts n : canonical parts = true -> parts <> [] ->
  slash_free n = true -> n <> [] ->
  joinpath parts [n] = parts ++ [n] /\ name (joinpath parts [n]) = n /\
  (parts <> [[46]] -> length parts = 1%nat -> parent (joinpath parts [n]) = parts) /\
  (2 <= length parts -> parent (joinpath parts [n]) = parts)%nat.
Proof.
  intros C NE F Nn.
  assert (G : get_parts [n] = [n]).
  { unfold get_parts. rewrite (split_one n F). reflexivity. }
  assert (A : is_absolute [n] = false) by (destruct n; [congruence|reflexivity]).
  assert (C2 : canonical (parts ++ [n]) = true).
  { destruct parts as [|p0 r]; [congruence|]. cbn [app canonical] in *. apply andb_true_iff in C as [C1 C3]. rewrite C1.
    rewrite canon_tail_app, C3. cbn [canon_tail forallb]. rewrite F. destruct n; [congruence|reflexivity]. }
  assert (J : joinpath parts [n] = parts ++ [n]).
  { unfold joinpath. rewrite G, A. apply get_parts_stable, C2. }
  rewrite J. split; [reflexivity|]. split; [apply last_app_one|].
  assert (P : forall a b r, parent ((a :: b :: r)) = removelast (a :: b :: r)) by reflexivity.
  split.
  - intros _ L. destruct parts as [|a [|b r]]; cbn in L; try lia. cbn [app]. reflexivity.
  - intros L. destruct parts as [|a [|b r]]; cbn in L; try lia. cbn [app]. rewrite P.
    change (a :: b :: r ++ [n]) with ((a :: b :: r) ++ [n]). apply removelast_last.
Qed.

(* what was appended is what relative_to gives back *)
Lemma firstn_app_exact {A} (a b : list A) : firstn (length a) (a ++ b) = a.
Proof. rewrite firstn_app, Nat.sub_diag, firstn_all. cbn [firstn]. apply app_nil_r. Qed.
Lemma skipn_app_exact {A} (a b : list A) : skipn (length a) (a ++ b) = b.
Proof. rewrite skipn_app, Nat.sub_diag, skipn_all. reflexivity. Qed.
Theorem relative_to_joined a b : canonical a = true -> canonical b = true -> is_absolute b = false ->
  canon_tail b = true ->
  relative_to (a ++ b) a = Some b.
Proof.
  intros Ca Cb Ab Tb. unfold relative_to. rewrite (get_parts_stable a Ca), firstn_app_exact, parts_eqb_refl, skipn_app_exact.
  f_equal. apply get_parts_stable, Cb.
Qed.
Theorem relative_to_sound parts other r : relative_to parts other = Some r ->
  exists rest, parts = get_parts other ++ rest /\ r = get_parts rest.
Proof.
  unfold relative_to. destruct (parts_eqb _ _) eqn:E; [|discriminate]. intros H. inversion H; subst.
  apply parts_eqb_eq in E. exists (skipn (length (get_parts other)) parts). split; [|reflexivity].
  rewrite <- E at 1. symmetry. apply firstn_skipn.
Qed.

(* an absolute argument replaces the path; is_absolute is decided by the root marker *)
Theorem joinpath_absolute parts o : is_absolute (get_parts o) = true -> joinpath parts o = get_parts o.
Proof. unfold joinpath. intros ->. reflexivity. Qed.

(* resolve() leaves no "." and no ".." behind, changes nothing in a path that has none, and is idempotent *)
Definition dot_free (l : list str) : bool := forallb (fun p => negb (is_dot p) && negb (is_dotdot p)) l.
Lemma resolve_go_free rest : forall acc, dot_free acc = true -> forallb (fun p => negb (is_dot p)) rest = true ->
  dot_free (resolve_go acc rest) = true.
Proof.
  induction rest as [|p r IH]; intros acc A F; cbn [resolve_go].
  - unfold dot_free in *. rewrite forallb_forall in *. intros x Hx. apply A, in_rev, Hx.
  - cbn [forallb] in F. apply andb_true_iff in F as [F1 F2]. destruct (is_dotdot p) eqn:D.
    + apply IH; [destruct acc as [|a acc']; [reflexivity|cbn [tl]; cbn [dot_free forallb] in A; apply andb_true_iff in A; apply A]|exact F2].
    + apply IH; [cbn [dot_free forallb]; rewrite F1, D; exact A|exact F2].
Qed.
Lemma filter_no_dot l : forallb (fun p => negb (is_dot p)) (filter (fun p => negb (is_dot p)) l) = true.
Proof. induction l as [|p r IH]; [reflexivity|]. cbn [filter]. destruct (negb (is_dot p)) eqn:E; [cbn [forallb]; rewrite E; exact IH|exact IH]. Qed.
Theorem resolve_dot_free parts r : resolve_parts parts = Some r -> exists rest, r = [] :: rest /\ dot_free rest = true.
Proof.
  destruct parts as [|[|c p0] rest]; cbn [resolve_parts]; try discriminate. intros H. inversion H; subst.
  eexists. split; [reflexivity|]. apply resolve_go_free; [reflexivity|apply filter_no_dot].
Qed.
Lemma filter_id_free l : dot_free l = true -> filter (fun p => negb (is_dot p)) l = l.
Proof.
  induction l as [|p r IH]; intros H; [reflexivity|]. cbn [dot_free forallb] in H. apply andb_true_iff in H as [H1 H2].
  apply andb_true_iff in H1 as [H1 _]. cbn [filter]. rewrite H1. f_equal. apply IH, H2.
Qed.
Lemma resolve_go_id l : forall acc, dot_free l = true -> resolve_go acc l = rev acc ++ l.
Proof.
  induction l as [|p r IH]; intros acc H; cbn [resolve_go]; [rewrite app_nil_r; reflexivity|].
  cbn [dot_free forallb] in H. apply andb_true_iff in H as [H1 H2]. apply andb_true_iff in H1 as [_ H1].
  destruct (is_dotdot p); [discriminate|]. rewrite (IH (p :: acc) H2). cbn [rev]. rewrite <- app_assoc. reflexivity.
Qed.
Theorem resolve_id rest : dot_free rest = true -> resolve_parts ([] :: rest) = Some ([] :: rest).
Proof. intros H. cbn [resolve_parts]. rewrite (filter_id_free rest H), (resolve_go_id rest [] H). reflexivity. Qed.
Theorem resolve_idempotent parts r : resolve_parts parts = Some r -> resolve_parts r = Some r.
Proof. intros H. destruct (resolve_dot_free parts r H) as (rest & -> & F). apply resolve_id, F. Qed.

Example resolve_examples :
  resolve_parts [[]; [97]; [98]; [46; 46]; [99]] = Some [[]; [97]; [99]] /\                        (* /a/b/../c -> /a/c *)
  resolve_parts [[]; [97]; [98]; [99]; [100]; [46; 46]; [101]] = Some [[]; [97]; [98]; [99]; [101]] /\
  resolve_parts [[]; [46; 46]; [97]] = Some [[]; [97]] /\ resolve_parts [[]; [97]; [46]; [46; 46]; [46; 46]] = Some [[]] /\
  resolve_parts [[97]; [46; 46]] = None /\ resolve_parts [] = None.
Proof. repeat split; reflexivity. Qed.

(* stem and suffix split the name *)
Theorem stem_suffix parts : stem parts ++ suffix parts = name parts.
Proof.
  unfold stem, suffix. destruct (rindex_dot (name parts) 0 None) as [i|]; [apply firstn_skipn|apply app_nil_r].
Qed.
(* with_name replaces exactly the last component *)
Lemma last_canon_nonempty r : canon_tail r = true -> r <> [] -> last r [] <> [].
Proof.
  induction r as [|x r IH]; intros C NE; [congruence|]. cbn [canon_tail forallb] in C. apply andb_true_iff in C as [C1 C2].
  apply andb_true_iff in C1 as [_ N]. destruct r as [|y r']; [cbn [last]; destruct x; [discriminate|congruence]|].
  change (last (x :: y :: r') []) with (last (y :: r') []). apply IH; [exact C2|congruence].
Qed.
Theorem with_name_last a b r nm : canonical (a :: b :: r) = true -> slash_free nm = true -> nm <> [] ->
  with_name (a :: b :: r) nm = Some (removelast (a :: b :: r) ++ [nm]) /\
  name (removelast (a :: b :: r) ++ [nm]) = nm.
Proof.
  intros C F N. cbn [canonical] in C. apply andb_true_iff in C as [Ca Ct].
  assert (NN : name (a :: b :: r) <> []).
  { unfold name. change (last (a :: b :: r) []) with (last (b :: r) []). apply last_canon_nonempty; [exact Ct|congruence]. }
  unfold with_name. destruct (name (a :: b :: r)) eqn:E; [congruence|]. destruct nm as [|c nm']; [congruence|]. cbn [is_nil orb].
  split; [|apply last_app_one]. f_equal. apply get_parts_stable.
  assert (R : removelast (a :: b :: r) = a :: removelast (b :: r)) by reflexivity. rewrite R. cbn [app canonical]. rewrite Ca.
  rewrite canon_tail_app. cbn [canon_tail forallb]. rewrite F. cbn [is_nil negb andb]. rewrite andb_true_r.
  clear -Ct. revert Ct. generalize b. induction r as [|y r IH]; intros b0 Ct; [reflexivity|].
  cbn [canon_tail forallb] in Ct. apply andb_true_iff in Ct as [C1 C2].
  change (removelast (b0 :: y :: r)) with (b0 :: removelast (y :: r)). cbn [canon_tail forallb]. rewrite C1. apply IH, C2.
Qed.

Example path_examples :
  get_parts [[47; 97; 47; 47; 98; 47]] = [[]; [97]; [98]] /\                         (* "/a//b/" *)
  get_parts [[97; 47; 98]; [47; 99]; []] = [[97]; [98]; [99]] /\                    (* "a/b", "/c", "" *)
  get_parts [[]] = [[]] /\ path_str [[]] = [47] /\ path_str [[]; [97]] = [47; 97] /\
  name [[]; [97]; [98; 46; 99]] = [98; 46; 99] /\ suffix [[]; [98; 46; 116; 46; 103]] = [46; 103] /\
  stem [[]; [98; 46; 116; 46; 103]] = [98; 46; 116] /\ suffix [[97]] = [] /\ stem [[46; 97]] = [] /\
  parent [[]; [97]; [98]] = [[]; [97]] /\ parent [[]; [97]] = [[]] /\ parent [[]] = [[]] /\ parent [[97]] = [[46]] /\
  joinpath [[]; [97]] [[98; 47; 99]] = [[]; [97]; [98]; [99]] /\ joinpath [[]; [97]] [[47; 120]] = [[]; [120]] /\
  with_name [[]; [97]; [98]] [99] = Some [[]; [97]; [99]] /\ with_name [[]] [99] = None /\
  relative_to [[]; [97]; [98]] [[47; 97]] = Some [[98]] /\ relative_to [[]; [97]; [98]] [[47; 120]] = None /\
  relative_to [[]; [97]] [[47; 97]] = Some [].
Proof. repeat split; vm_compute; reflexivity. Qed.
