(* Non-vacuity: the theorems' hypotheses are satisfiable and the commands do what the
   statements say on concrete worlds (fold = ASCII upper-casing, as in the runner). *)
From Coq Require Import List NArith Bool String.
From NV Require Import Lib.Val Lib.Res Shell.Model Shell.ProofsTree Shell.ProofsFrame Shell.ProofsCmd Shell.Run.
Import ListNotations.
Open Scope string_scope.
Open Scope N_scope.

Definition up := ascii_upper.
Definition nm (s : string) : name := str s.
Definition H (l : list string) : path := (0, map nm l).
Definition P1 (l : list string) : path := (1, map nm l).
Definition P2 (l : list string) : path := (2, map nm l).

Definition tree_a : node :=
  Dir [(nm "f.txt", File [1; 2; 3]); (nm "Sub", Dir [(nm "g", File []); (nm "deep", Dir [])])].

Definition w0 : world :=
  [(0, Dir [(nm "a", tree_a); (nm "x", File [9]); (nm "y", File [7; 7])]);
   (1, Dir []);
   (2, Dir [(nm "D", Dir [(nm "old", File [5])])])].

(* round trip: the hypotheses of [roundtrip] hold and so does its conclusion *)
Example roundtrip_hyps :
  wlookup up w0 (H ["a"]) = Some tree_a /\ wfb up tree_a = true /\
  creatable up w0 (P1 ["b"]) /\ creatable up w0 (H ["c"]).
Proof. repeat split; vm_compute; reflexivity. Qed.

Example roundtrip_run :
  let '(w1, r1) := do_cp up true [H ["a"]] (P1 ["b"]) w0 in
  let '(w2, r2) := do_cp up true [P1 ["b"]] (H ["c"]) w1 in
  r1 = Ok tt /\ r2 = Ok tt /\ wlookup up w2 (H ["c"]) = Some tree_a /\
  wlookup up w2 (P1 ["B"; "SUB"; "G"]) = Some (File []) /\ wlookup up w2 (H ["a"]) = Some tree_a.
Proof. vm_compute. repeat split; reflexivity. Qed.

(* without the assumption about fold the round trip loses a name: two host siblings equal up to
   case land in one FAT entry *)
Example roundtrip_needs_distinct_names :
  let w := [(0, Dir [(nm "a", Dir [(nm "n", File [1]); (nm "N", File [2])])]); (1, Dir [])] in
  wfb up (Dir [(nm "n", File [1]); (nm "N", File [2])]) = false /\
  fst (do_cp up true [H ["a"]] (P1 ["b"]) w) =
  [(0, Dir [(nm "a", Dir [(nm "n", File [1]); (nm "N", File [2])])]); (1, Dir [(nm "b", Dir [(nm "n", File [2])])])].
Proof. vm_compute. split; reflexivity. Qed.

(* cp of a file: into a directory, over a file spelled in another case (the spelling stays) *)
Example cp_file_run :
  let '(w1, r1) := do_cp up false [H ["x"]] (P2 ["D"]) w0 in
  let '(w2, r2) := do_cp up false [H ["y"]] (P2 ["d"; "X"]) w1 in
  r1 = Ok tt /\ r2 = Ok tt /\
  wlookup up w1 (P2 ["D"; "x"]) = Some (File [9]) /\
  getfs w2 2 = Some (Dir [(nm "D", Dir [(nm "old", File [5]); (nm "x", File [7; 7])])]) /\
  getfs w2 0 = getfs w0 0.
Proof. vm_compute. repeat split; reflexivity. Qed.

(* a copy onto itself is refused and changes nothing; so is a directory without -r *)
Example cp_refusals :
  do_cp up false [H ["x"]] (H ["x"]) w0 = (w0, Err ValueError) /\
  do_cp up false [P2 ["D"; "old"]] (P2 ["d"]) w0 = (w0, Err ValueError) /\
  do_cp up false [H ["a"]] (P1 ["b"]) w0 = (w0, Err IsADirectory) /\
  do_cp up true [H ["a"]] (H ["a"; "Sub"; "in"]) w0 = (w0, Err OutOfFuel).
Proof. repeat split; vm_compute; reflexivity. Qed.

(* several sources: the command stops at the first failing source, what was copied stays,
   and nothing outside the destination changed *)
Example cp_stops_at_failure :
  let '(w1, r1) := do_cp up false [H ["x"]; H ["nope"]; H ["y"]] (P2 ["D"]) w0 in
  r1 = Err FileNotFound /\
  getfs w1 2 = Some (Dir [(nm "D", Dir [(nm "old", File [5]); (nm "x", File [9])])]) /\
  getfs w1 0 = getfs w0 0 /\ getfs w1 1 = getfs w0 1.
Proof. vm_compute. repeat split; reflexivity. Qed.

(* mv: rename on one file system; the same entry under another spelling; across file
   systems a directory is MERGED into an existing one (a rename refuses) *)
Example mv_run :
  let '(w1, r1) := do_mv up [H ["a"; "Sub"]] (H ["moved"]) w0 in
  let '(w2, r2) := do_mv up [P2 ["D"; "old"]] (P2 ["d"; "OLD"]) w0 in
  let '(w3, r3) := do_mv up [P2 ["D"]] (H ["a"; "Sub"]) w0 in
  let '(w4, r4) := do_mv up [H ["a"; "Sub"]] (P2 []) (fst (do_mv up [P2 ["D"]] (P2 ["Sub"]) w0)) in
  r1 = Ok tt /\ wlookup up w1 (H ["a"; "Sub"]) = None /\
  wlookup up w1 (H ["moved"; "g"]) = Some (File []) /\
  r2 = Ok tt /\ w2 = w0 /\
  r3 = Ok tt /\ wlookup up w3 (P2 ["D"]) = None /\
  wlookup up w3 (H ["a"; "Sub"; "D"; "old"]) = Some (File [5]) /\
  r4 = Ok tt /\
  getfs w4 2 = Some (Dir [(nm "Sub", Dir [(nm "old", File [5]); (nm "g", File []); (nm "deep", Dir [])])]).
Proof. vm_compute. repeat split; reflexivity. Qed.

Example mv_refusals :
  do_mv up [H ["a"]] (H ["a"; "Sub"; "in"]) w0 = (w0, Err OSError_Other) /\
  do_mv up [H ["x"]; H ["y"]] (H ["nope"]) w0 = (w0, Err NotADirectory) /\
  snd (do_mv up [P2 ["D"]] (P2 ["e"; "f"]) w0) = Err FileNotFound.
Proof. repeat split; vm_compute; reflexivity. Qed.

(* rm / rmdir *)
Example rm_run :
  do_rm up false false [H ["a"]] w0 = (w0, Err IsADirectory) /\
  do_rmdir up [P2 ["D"]] w0 = (w0, Err NotEmpty) /\
  do_rmdir up [P2 []] w0 = (w0, Err PermissionErr) /\
  do_rm up false true [H ["nope"]] w0 = (w0, Ok tt) /\
  do_rm up false true [H ["x"; "below"]] w0 = (w0, Err NotADirectory) /\
  getfs (fst (do_rm up true false [H ["a"]] w0)) 0 = Some (Dir [(nm "x", File [9]); (nm "y", File [7; 7])]) /\
  getfs (fst (do_rm up false false [H ["y"]; H ["nope"]; H ["x"]] w0)) 0 = Some (Dir [(nm "a", tree_a); (nm "x", File [9])]).
Proof. repeat split; vm_compute; reflexivity. Qed.

(* mkdir, touch: the three places where the host and a partition differ *)
Example host_fat_differences :
  snd (do_touch up [H ["a"]] w0) = Ok tt /\ snd (do_touch up [P2 ["D"]] w0) = Err IsADirectory /\
  snd (do_mkdir up true [H ["x"; "d"]] w0) = Err NotADirectory /\
  snd (do_mkdir up true [P2 ["D"; "old"; "d"]] w0) = Err NotADirectory /\
  snd (do_mkdir up true [H ["x"]] w0) = Ok tt /\
  wlookup up (fst (do_mkdir up true [P1 ["p"; "q"; "r"]] w0)) (P1 ["P"; "Q"; "R"]) = Some (Dir []) /\
  (let w := fst (do_mkdir up false [H ["e"]; P2 ["e"]] w0) in
   snd (do_mv up [H ["a"; "Sub"; "deep"]] (H ["e"]) (fst (do_mv up [H ["a"; "Sub"; "deep"]] (H ["e"]) w))) = Err FileNotFound /\
   wlookup up (fst (do_mkdir up false [H ["e"; "deep"]] w)) (H ["e"; "deep"]) = Some (Dir [])).
Proof. repeat split; vm_compute; reflexivity. Qed.

(* cat *)
Example cat_run :
  do_cat up [H ["x"]; H ["y"]; H ["a"; "f.txt"]] None w0 = (w0, Ok [9; 7; 7; 1; 2; 3]) /\
  wlookup up (fst (do_cat up [H ["x"]; H ["y"]] (Some (P1 ["out"])) w0)) (P1 ["OUT"]) = Some (File [9; 7; 7]) /\
  (let '(w1, r) := do_cat up [H ["x"]; H ["nope"]; H ["y"]] (Some (P1 ["out"])) w0 in
   r = Err FileNotFound /\ wlookup up w1 (P1 ["out"]) = Some (File [9])).
Proof. repeat split; vm_compute; reflexivity. Qed.

(* the runner's whole-command entry: a partition that does not exist fails before anything is done *)
Example exec_missing_partition :
  exec up (Cp false [H ["x"]; (7, [nm "f"])] (P2 ["D"])) w0 = (w0, Err FileNotFound).
Proof. vm_compute. reflexivity. Qed.

(* os.rename replaces an empty directory by a directory, FatPath.rename refuses *)
Example rename_onto_empty_directory :
  let t := Dir [(nm "s", Dir [(nm "k", File [1])]); (nm "e", Dir [(nm "s", Dir [])])] in
  let w := [(0, t); (1, t)] in
  (let '(w1, r) := do_mv up [H ["s"]] (H ["e"]) w in
   r = Ok tt /\ getfs w1 0 = Some (Dir [(nm "e", Dir [(nm "s", Dir [(nm "k", File [1])])])])) /\
  do_mv up [P1 ["s"]] (P1 ["e"]) w = (w, Err IsADirectory) /\
  snd (do_mv up [P1 ["s"]] (H ["e"]) w) = Ok tt.
Proof. vm_compute. repeat split; reflexivity. Qed.
