(* C04 (data half) / C03 (seek + read): ONE open file with a directory entry on a volume,
   against the byte-string specification of Spec.v, for every operation and every history.

     read_refines      seek / read(n) / readall (FatRead's model over the flattened data area)
     step_refines      step returned normally  -> Inv kept, spec_step gives the same result
     step_enospc       step raised             -> only ENOSPC (or seek's own errors), Inv kept,
                                                  content unchanged / a strict prefix written
     step_rel, run_refines   every history (failures included) is a history of the specification
     run_refines_ok    a history without failures = spec_run
     holes_read_zero   seek beyond EOF + write: the hole reads as zeros
     other_clusters_untouched   frame: bytes and FAT entries outside the old and new chain *)
From Coq Require Import List NArith ZArith Bool Lia Arith ZifyN ZifyNat ZifyBool.
From NV Require Import Lib.Res FatAlloc.Model FatAlloc.ProofsBase FatAlloc.ProofsFrame.
From NV Require Import FatData.Model FatData.Spec FatData.ProofsBase FatData.ProofsTrunc FatData.ProofsWrite.
From NV Require FatRead.Model FatRead.ProofsBase FatRead.ProofsRead.
Import ListNotations.
Open Scope N_scope.

Section Data.
Variable P : fatp.
Hypothesis POK : params_ok P.
Hypothesis MV : 2 <= min_valid P.
Variable cs : N.
Hypothesis CS : 0 < cs.

Notation Inv := (Inv P cs).
Notation step := (step P cs true).
Notation run := (run P cs true).

Local Lemma clen s : Inv s -> length (content s) = N.to_nat (size (fs s)).
Proof. intros H. eapply content_length; eauto. Qed.

(* ------------------------------------------------- the flattened data region *)
Lemma flat_clusters d : uniform cs d -> FatRead.Model.clusters_len cs (concat d) = len d.
Proof.
  intros U. unfold FatRead.Model.clusters_len. rewrite FatRead.ProofsBase.lenN_length.
  rewrite (FatRead.ProofsBase.concat_uniform_length (N.to_nat cs)) by exact U.
  unfold len. replace (N.of_nat (length d * N.to_nat cs)) with (N.of_nat (length d) * cs) by lia.
  apply N.div_mul. lia.
Qed.
Lemma flat_in_range d c :
  uniform cs d -> cl_ok d c = true -> FatRead.ProofsRead.in_range cs (concat d) c.
Proof.
  intros U H. unfold FatRead.ProofsRead.in_range, FatRead.ProofsRead.nclusters.
  rewrite (flat_clusters d U). unfold cl_ok in H. lia.
Qed.
Lemma flat_cluster_ref d c :
  uniform cs d -> cl_ok d c = true -> FatRead.ProofsRead.cluster_ref cs (concat d) c = getc d c.
Proof.
  intros U H. pose proof (getc_length cs d c U H) as Lc. apply cl_ok_spec in H. destruct H as [H2 Hl].
  unfold FatRead.ProofsRead.cluster_ref, Fat.Spec.slice.
  replace (N.to_nat ((c - 2) * cs)) with (N.to_nat (c - 2) * N.to_nat cs + 0)%nat by lia.
  rewrite (FatRead.ProofsBase.concat_block_piece (N.to_nat cs) d (N.to_nat (c - 2)) (getc d c)).
  - cbn [skipn]. apply firstn_all2. lia.
  - exact U.
  - unfold getc. apply nth_error_nth'. exact Hl.
  - lia.
Qed.
Lemma flat_wf s : Inv s ->
  FatRead.ProofsRead.wf_file cs (concat (dat s)) (map (fs s)) (size (fs s)) /\
  FatRead.ProofsRead.content cs (concat (dat s)) (map (fs s)) (size (fs s)) = content s.
Proof.
  intros [[W S] U L].
  assert (Okm : forall c, In c (map (fs s)) -> cl_ok (dat s) c = true).
  { intros c Hc. eapply chain_cl_ok; eauto. }
  split; [split|].
  - rewrite Forall_forall. intros c Hc. apply flat_in_range; auto.
  - assert (X : size (fs s) <= len (map (fs s)) * cs) by (eapply size_le_chain; eauto). unfold len in X. lia.
  - unfold FatRead.ProofsRead.content, content, raw. do 2 f_equal.
    apply map_ext_in. intros c Hc. apply flat_cluster_ref; auto.
Qed.

(* the three read-side operations, as operations of FatRead's model *)
Definition rop (o : op) : option FatRead.Model.op :=
  match o with
  | OSeek w off => Some (FatRead.Model.OSeek off w)
  | ORead n => Some (FatRead.Model.OReadinto n)
  | OReadAll => Some FatRead.Model.OReadall
  | _ => None
  end.

(* FatRead's reference semantics is this specification *)
Lemma spec_is_ref a o ro :
  rop o = Some ro ->
  spec_step cs a o =
  ({| abytes := abytes a; apos := snd (FatRead.Model.ref_step cs (abytes a) ro (apos a)) |},
   of_ores (fst (FatRead.Model.ref_step cs (abytes a) ro (apos a)))).
Proof.
  destruct a as [C p]. destruct o as [w off|b|sz|n|]; cbn [rop]; intros E; inversion E; subst ro; clear E;
    unfold spec_step, FatRead.Model.ref_step, a_target, a_rawlen, alen, FatRead.Model.raw_len,
      FatRead.Model.ref_bytes; cbn [abytes apos fst snd of_ores]; try reflexivity.
  destruct w as [|[q|q|]]; try reflexivity; try (destruct q as [q|q|]; try reflexivity).
  all: match goal with |- context [(?z <? 0)%Z] => destruct (z <? 0)%Z; reflexivity end.
Qed.

Theorem read_refines o ro s :
  rop o = Some ro -> Inv s ->
  step s o = (with_fs s (set_pos (apos (fst (spec_step cs (abs s) o))) (fs s)), snd (spec_step cs (abs s) o)) /\
  abytes (fst (spec_step cs (abs s) o)) = content s.
Proof.
  intros E I. destruct (flat_wf s I) as [Wf Ec]. pose proof I as [[W S] U L].
  rewrite (spec_is_ref (abs s) o ro E). cbn [fst snd abytes apos abs].
  assert (St : step s o = read_step cs ro s) by (destruct o; inversion E; reflexivity).
  rewrite St. unfold read_step.
  change (FatRead.Model.clusters_len cs (concat (dat s))) with (FatRead.ProofsRead.nclusters cs (concat (dat s))).
  change (rstate (fs s)) with (FatRead.ProofsRead.mkfile (map (fs s)) (size (fs s)) (pos (fs s))).
  rewrite (FatRead.ProofsRead.step_refines cs (concat (dat s)) CS _ _ _ ro Wf). rewrite Ec.
  cbn [fst snd FatRead.ProofsRead.mkfile FatRead.Model.f_pos]. split; reflexivity.
Qed.

Lemma abs_set_pos s p : abs (with_fs s (set_pos p (fs s))) = {| abytes := content s; apos := p |}.
Proof. reflexivity. Qed.
Lemma Inv_set_pos s p : Inv s -> Inv (with_fs s (set_pos p (fs s))).
Proof. intros [[W S] U L]. constructor; cbn [with_fs fs dat]; auto. split; assumption. Qed.

(* --------------------------------------------------------------- one operation *)
(* everything at once: the invariant is kept and the step is a step of the specification
   (spec_rel = spec_step, or one of the ENOSPC outcomes) *)
Theorem step_rel s o :
  Inv s -> Inv (fst (step s o)) /\ spec_rel cs (abs s) o (abs (fst (step s o))) (snd (step s o)).
Proof.
  intros I. destruct (rop o) as [ro|] eqn:E.
  - destruct (read_refines o ro s E I) as [St Eb]. rewrite St. cbn [fst snd].
    split; [apply Inv_set_pos; exact I|]. rewrite abs_set_pos, <- Eb.
    replace {| abytes := abytes (fst (spec_step cs (abs s) o)); apos := apos (fst (spec_step cs (abs s) o)) |}
      with (fst (spec_step cs (abs s) o)) by (destruct (fst (spec_step cs (abs s) o)); reflexivity).
    apply SR_step.
  - destruct o as [w off|b|sz|n|]; try discriminate; clear E.
    + pose proof (write_refines P POK MV cs CS b s I) as WR. cbv zeta in WR.
      change (step s (OWrite b)) with (write_d P cs true b s).
      destruct WR as (I' & _ & _ & _ & _ & _ & Res). split; [exact I'|].
      destruct (snd (write_d P cs true b s)) as [out|e].
      * pose proof (SR_step cs (abs s) (OWrite b)) as X. rewrite Res in X. exact X.
      * destruct Res as (-> & [[Ea Hl]|(k & Kl & Ea)]); rewrite Ea.
        -- apply SR_write_nospc_pad. exact Hl.
        -- apply SR_write_nospc_partial. exact Kl.
    + pose proof (truncate_refines P POK MV cs CS sz s I) as TR. cbv zeta in TR.
      change (step s (OTruncate sz)) with (truncate_d P cs true sz s).
      destruct TR as (I' & _ & _ & Res). split; [exact I'|].
      destruct (snd (truncate_d P cs true sz s)) as [out|e].
      * destruct Res as [Res _]. pose proof (SR_step cs (abs s) (OTruncate sz)) as X. rewrite Res in X. exact X.
      * destruct Res as (-> & Ea & _ & Hl). rewrite Ea. apply SR_truncate_nospc.
        unfold alen, abs. cbn [abytes apos]. rewrite (clen s I).
        unfold tr_arg in Hl. destruct sz; lia.
Qed.

(* the operation returned normally: it is exactly the specification's step *)
Theorem step_refines s o s' out :
  Inv s -> step s o = (s', Ok out) -> Inv s' /\ spec_step cs (abs s) o = (abs s', Ok out).
Proof.
  intros I St. destruct (rop o) as [ro|] eqn:E.
  - destruct (read_refines o ro s E I) as [St' Eb]. rewrite St' in St. inversion St as [[Es Eo]].
    split; [apply Inv_set_pos; exact I|]. rewrite abs_set_pos, <- Eb.
    destruct (spec_step cs (abs s) o) as [[C p] r]. cbn [fst snd abytes apos] in *. rewrite Eo. reflexivity.
  - destruct o as [w off|b|sz|n|]; try discriminate; clear E.
    + pose proof (write_refines P POK MV cs CS b s I) as WR. cbv zeta in WR.
      change (step s (OWrite b)) with (write_d P cs true b s) in St. rewrite St in WR. cbn [fst snd] in WR.
      destruct WR as (I' & _ & _ & _ & _ & _ & Res). split; assumption.
    + pose proof (truncate_refines P POK MV cs CS sz s I) as TR. cbv zeta in TR.
      change (step s (OTruncate sz)) with (truncate_d P cs true sz s) in St. rewrite St in TR. cbn [fst snd] in TR.
      destruct TR as (I' & _ & _ & Res & _). split; assumption.
Qed.

(* the operation raised.  seek: its own ValueError / EINVAL, exactly when the specification
   says so, nothing changed.  truncate / write: only ENOSPC; the invariant still holds (recorded
   size and chain agree); truncate changed no byte of the content; write either changed nothing
   (the padding of the hole did not fit) or padded the hole and wrote a STRICT PREFIX of the
   buffer, leaving the position after it *)
Theorem step_enospc s o s' e :
  Inv s -> step s o = (s', Err e) ->
  Inv s' /\
  match o with
  | OSeek _ _ => spec_step cs (abs s) o = (abs s', Err e) /\ abs s' = abs s
  | ORead _ | OReadAll => False
  | OTruncate sz => e = OSError_ENOSPC /\ abs s' = abs s /\ fs s' = fs s
  | OWrite b => e = OSError_ENOSPC /\
      ((abs s' = abs s /\ alen (abs s) < apos (abs s)) \/
       exists k, (k < length b)%nat /\ abs s' = a_write (abs s) (firstn k b))
  end.
Proof.
  intros I St. destruct (rop o) as [ro|] eqn:E.
  - destruct (read_refines o ro s E I) as [St' Eb]. rewrite St' in St. inversion St as [[Es Eo]].
    split; [apply Inv_set_pos; exact I|]. rewrite abs_set_pos.
    destruct o as [w off|b|sz|n|]; try discriminate; try (cbn in Eo; discriminate).
    unfold spec_step in *. destruct (a_target (abs s) w off) as [t|]; [destruct (t <? 0)%Z|];
      cbn [fst snd abytes apos abs] in *; try discriminate; inversion Eo; split; reflexivity.
  - destruct o as [w off|b|sz|n|]; try discriminate; clear E.
    + pose proof (write_refines P POK MV cs CS b s I) as WR. cbv zeta in WR.
      change (step s (OWrite b)) with (write_d P cs true b s) in St. rewrite St in WR. cbn [fst snd] in WR.
      destruct WR as (I' & _ & _ & _ & _ & _ & Res). split; assumption.
    + pose proof (truncate_refines P POK MV cs CS sz s I) as TR. cbv zeta in TR.
      change (step s (OTruncate sz)) with (truncate_d P cs true sz s) in St. rewrite St in TR. cbn [fst snd] in TR.
      destruct TR as (I' & _ & _ & Ee & Ea & Ef & _). split; [exact I'|]. split; [exact Ee|]. split; assumption.
Qed.

(* ------------------------------------------------------------------ histories *)
Theorem run_refines : forall ops s,
  Inv s ->
  Inv (fst (run s ops)) /\ spec_run_rel cs (abs s) ops (abs (fst (run s ops))) (snd (run s ops)).
Proof.
  induction ops as [|o ops IH]; intros s I; cbn [Model.run fst snd].
  - split; [exact I|constructor].
  - destruct (step_rel s o I) as [I1 R1]. destruct (IH (fst (step s o)) I1) as [I2 R2].
    split; [exact I2|]. econstructor; eassumption.
Qed.

(* a history in which nothing failed is the specification's run, output by output *)
Theorem run_refines_ok : forall ops s,
  Inv s -> Forall (fun r => is_ok r = true) (snd (run s ops)) ->
  spec_run cs (abs s) ops = (abs (fst (run s ops)), snd (run s ops)).
Proof.
  induction ops as [|o ops IH]; intros s I F; cbn [Model.run spec_run fst snd] in *; [reflexivity|].
  inversion F as [|r rs Hr Frs]; subst.
  destruct (step s o) as [s1 [out|e]] eqn:St; cbn [fst snd is_ok] in *; [|discriminate].
  destruct (step_refines s o s1 out I St) as [I1 E1]. rewrite E1. cbn [fst snd].
  rewrite (IH s1 I1 Frs). reflexivity.
Qed.

(* --------------------------------------------------------------------- holes *)
Lemma a_write_hole a b :
  alen a <= apos a ->
  abytes (a_write a b) = abytes a ++ repeat 0 (N.to_nat (apos a) - length (abytes a)) ++ b.
Proof.
  intros H. unfold a_write, alen in *. cbn [abytes].
  set (pad := abytes a ++ repeat 0 (N.to_nat (apos a) - length (abytes a))).
  assert (Lp : length pad = N.to_nat (apos a)) by (unfold pad; rewrite app_length, repeat_length; lia).
  rewrite firstn_all2 by lia. rewrite skipn_all2 by lia. unfold pad. rewrite app_nil_r, <- app_assoc. reflexivity.
Qed.

(* seek to p >= size, then write b: the old content is kept, every byte between the old size
   and p is 0, and b follows at p *)
Theorem holes_read_zero s p b s1 s2 o1 o2 :
  Inv s -> size (fs s) <= p ->
  step s (OSeek 0 (Z.of_N p)) = (s1, Ok o1) -> step s1 (OWrite b) = (s2, Ok o2) ->
  Inv s2 /\
  content s2 = content s ++ repeat 0 (N.to_nat p - N.to_nat (size (fs s))) ++ b /\
  (forall i, (N.to_nat (size (fs s)) <= i < N.to_nat p)%nat -> nth_error (content s2) i = Some 0).
Proof.
  intros I Hp S1 S2.
  destruct (step_refines s _ s1 o1 I S1) as [I1 E1]. destruct (step_refines s1 _ s2 o2 I1 S2) as [I2 E2].
  pose proof (clen s I) as CL.
  unfold spec_step, a_target in E1. replace (Z.of_N p <? 0)%Z with false in E1 by lia.
  rewrite N2Z.id in E1. apply (f_equal fst) in E1. cbn [fst] in E1.
  apply (f_equal fst) in E2. unfold spec_step in E2. cbn [fst] in E2.
  assert (C2 : content s2 = content s ++ repeat 0 (N.to_nat p - N.to_nat (size (fs s))) ++ b).
  { change (content s2) with (abytes (abs s2)). rewrite <- E2, <- E1.
    rewrite a_write_hole; cbn [abytes apos abs alen]; [rewrite CL; reflexivity|]. unfold alen. cbn [abytes abs]. lia. }
  split; [exact I2|]. split; [exact C2|]. intros i Hi. rewrite C2.
  rewrite nth_error_app2 by lia. rewrite nth_error_app1 by (rewrite repeat_length; lia).
  apply nth_error_repeat. lia.
Qed.

(* ... and that is what a reader gets: seek back to the old end and read everything *)
Theorem holes_readall_zero s p b s1 s2 o1 o2 :
  Inv s -> size (fs s) <= p ->
  step s (OSeek 0 (Z.of_N p)) = (s1, Ok o1) -> step s1 (OWrite b) = (s2, Ok o2) ->
  snd (step (fst (step s2 (OSeek 0 (Z.of_N (size (fs s)))))) OReadAll) =
  Ok (OBytes (repeat 0 (N.to_nat p - N.to_nat (size (fs s))) ++ b)).
Proof.
  intros I Hp S1 S2. destruct (holes_read_zero s p b s1 s2 o1 o2 I Hp S1 S2) as (I2 & C2 & _).
  pose proof (clen s I) as CL.
  destruct (read_refines (OSeek 0 (Z.of_N (size (fs s)))) _ s2 eq_refl I2) as [St3 _]. rewrite St3. cbn [fst].
  set (s3 := with_fs s2 _).
  assert (I3 : Inv s3) by (apply Inv_set_pos; exact I2).
  destruct (read_refines OReadAll _ s3 eq_refl I3) as [St4 _]. rewrite St4. cbn [snd].
  unfold spec_step at 1. cbn [snd]. f_equal. f_equal. unfold s3. rewrite abs_set_pos. cbn [abytes apos].
  unfold spec_step, a_target. cbn [fst apos]. replace (Z.of_N (size (fs s)) <? 0)%Z with false by lia.
  cbn [fst apos]. rewrite N2Z.id, C2. rewrite skipn_app, skipn_all2 by lia. rewrite CL, Nat.sub_diag. reflexivity.
Qed.

(* --------------------------------------------------------------------- frame *)
(* Whatever the operation and its outcome: the data region and the FAT keep their lengths; a
   cluster outside the NEW chain keeps its bytes (so also the clusters a shrink sets free); a
   cluster outside the old and the new chain keeps its FAT entry.  Every other file and all free
   space are therefore untouched, except for the clusters this file allocated or released. *)
Theorem other_clusters_untouched s o :
  Inv s ->
  let s' := fst (step s o) in
  length (dat s') = length (dat s) /\ length (tbl (fs s')) = length (tbl (fs s)) /\
  (forall c, 2 <= c -> ~ In c (map (fs s')) -> getc (dat s') c = getc (dat s) c) /\
  (forall c, ~ In c (map (fs s)) -> ~ In c (map (fs s')) -> get (tbl (fs s')) c = get (tbl (fs s)) c).
Proof.
  intros I. cbv zeta. destruct (rop o) as [ro|] eqn:E.
  - destruct (read_refines o ro s E I) as [St _]. rewrite St. cbn [fst with_fs fs dat]. repeat split; reflexivity.
  - destruct o as [w off|b|sz|n|]; try discriminate; clear E.
    + pose proof (write_refines P POK MV cs CS b s I) as WR. cbv zeta in WR.
      change (step s (OWrite b)) with (write_d P cs true b s).
      destruct WR as (_ & Ld & Fd & Ft & Lt & _ & _). repeat split; auto.
    + pose proof (truncate_refines P POK MV cs CS sz s I) as TR.
      pose proof (truncate_frame P POK MV cs CS sz s I) as TF. cbv zeta in TR, TF.
      change (step s (OTruncate sz)) with (truncate_d P cs true sz s).
      destruct TR as (_ & Ld & _). destruct TF as (Fd & Ft & Lt & _). repeat split; auto.
Qed.
End Data.

(* ------------------------------------------------ at the three FAT types of the code *)
Lemma min_valid_bits bits : 2 <= min_valid (params_of_bits bits).
Proof.
  unfold params_of_bits. destruct (bits =? 12); [|destruct (bits =? 16)]; cbn; unfold Gen.Fat.fat12_min_valid,
    Gen.Fat.fat16_min_valid, Gen.Fat.fat32_min_valid; lia.
Qed.

Section Instance.
Variables bits cs : N.
Hypothesis CS : 0 < cs.
Let PB := params_of_bits bits.

Theorem FD_step_refines s o s' out :
  Inv PB cs s -> step PB cs true s o = (s', Ok out) ->
  Inv PB cs s' /\ spec_step cs (abs s) o = (abs s', Ok out).
Proof. apply (step_refines PB (params_ok_bits bits) (min_valid_bits bits) cs CS). Qed.

Theorem FD_step_enospc s o s' e :
  Inv PB cs s -> step PB cs true s o = (s', Err e) ->
  Inv PB cs s' /\
  match o with
  | OSeek _ _ => spec_step cs (abs s) o = (abs s', Err e) /\ abs s' = abs s
  | ORead _ | OReadAll => False
  | OTruncate sz => e = OSError_ENOSPC /\ abs s' = abs s /\ fs s' = fs s
  | OWrite b => e = OSError_ENOSPC /\
      ((abs s' = abs s /\ alen (abs s) < apos (abs s)) \/
       exists k, (k < length b)%nat /\ abs s' = a_write (abs s) (firstn k b))
  end.
Proof. apply (step_enospc PB (params_ok_bits bits) (min_valid_bits bits) cs CS). Qed.

Theorem FD_run_refines ops s :
  Inv PB cs s ->
  Inv PB cs (fst (run PB cs true s ops)) /\
  spec_run_rel cs (abs s) ops (abs (fst (run PB cs true s ops))) (snd (run PB cs true s ops)).
Proof. apply (run_refines PB (params_ok_bits bits) (min_valid_bits bits) cs CS). Qed.

Theorem FD_run_refines_ok ops s :
  Inv PB cs s -> Forall (fun r => is_ok r = true) (snd (run PB cs true s ops)) ->
  spec_run cs (abs s) ops = (abs (fst (run PB cs true s ops)), snd (run PB cs true s ops)).
Proof. apply (run_refines_ok PB (params_ok_bits bits) (min_valid_bits bits) cs CS). Qed.

Theorem FD_holes_read_zero s p b s1 s2 o1 o2 :
  Inv PB cs s -> size (fs s) <= p ->
  step PB cs true s (OSeek 0 (Z.of_N p)) = (s1, Ok o1) -> step PB cs true s1 (OWrite b) = (s2, Ok o2) ->
  Inv PB cs s2 /\
  content s2 = content s ++ repeat 0 (N.to_nat p - N.to_nat (size (fs s))) ++ b /\
  (forall i, (N.to_nat (size (fs s)) <= i < N.to_nat p)%nat -> nth_error (content s2) i = Some 0).
Proof. apply (holes_read_zero PB (params_ok_bits bits) (min_valid_bits bits) cs CS). Qed.

Theorem FD_holes_readall_zero s p b s1 s2 o1 o2 :
  Inv PB cs s -> size (fs s) <= p ->
  step PB cs true s (OSeek 0 (Z.of_N p)) = (s1, Ok o1) -> step PB cs true s1 (OWrite b) = (s2, Ok o2) ->
  snd (step PB cs true (fst (step PB cs true s2 (OSeek 0 (Z.of_N (size (fs s)))))) OReadAll) =
  Ok (OBytes (repeat 0 (N.to_nat p - N.to_nat (size (fs s))) ++ b)).
Proof. apply (holes_readall_zero PB (params_ok_bits bits) (min_valid_bits bits) cs CS). Qed.

Theorem FD_other_clusters_untouched s o :
  Inv PB cs s ->
  let s' := fst (step PB cs true s o) in
  length (dat s') = length (dat s) /\ length (tbl (fs s')) = length (tbl (fs s)) /\
  (forall c, 2 <= c -> ~ In c (map (fs s')) -> getc (dat s') c = getc (dat s) c) /\
  (forall c, ~ In c (map (fs s)) -> ~ In c (map (fs s')) -> get (tbl (fs s')) c = get (tbl (fs s)) c).
Proof. apply (other_clusters_untouched PB (params_ok_bits bits) (min_valid_bits bits) cs CS). Qed.
End Instance.

Print Assumptions FD_step_refines.
Print Assumptions FD_step_enospc.
Print Assumptions FD_run_refines.
Print Assumptions FD_run_refines_ok.
Print Assumptions FD_holes_read_zero.
Print Assumptions FD_holes_readall_zero.
Print Assumptions FD_other_clusters_untouched.
