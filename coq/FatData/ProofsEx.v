(* Non-vacuity: a concrete volume that satisfies the invariant, and histories computed by
   vm_compute.  8 clusters of 4 bytes (cluster c holds c*10+1 .. c*10+4: "stale" non-zero
   bytes everywhere), FAT12 entries, a fragmented file [3; 5] of 6 bytes, free clusters 4, 6. *)
From Coq Require Import List NArith ZArith Lia.
From NV Require Import Lib.Res FatAlloc.Model FatAlloc.ProofsBase FatAlloc.ProofsFrame.
From NV Require Import FatData.Model FatData.Spec FatData.ProofsBase FatData.ProofsTrunc FatData.Proofs.
Import ListNotations.
Open Scope N_scope.

Definition ex_tbl : list N := [4088; 4095; 4095; 5; 0; 4095; 0; 4095; 4095; 4095].
Definition ex_dat : data := List.map (fun c => [c*10+1; c*10+2; c*10+3; c*10+4]) [2;3;4;5;6;7;8;9].
Definition ex_s : dstate :=
  {| fs := {| sfat := {| ftbl := ex_tbl; finfo := None |}; map := [3;5]; size := 6; pos := 0 |}; dat := ex_dat |}.

Local Ltac ncmp := vm_compute; first [reflexivity | discriminate | congruence].

(* the hypotheses of the theorems are satisfiable *)
Lemma ex_inv : Inv (params_of_bits 12) 4 ex_s.
Proof.
  constructor.
  - split.
    + constructor.
      * constructor; [intros [H|[]]; discriminate|]. constructor; [intros []|constructor].
      * intros c [<-|[<-|[]]]; repeat split; ncmp.
      * split; [reflexivity|exact I].
      * ncmp.
    + left. split; ncmp.
  - repeat constructor.
  - ncmp.
Qed.

(* seek beyond the end, write across a cluster boundary, read everything: the tail of the old
   last cluster (53 54) and the whole appended cluster 4 (41..44) were zeroed, the hole reads as
   zeros; cluster 6, allocated by the loop, is not zeroed (62 63 64 stay, beyond the size);
   every other cluster is unchanged *)
Definition ex_ops1 := [OSeek 0 10%Z; OWrite [7;7;7]; OSeek 0 0%Z; OReadAll].
Example ex_hole :
  run (params_of_bits 12) 4 true ex_s ex_ops1 =
  ({| fs := {| sfat := {| ftbl := [4088; 4095; 4095; 5; 6; 4; 4095; 4095; 4095; 4095]; finfo := None |};
               map := [3; 5; 4; 6]; size := 13; pos := 13 |};
      dat := [[21;22;23;24]; [31;32;33;34]; [0;0;7;7]; [51;52;0;0]; [7;62;63;64];
              [71;72;73;74]; [81;82;83;84]; [91;92;93;94]] |},
   [Ok (ONum 10); Ok (ONum 3); Ok (ONum 0); Ok (OBytes [31;32;33;34;51;52;0;0;0;0;7;7;7])]).
Proof. vm_compute. reflexivity. Qed.

(* the specification gives the same outputs (an instance of FD_run_refines_ok) *)
Example ex_hole_spec :
  snd (spec_run 4 (abs ex_s) ex_ops1) = snd (run (params_of_bits 12) 4 true ex_s ex_ops1).
Proof. vm_compute. reflexivity. Qed.

(* the volume is now full.  A 10-byte write at the end fills the 3 bytes left in cluster 6 and
   raises ENOSPC: size and position 16 = 4 clusters, the chain intact (partial write, FD_step_enospc
   with k = 3); a truncate to 40 raises ENOSPC and changes nothing; a raw read of 9 bytes at 3
   stops at the cluster boundary; truncate to 2 releases clusters 5, 4, 6 (their bytes stay) *)
Definition ex_s1 := fst (run (params_of_bits 12) 4 true ex_s ex_ops1).
Example ex_enospc :
  run (params_of_bits 12) 4 true ex_s1
      [OSeek 2 0%Z; OWrite [1;2;3;4;5;6;7;8;9;10]; OTruncate (Some 40); OSeek 0 3%Z; ORead 9; OTruncate (Some 2)] =
  ({| fs := {| sfat := {| ftbl := [4088; 4095; 4095; 4095; 0; 0; 0; 4095; 4095; 4095]; finfo := None |};
               map := [3]; size := 2; pos := 4 |};
      dat := [[21;22;23;24]; [31;32;33;34]; [0;0;7;7]; [51;52;0;0]; [7;1;2;3];
              [71;72;73;74]; [81;82;83;84]; [91;92;93;94]] |},
   [Ok (ONum 13); Err OSError_ENOSPC; Err OSError_ENOSPC; Ok (ONum 3); Ok (OBytes [34]); Ok (ONum 2)]).
Proof. vm_compute. reflexivity. Qed.

Example ex_enospc_state :
  let s2 := fst (run (params_of_bits 12) 4 true ex_s1 [OSeek 2 0%Z; OWrite [1;2;3;4;5;6;7;8;9;10]]) in
  (map (fs s2), size (fs s2), pos (fs s2), content s2) =
  ([3;5;4;6], 16, 16, [31;32;33;34;51;52;0;0;0;0;7;7;7;1;2;3]).
Proof. vm_compute. reflexivity. Qed.

(* An ENTRY-LESS file (hasent = false: the file that backs a sub-directory, size = whole chain)
   is outside the theorems, and the refinement is FALSE for it: a write at its end allocates a
   cluster that write() does not zero, and the derived size covers it at once, so the stale bytes
   42 43 44 of cluster 4 become file content.  (Directories are written through
   FatSubDirectory._update_entry, which always leaves an end-of-directory entry in front of such
   bytes; see the report.) *)
Definition ex_d : dstate :=
  {| fs := {| sfat := {| ftbl := ex_tbl; finfo := None |}; map := [3;5]; size := 8; pos := 0 |}; dat := ex_dat |}.
Example entryless_write_exposes_stale_bytes_refuted :
  exists s o s', s = ex_d /\ o = OWrite [7] /\
    s' = fst (step (params_of_bits 12) 4 false (fst (step (params_of_bits 12) 4 false s (OSeek 2 0%Z))) o) /\
    content s' = [31;32;33;34;51;52;53;54;7;42;43;44] /\
    abytes (fst (spec_step 4 {| abytes := content s; apos := 8 |} o)) = [31;32;33;34;51;52;53;54;7].
Proof. do 3 eexists. repeat split; vm_compute; reflexivity. Qed.
