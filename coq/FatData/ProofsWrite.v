(* FatFile._write1 and the write loop (alternating _write1 and one-cluster allocations),
   including the loop that is cut short by ENOSPC. *)
From Coq Require Import List NArith ZArith Bool Lia Arith ZifyN ZifyNat ZifyBool.
From NV Require Import Lib.Res FatAlloc.Model FatAlloc.ProofsBase FatAlloc.ProofsGrow FatAlloc.ProofsOps.
From NV Require Import FatData.Model FatData.Spec FatData.ProofsBase FatData.ProofsTrunc.
From NV Require FatRead.ProofsBase FatRead.ProofsRead.
Import ListNotations.
Open Scope N_scope.

Section Data.
Variable P : fatp.
Hypothesis POK : params_ok P.
Hypothesis MV : 2 <= min_valid P.
Variable cs : N.
Hypothesis CS : 0 < cs.

(* the lemmas of ProofsTrunc at this section's parameters *)
Local Lemma chain_ok d t m : chain_wf P (limit_of d) t m -> forall c, In c m -> cl_ok d c = true.
Proof. intros W c Hc. eapply chain_cl_ok; eauto. Qed.
Local Lemma free_ok d t c : is_free P (limit_of d) t c -> cl_ok d c = true.
Proof. intros H. eapply free_cl_ok; eauto. Qed.
Local Lemma rawlen d t m :
  uniform cs d -> chain_wf P (limit_of d) t m -> length (raw d m) = N.to_nat (len m * cs).
Proof. intros U W. eapply raw_len; eauto. Qed.

(* what the loop keeps: a well-formed chain and a position not beyond its end
   (the size is not looked at inside the loop) *)
Record WI (s : dstate) : Prop := {
  wi_chain : chain_wf P (limit_of (dat s)) (tbl (fs s)) (map (fs s));
  wi_uni : uniform cs (dat s);
  wi_lim : limit_of (dat s) <= max_valid P + 1;
  wi_pos : pos (fs s) <= len (map (fs s)) * cs }.

Lemma write1_spec mem s :
  WI s -> mem <> [] ->
  let r := write1 cs mem s in
  (pos (fs s) = len (map (fs s)) * cs -> r = (s, 0)) /\
  (pos (fs s) < len (map (fs s)) * cs ->
     let w := N.min (cs - pos (fs s) mod cs) (len mem) in
     snd r = w /\ 0 < w /\ pos (fs s) + w <= len (map (fs s)) * cs /\
     fs (fst r) = set_pos (pos (fs s) + w) (fs s) /\
     uniform cs (dat (fst r)) /\ length (dat (fst r)) = length (dat s) /\
     raw (dat (fst r)) (map (fs s)) =
       splice (raw (dat s) (map (fs s))) (N.to_nat (pos (fs s))) (firstn (N.to_nat w) mem) /\
     (forall c, 2 <= c -> ~ In c (map (fs s)) -> getc (dat (fst r)) c = getc (dat s) c)).
Proof.
  intros [W U L Pp] Hm. cbv zeta. unfold write1.
  set (st := fs s) in *. set (d := dat s) in *. set (p := pos st) in *.
  assert (Lm : 0 < len mem) by (unfold len; destruct mem; [congruence|cbn [length]; lia]).
  FatRead.ProofsBase.divmod p cs.
  replace (p - q * cs) with r by lia.
  set (w := N.min cs (r + len mem) - r).
  assert (Hw : w = N.min (cs - r) (len mem)) by (unfold w; lia).
  assert (W0 : 0 < w) by lia.
  replace (w =? 0) with false by lia.
  split.
  - intros E. assert (Q : q = len (map st) /\ r = 0).
    { apply (N.div_mod_unique cs); lia. }
    destruct Q as [-> ->].
    replace (nth_error (map st) (N.to_nat (len (map st)))) with (@None N); [reflexivity|].
    symmetry. apply nth_error_None. unfold len. lia.
  - intros Lt. assert (Q : q < len (map st)).
    { destruct (N.lt_ge_cases q (len (map st))) as [X|X]; [exact X|].
      apply (N.mul_le_mono_l _ _ cs) in X. lia. }
    assert (Q' : cs * (q + 1) <= cs * len (map st)) by (apply N.mul_le_mono_l; lia).
    destruct (nth_error (map st) (N.to_nat q)) as [c|] eqn:En.
    2:{ apply nth_error_None in En. unfold len in Q. lia. }
    assert (Hc : In c (map st)) by (eapply nth_error_In; eauto).
    assert (Okc : cl_ok d c = true) by (apply (chain_ok d _ _ W c Hc)).
    rewrite Okc. cbn [fst snd fs dat]. rewrite <- Hw.
    assert (Hle : p + w <= len (map st) * cs) by lia.
    assert (Lf : length (firstn (N.to_nat w) mem) = N.to_nat w) by (rewrite firstn_length; unfold len in *; lia).
    assert (Ls : length (splice (getc d c) (N.to_nat r) (firstn (N.to_nat w) mem)) = N.to_nat cs).
    { rewrite splice_length; rewrite ?Lf, (getc_length cs d c U Okc); lia. }
    split; [reflexivity|]. split; [exact W0|]. split; [exact Hle|]. split; [reflexivity|].
    split; [apply uniform_setc; assumption|]. split; [apply setc_length|]. split.
    + rewrite (raw_write_at cs d (map st) (N.to_nat q) c); try assumption.
      * f_equal. lia.
      * apply W.
      * apply (chain_ok d _ _ W).
      * rewrite Lf. lia.
    + intros x Hx Hn. apply getc_setc_other; auto.
      * apply (cl_ok_ge2 d). exact Okc.
      * intros ->. exact (Hn Hc).
Qed.

(* ------------------------------------------------------------------ the loop *)
Definition need (mem : list N) (s : dstate) : nat :=
  (2 * length mem - (if (pos (fs s) <? len (map (fs s)) * cs)%N then 1 else 0))%nat.

(* what a run of the loop from s on buffer mem leaves in s2 (k bytes written, clusters `new`
   appended, whose previous bytes were g) *)
Definition loop_post (mem : list N) (s s2 : dstate) (r : res unit) (k : nat) (new g : list N) : Prop :=
  (k <= length mem)%nat /\ WI s2 /\
  length (dat s2) = length (dat s) /\ size (fs s2) = size (fs s) /\
  pos (fs s2) = pos (fs s) + N.of_nat k /\
  map (fs s2) = map (fs s) ++ new /\
  (new = [] \/ (len (map (fs s2)) - 1) * cs < pos (fs s2)) /\
  length g = (length new * N.to_nat cs)%nat /\
  raw (dat s2) (map (fs s2)) =
    splice (raw (dat s) (map (fs s)) ++ g) (N.to_nat (pos (fs s))) (firstn k mem) /\
  (forall c, 2 <= c -> ~ In c (map (fs s2)) -> getc (dat s2) c = getc (dat s) c) /\
  (forall c, ~ In c (map (fs s2)) -> get (tbl (fs s2)) c = get (tbl (fs s)) c) /\
  length (tbl (fs s2)) = length (tbl (fs s)) /\
  (pos (fs s) < len (map (fs s)) * cs -> mem <> [] -> (0 < k)%nat) /\
  match r with
  | Ok _ => k = length mem
  | Err e => e = OSError_ENOSPC /\ (k < length mem)%nat /\ pos (fs s2) = len (map (fs s2)) * cs
  end.

Lemma loop_post_stop mem s r :
  WI s ->
  match r with Ok _ => mem = [] | Err e => e = OSError_ENOSPC /\ mem <> [] /\ pos (fs s) = len (map (fs s)) * cs end ->
  loop_post mem s s r 0 [] [].
Proof.
  intros I Hr. unfold loop_post. rewrite !app_nil_r. cbn [firstn length Nat.mul N.of_nat].
  rewrite splice_nil, N.add_0_r.
  split; [lia|]. split; [exact I|]. do 4 (split; [reflexivity|]). split; [left; reflexivity|].
  do 5 (split; [reflexivity|]).
  split.
  - intros Hp Hm. destruct r as [u|e]; [congruence|]. destruct Hr as (_ & _ & Hr). lia.
  - destruct r as [u|e]; [subst mem; reflexivity|]. destruct Hr as (-> & Hm & Hp).
    split; [reflexivity|]. split; [destruct mem; [congruence|cbn; lia]|exact Hp].
Qed.

Lemma write_loop_spec : forall fuel mem s,
  WI s -> (need mem s <= fuel)%nat ->
  exists k new g,
    loop_post mem s (fst (write_loop P cs fuel mem s)) (snd (write_loop P cs fuel mem s)) k new g.
Proof.
  induction fuel as [|f IH]; intros mem s I Hf.
  { assert (mem = []).
    { unfold need in Hf. destruct mem; [reflexivity|]. cbn [length] in Hf.
      destruct (pos (fs s) <? len (map (fs s)) * cs); lia. }
    subst mem. cbn [write_loop fst snd]. exists 0%nat, [], []. apply loop_post_stop; auto. }
  destruct mem as [|b0 mem0]; [cbn [write_loop fst snd]; exists 0%nat, [], []; apply loop_post_stop; auto|].
  set (mem := b0 :: mem0) in *. assert (Hm : mem <> []) by discriminate.
  change (write_loop P cs (S f) mem s) with
    (let r := write1 cs mem s in
     if snd r =? 0 then
       match alloc_one P (limit_of (dat s)) (fs s) with
       | Err e => (s, Err e)
       | Ok st' => write_loop P cs f mem (with_fs s st')
       end
     else write_loop P cs f (skipn (N.to_nat (snd r)) mem) (fst r)).
  cbv zeta. destruct (write1_spec mem s I Hm) as [H0 H1]. cbv zeta in H0, H1.
  pose proof I as [W U L Pp].
  destruct (N.lt_ge_cases (pos (fs s)) (len (map (fs s)) * cs)) as [Lt|Ge].
  - (* a _write1 that writes *)
    destruct (H1 Lt) as (Ew & W0 & Hle & Efs & U1 & L1 & R1 & F1). clear H0 H1.
    set (w := N.min (cs - pos (fs s) mod cs) (len mem)) in *.
    set (s1 := fst (write1 cs mem s)) in *. rewrite Ew.
    replace (w =? 0) with false by lia.
    assert (Wl : (N.to_nat w <= length mem)%nat) by (unfold w, len; lia).
    assert (I1 : WI s1).
    { constructor; rewrite ?Efs, ?(limit_of_len _ _ L1); unfold tbl; cbn [set_pos sfat map pos]; auto. }
    destruct (IH (skipn (N.to_nat w) mem) s1 I1) as (k & new & g & Post).
    { unfold need in *. rewrite skipn_length.
      replace (pos (fs s) <? len (map (fs s)) * cs) with true in Hf by lia.
      destruct (pos (fs s1) <? len (map (fs s1)) * cs); lia. }
    destruct Post as (K & I2 & L2 & Sz & Ps & Mp & Nw & Lg & Rw & Fd & Ft & Lt2 & _ & Res).
    rewrite Efs in Sz, Ps, Mp, Ft, Lt2. unfold tbl in Ft, Lt2. cbn [set_pos sfat map size pos] in Sz, Ps, Mp, Ft, Lt2.
    rewrite skipn_length in K.
    exists (N.to_nat w + k)%nat, new, g. unfold loop_post.
    split; [lia|]. split; [exact I2|]. split; [congruence|]. split; [exact Sz|].
    split; [lia|]. split; [exact Mp|]. split; [exact Nw|]. split; [exact Lg|]. split; [|split; [|split; [|split; [|split]]]].
    + rewrite Rw. rewrite Efs. cbn [set_pos map pos]. rewrite R1.
      pose proof (rawlen _ _ _ U W) as RL.
      assert (Lf : length (firstn (N.to_nat w) mem) = N.to_nat w) by (rewrite firstn_length; lia).
      rewrite <- splice_app_l by (rewrite Lf, RL; lia).
      replace (N.to_nat (pos (fs s) + w)) with (N.to_nat (pos (fs s)) + length (firstn (N.to_nat w) mem))%nat by lia.
      rewrite splice_splice.
      * rewrite FatRead.ProofsRead.firstn_then_firstn. reflexivity.
      * rewrite Lf, firstn_length, skipn_length, app_length, RL, Lg.
        destruct I2 as [_ _ _ Pp2]. rewrite Ps, Mp in Pp2. unfold len in *. rewrite app_length in Pp2. lia.
    + intros c Hc Hn. rewrite (Fd c Hc Hn). apply F1; [exact Hc|].
      intros X. apply Hn. rewrite Mp. apply in_or_app. left. exact X.
    + exact Ft.
    + exact Lt2.
    + intros _ _. lia.
    + destruct (snd (write_loop P cs f (skipn (N.to_nat w) mem) s1)) as [u|e].
      * rewrite skipn_length in Res. lia.
      * destruct Res as (-> & Kl & Pe). rewrite skipn_length in Kl. split; [reflexivity|]. split; [lia|exact Pe].
  - (* IndexError: allocate one cluster *)
    assert (Ep : pos (fs s) = len (map (fs s)) * cs) by lia.
    rewrite (H0 Ep). cbn [fst snd]. replace (0 =? 0) with true by reflexivity.
    destruct (alloc_one P (limit_of (dat s)) (fs s)) as [st'|e] eqn:A.
    2:{ apply alloc_one_enospc in A. destruct A as [-> A]. cbn [fst snd].
        exists 0%nat, [], []. apply loop_post_stop; auto. }
    destruct (alloc_one_wf P POK (limit_of (dat s)) L (fs s) st' W A) as (W' & X & Sz' & Ps' & c & rest & Fs & Mp').
    destruct X as (Lt' & nw & Em & Nn & Fr & Fo).
    assert (nw = [c]) by (rewrite Mp' in Em; apply app_inv_head in Em; congruence). subst nw.
    set (sa := with_fs s st') in *.
    assert (Ia : WI sa).
    { constructor; unfold sa; cbn [with_fs fs dat]; auto. rewrite Mp', Ps'. unfold len. rewrite app_length. cbn [length]. lia. }
    destruct (IH mem sa Ia) as (k & new & g & Post).
    { unfold need in *. unfold sa. cbn [with_fs fs]. rewrite Mp', Ps'.
      replace (pos (fs s) <? len (map (fs s) ++ [c]) * cs) with true by (unfold len; rewrite app_length; cbn [length]; lia).
      replace (pos (fs s) <? len (map (fs s)) * cs) with false in Hf by lia. lia. }
    destruct Post as (K & I2 & L2 & Sz & Ps & Mp & Nw & Lg & Rw & Fd & Ft & Lt2 & Kp & Res).
    unfold sa in Sz, Ps, Mp, Rw, Fd, Ft, Lt2, Kp, L2. cbn [with_fs fs dat] in Sz, Ps, Mp, Rw, Fd, Ft, Lt2, Kp, L2.
    rewrite ?Sz', ?Ps', ?Mp' in *.
    assert (Okc : cl_ok (dat s) c = true).
    { apply (free_ok _ (tbl (fs s))). apply Fr. left. reflexivity. }
    exists k, (c :: new), (getc (dat s) c ++ g). unfold loop_post.
    split; [exact K|]. split; [exact I2|]. split; [exact L2|]. split; [exact Sz|]. split; [exact Ps|].
    split; [rewrite Mp, <- app_assoc; reflexivity|]. split; [|split; [|split; [|split; [|split; [|split; [|split]]]]]].
    + right. destruct Nw as [->|Nw]; [|exact Nw]. rewrite app_nil_r in Mp. rewrite Mp, Ps.
      assert (0 < k)%nat.
      { apply Kp; [|exact Hm]. unfold len. rewrite app_length. cbn [length]. lia. }
      unfold len. rewrite app_length. cbn [length]. unfold len in Ep. lia.
    + rewrite app_length, Lg, (getc_length cs (dat s) c U Okc). cbn [length]. lia.
    + rewrite Rw, raw_app. unfold raw at 2. cbn [List.map concat]. rewrite app_nil_r, <- app_assoc. reflexivity.
    + exact Fd.
    + intros x Hx. rewrite (Ft x Hx). apply Fo.
      * intros X. apply Hx. rewrite Mp. apply in_or_app. left. apply in_or_app. left. apply last_opt_In. exact X.
      * intros X. apply Hx. rewrite Mp. apply in_or_app. left. apply in_or_app. right. exact X.
    + congruence.
    + intros X _. lia.
    + exact Res.
Qed.
End Data.
