(* FatFile._write1 and the write loop (alternating _write1 and one-cluster allocations),
   including the loop that is cut short by ENOSPC. *)
From Coq Require Import List NArith ZArith Bool Lia Arith ZifyN ZifyNat ZifyBool.
From NV Require Import Lib.Res FatAlloc.Model FatAlloc.ProofsBase FatAlloc.ProofsGrow FatAlloc.ProofsOps.
From NV Require Import FatData.Model FatData.Spec FatData.ProofsBase FatData.ProofsTrunc.
From NV Require FatRead.ProofsBase FatRead.ProofsRead.
Import ListNotations.
Open Scope N_scope.

Section Data.
Variable P : fatp.
Hypothesis POK : params_ok P.
Hypothesis MV : 2 <= min_valid P.
Variable cs : N.
Hypothesis CS : 0 < cs.

(* the lemmas of ProofsTrunc at this section's parameters *)
Local Lemma chain_ok d t m : chain_wf P (limit_of d) t m -> forall c, In c m -> cl_ok d c = true.
Proof. intros W c Hc. eapply chain_cl_ok; eauto. Qed.
Local Lemma free_ok d t c : is_free P (limit_of d) t c -> cl_ok d c = true.
Proof. intros H. eapply free_cl_ok; eauto. Qed.
Local Lemma rawlen d t m :
  uniform cs d -> chain_wf P (limit_of d) t m -> length (raw d m) = N.to_nat (len m * cs).
Proof. intros U W. eapply raw_len; eauto. Qed.

Local Lemma szle (m : list N) sz : size_ok cs m sz -> sz <= len m * cs.
Proof. intros H. eapply size_le_chain; eauto. Qed.
Local Lemma clen s : Inv P cs s -> length (content s) = N.to_nat (size (fs s)).
Proof. intros H. eapply content_length; eauto. Qed.

(* what the loop keeps: a well-formed chain and a position not beyond its end
   (the size is not looked at inside the loop) *)
Record WI (s : dstate) : Prop := {
  wi_chain : chain_wf P (limit_of (dat s)) (tbl (fs s)) (map (fs s));
  wi_uni : uniform cs (dat s);
  wi_lim : limit_of (dat s) <= max_valid P + 1;
  wi_pos : pos (fs s) <= len (map (fs s)) * cs }.

Lemma write1_spec mem s :
  WI s -> mem <> [] ->
  let r := write1 cs mem s in
  (pos (fs s) = len (map (fs s)) * cs -> r = (s, 0)) /\
  (pos (fs s) < len (map (fs s)) * cs ->
     let w := N.min (cs - pos (fs s) mod cs) (len mem) in
     snd r = w /\ 0 < w /\ pos (fs s) + w <= len (map (fs s)) * cs /\
     fs (fst r) = set_pos (pos (fs s) + w) (fs s) /\
     uniform cs (dat (fst r)) /\ length (dat (fst r)) = length (dat s) /\
     raw (dat (fst r)) (map (fs s)) =
       splice (raw (dat s) (map (fs s))) (N.to_nat (pos (fs s))) (firstn (N.to_nat w) mem) /\
     (forall c, 2 <= c -> ~ In c (map (fs s)) -> getc (dat (fst r)) c = getc (dat s) c)).
Proof.
  intros [W U L Pp] Hm. cbv zeta. unfold write1.
  set (st := fs s) in *. set (d := dat s) in *. set (p := pos st) in *.
  assert (Lm : 0 < len mem) by (unfold len; destruct mem; [congruence|cbn [length]; lia]).
  FatRead.ProofsBase.divmod p cs.
  replace (p - q * cs) with r by lia.
  set (w := N.min cs (r + len mem) - r).
  assert (Hw : w = N.min (cs - r) (len mem)) by (unfold w; lia).
  assert (W0 : 0 < w) by lia.
  replace (w =? 0) with false by lia.
  split.
  - intros E. assert (Q : q = len (map st) /\ r = 0).
    { apply (N.div_mod_unique cs); lia. }
    destruct Q as [-> ->].
    replace (nth_error (map st) (N.to_nat (len (map st)))) with (@None N); [reflexivity|].
    symmetry. apply nth_error_None. unfold len. lia.
  - intros Lt. assert (Q : q < len (map st)).
    { destruct (N.lt_ge_cases q (len (map st))) as [X|X]; [exact X|].
      apply (N.mul_le_mono_l _ _ cs) in X. lia. }
    assert (Q' : cs * (q + 1) <= cs * len (map st)) by (apply N.mul_le_mono_l; lia).
    destruct (nth_error (map st) (N.to_nat q)) as [c|] eqn:En.
    2:{ apply nth_error_None in En. unfold len in Q. lia. }
    assert (Hc : In c (map st)) by (eapply nth_error_In; eauto).
    assert (Okc : cl_ok d c = true) by (apply (chain_ok d _ _ W c Hc)).
    rewrite Okc. cbn [fst snd fs dat]. rewrite <- Hw.
    assert (Hle : p + w <= len (map st) * cs) by lia.
    assert (Lf : length (firstn (N.to_nat w) mem) = N.to_nat w) by (rewrite firstn_length; unfold len in *; lia).
    assert (Ls : length (splice (getc d c) (N.to_nat r) (firstn (N.to_nat w) mem)) = N.to_nat cs).
    { rewrite splice_length; rewrite ?Lf, (getc_length cs d c U Okc); lia. }
    split; [reflexivity|]. split; [exact W0|]. split; [exact Hle|]. split; [reflexivity|].
    split; [apply uniform_setc; assumption|]. split; [apply setc_length|]. split.
    + rewrite (raw_write_at cs d (map st) (N.to_nat q) c); try assumption.
      * f_equal. lia.
      * apply W.
      * apply (chain_ok d _ _ W).
      * rewrite Lf. lia.
    + intros x Hx Hn. apply getc_setc_other; auto.
      * apply (cl_ok_ge2 d). exact Okc.
      * intros ->. exact (Hn Hc).
Qed.

(* ------------------------------------------------------------------ the loop *)
Definition need (mem : list N) (s : dstate) : nat :=
  (2 * length mem - (if (pos (fs s) <? len (map (fs s)) * cs)%N then 1 else 0))%nat.

(* what a run of the loop from s on buffer mem leaves in s2 (k bytes written, clusters `new`
   appended, whose previous bytes were g) *)
Definition loop_post (mem : list N) (s s2 : dstate) (r : res unit) (k : nat) (new g : list N) : Prop :=
  (k <= length mem)%nat /\ WI s2 /\
  length (dat s2) = length (dat s) /\ size (fs s2) = size (fs s) /\
  pos (fs s2) = pos (fs s) + N.of_nat k /\
  map (fs s2) = map (fs s) ++ new /\
  (new = [] \/ (len (map (fs s2)) - 1) * cs < pos (fs s2)) /\
  length g = (length new * N.to_nat cs)%nat /\
  raw (dat s2) (map (fs s2)) =
    splice (raw (dat s) (map (fs s)) ++ g) (N.to_nat (pos (fs s))) (firstn k mem) /\
  (forall c, 2 <= c -> ~ In c (map (fs s2)) -> getc (dat s2) c = getc (dat s) c) /\
  (forall c, ~ In c (map (fs s2)) -> get (tbl (fs s2)) c = get (tbl (fs s)) c) /\
  length (tbl (fs s2)) = length (tbl (fs s)) /\
  (pos (fs s) < len (map (fs s)) * cs -> mem <> [] -> (0 < k)%nat) /\
  match r with
  | Ok _ => k = length mem
  | Err e => e = OSError_ENOSPC /\ (k < length mem)%nat /\ pos (fs s2) = len (map (fs s2)) * cs
  end.

Lemma loop_post_stop mem s r :
  WI s ->
  match r with Ok _ => mem = [] | Err e => e = OSError_ENOSPC /\ mem <> [] /\ pos (fs s) = len (map (fs s)) * cs end ->
  loop_post mem s s r 0 [] [].
Proof.
  intros I Hr. unfold loop_post. rewrite !app_nil_r. cbn [firstn length Nat.mul N.of_nat].
  rewrite splice_nil, N.add_0_r.
  split; [lia|]. split; [exact I|]. do 4 (split; [reflexivity|]). split; [left; reflexivity|].
  do 5 (split; [reflexivity|]).
  split.
  - intros Hp Hm. destruct r as [u|e]; [congruence|]. destruct Hr as (_ & _ & Hr). lia.
  - destruct r as [u|e]; [subst mem; reflexivity|]. destruct Hr as (-> & Hm & Hp).
    split; [reflexivity|]. split; [destruct mem; [congruence|cbn; lia]|exact Hp].
Qed.

Lemma write_loop_spec : forall fuel mem s,
  WI s -> (need mem s <= fuel)%nat ->
  exists k new g,
    loop_post mem s (fst (write_loop P cs fuel mem s)) (snd (write_loop P cs fuel mem s)) k new g.
Proof.
  induction fuel as [|f IH]; intros mem s I Hf.
  { assert (mem = []).
    { unfold need in Hf. destruct mem; [reflexivity|]. cbn [length] in Hf.
      destruct (pos (fs s) <? len (map (fs s)) * cs); lia. }
    subst mem. cbn [write_loop fst snd]. exists 0%nat, [], []. apply loop_post_stop; auto. }
  destruct mem as [|b0 mem0]; [cbn [write_loop fst snd]; exists 0%nat, [], []; apply loop_post_stop; auto|].
  set (mem := b0 :: mem0) in *. assert (Hm : mem <> []) by discriminate.
  change (write_loop P cs (S f) mem s) with
    (let r := write1 cs mem s in
     if snd r =? 0 then
       match alloc_one P (limit_of (dat s)) (fs s) with
       | Err e => (s, Err e)
       | Ok st' => write_loop P cs f mem (with_fs s st')
       end
     else write_loop P cs f (skipn (N.to_nat (snd r)) mem) (fst r)).
  cbv zeta. destruct (write1_spec mem s I Hm) as [H0 H1]. cbv zeta in H0, H1.
  pose proof I as [W U L Pp].
  destruct (N.lt_ge_cases (pos (fs s)) (len (map (fs s)) * cs)) as [Lt|Ge].
  - (* a _write1 that writes *)
    destruct (H1 Lt) as (Ew & W0 & Hle & Efs & U1 & L1 & R1 & F1). clear H0 H1.
    set (w := N.min (cs - pos (fs s) mod cs) (len mem)) in *.
    set (s1 := fst (write1 cs mem s)) in *. rewrite Ew.
    replace (w =? 0) with false by lia.
    assert (Wl : (N.to_nat w <= length mem)%nat) by (unfold w, len; lia).
    assert (I1 : WI s1).
    { constructor; rewrite ?Efs, ?(limit_of_len _ _ L1); unfold tbl; cbn [set_pos sfat map pos]; auto. }
    destruct (IH (skipn (N.to_nat w) mem) s1 I1) as (k & new & g & Post).
    { unfold need in *. rewrite skipn_length.
      replace (pos (fs s) <? len (map (fs s)) * cs) with true in Hf by lia.
      destruct (pos (fs s1) <? len (map (fs s1)) * cs); lia. }
    destruct Post as (K & I2 & L2 & Sz & Ps & Mp & Nw & Lg & Rw & Fd & Ft & Lt2 & _ & Res).
    rewrite Efs in Sz, Ps, Mp, Ft, Lt2. unfold tbl in Ft, Lt2. cbn [set_pos sfat map size pos] in Sz, Ps, Mp, Ft, Lt2.
    rewrite skipn_length in K.
    exists (N.to_nat w + k)%nat, new, g. unfold loop_post.
    split; [lia|]. split; [exact I2|]. split; [congruence|]. split; [exact Sz|].
    split; [lia|]. split; [exact Mp|]. split; [exact Nw|]. split; [exact Lg|]. split; [|split; [|split; [|split; [|split]]]].
    + rewrite Rw. rewrite Efs. cbn [set_pos map pos]. rewrite R1.
      pose proof (rawlen _ _ _ U W) as RL.
      assert (Lf : length (firstn (N.to_nat w) mem) = N.to_nat w) by (rewrite firstn_length; lia).
      rewrite <- splice_app_l by (rewrite Lf, RL; lia).
      replace (N.to_nat (pos (fs s) + w)) with (N.to_nat (pos (fs s)) + length (firstn (N.to_nat w) mem))%nat by lia.
      rewrite splice_splice.
      * rewrite FatRead.ProofsRead.firstn_then_firstn. reflexivity.
      * rewrite Lf, firstn_length, skipn_length, app_length, RL, Lg.
        destruct I2 as [_ _ _ Pp2]. rewrite Ps, Mp in Pp2. unfold len in *. rewrite app_length in Pp2. lia.
    + intros c Hc Hn. rewrite (Fd c Hc Hn). apply F1; [exact Hc|].
      intros X. apply Hn. rewrite Mp. apply in_or_app. left. exact X.
    + exact Ft.
    + exact Lt2.
    + intros _ _. lia.
    + destruct (snd (write_loop P cs f (skipn (N.to_nat w) mem) s1)) as [u|e].
      * rewrite skipn_length in Res. lia.
      * destruct Res as (-> & Kl & Pe). rewrite skipn_length in Kl. split; [reflexivity|]. split; [lia|exact Pe].
  - (* IndexError: allocate one cluster *)
    assert (Ep : pos (fs s) = len (map (fs s)) * cs) by lia.
    rewrite (H0 Ep). cbn [fst snd]. replace (0 =? 0) with true by reflexivity.
    destruct (alloc_one P (limit_of (dat s)) (fs s)) as [st'|e] eqn:A.
    2:{ apply alloc_one_enospc in A. destruct A as [-> A]. cbn [fst snd].
        exists 0%nat, [], []. apply loop_post_stop; auto. }
    destruct (alloc_one_wf P POK (limit_of (dat s)) L (fs s) st' W A) as (W' & X & Sz' & Ps' & c & rest & Fs & Mp').
    destruct X as (Lt' & nw & Em & Nn & Fr & Fo).
    assert (nw = [c]) by (rewrite Mp' in Em; apply app_inv_head in Em; congruence). subst nw.
    set (sa := with_fs s st') in *.
    assert (Ia : WI sa).
    { constructor; unfold sa; cbn [with_fs fs dat]; auto. rewrite Mp', Ps'. unfold len in *. rewrite app_length. cbn [length]. lia. }
    destruct (IH mem sa Ia) as (k & new & g & Post).
    { unfold need in *. unfold sa. cbn [with_fs fs]. rewrite Mp', Ps'.
      assert (X1 : pos (fs s) < len (map (fs s) ++ [c]) * cs) by (unfold len in *; rewrite app_length; cbn [length]; lia).
      destruct (N.ltb_spec (pos (fs s)) (len (map (fs s) ++ [c]) * cs)) as [_|X2]; [|lia].
      destruct (N.ltb_spec (pos (fs s)) (len (map (fs s)) * cs)) as [X3|_]; lia. }
    destruct Post as (K & I2 & L2 & Sz & Ps & Mp & Nw & Lg & Rw & Fd & Ft & Lt2 & Kp & Res).
    subst sa. cbn [with_fs fs dat] in Sz, Ps, Mp, Rw, Fd, Ft, Lt2, Kp, L2.
    rewrite Sz' in Sz. rewrite Ps' in Ps, Rw, Kp. rewrite Mp' in Mp, Rw, Kp.
    assert (Okc : cl_ok (dat s) c = true).
    { apply (free_ok _ (tbl (fs s))). apply Fr. left. reflexivity. }
    exists k, (c :: new), (getc (dat s) c ++ g). unfold loop_post.
    split; [exact K|]. split; [exact I2|]. split; [exact L2|]. split; [exact Sz|]. split; [exact Ps|].
    split; [rewrite Mp, <- app_assoc; reflexivity|]. split; [|split; [|split; [|split; [|split; [|split; [|split]]]]]].
    + right. destruct Nw as [->|Nw]; [|exact Nw]. rewrite app_nil_r in Mp. rewrite Mp, Ps.
      assert (0 < k)%nat.
      { apply Kp; [|exact Hm]. unfold len in *. rewrite app_length. cbn [length]. lia. }
      unfold len in *. rewrite app_length. cbn [length]. lia.
    + rewrite app_length, Lg, (getc_length cs (dat s) c U Okc). cbn [length]. lia.
    + rewrite Rw, raw_app. unfold raw at 2. cbn [List.map concat]. rewrite app_nil_r, <- app_assoc. reflexivity.
    + exact Fd.
    + intros x Hx. rewrite (Ft x Hx). apply Fo.
      * intros X. apply Hx. rewrite Mp. apply in_or_app. left. apply in_or_app. left. apply last_opt_In. exact X.
      * intros X. apply Hx. rewrite Mp. apply in_or_app. left. apply in_or_app. right. exact X.
    + congruence.
    + intros X _. lia.
    + exact Res.
Qed.

(* --------------------------------------------------------------- after the loop *)
Lemma size_ok_within (m : list N) a b :
  size_ok cs m a -> a <= b -> b <= len m * cs -> size_ok cs m b.
Proof.
  intros S Hab Hb. destruct (N.eq_dec b 0) as [->|Hb0].
  { right. destruct S as [[Q1 Q2]|[Q1 Q2]]; [lia|]. split; [reflexivity|exact Q2]. }
  left. split; [lia|]. symmetry. apply cdiv_unique; [exact CS|lia|].
  destruct S as [[Q1 Q2]|[Q1 Q2]].
  - destruct (cdiv_bounds a cs CS Q1) as [[B1 B2] B3]. rewrite <- Q2 in *. lia.
  - unfold len in *. destruct m as [|x [|y m]]; cbn [length] in *; lia.
Qed.

(* cutting the spliced chain at the new size *)
Lemma content_splice (raw1 g b : list N) (p sz1 : nat) :
  (sz1 <= length raw1)%nat -> (p <= sz1)%nat -> (p + length b <= length (raw1 ++ g))%nat ->
  firstn (Nat.max sz1 (p + length b)) (splice (raw1 ++ g) p b) =
  firstn p (firstn sz1 raw1) ++ b ++ skipn (p + length b) (firstn sz1 raw1).
Proof.
  intros H1 H2 H3. unfold splice. rewrite firstn_firstn. replace (Nat.min p sz1) with p by lia.
  assert (E1 : firstn p (raw1 ++ g) = firstn p raw1).
  { rewrite firstn_app. replace (p - length raw1)%nat with 0%nat by lia. cbn [firstn]. apply app_nil_r. }
  rewrite E1.
  assert (Lp : length (firstn p raw1) = p) by (rewrite firstn_length; lia).
  rewrite firstn_app, Lp. rewrite (firstn_all2 (n := Nat.max sz1 (p + length b)) (firstn p raw1)) by lia.
  f_equal. rewrite firstn_app. rewrite (firstn_all2 (n := (Nat.max sz1 (p + length b) - p)%nat) b) by lia.
  f_equal. destruct (Nat.le_gt_cases sz1 (p + length b)) as [C|C].
  - replace (Nat.max sz1 (p + length b) - p - length b)%nat with 0%nat by lia. cbn [firstn].
    symmetry. apply skipn_all2. rewrite firstn_length. lia.
  - rewrite skipn_firstn_comm. replace (Nat.max sz1 (p + length b) - p - length b)%nat with (sz1 - (p + length b))%nat by lia.
    rewrite skipn_app, firstn_app. rewrite skipn_length.
    replace (sz1 - (p + length b) - (length raw1 - (p + length b)))%nat with 0%nat by lia.
    cbn [firstn]. apply app_nil_r.
Qed.

(* write() from the point where the position is inside the file (after the padding) *)
Definition write_rest (size0 : N) (buf : list N) (s1 : dstate) : dstate * res out :=
  let r := write_loop P cs (write_fuel buf s1) buf s1 in
  let s2 := fst r in
  let st3 := if size0 <? pos (fs s2) then set_size true (pos (fs s2)) (fs s2) else fs s2 in
  (with_fs s2 (norm cs true st3), match snd r with Ok _ => Ok (ONum (len buf)) | Err e => Err e end).

Lemma write_rest_spec size0 buf s1 :
  Inv P cs s1 -> pos (fs s1) <= size (fs s1) -> size (fs s1) = N.max size0 (pos (fs s1)) ->
  let r := write_rest size0 buf s1 in let s3 := fst r in
  Inv P cs s3 /\ length (dat s3) = length (dat s1) /\
  (forall c, 2 <= c -> ~ In c (map (fs s3)) -> getc (dat s3) c = getc (dat s1) c) /\
  (forall c, ~ In c (map (fs s3)) -> get (tbl (fs s3)) c = get (tbl (fs s1)) c) /\
  length (tbl (fs s3)) = length (tbl (fs s1)) /\
  (exists new, map (fs s3) = map (fs s1) ++ new) /\
  exists k, abs s3 = a_write (abs s1) (firstn k buf) /\
    match snd r with
    | Ok o => k = length buf /\ o = ONum (len buf)
    | Err e => e = OSError_ENOSPC /\ (k < length buf)%nat
    end.
Proof.
  intros I Hp Hs. pose proof I as [[W S] U L]. cbv zeta. unfold write_rest.
  pose proof (szle _ _ S) as S1.
  assert (I1 : WI s1) by (constructor; auto; lia).
  destruct (write_loop_spec (write_fuel buf s1) buf s1 I1) as (k & new & g & Post).
  { unfold need, write_fuel. destruct (pos (fs s1) <? len (map (fs s1)) * cs); lia. }
  set (r := write_loop P cs (write_fuel buf s1) buf s1) in *. set (s2 := fst r) in *.
  destruct Post as (K & I2 & L2 & Sz & Ps & Mp & Nw & Lg & Rw & Fd & Ft & Lt2 & _ & Res).
  destruct I2 as [W2 U2 Lm2 Pp2].
  set (p := pos (fs s1)) in *. set (sz1 := size (fs s1)) in *.
  set (st3 := if size0 <? pos (fs s2) then set_size true (pos (fs s2)) (fs s2) else fs s2).
  cbn [fst snd norm].
  assert (E3 : sfat st3 = sfat (fs s2) /\ map st3 = map (fs s2) /\ pos st3 = pos (fs s2) /\
               size st3 = N.max sz1 (pos (fs s2))).
  { unfold st3. destruct (N.ltb_spec size0 (pos (fs s2))); cbn [set_size sfat map pos size]; repeat split; lia. }
  destruct E3 as (E3f & E3m & E3p & E3s).
  assert (S3 : size_ok cs (map (fs s2)) (N.max sz1 (pos (fs s2)))).
  { destruct new as [|c0 new0].
    - rewrite app_nil_r in Mp. rewrite Mp in *. apply (size_ok_within _ sz1); [exact S|lia|lia].
    - destruct Nw as [Nw|Nw]; [discriminate|].
      assert (X : len (map (fs s1)) * cs <= (len (map (fs s2)) - 1) * cs).
      { apply N.mul_le_mono_r. rewrite Mp. unfold len. rewrite app_length. cbn [length]. lia. }
      replace (N.max sz1 (pos (fs s2))) with (pos (fs s2)) by lia.
      left. split; [lia|]. symmetry. apply cdiv_unique; [exact CS|lia|lia]. }
  assert (I3 : Inv P cs (with_fs s2 st3)).
  { constructor; cbn [with_fs fs dat]; auto. unfold st_wf, file_wf, tbl. rewrite E3f, E3m, E3s. split; [exact W2|exact S3]. }
  split; [exact I3|]. cbn [with_fs fs dat]. unfold tbl. rewrite E3f, E3m. fold (tbl (fs s2)).
  split; [exact L2|]. split; [exact Fd|]. split; [exact Ft|]. split; [exact Lt2|]. split; [exists new; exact Mp|].
  exists k. split.
  - unfold abs, a_write. cbn [abytes apos with_fs fs dat]. rewrite E3p. f_equal; [|rewrite firstn_length; lia].
    unfold content. cbn [with_fs fs dat]. rewrite E3m, E3s, Rw.
    pose proof (rawlen _ _ _ U W) as RL. fold sz1 p.
    assert (Lc : length (firstn (N.to_nat sz1) (raw (dat s1) (map (fs s1)))) = N.to_nat sz1)
      by (rewrite firstn_length; lia).
    rewrite Lc. replace (N.to_nat p - N.to_nat sz1)%nat with 0%nat by lia. cbn [repeat]. rewrite app_nil_r.
    assert (Lb : length (firstn k buf) = k) by (rewrite firstn_length; lia).
    replace (N.to_nat (N.max sz1 (pos (fs s2)))) with (Nat.max (N.to_nat sz1) (N.to_nat p + length (firstn k buf))) by lia.
    apply content_splice; [lia|lia|].
    rewrite app_length, RL, Lg, Lb. rewrite Mp in Pp2. unfold len in *. rewrite app_length in Pp2. lia.
  - destruct (snd r) as [u|e]; [split; [exact Res|reflexivity]|]. destruct Res as (-> & Kl & _). split; [reflexivity|exact Kl].
Qed.

(* ------------------------------------------------------------------- write() *)
Lemma a_write_after_pad a b :
  alen a <= apos a -> a_write (a_truncate a (apos a)) b = a_write a b.
Proof.
  intros H. unfold a_write, a_truncate, alen in *. cbn [abytes apos].
  rewrite (firstn_all2 (n := N.to_nat (apos a)) (abytes a)) by lia.
  rewrite app_length, repeat_length.
  replace (N.to_nat (apos a) - (length (abytes a) + (N.to_nat (apos a) - length (abytes a))))%nat with 0%nat by lia.
  cbn [repeat]. rewrite app_nil_r. reflexivity.
Qed.

Lemma write_d_unfold buf s :
  write_d P cs true buf s =
  let pad := if size (fs s) <? pos (fs s) then truncate_d P cs true None s else (s, Ok (ONum 0)) in
  match snd pad with
  | Err e => (fst pad, Err e)
  | Ok _ => write_rest (size (fs s)) buf (fst pad)
  end.
Proof. reflexivity. Qed.

Theorem write_refines buf s :
  Inv P cs s ->
  let r := write_d P cs true buf s in let s' := fst r in
  Inv P cs s' /\ length (dat s') = length (dat s) /\
  (forall c, 2 <= c -> ~ In c (map (fs s')) -> getc (dat s') c = getc (dat s) c) /\
  (forall c, ~ In c (map (fs s')) -> get (tbl (fs s')) c = get (tbl (fs s)) c) /\
  length (tbl (fs s')) = length (tbl (fs s)) /\
  (exists new, map (fs s') = map (fs s) ++ new) /\
  match snd r with
  | Ok o => spec_step cs (abs s) (OWrite buf) = (abs s', Ok o)
  | Err e => e = OSError_ENOSPC /\
      ((abs s' = abs s /\ alen (abs s) < apos (abs s)) \/
       exists k, (k < length buf)%nat /\ abs s' = a_write (abs s) (firstn k buf))
  end.
Proof.
  intros I. cbv zeta. rewrite write_d_unfold. cbv zeta.
  pose proof (clen s I) as CL.
  destruct (N.ltb_spec (size (fs s)) (pos (fs s))) as [G|G].
  - (* the hole is padded first *)
    pose proof (truncate_refines P POK MV cs CS None s I) as TR.
    pose proof (truncate_frame P POK MV cs CS None s I) as TF. cbv zeta in TR, TF.
    set (r1 := truncate_d P cs true None s) in *. set (s1 := fst r1) in *.
    destruct TR as (I1 & L1 & P1 & TR). destruct TF as (Fd1 & Ft1 & Lt1 & Mp1).
    destruct (Mp1 ltac:(cbn [tr_arg]; lia)) as (new1 & Mp1').
    destruct (snd r1) as [o1|e1].
    2:{ destruct TR as (-> & Ea & Ef & _). cbn [fst snd]. fold s1.
        split; [exact I1|]. split; [exact L1|]. split; [exact Fd1|].
        split; [intros c Hc; apply Ft1; [rewrite <- Ef; exact Hc|exact Hc]|]. split; [exact Lt1|].
        split; [exists new1; exact Mp1'|]. split; [reflexivity|]. left. split; [exact Ea|].
        unfold alen, abs. cbn [abytes apos]. rewrite CL. lia. }
    destruct TR as (TS & Sz1). cbn [tr_arg] in Sz1.
    assert (Ea : abs s1 = a_truncate (abs s) (apos (abs s))).
    { apply (f_equal fst) in TS. unfold spec_step in TS. cbn [fst] in TS. symmetry. exact TS. }
    pose proof (write_rest_spec (size (fs s)) buf s1 I1 ltac:(lia) ltac:(lia)) as WR. cbv zeta in WR.
    set (r := write_rest (size (fs s)) buf s1) in *. set (s3 := fst r) in *.
    destruct WR as (I3 & L3 & Fd3 & Ft3 & Lt3 & (new3 & Mp3) & k & Ea3 & Res).
    assert (Sub : forall c, ~ In c (map (fs s3)) -> ~ In c (map (fs s1)) /\ ~ In c (map (fs s))).
    { intros c Hc. split; intros X; apply Hc; rewrite Mp3; apply in_or_app; left; [exact X|].
      rewrite Mp1'. apply in_or_app. left. exact X. }
    split; [exact I3|]. split; [congruence|].
    split; [intros c H2 Hc; rewrite (Fd3 c H2 Hc); apply Fd1; [exact H2|apply (Sub c Hc)]|].
    split; [intros c Hc; rewrite (Ft3 c Hc); apply Ft1; apply (Sub c Hc)|]. split; [congruence|].
    split; [exists (new1 ++ new3); rewrite Mp3, Mp1', app_assoc; reflexivity|].
    assert (Ew : abs s3 = a_write (abs s) (firstn k buf)).
    { rewrite Ea3, Ea. apply a_write_after_pad. unfold alen, abs. cbn [abytes apos]. rewrite CL. lia. }
    destruct (snd r) as [o|e].
    + destruct Res as (-> & ->). rewrite firstn_all in Ew. unfold spec_step. rewrite Ew. reflexivity.
    + destruct Res as (-> & Kl). split; [reflexivity|]. right. exists k. split; [exact Kl|exact Ew].
  - replace (snd (s, @Ok out (ONum 0))) with (@Ok out (ONum 0)) by reflexivity. cbv iota. cbn [fst].
    pose proof I as [[W S] U L].
    pose proof (write_rest_spec (size (fs s)) buf s I G ltac:(lia)) as WR. cbv zeta in WR.
    set (r := write_rest (size (fs s)) buf s) in *. set (s3 := fst r) in *.
    destruct WR as (I3 & L3 & Fd3 & Ft3 & Lt3 & Mp3 & k & Ea3 & Res).
    split; [exact I3|]. split; [exact L3|]. split; [exact Fd3|]. split; [exact Ft3|]. split; [exact Lt3|].
    split; [exact Mp3|].
    destruct (snd r) as [o|e].
    + destruct Res as (-> & ->). rewrite firstn_all in Ea3. unfold spec_step. rewrite Ea3. reflexivity.
    + destruct Res as (-> & Kl). split; [reflexivity|]. right. exists k. split; [exact Kl|exact Ea3].
Qed.
End Data.
