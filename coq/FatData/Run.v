(* Wire interface of the FatData model (runner area `FatData`). *)
From Coq Require Import List NArith ZArith String Bool.
From NV Require Import Lib.Val Lib.Res Lib.Wire FatAlloc.Model FatData.Model.
Import ListNotations.
Open Scope string_scope.

Definition getNs (v : val) : list N := List.map getN (getL v).
Definition VNs (l : list N) : val := VL (List.map VN l).
(* FSInfo on the wire: [] (none / invalid) or [last_alloc; free_clusters] *)
Definition get_info (v : val) : info :=
  match getL v with [a; b] => Some (getN a, getN b) | _ => None end.
Definition VInfo (i : info) : val :=
  match i with Some (la, fc) => VL [VN la; VN fc] | None => VL [] end.

Definition get_op (v : val) : op :=
  match getN (arg 0 v) with
  | 0%N => OSeek (getN (arg 1 v)) (getZ (arg 2 v))
  | 1%N => OWrite (getS (arg 1 v))
  | 2%N => OTruncate (match getL (arg 1 v) with [n] => Some (getN n) | _ => None end)
  | 3%N => ORead (getN (arg 1 v))
  | _ => OReadAll
  end.
Definition VOut (o : out) : val :=
  match o with ONum n => VL [VN 0; VN n] | OBytes b => VL [VN 1; VS b] end.

(* clusters that differ, as (index in the data region, new bytes) *)
Fixpoint diff (i : N) (d d' : data) : list val :=
  match d, d' with
  | a :: r, b :: r' => (if bytes_eqb a b then [] else [VL [VN i; VS b]]) ++ diff (i + 1)%N r r'
  | _, _ => []
  end.

(* (bits, cs, hasent, info, table, clusters, map, size, pos, ops) *)
Definition get_state (a : val) : dstate :=
  {| fs := {| sfat := {| ftbl := getNs (arg 4 a); finfo := get_info (arg 3 a) |};
              map := getNs (arg 6 a); size := getN (arg 7 a); pos := getN (arg 8 a) |};
     dat := getLs (arg 5 a) |}.
Definition VMeta (s : dstate) : list val :=
  [VNs (tbl (fs s)); VInfo (finfo (sfat (fs s))); VNs (map (fs s)); VN (size (fs s)); VN (pos (fs s))].

(* per operation: (result, table, info, map, size, pos, changed clusters) *)
Fixpoint run_trace (P : fatp) (cs : N) (he : bool) (s : dstate) (ops : list op) : list val * dstate :=
  match ops with
  | [] => ([], s)
  | o :: r =>
    let x := step P cs he s o in
    let y := run_trace P cs he (fst x) r in
    (VL (VRes VOut (snd x) :: VMeta (fst x) ++ [VL (diff 0 (dat s) (dat (fst x)))]) :: fst y, snd y)
  end.

Definition dispatch (cmd : string) (a : val) : val :=
  let P := params_of_bits (getN (arg 0 a)) in
  if String.eqb cmd "run" then
    let r := run_trace P (getN (arg 1 a)) (getB (arg 2 a)) (get_state a) (List.map get_op (getL (arg 9 a))) in
    VL [VL (fst r); VL (VMeta (snd r) ++ [VLs (dat (snd r))])]
  else VErr "unknown command".
