(* DATA half of nobodd/fs.py FatFile for ONE open file on a volume: the FAT (abstract table of
   FatAlloc.Model, with the FSInfo bookkeeping), the data region as a list of clusters
   (cluster c = element c - 2: FatClusters.__getitem__/__setitem__), the file's cluster map,
   recorded size and position.  Statement by statement:

     FatFile.truncate   the early return, the zero-fill of the TAIL of the old last cluster
                        (`fs.clusters[map[-1]][-tail:] = b'\0' * tail`, done BEFORE free() is
                        consulted, so it also happens when ENOSPC follows), the chain work
                        (= FatAlloc.Model.truncate, reused), `fs.clusters[c] = zeros` for every
                        appended cluster, _set_size;
     FatFile.write      `size = _get_size()` read once; `if _pos > size: truncate()` (outside
                        the try: an ENOSPC there leaves only the zeroed tail behind); the loop
                        alternating _write1 and the one-cluster allocation (= FatAlloc.Model.
                        alloc_one, reused; the new cluster is NOT zeroed); the `finally` that
                        records _pos as the size when it is beyond the size read at entry;
     FatFile._write1    index / left / right / written, python slice assignment
                        `cluster[left:right] = mem[:written]`, IndexError -> 0;
     seek / read / readall  delegated to FatRead.Model.step over the flattened data region;
     _get_size / _set_size  with a directory entry: the recorded size.  Without (the file that
                        backs a sub-directory, `hasent = false`): cs * len(map), _set_size a no-op
                        (`norm`).

   `step` returns the state ALSO when the operation raises: the code keeps running on what an
   interrupted write left behind, so histories continue from there.

   Not modelled: timestamps (_set_mtime/_set_atime; atime is off by default), the dirty bit,
   locks, the 32-bit limit of the size field, the first-cluster field of the directory entry
   (it is the head of the map, see FatAlloc), the mode checks (readable()/writable()).
   Executable definitions only; proofs in Proofs*.v. *)
From Coq Require Import List NArith ZArith Bool.
From NV Require Import Lib.Res Gen.Fat FatAlloc.Model.
From NV Require FatRead.Model.
Import ListNotations.
Open Scope N_scope.



(* ------------------------------------------------------------------ buffers *)
Fixpoint upd {A} (l : list A) (i : nat) (v : A) : list A :=
  match l, i with
  | [], _ => []
  | _ :: r, O => v :: r
  | x :: r, S j => x :: upd r j v
  end.
(* memoryview slice assignment mv[p : p + len(b)] = b  (p + len(b) <= len(mv)) *)
Definition splice (l : list N) (p : nat) (b : list N) : list N :=
  firstn p l ++ b ++ skipn (p + length b) l.
Definition zeros (n : nat) : list N := repeat 0 n.

(* ------------------------------------------------------------ data clusters *)
Definition data := list (list N).
(* `2 <= cluster < len(self) + 2` *)
Definition cl_ok (d : data) (c : N) : bool := (2 <=? c) && (c <? len d + 2).
Definition getc (d : data) (c : N) : list N := nth (N.to_nat (c - 2)) d [].
Definition setc (d : data) (c : N) (v : list N) : data := upd d (N.to_nat (c - 2)) v.
(* fs.fat.limit = len(fs.clusters) + 2 *)
Definition limit_of (d : data) : N := len d + 2.

Record dstate := { fs : fstate; dat : data }.

Inductive op :=
| OSeek (whence : N) (off : Z)
| OWrite (b : list N)
| OTruncate (sz : option N)
| ORead (n : N)
| OReadAll.
(* what the call returns: a number (seek: the position, write: bytes written, truncate: the
   size) or bytes *)
Inductive out := ONum (n : N) | OBytes (b : list N).

Section Params.
Variable P : fatp.
Variable cs : N.
Variable hasent : bool.

Definition with_fs (s : dstate) (st : fstate) : dstate := {| fs := st; dat := dat s |}.
Definition set_size (v : N) (st : fstate) : fstate :=
  if hasent then {| sfat := sfat st; map := map st; size := v; pos := pos st |} else st.
Definition set_pos (p : N) (st : fstate) : fstate :=
  {| sfat := sfat st; map := map st; size := size st; pos := p |}.
(* _get_size of an entry-less file *)
Definition norm (st : fstate) : fstate :=
  if hasent then st
  else {| sfat := sfat st; map := map st; size := cs * len (map st); pos := pos st |}.

(* ---------------------------------------------------------------- truncate *)
(* `if size > old_size: tail = len(map) * cs - old_size; if tail: clusters[map[-1]][-tail:] = b'\0' * tail` *)
Definition zero_tail (st : fstate) (d : data) (newsize : N) : res data :=
  if size st <? newsize then
    let tail := (Z.of_N (len (map st) * cs) - Z.of_N (size st))%Z in
    if (tail =? 0)%Z then Ok d else
    match map st with
    | [] => Err IndexError
    | _ =>
      let c := last (map st) 0 in
      if negb (cl_ok d c) then Err IndexError
      else if ((0 <? tail) && (tail <=? Z.of_N cs))%Z then
        let t := Z.to_nat tail in
        Ok (setc d c (splice (getc d c) (N.to_nat cs - t) (zeros t)))
      else if ((tail <? 0) && (Z.of_N cs <=? - tail))%Z then Ok d    (* empty = empty *)
      else Err ValueError                                            (* lengths differ *)
    end
  else Ok d.

(* `for cluster in to_append: fs.clusters[cluster] = zeros` *)
Definition fill_zero (d : data) (cls : list N) : data :=
  fold_left (fun d c => setc d c (zeros (N.to_nat cs))) cls d.

Definition truncate_d (arg : option N) (s : dstate) : dstate * res out :=
  let st := fs s in
  let newsize := match arg with Some n => n | None => pos st end in
  if newsize =? size st then (s, Ok (ONum newsize)) else
  match zero_tail st (dat s) newsize with
  | Err e => (s, Err e)
  | Ok d1 =>
    match truncate P cs (limit_of (dat s)) newsize st with
    | Err e => ({| fs := st; dat := d1 |}, Err e)
    | Ok st' =>
      let new := skipn (length (map st)) (map st') in
      ({| fs := norm (set_size newsize st'); dat := fill_zero d1 new |}, Ok (ONum newsize))
    end
  end.

(* ------------------------------------------------------------------- write *)
(* _write1: (state, bytes written); 0 = IndexError caught (or nothing to write) *)
Definition write1 (mem : list N) (s : dstate) : dstate * N :=
  let st := fs s in
  let index := pos st / cs in
  let left := pos st - index * cs in
  let right := N.min cs (left + len mem) in
  let written := right - left in
  if written =? 0 then (s, 0) else
  match nth_error (map st) (N.to_nat index) with
  | None => (s, 0)
  | Some c =>
    if cl_ok (dat s) c then
      ({| fs := set_pos (pos st + written) st;
          dat := setc (dat s) c (splice (getc (dat s) c) (N.to_nat left) (firstn (N.to_nat written) mem)) |},
       written)
    else (s, 0)
  end.

(* `while mem: w = _write1(mem); if w: mem = mem[w:] else: <allocate one cluster>` *)
Fixpoint write_loop (fuel : nat) (mem : list N) (s : dstate) : dstate * res unit :=
  match mem with
  | [] => (s, Ok tt)
  | _ =>
    match fuel with
    | O => (s, Err OutOfFuel)
    | S f =>
      let r := write1 mem s in
      if snd r =? 0 then
        match alloc_one P (limit_of (dat s)) (fs s) with
        | Err e => (s, Err e)
        | Ok st' => write_loop f mem (with_fs s st')
        end
      else write_loop f (skipn (N.to_nat (snd r)) mem) (fst r)
    end
  end.

Definition write_fuel (buf : list N) (s : dstate) : nat :=
  S (length buf + length buf + length (tbl (fs s))).

Definition write_d (buf : list N) (s : dstate) : dstate * res out :=
  let size0 := size (fs s) in
  let pad := if size0 <? pos (fs s) then truncate_d None s else (s, Ok (ONum 0)) in
  match snd pad with
  | Err e => (fst pad, Err e)
  | Ok _ =>
    let r := write_loop (write_fuel buf (fst pad)) buf (fst pad) in
    let s2 := fst r in
    let st3 := if size0 <? pos (fs s2) then set_size (pos (fs s2)) (fs s2) else fs s2 in
    (with_fs s2 (norm st3),
     match snd r with Ok _ => Ok (ONum (len buf)) | Err e => Err e end)
  end.

(* ------------------------------------------------------------ seek and reads *)
Definition rstate (st : fstate) : FatRead.Model.fstate :=
  {| FatRead.Model.f_map := map st; FatRead.Model.f_size := size st; FatRead.Model.f_pos := pos st |}.
Definition of_ores (r : FatRead.Model.oresult) : res out :=
  match r with
  | FatRead.Model.RPos p => Ok (ONum p)
  | FatRead.Model.RBytes b => Ok (OBytes b)
  | FatRead.Model.RErr e => Err e
  end.
Definition read_step (o : FatRead.Model.op) (s : dstate) : dstate * res out :=
  let flat := concat (dat s) in
  let x := FatRead.Model.step cs flat (FatRead.Model.clusters_len cs flat) o (rstate (fs s)) in
  (with_fs s (set_pos (FatRead.Model.f_pos (snd x)) (fs s)), of_ores (fst x)).

Definition step (s : dstate) (o : op) : dstate * res out :=
  match o with
  | OSeek w off => read_step (FatRead.Model.OSeek off w) s
  | ORead n => read_step (FatRead.Model.OReadinto n) s
  | OReadAll => read_step FatRead.Model.OReadall s
  | OWrite b => write_d b s
  | OTruncate sz => truncate_d sz s
  end.

Fixpoint run (s : dstate) (ops : list op) : dstate * list (res out) :=
  match ops with
  | [] => (s, [])
  | o :: r => let x := step s o in let y := run (fst x) r in (fst y, snd x :: snd y)
  end.
End Params.
