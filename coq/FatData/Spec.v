(* SPECIFICATION of one open file: a byte string and a position, nothing else.
     seek      moves the position (any non-negative target, also beyond the end);
     write     first pads the string with zeros up to the position when the position is beyond
               the end (the "hole"), then overwrites / extends at the position;
     truncate  cuts, or extends with zeros; the position stays;
     read n    a RAW read (io.RawIOBase): the bytes at the position, at most n, at most up to
               the end, and at most up to the next multiple of the block size `cs` (short reads
               are allowed for raw files; cs is the only trace of the implementation here);
     readall   everything from the position to the end.
   `spec_step` is the behaviour when nothing fails.  `spec_rel` adds the only failures the
   implementation may show: ENOSPC on truncate (nothing changes) and on write (nothing changes,
   or the hole is padded and a strict prefix of the buffer is written). *)
From Coq Require Import List NArith ZArith Bool.
From NV Require Import Lib.Res FatData.Model.
Import ListNotations.
Open Scope N_scope.

Record afile := { abytes : list N; apos : N }.
Definition alen (a : afile) : N := N.of_nat (length (abytes a)).

Definition a_write (a : afile) (b : list N) : afile :=
  let p := N.to_nat (apos a) in
  let padded := abytes a ++ repeat 0 (p - length (abytes a)) in
  {| abytes := firstn p padded ++ b ++ skipn (p + length b) padded;
     apos := apos a + N.of_nat (length b) |}.

Definition a_truncate (a : afile) (n : N) : afile :=
  let k := N.to_nat n in
  {| abytes := firstn k (abytes a) ++ repeat 0 (k - length (abytes a)); apos := apos a |}.

Definition a_target (a : afile) (whence : N) (off : Z) : option Z :=
  match whence with
  | 0 => Some off
  | 1 => Some (Z.of_N (apos a) + off)%Z
  | 2 => Some (Z.of_N (alen a) + off)%Z
  | _ => None
  end.

(* length of a raw read of at most n bytes *)
Definition a_rawlen (cs : N) (a : afile) (n : N) : N :=
  N.min (N.min (cs - apos a mod cs) n) (alen a - apos a).

Definition spec_step (cs : N) (a : afile) (o : op) : afile * res out :=
  match o with
  | OSeek w off =>
    match a_target a w off with
    | None => (a, Err ValueError)
    | Some t => if (t <? 0)%Z then (a, Err OSError_Other)          (* EINVAL *)
                else ({| abytes := abytes a; apos := Z.to_N t |}, Ok (ONum (Z.to_N t)))
    end
  | OWrite b => (a_write a b, Ok (ONum (N.of_nat (length b))))
  | OTruncate sz =>
    let n := match sz with Some n => n | None => apos a end in
    (a_truncate a n, Ok (ONum n))
  | ORead n =>
    let m := a_rawlen cs a n in
    ({| abytes := abytes a; apos := apos a + m |},
     Ok (OBytes (firstn (N.to_nat m) (skipn (N.to_nat (apos a)) (abytes a)))))
  | OReadAll =>
    ({| abytes := abytes a; apos := N.max (apos a) (alen a) |},
     Ok (OBytes (skipn (N.to_nat (apos a)) (abytes a))))
  end.

(* one step of a history, failures included *)
Inductive spec_rel (cs : N) (a : afile) : op -> afile -> res out -> Prop :=
| SR_step o : spec_rel cs a o (fst (spec_step cs a o)) (snd (spec_step cs a o))
| SR_truncate_nospc sz :
    alen a < match sz with Some n => n | None => apos a end ->
    spec_rel cs a (OTruncate sz) a (Err OSError_ENOSPC)
| SR_write_nospc_pad b :
    alen a < apos a -> spec_rel cs a (OWrite b) a (Err OSError_ENOSPC)
| SR_write_nospc_partial b k :
    (k < length b)%nat ->
    spec_rel cs a (OWrite b) (a_write a (firstn k b)) (Err OSError_ENOSPC).

Inductive spec_run_rel (cs : N) : afile -> list op -> afile -> list (res out) -> Prop :=
| SRR_nil a : spec_run_rel cs a [] a []
| SRR_cons a o a1 r ops a2 rs :
    spec_rel cs a o a1 r -> spec_run_rel cs a1 ops a2 rs ->
    spec_run_rel cs a (o :: ops) a2 (r :: rs).

(* the failure-free history as a function *)
Fixpoint spec_run (cs : N) (a : afile) (ops : list op) : afile * list (res out) :=
  match ops with
  | [] => (a, [])
  | o :: r => let x := spec_step cs a o in let y := spec_run cs (fst x) r in (fst y, snd x :: snd y)
  end.
