(* List facts for the data model: upd, splice (slice assignment), blocks of uniform length,
   cluster get/set, and `raw` = the bytes of a chain. *)
From Coq Require Import List NArith ZArith Bool Lia Arith ZifyN ZifyNat ZifyBool.
From NV Require Import Lib.Res FatAlloc.Model FatAlloc.ProofsBase FatData.Model.
From NV Require Lib.StructProofs FatRead.ProofsBase.
Import ListNotations.
Open Scope N_scope.

(* ------------------------------------------------------------------- upd *)
Lemma upd_length {A} (l : list A) i v : length (upd l i v) = length l.
Proof. revert i; induction l as [|x l IH]; intros [|i]; cbn; auto. Qed.
Lemma nth_upd_same {A} (l : list A) i v d : (i < length l)%nat -> nth i (upd l i v) d = v.
Proof. revert i; induction l as [|x l IH]; intros [|i] H; cbn in *; try lia; auto. apply IH; lia. Qed.
Lemma nth_upd_other {A} (l : list A) i j v d : i <> j -> nth j (upd l i v) d = nth j l d.
Proof.
  revert i j; induction l as [|x l IH]; intros [|i] [|j] H; cbn; try reflexivity; try congruence.
  apply IH; congruence.
Qed.
Lemma upd_split {A} (l : list A) i v :
  (i < length l)%nat -> upd l i v = firstn i l ++ v :: skipn (S i) l.
Proof.
  revert i; induction l as [|x l IH]; intros [|i] H; cbn in *; try lia; auto.
  f_equal. apply IH. lia.
Qed.
Lemma upd_beyond {A} (l : list A) i v : (length l <= i)%nat -> upd l i v = l.
Proof.
  revert i; induction l as [|x l IH]; intros [|i] H; cbn in *; try lia; auto. f_equal. apply IH. lia.
Qed.
Lemma Forall_upd {A} (Q : A -> Prop) (l : list A) i v : Forall Q l -> Q v -> Forall Q (upd l i v).
Proof.
  intros H Hv. revert i. induction H as [|x l Hx Hl IH]; intros [|i]; cbn [upd]; try constructor; auto.
Qed.

(* ---------------------------------------------------------------- splice *)
Lemma splice_length l p b : (p + length b <= length l)%nat -> length (splice l p b) = length l.
Proof. intros H. unfold splice. rewrite !app_length, firstn_length, skipn_length. lia. Qed.
Lemma splice_nil l p : splice l p [] = l.
Proof. unfold splice. cbn [app length]. rewrite Nat.add_0_r. apply firstn_skipn. Qed.
Lemma splice_app_l l g p b : (p + length b <= length l)%nat -> splice (l ++ g) p b = splice l p b ++ g.
Proof.
  intros H. unfold splice. rewrite firstn_app, skipn_app.
  replace (p - length l)%nat with 0%nat by lia.
  replace (p + length b - length l)%nat with 0%nat by lia.
  cbn [firstn skipn]. rewrite app_nil_r, <- !app_assoc. reflexivity.
Qed.
Lemma splice_mid (A0 b C : list N) n left x :
  length A0 = n -> (left + length x <= length b)%nat ->
  splice (A0 ++ b ++ C) (n + left) x = A0 ++ splice b left x ++ C.
Proof.
  intros Hn H. unfold splice. subst n.
  rewrite firstn_app, firstn_all2 by lia.
  replace (length A0 + left - length A0)%nat with left by lia.
  rewrite skipn_app, (skipn_all2 A0) by lia. cbn [app].
  replace (length A0 + left + length x - length A0)%nat with (left + length x)%nat by lia.
  rewrite firstn_app, skipn_app.
  replace (left - length b)%nat with 0%nat by lia.
  replace (left + length x - length b)%nat with 0%nat by lia.
  cbn [firstn skipn]. rewrite app_nil_r, <- !app_assoc. reflexivity.
Qed.
Lemma splice_splice l p b1 b2 :
  (p + length b1 + length b2 <= length l)%nat ->
  splice (splice l p b1) (p + length b1) b2 = splice l p (b1 ++ b2).
Proof.
  intros H. unfold splice.
  set (A0 := firstn p l). set (S0 := skipn (p + length b1) l).
  assert (LA : length A0 = p) by (unfold A0; rewrite firstn_length; lia).
  assert (LAB : length (A0 ++ b1) = (p + length b1)%nat) by (rewrite app_length; lia).
  rewrite (app_assoc A0 b1 S0).
  rewrite firstn_app, (firstn_all2 (A0 ++ b1)) by lia.
  rewrite LAB, Nat.sub_diag. cbn [firstn]. rewrite app_nil_r.
  rewrite skipn_app, (skipn_all2 (A0 ++ b1)) by lia. cbn [app].
  rewrite LAB. replace (p + length b1 + length b2 - (p + length b1))%nat with (length b2) by lia.
  unfold S0. rewrite FatRead.ProofsBase.skipn_skipn', app_length, <- !app_assoc.
  replace (p + length b1 + length b2)%nat with (p + (length b1 + length b2))%nat by lia.
  reflexivity.
Qed.
Lemma firstn_splice l p b : (p <= length l)%nat -> firstn (p + length b) (splice l p b) = firstn p l ++ b.
Proof.
  intros H. unfold splice. rewrite app_assoc, firstn_app.
  rewrite firstn_all2 by (rewrite app_length, firstn_length; lia).
  rewrite app_length, firstn_length.
  replace (p + length b - (Nat.min p (length l) + length b))%nat with 0%nat by lia.
  cbn [firstn]. apply app_nil_r.
Qed.

(* ----------------------------------------------- blocks of uniform length *)
Lemma concat_upd_splice (w : nat) (bl : list (list N)) i b left x :
  Forall (fun b => length b = w) bl -> nth_error bl i = Some b -> (left + length x <= w)%nat ->
  concat (upd bl i (splice b left x)) = splice (concat bl) (i * w + left) x.
Proof.
  intros Hu Hn Hle.
  assert (Hb : length b = w).
  { rewrite Forall_forall in Hu. apply Hu. eapply nth_error_In; eauto. }
  assert (Hi : (i < length bl)%nat) by (apply nth_error_Some; congruence).
  rewrite (upd_split bl i _ Hi), concat_app. cbn [concat].
  rewrite (StructProofs.concat_split_nth bl i b Hn) at 1.
  symmetry. apply splice_mid; [|lia].
  rewrite (FatRead.ProofsBase.concat_uniform_length w) by (now apply FatRead.ProofsBase.Forall_firstn).
  rewrite firstn_length. lia.
Qed.

Lemma zeros_length n : length (zeros n) = n.
Proof. apply repeat_length. Qed.
Lemma zeros_app n m : zeros (n + m) = zeros n ++ zeros m.
Proof. apply repeat_app. Qed.
Lemma concat_zeros (w : nat) {A} (l : list A) : concat (List.map (fun _ => zeros w) l) = zeros (length l * w).
Proof.
  induction l as [|x l IH]; [reflexivity|]. cbn [List.map concat length Nat.mul].
  rewrite IH, zeros_app. reflexivity.
Qed.
Lemma firstn_zeros k n : (k <= n)%nat -> firstn k (zeros n) = zeros k.
Proof.
  revert n; induction k as [|k IH]; intros n H; [reflexivity|].
  destruct n as [|n]; [lia|]. cbn [zeros repeat firstn]. f_equal. apply IH. lia.
Qed.

(* ------------------------------------------------------- cluster get / set *)
Lemma cl_ok_spec d c : cl_ok d c = true <-> 2 <= c /\ (N.to_nat (c - 2) < length d)%nat.
Proof. unfold cl_ok, len. lia. Qed.
Lemma setc_length d c v : length (setc d c v) = length d.
Proof. apply upd_length. Qed.
Lemma getc_setc_same d c v : cl_ok d c = true -> getc (setc d c v) c = v.
Proof. intros H. apply cl_ok_spec in H. unfold getc, setc. apply nth_upd_same. lia. Qed.
Lemma getc_setc_other d c c' v : 2 <= c -> 2 <= c' -> c <> c' -> getc (setc d c v) c' = getc d c'.
Proof. intros H1 H2 H3. unfold getc, setc. apply nth_upd_other. lia. Qed.
Lemma cl_ok_setc d c v c' : cl_ok (setc d c v) c' = cl_ok d c'.
Proof. unfold cl_ok, len. rewrite setc_length. reflexivity. Qed.

Definition uniform (w : N) (d : data) : Prop := Forall (fun b => length b = N.to_nat w) d.
Lemma uniform_setc w d c v : uniform w d -> length v = N.to_nat w -> uniform w (setc d c v).
Proof. intros H Hv. apply Forall_upd; assumption. Qed.
Lemma getc_length w d c : uniform w d -> cl_ok d c = true -> length (getc d c) = N.to_nat w.
Proof.
  intros Hu H. apply cl_ok_spec in H. unfold uniform in Hu. rewrite Forall_forall in Hu.
  apply Hu. unfold getc. apply nth_In. lia.
Qed.

(* the bytes of a chain *)
Definition raw (d : data) (m : list N) : list N := concat (List.map (getc d) m).
Lemma raw_app d m n : raw d (m ++ n) = raw d m ++ raw d n.
Proof. unfold raw. rewrite map_app, concat_app. reflexivity. Qed.
Lemma blocks_uniform w d m :
  uniform w d -> (forall c, In c m -> cl_ok d c = true) ->
  Forall (fun b => length b = N.to_nat w) (List.map (getc d) m).
Proof.
  intros Hu Hr. rewrite Forall_forall. intros b Hb. apply in_map_iff in Hb.
  destruct Hb as [c [<- Hc]]. apply (getc_length w); auto.
Qed.
Lemma raw_length w d m :
  uniform w d -> (forall c, In c m -> cl_ok d c = true) ->
  length (raw d m) = (length m * N.to_nat w)%nat.
Proof.
  intros Hu Hr. unfold raw.
  rewrite (FatRead.ProofsBase.concat_uniform_length (N.to_nat w)) by (now apply blocks_uniform).
  rewrite map_length. reflexivity.
Qed.

Lemma map_getc_setc_notin d c v m :
  ~ In c m -> 2 <= c -> (forall x, In x m -> 2 <= x) ->
  List.map (getc (setc d c v)) m = List.map (getc d) m.
Proof.
  intros Hn Hc Hm. apply map_ext_in. intros x Hx. apply getc_setc_other; auto. intros ->. exact (Hn Hx).
Qed.
Lemma raw_setc_notin d c v m :
  ~ In c m -> 2 <= c -> (forall x, In x m -> 2 <= x) -> raw (setc d c v) m = raw d m.
Proof. intros. unfold raw. rewrite map_getc_setc_notin; auto. Qed.

Lemma map_getc_setc_at d c v m i :
  NoDup m -> nth_error m i = Some c -> (forall x, In x m -> cl_ok d x = true) ->
  List.map (getc (setc d c v)) m = upd (List.map (getc d) m) i v.
Proof.
  revert i. induction m as [|a m IH]; intros i Nd Hn Hr; [destruct i; discriminate|].
  inversion Nd as [|? ? Ha Nd']; subst.
  assert (Ra : 2 <= a) by (apply (cl_ok_spec d), Hr; left; reflexivity).
  assert (Rm : forall x, In x m -> 2 <= x) by (intros x Hx; apply (cl_ok_spec d), Hr; right; exact Hx).
  destruct i as [|i]; cbn in Hn.
  - injection Hn as ->. cbn [List.map upd]. f_equal.
    + apply getc_setc_same. apply Hr. left. reflexivity.
    + apply map_getc_setc_notin; auto.
  - cbn [List.map upd]. f_equal.
    + apply getc_setc_other; auto.
      * apply (cl_ok_spec d), Hr. right. eapply nth_error_In; eauto.
      * intros ->. apply Ha. eapply nth_error_In; eauto.
    + apply IH; auto. intros x Hx. apply Hr. right. exact Hx.
Qed.

(* a slice assignment inside cluster number i of the chain, seen on the chain's bytes *)
Lemma raw_write_at w d m i c left x :
  uniform w d -> NoDup m -> nth_error m i = Some c -> (forall y, In y m -> cl_ok d y = true) ->
  (left + length x <= N.to_nat w)%nat ->
  raw (setc d c (splice (getc d c) left x)) m = splice (raw d m) (i * N.to_nat w + left) x.
Proof.
  intros Hu Nd Hn Hr Hle. unfold raw. rewrite (map_getc_setc_at d c _ m i Nd Hn Hr).
  apply concat_upd_splice; [now apply blocks_uniform| |exact Hle].
  apply map_nth_error. exact Hn.
Qed.

(* ------------------------------------------------------------- fill_zero *)
Section Fill.
Variable cs : N.
Lemma fill_zero_length d l : length (fill_zero cs d l) = length d.
Proof.
  revert d; induction l as [|c l IH]; intros d; [reflexivity|].
  cbn [fill_zero fold_left]. fold (fill_zero cs (setc d c (zeros (N.to_nat cs))) l).
  rewrite IH. apply setc_length.
Qed.
Lemma fill_zero_uniform d l : uniform cs d -> uniform cs (fill_zero cs d l).
Proof.
  revert d; induction l as [|c l IH]; intros d H; [exact H|].
  cbn [fill_zero fold_left]. fold (fill_zero cs (setc d c (zeros (N.to_nat cs))) l).
  apply IH. apply uniform_setc; [exact H|apply zeros_length].
Qed.
Lemma getc_fill_zero_other d l c :
  ~ In c l -> 2 <= c -> (forall x, In x l -> 2 <= x) -> getc (fill_zero cs d l) c = getc d c.
Proof.
  revert d; induction l as [|a l IH]; intros d Hn Hc Hl; [reflexivity|].
  cbn [fill_zero fold_left]. fold (fill_zero cs (setc d a (zeros (N.to_nat cs))) l).
  rewrite IH.
  - apply getc_setc_other; auto. + apply Hl. left. reflexivity. + intros ->. apply Hn. left. reflexivity.
  - intros H. apply Hn. right. exact H.
  - exact Hc.
  - intros x Hx. apply Hl. right. exact Hx.
Qed.
Lemma getc_fill_zero_in d l c :
  In c l -> (forall x, In x l -> cl_ok d x = true) -> getc (fill_zero cs d l) c = zeros (N.to_nat cs).
Proof.
  revert d; induction l as [|a l IH]; intros d Hc Hl; [destruct Hc|].
  cbn [fill_zero fold_left]. fold (fill_zero cs (setc d a (zeros (N.to_nat cs))) l).
  destruct (in_dec N.eq_dec c l) as [Hin|Hnot].
  - apply IH; [exact Hin|]. intros x Hx. rewrite cl_ok_setc. apply Hl. right. exact Hx.
  - destruct Hc as [->|Hc]; [|contradiction].
    rewrite getc_fill_zero_other; [|exact Hnot| |].
    + apply getc_setc_same. apply Hl. left. reflexivity.
    + apply (cl_ok_spec d), Hl. left. reflexivity.
    + intros x Hx. apply (cl_ok_spec d), Hl. right. exact Hx.
Qed.
Lemma raw_fill_zero_new d l :
  (forall x, In x l -> cl_ok d x = true) -> raw (fill_zero cs d l) l = zeros (length l * N.to_nat cs).
Proof.
  intros Hl. unfold raw. rewrite <- (concat_zeros (N.to_nat cs) l). f_equal.
  apply map_ext_in. intros c Hc. apply getc_fill_zero_in; auto.
Qed.
Lemma raw_fill_zero_other d l m :
  (forall x, In x m -> ~ In x l) -> (forall x, In x m -> 2 <= x) -> (forall x, In x l -> 2 <= x) ->
  raw (fill_zero cs d l) m = raw d m.
Proof.
  intros D Hm Hl. unfold raw. f_equal. apply map_ext_in. intros c Hc.
  apply getc_fill_zero_other; auto.
Qed.
End Fill.
