(* Invariant, abstraction function, and FatFile.truncate against the byte-string specification. *)
From Coq Require Import List NArith ZArith Bool Lia Arith ZifyN ZifyNat ZifyBool.
From NV Require Import Lib.Res FatAlloc.Model FatAlloc.ProofsBase FatAlloc.ProofsGrow FatAlloc.ProofsOps.
From NV Require Import FatData.Model FatData.Spec FatData.ProofsBase.
Import ListNotations.
Open Scope N_scope.

Section Data.
Variable P : fatp.
Hypothesis POK : params_ok P.
Hypothesis MV : 2 <= min_valid P.
Variable cs : N.
Hypothesis CS : 0 < cs.

(* The invariant of one open file with a directory entry on a volume:
   - the chain is well-formed in the FAT (FatAlloc: no duplicate, every cluster inside the data
     area, linked in order, end mark on the last), and len(chain) = ceil(size / cs), or size = 0
     with at most one cluster (the transient state truncate(0) keeps while the file is open);
   - every data cluster is cs bytes long; the data area is not larger than the FAT type allows.
   Nothing is said about the bytes of clusters outside the chain, nor about the bytes of the
   last cluster beyond the size. *)
Record Inv (s : dstate) : Prop := {
  inv_wf : st_wf P cs (limit_of (dat s)) (fs s);
  inv_uni : uniform cs (dat s);
  inv_lim : limit_of (dat s) <= max_valid P + 1 }.

Definition content (s : dstate) : list N :=
  firstn (N.to_nat (size (fs s))) (raw (dat s) (map (fs s))).
Definition abs (s : dstate) : afile := {| abytes := content s; apos := pos (fs s) |}.

Lemma limit_of_len d d' : length d' = length d -> limit_of d' = limit_of d.
Proof. unfold limit_of, len. intros ->. reflexivity. Qed.

Lemma in_area_cl_ok d t c : in_area P (limit_of d) t c -> cl_ok d c = true.
Proof. unfold in_area, limit_of, cl_ok. intros (H1 & H2 & _). lia. Qed.
Lemma chain_cl_ok d t m : chain_wf P (limit_of d) t m -> forall c, In c m -> cl_ok d c = true.
Proof. intros W c Hc. apply (in_area_cl_ok d t). apply (cw_range _ _ _ _ W c Hc). Qed.
Lemma free_cl_ok d t c : is_free P (limit_of d) t c -> cl_ok d c = true.
Proof. unfold is_free, limit_of, cl_ok. intros (H1 & H2 & _). lia. Qed.
Lemma cl_ok_ge2 d c : cl_ok d c = true -> 2 <= c.
Proof. intros H. apply cl_ok_spec in H. tauto. Qed.
Lemma cl_ok_len d d' c : length d' = length d -> cl_ok d' c = cl_ok d c.
Proof. unfold cl_ok, len. intros ->. reflexivity. Qed.

Lemma size_le_chain (m : list N) sz : size_ok cs m sz -> sz <= len m * cs.
Proof.
  intros [[H1 H2]|[H1 H2]]; [|lia]. rewrite H2. apply cdiv_le_mul. exact CS.
Qed.
Lemma chain_lt_size (m : list N) sz : size_ok cs m sz -> len m * cs <= sz + cs.
Proof.
  intros [[H1 H2]|[H1 H2]].
  - destruct (cdiv_bounds sz cs CS H1) as [[B1 B2] B3]. rewrite H2.
    set (q := cdiv sz cs) in *. replace q with (q - 1 + 1) by lia. rewrite N.mul_add_distr_r. lia.
  - subst sz. unfold len. destruct m as [|a [|b m]]; cbn [length] in *; lia.
Qed.

Lemma raw_len d t m :
  uniform cs d -> chain_wf P (limit_of d) t m -> length (raw d m) = N.to_nat (len m * cs).
Proof.
  intros U W. rewrite (raw_length cs) by (auto; apply (chain_cl_ok d t m W)). unfold len. lia.
Qed.
Lemma content_length s : Inv s -> length (content s) = N.to_nat (size (fs s)).
Proof.
  intros [[W S] U L]. unfold content. rewrite firstn_length, (raw_len _ (tbl (fs s))) by assumption.
  pose proof (size_le_chain _ _ S). lia.
Qed.

(* ----------------------------------------------------------- the zeroed tail *)
Lemma nth_error_last (m : list N) : m <> [] -> nth_error m (length m - 1) = Some (last m 0).
Proof.
  intros H. rewrite (split_last m 0 H) at 1 2. rewrite app_length. cbn [length].
  replace (length (removelast m) + 1 - 1)%nat with (length (removelast m)) by lia.
  rewrite nth_error_app2 by lia. rewrite Nat.sub_diag. reflexivity.
Qed.

Lemma zero_tail_spec s newsize :
  Inv s ->
  exists d1, zero_tail cs (fs s) (dat s) newsize = Ok d1 /\
    uniform cs d1 /\ length d1 = length (dat s) /\ (newsize <= size (fs s) -> d1 = dat s) /\
    (forall c, 2 <= c -> ~ In c (map (fs s)) -> getc d1 c = getc (dat s) c) /\
    (forall m', (forall x, In x m' -> 2 <= x) -> (forall x, In x m' -> ~ In x (map (fs s))) ->
                raw d1 m' = raw (dat s) m') /\
    raw d1 (map (fs s)) =
      if size (fs s) <? newsize
      then content s ++ zeros (N.to_nat (len (map (fs s)) * cs - size (fs s)))
      else raw (dat s) (map (fs s)).
Proof.
  intros [[W S] U L]. unfold zero_tail, content. set (st := fs s) in *. set (d := dat s) in *.
  pose proof (size_le_chain _ _ S) as S1. pose proof (chain_lt_size _ _ S) as S2.
  pose proof (raw_len d _ _ U W) as RL.
  destruct (N.ltb_spec (size st) newsize) as [G|G].
  2:{ exists d. repeat split; auto. }
  set (tail := (Z.of_N (len (map st) * cs) - Z.of_N (size st))%Z).
  assert (Etail : tail = (Z.of_N (len (map st) * cs) - Z.of_N (size st))%Z) by reflexivity. clearbody tail.
  destruct (Z.eqb_spec tail 0) as [T0|T0].
  { exists d. repeat split; auto.
    replace (len (map st) * cs - size st) with 0 by lia. cbn [N.to_nat zeros repeat].
    rewrite app_nil_r. symmetry. apply firstn_all2. lia. }
  assert (Hne : map st <> []).
  { intros E. rewrite E in *. unfold len in *. cbn [length] in *. lia. }
  destruct (map st) as [|a0 m0] eqn:Em; [congruence|]. rewrite <- Em in *.
  set (c := last (map st) 0).
  assert (Hc : In c (map st)) by (apply last_In; exact Hne).
  assert (Ok_c : cl_ok d c = true) by (apply (chain_cl_ok d _ _ W c Hc)).
  rewrite Ok_c. cbn [negb].
  replace ((0 <? tail)%Z && (tail <=? Z.of_N cs)%Z) with true by lia.
  set (t := Z.to_nat tail).
  assert (Ht : (t = N.to_nat (len (map st) * cs - size st))%nat) by (unfold t; lia).
  eexists. split; [reflexivity|].
  assert (Lz : length (splice (getc d c) (N.to_nat cs - t) (zeros t)) = N.to_nat cs).
  { rewrite splice_length; rewrite ?zeros_length, (getc_length cs d c U Ok_c); lia. }
  split; [apply uniform_setc; assumption|]. split; [apply setc_length|]. split; [intros X; lia|].
  split; [|split].
  - intros x Hx Hn. apply getc_setc_other; auto. + apply (cl_ok_ge2 d). exact Ok_c. + intros ->. exact (Hn Hc).
  - intros m' H2 Hd. apply raw_setc_notin; auto.
    + intros X. exact (Hd c X Hc). + apply (cl_ok_ge2 d). exact Ok_c.
  - rewrite (raw_write_at cs d (map st) (length (map st) - 1) c).
    + unfold splice. rewrite zeros_length.
      replace ((length (map st) - 1) * N.to_nat cs + (N.to_nat cs - t))%nat with (N.to_nat (size st))
        by (unfold len in *; destruct (map st); [congruence|cbn [length] in *; nia]).
      rewrite skipn_all2 by (unfold len in *; lia). rewrite app_nil_r, <- Ht. reflexivity.
    + exact U.
    + apply W.
    + apply nth_error_last. exact Hne.
    + apply (chain_cl_ok d _ _ W).
    + rewrite zeros_length. lia.
Qed.

(* ------------------------------------------------------------------ truncate *)
Lemma firstn_app_zeros (l : list N) a n z :
  length l = a -> (a <= n <= a + z)%nat -> firstn n (l ++ zeros z) = l ++ zeros (n - a).
Proof.
  intros Hl H. rewrite firstn_app, firstn_all2 by lia. rewrite Hl. f_equal. apply firstn_zeros. lia.
Qed.

Definition tr_arg (sz : option N) (s : dstate) : N :=
  match sz with Some n => n | None => pos (fs s) end.

Lemma abs_truncate_eq s sz (c' : list N) p' :
  Inv s -> p' = pos (fs s) ->
  c' = firstn (N.to_nat (tr_arg sz s)) (content s) ++ zeros (N.to_nat (tr_arg sz s) - N.to_nat (size (fs s))) ->
  spec_step cs (abs s) (OTruncate sz) = ({| abytes := c'; apos := p' |}, Ok (ONum (tr_arg sz s))).
Proof.
  intros I -> ->. unfold spec_step, a_truncate, abs, tr_arg. cbn [abytes apos].
  rewrite (content_length s I). destruct sz; reflexivity.
Qed.

Theorem truncate_refines sz s :
  Inv s ->
  let r := truncate_d P cs true sz s in
  Inv (fst r) /\ length (dat (fst r)) = length (dat s) /\ pos (fs (fst r)) = pos (fs s) /\
  match snd r with
  | Ok o => spec_step cs (abs s) (OTruncate sz) = (abs (fst r), Ok o) /\ size (fs (fst r)) = tr_arg sz s
  | Err e => e = OSError_ENOSPC /\ abs (fst r) = abs s /\ fs (fst r) = fs s /\ size (fs s) < tr_arg sz s
  end.
Proof.
  intros I. pose proof I as [[W S] U L]. cbv zeta. unfold truncate_d.
  fold (tr_arg sz s). set (newsize := tr_arg sz s).
  pose proof (content_length s I) as CL.
  destruct (N.eqb_spec newsize (size (fs s))) as [E|E].
  { cbn [fst snd]. split; [exact I|]. split; [reflexivity|]. split; [reflexivity|]. split; [|congruence].
    destruct s as [st d]. apply abs_truncate_eq; [exact I|reflexivity|]. fold newsize. cbn [fs] in *.
    rewrite E, Nat.sub_diag. cbn [zeros repeat]. rewrite app_nil_r. symmetry. apply firstn_all2. lia. }
  destruct (zero_tail_spec s newsize I) as (d1 & Z1 & U1 & L1 & Same & F1 & F1' & R1). rewrite Z1.
  set (st := fs s) in *. set (d := dat s) in *. set (lim := limit_of d) in *.
  pose proof (size_le_chain _ _ S) as S1.
  pose proof (raw_len d _ _ U W) as RL.
  destruct (truncate P cs lim newsize st) as [st'|e] eqn:T.
  2:{ (* ENOSPC: only the tail beyond the size was zeroed *)
    cbn [fst snd fs dat]. apply (truncate_enospc P cs lim CS L) in T. destruct T as (-> & _ & T1 & _).
    assert (G : size st < newsize).
    { unfold trunc_clusters in T1. destruct S as [[Q1 Q2]|[Q1 Q2]]; [|lia].
      destruct (N.lt_ge_cases (size st) newsize) as [X|X]; [exact X|].
      pose proof (cdiv_mono newsize (size st) cs CS X). lia. }
    split; [|split; [exact L1|split; [reflexivity|split; [reflexivity|split; [|split; [reflexivity|exact G]]]]]].
    - constructor; cbn [fs dat]; [|exact U1|rewrite (limit_of_len d d1 L1); exact L].
      rewrite (limit_of_len d d1 L1). exact (conj W S).
    - unfold abs, content. cbn [fs dat]. f_equal. fold st. rewrite R1.
      replace (size st <? newsize) with true by lia. fold d. unfold content. fold st d.
      rewrite firstn_app, firstn_firstn, firstn_length. rewrite RL.
      replace (N.to_nat (size st) - Nat.min (N.to_nat (size st)) (N.to_nat (len (map st) * cs)))%nat with 0%nat by lia.
      cbn [firstn]. rewrite app_nil_r, Nat.min_id. reflexivity. }
  destruct (truncate_wf P POK cs lim CS L newsize st st' (conj W S) T) as ([W' S'] & Sz & Ps & Lt & Cases).
  cbn [fst snd fs dat set_size norm].
  set (new := skipn (length (map st)) (map st')).
  assert (Inv' : forall dd, uniform cs dd -> length dd = length d ->
            Inv {| fs := {| sfat := sfat st'; map := map st'; size := newsize; pos := pos st' |}; dat := dd |}).
  { intros dd Ud Ld. constructor; cbn [fs dat]; [|exact Ud|rewrite (limit_of_len d dd Ld); exact L].
    rewrite (limit_of_len d dd Ld). unfold st_wf, file_wf, tbl. cbn [sfat map size]. rewrite <- Sz.
    exact (conj W' S'). }
  split; [apply Inv'; [apply fill_zero_uniform; exact U1|rewrite fill_zero_length; exact L1]|].
  split; [rewrite fill_zero_length; exact L1|]. split; [exact Ps|]. split; [|reflexivity].
  apply abs_truncate_eq; [exact I|cbn [fs pos]; exact Ps|]. fold newsize. cbn [fs dat map size]. fold st d.
  unfold content at 1. cbn [fs dat map size].
  pose proof (size_le_chain _ _ S') as S1'. rewrite Sz in S1'.
  destruct Cases as [(nw & Hne & Em & _ & X)|[(rem & Hne & Em & Hne' & _)|(Em & _)]].
  - (* grow *)
    destruct X as (_ & nw' & Em' & Nn & Fr & _).
    assert (nw' = nw) by (rewrite Em in Em'; apply app_inv_head in Em'; congruence). subst nw'.
    assert (Hnew : new = nw).
    { unfold new. rewrite Em, skipn_app, skipn_all, Nat.sub_diag. reflexivity. }
    assert (G : size st < newsize).
    { destruct (N.lt_ge_cases (size st) newsize) as [X|X]; [exact X|exfalso].
      assert (Ln : (length (map st') = length (map st) + length nw)%nat) by (rewrite Em, app_length; reflexivity).
      assert (0 < length nw)%nat by (destruct nw; [congruence|cbn; lia]).
      destruct S as [[Q1 Q2]|[Q1 Q2]]; [|lia].
      pose proof (cdiv_bounds (size st) cs CS Q1) as [_ B].
      destruct S' as [[Q3 Q4]|[Q3 Q4]]; [|unfold len in *; lia].
      pose proof (cdiv_mono newsize (size st) cs CS X). rewrite Sz in Q4. unfold len in *. lia. }
    assert (OkN : forall x, In x nw -> cl_ok d1 x = true).
    { intros x Hx. rewrite (cl_ok_len d d1 x L1). apply (free_cl_ok d (tbl st)). apply Fr. exact Hx. }
    assert (Dis : forall x, In x (map st) -> ~ In x nw).
    { intros x Hm Hx. apply (chain_nonzero P lim (tbl st) (map st) POK W x Hm). apply (Fr x Hx). }
    rewrite Hnew, Em, raw_app.
    rewrite (raw_fill_zero_new cs d1 nw OkN).
    rewrite (raw_fill_zero_other cs d1 nw (map st) Dis).
    2:{ intros x Hx. apply (cl_ok_ge2 d). apply (chain_cl_ok d _ _ W x Hx). }
    2:{ intros x Hx. apply (cl_ok_ge2 d1). apply OkN. exact Hx. }
    rewrite R1. replace (size st <? newsize) with true by lia.
    rewrite <- app_assoc, <- zeros_app.
    rewrite (firstn_all2 (n := N.to_nat newsize) (content s)) by lia.
    rewrite (firstn_app_zeros _ (N.to_nat (size st))); [reflexivity|exact CL|].
    rewrite Em in S1'. unfold len in *. rewrite app_length in S1'. lia.
  - (* shrink *)
    assert (Ln : (length (map st) = length (map st') + length rem)%nat) by (rewrite Em, app_length; reflexivity).
    assert (0 < length rem)%nat by (destruct rem; [congruence|cbn; lia]).
    assert (G : newsize < size st).
    { destruct (N.lt_ge_cases newsize (size st)) as [X|X]; [exact X|exfalso].
      assert (0 < length (map st'))%nat by (destruct (map st'); [congruence|cbn; lia]).
      destruct S as [[Q1 Q2]|[Q1 Q2]]; [|lia].
      destruct S' as [[Q3 Q4]|[Q3 Q4]]; [|lia]. rewrite Sz in Q4.
      pose proof (cdiv_mono (size st) newsize cs CS X). unfold len in *. lia. }
    assert (Hnew : new = []) by (unfold new; apply skipn_all2; lia).
    rewrite Hnew. cbn [fill_zero fold_left]. rewrite (Same ltac:(lia)). fold d.
    replace (N.to_nat newsize - N.to_nat (size st))%nat with 0%nat by lia.
    cbn [zeros repeat]. rewrite app_nil_r. unfold content. fold st d.
    rewrite firstn_firstn. replace (Nat.min (N.to_nat newsize) (N.to_nat (size st))) with (N.to_nat newsize) by lia.
    rewrite Em, raw_app, firstn_app.
    assert (RL' : length (raw d (map st')) = (length (map st') * N.to_nat cs)%nat).
    { apply raw_length; [exact U|]. intros x Hx. apply (chain_cl_ok d _ _ W). rewrite Em. apply in_or_app. left. exact Hx. }
    rewrite RL'. unfold len in S1'.
    replace (N.to_nat newsize - length (map st') * N.to_nat cs)%nat with 0%nat by lia.
    cbn [firstn]. rewrite app_nil_r. reflexivity.
  - (* same number of clusters *)
    assert (Hnew : new = []) by (unfold new; rewrite Em; apply skipn_all).
    rewrite Hnew, Em. cbn [fill_zero fold_left]. rewrite R1.
    destruct (N.ltb_spec (size st) newsize) as [G|G].
    + rewrite (firstn_all2 (n := N.to_nat newsize) (content s)) by lia.
      rewrite (firstn_app_zeros _ (N.to_nat (size st))); [reflexivity|exact CL|].
      rewrite Em in S1'. lia.
    + rewrite (Same ltac:(lia)) in *. fold d.
      replace (N.to_nat newsize - N.to_nat (size st))%nat with 0%nat by lia.
      cbn [zeros repeat]. rewrite app_nil_r. unfold content. fold st d.
      rewrite firstn_firstn. f_equal. lia.
Qed.

(* frame of truncate: data bytes only change inside the resulting chain; FAT entries only at
   clusters of the old or the new chain; the chain only grows when the size does *)
Theorem truncate_frame sz s :
  Inv s ->
  let s' := fst (truncate_d P cs true sz s) in
  (forall c, 2 <= c -> ~ In c (map (fs s')) -> getc (dat s') c = getc (dat s) c) /\
  (forall c, ~ In c (map (fs s)) -> ~ In c (map (fs s')) -> get (tbl (fs s')) c = get (tbl (fs s)) c) /\
  length (tbl (fs s')) = length (tbl (fs s)) /\
  (size (fs s) <= tr_arg sz s -> exists new, map (fs s') = map (fs s) ++ new).
Proof.
  intros I. pose proof I as [[W S] U L]. cbv zeta. unfold truncate_d.
  fold (tr_arg sz s). set (newsize := tr_arg sz s).
  destruct (N.eqb_spec newsize (size (fs s))) as [E|E].
  { cbn [fst]. repeat split; auto. intros _. exists []. symmetry. apply app_nil_r. }
  destruct (zero_tail_spec s newsize I) as (d1 & Z1 & U1 & L1 & Same & F1 & F1' & R1). rewrite Z1.
  set (st := fs s) in *. set (d := dat s) in *. set (lim := limit_of d) in *.
  destruct (truncate P cs lim newsize st) as [st'|e] eqn:T.
  2:{ cbn [fst fs dat]. repeat split; auto. intros _. exists []. symmetry. apply app_nil_r. }
  destruct (truncate_wf P POK cs lim CS L newsize st st' (conj W S) T) as ([W' S'] & Sz & Ps & Lt & Cases).
  cbn [fst fs dat set_size norm map]. unfold tbl. cbn [sfat]. fold (tbl st') (tbl st).
  set (new := skipn (length (map st)) (map st')).
  destruct Cases as [(nw & Hne & Em & _ & X)|[(rem & Hne & Em & Hne' & _ & Fr)|(Em & Ef)]].
  - destruct X as (_ & nw' & Em' & Nn & Fr & Fo).
    assert (nw' = nw) by (rewrite Em in Em'; apply app_inv_head in Em'; congruence). subst nw'.
    assert (Hnew : new = nw).
    { unfold new. rewrite Em, skipn_app, skipn_all, Nat.sub_diag. reflexivity. }
    rewrite Hnew. split; [|split; [|split; [exact Lt|intros _; exists nw; exact Em]]].
    + intros c Hc Hn. rewrite getc_fill_zero_other.
      * apply F1; [exact Hc|]. intros X. apply Hn. rewrite Em. apply in_or_app. left. exact X.
      * intros X. apply Hn. rewrite Em. apply in_or_app. right. exact X.
      * exact Hc.
      * intros x Hx. apply (cl_ok_ge2 d). apply (free_cl_ok d (tbl st)). apply Fr. exact Hx.
    + intros c H1 H2. apply Fo.
      * intros X. apply H1. apply last_opt_In. exact X.
      * intros X. apply H2. rewrite Em. apply in_or_app. right. exact X.
  - assert (Ln : (length (map st) = length (map st') + length rem)%nat) by (rewrite Em, app_length; reflexivity).
    assert (Hnew : new = []) by (unfold new; apply skipn_all2; lia).
    rewrite Hnew. cbn [fill_zero fold_left].
    assert (G : newsize < size st).
    { destruct (N.lt_ge_cases newsize (size st)) as [X|X]; [exact X|exfalso].
      assert (0 < length rem)%nat by (destruct rem; [congruence|cbn; lia]).
      assert (0 < length (map st'))%nat by (destruct (map st'); [congruence|cbn; lia]).
      destruct S as [[Q1 Q2]|[Q1 Q2]]; [|lia].
      destruct S' as [[Q3 Q4]|[Q3 Q4]]; [|lia]. rewrite Sz in Q4.
      pose proof (cdiv_mono (size st) newsize cs CS X). unfold len in *. lia. }
    rewrite (Same ltac:(lia)). split; [auto|]. split; [|split; [exact Lt|lia]].
    intros c H1 _. apply Fr. exact H1.
  - assert (Hnew : new = []) by (unfold new; rewrite Em; apply skipn_all).
    rewrite Hnew, Em. cbn [fill_zero fold_left]. unfold tbl. rewrite Ef.
    repeat split; auto. intros _. exists []. symmetry. apply app_nil_r.
Qed.
End Data.
