From Coq Require Import List NArith String Bool.
From NV Require Import Lib.Val Lib.Res Lib.Wire FatNames.Model FatDir.Model.
Import ListNotations.
Open Scope string_scope.

(* every command takes  [capacity; slots_per_cluster; region; upper table; args...]
   capacity: () = growable, (n) = fixed root of n slots; region: the bytes of all records;
   upper table: packed (code point, its upper case) for the characters that change, sorted *)
Fixpoint chunks (fuel : nat) (b : list N) : list (list N) :=
  match fuel with
  | O => []
  | S f => match b with [] => [] | _ => firstn 32 b :: chunks f (skipn 32 b) end
  end.
Definition get_dir (a : val) : dir :=
  let b := getS (arg 2 a) in
  {| d_recs := chunks (List.length b) b;
     d_cap := match getOpt (arg 0 a) with Some n => Some (getN n) | None => None end |}.
Definition get_spc (a : val) : N := getN (arg 1 a).
(* the table is sorted by code point: the search stops at the first larger key *)
Fixpoint up1 (tab : list (N * list N)) (c : N) : list N :=
  match tab with
  | [] => [c]
  | (k, v) :: r => if N.eqb k c then v else if N.ltb c k then [c] else up1 r c
  end.
(* the table travels as one byte string: per entry the code point (3 bytes, big endian), the
   number k of code points of its upper case (1 byte), then those (3 bytes each) *)
Fixpoint parse_chars (k : nat) (b : list N) : list N :=
  match k with
  | O => []
  | S k' => match b with
            | c2 :: c1 :: c0 :: r => (c2 * 65536 + c1 * 256 + c0) :: parse_chars k' r
            | _ => []
            end
  end.
Fixpoint parse_tab (fuel : nat) (b : list N) : list (N * list N) :=
  match fuel with
  | O => []
  | S f => match b with
           | c2 :: c1 :: c0 :: n :: r =>
             let k := N.to_nat n in
             (c2 * 65536 + c1 * 256 + c0, parse_chars k r) :: parse_tab f (skipn (3 * k) r)
           | _ => []
           end
  end.
Definition get_upper (a : val) : list N -> list N :=
  let b := getS (arg 3 a) in
  let tab := parse_tab (List.length b) b in
  flat_map (up1 tab).

Definition VDir (d : dir) : val := VS (List.concat (d_recs d)).
Definition VOut (x : dir * option exn) : val :=
  VL [VDir (fst x); match snd x with None => VL [] | Some e => VL [VStr (exn_name e)] end].

Definition dispatch (cmd : string) (a : val) : val :=
  let d := get_dir a in
  let up := get_upper a in
  if String.eqb cmd "listing" then VRes VLs (listing d)
  else if String.eqb cmd "items" then
    VRes (fun l => VL (map (fun x => VL [VS (fst x); VS (snd x)]) l)) (items d)
  else if String.eqb cmd "groups" then       (* (offset, number of long-name records) *)
    VL (map (fun g => VL [VN (g_off g); VNat (List.length (g_lfns g))]) (groups (d_recs d)))
  else if String.eqb cmd "getitem" then VRes VS (getitem up d (getS (arg 4 a)))
  else if String.eqb cmd "contains" then VRes VB (contains up d (getS (arg 4 a)))
  else if String.eqb cmd "setitem" then
    VOut (setitem up (get_spc a) d (getS (arg 4 a)) (getS (arg 5 a)))
  else if String.eqb cmd "delitem" then VOut (delitem up (get_spc a) d (getS (arg 4 a)))
  else if String.eqb cmd "clean" then
    let c := clean d in VL [VDir (fst c); VN (snd c)]
  else if String.eqb cmd "upper" then VS (up (getS (arg 4 a)))
  else if String.eqb cmd "lower" then VS (map lower_b (getS (arg 4 a)))
  else VErr "unknown command".
