(* __delitem__ and the update-in-place branch of __setitem__. *)
From Coq Require Import List NArith ZArith Bool Lia Arith ZifyN ZifyNat ZifyBool.
From NV Require Import Lib.Res Gen.Fat FatNames.Model FatNames.ProofsValid
     FatDir.Model FatDir.ProofsBase FatDir.ProofsView FatDir.ProofsClean.
Import ListNotations.
Open Scope N_scope.

(* ---------------- what find returns ---------------- *)
Lemma find_some upper kl ks gs g x :
  find upper kl ks gs = Ok (Some (g, x)) ->
  exists G1 G2, gs = G1 ++ g :: G2 /\ find upper kl ks G1 = Ok None /\
                split_g g = Ok x /\ hit upper kl ks x = true.
Proof.
  induction gs as [|h gs IH]; [discriminate|]. cbn [find].
  destruct (split_g h) as [y|e] eqn:S; cbn [bind]; [|discriminate].
  destruct (beq (upper (fst (fst y))) kl || beq (snd (fst y)) ks) eqn:B.
  - intros H. inversion H; subst. exists [], gs. cbn [find]. repeat split; assumption.
  - intros H. destruct (IH H) as (G1 & G2 & -> & F & S' & Hh).
    exists (h :: G1), G2. cbn [app find]. rewrite S. cbn [bind]. rewrite B. repeat split; assumption.
Qed.
Lemma find_none_lookup upper kl ks gs :
  find upper kl ks gs = Ok None -> lookup_v upper kl ks (map split_g gs) = Ok None.
Proof. intros H. pose proof (find_lookup upper kl ks gs) as L. rewrite H in L. exact L. Qed.

Lemma split_entry lfns e x : split lfns e = Ok x -> snd x = e.
Proof.
  unfold split. destruct (match join lfns _ 0%Z [] with None => Ok None | Some b => decode_lfn b end); cbn [bind]; [|discriminate].
  destruct (rstrip_c 32 (fld de_filename e)); [discriminate|]. intros H. inversion H. reflexivity.
Qed.

(* ---------------- records written by __delitem__ ---------------- *)
Lemma mark_lfn_fields r : length r = 32%nat ->
  attr_of (mark_lfn r) = attr_of r /\ b0 (mark_lfn r) = 229 /\ length (mark_lfn r) = 32%nat.
Proof. intros H. explode r H 32. repeat split; reflexivity. Qed.
Lemma mark_short_fields r : length r = 32%nat ->
  attr_of (mark_short r) = attr_of r /\ b0 (mark_short r) = 229 /\ length (mark_short r) = 32%nat /\
  skipn 1 (mark_short r) = skipn 1 r.
Proof. intros H. explode r H 32. repeat split; reflexivity. Qed.

Lemma filter_length_le {A} (f : A -> bool) l : (length (filter f l) <= length l)%nat.
Proof. induction l as [|a l IH]; cbn; [lia|]. destruct (f a); cbn; lia. Qed.

Lemma skipn_S_app {A} (a : list A) b c : c = skipn (S (length a)) (a ++ b :: c).
Proof. induction a as [|x a IH]; cbn [length app skipn]; [reflexivity|exact IH]. Qed.

(* C04 delitem_spec *)
Theorem delitem_spec upper spc d name :
  wf_recs (d_recs d) -> cap_ok d ->
  match find upper (upper name) (upper name) (groups (d_recs d)) with
  | Err e => delitem upper spc d name = (d, Some e)
  | Ok None => delitem upper spc d name = (d, Some KeyError)          (* nothing written *)
  | Ok (Some (g, x)) =>
    exists d' G1 G2 pre seg post,
      delitem upper spc d name = (d', None) /\ d_cap d' = d_cap d /\
      groups (d_recs d) = G1 ++ g :: G2 /\
      groups (d_recs d') = G1 ++ G2 /\                       (* the other groups: same offsets, same records *)
      d_recs d = pre ++ seg ++ post /\
      d_recs d' = pre ++ (map mark_lfn (g_lfns g) ++ [mark_short (g_short g)]) ++ post /\
      length seg = S (length (g_lfns g)) /\ g_off g + 1 = N.of_nat (length pre + length seg) /\
      (forall k, hit upper (upper k) (upper k) x = false -> getitem upper d' k = getitem upper d k) /\
      (forall names, listing d = Ok names ->
         listing d' = Ok (firstn (length G1) names ++ skipn (S (length G1)) names))
  end.
Proof.
  intros W C. unfold delitem.
  destruct (find upper (upper name) (upper name) (groups (d_recs d))) as [[[g x]|]|e] eqn:F; try reflexivity.
  destruct (find_some _ _ _ _ _ _ F) as (G1 & G2 & EG & F1 & Sx & Hx).
  destruct (groups_decomp_top _ _ _ _ EG) as (A & R & B & ER & FR & EL & EO & KS & HA & HB).
  set (lf := g_lfns g) in *. set (S0 := g_short g) in *.
  pose proof (filter_length_le live R) as LR. rewrite <- EL in LR.
  set (n1 := (length R - length lf)%nat).
  assert (ER' : R = firstn n1 R ++ skipn n1 R) by (symmetry; apply firstn_skipn).
  set (pre := A ++ firstn n1 R). set (seg := skipn n1 R ++ [S0]).
  set (news := map mark_lfn lf ++ [mark_short S0]).
  assert (Ed : d_recs d = pre ++ seg ++ B).
  { subst pre seg. rewrite ER, <- !app_assoc. rewrite ER' at 1. rewrite <- !app_assoc. reflexivity. }
  assert (Lseg : length seg = length news).
  { subst seg news. rewrite !app_length, skipn_length, map_length. cbn [length]. subst n1. lia. }
  assert (Lpre : length pre = (length A + n1)%nat).
  { subst pre. rewrite app_length, firstn_length. subst n1. lia. }
  assert (Epk : del_pokes g = offsets_down (N.of_nat (length pre + length news) - 1) (rev news)).
  { unfold del_pokes. fold lf S0. subst news. rewrite rev_app_distr, map_rev. cbn [rev app].
    f_equal. rewrite EO, Lpre, app_length, map_length. cbn [length]. subst n1. lia. }
  rewrite Epk, (pokes_segment spc d pre seg B news C Ed Lseg).
  eexists _, G1, G2, pre, seg, B. cbn [d_recs d_cap].
  assert (Wall : wf_recs (A ++ R ++ S0 :: B)) by (rewrite <- ER; exact W).
  assert (WR : wf_recs R).
  { unfold wf_recs in *. apply Forall_app in Wall as [_ Wall]. apply Forall_app in Wall as [Wall _]. exact Wall. }
  assert (WS : length S0 = 32%nat).
  { unfold wf_recs in *. apply Forall_app in Wall as [_ Wall]. apply Forall_app in Wall as [_ Wall]. inversion Wall; assumption. }
  assert (Gnew : groups (pre ++ news ++ B) = G1 ++ G2).
  { subst pre news. rewrite <- !app_assoc. rewrite HA.
    rewrite (app_assoc (firstn n1 R)). rewrite groups_lfn_block.
    - cbn [app]. destruct (mark_short_fields S0 WS) as (Ma & Mb & _).
      destruct (kind_live_facts _ KS) as (Hl & _).
      rewrite groups_from_cons, kind_deleted_short; [| unfold is_lfn in *; rewrite Ma; exact Hl | exact Mb].
      f_equal. rewrite <- HB. f_equal. rewrite EO, app_length, firstn_length, map_length. subst n1. lia.
    - apply Forall_app. split.
      + apply Forall_forall. intros r Hr. rewrite Forall_forall in FR. apply FR. eapply firstn_in; exact Hr.
      + apply Forall_forall. intros r Hr. apply in_map_iff in Hr as (r0 & <- & Hr0).
        subst lf. rewrite EL in Hr0. apply filter_In in Hr0 as [Hr0 _].
        unfold wf_recs in WR. rewrite Forall_forall in FR, WR. destruct (mark_lfn_fields r0 (WR _ Hr0)) as (Ma & _).
        unfold is_lfn in *. rewrite Ma. apply FR, Hr0. }
  repeat split; try assumption; try reflexivity.
  - subst seg. rewrite app_length, skipn_length. cbn [length]. subst n1. lia.
  - rewrite EO, Lpre, Lseg. subst news. rewrite app_length, map_length. cbn [length]. subst n1. lia.
  - intros k Hk. rewrite !getitem_view. unfold view. cbn [d_recs]. rewrite Gnew, EG, !map_app. cbn [map].
    rewrite !lookup_v_app. cbn [lookup_v]. rewrite Sx, Hk. reflexivity.
  - intros names. rewrite !listing_view. unfold view. cbn [d_recs]. rewrite Gnew, EG, !map_app. cbn [map].
    rewrite !sequence_app. cbn [sequence]. rewrite Sx.
    destruct (sequence (map split_g G1)) as [xs|e] eqn:S1; [|discriminate].
    destruct (sequence (map split_g G2)) as [ys|e] eqn:S2; [|discriminate].
    intros H. inversion H; subst. f_equal. rewrite !map_app. cbn [map].
    assert (L1 : length G1 = length (map (fun x0 : triple => fst (fst x0)) xs)).
    { rewrite map_length. clear -S1. revert xs S1. induction G1 as [|h G1 IH]; intros xs S1; cbn in S1.
      - inversion S1. reflexivity.
      - destruct (split_g h); [|discriminate].
        destruct (sequence (map split_g G1)) eqn:Q; [|discriminate]. inversion S1. cbn. f_equal. apply IH. reflexivity. }
    rewrite L1, firstn_app, firstn_all, Nat.sub_diag. cbn [firstn]. rewrite app_nil_r. f_equal.
    apply skipn_S_app.
Qed.

(* ---------------- the update-in-place branch ---------------- *)
Lemma short_record_facts e s8 x3 a :
  length e = 32%nat -> length s8 = 8%nat -> length x3 = 3%nat ->
  let r := short_record e s8 x3 a in
  fld de_filename r = s8 /\ fld de_ext r = x3 /\ byte_at de_attr2 r = a /\
  attr_of r = attr_of e /\ b0 r = nth 0 s8 0 /\ length r = 32%nat /\
  skipn 13 r = skipn 13 e /\ firstn 11 r = s8 ++ x3.
Proof.
  intros He Hs Hx. explode e He 32. explode s8 Hs 8. explode x3 Hx 3.
  cbv zeta. repeat split; reflexivity.
Qed.
Lemma fld_name_facts r : length r = 32%nat ->
  length (fld de_filename r) = 8%nat /\ length (fld de_ext r) = 3%nat /\ nth 0 (fld de_filename r) 0 = b0 r.
Proof. intros H. explode r H 32. repeat split; reflexivity. Qed.

Lemma split_same_name lfns e e' :
  fld de_filename e' = fld de_filename e -> fld de_ext e' = fld de_ext e ->
  byte_at de_attr2 e' = byte_at de_attr2 e ->
  split lfns e' = match split lfns e with Ok x => Ok (fst x, e') | Err err => Err err end.
Proof.
  intros H1 H2 H3. unfold split. rewrite H1, H2, H3.
  destruct (match join lfns _ 0%Z [] with None => Ok None | Some b => decode_lfn b end); cbn [bind]; [|reflexivity].
  destruct (rstrip_c 32 (fld de_filename e)); reflexivity.
Qed.

Definition entry_ok (e : rec) : Prop :=
  length e = 32%nat /\ attr_of e <> 15 /\ N.land (attr_of e) 8 = 0.

(* C04/C11 setitem_existing_updates_in_place: the key may be any case variant of the long
   name, or the 8.3 name (that is what [find] tests) *)
Theorem setitem_existing_updates_in_place upper spc d name entry g x :
  wf_recs (d_recs d) -> cap_ok d -> entry_ok entry ->
  find upper (upper name) (upper name) (groups (d_recs d)) = Ok (Some (g, x)) ->
  let old := g_short g in
  let new := short_record entry (fld de_filename old) (fld de_ext old) (byte_at de_attr2 old) in
  exists G1 G2 A B,
    setitem upper spc d name entry =
      ({| d_recs := set_nth (N.to_nat (g_off g)) new (d_recs d); d_cap := d_cap d |}, None) /\
    (* only that one record changes *)
    d_recs d = A ++ old :: B /\ set_nth (N.to_nat (g_off g)) new (d_recs d) = A ++ new :: B /\
    g_off g = N.of_nat (length A) /\
    (* the name fields of the slot are kept, the rest comes from the new value *)
    fld de_filename new = fld de_filename old /\ fld de_ext new = fld de_ext old /\
    byte_at de_attr2 new = byte_at de_attr2 old /\ attr_of new = attr_of entry /\
    skipn 13 new = skipn 13 entry /\ length new = 32%nat /\
    (* same groups, same names; the group now carries the new record *)
    groups (d_recs d) = G1 ++ g :: G2 /\
    groups (A ++ new :: B) = G1 ++ (g_off g, g_lfns g, new) :: G2 /\
    split_g (g_off g, g_lfns g, new) = Ok (fst x, new) /\
    view (A ++ new :: B) = map split_g G1 ++ Ok (fst x, new) :: map split_g G2.
Proof.
  intros W C (Le & Ha & Hl) F. cbv zeta.
  destruct (find_some _ _ _ _ _ _ F) as (G1 & G2 & EG & F1 & Sx & Hx).
  destruct (groups_decomp_top _ _ _ _ EG) as (A & R & B & ER & FR & EL & EO & KS & HA & HB).
  set (old := g_short g) in *.
  assert (Wall : wf_recs (A ++ R ++ old :: B)) by (rewrite <- ER; exact W).
  assert (WS : length old = 32%nat).
  { unfold wf_recs in *. apply Forall_app in Wall as [_ Wall]. apply Forall_app in Wall as [_ Wall]. inversion Wall; assumption. }
  destruct (fld_name_facts old WS) as (L8 & L3 & N0).
  destruct (short_record_facts entry _ _ (byte_at de_attr2 old) Le L8 L3) as (S1 & S2 & S3 & S4 & S5 & S6 & S7 & _).
  set (new := short_record entry (fld de_filename old) (fld de_ext old) (byte_at de_attr2 old)) in *.
  assert (Eo : snd x = old) by (apply (split_entry _ _ _ Sx)).
  assert (Er : d_recs d = (A ++ R) ++ old :: B) by (rewrite ER, <- app_assoc; reflexivity).
  assert (Eoff : N.to_nat (g_off g) = length (A ++ R)) by (rewrite EO, app_length; lia).
  assert (Kn : kind_of new = KLive).
  { destruct (kind_live_facts _ KS) as (_ & K0 & K229 & _).
    apply kind_live_intro.
    - unfold is_lfn. rewrite S4. apply N.eqb_neq, Ha.
    - rewrite S5, N0. exact K0.
    - rewrite S5, N0. exact K229.
    - rewrite S4. exact Hl. }
  assert (Gn : groups ((A ++ R) ++ new :: B) = G1 ++ (g_off g, g_lfns g, new) :: G2).
  { rewrite <- app_assoc, HA, groups_lfn_block by exact FR. cbn [app].
    rewrite groups_from_cons, Kn, EL, <- HB, EO.
    replace (N.of_nat (length A) + N.of_nat (length R)) with (N.of_nat (length A + length R)) by lia.
    reflexivity. }
  assert (Sn : split_g (g_off g, g_lfns g, new) = Ok (fst x, new)).
  { unfold split_g in *. cbn [g_lfns g_short fst snd]. fold old in Sx.
    rewrite (split_same_name _ old new S1 S2 S3), Sx. reflexivity. }
  exists G1, G2, (A ++ R), B. repeat split; try assumption.
  - unfold setitem. rewrite F. cbn [pokes]. rewrite Eo. fold new.
    rewrite poke_in_range; [reflexivity|exact C|].
    rewrite Er. unfold rlen. rewrite app_length. cbn [length]. lia.
  - rewrite Eoff, Er. apply set_nth_app.
  - rewrite EO, app_length. reflexivity.
  - unfold view. rewrite Gn, map_app. cbn [map]. rewrite Sn. reflexivity.
Qed.
