(* What readers see: every read operation is a function of the list of split results of the
   groups ([view]); writes as list surgery ([set_nth], [pokes]). *)
From Coq Require Import List NArith ZArith Bool Lia Arith ZifyN ZifyNat ZifyBool.
From NV Require Import Lib.Res Gen.Fat FatNames.Model FatDir.Model FatDir.ProofsBase.
Import ListNotations.
Open Scope N_scope.

Definition triple := (list N * list N * rec)%type.
Definition view (recs : list rec) : list (res triple) := map split_g (groups recs).

Section Upper.
Variable upper : list N -> list N.

(* look-up over split results *)
Definition hit (kl ks : list N) (x : triple) : bool :=
  beq (upper (fst (fst x))) kl || beq (snd (fst x)) ks.
Fixpoint lookup_v (kl ks : list N) (v : list (res triple)) : res (option triple) :=
  match v with
  | [] => Ok None
  | Ok x :: rest => if hit kl ks x then Ok (Some x) else lookup_v kl ks rest
  | Err e :: _ => Err e
  end.
Fixpoint sequence (v : list (res triple)) : res (list triple) :=
  match v with
  | [] => Ok []
  | Ok x :: rest => match sequence rest with Ok xs => Ok (x :: xs) | Err e => Err e end
  | Err e :: _ => Err e
  end.

Lemma find_lookup kl ks gs :
  match find upper kl ks gs with
  | Ok (Some (_, x)) => lookup_v kl ks (map split_g gs) = Ok (Some x)
  | Ok None => lookup_v kl ks (map split_g gs) = Ok None
  | Err e => lookup_v kl ks (map split_g gs) = Err e
  end.
Proof.
  induction gs as [|g gs IH]; [reflexivity|].
  cbn [find map lookup_v]. destruct (split_g g) as [x|e]; cbn [bind]; [|reflexivity].
  unfold hit. destruct (beq (upper (fst (fst x))) kl || beq (snd (fst x)) ks); [reflexivity|exact IH].
Qed.

Lemma getitem_view d name :
  getitem upper d name =
  match lookup_v (upper name) (upper name) (view (d_recs d)) with
  | Ok (Some x) => Ok (snd x) | Ok None => Err KeyError | Err e => Err e
  end.
Proof.
  unfold getitem, view. pose proof (find_lookup (upper name) (upper name) (groups (d_recs d))) as H.
  destruct (find upper (upper name) (upper name) (groups (d_recs d))) as [[[g x]|]|e]; cbn [bind]; rewrite H; reflexivity.
Qed.
Lemma contains_view d name :
  contains upper d name =
  match lookup_v (upper name) name (view (d_recs d)) with
  | Ok (Some _) => Ok true | Ok None => Ok false | Err e => Err e
  end.
Proof.
  unfold contains, view. pose proof (find_lookup (upper name) name (groups (d_recs d))) as H.
  destruct (find upper (upper name) name (groups (d_recs d))) as [[[g x]|]|e]; cbn [bind]; rewrite H; reflexivity.
Qed.
Lemma split_all_sequence gs : split_all gs = sequence (map split_g gs).
Proof.
  induction gs as [|g gs IH]; [reflexivity|]. cbn [split_all map sequence].
  destruct (split_g g) as [x|e]; cbn [bind]; [|reflexivity]. rewrite IH.
  destruct (sequence (map split_g gs)); reflexivity.
Qed.
Lemma listing_view d :
  listing d = match sequence (view (d_recs d)) with
              | Ok xs => Ok (map (fun x => fst (fst x)) xs) | Err e => Err e end.
Proof. unfold listing, view. rewrite split_all_sequence. destruct (sequence _); reflexivity. Qed.
Lemma items_view d :
  items d = match sequence (view (d_recs d)) with
            | Ok xs => Ok (map (fun x => (fst (fst x), snd x)) xs) | Err e => Err e end.
Proof. unfold items, view. rewrite split_all_sequence. destruct (sequence _); reflexivity. Qed.

(* same view, same answers *)
Theorem same_view d d' : view (d_recs d') = view (d_recs d) ->
  (forall name, getitem upper d' name = getitem upper d name) /\
  (forall name, contains upper d' name = contains upper d name) /\
  listing d' = listing d /\ items d' = items d.
Proof.
  intros H. repeat split; intros; rewrite ?getitem_view, ?contains_view, ?listing_view, ?items_view, H; reflexivity.
Qed.

Lemma lookup_v_app kl ks v1 v2 :
  lookup_v kl ks (v1 ++ v2) =
  match lookup_v kl ks v1 with Ok None => lookup_v kl ks v2 | other => other end.
Proof.
  induction v1 as [|[x|e] v1 IH]; cbn [app lookup_v]; [reflexivity| |reflexivity].
  destruct (hit kl ks x); [reflexivity|exact IH].
Qed.
Lemma sequence_app v1 v2 :
  sequence (v1 ++ v2) =
  match sequence v1 with
  | Ok xs => match sequence v2 with Ok ys => Ok (xs ++ ys) | Err e => Err e end
  | Err e => Err e
  end.
Proof.
  induction v1 as [|[x|e] v1 IH]; cbn [app sequence]; [destruct (sequence v2); reflexivity| |reflexivity].
  rewrite IH. destruct (sequence v1); [|reflexivity]. destruct (sequence v2); reflexivity.
Qed.
End Upper.

(* ---------------- writes ---------------- *)
Definition cap_ok (d : dir) : Prop :=
  match d_cap d with Some n => n = rlen (d_recs d) | None => True end.

Lemma set_nth_length i x l : length (set_nth i x l) = length l.
Proof.
  unfold set_nth. destruct (Nat.ltb_spec i (length l)); [|reflexivity].
  rewrite app_length, firstn_length. cbn [length]. rewrite skipn_length. lia.
Qed.
Lemma set_nth_app A x y B : set_nth (length A) y (A ++ x :: B) = A ++ y :: B.
Proof.
  unfold set_nth. rewrite app_length. cbn [length].
  destruct (Nat.ltb_spec (length A) (length A + S (length B))); [|lia].
  rewrite firstn_app, firstn_all, Nat.sub_diag. cbn [firstn]. rewrite app_nil_r.
  f_equal. replace (S (length A)) with (length (A ++ [x])) by (rewrite app_length; cbn; lia).
  replace (A ++ x :: B) with ((A ++ [x]) ++ B) by (rewrite <- app_assoc; reflexivity).
  rewrite skipn_app, skipn_all, Nat.sub_diag. reflexivity.
Qed.

Lemma poke_in_range spc d i r : cap_ok d -> i < rlen (d_recs d) ->
  poke spc d i r = Ok {| d_recs := set_nth (N.to_nat i) r (d_recs d); d_cap := d_cap d |}.
Proof.
  intros C H. unfold poke, cap_ok in *. destruct (d_cap d) as [n|].
  - subst n. destruct (N.leb_spec (rlen (d_recs d)) i); [lia|reflexivity].
  - unfold grown. destruct (N.ltb_spec i (rlen (d_recs d))); [reflexivity|lia].
Qed.
Lemma cap_ok_set d i r : cap_ok d ->
  cap_ok {| d_recs := set_nth i r (d_recs d); d_cap := d_cap d |}.
Proof.
  unfold cap_ok. cbn [d_cap d_recs]. destruct (d_cap d); [|auto].
  intros ->. unfold rlen. rewrite set_nth_length. reflexivity.
Qed.

(* ---------------- writing a segment back to front ---------------- *)
Lemma pokes_app spc d p1 p2 :
  pokes spc d (p1 ++ p2) =
  match pokes spc d p1 with (d1, None) => pokes spc d1 p2 | other => other end.
Proof.
  revert d. induction p1 as [|[i r] p1 IH]; intros d; [reflexivity|].
  cbn [app pokes]. destruct (poke spc d i r); [apply IH|reflexivity].
Qed.

Lemma offsets_down_app i l1 l2 :
  offsets_down i (l1 ++ l2) = offsets_down i l1 ++ offsets_down (i - N.of_nat (length l1)) l2.
Proof.
  revert i. induction l1 as [|r l1 IH]; intros i; cbn [app offsets_down length].
  - rewrite N.sub_0_r. reflexivity.
  - rewrite IH. replace (i - 1 - N.of_nat (length l1)) with (i - N.of_nat (S (length l1))) by lia. reflexivity.
Qed.

Lemma offsets_down_length l : forall i, length (offsets_down i l) = length l.
Proof. induction l as [|a l IH]; intros i; [reflexivity|]. cbn [offsets_down length]. rewrite IH. reflexivity. Qed.

(* the region is pre ++ seg ++ post; the records [news] replace [seg], last one first.  After
   any number of those writes the region is pre ++ (untouched part of seg) ++ (written part
   of news) ++ post. *)
Lemma pokes_segment_prefix spc news : forall d pre seg post k,
  cap_ok d -> d_recs d = pre ++ seg ++ post -> length seg = length news -> (k <= length news)%nat ->
  pokes spc d (firstn k (offsets_down (N.of_nat (length pre + length news) - 1) (rev news))) =
  ({| d_recs := pre ++ firstn (length news - k) seg ++ skipn (length news - k) news ++ post;
      d_cap := d_cap d |}, None).
Proof.
  induction news as [|x news IH] using rev_ind; intros d pre seg post k C E L K.
  - cbn [length] in *. destruct seg; [|discriminate]. replace k with 0%nat by lia.
    cbn in E |- *. rewrite <- E. destruct d; reflexivity.
  - rewrite app_length in *. cbn [length] in *.
    destruct (exists_last (l := seg)) as (seg' & y & ->); [intros ->; cbn in L; lia|].
    rewrite app_length in L. cbn [length] in L.
    rewrite rev_app_distr. cbn [rev app offsets_down].
    destruct k as [|k].
    { cbn [firstn pokes]. replace (length news + 1 - 0)%nat with (length (seg' ++ [y])) by (rewrite app_length; cbn; lia).
      rewrite firstn_all. replace (length (seg' ++ [y])) with (length (news ++ [x])) by (rewrite !app_length; cbn; lia).
      rewrite skipn_all. cbn [app]. rewrite <- E. destruct d; reflexivity. }
    cbn [firstn pokes].
    assert (Ei : N.of_nat (length pre + (length news + 1)) - 1 = N.of_nat (length (pre ++ seg'))).
    { rewrite app_length. lia. }
    rewrite Ei.
    assert (Er : d_recs d = (pre ++ seg') ++ y :: post).
    { rewrite E, <- !app_assoc. reflexivity. }
    rewrite poke_in_range; [|exact C|rewrite Er; unfold rlen; rewrite !app_length; cbn [length]; lia].
    rewrite Nat2N.id, Er, set_nth_app.
    replace (N.of_nat (length (pre ++ seg')) - 1) with (N.of_nat (length pre + length news) - 1)
      by (rewrite app_length; lia).
    rewrite (IH _ pre seg' (x :: post) k).
    + cbn [d_cap]. f_equal. f_equal. f_equal.
      replace (length news + 1 - S k)%nat with (length news - k)%nat by lia.
      rewrite firstn_app. replace (length news - k - length seg')%nat with 0%nat by lia.
      cbn [firstn]. rewrite app_nil_r. f_equal.
      rewrite skipn_app. replace (length news - k - length news)%nat with 0%nat by lia.
      cbn [skipn]. rewrite <- app_assoc. reflexivity.
    + pose proof (cap_ok_set d (length (pre ++ seg')) x C) as C'. rewrite Er, set_nth_app in C'. exact C'.
    + cbn [d_recs]. rewrite <- app_assoc. reflexivity.
    + lia.
    + lia.
Qed.

Lemma pokes_segment spc d pre seg post news :
  cap_ok d -> d_recs d = pre ++ seg ++ post -> length seg = length news ->
  pokes spc d (offsets_down (N.of_nat (length pre + length news) - 1) (rev news)) =
  ({| d_recs := pre ++ news ++ post; d_cap := d_cap d |}, None).
Proof.
  intros C E L.
  pose proof (pokes_segment_prefix spc news d pre seg post (length news) C E L (le_n _)) as H.
  assert (Hl : length (offsets_down (N.of_nat (length pre + length news) - 1) (rev news)) = length news).
  { rewrite offsets_down_length. apply rev_length. }
  rewrite firstn_all2, Nat.sub_diag in H by (rewrite Hl; lia). exact H.
Qed.
