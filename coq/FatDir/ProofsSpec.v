(* nobodd's directory reader (_group_entries + _split_entries) against the specification
   reader Fat.Spec.decode_dir, on directories whose long-name runs are valid or absent. *)
From Coq Require Import List NArith ZArith Bool Lia Arith ZifyN ZifyNat ZifyBool.
From NV Require Import Lib.Res Gen.Fat Fat.Spec FatNames.Model FatNames.ProofsAlias FatNames.ProofsValid FatNames.ProofsLfn
     FatDir.Model FatDir.ProofsBase FatDir.ProofsView FatDir.ProofsClean FatDir.ProofsOps FatDir.ProofsAppend
     FatDir.ProofsNames.
Import ListNotations.
Open Scope N_scope.

(* ---------------- strict UTF-16 decoding and the specification's lenient one ---------------- *)
Definition hi_sur (h : N) : bool := (55296 <=? h) && (h <? 56320).
Definition lo_sur (l : N) : bool := (56320 <=? l) && (l <? 57344).

Definition astral (h l : N) : N := 65536 + (h - 55296) * 1024 + (l - 56320).
Lemma utf16_dec_cons h r :
  utf16_dec (h :: r) =
  if hi_sur h then
    match r with
    | l :: r' => if lo_sur l
                 then match utf16_dec r' with Ok t => Ok (astral h l :: t) | Err e => Err e end
                 else Err UnicodeDecodeError
    | [] => Err UnicodeDecodeError
    end
  else if lo_sur h then Err UnicodeDecodeError
  else match utf16_dec r with Ok t => Ok (h :: t) | Err e => Err e end.
Proof. reflexivity. Qed.
Lemma join_surrogates_cons h r :
  Spec.join_surrogates (h :: r) =
  if hi_sur h then
    match r with
    | l :: r' => if lo_sur l then astral h l :: Spec.join_surrogates r' else h :: Spec.join_surrogates r
    | [] => [h]
    end
  else h :: Spec.join_surrogates r.
Proof. reflexivity. Qed.

Lemma utf16_dec_props : forall n w x, (length w <= n)%nat -> utf16_dec w = Ok x ->
  Spec.join_surrogates w = x /\
  (forall v, utf16_dec (w ++ v) = match utf16_dec v with Ok y => Ok (x ++ y) | Err e => Err e end) /\
  (~ In 0 w -> ~ In 0 x).
Proof.
  induction n as [|n IH]; intros w x L H.
  { destruct w; [|cbn in L; lia]. cbn in H. inversion H; subst. repeat split; auto.
    intros v. cbn. destruct (utf16_dec v); reflexivity. }
  destruct w as [|h r].
  { cbn in H. inversion H; subst. repeat split; auto. intros v. cbn. destruct (utf16_dec v); reflexivity. }
  rewrite utf16_dec_cons in H. rewrite join_surrogates_cons.
  destruct (hi_sur h) eqn:Hh.
  - destruct r as [|l r']; [discriminate|].
    destruct (lo_sur l) eqn:Hl; [|discriminate].
    destruct (utf16_dec r') as [t|e] eqn:R; [|discriminate]. injection H as <-.
    destruct (IH r' t) as (I1 & I2 & I3); [cbn in L; lia|exact R|].
    rewrite I1. repeat split.
    + intros v. rewrite <- !app_comm_cons, utf16_dec_cons, Hh, Hl, I2. destruct (utf16_dec v); reflexivity.
    + intros Hn [E|Hin]; [unfold astral in E; lia|].
      apply I3; [|exact Hin]. intros X. apply Hn. right. right. exact X.
  - destruct (lo_sur h) eqn:Hh2; [discriminate|].
    destruct (utf16_dec r) as [t|e] eqn:R; [|discriminate]. injection H as <-.
    destruct (IH r t) as (I1 & I2 & I3); [cbn in L; lia|exact R|].
    rewrite I1. repeat split.
    + intros v. rewrite <- app_comm_cons, utf16_dec_cons, Hh, Hh2, I2. destruct (utf16_dec v); reflexivity.
    + intros Hn [E|Hin]; [apply Hn; left; exact E|].
      apply I3; [|exact Hin]. intros X. apply Hn. right. exact X.
Qed.

Lemma take_until0_split u :
  u = Spec.take_until0 u ++ skipn (length (Spec.take_until0 u)) u /\
  ~ In 0 (Spec.take_until0 u) /\
  (skipn (length (Spec.take_until0 u)) u = [] \/ exists t, skipn (length (Spec.take_until0 u)) u = 0 :: t).
Proof.
  induction u as [|c u (I1 & I2 & I3)]; [cbn; auto|].
  cbn [Spec.take_until0]. destruct (N.eqb_spec c 0) as [->|Hc].
  - cbn. repeat split; auto. right. eexists. reflexivity.
  - cbn [length skipn app]. repeat split.
    + f_equal. exact I1.
    + intros [E|Hin]; [congruence|auto].
    + exact I3.
Qed.

Lemma forallb_repeat c l : forallb (N.eqb c) l = true -> l = repeat c (length l).
Proof.
  induction l as [|x l IH]; [reflexivity|]. cbn [forallb length repeat]. intros H.
  apply andb_true_iff in H as [Hx Hl]. apply N.eqb_eq in Hx. subst x. f_equal. apply IH, Hl.
Qed.
Lemma rstrip_id c x : last_is x c = false -> rstrip_c c x = x.
Proof.
  unfold last_is. induction x as [|y x IH]; [reflexivity|]. cbn [rev rstrip_c]. intros H.
  destruct x as [|z x'].
  - cbn in *. rewrite H. reflexivity.
  - rewrite IH.
    + reflexivity.
    + cbn [rev] in *. destruct (rev x' ++ [z]) eqn:Q; [destruct (rev x'); discriminate|]. cbn [app] in H. exact H.
Qed.
Lemma last_is_no_in x c : ~ In c x -> last_is x c = false.
Proof.
  unfold last_is. intros H. destruct (rev x) as [|y t] eqn:Q; [reflexivity|].
  destruct (N.eqb_spec y c) as [->|]; [|reflexivity].
  exfalso. apply H. apply in_rev. rewrite Q. left. reflexivity.
Qed.

(* the text _split_entries makes of decoded units: rstrip U+FFFF, then one NUL *)
Definition payload_ok (u : list N) : bool :=
  let w := Spec.take_until0 u in
  match utf16_dec w with
  | Ok x => negb (last_is x 65535) &&
            match skipn (length w) u with [] => true | _ :: pad => forallb (N.eqb 65535) pad end
  | Err _ => false
  end.

Lemma payload_decodes b : payload_ok (units b) = true ->
  decode_lfn b =
  Ok (match Spec.join_surrogates (Spec.take_until0 (units b)) with [] => None | x => Some x end).
Proof.
  unfold payload_ok, decode_lfn. set (u := units b). cbv zeta.
  destruct (take_until0_split u) as (E & N0 & Rest). set (w := Spec.take_until0 u) in *.
  destruct (utf16_dec w) as [x|e] eqn:D; [|discriminate]. intros H.
  apply andb_true_iff in H as [Hx Hp]. apply negb_true_iff in Hx.
  destruct (utf16_dec_props (length w) w x (le_n _) D) as (J & A & Z0). specialize (Z0 N0).
  rewrite J. rewrite E at 1. rewrite A.
  destruct Rest as [R|(t & R)]; rewrite R in *.
  - cbn [utf16_dec bind]. rewrite app_nil_r, (rstrip_id _ _ Hx), (last_is_no_in _ _ Z0). destruct x; reflexivity.
  - apply forallb_repeat in Hp. rewrite utf16_dec_plain; cbn [bind].
    2:{ constructor; [left; reflexivity|]. rewrite Hp. apply Forall_forall. intros y Hy. apply repeat_spec in Hy. auto. }
    rewrite Hp, (rstrip_app_keep 65535 x 0 _) by discriminate.
    unfold last_is. rewrite rev_app_distr. cbn [rev app N.eqb]. rewrite removelast_last. destruct x; reflexivity.
Qed.

(* ---------------- valid long-name runs ---------------- *)
Definition terminal_ok (t : rec) : bool :=
  negb (N.land (b0 t) 64 =? 0) && negb (N.land (b0 t) 31 =? 0) && (lfn_fc t =? 0).
Definition cont_ok (nx ck : N) (r : rec) : bool :=
  negb (nx =? 0) && (b0 r =? nx) && (N.land (b0 r) 64 =? 0) && (lfn_fc r =? 0) && (lfn_ck r =? ck).
(* ordinal expected after the continuation records [rest] *)
Fixpoint tail_state (nx ck : N) (rest : list rec) : option N :=
  match rest with
  | [] => Some nx
  | r :: t => if cont_ok nx ck r then tail_state (nx - 1) ck t else None
  end.
(* a run that starts with a terminal record and continues with descending ordinals, all with
   first_cluster 0 and one checksum: (next expected ordinal, checksum) *)
Definition run_state (run : list rec) : option (N * N) :=
  match run with
  | [] => None
  | t :: rest =>
    if terminal_ok t
    then match tail_state (N.land (b0 t) 31 - 1) (lfn_ck t) rest with
         | Some nx => Some (nx, lfn_ck t)
         | None => None
         end
    else None
  end.

Lemma tail_state_app nx ck a b :
  tail_state nx ck (a ++ b) = match tail_state nx ck a with Some n => tail_state n ck b | None => None end.
Proof.
  revert nx. induction a as [|r a IH]; intros nx; [reflexivity|]. cbn [app tail_state].
  destruct (cont_ok nx ck r); [apply IH|reflexivity].
Qed.
Lemma run_state_snoc run r : run <> [] ->
  run_state (run ++ [r]) =
  match run_state run with
  | Some (nx, ck) => if cont_ok nx ck r then Some (nx - 1, ck) else None
  | None => None
  end.
Proof.
  destruct run as [|t rest]; [congruence|]. intros _. cbn [app run_state].
  destruct (terminal_ok t); [|reflexivity]. rewrite tail_state_app.
  destruct (tail_state _ _ rest) as [nx|]; [|reflexivity]. cbn [tail_state].
  destruct (cont_ok nx (lfn_ck t) r); reflexivity.
Qed.

Lemma join_tail_state ck rest : forall nx acc,
  tail_state nx ck rest = Some 0 -> 1 <= nx ->
  join rest ck (Z.of_N nx) acc = Some (concat (map names26 (rev rest)) ++ acc).
Proof.
  induction rest as [|r t IH]; intros nx acc H Hnx; [cbn in H; inversion H; lia|].
  cbn [tail_state] in H. destruct (cont_ok nx ck r) eqn:Cq; [|discriminate].
  unfold cont_ok in Cq. apply andb_true_iff in Cq as [Cq Hck]. apply andb_true_iff in Cq as [Cq Hfc].
  apply andb_true_iff in Cq as [Cq H64]. apply andb_true_iff in Cq as [Cq Hb].
  apply N.eqb_eq in Hck, Hfc, H64, Hb.
  cbn [join]. rewrite Hfc, Hck, H64, Hb, !N.eqb_refl. cbn [negb].
  replace (Z.of_N nx =? Z.of_N nx)%Z with true by (symmetry; apply Z.eqb_eq; reflexivity). cbn [negb].
  cbn [rev]. rewrite map_app, concat_app. cbn [map concat]. rewrite app_nil_r, <- app_assoc.
  destruct (N.eqb_spec nx 1) as [->|N1].
  - cbn [Z.of_N Z.eqb Pos.eqb]. destruct t as [|r' t']; [reflexivity|].
    cbn [tail_state] in H. unfold cont_ok in H. cbn [N.sub N.eqb negb andb] in H. discriminate.
  - replace (Z.of_N nx =? 1)%Z with false by (symmetry; apply Z.eqb_neq; lia).
    replace (Z.of_N nx - 1)%Z with (Z.of_N (nx - 1)) by lia.
    rewrite (IH (nx - 1)) by (assumption || lia). reflexivity.
Qed.

Lemma join_run_state run ck : run_state run = Some (0, ck) ->
  join run ck 0%Z [] = Some (concat (map names26 (rev run))).
Proof.
  destruct run as [|t rest]; [discriminate|]. cbn [run_state].
  destruct (terminal_ok t) eqn:T; [|discriminate].
  destruct (tail_state _ _ rest) as [nx|] eqn:TS; [|discriminate]. intros H. inversion H; subst nx ck. clear H.
  unfold terminal_ok in T. apply andb_true_iff in T as [T H0]. apply andb_true_iff in T as [T H].
  apply negb_true_iff in T, H. apply N.eqb_eq in H0.
  cbn [join]. rewrite H0, !N.eqb_refl, T, H. cbn [negb].
  cbn [rev]. rewrite map_app, concat_app. cbn [map concat]. rewrite app_nil_r.
  apply N.eqb_neq in H.
  destruct (N.eqb_spec (N.land (b0 t) 31) 1) as [E1|N1].
  - rewrite E1 in *. destruct rest as [|r' t']; [reflexivity|].
    cbn [tail_state] in TS. unfold cont_ok in TS. cbn [N.sub N.eqb negb andb] in TS. discriminate.
  - replace (Z.of_N (N.land (b0 t) 31) - 1)%Z with (Z.of_N (N.land (b0 t) 31 - 1)) by lia.
    apply join_tail_state; [exact TS|lia].
Qed.

(* the state of the specification reader after the records of a run *)
Definition pend_of (run : list rec) : option Spec.lrun :=
  match run_state run with
  | Some (nx, ck) => Some {| Spec.l_next := nx; Spec.l_sum := ck;
                             Spec.l_units := concat (map Spec.lfn_units (rev run));
                             Spec.l_count := N.of_nat (length run) |}
  | None => None
  end.

Lemma kind_acc_spec r : kind_of r = KAcc ->
  nth 0 r 0 <> 229 /\ Spec.rfield de_attr r = 15.
Proof.
  intros K. destruct (kind_acc_facts r K) as [Hl Hv]. unfold live in Hv. apply negb_true_iff, N.eqb_neq in Hv.
  unfold is_lfn in Hl. apply N.eqb_eq in Hl. rewrite attr_of_rfield in Hl. auto.
Qed.

Lemma dd_acc r rest idx orph run :
  kind_of r = KAcc -> run_state (run ++ [r]) <> None ->
  Spec.decode_dir (r :: rest) idx (pend_of run) orph = Spec.decode_dir rest (idx + 1) (pend_of (run ++ [r])) orph.
Proof.
  intros K Hs. destruct (kind_acc_spec r K) as [H229 Hattr].
  destruct run as [|t tl].
  - cbn [app] in *. unfold pend_of. cbn [run_state] in *.
    destruct (terminal_ok r) eqn:T; [|congruence]. cbn [tail_state].
    unfold terminal_ok in T. apply andb_true_iff in T as [T H0]. apply andb_true_iff in T as [T H].
    apply negb_true_iff, N.eqb_neq in T. apply negb_true_iff, N.eqb_neq in H. apply N.eqb_eq in H0.
    etransitivity; [apply (dd_first r rest idx orph (b0 r)); try assumption; try reflexivity|].
    + intros E. change (nth 0 r 0) with (b0 r) in E. rewrite E in T. apply T. reflexivity.
    + rewrite <- lfn_fc_rfield. exact H0.
    + cbn [length rev app map concat]. rewrite app_nil_r, N.add_0_r, lfn_ck_rfield. reflexivity.
  - assert (Hne : t :: tl <> []) by discriminate.
    rewrite (run_state_snoc _ r Hne) in Hs. unfold pend_of at 2. rewrite (run_state_snoc _ r Hne).
    unfold pend_of. destruct (run_state (t :: tl)) as [[nx ck]|]; [|congruence].
    destruct (cont_ok nx ck r) eqn:Cq; [|congruence].
    unfold cont_ok in Cq. apply andb_true_iff in Cq as [Cq H]. apply andb_true_iff in Cq as [Cq H0].
    apply andb_true_iff in Cq as [Cq H1]. apply andb_true_iff in Cq as [Cq H2].
    apply negb_true_iff, N.eqb_neq in Cq. apply N.eqb_eq in H, H0, H1, H2.
    etransitivity; [apply (dd_cont r rest idx orph _ (b0 r)); try reflexivity;
                    cbn [Spec.l_next Spec.l_sum Spec.l_units Spec.l_count]; try assumption|].
    + unfold b0 in *. rewrite H2. exact Cq.
    + rewrite <- lfn_fc_rfield. exact H0.
    + rewrite <- lfn_ck_rfield. exact H.
    + cbn [Spec.l_next Spec.l_sum Spec.l_units Spec.l_count]. do 2 f_equal.
      f_equal; [rewrite rev_app_distr; reflexivity|rewrite app_length; cbn [length]; lia].
Qed.

(* ---------------- the specification reader, one record at a time ---------------- *)
Lemma dd_none r rest idx orph :
  Spec.decode_dir (r :: rest) idx None orph =
  match kind_of r with
  | KEnd => ([], orph + 0)
  | KSkip | KReset => Spec.decode_dir rest (idx + 1) None (orph + 0)
  | KLive =>
    let x := Spec.decode_dir rest (idx + 1) None (orph + 0) in
    ({| Spec.d_name := fst (Spec.short_name r); Spec.d_sfn := snd (Spec.short_name r); Spec.d_raw := r;
        Spec.d_nlfn := 0; Spec.d_off := idx |} :: fst x, snd x)
  | KAcc => Spec.decode_dir (r :: rest) idx None orph
  end.
Proof.
  unfold kind_of, is_lfn. rewrite attr_of_rfield. unfold b0. cbn [Spec.decode_dir].
  destruct (N.eqb_spec (Spec.rfield de_attr r) 15) as [A|A].
  - destruct (N.eqb_spec (nth 0 r 0) 229) as [B|B]; [|reflexivity].
    rewrite B. reflexivity.
  - destruct (nth 0 r 0 =? 0); [reflexivity|].
    destruct (nth 0 r 0 =? 229); destruct (N.land (Spec.rfield de_attr r) 8 =? 0); reflexivity.
Qed.

(* ---------------- directories nobodd and the specification read alike ---------------- *)
Definition short_ok (r : rec) : bool :=
  match Spec.rstrip_sp (Spec.rbytes de_filename r) with [] => false | _ => true end.
Definition units_of_run (run : list rec) : list N := concat (map Spec.lfn_units (rev run)).

(* [run]: the live long-name records met since the last short record.  Deleted records,
   labels and the terminator only where no run is pending; every long-name record extends a
   valid run; a short record closes a complete run with its checksum and a standard payload
   (valid UTF-16 up to the first NUL, not ending in U+FFFF, then NUL and U+FFFF padding), or
   has no run; its 8.3 name is not blank *)
Fixpoint clean_from (recs run : list rec) : bool :=
  match recs with
  | [] => match run with [] => true | _ => false end
  | r :: rest =>
    match kind_of r with
    | KSkip | KReset => match run with [] => clean_from rest [] | _ => false end
    | KEnd => match run with [] => true | _ => false end
    | KAcc => match run_state (run ++ [r]) with Some _ => clean_from rest (run ++ [r]) | None => false end
    | KLive =>
      short_ok r &&
      match run with
      | [] => true
      | _ => match run_state run with
             | Some (nx, ck) => (nx =? 0) && (ck =? Spec.checksum (firstn 11 r)) && payload_ok (units_of_run run)
             | None => false
             end
      end && clean_from rest []
    end
  end.
Definition clean_dir (recs : list rec) : bool := clean_from recs [].

Definition triple_of (e : Spec.dentry) : triple := (Spec.d_name e, Spec.d_sfn e, Spec.d_raw e).
Definition place_of (e : Spec.dentry) : N * N := (Spec.d_off e, Spec.d_nlfn e).
Definition place_g (g : group) : N * N := (g_off g, N.of_nat (length (g_lfns g))).

Lemma units_of_run_bytes run : wf_recs run ->
  units (concat (map names26 (rev run))) = units_of_run run.
Proof.
  intros W. unfold units_of_run. rewrite units_eq.
  assert (F : Forall (fun c => length c = 26%nat) (map names26 (rev run))).
  { apply Forall_forall. intros c Hc. apply in_map_iff in Hc as (r & <- & Hr). apply in_rev in Hr.
    unfold wf_recs in W. rewrite Forall_forall in W. specialize (W r Hr). explode r W 32. reflexivity. }
  rewrite <- (units_concat _ F), map_map. reflexivity.
Qed.

Lemma split_short_only r : short_ok r = true ->
  split [] r = Ok (fst (Spec.short_name r), snd (Spec.short_name r), r).
Proof.
  unfold short_ok. intros H. rewrite split_spec_form. cbn [join bind].
  destruct (Spec.rstrip_sp (Spec.rbytes de_filename r)); [discriminate|reflexivity].
Qed.

Lemma firstn11 r : fld de_filename r ++ fld de_ext r = firstn 11 r.
Proof. unfold fld. cbn [de_filename de_ext fst snd]. change (N.to_nat 8) with 8%nat. change (N.to_nat 3) with 3%nat.
  change (N.to_nat 0) with 0%nat. cbn [skipn]. symmetry. apply (firstn_add r 8 3). Qed.

Lemma split_with_run run r ck : wf_recs run -> short_ok r = true ->
  run_state run = Some (0, ck) -> ck = Spec.checksum (firstn 11 r) -> payload_ok (units_of_run run) = true ->
  split run r =
  Ok (match Spec.join_surrogates (Spec.take_until0 (units_of_run run)) with
      | [] => fst (Spec.short_name r) | x => x end, snd (Spec.short_name r), r).
Proof.
  intros W So Rs Ck Po. rewrite split_spec_form, checksum_standard, firstn11, <- Ck.
  rewrite (join_run_state run ck Rs).
  rewrite <- (units_of_run_bytes run W) in Po |- *. rewrite (payload_decodes _ Po). cbn [bind].
  unfold short_ok in So. destruct (Spec.rstrip_sp (Spec.rbytes de_filename r)); [discriminate|].
  destruct (Spec.join_surrogates _); reflexivity.
Qed.

Lemma kind_reset_or_skip_none r rest idx orph :
  kind_of r = KSkip \/ kind_of r = KReset ->
  Spec.decode_dir (r :: rest) idx None orph = Spec.decode_dir rest (idx + 1) None (orph + 0).
Proof. intros [K|K]; rewrite dd_none, K; reflexivity. Qed.

Lemma decode_agrees_gen recs : forall run idx orph,
  wf_recs recs -> wf_recs run -> clean_from recs run = true ->
  let gs := groups_from recs idx run in
  let sp := Spec.decode_dir recs idx (pend_of run) orph in
  sequence (map split_g gs) = Ok (map triple_of (fst sp)) /\
  map place_g gs = map place_of (fst sp) /\ snd sp = orph.
Proof.
  induction recs as [|r rest IH]; intros run idx orph W Wr Cl; cbv zeta.
  { cbn [clean_from] in Cl. destruct run; [|discriminate]. cbn. repeat split. lia. }
  inversion W as [|? ? Lr Wrest]; subst. cbn [clean_from] in Cl. rewrite groups_from_cons.
  destruct (kind_of r) eqn:K.
  - (* deleted long-name record *)
    destruct run; [|discriminate]. change (pend_of []) with (@None Spec.lrun).
    rewrite (kind_reset_or_skip_none r rest idx orph (or_introl K)).
    destruct (IH [] (idx + 1) (orph + 0) Wrest Wr Cl) as (I1 & I2 & I3). cbv zeta in *.
    change (pend_of []) with (@None Spec.lrun) in *. rewrite I3. repeat split; try assumption. lia.
  - (* live long-name record: the run grows *)
    destruct (run_state (run ++ [r])) eqn:Rs; [|discriminate].
    rewrite (dd_acc r rest idx orph run K) by congruence.
    apply IH; try assumption. apply Forall_app. split; [exact Wr|constructor; [exact Lr|constructor]].
  - (* terminator *)
    destruct run; [|discriminate]. change (pend_of []) with (@None Spec.lrun). rewrite dd_none, K.
    cbn. repeat split. lia.
  - (* deleted entry, label *)
    destruct run; [|discriminate]. change (pend_of []) with (@None Spec.lrun).
    rewrite (kind_reset_or_skip_none r rest idx orph (or_intror K)).
    destruct (IH [] (idx + 1) (orph + 0) Wrest Wr Cl) as (I1 & I2 & I3). cbv zeta in *.
    change (pend_of []) with (@None Spec.lrun) in *. rewrite I3. repeat split; try assumption. lia.
  - (* live short record *)
    apply andb_true_iff in Cl as [Cl Crest]. apply andb_true_iff in Cl as [So Crun].
    destruct (kind_live_facts r K) as (Hl & H0 & H229 & H8).
    destruct run as [|t tl].
    + change (pend_of []) with (@None Spec.lrun). rewrite dd_none, K. cbv zeta.
      destruct (IH [] (idx + 1) (orph + 0) Wrest Wr Crest) as (I1 & I2 & I3). cbv zeta in *.
      change (pend_of []) with (@None Spec.lrun) in *.
      cbn [map sequence fst snd]. unfold split_g at 1. cbn [g_lfns g_short fst snd].
      rewrite (split_short_only r So), I1, I2, I3. repeat split. lia.
    + destruct (run_state (t :: tl)) as [[nx ck]|] eqn:Rs; [|discriminate].
      apply andb_true_iff in Crun as [Crun Po]. apply andb_true_iff in Crun as [Nx Ck].
      apply N.eqb_eq in Nx, Ck. subst nx.
      unfold pend_of. rewrite Rs.
      set (p := {| Spec.l_next := 0; Spec.l_sum := ck; Spec.l_units := concat (map Spec.lfn_units (rev (t :: tl)));
                   Spec.l_count := N.of_nat (length (t :: tl)) |}).
      assert (D : Spec.decode_dir (r :: rest) idx (Some p) orph =
                  let nm := Spec.join_surrogates (Spec.take_until0 (Spec.l_units p)) in
                  let x := Spec.decode_dir rest (idx + 1) None (orph + 0) in
                  ({| Spec.d_name := match nm with [] => fst (Spec.short_name r) | _ => nm end;
                      Spec.d_sfn := snd (Spec.short_name r); Spec.d_raw := r;
                      Spec.d_nlfn := Spec.l_count p; Spec.d_off := idx |} :: fst x, snd x)).
      { apply dd_short; try assumption; try reflexivity.
        - rewrite <- attr_of_rfield. unfold is_lfn in Hl. apply N.eqb_neq, Hl.
        - rewrite <- attr_of_rfield. exact H8. }
      rewrite D. cbv zeta.
      destruct (IH [] (idx + 1) (orph + 0) Wrest (Forall_nil _) Crest) as (I1 & I2 & I3). cbv zeta in *.
      change (pend_of []) with (@None Spec.lrun) in *.
      cbn [map sequence fst snd]. unfold split_g at 1. cbn [g_lfns g_short fst snd].
      rewrite (split_with_run (t :: tl) r ck Wr So Rs Ck Po), I1, I2, I3.
      repeat split; [|lia]. f_equal. f_equal. unfold triple_of. cbn [Spec.d_name Spec.d_sfn Spec.d_raw Spec.l_units p].
      unfold units_of_run. destruct (Spec.join_surrogates _); reflexivity.
Qed.

(* C03/C11 decode_agrees_with_spec: on a clean directory nobodd's reader yields exactly the
   (name, 8.3 name, raw entry) triples of Fat.Spec.decode_dir, at the same offsets with the
   same number of long-name records, and the specification counts no orphaned record *)
Theorem decode_agrees_with_spec recs :
  wf_recs recs -> clean_dir recs = true ->
  let sp := Spec.decode_dir recs 0 None 0 in
  split_all (groups recs) = Ok (map triple_of (fst sp)) /\
  map place_g (groups recs) = map place_of (fst sp) /\
  snd sp = 0 /\
  listing {| d_recs := recs; d_cap := None |} = Ok (map Spec.d_name (fst sp)).
Proof.
  intros W Cl. cbv zeta.
  destruct (decode_agrees_gen recs [] 0 0 W (Forall_nil _) Cl) as (A & B & Cc). cbv zeta in *.
  change (pend_of []) with (@None Spec.lrun) in *. fold (groups recs) in A, B.
  rewrite split_all_sequence. repeat split; try assumption.
  unfold listing. cbn [d_recs]. rewrite split_all_sequence, A. cbn [bind]. rewrite map_map. reflexivity.
Qed.
