(* Model of nobodd.fs.FatDirectory as a mutable mapping over a region of 32-byte records:
   _group_entries, _split_entries, _join_lfn_entries, __getitem__, __contains__,
   __setitem__ (update in place; append with the EOF record, written back to front; the
   clean-and-retry on ENOSPC), __delitem__, _clean_entries, __iter__/items;
   FatRoot._update_entry (fixed region: offset >= len => ENOSPC) and the growth of a
   sub-directory through FatFile.write (zero-filled clusters).
   The name machinery (_get_names, _get_unique_sfn, _prefix_entries) is FatNames.Model.
   NOT modelled, passed in: [upper] = str.upper() (CPython's); warnings.
   A record is a [list N] of 32 bytes; names are lists of code points.
   Executable definitions only; proofs are in Proofs*.v. *)
From Coq Require Import List NArith ZArith Bool.
From NV Require Import Lib.Res Gen.Fat FatNames.Model.
Import ListNotations.
Open Scope N_scope.

Definition rec := list N.
Definition zero_rec : rec := repeat 0 (N.to_nat de_sizeof).      (* DirectoryEntry.eof() *)

(* capacity: [Some n] = fixed root of n slots (FatRoot), [None] = growable (FatSubDirectory) *)
Record dir := { d_recs : list rec; d_cap : option N }.

(* ---------------- fields ---------------- *)
Definition byte_at (f : N * N) (r : rec) : N := nth (N.to_nat (fst f)) r 0.
Definition fld (f : N * N) (r : rec) : list N := firstn (N.to_nat (snd f)) (skipn (N.to_nat (fst f)) r).
Definition b0 (r : rec) : N := nth 0 r 0.                 (* filename[0] / sequence *)
Definition attr_of (r : rec) : N := byte_at de_attr r.
Definition is_lfn (r : rec) : bool := attr_of r =? 15.    (* typed LongFilenameEntry by _iter_entries *)
Definition lfn_fc (r : rec) : N :=
  nth (N.to_nat (fst lfn_first_cluster)) r 0 + 256 * nth (S (N.to_nat (fst lfn_first_cluster))) r 0.
Definition lfn_ck (r : rec) : N := byte_at lfn_checksum r.
Definition names26 (r : rec) : list N := fld lfn_name_1 r ++ fld lfn_name_2 r ++ fld lfn_name_3 r.
(* the "1x" pad byte after attr: struct packs it as NUL, so re-writing a long-name record
   clears it *)
Definition lfn_pad : N * N := (fst lfn_attr + 1, 1).
Definition repack (r : rec) : rec := if is_lfn r then put lfn_pad [0] r else r.

(* ---------------- _group_entries ---------------- *)
(* (index of the short record, long-name records collected for it, the short record) *)
Definition group := (N * list rec * rec)%type.
Definition g_off (g : group) : N := fst (fst g).
Definition g_lfns (g : group) : list rec := snd (fst g).
Definition g_short (g : group) : rec := snd g.

Fixpoint groups_from (recs : list rec) (idx : N) (acc : list rec) : list group :=
  match recs with
  | [] => []
  | r :: rest =>
    if is_lfn r then
      if b0 r =? 229 then groups_from rest (idx + 1) acc            (* deleted: continue *)
      else groups_from rest (idx + 1) (acc ++ [r])
    else if b0 r =? 0 then []                                       (* end of valid entries *)
    else if negb (N.land (attr_of r) 8 =? 0) then groups_from rest (idx + 1) []   (* label *)
    else if negb (b0 r =? 229) then (idx, acc, r) :: groups_from rest (idx + 1) []
    else groups_from rest (idx + 1) []                              (* deleted entry *)
  end.
Definition groups (recs : list rec) : list group := groups_from recs 0 [].

(* ---------------- _join_lfn_entries ---------------- *)
(* [sq] is the expected sequence number (0 at a fresh start; the code lets it reach -1),
   [lfn] the bytes collected so far.  Every "return self._join_lfn_entries(entries,
   checksum)" of the code is a restart with (0, []).  A terminal record met while a run is
   in progress is re-processed from a fresh start, which takes the same path as below with
   [lfn = []]: the collected bytes are simply dropped. *)
Fixpoint join (es : list rec) (ck : N) (sq : Z) (lfn : list N) : option (list N) :=
  match es with
  | [] => None
  | h :: t =>
    if negb (lfn_fc h =? 0) then join t ck 0%Z []
    else if negb (lfn_ck h =? ck) then join t ck 0%Z []
    else if negb (N.land (b0 h) 64 =? 0) then
      let n := N.land (b0 h) 31 in
      if n =? 0 then join t ck 0%Z []
      else if n =? 1 then match t with [] => Some (names26 h) | _ => join t ck 0%Z [] end
      else join t ck (Z.of_N n - 1)%Z (names26 h)
    else if negb (Z.of_N (b0 h) =? sq)%Z then join t ck 0%Z []
    else if (sq =? 1)%Z then match t with [] => Some (names26 h ++ lfn) | _ => join t ck 0%Z [] end
    else join t ck (sq - 1)%Z (names26 h ++ lfn)
  end.

(* ---------------- text helpers ---------------- *)
Fixpoint rstrip_c (c : N) (l : list N) : list N :=
  match l with
  | [] => []
  | x :: r => match rstrip_c c r with
              | [] => if x =? c then [] else [x]
              | r' => x :: r'
              end
  end.
Fixpoint units (b : list N) : list N :=
  match b with
  | lo :: hi :: r => (lo + 256 * hi) :: units r
  | _ => []
  end.
(* bytes.decode('utf-16le'), strict: lone surrogates are refused *)
Fixpoint utf16_dec (u : list N) : res (list N) :=
  match u with
  | [] => Ok []
  | h :: r =>
    if (55296 <=? h) && (h <? 56320) then
      match r with
      | l :: r' => if (56320 <=? l) && (l <? 57344)
                   then match utf16_dec r' with
                        | Ok t => Ok (65536 + (h - 55296) * 1024 + (l - 56320) :: t)
                        | Err e => Err e
                        end
                   else Err UnicodeDecodeError
      | [] => Err UnicodeDecodeError
      end
    else if (56320 <=? h) && (h <? 57344) then Err UnicodeDecodeError
    else match utf16_dec r with Ok t => Ok (h :: t) | Err e => Err e end
  end.

(* ---------------- _split_entries ---------------- *)
Definition decode_lfn (b : list N) : res (option (list N)) :=
  do s <- utf16_dec (units b);
  let s := rstrip_c 65535 s in
  let s := if last_is s 0 then removelast s else s in
  Ok (match s with [] => None | _ => Some s end).

(* (long name as listed, 8.3 name as text, the short record) *)
Definition split (lfns : list rec) (entry : rec) : res (list N * list N * rec) :=
  let ck := sfn_checksum (fld de_filename entry) (fld de_ext entry) in
  do lfn <- match join lfns ck 0%Z [] with
            | None => Ok None
            | Some b => decode_lfn b
            end;
  match rstrip_c 32 (fld de_filename entry) with
  | [] => Err IndexError                                           (* sfn[0] *)
  | c :: r =>
    let sfn := if c =? 5 then 229 :: r else c :: r in
    let ext := rstrip_c 32 (fld de_ext entry) in
    let a2 := byte_at de_attr2 entry in
    let shown :=
        match lfn with
        | Some l => l
        | None =>
          let b := if negb (N.land a2 8 =? 0) then map lower_b sfn else sfn in
          match ext with
          | [] => b
          | _ => b ++ [46] ++ (if negb (N.land a2 16 =? 0) then map lower_b ext else ext)
          end
        end in
    Ok (shown, match ext with [] => sfn | _ => sfn ++ [46] ++ ext end, entry)
  end.
Definition split_g (g : group) := split (g_lfns g) (g_short g).

(* ---------------- look-ups ---------------- *)
Section WithUpper.
Variable upper : list N -> list N.

(* first group with  lfn.upper() == kl  or  sfn == ks ; the groups are split one by one, an
   exception of _split_entries on the way propagates *)
Fixpoint find (kl ks : list N) (gs : list group) : res (option (group * (list N * list N * rec))) :=
  match gs with
  | [] => Ok None
  | g :: rest =>
    do x <- split_g g;
    if beq (upper (fst (fst x))) kl || beq (snd (fst x)) ks then Ok (Some (g, x))
    else find kl ks rest
  end.

Definition getitem (d : dir) (name : list N) : res rec :=
  do f <- find (upper name) (upper name) (groups (d_recs d));
  match f with Some (_, x) => Ok (snd x) | None => Err KeyError end.

(* __contains__ compares the 8.3 name with [name] itself, not with its upper case *)
Definition contains (d : dir) (name : list N) : res bool :=
  do f <- find (upper name) name (groups (d_recs d));
  Ok (match f with Some _ => true | None => false end).

Fixpoint split_all (gs : list group) : res (list (list N * list N * rec)) :=
  match gs with
  | [] => Ok []
  | g :: rest => do x <- split_g g; do xs <- split_all rest; Ok (x :: xs)
  end.
Definition items (d : dir) : res (list (list N * rec)) :=
  do xs <- split_all (groups (d_recs d)); Ok (map (fun x => (fst (fst x), snd x)) xs).
Definition listing (d : dir) : res (list (list N)) :=                  (* list(index) *)
  do xs <- split_all (groups (d_recs d)); Ok (map (fun x => fst (fst x)) xs).
(* what _get_unique_sfn compares the tail patterns with: the 8.3 name and the UPPER-CASED long name of
   every entry (look-ups compare lfn.upper() with the key, so the alias search must too) *)
Definition existing_of (xs : list (list N * list N * rec)) : list (list N * list N) :=
  map (fun x => (upper (fst (fst x)), snd (fst x))) xs.

(* ---------------- _update_entry ---------------- *)
Definition set_nth (i : nat) (x : rec) (l : list rec) : list rec :=
  if Nat.ltb i (length l) then firstn i l ++ x :: skipn (S i) l else l.
Definition rlen (l : list rec) : N := N.of_nat (length l).
(* a write past the end of a sub-directory: truncate() pads with zeroed clusters up to the
   position, write() then adds the cluster that holds it *)
Definition grown (spc : N) (recs : list rec) (i : N) : list rec :=
  if i <? rlen recs then recs
  else recs ++ repeat zero_rec (N.to_nat ((i / spc + 1) * spc - rlen recs)).
Definition poke (spc : N) (d : dir) (i : N) (r : rec) : res dir :=
  match d_cap d with
  | Some n => if n <=? i then Err OSError_ENOSPC
              else Ok {| d_recs := set_nth (N.to_nat i) r (d_recs d); d_cap := d_cap d |}
  | None => Ok {| d_recs := set_nth (N.to_nat i) r (grown spc (d_recs d) i); d_cap := None |}
  end.
(* the writes in order; stops at the first failure, keeping what was written *)
Fixpoint pokes (spc : N) (d : dir) (ps : list (N * rec)) : dir * option exn :=
  match ps with
  | [] => (d, None)
  | (i, r) :: rest => match poke spc d i r with
                      | Ok d' => pokes spc d' rest
                      | Err e => (d, Some e)
                      end
  end.

(* ---------------- _clean_entries ---------------- *)
(* kept records (re-packed when they move), and what follows from the terminator on *)
Fixpoint clean_go (recs : list rec) (moved : bool) : list rec * list rec :=
  match recs with
  | [] => ([], [])
  | r :: rest =>
    if negb (is_lfn r) && (b0 r =? 0) then ([], recs)
    else if b0 r =? 229 then clean_go rest true
    else let x := clean_go rest moved in ((if moved then repack r else r) :: fst x, snd x)
  end.
(* new region and the new offset of the terminal entry (as an index) *)
Definition clean_recs (recs : list rec) : list rec * N :=
  let x := clean_go recs false in
  (fst x ++ repeat zero_rec (length recs - length (fst x) - length (snd x)) ++ snd x,
   rlen (fst x)).
Definition clean (d : dir) : dir * N :=
  let x := clean_recs (d_recs d) in ({| d_recs := fst x; d_cap := d_cap d |}, snd x).

(* ---------------- __setitem__ ---------------- *)
Definition last_end (gs : list group) : N :=          (* offset + 32 after the loop, as index *)
  match rev gs with g :: _ => g_off g + 1 | [] => 0 end.
Fixpoint offsets_from (i : N) (l : list rec) : list (N * rec) :=
  match l with [] => [] | r :: t => (i, r) :: offsets_from (i + 1) t end.
(* reversed(list(zip(offsets, entries))) *)
Definition append_pokes (eof : N) (news : list rec) : list (N * rec) := rev (offsets_from eof news).

Fixpoint lstrip_dots (s : list N) : list N :=
  match s with 46 :: r => lstrip_dots r | _ => s end.

Definition setitem (spc : N) (d : dir) (name : list N) (entry : rec) : dir * option exn :=
  let gs := groups (d_recs d) in
  match find (upper name) (upper name) gs with
  | Err e => (d, Some e)
  | Ok (Some (g, x)) =>
    let old := snd x in
    pokes spc d [(g_off g, short_record entry (fld de_filename old) (fld de_ext old)
                                        (byte_at de_attr2 old))]
  | Ok None =>
    match (do xs <- split_all gs;
           prefix_entries name (upper (lstrip_dots name)) (existing_of xs) entry) with
    | Err e => (d, Some e)
    | Ok recs =>
      let news := recs ++ [zero_rec] in
      match pokes spc d (append_pokes (last_end gs) news) with
      | (d1, Some OSError_ENOSPC) =>
        let c := clean d1 in pokes spc (fst c) (append_pokes (snd c) news)
      | other => other
      end
    end
  end.

(* ---------------- __delitem__ ---------------- *)
Definition mark_short (r : rec) : rec := put de_filename (229 :: tl (fld de_filename r)) r.
Definition mark_lfn (r : rec) : rec := put lfn_sequence [229] (put lfn_pad [0] r).
Fixpoint offsets_down (i : N) (l : list rec) : list (N * rec) :=     (* offset -= 32 *)
  match l with [] => [] | r :: t => (i, r) :: offsets_down (i - 1) t end.
Definition del_pokes (g : group) : list (N * rec) :=
  offsets_down (g_off g) (mark_short (g_short g) :: map mark_lfn (rev (g_lfns g))).
Definition delitem (spc : N) (d : dir) (name : list N) : dir * option exn :=
  match find (upper name) (upper name) (groups (d_recs d)) with
  | Err e => (d, Some e)
  | Ok (Some (g, _)) => pokes spc d (del_pokes g)
  | Ok None => (d, Some KeyError)
  end.
End WithUpper.
