(* Structure of _group_entries: record kinds, blocks of long-name records, the prefix of a
   region that determines its groups, and the decomposition of a region around one group. *)
From Coq Require Import List NArith ZArith Bool Lia Arith ZifyN ZifyNat ZifyBool.
From NV Require Import Lib.Res Gen.Fat FatNames.Model FatDir.Model.
Import ListNotations.
Open Scope N_scope.

(* ---------------- kinds of records, as _group_entries treats them ---------------- *)
Inductive kind := KSkip | KAcc | KEnd | KReset | KLive.
Definition kind_of (r : rec) : kind :=
  if is_lfn r then (if b0 r =? 229 then KSkip else KAcc)
  else if b0 r =? 0 then KEnd
  else if negb (N.land (attr_of r) 8 =? 0) then KReset
  else if negb (b0 r =? 229) then KLive else KReset.
Definition live (r : rec) : bool := negb (b0 r =? 229).

Lemma groups_from_cons r rest idx acc :
  groups_from (r :: rest) idx acc =
  match kind_of r with
  | KSkip => groups_from rest (idx + 1) acc
  | KAcc => groups_from rest (idx + 1) (acc ++ [r])
  | KEnd => []
  | KReset => groups_from rest (idx + 1) []
  | KLive => (idx, acc, r) :: groups_from rest (idx + 1) []
  end.
Proof.
  unfold kind_of. cbn [groups_from].
  destruct (is_lfn r); [destruct (b0 r =? 229); reflexivity|].
  destruct (b0 r =? 0); [reflexivity|].
  destruct (negb (N.land (attr_of r) 8 =? 0)); [reflexivity|].
  destruct (negb (b0 r =? 229)); reflexivity.
Qed.

Lemma kind_lfn r : is_lfn r = true -> kind_of r = if live r then KAcc else KSkip.
Proof. unfold kind_of, live. intros ->. destruct (b0 r =? 229); reflexivity. Qed.
Lemma kind_live_facts r : kind_of r = KLive ->
  is_lfn r = false /\ b0 r <> 0 /\ b0 r <> 229 /\ N.land (attr_of r) 8 = 0.
Proof.
  unfold kind_of. destruct (is_lfn r); [destruct (b0 r =? 229); discriminate|].
  destruct (N.eqb_spec (b0 r) 0); [discriminate|].
  destruct (N.eqb_spec (N.land (attr_of r) 8) 0); cbn [negb]; [|discriminate].
  destruct (N.eqb_spec (b0 r) 229); cbn [negb]; [discriminate|]. auto.
Qed.
Lemma kind_live_intro r :
  is_lfn r = false -> b0 r <> 0 -> b0 r <> 229 -> N.land (attr_of r) 8 = 0 -> kind_of r = KLive.
Proof.
  intros H1 H2 H3 H4. unfold kind_of. rewrite H1.
  destruct (N.eqb_spec (b0 r) 0); [contradiction|]. rewrite H4. cbn.
  destruct (N.eqb_spec (b0 r) 229); [contradiction|]. reflexivity.
Qed.
Lemma kind_deleted_short r : is_lfn r = false -> b0 r = 229 -> kind_of r = KReset.
Proof.
  intros H1 H2. unfold kind_of. rewrite H1, H2. cbn. destruct (negb _); reflexivity.
Qed.

(* ---------------- a block of long-name records ---------------- *)
Lemma groups_lfn_block R : forall X idx acc, Forall (fun r => is_lfn r = true) R ->
  groups_from (R ++ X) idx acc = groups_from X (idx + N.of_nat (length R)) (acc ++ filter live R).
Proof.
  induction R as [|r R IH]; intros X idx acc H.
  - cbn [app length filter]. rewrite app_nil_r. f_equal. lia.
  - inversion H as [|? ? Hr HR]; subst. cbn [app]. rewrite groups_from_cons, (kind_lfn r Hr).
    cbn [filter length]. destruct (live r).
    + rewrite IH by assumption. rewrite <- app_assoc. cbn [app]. f_equal. lia.
    + rewrite IH by assumption. f_equal. lia.
Qed.

(* ---------------- offsets ---------------- *)
Lemma groups_off_range recs : forall idx acc g, In g (groups_from recs idx acc) ->
  idx <= g_off g /\ g_off g < idx + N.of_nat (length recs).
Proof.
  induction recs as [|r rest IH]; intros idx acc g H; [contradiction|].
  rewrite groups_from_cons in H. cbn [length].
  destruct (kind_of r); try contradiction;
    try (apply IH in H; lia).
  destruct H as [<-|H]; [cbn; lia|apply IH in H; lia].
Qed.

Lemma last_end_single g : last_end [g] = g_off g + 1.
Proof. reflexivity. Qed.
Lemma last_end_snoc gs g : last_end (gs ++ [g]) = g_off g + 1.
Proof. unfold last_end. rewrite rev_app_distr. reflexivity. Qed.
Lemma last_end_cons g gs : gs <> [] -> last_end (g :: gs) = last_end gs.
Proof.
  intros H. destruct (exists_last H) as (gs' & g' & ->).
  rewrite app_comm_cons, !last_end_snoc. reflexivity.
Qed.
Lemma last_end_app gs1 gs2 : gs2 <> [] -> last_end (gs1 ++ gs2) = last_end gs2.
Proof.
  intros H. destruct (exists_last H) as (gs' & g' & ->).
  rewrite app_assoc, !last_end_snoc. reflexivity.
Qed.
Lemma last_end_range recs idx acc :
  groups_from recs idx acc <> [] ->
  idx < last_end (groups_from recs idx acc) /\
  last_end (groups_from recs idx acc) <= idx + N.of_nat (length recs).
Proof.
  intros H. destruct (exists_last H) as (gs' & g' & E). rewrite E, last_end_snoc.
  assert (Hin : In g' (groups_from recs idx acc)) by (rewrite E; apply in_or_app; right; left; reflexivity).
  apply groups_off_range in Hin. lia.
Qed.

(* ---------------- the records up to the last group determine the groups ---------------- *)
Lemma groups_prefix recs : forall idx acc X,
  groups_from recs idx acc <> [] ->
  groups_from (firstn (N.to_nat (last_end (groups_from recs idx acc) - idx)) recs ++ X) idx acc =
  groups_from recs idx acc ++ groups_from X (last_end (groups_from recs idx acc)) [].
Proof.
  induction recs as [|r rest IH]; intros idx acc X H; [contradiction H; reflexivity|].
  pose proof (last_end_range _ _ _ H) as Hr.
  rewrite groups_from_cons in *.
  assert (step : forall a, groups_from rest (idx + 1) a <> [] ->
            idx + 1 < last_end (groups_from rest (idx + 1) a) ->
            firstn (N.to_nat (last_end (groups_from rest (idx + 1) a) - idx)) (r :: rest) =
            r :: firstn (N.to_nat (last_end (groups_from rest (idx + 1) a) - (idx + 1))) rest).
  { intros a _ Hlt.
    replace (N.to_nat (last_end (groups_from rest (idx + 1) a) - idx))
      with (S (N.to_nat (last_end (groups_from rest (idx + 1) a) - (idx + 1)))) by lia.
    reflexivity. }
  destruct (kind_of r) eqn:K; try (contradiction H; reflexivity).
  - pose proof (last_end_range _ _ _ H). rewrite step by (assumption || lia).
    cbn [app]. rewrite groups_from_cons, K. apply IH, H.
  - pose proof (last_end_range _ _ _ H). rewrite step by (assumption || lia).
    cbn [app]. rewrite groups_from_cons, K. apply IH, H.
  - pose proof (last_end_range _ _ _ H). rewrite step by (assumption || lia).
    cbn [app]. rewrite groups_from_cons, K. apply IH, H.
  - destruct (groups_from rest (idx + 1) []) as [|g gs] eqn:G.
    + rewrite last_end_single. cbn [g_off fst].
      replace (N.to_nat (idx + 1 - idx)) with 1%nat by lia. cbn [firstn app].
      rewrite groups_from_cons, K. reflexivity.
    + rewrite last_end_cons by discriminate. rewrite <- G.
      assert (G' : groups_from rest (idx + 1) [] <> []) by (rewrite G; discriminate).
      pose proof (last_end_range _ _ _ G').
      rewrite step by (assumption || lia). cbn [app]. rewrite groups_from_cons, K.
      rewrite IH by assumption. reflexivity.
Qed.

Corollary groups_prefix_top recs X :
  groups (firstn (N.to_nat (last_end (groups recs))) recs ++ X) =
  groups recs ++ groups_from X (last_end (groups recs)) [].
Proof.
  unfold groups. destruct (groups_from recs 0 []) as [|g gs] eqn:G.
  - cbn [last_end rev]. reflexivity.
  - rewrite <- G. assert (G' : groups_from recs 0 [] <> []) by (rewrite G; discriminate).
    pose proof (groups_prefix recs 0 [] X G') as P. rewrite N.sub_0_r in P. exact P.
Qed.

(* ---------------- the region around one group ---------------- *)
Lemma kind_skip_facts r : kind_of r = KSkip -> is_lfn r = true /\ live r = false.
Proof.
  unfold kind_of, live. destruct (is_lfn r).
  - destruct (b0 r =? 229); [auto|discriminate].
  - destruct (b0 r =? 0); [discriminate|]. destruct (negb (N.land _ _ =? 0)); [discriminate|].
    destruct (negb (b0 r =? 229)); discriminate.
Qed.
Lemma kind_acc_facts r : kind_of r = KAcc -> is_lfn r = true /\ live r = true.
Proof.
  unfold kind_of, live. destruct (is_lfn r).
  - destruct (b0 r =? 229); [discriminate|auto].
  - destruct (b0 r =? 0); [discriminate|]. destruct (negb (N.land _ _ =? 0)); [discriminate|].
    destruct (negb (b0 r =? 229)); discriminate.
Qed.

(* a region that yields the groups G1 ++ g :: G2 is  A ++ R ++ short :: B  where A yields G1
   and leaves nothing pending, R is the block of long-name records in front of the short
   record of g (deleted ones included), and B yields G2 *)
Lemma groups_decomp recs : forall P i0 G1 g G2,
  Forall (fun r => is_lfn r = true) P ->
  groups_from recs (i0 + N.of_nat (length P)) (filter live P) = G1 ++ g :: G2 ->
  exists A R B,
    P ++ recs = A ++ R ++ g_short g :: B /\
    Forall (fun r => is_lfn r = true) R /\
    g_lfns g = filter live R /\
    g_off g = i0 + N.of_nat (length A + length R) /\
    kind_of (g_short g) = KLive /\
    (forall X, groups_from (A ++ X) i0 [] = G1 ++ groups_from X (i0 + N.of_nat (length A)) []) /\
    groups_from B (g_off g + 1) [] = G2.
Proof.
  induction recs as [|r rest IH]; intros P i0 G1 g G2 HP H.
  { cbn [groups_from] in H. destruct G1; discriminate. }
  rewrite groups_from_cons in H.
  assert (Hpush : forall keep, is_lfn r = true -> live r = keep ->
            groups_from rest (i0 + N.of_nat (length P) + 1) (filter live P ++ (if keep then [r] else []))
            = G1 ++ g :: G2 -> exists A R B,
    P ++ r :: rest = A ++ R ++ g_short g :: B /\
    Forall (fun r => is_lfn r = true) R /\ g_lfns g = filter live R /\
    g_off g = i0 + N.of_nat (length A + length R) /\ kind_of (g_short g) = KLive /\
    (forall X, groups_from (A ++ X) i0 [] = G1 ++ groups_from X (i0 + N.of_nat (length A)) []) /\
    groups_from B (g_off g + 1) [] = G2).
  { intros keep Hl Hk H'.
    specialize (IH (P ++ [r]) i0 G1 g G2).
    rewrite app_length, filter_app in IH. cbn [length filter] in IH. rewrite Hk in IH.
    replace (i0 + N.of_nat (length P + 1)) with (i0 + N.of_nat (length P) + 1) in IH by lia.
    destruct IH as (A & R & B & E & rest').
    - apply Forall_app. split; [exact HP|constructor; [exact Hl|constructor]].
    - exact H'.
    - exists A, R, B. rewrite <- app_assoc in E. cbn [app] in E. split; [exact E|exact rest']. }
  assert (Hreset : forall G1' first, G1 = first ++ G1' ->
            (forall X, groups_from (P ++ r :: X) i0 [] =
                       first ++ groups_from X (i0 + N.of_nat (length P) + 1) []) ->
            groups_from rest (i0 + N.of_nat (length P) + 1) [] = G1' ++ g :: G2 -> exists A R B,
    P ++ r :: rest = A ++ R ++ g_short g :: B /\
    Forall (fun r => is_lfn r = true) R /\ g_lfns g = filter live R /\
    g_off g = i0 + N.of_nat (length A + length R) /\ kind_of (g_short g) = KLive /\
    (forall X, groups_from (A ++ X) i0 [] = G1 ++ groups_from X (i0 + N.of_nat (length A)) []) /\
    groups_from B (g_off g + 1) [] = G2).
  { intros G1' first EG Hfirst H'.
    specialize (IH [] (i0 + N.of_nat (length P) + 1) G1' g G2 (Forall_nil _)).
    cbn [length filter app] in IH. rewrite N.add_0_r in IH.
    destruct (IH H') as (A & R & B & E & FR & EL & EO & KL & HX & HB).
    exists (P ++ r :: A), R, B. repeat split; try assumption.
    - rewrite E, <- app_assoc. reflexivity.
    - rewrite EO, app_length. cbn [length]. lia.
    - intros X. rewrite <- app_assoc. cbn [app]. rewrite Hfirst, HX, EG, <- app_assoc.
      replace (i0 + N.of_nat (length (P ++ r :: A))) with (i0 + N.of_nat (length P) + 1 + N.of_nat (length A))
        by (rewrite app_length; cbn [length]; lia).
      reflexivity. }
  destruct (kind_of r) eqn:K.
  - destruct (kind_skip_facts r K) as [Hl Hk]. apply (Hpush false Hl Hk). rewrite app_nil_r. exact H.
  - destruct (kind_acc_facts r K) as [Hl Hk]. apply (Hpush true Hl Hk). exact H.
  - destruct G1; discriminate.
  - apply (Hreset G1 []); [reflexivity| |exact H].
    intros X. rewrite groups_lfn_block by exact HP. cbn [app]. rewrite groups_from_cons, K. reflexivity.
  - destruct G1 as [|g1 G1'].
    + cbn [app] in H. inversion H; subst. clear H.
      exists [], P, rest. cbn [app length g_short g_lfns g_off fst snd]. repeat split; try assumption; try lia.
      intros X. f_equal. lia.
    + cbn [app] in H. inversion H as [[E1 E2]]. subst g1.
      apply (Hreset G1' [(i0 + N.of_nat (length P), filter live P, r)]); [reflexivity| |exact E2].
      intros X. rewrite groups_lfn_block by exact HP. cbn [app]. rewrite groups_from_cons, K. reflexivity.
Qed.

Corollary groups_decomp_top recs G1 g G2 :
  groups recs = G1 ++ g :: G2 ->
  exists A R B,
    recs = A ++ R ++ g_short g :: B /\
    Forall (fun r => is_lfn r = true) R /\
    g_lfns g = filter live R /\
    g_off g = N.of_nat (length A + length R) /\
    kind_of (g_short g) = KLive /\
    (forall X, groups (A ++ X) = G1 ++ groups_from X (N.of_nat (length A)) []) /\
    groups_from B (g_off g + 1) [] = G2.
Proof.
  intros H. destruct (groups_decomp recs [] 0 G1 g G2 (Forall_nil _) H) as (A & R & B & E & rest).
  exists A, R, B. cbn [app] in E. split; [exact E|]. exact rest.
Qed.
