(* The main theorems about __setitem__ of a new name: C11 setitem_new_then_getitem,
   C10 root_full_enospc. *)
From Coq Require Import List NArith ZArith Bool Lia Arith ZifyN ZifyNat ZifyBool.
From NV Require Import Lib.Res Gen.Fat Fat.Spec FatNames.Model FatNames.ProofsAlias FatNames.ProofsValid FatNames.ProofsLfn
     FatDir.Model FatDir.ProofsBase FatDir.ProofsView FatDir.ProofsClean FatDir.ProofsOps FatDir.ProofsAppend
     FatDir.ProofsNames.
Import ListNotations.
Open Scope N_scope.

Section New.
Variable upper : list N -> list N.
Variables (spc : N) (d : dir) (name : list N) (entry : rec) (recs_new : list rec).
Let up := upper (lstrip_dots name).
Let sp := short_parts name up.
Let e0 := last_end (groups (d_recs d)).
Let k := N.of_nat (length recs_new).

(* the directory *)
Hypothesis W : wf_recs (d_recs d).
Hypothesis C : cap_ok d.
Hypothesis Hs : 0 < spc.
(* the value: a 32-byte entry that is neither a long-name record nor a volume label *)
Hypothesis Eok : entry_ok entry.
(* the name: real code points without NUL, at most 255 UTF-16 units, not ending in U+FFFF
   (the padding value); when it is stored short-only its base is not empty; its upper case
   has no U+00E5 (CPython: never) *)
Hypothesis Hne : name <> [].
Hypothesis Hok : name_ok name = true.
Hypothesis Hl : (length (utf16 name) <= 255)%nat.
Hypothesis Hf : ends_ffff name = false.
Hypothesis Hu : ~ In 229 up.
Hypothesis Hbase : forall a, case_attr name (fst sp) (snd sp) = Some a -> fst sp <> [].
(* the name is not present, and _prefix_entries produced its records *)
Hypothesis Absent : find upper (upper name) (upper name) (groups (d_recs d)) = Ok None.
Hypothesis Made :
  (do xs <- split_all (groups (d_recs d));
   prefix_entries name up (existing_of upper xs) entry) = Ok recs_new.

Lemma new_records :
  exists lf sfn8 ext3 a2 alias,
    let s := short_record entry sfn8 ext3 a2 in
    recs_new = lf ++ [s] /\ new_run lf s /\ length sfn8 = 8%nat /\ length ext3 = 3%nat /\
    split lf s = Ok (name, alias, s).
Proof.
  destruct (find_none_split_all _ _ _ _ Absent) as (xs & Exs). rewrite Exs in Made. cbn [bind] in Made.
  destruct (case_attr name (fst sp) (snd sp)) as [a|] eqn:Ca.
  - destruct (new_short name up (existing_of upper xs) entry a Ca (Hbase a eq_refl) Hu Eok) as (P & R & L & S).
    rewrite P in Made. inversion Made; subst recs_new.
    pose proof (case_attr_lengths _ _ _ _ Ca) as [L8 L3].
    eexists [], _, _, a, _. cbv zeta. repeat split; try exact S; try apply R.
    + apply ljust_length, L8.
    + apply ljust_length, L3.
  - destruct (new_long name up (existing_of upper xs) entry recs_new Ca Hne Hok Hl Hf Hu Eok Made)
      as (lf & sfn8 & ext3 & E & R & _ & L8 & L3 & _ & S).
    exists lf, sfn8, ext3, 0, (snd (Spec.short_name (short_record entry sfn8 ext3 0))).
    cbv zeta. repeat split; try assumption; apply R.
Qed.

(* the success condition of the code: the first attempt fits (always, for a sub-directory),
   or the fixed root has room after the compaction *)
Definition succeeds : Prop :=
  fits d (e0 + k) \/
  (exists n, d_cap d = Some n /\ n <= e0 + k /\ snd (clean d) + k < n /\ tidy (d_recs d) = true).

Lemma lookup_absent : lookup_v upper (upper name) (upper name) (view (d_recs d)) = Ok None.
Proof. apply find_none_lookup, Absent. Qed.

(* C11 setitem_new_then_getitem *)
Theorem setitem_new_then_getitem : succeeds ->
  exists d' sfn8 ext3 a2 alias,
    let e' := short_record entry sfn8 ext3 a2 in          (* the entry with the generated 8.3 name *)
    setitem upper spc d name entry = (d', None) /\ d_cap d' = d_cap d /\
    length sfn8 = 8%nat /\ length ext3 = 3%nat /\
    view (d_recs d') = view (d_recs d) ++ [Ok (name, alias, e')] /\
    (* every case variant finds the new entry *)
    (forall v, upper v = upper name -> getitem upper d' v = Ok e') /\
    (* no shadowing, no merging: whatever resolved before resolves to the same entry ... *)
    (forall key e, getitem upper d key = Ok e -> getitem upper d' key = Ok e) /\
    (* ... and every other key, unless it is the new name up to case or the new alias *)
    (forall key, upper key <> upper name -> upper key <> alias ->
                 getitem upper d' key = getitem upper d key) /\
    (exists names, listing d = Ok names /\ listing d' = Ok (names ++ [name])).
Proof.
  intros Succ. destruct new_records as (lf & sfn8 & ext3 & a2 & alias & E & R & L8 & L3 & S).
  set (e' := short_record entry sfn8 ext3 a2) in *.
  assert (Hview : exists d', setitem upper spc d name entry = (d', None) /\ d_cap d' = d_cap d /\
                             view (d_recs d') = view (d_recs d) ++ [Ok (name, alias, e')]).
  { destruct Succ as [Fit|(n & Hc & H0 & H1 & T)].
    - destruct (append_first_fits upper spc d name entry recs_new lf e' C Hs Absent Made E R Fit)
        as (d' & Es & Ec & Eg & _).
      exists d'. repeat split; try assumption. unfold view. rewrite Eg, map_app. cbn [map].
      unfold split_g. cbn [g_lfns g_short fst snd]. rewrite S. reflexivity.
    - destruct (append_retry_fits upper spc d name entry recs_new lf e' W C Hs Absent Made E R n Hc H0 H1 T)
        as (d' & Es & Ec & Ev & _).
      exists d'. repeat split; try assumption. rewrite Ev, S. reflexivity. }
  destruct Hview as (d' & Es & Ec & Ev).
  exists d', sfn8, ext3, a2, alias. cbv zeta. fold e'.
  split; [exact Es|]. split; [exact Ec|]. split; [exact L8|]. split; [exact L3|]. split; [exact Ev|].
  assert (Hhit : forall kk, hit upper kk kk (name, alias, e') = beq (upper name) kk || beq alias kk) by reflexivity.
  split; [|split; [|split]].
  - intros v Hv. rewrite getitem_view, Ev, lookup_v_app, Hv, lookup_absent. cbn [lookup_v].
    rewrite Hhit. replace (beq (upper name) (upper name)) with true by (symmetry; apply beq_eq; reflexivity).
    reflexivity.
  - intros key e. rewrite !getitem_view, Ev, lookup_v_app.
    destruct (lookup_v upper (upper key) (upper key) (view (d_recs d))) as [[x|]|err]; try discriminate. auto.
  - intros key N1 N2. rewrite !getitem_view, Ev, lookup_v_app.
    destruct (lookup_v upper (upper key) (upper key) (view (d_recs d))) as [[x|]|err]; try reflexivity.
    cbn [lookup_v]. rewrite Hhit.
    destruct (beq (upper name) (upper key)) eqn:B1; [apply beq_eq in B1; congruence|].
    destruct (beq alias (upper key)) eqn:B2; [apply beq_eq in B2; congruence|]. reflexivity.
  - destruct (find_none_split_all _ _ _ _ Absent) as (xs & Exs).
    exists (map (fun x => fst (fst x)) xs). split.
    + unfold listing. rewrite Exs. reflexivity.
    + rewrite listing_view, Ev, sequence_app. unfold view. rewrite <- split_all_sequence, Exs. cbn [sequence].
      rewrite map_app. reflexivity.
Qed.

(* C10 root_full_enospc: a fixed root of n slots; the new name needs k records and the code
   writes an EOF record after them.  ENOSPC exactly when neither the end of the groups (e0)
   nor the end of the compacted region (e1) leaves k + 1 slots; the directory is then the
   compacted one: same listing, every key resolves as before. *)
Theorem root_full_enospc n :
  d_cap d = Some n -> tidy (d_recs d) = true ->
  let e1 := snd (clean d) in
  (snd (setitem upper spc d name entry) = Some OSError_ENOSPC <-> (n <= e0 + k /\ n <= e1 + k)) /\
  (snd (setitem upper spc d name entry) = Some OSError_ENOSPC ->
     fst (setitem upper spc d name entry) = fst (clean d) /\
     view (d_recs (fst (clean d))) = view (d_recs d) /\
     listing (fst (clean d)) = listing d /\
     (forall key, getitem upper (fst (clean d)) key = getitem upper d key) /\
     (forall key, contains upper (fst (clean d)) key = contains upper d key)) /\
  (snd (setitem upper spc d name entry) <> Some OSError_ENOSPC ->
     snd (setitem upper spc d name entry) = None).
Proof.
  intros Hc T e1.
  destruct new_records as (lf & sfn8 & ext3 & a2 & alias & E & R & _ & _ & _).
  set (e' := short_record entry sfn8 ext3 a2) in *.
  destruct (clean_preserves_listing upper d W T) as (V & G & Cn & Li & _).
  assert (Cases : (n <= e0 + k /\ n <= e1 + k /\ setitem upper spc d name entry = (fst (clean d), Some OSError_ENOSPC)) \/
                  ((e0 + k < n \/ e1 + k < n) /\ exists d', setitem upper spc d name entry = (d', None))).
  { destruct (N.le_gt_cases n (e0 + k)) as [H0|H0].
    - destruct (N.le_gt_cases n (e1 + k)) as [H1|H1].
      + left. repeat split; try assumption.
        apply (append_retry_enospc upper spc d name entry recs_new lf e' Hs Absent Made E n Hc H0 H1).
      + right. split; [right; exact H1|].
        destruct (append_retry_fits upper spc d name entry recs_new lf e' W C Hs Absent Made E R n Hc H0 H1 T) as (d' & Es & _).
        exists d'. exact Es.
    - right. split; [left; exact H0|].
      assert (Fit : fits d (e0 + k)) by (unfold fits; rewrite Hc; exact H0).
      destruct (append_first_fits upper spc d name entry recs_new lf e' C Hs Absent Made E R Fit) as (d' & Es & _).
      exists d'. exact Es. }
  destruct Cases as [(H0 & H1 & Es)|(Hlt & d' & Es)]; rewrite Es; cbn [fst snd].
  - split; [split; [intros _; split; assumption|reflexivity]|].
    split; [intros _; split; [reflexivity|]; split; [exact V|]; split; [exact Li|]; split; assumption|].
    intros X. contradiction X. reflexivity.
  - split; [split; [discriminate|intros [A B]; destruct Hlt; lia]|].
    split; [discriminate|]. intros _. reflexivity.
Qed.
End New.
