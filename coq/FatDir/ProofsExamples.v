(* Non-vacuity: the theorems' hypotheses hold on concrete directories, and the behaviours they
   describe (and the ones they exclude) are exhibited by vm_compute on the model. *)
From Coq Require Import List NArith ZArith Bool String.
From NV Require Import Lib.Res Lib.Val Gen.Fat Fat.Spec FatNames.Model FatNames.ProofsLfn
     FatDir.Model FatDir.ProofsBase FatDir.ProofsView FatDir.ProofsClean FatDir.ProofsOps
     FatDir.ProofsAppend FatDir.ProofsNames FatDir.ProofsSpec.
Import ListNotations.
Open Scope N_scope.

Definition up_ascii (s : list N) : list N :=
  map (fun c => if (97 <=? c) && (c <=? 122) then c - 32 else c) s.
Definition entry0 : rec := repeat 32 11 ++ [32] ++ repeat 0 20.           (* attr 0x20 *)
Definition entry1 : rec := repeat 32 11 ++ [33] ++ [24] ++ repeat 7 19.   (* other fields *)
Definition empty_root (n : nat) : dir := {| d_recs := repeat zero_rec n; d_cap := Some (N.of_nat n) |}.
Definition empty_sub : dir := {| d_recs := repeat zero_rec 16; d_cap := None |}.
Definition set_ (d : dir) (name : string) (e : rec) : dir := fst (setitem up_ascii 16 d (str name) e).
Definition out_ (d : dir) (name : string) (e : rec) : option exn := snd (setitem up_ascii 16 d (str name) e).
Definition del_ (d : dir) (name : string) : dir := fst (delitem up_ascii 16 d (str name)).
Definition names_ (d : dir) : res (list (list N)) := listing d.
Definition get_ (d : dir) (name : string) : res rec := getitem up_ascii d (str name).

Definition d3 : dir :=
  set_ (set_ (set_ (empty_root 16) "readme.txt" entry0) "Shared Prefix name 1.txt" entry0)
       "Shared Prefix name 2.txt" entry0.

Example listing_d3 :
  names_ d3 = Ok [str "readme.txt"; str "Shared Prefix name 1.txt"; str "Shared Prefix name 2.txt"] /\
  map g_off (groups (d_recs d3)) = [0; 3; 6] /\ tidy (d_recs d3) = true /\ clean_dir (d_recs d3) = true.
Proof. vm_compute. repeat split. Qed.

(* case variants and the 8.3 names find the same entries; an unrelated key does not *)
Example lookups_d3 :
  get_ d3 "README.TXT" = get_ d3 "readme.txt" /\
  get_ d3 "shared prefix NAME 2.TXT" = get_ d3 "Shared Prefix name 2.txt" /\
  get_ d3 "SHARED~2.TXT" = get_ d3 "Shared Prefix name 2.txt" /\
  get_ d3 "shared~1.txt" = get_ d3 "Shared Prefix name 1.txt" /\
  get_ d3 "Shared Prefix name 1.txt" <> get_ d3 "Shared Prefix name 2.txt" /\
  get_ d3 "Shared Prefix name 3.txt" = Err KeyError /\
  contains up_ascii d3 (str "SHARED~1.TXT") = Ok true /\
  contains up_ascii d3 (str "shared~1.txt") = Ok false.     (* __contains__ compares the alias exactly *)
Proof. vm_compute. repeat split; discriminate. Qed.

(* update in place through a case variant / through the alias: same records but one, name kept *)
Example update_in_place :
  let d' := set_ d3 "SHARED~1.TXT" entry1 in
  names_ d' = names_ d3 /\
  firstn 3 (d_recs d') = firstn 3 (d_recs d3) /\ skipn 4 (d_recs d') = skipn 4 (d_recs d3) /\
  firstn 13 (nth 3 (d_recs d') []) = firstn 11 (nth 3 (d_recs d3) []) ++ [33; 0] /\
  skipn 13 (nth 3 (d_recs d') []) = skipn 13 entry1 /\
  set_ d3 "shared prefix name 1.TXT" entry1 = d'.
Proof. vm_compute. repeat split. Qed.

(* delete, compaction: the listing of the others is unchanged, no 0xE5 record is left *)
Example delete_and_clean :
  let d' := del_ d3 "shared~1.txt" in
  names_ d' = Ok [str "readme.txt"; str "Shared Prefix name 2.txt"] /\
  map (fun r => nth 0 r 0) (firstn 6 (d_recs d')) = [82; 229; 229; 229; 66; 1] /\
  snd (delitem up_ascii 16 d3 (str "nothing")) = Some KeyError /\
  names_ (fst (clean d')) = names_ d' /\ snd (clean d') = 4 /\
  map (fun r => nth 0 r 0) (firstn 5 (d_recs (fst (clean d')))) = [82; 66; 1; 83; 0] /\
  get_ (fst (clean d')) "SHARED~2.TXT" = get_ d3 "Shared Prefix name 2.txt".
Proof. vm_compute. repeat split. Qed.

(* a 12-slot root filled to the brim: ENOSPC, the clean-and-retry, the EOF record *)
Definition full12 : dir :=
  set_ (set_ (set_ (set_ (empty_root 12) "Shared Prefix name 1.txt" entry0) "Shared Prefix name 2.txt" entry0)
             "Shared Prefix name 3.txt" entry0) "A.TXT" entry0.     (* 3 + 3 + 3 + 1 = 10 records *)
Example brim :
  out_ full12 "B.TXT" entry0 = None /\                                   (* 11 + EOF = 12 *)
  out_ (set_ full12 "B.TXT" entry0) "C.TXT" entry0 = Some OSError_ENOSPC /\
  set_ (set_ full12 "B.TXT" entry0) "C.TXT" entry0 = set_ full12 "B.TXT" entry0 /\   (* nothing to compact: unchanged *)
  out_ full12 "two records.txt" entry0 = Some OSError_ENOSPC /\          (* 10 + 2 + EOF > 12 *)
  let holes := del_ full12 "shared~2.txt" in
  last_end (groups (d_recs holes)) = 10 /\ snd (clean holes) = 7 /\
  out_ holes "Shared Prefix name 4.txt" entry0 = None /\                 (* fits only after compaction *)
  names_ (set_ holes "Shared Prefix name 4.txt" entry0) =
    Ok [str "Shared Prefix name 1.txt"; str "Shared Prefix name 3.txt"; str "A.TXT"; str "Shared Prefix name 4.txt"] /\
  out_ holes "a name that needs four long-name records, no less.txt" entry0 = Some OSError_ENOSPC /\
  names_ (set_ holes "a name that needs four long-name records, no less.txt" entry0) = names_ holes /\
  set_ holes "a name that needs four long-name records, no less.txt" entry0 = fst (clean holes).
Proof. vm_compute. repeat split. Qed.

(* a sub-directory grows by whole clusters of 16 slots *)
Example growth :
  let d := fold_left (fun d i => fst (setitem up_ascii 16 d (str "Shared Prefix name " ++ [48 + i] ++ str ".txt") entry0))
                     [1; 2; 3; 4; 5; 6] empty_sub in
  List.length (d_recs d) = 32%nat /\ last_end (groups (d_recs d)) = 18 /\
  nth 18 (d_recs d) [] = zero_rec /\ clean_dir (d_recs d) = true.
Proof. vm_compute. repeat split. Qed.

(* the model's reader and the specification reader on a directory nobodd built *)
Example spec_agreement_d3 :
  split_all (groups (d_recs d3)) = Ok (map triple_of (fst (Spec.decode_dir (d_recs d3) 0 None 0))) /\
  map Spec.d_nlfn (fst (Spec.decode_dir (d_recs d3) 0 None 0)) = [0; 2; 2].
Proof. vm_compute. repeat split. Qed.

(* where the two readers differ (outside clean_dir): a long-name record whose first byte is 0
   ends the directory for the specification, not for nobodd *)
Definition lfn_zero : rec := [0; 120;0; 255;255;255;255;255;255;255;255; 15; 0; 0] ++ repeat 255 12 ++ [0;0] ++ repeat 255 4.
Example zero_lfn_record_discrepancy :
  let recs := [lfn_zero; [65;32;32;32;32;32;32;32;32;32;32; 32] ++ repeat 0 20; zero_rec] in
  clean_dir recs = false /\
  listing {| d_recs := recs; d_cap := None |} = Ok [[65]] /\
  fst (Spec.decode_dir recs 0 None 0) = [].
Proof. vm_compute. repeat split. Qed.

(* crash points of an append when deleted records lie between the last group and the
   terminator: the old entries stay, but the new entry shows up under its 8.3 name first *)
Example crash_point_with_trailing_deleted :
  let d := del_ d3 "shared~2.txt" in                         (* groups end at 4, terminator at 7 *)
  let ps := append_pokes (last_end (groups (d_recs d))) (match prefix_entries (str "Other long name.txt") (up_ascii (str "Other long name.txt"))
                                    [(str "readme.txt", str "README.TXT"); (str "Shared Prefix name 1.txt", str "SHARED~1.TXT")]
                                    entry0 with Ok l => l ++ [zero_rec] | Err _ => [] end) in
  map fst ps = [7; 6; 5; 4] /\
  names_ (fst (pokes 16 d (firstn 1 ps))) = names_ d /\
  names_ (fst (pokes 16 d (firstn 2 ps))) = Ok [str "readme.txt"; str "Shared Prefix name 1.txt"; str "OTHERL~1.TXT"] /\
  names_ (fst (pokes 16 d ps)) = Ok [str "readme.txt"; str "Shared Prefix name 1.txt"; str "Other long name.txt"] /\
  fst (pokes 16 d ps) = set_ d "Other long name.txt" entry0.
Proof. vm_compute. repeat split. Qed.
