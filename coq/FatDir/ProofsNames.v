(* What _split_entries makes of the records that _prefix_entries produces (FatNames), and the
   bridge between the model's renderings and Fat.Spec's. *)
From Coq Require Import List NArith ZArith Bool Lia Arith ZifyN ZifyNat ZifyBool.
From NV Require Import Lib.Res Gen.Fat Fat.Spec FatNames.Model FatNames.ProofsAlias FatNames.ProofsValid FatNames.ProofsLfn
     FatDir.Model FatDir.ProofsBase FatDir.ProofsView FatDir.ProofsClean FatDir.ProofsOps FatDir.ProofsAppend.
Import ListNotations.
Open Scope N_scope.

(* ---------------- fields: the model's accessors and Fat.Spec's ---------------- *)
Lemma fld_rbytes f r : fld f r = Spec.rbytes f r.
Proof. reflexivity. Qed.
Lemma rfield_byte off r : Spec.rfield (off, 1) r = nth (N.to_nat off) r 0.
Proof.
  unfold Spec.rfield, Spec.slice. cbn [fst snd]. change (N.to_nat 1) with 1%nat.
  rewrite <- (Nat.add_0_r (N.to_nat off)) at 2. rewrite <- nth_skipn'.
  destruct (skipn (N.to_nat off) r) as [|x t]; cbn [firstn Spec.le_val nth]; lia.
Qed.
Lemma attr_of_rfield r : attr_of r = Spec.rfield de_attr r.
Proof. unfold attr_of, byte_at. symmetry. apply rfield_byte. Qed.
Lemma attr2_rfield r : byte_at de_attr2 r = Spec.rfield de_attr2 r.
Proof. unfold byte_at. symmetry. apply rfield_byte. Qed.
Lemma lfn_ck_rfield r : lfn_ck r = Spec.rfield Gen.Fat.lfn_checksum r.
Proof. unfold lfn_ck, byte_at. symmetry. apply rfield_byte. Qed.
Lemma b0_nth r : b0 r = nth 0 r 0.
Proof. reflexivity. Qed.
Lemma lfn_fc_rfield r : lfn_fc r = Spec.rfield lfn_first_cluster r.
Proof.
  unfold lfn_fc, Spec.rfield, Spec.slice. cbn [lfn_first_cluster fst snd].
  change (N.to_nat 26) with 26%nat. change (N.to_nat 2) with 2%nat.
  rewrite <- (Nat.add_0_r 26) at 1. rewrite <- (nth_skipn' r 0 26 0).
  change 27%nat with (26 + 1)%nat. rewrite <- (nth_skipn' r 0 26 1).
  destruct (skipn 26 r) as [|x [|y t]]; cbn [firstn Spec.le_val nth]; lia.
Qed.
Lemma rstrip_sp_eq l : rstrip_c 32 l = Spec.rstrip_sp l.
Proof. induction l as [|x l IH]; [reflexivity|]. cbn [rstrip_c Spec.rstrip_sp]. rewrite IH. reflexivity. Qed.
Lemma units_eq b : units b = Spec.units b.
Proof. reflexivity. Qed.

(* ---------------- _split_entries in terms of Fat.Spec.short_name ---------------- *)
Lemma e5_subst (nm : list N) :
  match nm with 5 :: r => 229 :: r | _ => nm end =
  match nm with [] => [] | c :: t => if c =? 5 then 229 :: t else c :: t end.
Proof.
  destruct nm as [|c t]; [reflexivity|].
  destruct (N.eqb_spec c 5) as [->|H]; [reflexivity|].
  destruct c as [|p]; [reflexivity|]. do 3 (destruct p as [p|p|]; try reflexivity). congruence.
Qed.

Lemma split_spec_form lfns e :
  split lfns e =
  (do lfn <- match join lfns (sfn_checksum (fld de_filename e) (fld de_ext e)) 0%Z [] with
             | None => Ok None
             | Some b => decode_lfn b
             end;
   match Spec.rstrip_sp (Spec.rbytes de_filename e) with
   | [] => Err IndexError
   | _ => Ok (match lfn with Some l => l | None => fst (Spec.short_name e) end, snd (Spec.short_name e), e)
   end).
Proof.
  unfold split. destruct (match join lfns _ 0%Z [] with None => Ok None | Some b => decode_lfn b end) as [lfn|err];
    cbn [bind]; [|reflexivity].
  rewrite !rstrip_sp_eq, attr2_rfield.
  unfold Spec.short_name, Spec.sfn_text, Spec.rbytes, Spec.slice, fld. cbn [fst snd].
  set (nm := Spec.rstrip_sp (firstn (N.to_nat (snd de_filename)) (skipn (N.to_nat (fst de_filename)) e))).
  set (ex := Spec.rstrip_sp (firstn (N.to_nat (snd de_ext)) (skipn (N.to_nat (fst de_ext)) e))).
  rewrite e5_subst. change lower_b with Spec.lower_ascii.
  destruct nm as [|c t]; [reflexivity|].
  destruct lfn; destruct ex; reflexivity.
Qed.

(* ---------------- _join_lfn_entries on the records of _prefix_entries ---------------- *)
Lemma lfn_record_my sq ck c : length c = 26%nat ->
  let r := lfn_record sq ck c in
  b0 r = sq /\ lfn_fc r = 0 /\ lfn_ck r = ck /\ names26 r = c /\ attr_of r = 15 /\ length r = 32%nat.
Proof. intros H. explode c H 26. cbv zeta. repeat split; reflexivity. Qed.

Lemma numbered_length cs : forall s, length (numbered s cs) = length cs.
Proof. induction cs as [|c cs IH]; intros s; cbn; [reflexivity|]. rewrite IH. reflexivity. Qed.

(* the records numbered k .. 1 (on-disk order), met while expecting k *)
Lemma join_tail ck cs : forall acc,
  Forall (fun c => length c = 26%nat) cs -> (1 <= length cs < 64)%nat ->
  join (rev (map (mkrec ck) (numbered 1 cs))) ck (Z.of_nat (length cs)) acc = Some (concat cs ++ acc).
Proof.
  induction cs as [|c cs IH] using rev_ind; intros acc F L; [cbn in L; lia|].
  apply Forall_app in F as [F Fc]. apply Forall_inv in Fc.
  rewrite numbered_app, map_app, rev_app_distr. cbn [numbered map rev app]. unfold mkrec at 1. cbn [fst snd].
  rewrite app_length in *. cbn [length] in *.
  destruct (lfn_record_my (1 + N.of_nat (length cs)) ck c Fc) as (B0 & Fc0 & Ck & Nm & _).
  cbn [join]. rewrite Fc0, Ck, B0, Nm, !N.eqb_refl. cbn [negb N.eqb].
  rewrite land_64_small by lia. cbn [N.eqb negb].
  replace (Z.of_N (1 + N.of_nat (length cs)) =? Z.of_nat (length cs + 1))%Z with true by (symmetry; apply Z.eqb_eq; lia).
  cbn [negb]. destruct (Nat.eq_dec (length cs) 0) as [E|E].
  - apply length_zero_iff_nil in E. subst cs. cbn [length numbered map rev app concat Nat.add].
    rewrite app_nil_r. reflexivity.
  - assert (Lc : (1 <= length cs)%nat) by lia.
    replace (Z.of_nat (length cs + 1) =? 1)%Z with false by (symmetry; apply Z.eqb_neq; lia).
    replace (Z.of_nat (length cs + 1) - 1)%Z with (Z.of_nat (length cs)) by lia.
    rewrite IH by (assumption || lia). rewrite concat_app. cbn [concat]. rewrite app_nil_r, <- app_assoc. reflexivity.
Qed.

Lemma join_lfn_records ck lfn k :
  length lfn = (26 * k)%nat -> (1 <= k <= 20)%nat ->
  join (lfn_records ck lfn) ck 0%Z [] = Some lfn.
Proof.
  intros Hl Hk. unfold lfn_records. fold (mkrec ck).
  destruct (chunks26_spec k (length lfn) lfn Hl) as (Cc & L & F); [lia|].
  set (cs := chunks26 (length lfn) lfn) in *. clearbody cs.
  destruct (exists_last (l := cs)) as (cs' & cl & E); [intros ->; cbn in L; lia|].
  subst cs. pose proof F as Fall. apply Forall_app in F as [F Fl]. apply Forall_inv in Fl.
  rewrite app_length in L. cbn [length] in L.
  rewrite numbered_app, map_app, rev_app_distr. cbn [numbered map rev app]. unfold mkrec at 1. cbn [fst snd].
  rewrite (mark_last_record _ ck cl _ Fl).
  set (kk := 1 + N.of_nat (length cs')).
  destruct (lor_64_small kk) as (O1 & O2 & O3); [lia|].
  destruct (lfn_record_my (N.lor 64 kk) ck cl Fl) as (B0 & Fc0 & Ck & Nm & _).
  cbn [join]. rewrite Fc0, Ck, B0, Nm, !N.eqb_refl, O2, O3. cbn [N.eqb negb Pos.eqb].
  destruct (N.eqb_spec kk 0) as [Z0|_]; [lia|].
  destruct (Nat.eq_dec (length cs') 0) as [E|E].
  - apply length_zero_iff_nil in E. subst cs'. subst kk. cbn [length numbered map rev app concat N.of_nat N.add] in *.
    rewrite <- Cc. cbn [concat app]. rewrite app_nil_r. reflexivity.
  - assert (Lc : (1 <= length cs')%nat) by lia.
    destruct (N.eqb_spec kk 1) as [Z1|_]; [lia|].
    replace (Z.of_N kk - 1)%Z with (Z.of_nat (length cs')) by lia.
    rewrite join_tail by (assumption || lia). rewrite <- Cc, concat_app. cbn [concat]. rewrite app_nil_r. reflexivity.
Qed.

(* ---------------- decoding the padded UTF-16 text ---------------- *)
Lemma utf16_dec_app name : name_ok name = true -> forall rest,
  utf16_dec (utf16 name ++ rest) = match utf16_dec rest with Ok t => Ok (name ++ t) | Err e => Err e end.
Proof.
  induction name as [|c name IH]; intros H rest; [cbn; destruct (utf16_dec rest); reflexivity|].
  cbn [name_ok forallb] in H. apply andb_true_iff in H as [Hc Hn].
  apply andb_true_iff in Hc as [Hc H3]. apply andb_true_iff in Hc as [H1 H2].
  apply negb_true_iff in H1, H2. apply N.eqb_neq in H1. apply N.ltb_lt in H3.
  cbn [utf16 flat_map]. fold (utf16 name). rewrite <- app_assoc.
  unfold utf16_1, is_surrogate in *. destruct (N.ltb_spec c 65536) as [Hlt|Hge].
  - cbn [app utf16_dec].
    assert (S1 : (55296 <=? c) && (c <? 56320) = false).
    { apply andb_false_iff. apply andb_false_iff in H2 as [X|X]; [left; exact X|right; apply N.ltb_ge; apply N.ltb_ge in X; lia]. }
    assert (S2 : (56320 <=? c) && (c <? 57344) = false).
    { apply andb_false_iff. apply andb_false_iff in H2 as [X|X]; [left; apply N.leb_gt; apply N.leb_gt in X; lia|right; exact X]. }
    rewrite S1, S2, (IH Hn). destruct (utf16_dec rest); reflexivity.
  - pose proof (N.div_mod (c - 65536) 1024) as DM. pose proof (N.mod_lt (c - 65536) 1024) as ML.
    assert (DQ : (c - 65536) / 1024 < 1024) by (apply N.div_lt_upper_bound; lia).
    set (q := (c - 65536) / 1024) in *. set (r := (c - 65536) mod 1024) in *.
    cbn [app utf16_dec].
    replace ((55296 <=? 55296 + q) && (55296 + q <? 56320)) with true
      by (symmetry; apply andb_true_iff; split; [apply N.leb_le|apply N.ltb_lt]; lia).
    replace ((56320 <=? 56320 + r) && (56320 + r <? 57344)) with true
      by (symmetry; apply andb_true_iff; split; [apply N.leb_le|apply N.ltb_lt]; lia).
    rewrite (IH Hn). destruct (utf16_dec rest); [|reflexivity]. do 2 f_equal. lia.
Qed.
Lemma utf16_dec_plain l : Forall (fun c => c = 0 \/ c = 65535) l -> utf16_dec l = Ok l.
Proof.
  induction 1 as [|c l Hc _ IH]; [reflexivity|]. cbn [utf16_dec]. rewrite IH.
  destruct Hc as [-> | ->]; reflexivity.
Qed.

Lemma rstrip_repeat c k : rstrip_c c (repeat c k) = [].
Proof. induction k as [|k IH]; [reflexivity|]. cbn [repeat rstrip_c]. rewrite IH, N.eqb_refl. reflexivity. Qed.
Lemma rstrip_app_keep c l x t : x <> c -> rstrip_c c (l ++ x :: repeat c t) = l ++ [x].
Proof.
  intros Hx. induction l as [|y l IH]; cbn [app rstrip_c].
  - rewrite rstrip_repeat. destruct (N.eqb_spec x c); [contradiction|reflexivity].
  - rewrite IH. destruct l; reflexivity.
Qed.

Definition ends_ffff (name : list N) : bool := last_is name 65535.

(* the long name that _split_entries decodes from the padded text *)
Lemma decode_padded name : name_ok name = true -> name <> [] -> ends_ffff name = false ->
  decode_lfn (flat_map le16 (padded (utf16 name))) = Ok (Some name).
Proof.
  intros Hok Hne Hf. destruct (utf16_roundtrip name Hok) as (_ & J2 & _ & _).
  unfold decode_lfn. rewrite units_eq, (units_le16 _ (padded_lt _ J2)).
  unfold padded. rewrite (utf16_dec_app name Hok), utf16_dec_plain; cbn [bind].
  2:{ apply Forall_app. split.
      - unfold term_of. destruct (Nat.eqb _ _); constructor; [left; reflexivity|constructor].
      - apply Forall_forall. intros x Hx. apply repeat_spec in Hx. right. exact Hx. }
  set (p := pad_of (length (utf16 name) + length (term_of (length (utf16 name))))).
  assert (Hlast : exists l x, name = l ++ [x] /\ x <> 65535 /\ x <> 0).
  { destruct (exists_last Hne) as (l & x & E). exists l, x. split; [exact E|]. subst name.
    unfold ends_ffff, last_is in Hf. rewrite rev_app_distr in Hf. cbn [rev app] in Hf.
    split; [apply N.eqb_neq, Hf|].
    unfold name_ok in Hok. rewrite forallb_app in Hok. apply andb_true_iff in Hok as [_ Hx]. cbn [forallb] in Hx.
    intros ->. discriminate. }
  destruct Hlast as (l & x & E & Hx & Hx0).
  unfold term_of. destruct (Nat.eqb _ _).
  - cbn [app]. rewrite E, <- app_assoc. cbn [app]. rewrite (rstrip_app_keep 65535 l x p Hx).
    unfold last_is. rewrite rev_app_distr. cbn [rev app].
    destruct (N.eqb_spec x 0); [contradiction|]. destruct l; reflexivity.
  - cbn [app]. replace (name ++ 0 :: repeat 65535 p) with (name ++ 0 :: repeat 65535 p) by reflexivity.
    rewrite (rstrip_app_keep 65535 name 0 p) by discriminate.
    unfold last_is. rewrite rev_app_distr. cbn [rev app N.eqb]. rewrite removelast_last.
    destruct name; [congruence|reflexivity].
Qed.

(* ---------------- the records of a new long name ---------------- *)
Lemma count_from_in x n : forall s, In x (count_from s n) -> s <= x /\ x < s + N.of_nat n.
Proof.
  induction n as [|n IH]; intros s H; [contradiction|]. cbn [count_from] in H.
  destruct H as [<-|H]; [lia|]. apply IH in H. lia.
Qed.
Lemma ordinals_small k x : (k <= 20)%nat -> In x (ordinals k) -> x <> 229 /\ x <> 0.
Proof.
  intros Hk H. unfold ordinals in H. destruct k as [|k']; [contradiction|].
  destruct H as [<-|H]; [lia|]. apply in_rev, count_from_in in H. lia.
Qed.
Lemma rstrip_sp_nonempty l x : In x l -> x <> 32 -> Spec.rstrip_sp l <> [].
Proof.
  induction l as [|y l IH]; intros H Hx; [contradiction|]. cbn [Spec.rstrip_sp].
  destruct H as [->|H].
  - destruct (Spec.rstrip_sp l); [|discriminate]. destruct (N.eqb_spec x 32); [contradiction|discriminate].
  - specialize (IH H Hx). destruct (Spec.rstrip_sp l); [contradiction|discriminate].
Qed.

Definition len32 (recs : list rec) : Prop := Forall (fun r => length r = 32%nat) recs.

Lemma new_long name up existing entry recs_new :
  let sp := short_parts name up in
  case_attr name (fst sp) (snd sp) = None ->
  name <> [] -> name_ok name = true -> (length (utf16 name) <= 255)%nat -> ends_ffff name = false ->
  ~ In 229 up -> entry_ok entry ->
  prefix_entries name up existing entry = Ok recs_new ->
  exists lf sfn8 ext3,
    let s := short_record entry sfn8 ext3 0 in
    recs_new = lf ++ [s] /\ new_run lf s /\ len32 recs_new /\
    length sfn8 = 8%nat /\ length ext3 = 3%nat /\
    length lf = lfn_count (length (utf16 name)) /\
    split lf s = Ok (name, snd (Spec.short_name s), s).
Proof.
  cbv zeta. intros Cn Hne Hok Hl Hf Hu (Le & Ha15 & Ha8) H.
  destruct (utf16_roundtrip name Hok) as (J1 & J2 & J3 & Hsur).
  destruct (long_setup name up existing entry recs_new Cn Hne Hsur Hl H) as (sfn8 & ext3 & G & -> & Lk & Bk).
  assert (Hdot : is_dot_name name = false).
  { destruct (is_dot_name name) eqn:D; [|reflexivity]. rewrite (dot_name_short_only name up D) in Cn. discriminate. }
  destruct (alias_standard name up existing _ sfn8 ext3 0 Hdot G) as (L8 & L3 & V8 & _ & N229).
  assert (In126 : In 126 sfn8).
  { unfold get_names in G. rewrite Cn in G. destruct (lfn_encode name) as [l|e]; [|discriminate]. cbn [bind] in G.
    destruct (unique_sfn _ _ existing) as [alias|e] eqn:U; [|discriminate]. cbn [bind] in G. inversion G; subst.
    apply unique_sfn_least in U as (n & -> & _).
    unfold ljust. apply in_or_app. left. unfold latin1_replace. apply in_map_iff. exists 126. split; [reflexivity|].
    unfold alias_of. apply in_or_app. right. left. reflexivity. }
  set (ck := Spec.checksum (sfn8 ++ ext3)) in *.
  set (lfn := flat_map le16 (padded (utf16 name))) in *.
  destruct (short_record_facts entry sfn8 ext3 0 Le L8 L3) as (S1 & S2 & S3 & S4 & S5 & S6 & _ & _).
  set (s := short_record entry sfn8 ext3 0) in *.
  destruct (lfn_records_struct ck lfn _ Lk Bk) as (R1 & R2 & R3 & _).
  assert (B0 : nth 0 sfn8 0 <> 0 /\ nth 0 sfn8 0 <> 229).
  { destruct sfn8 as [|c r]; [discriminate|]. cbn [nth]. cbn [forallb] in V8.
    apply andb_true_iff in V8 as [Vc _]. split.
    - intros ->. discriminate.
    - intros ->. apply (N229 Hu). left. reflexivity. }
  exists (lfn_records ck lfn), sfn8, ext3. cbv zeta. fold s.
  assert (Ks : kind_of s = KLive).
  { apply kind_live_intro.
    - unfold is_lfn. rewrite S4. apply N.eqb_neq, Ha15.
    - rewrite S5. apply B0.
    - rewrite S5. apply B0.
    - rewrite S4. exact Ha8. }
  assert (Kl : Forall (fun r => kind_of r = KAcc) (lfn_records ck lfn)).
  { apply Forall_forall. intros r Hr. rewrite Forall_forall in R3. destruct (R3 r Hr) as [_ Ra _ _].
    assert (Hb : In (nth 0 r 0) (ordinals (lfn_count (length (utf16 name))))).
    { rewrite <- R2. apply in_map_iff. exists r. auto. }
    apply ordinals_small in Hb as [Hb _]; [|lia].
    unfold kind_of, is_lfn. rewrite attr_of_rfield, Ra. cbn [N.eqb Pos.eqb].
    unfold b0. destruct (N.eqb_spec (nth 0 r 0) 229); [contradiction|reflexivity]. }
  repeat split; try assumption.
  - apply Forall_app. split; [|constructor; [exact S6|constructor]].
    apply Forall_forall. intros r Hr. rewrite Forall_forall in R3. destruct (R3 r Hr) as [Rl _ _ _]. exact Rl.
  - rewrite split_spec_form. change (Spec.rbytes de_filename s) with (fld de_filename s).
    rewrite S1, S2, checksum_standard. fold ck.
    rewrite (join_lfn_records ck lfn _ Lk Bk). subst lfn. rewrite (decode_padded name Hok Hne Hf). cbn [bind].
    destruct (Spec.rstrip_sp sfn8) eqn:Q; [|reflexivity].
    exfalso. apply (rstrip_sp_nonempty sfn8 126 In126); [discriminate|exact Q].
Qed.

(* ---------------- a new short-only name ---------------- *)
Lemma no63_valid c : sfn_valid_char c = true -> c <> 63 /\ lower_b c <> 63.
Proof.
  intros H. pose proof (valid_lt256 c H) as Hlt.
  apply (small_cases (fun c => negb (sfn_valid_char c) || (negb (c =? 63) && negb (lower_b c =? 63))) 256) in Hlt;
    [|vm_compute; reflexivity].
  rewrite H in Hlt. cbn [negb orb] in Hlt. apply andb_true_iff in Hlt as [A B].
  apply negb_true_iff in A, B. apply N.eqb_neq in A, B. auto.
Qed.
Lemma latin1_no63 name l : latin1_replace name = l -> ~ In 63 l -> latin1_replace name = name.
Proof.
  intros <- H. induction name as [|c name IH]; [reflexivity|]. cbn [latin1_replace map] in *.
  destruct (N.ltb_spec c 256).
  - f_equal. apply IH. intros Hin. apply H. right. exact Hin.
  - exfalso. apply H. left. reflexivity.
Qed.
Lemma case_attr_latin1 name up a :
  let sp := short_parts name up in
  case_attr name (fst sp) (snd sp) = Some a -> latin1_replace name = name.
Proof.
  cbv zeta. intros Cs. destruct (is_dot_name name) eqn:D.
  { apply is_dot_name_cases in D as [-> | ->]; reflexivity. }
  destruct (short_parts_valid name up D) as [Vs Ve].
  set (sfn := fst (short_parts name up)) in *. set (ext := snd (short_parts name up)) in *.
  assert (N1 : forall l, allv l -> ~ In 63 l /\ ~ In 63 (map lower_b l)).
  { intros l Hl. unfold allv in Hl. rewrite forallb_forall in Hl. split.
    - intros Hin. apply (proj1 (no63_valid 63 (Hl _ Hin))). reflexivity.
    - intros Hin. apply in_map_iff in Hin as (c & Hc & Hin). apply (proj2 (no63_valid c (Hl _ Hin))). exact Hc. }
  assert (N2 : forall x y, ~ In 63 x -> ~ In 63 y -> ~ In 63 (make_sfn x y)).
  { intros x y Hx Hy. unfold make_sfn. destruct y; [exact Hx|]. intros Hin.
    apply in_app_or in Hin as [Hin|Hin]; [auto|]. cbn [app] in Hin. destruct Hin as [Hin|Hin]; [discriminate|auto]. }
  destruct (N1 sfn Vs) as [A1 A2]. destruct (N1 ext Ve) as [B1 B2].
  apply case_attr_cases in Cs. destruct Cs as [[_ E]|[[_ E]|[[_ E]|[_ E]]]];
    eapply latin1_no63; try exact E; apply N2; assumption.
Qed.

Lemma new_short name up existing entry a :
  let sp := short_parts name up in
  case_attr name (fst sp) (snd sp) = Some a -> fst sp <> [] ->
  ~ In 229 up -> entry_ok entry ->
  let s := short_record entry (ljust 8 32 (fst sp)) (ljust 3 32 (snd sp)) a in
  prefix_entries name up existing entry = Ok [s] /\ new_run [] s /\ length s = 32%nat /\
  split [] s = Ok (name, make_sfn (fst sp) (snd sp), s).
Proof.
  cbv zeta. intros Cs Hne Hu (Le & Ha15 & Ha8).
  destruct (short_only_shows_name name up existing entry a Cs Le) as (P & _ & SN).
  destruct (short_parts_clean name up) as (N32 & _ & _).
  pose proof (case_attr_lengths _ _ _ _ Cs) as [L8 L3].
  set (sfn := fst (short_parts name up)) in *. set (ext := snd (short_parts name up)) in *.
  destruct (short_record_facts entry (ljust 8 32 sfn) (ljust 3 32 ext) a Le
              (ljust_length 8 32 sfn L8) (ljust_length 3 32 ext L3)) as (S1 & S2 & S3 & S4 & S5 & S6 & _ & _).
  set (s := short_record entry (ljust 8 32 sfn) (ljust 3 32 ext) a) in *.
  assert (Hhd : exists c t, sfn = c :: t /\ c <> 0 /\ c <> 229).
  { destruct sfn as [|c t] eqn:E; [congruence|]. exists c, t. split; [reflexivity|].
    destruct (is_dot_name name) eqn:D.
    - unfold sfn, short_parts in E. rewrite D in E. cbn [fst] in E.
      apply is_dot_name_cases in D as [-> | ->]; inversion E; split; discriminate.
    - destruct (short_parts_valid name up D) as [Vs _]. fold sfn in Vs. rewrite E in Vs.
      unfold allv in Vs. cbn [forallb] in Vs. apply andb_true_iff in Vs as [Vc _].
      destruct (no_e5_parts name up D Hu) as [Ns _]. fold sfn in Ns. rewrite E in Ns. split.
      + intros ->. discriminate.
      + intros ->. apply Ns. left. reflexivity. }
  destruct Hhd as (c & t & Es & Hc0 & Hc229).
  assert (B : b0 s = c) by (rewrite S5, Es; reflexivity).
  split; [exact P|]. split; [|split; [exact S6|]].
  - split; [constructor|]. apply kind_live_intro.
    + unfold is_lfn. rewrite S4. apply N.eqb_neq, Ha15.
    + rewrite B. exact Hc0.
    + rewrite B. exact Hc229.
    + rewrite S4. exact Ha8.
  - rewrite split_spec_form. cbn [join bind]. change (Spec.rbytes de_filename s) with (fld de_filename s).
    rewrite S1, (rstrip_sp_ljust sfn 8 N32), Es.
    fold s in SN. rewrite SN. cbn [fst snd]. rewrite (case_attr_latin1 name up a Cs). rewrite <- Es. reflexivity.
Qed.
