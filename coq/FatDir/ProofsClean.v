(* _clean_entries: on a tidy region (no orphaned live long-name records) the compaction keeps
   what every reader sees. *)
From Coq Require Import List NArith ZArith Bool Lia Arith ZifyN ZifyNat ZifyBool.
From NV Require Import Lib.Res Gen.Fat FatNames.Model FatNames.ProofsValid FatDir.Model FatDir.ProofsBase FatDir.ProofsView.
Import ListNotations.
Open Scope N_scope.

(* no live long-name record is left without its short record: whenever the scan meets a
   deleted entry, a label, the terminator or the end of the region nothing is pending *)
Fixpoint tidy_from (recs : list rec) (pending : bool) : bool :=
  match recs with
  | [] => negb pending
  | r :: rest =>
    match kind_of r with
    | KSkip => tidy_from rest pending
    | KAcc => tidy_from rest true
    | KEnd => negb pending
    | KReset => negb pending && tidy_from rest false
    | KLive => tidy_from rest false
    end
  end.
Definition tidy (recs : list rec) : bool := tidy_from recs false.
Definition wf_recs (recs : list rec) : Prop := Forall (fun r => length r = 32%nat) recs.

(* ---------------- re-packing a record ---------------- *)
Lemma repack_fields r : length r = 32%nat ->
  b0 (repack r) = b0 r /\ attr_of (repack r) = attr_of r /\ lfn_fc (repack r) = lfn_fc r /\
  lfn_ck (repack r) = lfn_ck r /\ names26 (repack r) = names26 r /\ length (repack r) = 32%nat.
Proof.
  intros H. explode r H 32. unfold repack, is_lfn, attr_of, byte_at. cbn [de_attr fst N.to_nat Pos.to_nat Pos.iter_op Nat.add nth].
  destruct (_ =? 15); repeat split; reflexivity.
Qed.
Lemma repack_short r : is_lfn r = false -> repack r = r.
Proof. unfold repack. intros ->. reflexivity. Qed.
Lemma kind_fields r r' : b0 r' = b0 r -> attr_of r' = attr_of r -> kind_of r' = kind_of r.
Proof. intros H1 H2. unfold kind_of, is_lfn. rewrite H1, H2. reflexivity. Qed.
Lemma kind_repack r : length r = 32%nat -> kind_of (repack r) = kind_of r.
Proof. intros H. destruct (repack_fields r H) as (H1 & H2 & _). apply kind_fields; assumption. Qed.

(* ---------------- join reads only four fields ---------------- *)
Definition feq (h h' : rec) : Prop :=
  lfn_fc h' = lfn_fc h /\ lfn_ck h' = lfn_ck h /\ b0 h' = b0 h /\ names26 h' = names26 h.
Lemma join_ext es es' : Forall2 feq es es' ->
  forall ck sq lfn, join es' ck sq lfn = join es ck sq lfn.
Proof.
  induction 1 as [|h h' t t' (F1 & F2 & F3 & F4) Ht IH]; intros ck sq lfn; [reflexivity|].
  cbn [join]. rewrite F1, F2, F3, F4, !IH.
  destruct Ht; reflexivity.
Qed.

Definition req (r r' : rec) : Prop := length r = 32%nat /\ (r' = r \/ r' = repack r).
Lemma req_feq r r' : req r r' -> feq r r'.
Proof.
  intros [L [->| ->]]; [repeat split; reflexivity|].
  destruct (repack_fields r L) as (H1 & H2 & H3 & H4 & H5 & _). repeat split; assumption.
Qed.
Lemma req_forall2_feq a a' : Forall2 req a a' -> Forall2 feq a a'.
Proof. induction 1; constructor; [apply req_feq|]; assumption. Qed.

Definition greq (g g' : group) : Prop := Forall2 req (g_lfns g) (g_lfns g') /\ g_short g' = g_short g.
Lemma greq_split g g' : greq g g' -> split_g g' = split_g g.
Proof.
  intros [H1 H2]. unfold split_g, split. rewrite H2, (join_ext _ _ (req_forall2_feq _ _ H1)). reflexivity.
Qed.
Lemma greq_view gs gs' : Forall2 greq gs gs' -> map split_g gs' = map split_g gs.
Proof. induction 1 as [|g g' t t' Hg Ht IH]; [reflexivity|]. cbn [map]. rewrite IH, (greq_split _ _ Hg). reflexivity. Qed.

(* ---------------- the compaction keeps the groups ---------------- *)
Definition ends_here (Z : list rec) : Prop := Z = [] \/ exists z Z', Z = z :: Z' /\ kind_of z = KEnd.
Lemma groups_ends_here Z idx acc : ends_here Z -> groups_from Z idx acc = [].
Proof. intros [->|(z & Z' & -> & K)]; [reflexivity|]. rewrite groups_from_cons, K. reflexivity. Qed.

Lemma kind_end_test r : (negb (is_lfn r) && (b0 r =? 0) = true) <-> kind_of r = KEnd.
Proof.
  unfold kind_of. destruct (is_lfn r); cbn [negb andb].
  - destruct (b0 r =? 229); split; discriminate.
  - destruct (b0 r =? 0); [tauto|]. destruct (negb (N.land _ _ =? 0)); [split; discriminate|].
    destruct (negb (b0 r =? 229)); split; discriminate.
Qed.

Lemma clean_groups_gen recs : forall moved pending idx idx' acc acc' Z,
  wf_recs recs -> tidy_from recs pending = true -> (pending = false -> acc = []) ->
  Forall2 req acc acc' ->
  exists gs' : list group, groups_from (fst (clean_go recs moved) ++ Z) idx' acc' =
              gs' ++ groups_from Z (idx' + N.of_nat (length (fst (clean_go recs moved)))) [] /\
              Forall2 greq (groups_from recs idx acc) gs'.
Proof.
  induction recs as [|r rest IH]; intros moved pending idx idx' acc acc' Z W T P A.
  { cbn [clean_go fst app groups_from length tidy_from] in *. apply negb_true_iff in T. specialize (P T). subst acc.
    inversion A; subst. exists []. rewrite N.add_0_r. split; [reflexivity|constructor]. }
  inversion W as [|? ? Lr Wrest]; subst.
  cbn [clean_go tidy_from] in *. rewrite groups_from_cons.
  destruct (kind_of r) eqn:K.
  - (* deleted long-name record *)
    destruct (kind_skip_facts r K) as [Hl Hd]. unfold live in Hd. apply negb_false_iff in Hd.
    rewrite Hl, Hd. cbn [negb andb]. apply (IH true pending (idx + 1) idx' acc acc' Z Wrest T P A).
  - (* live long-name record *)
    destruct (kind_acc_facts r K) as [Hl Hd]. unfold live in Hd. apply negb_true_iff in Hd.
    rewrite Hl, Hd. cbn [negb andb fst app length].
    set (r' := if moved then repack r else r).
    assert (Kr' : kind_of r' = KAcc) by (subst r'; destruct moved; [rewrite kind_repack|]; assumption).
    rewrite groups_from_cons, Kr'.
    destruct (IH moved true (idx + 1) (idx' + 1) (acc ++ [r]) (acc' ++ [r']) Z Wrest T) as (gs' & E & F).
    + intros X; discriminate X.
    + apply Forall2_app; [exact A|]. constructor; [|constructor]. split; [exact Lr|]. subst r'. destruct moved; auto.
    + exists gs'. split; [|exact F]. rewrite E. do 2 f_equal. lia.
  - (* terminator: nothing pending *)
    apply negb_true_iff in T. specialize (P T). subst acc. inversion A; subst.
    apply kind_end_test in K. rewrite K. cbn [fst app length]. exists []. rewrite N.add_0_r. split; [reflexivity|constructor].
  - (* deleted entry or label *)
    apply andb_true_iff in T as [Tp T]. apply negb_true_iff in Tp. specialize (P Tp). subst acc.
    inversion A; subst.
    assert (Kend : negb (is_lfn r) && (b0 r =? 0) = false).
    { destruct (negb (is_lfn r) && (b0 r =? 0)) eqn:X; [|reflexivity]. apply kind_end_test in X. congruence. }
    rewrite Kend. destruct (b0 r =? 229) eqn:B.
    + apply (IH true false (idx + 1) idx' [] [] Z Wrest T (fun _ => eq_refl) (Forall2_nil _)).
    + cbn [fst app length]. set (r' := if moved then repack r else r).
      assert (Kr' : kind_of r' = KReset) by (subst r'; destruct moved; [rewrite kind_repack|]; assumption).
      rewrite groups_from_cons, Kr'.
      destruct (IH moved false (idx + 1) (idx' + 1) [] [] Z Wrest T (fun _ => eq_refl) (Forall2_nil _)) as (gs' & E & F).
      exists gs'. split; [|exact F]. rewrite E. do 2 f_equal. lia.
  - (* live entry *)
    destruct (kind_live_facts r K) as (Hl & H0 & H229 & _).
    assert (Kend : negb (is_lfn r) && (b0 r =? 0) = false).
    { destruct (negb (is_lfn r) && (b0 r =? 0)) eqn:X; [|reflexivity]. apply kind_end_test in X. congruence. }
    rewrite Kend. destruct (N.eqb_spec (b0 r) 229); [contradiction|]. cbn [fst app length].
    assert (Er' : (if moved then repack r else r) = r) by (destruct moved; [apply repack_short, Hl|reflexivity]).
    rewrite Er', groups_from_cons, K.
    destruct (IH moved false (idx + 1) (idx' + 1) [] [] Z Wrest T (fun _ => eq_refl) (Forall2_nil _)) as (gs' & E & F).
    exists ((idx', acc', r) :: gs'). split.
    + cbn [app]. rewrite E. do 3 f_equal. lia.
    + constructor; [split; [exact A|reflexivity]|exact F].
Qed.

Lemma clean_groups recs moved idx idx' Z :
  wf_recs recs -> tidy recs = true -> ends_here Z ->
  Forall2 greq (groups_from recs idx []) (groups_from (fst (clean_go recs moved) ++ Z) idx' []).
Proof.
  intros W T E.
  destruct (clean_groups_gen recs moved false idx idx' [] [] Z W T (fun _ => eq_refl) (Forall2_nil _)) as (gs' & Eg & F).
  rewrite Eg, (groups_ends_here Z _ _ E), app_nil_r. exact F.
Qed.

(* ---------------- shape of the compacted region ---------------- *)
Lemma clean_go_struct recs : forall moved, wf_recs recs ->
  exists pre, recs = pre ++ snd (clean_go recs moved) /\ ends_here (snd (clean_go recs moved)) /\
    (length (fst (clean_go recs moved)) <= length pre)%nat /\
    Forall (fun r => b0 r <> 229 /\ kind_of r <> KEnd /\ length r = 32%nat) (fst (clean_go recs moved)).
Proof.
  induction recs as [|r rest IH]; intros moved W.
  { exists []. cbn. repeat split; [left; reflexivity|lia|constructor]. }
  inversion W as [|? ? Lr Wrest]; subst. cbn [clean_go].
  destruct (negb (is_lfn r) && (b0 r =? 0)) eqn:X.
  - exists []. cbn [fst snd app length]. repeat split; [|lia|constructor].
    right. exists r, rest. split; [reflexivity|]. apply kind_end_test, X.
  - destruct (N.eqb_spec (b0 r) 229) as [B|B].
    + destruct (IH true Wrest) as (pre & E & EH & L & F).
      exists (r :: pre). cbn [app length].
      split; [congruence|]. split; [exact EH|]. split; [lia|exact F].
    + destruct (IH moved Wrest) as (pre & E & EH & L & F).
      exists (r :: pre). cbn [fst snd app length].
      split; [congruence|]. split; [exact EH|]. split; [lia|].
      constructor; [|exact F].
      assert (Kn : kind_of r <> KEnd) by (intros K; apply kind_end_test in K; congruence).
      destruct moved; [|auto].
      destruct (repack_fields r Lr) as (H1 & _ & _ & _ & _ & H6). rewrite kind_repack, H1 by exact Lr. auto.
Qed.

Lemma kind_zero_rec : kind_of zero_rec = KEnd.
Proof. reflexivity. Qed.

(* C10 clean_preserves_listing *)
Theorem clean_preserves_listing upper d :
  wf_recs (d_recs d) -> tidy (d_recs d) = true ->
  let d' := fst (clean d) in
  let eof := snd (clean d) in
  view (d_recs d') = view (d_recs d) /\
  (forall name, getitem upper d' name = getitem upper d name) /\
  (forall name, contains upper d' name = contains upper d name) /\
  listing d' = listing d /\ items d' = items d /\
  d_cap d' = d_cap d /\ length (d_recs d') = length (d_recs d) /\
  exists kept m pre rem,
    d_recs d' = kept ++ repeat zero_rec m ++ rem /\ d_recs d = pre ++ rem /\
    length pre = (length kept + m)%nat /\ eof = rlen kept /\ ends_here rem /\
    Forall (fun r => b0 r <> 229 /\ kind_of r <> KEnd /\ length r = 32%nat) kept /\
    kept = fst (clean_go (d_recs d) false).
Proof.
  intros W T. cbv zeta. unfold clean, clean_recs. cbn [fst snd d_recs d_cap].
  destruct (clean_go_struct (d_recs d) false W) as (pre & E & EH & L & F).
  pose proof (f_equal (@length _) E) as LE. rewrite app_length in LE.
  set (k := fst (clean_go (d_recs d) false)) in *. set (rem := snd (clean_go (d_recs d) false)) in *.
  assert (Len : (length (d_recs d) - length k - length rem = length pre - length k)%nat).
  { lia. }
  assert (V : view (k ++ repeat zero_rec (length (d_recs d) - length k - length rem) ++ rem) = view (d_recs d)).
  { unfold view, groups. apply greq_view. apply (clean_groups (d_recs d) false 0 0 _ W T).
    destruct (length (d_recs d) - length k - length rem)%nat as [|m]; [exact EH|].
    right. eexists _, _. split; [reflexivity|exact kind_zero_rec]. }
  split; [exact V|].
  pose proof (same_view upper d {| d_recs := k ++ repeat zero_rec (length (d_recs d) - length k - length rem) ++ rem;
                                   d_cap := d_cap d |} V) as (S1 & S2 & S3 & S4).
  repeat split; try assumption.
  - rewrite !app_length, repeat_length, Len. lia.
  - exists k, (length pre - length k)%nat, pre, rem. rewrite Len. repeat split; try assumption; try reflexivity. lia.
Qed.

(* without tidiness the compaction can hand an orphaned long name to the next entry: a
   half-deleted entry (short record marked, long-name record still live, as left by a crash
   in __delitem__) followed by an entry whose 8.3 name has the same checksum *)
Definition orphan_region : list rec :=
  [ [65; 111;0; 108;0; 100;0; 255;255; 255;255; 15; 0; 128; 255;255;255;255;255;255;255;255;255;255;255;255; 0;0; 255;255;255;255];
    [229;32;32;32;32;32;32;32;32;32;32; 32; 0;0;0;0;0;0;0;0;0;0;0;0;0;0;0;0;0;0;0;0];
    [65;32;32;32;32;32;32;32;32;32;32; 32; 0;0;0;0;0;0;0;0;0;0;0;0;0;0;0;0;0;0;0;0];
    zero_rec ].
Example clean_needs_tidy :
  tidy orphan_region = false /\
  listing {| d_recs := orphan_region; d_cap := Some 4 |} = Ok [[65]] /\
  listing (fst (clean {| d_recs := orphan_region; d_cap := Some 4 |})) = Ok [[111; 108; 100]].
Proof. vm_compute. repeat split. Qed.
