(* The append branch of __setitem__: the writes as one segment written back to front, growth
   of a sub-directory, ENOSPC on a fixed root, the retry after _clean_entries. *)
From Coq Require Import List NArith ZArith Bool Lia Arith ZifyN ZifyNat ZifyBool.
From NV Require Import Lib.Res Gen.Fat FatNames.Model FatNames.ProofsValid
     FatDir.Model FatDir.ProofsBase FatDir.ProofsView FatDir.ProofsClean FatDir.ProofsOps.
Import ListNotations.
Open Scope N_scope.

(* ---------------- reversed(zip(offsets, entries)) ---------------- *)
Lemma append_pokes_down news : forall e,
  append_pokes e news = offsets_down (e + N.of_nat (length news) - 1) (rev news).
Proof.
  unfold append_pokes. induction news as [|r t IH]; intros e; [reflexivity|].
  cbn [offsets_from rev length]. rewrite IH, offsets_down_app, rev_length. cbn [offsets_down].
  replace (e + 1 + N.of_nat (length t) - 1) with (e + N.of_nat (S (length t)) - 1) by lia.
  replace (e + N.of_nat (S (length t)) - 1 - N.of_nat (length t)) with e by lia. reflexivity.
Qed.

Lemma skipn_add {A} (R : list A) : forall e m, skipn m (skipn e R) = skipn (e + m) R.
Proof.
  induction R as [|a R IH]; intros e m; [rewrite !skipn_nil; reflexivity|].
  destruct e as [|e]; [reflexivity|]. cbn [skipn Nat.add]. apply IH.
Qed.
Lemma region_split {A} (R : list A) e m : (e + m <= length R)%nat ->
  R = firstn e R ++ firstn m (skipn e R) ++ skipn (e + m) R /\
  length (firstn e R) = e /\ length (firstn m (skipn e R)) = m.
Proof.
  intros H. repeat split.
  - rewrite <- skipn_add, firstn_skipn, firstn_skipn. reflexivity.
  - rewrite firstn_length. lia.
  - rewrite firstn_length, skipn_length. lia.
Qed.

(* ---------------- growth ---------------- *)
Lemma grown_cases spc recs i : 0 < spc ->
  (i < rlen recs /\ grown spc recs i = recs) \/
  (rlen recs <= i /\ exists z, grown spc recs i = recs ++ repeat zero_rec z /\ i < rlen recs + N.of_nat z).
Proof.
  intros Hs. unfold grown. destruct (N.ltb_spec i (rlen recs)) as [H|H]; [left; auto|right].
  split; [exact H|]. eexists. split; [reflexivity|].
  pose proof (N.div_mod i spc). pose proof (N.mod_lt i spc). nia.
Qed.
Lemma grown_facts spc recs i : 0 < spc ->
  i < rlen (grown spc recs i) /\ (exists z, grown spc recs i = recs ++ repeat zero_rec z) /\
  grown spc (grown spc recs i) i = grown spc recs i.
Proof.
  intros Hs.
  assert (A : i < rlen (grown spc recs i) /\ exists z, grown spc recs i = recs ++ repeat zero_rec z).
  { destruct (grown_cases spc recs i Hs) as [[H ->]|(H & z & -> & Hz)].
    - split; [exact H|exists 0%nat; rewrite app_nil_r; reflexivity].
    - split; [unfold rlen in *; rewrite app_length, repeat_length; lia|exists z; reflexivity]. }
  destruct A as [A1 A2]. repeat split; [exact A1|exact A2|].
  destruct (grown_cases spc (grown spc recs i) i Hs) as [[_ E]|[H _]]; [exact E|lia].
Qed.

Definition cover (spc : N) (d : dir) (hi : N) : dir :=
  match d_cap d with
  | Some _ => d
  | None => {| d_recs := grown spc (d_recs d) hi; d_cap := None |}
  end.
Lemma pokes_cover spc d hi x rest : 0 < spc ->
  pokes spc d ((hi, x) :: rest) = pokes spc (cover spc d hi) ((hi, x) :: rest).
Proof.
  intros Hs. unfold cover. destruct d as [recs [n|]]; cbn [d_cap d_recs]; [reflexivity|].
  cbn [pokes poke d_cap d_recs]. destruct (grown_facts spc recs hi Hs) as (_ & _ & ->). reflexivity.
Qed.
Lemma cap_ok_cover spc d hi : cap_ok d -> cap_ok (cover spc d hi).
Proof. unfold cover, cap_ok. destruct (d_cap d) eqn:Q; [rewrite Q; auto|]. cbn. auto. Qed.

(* ---------------- the append fits ---------------- *)
Definition fits (d : dir) (hi : N) : Prop := match d_cap d with Some n => hi < n | None => True end.

Lemma append_fits spc d e news :
  cap_ok d -> 0 < spc -> e <= rlen (d_recs d) -> news <> [] ->
  let hi := e + N.of_nat (length news) - 1 in
  fits d hi ->
  let R := d_recs (cover spc d hi) in
  (forall k, (1 <= k <= length news)%nat ->
     pokes spc d (firstn k (append_pokes e news)) =
     ({| d_recs := firstn (N.to_nat e + (length news - k)) R ++ skipn (length news - k) news ++
                   skipn (N.to_nat e + length news) R; d_cap := d_cap d |}, None)) /\
  firstn (N.to_nat e) R = firstn (N.to_nat e) (d_recs d) /\
  (N.to_nat e + length news <= length R)%nat.
Proof.
  intros C Hs He Hn hi Hf R.
  assert (Ln : (1 <= length news)%nat) by (destruct news; [congruence|cbn; lia]).
  assert (HR : hi < rlen R).
  { subst R. unfold cover, fits, cap_ok in *. destruct (d_cap d) as [n|]; cbn [d_recs].
    - subst n. exact Hf.
    - apply (grown_facts spc (d_recs d) hi Hs). }
  assert (Hlen : (N.to_nat e + length news <= length R)%nat) by (unfold rlen in HR; lia).
  assert (Hfirst : firstn (N.to_nat e) R = firstn (N.to_nat e) (d_recs d)).
  { subst R. unfold cover. destruct (d_cap d); [reflexivity|]. cbn [d_recs].
    destruct (grown_facts spc (d_recs d) hi Hs) as (_ & (z & ->) & _).
    rewrite firstn_app. replace (N.to_nat e - length (d_recs d))%nat with 0%nat by (unfold rlen in He; lia).
    cbn [firstn]. apply app_nil_r. }
  split; [|split; assumption].
  intros k Hk.
  destruct (region_split R (N.to_nat e) (length news) Hlen) as (ER & L1 & L2).
  set (pre := firstn (N.to_nat e) R) in *. set (seg := firstn (length news) (skipn (N.to_nat e) R)) in *.
  set (post := skipn (N.to_nat e + length news) R) in *.
  assert (Ecap : d_cap (cover spc d hi) = d_cap d) by (unfold cover; destruct (d_cap d) eqn:Q; [exact Q|reflexivity]).
  assert (Epk : append_pokes e news = offsets_down (N.of_nat (length pre + length news) - 1) (rev news)).
  { rewrite append_pokes_down, L1. f_equal. lia. }
  assert (Hgo : pokes spc d (firstn k (append_pokes e news)) = pokes spc (cover spc d hi) (firstn k (append_pokes e news))).
  { destruct k as [|k]; [lia|].
    rewrite append_pokes_down. destruct (rev news) as [|x l] eqn:Erev.
    - apply (f_equal (@length _)) in Erev. rewrite rev_length in Erev. cbn in Erev. lia.
    - cbn [offsets_down firstn]. apply pokes_cover, Hs. }
  rewrite Hgo, Epk.
  rewrite (pokes_segment_prefix spc news (cover spc d hi) pre seg post k (cap_ok_cover _ _ _ C) ER L2 (proj2 Hk)).
  rewrite Ecap. f_equal. f_equal. rewrite app_assoc. f_equal.
  subst pre seg. rewrite firstn_firstn, Nat.min_l by lia.
  rewrite <- (firstn_skipn (N.to_nat e) R) at 3.
  rewrite firstn_app, L1. rewrite (firstn_all2 (n := N.to_nat e + (length news - k))) by (rewrite firstn_length; lia).
  f_equal. f_equal. lia.
Qed.

(* ---------------- the append does not fit ---------------- *)
Lemma append_enospc spc d e news n :
  d_cap d = Some n -> news <> [] -> n <= e + N.of_nat (length news) - 1 ->
  pokes spc d (append_pokes e news) = (d, Some OSError_ENOSPC).
Proof.
  intros Hc Hn Hle. rewrite append_pokes_down. destruct (rev news) as [|x l] eqn:Erev.
  - apply (f_equal (@length _)) in Erev. rewrite rev_length in Erev. destruct news; [congruence|discriminate].
  - cbn [offsets_down pokes]. unfold poke. rewrite Hc.
    destruct (N.leb_spec n (e + N.of_nat (length news) - 1)); [reflexivity|lia].
Qed.

(* ---------------- the group the new records form ---------------- *)
Definition new_run (lf : list rec) (s : rec) : Prop :=
  Forall (fun r => kind_of r = KAcc) lf /\ kind_of s = KLive.
Lemma groups_new lf s X e : new_run lf s ->
  groups_from (lf ++ s :: zero_rec :: X) e [] = [(e + N.of_nat (length lf), lf, s)].
Proof.
  intros [Hl Hs].
  assert (F : Forall (fun r => is_lfn r = true) lf /\ filter live lf = lf).
  { induction Hl as [|r lf Hr _ [IH1 IH2]]; [split; [constructor|reflexivity]|].
    destruct (kind_acc_facts r Hr) as [A B]. split; [constructor; assumption|]. cbn [filter]. rewrite B, IH2. reflexivity. }
  destruct F as [F1 F2]. rewrite groups_lfn_block by exact F1. rewrite F2. cbn [app].
  rewrite groups_from_cons, Hs, groups_from_cons, kind_zero_rec. reflexivity.
Qed.

Lemma find_none_split_all upper kl ks gs :
  find upper kl ks gs = Ok None -> exists xs, split_all gs = Ok xs.
Proof.
  induction gs as [|g gs IH]; [exists []; reflexivity|]. cbn [find split_all].
  destruct (split_g g) as [x|e]; cbn [bind]; [|discriminate].
  destruct (_ || _); [discriminate|]. intros H. destruct (IH H) as (xs & ->). eexists. reflexivity.
Qed.

Section Append.
Variable upper : list N -> list N.
Variables (spc : N) (d : dir) (name entry : list N) (recs_new lf : list rec) (s : rec).
Hypothesis W : wf_recs (d_recs d).
Hypothesis C : cap_ok d.
Hypothesis Hs : 0 < spc.
Hypothesis Absent : find upper (upper name) (upper name) (groups (d_recs d)) = Ok None.
Hypothesis Made :
  (do xs <- split_all (groups (d_recs d));
   prefix_entries name (upper (lstrip_dots name)) (existing_of upper xs) entry) = Ok recs_new.
Hypothesis Shape : recs_new = lf ++ [s].
Hypothesis Run : new_run lf s.

Let e0 := last_end (groups (d_recs d)).
Let k := N.of_nat (length recs_new).
Let news := recs_new ++ [zero_rec].

Lemma news_facts : news <> [] /\ N.of_nat (length news) = k + 1 /\ e0 + N.of_nat (length news) - 1 = e0 + k.
Proof.
  subst news k. rewrite app_length. cbn [length]. repeat split; try lia. destruct recs_new; discriminate.
Qed.
Lemma e0_range : e0 <= rlen (d_recs d).
Proof.
  subst e0. unfold groups. destruct (groups_from (d_recs d) 0 []) eqn:G; [cbn; lia|].
  assert (G' : groups_from (d_recs d) 0 [] <> []) by (rewrite G; discriminate).
  pose proof (last_end_range _ _ _ G') as R. rewrite G in R. unfold rlen. lia.
Qed.

Lemma setitem_unfold :
  setitem upper spc d name entry =
  match pokes spc d (append_pokes e0 news) with
  | (d1, Some OSError_ENOSPC) => let c := clean d1 in pokes spc (fst c) (append_pokes (snd c) news)
  | other => other
  end.
Proof. unfold setitem. rewrite Absent, Made. reflexivity. Qed.

(* first attempt: a sub-directory, or a root with e0 + k + 1 slots *)
Lemma append_first_fits : fits d (e0 + k) ->
  exists d', setitem upper spc d name entry = (d', None) /\ d_cap d' = d_cap d /\
    groups (d_recs d') = groups (d_recs d) ++ [(e0 + N.of_nat (length lf), lf, s)] /\
    firstn (N.to_nat e0) (d_recs d') = firstn (N.to_nat e0) (d_recs d) /\
    exists X, d_recs d' = firstn (N.to_nat e0) (d_recs d) ++ recs_new ++ zero_rec :: X.
Proof.
  intros Hf. destruct news_facts as (Nn & Nl & Nh).
  assert (Hf' : fits d (e0 + N.of_nat (length news) - 1)) by (rewrite Nh; exact Hf).
  destruct (append_fits spc d e0 news C Hs e0_range Nn Hf') as (Hk & Hfirst & Hlen).
  set (R := d_recs (cover spc d (e0 + N.of_nat (length news) - 1))) in *.
  assert (Ln : (1 <= length news)%nat) by lia.
  specialize (Hk (length news) (conj Ln (le_n _))).
  assert (Hall : firstn (length news) (append_pokes e0 news) = append_pokes e0 news).
  { apply firstn_all2. rewrite append_pokes_down, offsets_down_length, rev_length. lia. }
  rewrite Hall, Nat.sub_diag, Nat.add_0_r in Hk. cbn [skipn] in Hk. rewrite Hfirst in Hk.
  eexists. rewrite setitem_unfold, Hk.
  split; [reflexivity|]. cbn [d_recs d_cap]. split; [reflexivity|].
  assert (Ed : firstn (N.to_nat e0) (d_recs d) ++ news ++ skipn (N.to_nat e0 + length news) R =
               firstn (N.to_nat e0) (d_recs d) ++ recs_new ++ zero_rec :: skipn (N.to_nat e0 + length news) R).
  { subst news. rewrite <- !app_assoc. reflexivity. }
  rewrite Ed. split; [|split].
  - subst e0. rewrite groups_prefix_top. f_equal. rewrite Shape, <- app_assoc. cbn [app].
    apply groups_new, Run.
  - rewrite firstn_app, firstn_firstn, Nat.min_id, firstn_length.
    pose proof e0_range. unfold rlen in *.
    replace (N.to_nat e0 - Nat.min (N.to_nat e0) (length (d_recs d)))%nat with 0%nat by lia.
    cbn [firstn]. apply app_nil_r.
  - eexists. reflexivity.
Qed.

(* a fixed root too small for the first attempt: compaction, then the same writes at its eof *)
Lemma append_after_clean n : d_cap d = Some n -> n <= e0 + k ->
  setitem upper spc d name entry =
  pokes spc (fst (clean d)) (append_pokes (snd (clean d)) news).
Proof.
  intros Hc Hle. destruct news_facts as (Nn & Nl & Nh).
  rewrite setitem_unfold, (append_enospc spc d e0 news n Hc Nn) by (rewrite Nh; exact Hle). reflexivity.
Qed.

Lemma append_retry_enospc n : d_cap d = Some n -> n <= e0 + k -> n <= snd (clean d) + k ->
  setitem upper spc d name entry = (fst (clean d), Some OSError_ENOSPC).
Proof.
  intros Hc H0 H1. destruct news_facts as (Nn & Nl & Nh).
  rewrite (append_after_clean n Hc H0).
  apply (append_enospc spc (fst (clean d)) (snd (clean d)) news n); [exact Hc|exact Nn|lia].
Qed.

Lemma append_retry_fits n : d_cap d = Some n -> n <= e0 + k -> snd (clean d) + k < n ->
  tidy (d_recs d) = true ->
  exists d', setitem upper spc d name entry = (d', None) /\ d_cap d' = d_cap d /\
    view (d_recs d') = view (d_recs d) ++ [split lf s] /\ length (d_recs d') = length (d_recs d).
Proof.
  intros Hc H0 H1 T. destruct news_facts as (Nn & Nl & Nh).
  rewrite (append_after_clean n Hc H0).
  destruct (clean_preserves_listing upper d W T) as (_ & _ & _ & _ & _ & Ccap & Clen & kept & m & pre & rem & Er & Ed & Lp & Ee & EH & Fk & Hkept).
  set (d1 := fst (clean d)) in *. set (e1 := snd (clean d)) in *.
  assert (C1 : cap_ok d1).
  { unfold cap_ok in *. rewrite Ccap. rewrite Hc in *. unfold rlen in *. rewrite Clen. exact C. }
  assert (He1 : e1 <= rlen (d_recs d1)) by (rewrite Er, Ee; unfold rlen; rewrite app_length; lia).
  assert (Hf1 : fits d1 (e1 + N.of_nat (length news) - 1)) by (unfold fits; rewrite Ccap, Hc; lia).
  destruct (append_fits spc d1 e1 news C1 Hs He1 Nn Hf1) as (Hk & Hfirst & Hlen).
  assert (Ecov : cover spc d1 (e1 + N.of_nat (length news) - 1) = d1) by (unfold cover; rewrite Ccap, Hc; reflexivity).
  rewrite Ecov in *.
  assert (Ln : (1 <= length news)%nat) by lia.
  specialize (Hk (length news) (conj Ln (le_n _))).
  assert (Hall : firstn (length news) (append_pokes e1 news) = append_pokes e1 news).
  { apply firstn_all2. rewrite append_pokes_down, offsets_down_length, rev_length. lia. }
  rewrite Hall, Nat.sub_diag, Nat.add_0_r in Hk. cbn [skipn] in Hk.
  eexists. rewrite Hk. split; [reflexivity|]. cbn [d_recs d_cap]. split; [exact Ccap|].
  assert (Ek : firstn (N.to_nat e1) (d_recs d1) = kept).
  { rewrite Er, Ee. unfold rlen. rewrite Nat2N.id, firstn_app, firstn_all, Nat.sub_diag. cbn [firstn]. apply app_nil_r. }
  rewrite Ek. split.
  - (* the kept records yield the old groups up to re-packing, nothing pending after them *)
    destruct (clean_groups_gen (d_recs d) false false 0 0 [] [] (news ++ skipn (N.to_nat e1 + length news) (d_recs d1))
                W T (fun _ => eq_refl) (Forall2_nil _)) as (gs' & Eg & Fg).
    rewrite <- Hkept in Eg. unfold view, groups. rewrite Eg, map_app, (greq_view _ _ Fg). f_equal.
    subst news. rewrite Shape, <- !app_assoc. cbn [app]. rewrite (groups_new lf s _ _ Run). reflexivity.
  - rewrite !app_length, skipn_length.
    assert (N.to_nat e1 = length kept) by (rewrite Ee; unfold rlen; lia). lia.
Qed.
End Append.

(* ---------------- crash points of an append ---------------- *)
Lemma firstn_add {A} (R : list A) a b : firstn (a + b) R = firstn a R ++ firstn b (skipn a R).
Proof.
  revert R. induction a as [|a IH]; intros R; [reflexivity|].
  destruct R as [|x R]; [cbn; destruct b; reflexivity|].
  cbn [Nat.add firstn skipn app]. rewrite IH. reflexivity.
Qed.
Lemma nth_skipn' {A} (l : list A) d : forall n i, nth i (skipn n l) d = nth (n + i) l d.
Proof.
  induction l as [|x l IH]; intros n i; [rewrite skipn_nil; destruct i, n; reflexivity|].
  destruct n as [|n]; [reflexivity|]. cbn [skipn Nat.add nth]. apply IH.
Qed.
Lemma map_fst_offsets_from l : forall e,
  map fst (offsets_from e l) = map (fun j => e + N.of_nat j) (seq 0 (length l)).
Proof.
  induction l as [|r l IH]; intros e; [reflexivity|].
  cbn [offsets_from map length seq fst]. rewrite IH, <- seq_shift, map_map. f_equal; [f_equal; lia|].
  apply map_ext. intros j. lia.
Qed.
Lemma nth_grown spc recs hi i : 0 < spc ->
  nth i (grown spc recs hi) zero_rec = nth i recs zero_rec.
Proof.
  intros Hs. destruct (grown_facts spc recs hi Hs) as (_ & (z & ->) & _).
  destruct (Nat.ltb_spec i (length recs)).
  - apply app_nth1. assumption.
  - rewrite app_nth2 by assumption. rewrite (nth_overflow recs) by assumption.
    destruct (Nat.ltb_spec (i - length recs) z); [apply nth_repeat|].
    apply nth_overflow. rewrite repeat_length. assumption.
Qed.

Section BackToFront.
Variable upper : list N -> list N.
Variables (spc : N) (d : dir) (recs_new : list rec).
Hypothesis C : cap_ok d.
Hypothesis Hs : 0 < spc.
Let e0 := last_end (groups (d_recs d)).
Let news := recs_new ++ [zero_rec].
Let ps := append_pokes e0 news.
Hypothesis Fits : fits d (e0 + N.of_nat (length news) - 1).

(* C15 (directory appends) setitem_pokes_back_to_front: the writes go from the highest index
   down to the old end; after any proper prefix of them the records before the old end are
   untouched, so every old group is still there; and when the old end is the terminator
   (no stale records behind the last group) a reader sees exactly the old groups *)
Theorem setitem_pokes_back_to_front :
  map fst ps = rev (map (fun j => e0 + N.of_nat j) (seq 0 (length news))) /\
  forall j, (1 <= j < length news)%nat ->
    exists dj, pokes spc d (firstn j ps) = (dj, None) /\
      firstn (N.to_nat e0) (d_recs dj) = firstn (N.to_nat e0) (d_recs d) /\
      (exists extra, groups (d_recs dj) = groups (d_recs d) ++ extra) /\
      (kind_of (nth (N.to_nat e0) (d_recs d) zero_rec) = KEnd ->
       groups (d_recs dj) = groups (d_recs d) /\ view (d_recs dj) = view (d_recs d)).
Proof.
  split.
  { subst ps. unfold append_pokes. rewrite map_rev, map_fst_offsets_from. reflexivity. }
  intros j Hj.
  assert (Nn : news <> []) by (subst news; destruct recs_new; discriminate).
  assert (He : e0 <= rlen (d_recs d)).
  { subst e0. unfold groups. destruct (groups_from (d_recs d) 0 []) eqn:G; [cbn; lia|].
    assert (G' : groups_from (d_recs d) 0 [] <> []) by (rewrite G; discriminate).
    pose proof (last_end_range _ _ _ G') as R. rewrite G in R. unfold rlen. lia. }
  destruct (append_fits spc d e0 news C Hs He Nn Fits) as (Hk & Hfirst & Hlen).
  set (R := d_recs (cover spc d (e0 + N.of_nat (length news) - 1))) in *.
  assert (Hj' : (1 <= j <= length news)%nat) by lia.
  eexists. split; [apply (Hk j Hj')|]. cbn [d_recs].
  rewrite firstn_add, <- app_assoc, Hfirst.
  assert (Hx : exists Y, firstn (length news - j) (skipn (N.to_nat e0) R) = nth (N.to_nat e0) (d_recs d) zero_rec :: Y).
  { assert (Ls : (length news <= length (skipn (N.to_nat e0) R))%nat) by (rewrite skipn_length; lia).
    assert (En : nth (N.to_nat e0) (d_recs d) zero_rec = nth 0 (skipn (N.to_nat e0) R) zero_rec).
    { rewrite nth_skipn', Nat.add_0_r. subst R. unfold cover. destruct (d_cap d); [reflexivity|].
      cbn [d_recs]. symmetry. apply nth_grown, Hs. }
    rewrite En. destruct (skipn (N.to_nat e0) R) as [|x Y]; [cbn in Ls; lia|].
    destruct (length news - j)%nat as [|q] eqn:Q; [lia|]. cbn [firstn nth]. eexists. reflexivity. }
  destruct Hx as (Y & ->).
  split; [|split].
  - rewrite firstn_app, firstn_firstn, Nat.min_id, firstn_length.
    unfold rlen in He. replace (N.to_nat e0 - Nat.min (N.to_nat e0) (length (d_recs d)))%nat with 0%nat by lia.
    cbn [firstn]. apply app_nil_r.
  - eexists. subst e0. apply groups_prefix_top.
  - intros K.
    assert (G : groups (firstn (N.to_nat e0) (d_recs d) ++
                        (nth (N.to_nat e0) (d_recs d) zero_rec :: Y) ++
                        skipn (length news - j) news ++ skipn (N.to_nat e0 + length news) R) = groups (d_recs d)).
    { subst e0. rewrite groups_prefix_top. cbn [app]. rewrite groups_from_cons, K. apply app_nil_r. }
    split; [exact G|]. unfold view. rewrite G. reflexivity.
Qed.
End BackToFront.
