From Coq Require Import List NArith ZArith Bool Lia.
From NV Require Import Lib.Res Lib.PyInt Boot.Model.
Import ListNotations.
Open Scope N_scope.

Lemma find_board_in serial boards b :
  find_board serial boards = Some b -> In b boards /\ b_serial b = serial.
Proof.
  induction boards as [|x r IH]; cbn; [discriminate|].
  destruct (Z.eqb_spec (b_serial x) serial) as [E|E].
  - intros H; injection H as <-. auto.
  - intros H. destruct (IH H). auto.
Qed.

Lemma addr_eqb_eq a : forall b, addr_eqb a b = true <-> a = b.
Proof.
  induction a as [|x a IH]; intros [|y b]; cbn; split; try congruence; try discriminate.
  - intros H. apply andb_true_iff in H as [H1 H2]. apply N.eqb_eq in H1. apply IH in H2. congruence.
  - intros H. inversion H; subst. rewrite N.eqb_refl. cbn. apply IH. reflexivity.
Qed.

(* whatever the request string and whoever the client: what is served comes from the image and
   partition configured for the board whose serial number the first component spells in
   hexadecimal, and the client address equals the configured one when there is one *)
Theorem served_confined boards client parts image part path :
  boot_resolve boards client parts = Served image part path ->
  exists p0 b, parts = p0 :: path /\ In b boards /\ py_int16 p0 = Some (b_serial b) /\
               image = b_image b /\ part = b_partition b /\
               (b_ip b = None \/ exists a, b_ip b = Some a /\ client = Some a).
Proof.
  unfold boot_resolve. destruct parts as [|p0 rest]; [discriminate|].
  destruct (py_int16 p0) as [serial|] eqn:Ei; [|discriminate].
  destruct (find_board serial boards) as [b|] eqn:Ef; [|discriminate].
  destruct (find_board_in _ _ _ Ef) as (Hin & Hs).
  destruct (b_ip b) as [want|] eqn:Eip.
  - destruct client as [have|]; [|discriminate].
    destruct (addr_eqb have want) eqn:Ea; [|discriminate].
    intros H; injection H as <- <- <-. apply addr_eqb_eq in Ea. subst have.
    exists p0, b. repeat split; auto. rewrite Hs. exact Ei. right. exists want. auto.
  - intros H; injection H as <- <- <-. exists p0, b. repeat split; auto. rewrite Hs. exact Ei.
Qed.

Theorem unknown_not_found boards client parts :
  (parts = [] \/ exists p0 r, parts = p0 :: r /\
     (py_int16 p0 = None \/ exists s, py_int16 p0 = Some s /\ find_board s boards = None)) ->
  boot_resolve boards client parts = NotFound.
Proof.
  intros [->|(p0 & r & -> & [H|(s & H1 & H2)])]; [reflexivity| |]; unfold boot_resolve.
  - rewrite H. reflexivity.
  - rewrite H1, H2. reflexivity.
Qed.

(* with ip= configured: served exactly from that address, refused from every other *)
Theorem ip_exact boards client p0 rest b a :
  py_int16 p0 = Some (b_serial b) -> find_board (b_serial b) boards = Some b -> b_ip b = Some a ->
  (client = Some a -> boot_resolve boards client (p0 :: rest) = Served (b_image b) (b_partition b) rest) /\
  (client <> Some a -> boot_resolve boards client (p0 :: rest) = Refused).
Proof.
  intros Hi Hf Hip. unfold boot_resolve. rewrite Hi, Hf, Hip. split.
  - intros ->. assert (E : addr_eqb a a = true) by (apply addr_eqb_eq; reflexivity). rewrite E. reflexivity.
  - intros Hne. destruct client as [have|]; [|reflexivity].
    destruct (addr_eqb have a) eqn:E; [|reflexivity]. apply addr_eqb_eq in E. subst. congruence.
Qed.

Theorem no_ip_served boards client p0 rest b :
  py_int16 p0 = Some (b_serial b) -> find_board (b_serial b) boards = Some b -> b_ip b = None ->
  boot_resolve boards client (p0 :: rest) = Served (b_image b) (b_partition b) rest.
Proof. intros Hi Hf Hip. unfold boot_resolve. rewrite Hi, Hf, Hip. reflexivity. Qed.
