From Coq Require Import List NArith ZArith String Bool.
From NV Require Import Lib.Val Lib.Res Lib.Wire Boot.Model.
Import ListNotations.
Open Scope string_scope.
Definition getBoard (v : val) : board :=
  {| b_serial := getZ (arg 0 v); b_image := getN (arg 1 v); b_partition := getN (arg 2 v);
     b_ip := match getL (arg 3 v) with [a] => Some (getS a) | _ => None end |}.
Definition dispatch (cmd : string) (a : val) : val :=
  if String.eqb cmd "int16" then match py_int16 (getS a) with Some z => VL [VZ z] | None => VL [] end
  else if String.eqb cmd "resolve" then
    match boot_resolve (map getBoard (getL (arg 0 a)))
                       (match getL (arg 1 a) with [c] => Some (getS c) | _ => None end)
                       (map getS (getL (arg 2 a))) with
    | Served i p path => VL [VN 0; VN i; VN p; VL (map VS path)]
    | NotFound => VL [VN 1]
    | Refused => VL [VN 2]
    end
  else VErr "unknown command".
