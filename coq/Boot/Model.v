(* Model of BootHandler.resolve_path up to the point where the path is handed to the FAT
   volume of the selected board (the walk inside the volume is C03's reader). *)
From Coq Require Import List NArith ZArith Bool.
From NV Require Import Lib.Res Lib.PyInt.
Import ListNotations.
Open Scope N_scope.

(* int(s, base=16) on ASCII text: optional white space, sign, 0x/0X prefix, hex digits with
   single underscores between digits.  None = ValueError. *)
Definition hex_val (c : N) : option N :=
  if (48 <=? c) && (c <=? 57) then Some (c - 48)
  else if (97 <=? c) && (c <=? 102) then Some (c - 87)
  else if (65 <=? c) && (c <=? 70) then Some (c - 55)
  else None.

Fixpoint hex_digits (acc : N) (prev_digit : bool) (l : list N) : option N :=
  match l with
  | [] => if prev_digit then Some acc else None
  | c :: r =>
    match hex_val c with
    | Some v => hex_digits (acc * 16 + v) true r
    | None =>
      if (c =? 95) && prev_digit then
        match r with
        | d :: _ => match hex_val d with Some _ => hex_digits acc false r | None => None end
        | [] => None
        end
      else None
    end
  end.

Definition strip_0x (l : list N) : list N * bool :=
  match l with
  | 48 :: x :: r => if (x =? 120) || (x =? 88) then (r, true) else (l, false)
  | _ => (l, false)
  end.

Definition py_int16 (s : list N) : option Z :=
  let body sgn r :=
      let x := strip_0x r in
      (* after a 0x prefix one underscore may precede the first digit *)
      let digits := match fst x, snd x with
                    | 95 :: r', true => r'
                    | d, _ => d
                    end in
      option_map (fun n => (sgn * Z.of_N n)%Z) (hex_digits 0 false digits) in
  match strip_int s with
  | [] => None
  | 43 :: r => body 1%Z r
  | 45 :: r => body (-1)%Z r
  | r => body 1%Z r
  end.

Record board := { b_serial : Z; b_image : N; b_partition : N; b_ip : option (list N) }.

Inductive outcome :=
| Served (image partition : N) (path : list (list N))   (* path inside that volume *)
| NotFound
| Refused.

Fixpoint find_board (serial : Z) (boards : list board) : option board :=
  match boards with
  | [] => None
  | b :: r => if Z.eqb (b_serial b) serial then Some b else find_board serial r
  end.

Fixpoint addr_eqb (a b : list N) : bool :=
  match a, b with
  | [], [] => true
  | x :: a', y :: b' => (x =? y) && addr_eqb a' b'
  | _, _ => false
  end.

(* [client] is the canonical form of the client address (packed bytes; IPv4-mapped IPv6
   already reduced to IPv4), None when it does not parse *)
Definition boot_resolve (boards : list board) (client : option (list N)) (parts : list (list N)) : outcome :=
  match parts with
  | [] => NotFound
  | p0 :: rest =>
    match py_int16 p0 with
    | None => NotFound
    | Some serial =>
      match find_board serial boards with
      | None => NotFound
      | Some b =>
        match b_ip b with
        | None => Served (b_image b) (b_partition b) rest
        | Some want =>
          match client with
          | Some have => if addr_eqb have want then Served (b_image b) (b_partition b) rest else Refused
          | None => Refused
          end
        end
      end
    end
  end.
