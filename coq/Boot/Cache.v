(* The per-serial cache of opened volumes in BootHandler.resolve_path:
       try:    image, fs = self.server.images[serial]
       except KeyError:
               image = DiskImage(board.image); fs = FatFileSystem(image.partitions[board.partition].data)
               self.server.images[serial] = (image, fs)
   (the block is pinned by boot_image_cache_hash).  A cached volume is identified here by the
   (image, partition) it was opened from.  Whatever the sequence of requests -- any serials, any
   clients, refused or not found in between -- every request is served from the volume configured
   for ITS board: a cache entry never stands for another board's image or another partition. *)
From Coq Require Import List NArith ZArith Bool.
From NV Require Import Lib.Res Lib.PyInt Boot.Model.
Import ListNotations.
Open Scope N_scope.

Definition cache := list (Z * (N * N)).
Fixpoint cache_get (c : cache) (serial : Z) : option (N * N) :=
  match c with
  | [] => None
  | (k, v) :: r => if Z.eqb k serial then Some v else cache_get r serial
  end.

(* one request: outcome as seen by the client, and the cache afterwards *)
Definition serve (boards : list board) (c : cache) (client : option (list N)) (parts : list (list N))
  : outcome * cache :=
  match boot_resolve boards client parts with
  | Served image part path =>
    match parts with
    | p0 :: _ =>
      match py_int16 p0 with
      | Some serial =>
        match cache_get c serial with
        | Some (i, p) => (Served i p path, c)                       (* the cached volume answers *)
        | None => (Served image part path, (serial, (image, part)) :: c)
        end
      | None => (NotFound, c)
      end
    | [] => (NotFound, c)
    end
  | other => (other, c)
  end.
Fixpoint serve_all (boards : list board) (c : cache) (reqs : list (option (list N) * list (list N)))
  : list outcome * cache :=
  match reqs with
  | [] => ([], c)
  | (client, parts) :: r =>
    let '(o, c1) := serve boards c client parts in
    let '(os, c2) := serve_all boards c1 r in (o :: os, c2)
  end.

(* every entry stands for the volume configured for the board of its key *)
Definition cache_ok (boards : list board) (c : cache) : Prop :=
  forall serial v, cache_get c serial = Some v ->
    exists b, find_board serial boards = Some b /\ v = (b_image b, b_partition b).

Lemma served_board boards client p0 rest image part path :
  boot_resolve boards client (p0 :: rest) = Served image part path ->
  exists serial b, py_int16 p0 = Some serial /\ find_board serial boards = Some b /\
                   image = b_image b /\ part = b_partition b.
Proof.
  cbn [boot_resolve]. destruct (py_int16 p0) as [serial|]; [|discriminate].
  destruct (find_board serial boards) as [b|] eqn:F; [|discriminate].
  intros H. exists serial, b. split; [reflexivity|]. split; [exact F|].
  destruct (b_ip b) as [a|].
  - destruct client as [cl|]; [|discriminate]. destruct (addr_eqb cl a); [|discriminate]. inversion H; subst; auto.
  - inversion H; subst; auto.
Qed.

Theorem serve_transparent boards c client parts : cache_ok boards c ->
  fst (serve boards c client parts) = boot_resolve boards client parts /\
  cache_ok boards (snd (serve boards c client parts)).
Proof.
  intros OK. unfold serve. destruct (boot_resolve boards client parts) as [image part path| |] eqn:R; auto.
  destruct parts as [|p0 rest]; [cbn in R; discriminate|].
  destruct (served_board _ _ _ _ _ _ _ R) as (serial & b & P & F & -> & ->). rewrite P.
  destruct (cache_get c serial) as [[i p]|] eqn:G; cbn [fst snd].
  - destruct (OK serial _ G) as (b' & F' & E). rewrite F in F'. inversion F'; subst b'. inversion E; subst. auto.
  - split; [reflexivity|]. intros s v. cbn [cache_get]. destruct (Z.eqb_spec serial s) as [<-|N].
    + intros H. inversion H; subst. exists b. auto.
    + apply OK.
Qed.

(* any history of requests: every outcome is the one the board table alone gives *)
Theorem serve_all_transparent boards reqs : forall c, cache_ok boards c ->
  fst (serve_all boards c reqs) = map (fun r => boot_resolve boards (fst r) (snd r)) reqs /\
  cache_ok boards (snd (serve_all boards c reqs)).
Proof.
  induction reqs as [|[client parts] r IH]; intros c OK; [auto|]. cbn [serve_all map fst snd].
  destruct (serve_transparent boards c client parts OK) as [E1 OK1].
  destruct (serve boards c client parts) as [o c1]. cbn [fst snd] in *.
  destruct (IH c1 OK1) as [E2 OK2]. destruct (serve_all boards c1 r) as [os c2]. cbn [fst snd] in *.
  subst. auto.
Qed.
Lemma empty_cache_ok boards : cache_ok boards [].
Proof. intros s v H. discriminate. Qed.
