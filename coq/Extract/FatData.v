Require Extraction.
Require Import ExtrOcamlBasic.
From NV Require Import FatData.Run.
Extraction "model.ml" dispatch.
