Require Extraction.
Require Import ExtrOcamlBasic.
From NV Require Import FatNames.Run.
Extraction "model.ml" dispatch.
