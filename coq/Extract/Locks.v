Require Extraction.
Require Import ExtrOcamlBasic.
From NV Require Import Locks.Run.
Extraction "model.ml" dispatch.
