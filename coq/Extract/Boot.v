Require Extraction.
Require Import ExtrOcamlBasic.
From NV Require Import Boot.Run.
Extraction "model.ml" dispatch.
