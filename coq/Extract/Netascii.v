Require Extraction.
Require Import ExtrOcamlBasic.
From NV Require Import Netascii.Run.
Extraction "model.ml" dispatch.
