Require Extraction.
Require Import ExtrOcamlBasic.
From NV Require Import Shell.Run.
Extraction "model.ml" dispatch.
