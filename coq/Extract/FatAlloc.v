Require Extraction.
Require Import ExtrOcamlBasic.
From NV Require Import FatAlloc.Run.
Extraction "model.ml" dispatch.
