Require Extraction.
Require Import ExtrOcamlBasic.
From NV Require Import FatVol.Run.
Extraction "model.ml" dispatch.
