Require Extraction.
Require Import ExtrOcamlBasic.
From NV Require Import FatRead.Run.
Extraction "model.ml" dispatch.
