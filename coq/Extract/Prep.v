Require Extraction.
Require Import ExtrOcamlBasic.
From NV Require Import Prep.Run.
Extraction "model.ml" dispatch.
