Require Extraction.
Require Import ExtrOcamlBasic.
From NV Require Import FatTable.Run.
Extraction "model.ml" dispatch.
