Require Extraction.
Require Import ExtrOcamlBasic.
From NV Require Import Tftp.Run.
Extraction "model.ml" dispatch.
