Require Extraction.
Require Import ExtrOcamlBasic.
From NV Require Import FatDir.Run.
Extraction "model.ml" dispatch.
