Require Extraction.
Require Import ExtrOcamlBasic.
From NV Require Import Disk.Run.
Extraction "model.ml" dispatch.
