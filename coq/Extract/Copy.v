Require Extraction.
Require Import ExtrOcamlBasic.
From NV Require Import Copy.Run.
Extraction "model.ml" dispatch.
