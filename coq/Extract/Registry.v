Require Extraction.
Require Import ExtrOcamlBasic.
From NV Require Import Registry.Run.
Extraction "model.ml" dispatch.
