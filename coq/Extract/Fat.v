Require Extraction.
Require Import ExtrOcamlBasic.
From NV Require Import Fat.Run.
Extraction "model.ml" dispatch.
