Require Extraction.
Require Import ExtrOcamlBasic.
From NV Require Import Resolve.Run.
Extraction "model.ml" dispatch.
