Require Extraction.
Require Import ExtrOcamlBasic.
From NV Require Import FatCrash.Run.
Extraction "model.ml" dispatch.
