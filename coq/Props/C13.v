(* C13 -- the readers-writer lock is exclusive, re-entrant and never deadlocks.
   This file only restates the property theorems; proofs live in Locks/Proofs*.v.
   All theorems are UNBOUNDED: any number of threads, any well-nested programs
   (blocking, non-blocking and timed acquisitions), every interleaving at the
   granularity of primitive-lock operations.  [step] is the model's transition
   function instantiated with the facts the translator extracted from the
   current nobodd/locks.py (Gen/Locks.v). *)
From Coq Require Import List Arith Bool.
From NV Require Import Gen.Locks Locks.Model Locks.Inv Locks.ProofsInv Locks.ProofsExcl
  Locks.ProofsNoop Locks.ProofsProgress Locks.Proofs.
Import ListNotations.

(* the source is the text the model was written against (per-method digests of
   the canonical skeleton of every method of locks.py), with the repaired
   downgrade path *)
Theorem C13_model_matches_source : source_shape_ok = true /\ downgrade_fixed = true.
Proof. exact source_is_repaired. Qed.
Print Assumptions C13_model_matches_source.

(* exclusion: while a thread holds the write side (write > 0) no other thread
   holds the write side or is in the read critical section *)
Theorem C13_exclusion : forall progs st i j t u,
  well_nested progs -> reach progs st -> i <> j ->
  nth_error (ths st) i = Some t -> nth_error (ths st) j = Some u ->
  in_write t -> ~ in_write u /\ ~ in_read u.
Proof. exact exclusion_reach. Qed.
Print Assumptions C13_exclusion.

(* LightSwitch._counter = number of threads inside the switch *)
Theorem C13_counter_consistent : forall progs st,
  well_nested progs -> reach progs st -> cnt (gl st) = sumf hsw (ths st).
Proof. exact counter_reach. Qed.
Print Assumptions C13_counter_consistent.

(* a failed non-blocking / timed attempt changes nothing: under ANY interleaving
   the caller is back between calls with its (read, write, ignored) as before the
   call (for a failed upgrade this includes having re-entered the read side), and
   if the other threads are where they were, the three primitives and the
   counter are exactly as before the call *)
Theorem C13_failed_attempt_noop : forall progs i st0 st1 st2 t0 s m p w a,
  well_nested progs -> reach progs st0 ->
  nth_error (ths st0) i = Some t0 -> tpc t0 = Idle -> prog t0 = Acq s m :: p ->
  in_call i st0 st1 ->
  step w st1 i = Some (st2, a, RBool false) ->
  exists t2, nth_error (ths st2) i = Some t2 /\
    tpc t2 = Idle /\ rd t2 = rd t0 /\ wr t2 = wr t0 /\ ig t2 = ig t0 /\
    prog t2 = skip_block 0 p /\
    ((forall j, j <> i -> nth_error (ths st2) j = nth_error (ths st0) j) -> gl st2 = gl st0).
Proof. exact failed_attempt_noop_reach. Qed.
Print Assumptions C13_failed_attempt_noop.

(* once everyone has released, the lock is free again *)
Theorem C13_quiescent_free : forall progs st,
  well_nested progs -> reach progs st ->
  (forall t, In t (ths st) -> finishedb t = true) ->
  gl st = free /\ forall t, In t (ths st) -> rd t = 0 /\ wr t = 0 /\ ig t = 0.
Proof. exact quiescent_reach. Qed.
Print Assumptions C13_quiescent_free.

(* no assertion of _ReadLock/_WriteLock and no RuntimeError of LightSwitch fires *)
Theorem C13_no_crash : forall progs st i t w,
  well_nested progs -> reach progs st -> nth_error (ths st) i = Some t ->
  tstep downgrade_fixed w (gl st) t <> Crash.
Proof. exact no_crash_reach. Qed.
Print Assumptions C13_no_crash.

(* no deadlock: whenever some thread is unfinished, some thread can move *)
Theorem C13_no_deadlock : forall progs st,
  well_nested progs -> reach progs st ->
  (exists t, In t (ths st) /\ finishedb t = false) ->
  exists i st' a r, step false st i = Some (st', a, r).
Proof. exact no_deadlock_reach. Qed.
Print Assumptions C13_no_deadlock.

(* ... and every move decreases a measure, so every thread finishes under any
   scheduler that keeps running a thread that can move (no lost wake-up) *)
Theorem C13_progress : forall w st i st' a r,
  step w st i = Some (st', a, r) -> measure st' < measure st.
Proof. exact progress_measure. Qed.
Print Assumptions C13_progress.

(* non-vacuity: readers share; a writer gets in; a non-blocking attempt fails;
   and the stuck-state predicate is satisfiable -- the older downgrade path
   (counter hack under the switch mutex while holding block_writers) deadlocks
   on this schedule of a 2-thread program *)
Definition pA := [Acq SR MB; Acq SW MB; Rel SW; Rel SR].
Definition pB := [Acq SR MB; Rel SR].
Definition legacy_deadlock_schedule : list (nat * bool) :=
  map (fun i => (i, false)) [0; 0; 0; 0; 0; 0; 0; 0; 0; 0; 1; 1; 1; 0; 0; 0; 1].
Definition sch (l : list nat) : list (nat * bool) := map (fun i => (i, false)) l.

Example C13_nonvacuous :
  (let st := runP true (init [pB; pB]) (sch [0;0;0;0;0;0;1;1;1;1;1]) in
   exists t u, nth_error (ths st) 0 = Some t /\ nth_error (ths st) 1 = Some u /\
               in_read t /\ in_read u) /\
  (let st := runP true (init [pA; pB]) (sch [0;0;0;0;0;0;0;0;0;0;0;0]) in
   exists t, nth_error (ths st) 0 = Some t /\ in_write t) /\
  (exists a st', step false (runP true (init [[Acq SW MB; Rel SW]; [Acq SR MN; Rel SR]])
                                  (sch [0;0;0;1])) 1 = Some (st', a, RBool false)) /\
  stuckb false (runP false (init [pA; pB]) legacy_deadlock_schedule) = true /\
  stuckb true (runP true (init [pA; pB]) legacy_deadlock_schedule) = false.
Proof.
  split; [|split; [|split; [|split]]].
  - vm_compute. eexists; eexists. repeat split; try reflexivity; repeat constructor.
  - vm_compute. eexists. repeat split; try reflexivity; repeat constructor.
  - vm_compute. eexists; eexists; reflexivity.
  - vm_compute. reflexivity.
  - vm_compute. reflexivity.
Qed.
