(* C18 -- the directory server never serves anything outside its base directory.
   This file only restates the property theorems; proofs live in Resolve/Proofs.v. *)
From Coq Require Import List NArith Bool String.
From NV Require Import Lib.Val Gen.Resolve Resolve.Model Resolve.Proofs.
Import ListNotations.
Open Scope N_scope.

(* Whatever is served is a regular file of the tree reached from "/" through
   directories only (`get` follows no link), strictly below the base directory,
   component-wise (so /srv/tftp2 is not below /srv/tftp), and the bytes served are
   that file's bytes.  Absolute names, "..", outside-pointing links and sibling
   directories therefore never get served: they do not satisfy the conclusion. *)
Theorem C18_served_inside : forall fuel root base nm p b,
  simple_resolve fuel root base nm = Served p b ->
  (exists c r, p = base ++ c :: r) /\
  get (Dir root) p = Some (Reg b) /\
  (forall q s, p = q ++ s -> forall tg, get (Dir root) q <> Some (Link tg)).
Proof. exact served_inside. Qed.
Print Assumptions C18_served_inside.

(* A name that Path.resolve() (as specified by `resolve`) maps to a regular file
   strictly inside the base -- directly or through links that stay inside -- is
   served, with exactly that file's bytes. *)
Theorem C18_inside_served : forall fuel root base nm r b,
  resolve fuel (Dir root) (pcomps (join base nm)) = KOk r ->
  (exists c s, r = base ++ c :: s) ->
  get (Dir root) r = Some (Reg b) ->
  (List.length r < fuel)%nat ->
  simple_resolve fuel root base nm = Served r b.
Proof. exact inside_served. Qed.
Print Assumptions C18_inside_served.

(* the link-free case without reference to the resolve specification *)
Theorem C18_direct_inside_served : forall fuel root base nm c s b,
  proot (parse_path nm) = 0 ->
  pcomps (parse_path nm) = c :: s ->
  nodd (base ++ c :: s) ->
  get (Dir root) (base ++ c :: s) = Some (Reg b) ->
  (List.length (base ++ c :: s) < fuel)%nat ->
  simple_resolve fuel root base nm = Served (base ++ c :: s) b.
Proof. exact direct_inside_served. Qed.
Print Assumptions C18_direct_inside_served.

(* a resolved path that is not strictly below the base is refused with
   PermissionError, which do_RRQ answers with ERROR 2 (access violation) *)
Theorem C18_refusal_is_access_violation : forall fuel root base nm p,
  resolve fuel (Dir root) (pcomps (join base nm)) = KOk p ->
  (~ exists c r, p = base ++ c :: r) ->
  simple_resolve fuel root base nm = Refused EPerm /\ error_code EPerm = Some 2.
Proof. exact refusal_is_access_violation. Qed.
Print Assumptions C18_refusal_is_access_violation.

(* the except ladder of do_RRQ (then handle), regenerated from the source *)
Theorem C18_error_codes :
  error_code EPerm = Some 2 /\ error_code ENoEnt = Some 1 /\
  error_code EIsDir = Some 0 /\ error_code ENotDir = Some 0 /\
  error_code ELoop = Some 0 /\ error_code ENameTooLong = Some 0 /\
  error_code ERuntime = Some 0.
Proof. exact error_codes. Qed.
Print Assumptions C18_error_codes.

(* how the server uses pathlib (facts regenerated from the source on every run) *)
Theorem C18_wiring :
  request_resolved = true /\ containment_is_parents = true /\ recheck_strict = true /\
  base_resolved_at_init = true /\ opens_rb = true.
Proof. repeat split; reflexivity. Qed.
Print Assumptions C18_wiring.

(* non-vacuity: /base holds f, a link pair looping on each other, a link leaving
   the base, a link to a sub-directory; /base2 (same string prefix) and /sec hold secrets *)
Definition ex_root : list (name * fsnode) :=
  [(str "base", Dir [(str "f", Reg [7]); (str "l1", Link (str "l2")); (str "l2", Link (str "l1"));
                     (str "out", Link (str "../sec")); (str "dl", Link (str "./sub/"));
                     (str "sub", Dir [(str "g", Reg [8; 9])])]);
   (str "base2", Dir [(str "s", Reg [2])]);
   (str "sec", Dir [(str "s", Reg [1])])].

Example C18_nonvacuous :
  simple_resolve 60 ex_root [str "base"] (str "f") = Served [str "base"; str "f"] [7] /\
  simple_resolve 60 ex_root [str "base"] (str "dl/../dl//g") = Served [str "base"; str "sub"; str "g"] [8; 9] /\
  simple_resolve 60 ex_root [str "base"] (str "l1/../f") = Served [str "base"; str "f"] [7] /\
  simple_resolve 60 ex_root [str "base"] (str "out/s") = Refused EPerm /\
  simple_resolve 60 ex_root [str "base"] (str "l1/../out/s") = Refused EPerm /\
  simple_resolve 60 ex_root [str "base"] (str "../base2/s") = Refused EPerm /\
  simple_resolve 60 ex_root [str "base"] (str "/sec/s") = Refused EPerm /\
  simple_resolve 60 ex_root [str "base"] (str "//base/f") = Served [str "base"; str "f"] [7] /\
  simple_resolve 60 ex_root [str "base"] (str "l1") = Refused ERuntime /\
  simple_resolve 60 ex_root [str "base"] (str "sub") = Refused EIsDir /\
  simple_resolve 60 ex_root [str "base"] (str "nope") = Refused ENoEnt /\
  resolve 60 (Dir ex_root) (pcomps (join [str "base"] (str "l1/../out/s"))) = KOk [str "base"; str "out"; str "s"].
Proof. repeat split; vm_compute; reflexivity. Qed.
