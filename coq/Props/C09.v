(* C09 -- Every transfer ends and releases its thread, socket and file.
   Theorems cover the timing state machine and the registry; real thread / socket /
   descriptor release is observed by the real-UDP tier (runtime residue). *)
From Coq Require Import List NArith ZArith Bool String.
From NV Require Import Lib.Res Gen.Tftp Tftp.Packet Tftp.Transfer Tftp.ServerProofs.
Import ListNotations.
Open Scope N_scope.

Theorem C09_source_facts :
  (forall now lr tmo, gen_tick_recv_cmp now lr tmo = (tmo <? now - lr)%Z) /\
  (forall ls lr tmo, gen_tick_giveup_cmp ls lr tmo = (tmo * 5 <? ls - lr)%Z) /\
  (forall now ls tmo, gen_tick_resend_cmp now ls tmo = (tmo <? now - ls)%Z) /\
  poll_interval_ms = 10 /\
  canon_TFTPSubServers_add = "1ec69805d1449b3d"%string /\
  canon_TFTPSubServers__remove = "a2a437091f936cba"%string /\
  canon_TFTPSubServers_run = "cc485756500fd89b"%string /\
  canon_TFTPSubServers_close = "78f06a5d2de3425d"%string /\
  canon_TFTPBaseServer_server_close = "50aa2c7ee87a1842"%string.
Proof. repeat split; reflexivity. Qed.
Print Assumptions C09_source_facts.

(* silence: once a tick happens later than six timeouts after the client's last datagram,
   the following tick at the latest marks the transfer done -- for every negotiated timeout
   and whatever the point at which the client fell silent *)
Theorem C09_silence_abandons : forall st t1 t2,
  ts_dead st = false -> (0 <= ts_timeout st)%Z -> snd (resend (ts_blocks st)) = true ->
  (ts_last_recv st + 6 * ts_timeout st < t1)%Z -> (t1 <= t2)%Z ->
  ts_done (fst (tick (fst (tick st t1)) t2)) = true.
Proof. exact silence_abandons. Qed.
Print Assumptions C09_silence_abandons.

(* re-sending happens only when more than one timeout passed since the last send and
   since the client's last datagram ... *)
Theorem C09_resend_only_after_timeout : forall st now,
  snd (tick st now) <> [] ->
  exists ls, ts_last_send st = Some ls /\
             (ts_timeout st < now - ls)%Z /\ (ts_timeout st < now - ts_last_recv st)%Z.
Proof. exact resend_only_after_timeout. Qed.
Print Assumptions C09_resend_only_after_timeout.

(* ... and does happen, with exactly the unacknowledged block(s), at the first tick at
   which both have passed (until the give-up condition holds) *)
Theorem C09_resend_when_due : forall st now ls,
  ts_dead st = false -> ts_last_send st = Some ls ->
  (ts_timeout st < now - ts_last_recv st)%Z -> (ts_timeout st < now - ls)%Z ->
  (ls - ts_last_recv st <= ts_timeout st * 5)%Z -> snd (resend (ts_blocks st)) = true ->
  tick st now = (set_send st now, fst (resend (ts_blocks st))).
Proof. exact resend_when_due. Qed.
Print Assumptions C09_resend_when_due.

Theorem C09_client_error_ends : forall st d now c m,
  ts_dead st = false -> parse d = Ok (ERROR c m) ->
  ts_done (fst (sub_handle st (ts_addr st) d now)) = true /\ snd (sub_handle st (ts_addr st) d now) = None.
Proof. exact client_error_ends. Qed.
Print Assumptions C09_client_error_ends.

Theorem C09_completion_ends : forall b st,
  get_block (b + 1) (ack b st) = Err TransferDone ->
  ts_done (fst (do_ACK b st)) = true /\ snd (do_ACK b st) = None.
Proof. exact completion_ends. Qed.
Print Assumptions C09_completion_ends.

Theorem C09_server_error_ends : forall b st e,
  get_block (b + 1) (ack b st) = Err e -> e <> AlreadyAcked -> ts_done (fst (do_ACK b st)) = true.
Proof. exact server_error_ends. Qed.
Print Assumptions C09_server_error_ends.

(* the reaper pass removes exactly the finished transfers; closing empties the registry;
   only an accepted read request ever registers a transfer *)
Theorem C09_reap_releases : forall r,
  forallb (fun x => negb (ts_done (snd x))) (reap r) = true /\
  (forall x, In x r -> ts_done (snd x) = false -> In x (reap r)) /\
  (forall x, In x (reap r) -> In x r).
Proof. exact reap_releases. Qed.
Print Assumptions C09_reap_releases.

Theorem C09_close_all_empties : forall r, close_all r = [].
Proof. exact close_all_empties. Qed.
Print Assumptions C09_close_all_empties.

Theorem C09_refused_leaves_nothing : forall resolve src d fl now,
  match main_handle resolve src d fl now with
  | MStart _ _ => exists f m o, parse d = Ok (RRQ f m o)
  | _ => True
  end.
Proof. exact refused_leaves_nothing. Qed.
Print Assumptions C09_refused_leaves_nothing.

Example C09_nonvacuous :
  let st := set_send (new_state 1 [1;2;3] tftp_binary_name 0%Z) 0%Z in
  ts_done (fst (tick (fst (tick st 6000000001%Z)) 6000000002%Z)) = true /\
  ts_done (fst (tick st 6000000000%Z)) = false.
Proof. split; reflexivity. Qed.

(* ---------------- the registry as a concurrent object (Registry/Model.v: small-step interleaving model) ---------------- *)
From Coq Require Import Arith Lia.
From NV Require Import Gen.Registry Registry.Model Registry.Inv Registry.ProofsLocal Registry.ProofsInv
  Registry.Measure Registry.ProofsSafe Registry.Fair Registry.ProofsLive Registry.ProofsListener Registry.Proofs.
Close Scope N_scope.
Open Scope nat_scope.
Open Scope list_scope.

(* CONCURRENT registry: a transfer whose done flag is set is removed within a number of fair rounds given by an explicit measure; then its thread has returned, its source is closed and its TID is gone, for good *)
Theorem C09_registry_finished_is_reaped :
  registry_source_facts = true -> forall (adds : list nat) (cl : bool) (st : state) (s tid : nat) (x : sub), reachable adds cl st -> In (tid, s) (alive st) -> nth_error (subs st) s = Some x -> sdone x = true -> forall sch : sched, rounds (nthreads st) (S (phi s st)) sch -> ~ In s (map snd (alive (run st sch))) /\ (exists x' : sub, nth_error (subs (run st sch)) s = Some x' /\ sph x' = Returned /\ sclosed x' = true).
Proof. exact Registry.Proofs.finished_is_reaped. Qed.
Print Assumptions C09_registry_finished_is_reaped.

(* after close() the table is empty and every sub-server thread has returned and is closed *)
Theorem C09_registry_close_drains :
  registry_source_facts = true -> forall (adds : list nat) (cl : bool) (st : state), reachable adds cl st -> lp st = L_end -> lclose st = true -> rp st = R_end /\ alive st = [] /\ nadd st = List.length (subs st) /\ (forall x : sub, In x (subs st) -> sph x = Returned /\ sclosed x = true).
Proof. exact Registry.Proofs.close_drains. Qed.
Print Assumptions C09_registry_close_drains.

Theorem C09_registry_no_deadlock :
  registry_source_facts = true -> forall (adds : list nat) (cl : bool) (st : state), reachable adds cl st -> terminatedb st = true \/ (exists (i : nat) (st' : state) (a : act), i < nthreads st /\ step st i 0 = Some (st', a)).
Proof. exact Registry.Proofs.no_deadlock. Qed.
Print Assumptions C09_registry_no_deadlock.
