(* C04 -- Any history of mutations leaves a consistent volume with expected content. Statements only.
   Stage T (table, byte level) and stage F (files, chain level) are theorems; directory and path operations
   are covered by the correspondence / oracle (history_refines is therefore PARTIAL, see DESIGN.md). *)
From Coq Require Import List NArith ZArith Bool String.
From NV Require Import Lib.Res Gen.Fat Fat.Spec.
From NV Require Import FatTable.Model FatTable.ProofsBase FatTable.ProofsSet32 FatTable.Proofs.
From NV Require Import FatAlloc.Model FatAlloc.ProofsBase FatAlloc.ProofsGrow FatAlloc.ProofsOps FatAlloc.ProofsWrite FatAlloc.ProofsFrame FatAlloc.Proofs.
From NV Require Import FatRead.Model FatData.Model FatData.Spec FatData.ProofsBase FatData.Proofs.
From NV Require FatDir.Model FatDir.ProofsBase FatDir.ProofsView FatDir.ProofsClean FatDir.ProofsOps FatDir.ProofsAppend FatDir.ProofsMain.
From NV Require FatVol.Model FatVol.Spec FatVol.ProofsBase FatVol.ProofsInv FatVol.Proofs.
Import ListNotations.
Open Scope N_scope.

(* stage T: a stored FAT entry reads back, on bytes, for all widths *)
Theorem C04_set_get_same :
  forall (bits : N) (t : list N) (n v : N) (t' : list N), bytes t -> FatTable.Model.set bits t n v = Ok t' -> FatTable.Model.get bits t' n = Ok v.
Proof. exact FatTable.Proofs.set_get_same. Qed.
Print Assumptions C04_set_get_same.

(* stage T: every other entry is untouched (FAT12 nibble-sharing neighbour included) *)
Theorem C04_set_get_other :
  forall (bits : N) (t : list N) (n v : N) (t' : list N) (j : N), bytes t -> FatTable.Model.set bits t n v = Ok t' -> j <> n -> FatTable.Model.get bits t' j = FatTable.Model.get bits t j.
Proof. exact FatTable.Proofs.set_get_other. Qed.
Print Assumptions C04_set_get_other.

(* stage T: all FAT copies stay identical *)
Theorem C04_set_all_copies :
  forall (bits : N) (t : list N) (n v : N) (k : nat), set_all bits (repeat t (S k)) n v = (do t' <- FatTable.Model.set bits t n v; Ok (repeat t' (S k))).
Proof. exact FatTable.Proofs.set_all_copies. Qed.
Print Assumptions C04_set_all_copies.

Theorem C04_set32_top_bits :
  forall (t : list N) (n v : N) (t' : list N), bytes t -> set32 t n v = Ok t' -> nth (N.to_nat n) (raw32 t') 0 / 268435456 = nth (N.to_nat n) (raw32 t) 0 / 268435456.
Proof. exact FatTable.ProofsSet32.set32_top_bits. Qed.
Print Assumptions C04_set32_top_bits.

(* stage F: truncate (shrink, grow, to zero) keeps the file well-formed, with frame: no other entry changes *)
Theorem C04_truncate_wf :
  forall bits cs limit : N, 0 < cs -> limit <= max_valid (PB bits) + 1 -> forall (newsize : N) (st st' : FatAlloc.Model.fstate), st_wf (PB bits) cs limit st -> truncate (PB bits) cs limit newsize st = Ok st' -> st_wf (PB bits) cs limit st' /\ size st' = newsize /\ pos st' = pos st /\ Datatypes.length (tbl st') = Datatypes.length (tbl st) /\ ((exists new : list N, new <> [] /\ map st' = map st ++ new /\ new = firstn (Datatypes.length new) (free_scan (PB bits) (tbl st) limit (hint_of (sfat st))) /\ extends (PB bits) limit (tbl st) (map st) (tbl st') (map st')) \/ (exists removed : list N, removed <> [] /\ map st = map st' ++ removed /\ map st' <> [] /\ (forall c : N, In c removed -> get (tbl st') c = 0) /\ (forall c : N, ~ In c (map st) -> get (tbl st') c = get (tbl st) c)) \/ map st' = map st /\ sfat st' = sfat st).
Proof. exact FatAlloc.Proofs.FA_truncate_wf. Qed.
Print Assumptions C04_truncate_wf.

Theorem C04_write_wf :
  forall bits cs limit : N, 0 < cs -> limit <= max_valid (PB bits) + 1 -> forall (nbytes : N) (st : FatAlloc.Model.fstate), st_wf (PB bits) cs limit st -> let r := write_clusters (PB bits) cs limit nbytes st in st_wf (PB bits) cs limit (fst r) /\ extends (PB bits) limit (tbl st) (map st) (tbl (fst r)) (map (fst r)) /\ (snd r = true -> pos (fst r) = pos st + nbytes /\ size (fst r) = N.max (size st) (pos st + nbytes) /\ (0 < nbytes -> cdiv (pos st + nbytes) cs <= len (map (fst r)))) /\ (snd r = false -> fst r = st \/ free_scan (PB bits) (tbl (fst r)) limit (hint_of (sfat (fst r))) = [] /\ pos (fst r) = len (map (fst r)) * cs /\ size (fst r) = N.max (size st) (pos (fst r))).
Proof. exact FatAlloc.Proofs.FA_write_wf. Qed.
Print Assumptions C04_write_wf.

Theorem C04_close_wf :
  forall (bits cs limit : N) (st : FatAlloc.Model.fstate), st_wf (PB bits) cs limit st -> let st' := close_release true st in st_wf (PB bits) cs limit st' /\ Datatypes.length (tbl st') = Datatypes.length (tbl st) /\ (size st = 0 -> map st' = [] /\ size st' = 0 /\ (forall c : N, In c (map st) -> get (tbl st') c = 0) /\ (forall c : N, ~ In c (map st) -> get (tbl st') c = get (tbl st) c)) /\ (size st <> 0 -> st' = st).
Proof. exact FatAlloc.Proofs.FA_close_wf. Qed.
Print Assumptions C04_close_wf.

(* unlink frees exactly the chain (regression theorem for the chain-leak defect) *)
Theorem C04_unlink_frees_all :
  forall (bits limit : N) (f : fat) (m : list N), chain_wf (PB bits) limit (ftbl f) m -> let t' := ftbl (unlink_chain (PB bits) f (hd 0 m)) in Datatypes.length t' = Datatypes.length (ftbl f) /\ (forall c : N, In c m -> get t' c = 0) /\ (forall c : N, ~ In c m -> get t' c = get (ftbl f) c).
Proof. exact FatAlloc.Proofs.FA_unlink_frees_all. Qed.
Print Assumptions C04_unlink_frees_all.

Theorem C04_two_files_frame :
  forall bits cs limit : N, 0 < cs -> limit <= max_valid (PB bits) + 1 -> forall (o : ProofsFrame.op) (st : FatAlloc.Model.fstate) (m2 : list N) (s2 : N), st_wf (PB bits) cs limit st -> file_wf (PB bits) cs limit (tbl st) m2 s2 -> (forall c : N, In c (map st) -> ~ In c m2) -> let st' := apply_op (PB bits) cs limit o st in st_wf (PB bits) cs limit st' /\ file_wf (PB bits) cs limit (tbl st') m2 s2 /\ (forall c : N, In c (map st') -> ~ In c m2).
Proof. exact FatAlloc.Proofs.FA_two_files_frame. Qed.
Print Assumptions C04_two_files_frame.

(* stage D (bytes of one open file): every seek / write / truncate / read step on the clusters = the same step on a plain byte array (abs = first `size` bytes of the chain s clusters) *)
Theorem C04_data_step_refines :
  forall bits cs : N, 0 < cs -> forall (s : dstate) (o : op) (s' : dstate) (out0 : out), ProofsTrunc.Inv (PB bits) cs s -> step (PB bits) cs true s o = (s', Ok out0) -> ProofsTrunc.Inv (PB bits) cs s' /\ spec_step cs (ProofsTrunc.abs s) o = (ProofsTrunc.abs s', Ok out0).
Proof. exact FatData.Proofs.FD_step_refines. Qed.
Print Assumptions C04_data_step_refines.

(* stage D: ANY history of such steps on one handle, failed steps included, refines the byte-array specification and keeps the invariant *)
Theorem C04_data_run_refines :
  forall bits cs : N, 0 < cs -> forall (ops : list op) (s : dstate), ProofsTrunc.Inv (PB bits) cs s -> ProofsTrunc.Inv (PB bits) cs (fst (run (PB bits) cs true s ops)) /\ spec_run_rel cs (ProofsTrunc.abs s) ops (ProofsTrunc.abs (fst (run (PB bits) cs true s ops))) (snd (run (PB bits) cs true s ops)).
Proof. exact FatData.Proofs.FD_run_refines. Qed.
Print Assumptions C04_data_run_refines.

Theorem C04_data_run_refines_ok :
  forall bits cs : N, 0 < cs -> forall (ops : list op) (s : dstate), ProofsTrunc.Inv (PB bits) cs s -> Forall (fun r : res out => is_ok r = true) (snd (run (PB bits) cs true s ops)) -> spec_run cs (ProofsTrunc.abs s) ops = (ProofsTrunc.abs (fst (run (PB bits) cs true s ops)), snd (run (PB bits) cs true s ops)).
Proof. exact FatData.Proofs.FD_run_refines_ok. Qed.
Print Assumptions C04_data_run_refines_ok.

(* a write past end of file: the hole reads as zeros whatever stale bytes the clusters held *)
Theorem C04_holes_read_zero :
  forall bits cs : N, 0 < cs -> forall (s : dstate) (p : N) (b : list N) (s1 s2 : dstate) (o1 o2 : out), ProofsTrunc.Inv (PB bits) cs s -> size (fs s) <= p -> step (PB bits) cs true s (OSeek 0 (Z.of_N p)) = (s1, Ok o1) -> step (PB bits) cs true s1 (OWrite b) = (s2, Ok o2) -> ProofsTrunc.Inv (PB bits) cs s2 /\ ProofsTrunc.content s2 = ProofsTrunc.content s ++ repeat 0 (N.to_nat p - N.to_nat (size (fs s))) ++ b /\ (forall i : nat, (N.to_nat (size (fs s)) <= i < N.to_nat p)%nat -> nth_error (ProofsTrunc.content s2) i = Some 0).
Proof. exact FatData.Proofs.FD_holes_read_zero. Qed.
Print Assumptions C04_holes_read_zero.

(* frame: clusters outside the file s chain keep their bytes, foreign FAT entries are unchanged *)
Theorem C04_other_clusters_untouched :
  forall bits cs : N, 0 < cs -> forall (s : dstate) (o : op), ProofsTrunc.Inv (PB bits) cs s -> let s' := fst (step (PB bits) cs true s o) in Datatypes.length (dat s') = Datatypes.length (dat s) /\ Datatypes.length (tbl (fs s')) = Datatypes.length (tbl (fs s)) /\ (forall c : N, 2 <= c -> ~ In c (map (fs s')) -> getc (dat s') c = getc (dat s) c) /\ (forall c : N, ~ In c (map (fs s)) -> ~ In c (map (fs s')) -> get (tbl (fs s')) c = get (tbl (fs s)) c).
Proof. exact FatData.Proofs.FD_other_clusters_untouched. Qed.
Print Assumptions C04_other_clusters_untouched.

(* stage E (directory entries): storing an existing name (any case variant or its alias) rewrites exactly that one record, keeping the stored name fields and attr2 *)
Theorem C04_dir_update_in_place :
  forall (upper : list N -> list N) (spc : N) (d : Model.dir) (name : list N) (entry : Model.rec) (g : Model.group) (x : list N * list N * Model.rec), ProofsClean.wf_recs (Model.d_recs d) -> ProofsView.cap_ok d -> ProofsOps.entry_ok entry -> Model.find upper (upper name) (upper name) (Model.groups (Model.d_recs d)) = Ok (Some (g, x)) -> let old := Model.g_short g in let new := Model.short_record entry (Model.fld de_filename old) (Model.fld de_ext old) (Model.byte_at de_attr2 old) in exists (G1 G2 : list Model.group) (A B : list Model.rec), FatDir.Model.setitem upper spc d name entry = ({| Model.d_recs := Model.set_nth (N.to_nat (Model.g_off g)) new (Model.d_recs d); Model.d_cap := Model.d_cap d |}, None) /\ Model.d_recs d = A ++ old :: B /\ Model.set_nth (N.to_nat (Model.g_off g)) new (Model.d_recs d) = A ++ new :: B /\ Model.g_off g = N.of_nat (Datatypes.length A) /\ Model.fld de_filename new = Model.fld de_filename old /\ Model.fld de_ext new = Model.fld de_ext old /\ Model.byte_at de_attr2 new = Model.byte_at de_attr2 old /\ Model.attr_of new = Model.attr_of entry /\ skipn 13 new = skipn 13 entry /\ Datatypes.length new = 32%nat /\ Model.groups (Model.d_recs d) = G1 ++ g :: G2 /\ Model.groups (A ++ new :: B) = G1 ++ (Model.g_off g, Model.g_lfns g, new) :: G2 /\ Model.split_g (Model.g_off g, Model.g_lfns g, new) = Ok (fst x, new) /\ ProofsView.view (A ++ new :: B) = List.map Model.split_g G1 ++ Ok (fst x, new) :: List.map Model.split_g G2.
Proof. exact FatDir.ProofsOps.setitem_existing_updates_in_place. Qed.
Print Assumptions C04_dir_update_in_place.

(* stage E: deleting removes exactly that group from the listing; every other group is byte-identical and every other key resolves as before *)
Theorem C04_dir_delitem_spec :
  forall (upper : list N -> list N) (spc : N) (d : Model.dir) (name : list N), ProofsClean.wf_recs (Model.d_recs d) -> ProofsView.cap_ok d -> match Model.find upper (upper name) (upper name) (Model.groups (Model.d_recs d)) with | Ok (Some (g, x)) => exists (d' : Model.dir) (G1 G2 : list Model.group) (pre seg post : list Model.rec), Model.delitem upper spc d name = (d', None) /\ Model.d_cap d' = Model.d_cap d /\ Model.groups (Model.d_recs d) = G1 ++ g :: G2 /\ Model.groups (Model.d_recs d') = G1 ++ G2 /\ Model.d_recs d = pre ++ seg ++ post /\ Model.d_recs d' = pre ++ (List.map Model.mark_lfn (Model.g_lfns g) ++ [Model.mark_short (Model.g_short g)]) ++ post /\ Datatypes.length seg = S (Datatypes.length (Model.g_lfns g)) /\ Model.g_off g + 1 = N.of_nat (Datatypes.length pre + Datatypes.length seg) /\ (forall k : list N, ProofsView.hit upper (upper k) (upper k) x = false -> Model.getitem upper d' k = Model.getitem upper d k) /\ (forall names : list (list N), Model.listing d = Ok names -> Model.listing d' = Ok (firstn (Datatypes.length G1) names ++ skipn (S (Datatypes.length G1)) names)) | Ok None => Model.delitem upper spc d name = (d, Some KeyError) | Err e => Model.delitem upper spc d name = (d, Some e) end.
Proof. exact FatDir.ProofsOps.delitem_spec. Qed.
Print Assumptions C04_dir_delitem_spec.

(* stage P (path operations over the whole volume at record level: FAT values + every directory s decoded entries, dead slots, dot entries): every operation -- open(w/x/a/r+)+action+close, touch, unlink, mkdir, rmdir, rename in all its branches -- with every outcome, ENOSPC included, preserves VolInv: all chains well-formed and pairwise disjoint, no lost cluster, sizes match chains, empty files own no cluster, dot entries right, names and aliases unique, the directory graph is a tree *)
Theorem C04_path_step_inv :
  forall (upper : Model.name -> Model.name) (V : Model.vparams), ProofsInv.params_wf V -> forall (s : Model.vol) (o : Model.op), ProofsInv.VolInv upper V s -> Proofs.op_guard upper s o -> ProofsInv.VolInv upper V (fst (Model.step upper V s o)).
Proof. exact FatVol.Proofs.FV_step_inv. Qed.
Print Assumptions C04_path_step_inv.

(* stage P: outcome and tree of every operation are those of the plain in-memory tree model (the same rules as harness/fatops.py) *)
Theorem C04_path_step_refines :
  forall (upper : Model.name -> Model.name) (V : Model.vparams), ProofsInv.params_wf V -> forall (s : Model.vol) (o : Model.op), ProofsInv.VolInv upper V s -> Proofs.op_guard upper s o -> snd (Model.step upper V s o) <> Err OSError_ENOSPC -> Spec.spec_step upper (Spec.abs_tree s) o = (Spec.abs_tree (fst (Model.step upper V s o)), snd (Model.step upper V s o)).
Proof. exact FatVol.Proofs.FV_step_refines. Qed.
Print Assumptions C04_path_step_refines.

Theorem C04_path_failure_keeps_tree :
  forall (upper : Model.name -> Model.name) (V : Model.vparams), ProofsInv.params_wf V -> forall (s : Model.vol) (o : Model.op) (x : exn), ProofsInv.VolInv upper V s -> Proofs.op_guard upper s o -> snd (Model.step upper V s o) = Err x -> x <> OSError_ENOSPC -> Spec.abs_tree (fst (Model.step upper V s o)) = Spec.abs_tree s.
Proof. exact FatVol.Proofs.FV_failure_keeps_tree. Qed.
Print Assumptions C04_path_failure_keeps_tree.

(* stage P: ANY history *)
Theorem C04_path_history_inv :
  forall (upper : Model.name -> Model.name) (V : Model.vparams), ProofsInv.params_wf V -> forall (ops : list Model.op) (s : Model.vol), ProofsInv.VolInv upper V s -> Proofs.run_guard upper V s ops -> ProofsInv.VolInv upper V (fst (Model.run upper V s ops)).
Proof. exact FatVol.Proofs.FV_history_inv. Qed.
Print Assumptions C04_path_history_inv.

(* stage P: ANY history without ENOSPC refines the plain tree model and ends in VolInv (history_refines at record level) *)
Theorem C04_path_history_refines :
  forall (upper : Model.name -> Model.name) (V : Model.vparams), ProofsInv.params_wf V -> forall (ops : list Model.op) (s : Model.vol), ProofsInv.VolInv upper V s -> Proofs.run_guard upper V s ops -> Proofs.run_no_enospc upper V s ops -> ProofsInv.VolInv upper V (fst (Model.run upper V s ops)) /\ Spec.spec_run upper (Spec.abs_tree s) ops = (Spec.abs_tree (fst (Model.run upper V s ops)), snd (Model.run upper V s ops)).
Proof. exact FatVol.Proofs.FV_history_refines. Qed.
Print Assumptions C04_path_history_refines.

Theorem C04_path_rename_refines :
  forall (upper : Model.name -> Model.name) (V : Model.vparams) (s : Model.vol) (p q : list Model.name), ProofsInv.params_wf V -> ProofsInv.VolInv upper V s -> ProofsWalk.tilde_free upper p -> ProofsWalk.tilde_free upper q -> ProofsFileOp.guard_create upper s q -> snd (Model.rename upper V s p q) <> Err OSError_ENOSPC -> Spec.spec_rename upper (Spec.abs_tree s) p q = (Spec.abs_tree (fst (Model.rename upper V s p q)), snd (Model.rename upper V s p q)).
Proof. exact FatVol.Proofs.FV_rename_refines. Qed.
Print Assumptions C04_path_rename_refines.

(* ANY sequence of file operations on any family of files sharing one table: every file stays well-formed, chains stay disjoint, foreign entries (directories, reserved) keep their value *)
Theorem C04_history_partial :
  forall bits cs limit : N, 0 < cs -> limit <= max_valid (PB bits) + 1 -> forall (ops : list (nat * ProofsFrame.op)) (v : volume), vol_wf (PB bits) cs limit v -> vol_wf (PB bits) cs limit (fold_left (vstep (PB bits) cs limit) ops v) /\ (forall c : N, foreign v c -> foreign (fold_left (vstep (PB bits) cs limit) ops v) c /\ get (ftbl (vfat (fold_left (vstep (PB bits) cs limit) ops v))) c = get (ftbl (vfat v)) c).
Proof. exact FatAlloc.Proofs.FA_history. Qed.
Print Assumptions C04_history_partial.


Theorem C04_source_facts :
  (fat12_min_valid, fat12_max_valid, fat12_end_mark) = (2, 4079, 4095) /\
  (fat16_min_valid, fat16_max_valid, fat16_end_mark) = (2, 65519, 65535) /\
  (fat32_min_valid, fat32_max_valid, fat32_end_mark) = (2, 268435439, 268435455).
Proof. repeat split; reflexivity. Qed.
Print Assumptions C04_source_facts.

(* the path operations that FatVol/Model.v follows by hand (resolution, the creating branch of open, the five mutators):
   canonical digests regenerated from path.py on every run -- any edit of their logic breaks this obligation (fail closed;
   the correspondence then looks for a concrete input) *)
Theorem C04_path_source_facts :
  canon_FatPath_priv_resolve = "7c8f179242b07197"%string /\
  canon_FatPath_priv_from_entry = "8db45540687235cb"%string /\
  canon_FatPath_priv_refresh = "437ddfd4dccd5bcb"%string /\
  canon_FatPath_open = "3a9fbde66da2925d"%string /\
  canon_FatPath_unlink = "a4ee3c1b9f81d153"%string /\
  canon_FatPath_rename = "2f61c57c08072ff0"%string /\
  canon_FatPath_mkdir = "8b0eaad0a71795d8"%string /\
  canon_FatPath_rmdir = "cd50a252695244d6"%string /\
  canon_FatPath_touch = "1c2f44c844ebe6d8"%string /\
  canon_FatPath_priv_must_be_named = "59d9a08179330008"%string /\
  canon_FatPath_resolve = "e816e2b776241143"%string /\
  canon_get_parts = "fac8ba5c77581023"%string /\
  fatpath_mutators_refuse_dot_names = true.
Proof. repeat split; reflexivity. Qed.
Print Assumptions C04_path_source_facts.
