(* C07 -- Concurrent transfers are independent and the listening port stays live.
   The theorems cover the bookkeeping logic only (see DESIGN.md: runtime residue). *)
From Coq Require Import List NArith ZArith Bool String.
From NV Require Import Lib.Res Gen.Tftp Tftp.Packet Tftp.Transfer Tftp.TransferProofs Tftp.ServerProofs.
Import ListNotations.
Open Scope N_scope.

Theorem C07_source_facts :
  canon_TFTPSubServers_add = "1ec69805d1449b3d"%string /\
  canon_TFTPBaseHandler_do_RRQ = "becd4f49731b7d53"%string /\ client_state_defaults_standard = true.
Proof. repeat split; reflexivity. Qed.
Print Assumptions C07_source_facts.

(* anything addressed to transfer a leaves every other transfer untouched *)
Theorem C07_step_frame : forall reg a e b, a <> b -> reg_get b (gstep reg (a, e)) = reg_get b reg.
Proof. exact step_frame. Qed.
Print Assumptions C07_step_frame.

(* for EVERY interleaving of the events of any number of transfers, transfer a ends in
   the state it reaches alone on its own events (so C01 applies to each of them) *)
Theorem C07_interleave_projection : forall evs reg a,
  reg_get a (fold_left gstep evs reg) =
  option_map (fun st => fold_left (fun s e => tapply e s)
                                  (map snd (filter (fun x => fst x =? a) evs)) st)
             (reg_get a reg).
Proof. exact interleave_projection. Qed.
Print Assumptions C07_interleave_projection.

(* accepting a new request never alters a running transfer *)
Theorem C07_listener_independent : forall tid st reg b,
  tid <> b -> reg_get b (reg_add tid st reg) = reg_get b reg.
Proof. exact listener_independent. Qed.
Print Assumptions C07_listener_independent.

(* each transfer of the interleaving still emits only sound DATA (C01 on the projection) *)
Theorem C07_each_transfer_sound : forall (F : bytes) (B : N), 1 <= B -> forall evs st,
  Inv F B st -> forall p, In p (fst (run st evs)) -> sound F B p.
Proof. intros F B HB evs st HI. exact (proj1 (data_sound F B HB evs st HI)). Qed.
Print Assumptions C07_each_transfer_sound.

Example C07_nonvacuous :
  let a := new_state 1 [1;2;3] tftp_binary_name 0%Z in
  let b := new_state 2 [9;9] tftp_binary_name 0%Z in
  reg_get 2 (fold_left gstep [(1, TPacket 1 [0;4;0;0] 1%Z); (2, TTick 5%Z); (1, TTick 9%Z)] [(1, a); (2, b)])
  = Some (fst (tick b 5%Z)).
Proof. reflexivity. Qed.
