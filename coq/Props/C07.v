(* C07 -- Concurrent transfers are independent and the listening port stays live.
   The theorems cover the bookkeeping logic only (see DESIGN.md: runtime residue). *)
From Coq Require Import List NArith ZArith Bool String.
From NV Require Import Lib.Res Gen.Tftp Tftp.Packet Tftp.Transfer Tftp.TransferProofs Tftp.ServerProofs.
From NV Require Locks.Export.
Import ListNotations.
Open Scope N_scope.

Theorem C07_source_facts :
  canon_TFTPSubServers_add = "1ec69805d1449b3d"%string /\
  canon_TFTPBaseHandler_do_RRQ = "becd4f49731b7d53"%string /\ client_state_defaults_standard = true.
Proof. repeat split; reflexivity. Qed.
Print Assumptions C07_source_facts.

(* "each on their own server port": the model keys transfers by distinct TIDs; what makes the
   operating system deliver a transfer's datagrams to ITS socket is that the sub-server binds an
   ephemeral port without SO_REUSEADDR / SO_REUSEPORT (fact regenerated from tftpd.py; the port
   choice itself is the kernel's and is observed by the own-ports tier of the check) *)
Theorem C07_private_port : subserver_binds_private_port = true.
Proof. reflexivity. Qed.
Print Assumptions C07_private_port.

(* anything addressed to transfer a leaves every other transfer untouched *)
Theorem C07_step_frame : forall reg a e b, a <> b -> reg_get b (gstep reg (a, e)) = reg_get b reg.
Proof. exact step_frame. Qed.
Print Assumptions C07_step_frame.

(* for EVERY interleaving of the events of any number of transfers, transfer a ends in
   the state it reaches alone on its own events (so C01 applies to each of them) *)
Theorem C07_interleave_projection : forall evs reg a,
  reg_get a (fold_left gstep evs reg) =
  option_map (fun st => fold_left (fun s e => tapply e s)
                                  (map snd (filter (fun x => fst x =? a) evs)) st)
             (reg_get a reg).
Proof. exact interleave_projection. Qed.
Print Assumptions C07_interleave_projection.

(* accepting a new request never alters a running transfer *)
Theorem C07_listener_independent : forall tid st reg b,
  tid <> b -> reg_get b (reg_add tid st reg) = reg_get b reg.
Proof. exact listener_independent. Qed.
Print Assumptions C07_listener_independent.

(* each transfer of the interleaving still emits only sound DATA (C01 on the projection) *)
Theorem C07_each_transfer_sound : forall (F : bytes) (B : N), 1 <= B -> forall evs st,
  Inv F B st -> forall p, In p (fst (run st evs)) -> sound F B p.
Proof. intros F B HB evs st HI. exact (proj1 (data_sound F B HB evs st HI)). Qed.
Print Assumptions C07_each_transfer_sound.

Example C07_nonvacuous :
  let a := new_state 1 [1;2;3] tftp_binary_name 0%Z in
  let b := new_state 2 [9;9] tftp_binary_name 0%Z in
  reg_get 2 (fold_left gstep [(1, TPacket 1 [0;4;0;0] 1%Z); (2, TTick 5%Z); (1, TTick 9%Z)] [(1, a); (2, b)])
  = Some (fst (tick b 5%Z)).
Proof. reflexivity. Qed.

(* ---------------- the registry as a concurrent object (Registry/Model.v: small-step interleaving model) ---------------- *)
From Coq Require Import Arith Lia.
From NV Require Import Gen.Registry Registry.Model Registry.Inv Registry.ProofsLocal Registry.ProofsInv
  Registry.Measure Registry.ProofsSafe Registry.Fair Registry.ProofsLive Registry.ProofsListener Registry.Proofs.
Close Scope N_scope.
Open Scope nat_scope.
Open Scope list_scope.

(* facts regenerated from tftpd.py on every run: digests of add / _remove / run / close / server_close, every access to _alive lexically under _lock, no shutdown() / _remove() reachable from a sub-server thread, poll and join constants *)
Theorem C07_registry_source_facts :
  registry_source_facts = true.
Proof. exact Registry.Proofs.registry_source_facts_hold. Qed.
Print Assumptions C07_registry_source_facts.

(* CONCURRENT registry (listener thread in add, reaper thread in run, N sub-server threads; every interleaving at the granularity of one lock / dictionary / flag operation): the table of live transfers is touched and iterated only by the lock holder; the reaper never dies of KeyError or of a dictionary changing during iteration *)
Theorem C07_registry_alive_only_under_lock :
  registry_source_facts = true -> forall (adds : list nat) (cl : bool) (st : state) (i c : nat) (st' : state) (a : act), reachable adds cl st -> step st i c = Some (st', a) -> (dict_act a = true -> lockh st = Some i) /\ (dict_act a = false -> alive st' = alive st) /\ rp st' <> R_dead.
Proof. exact Registry.Proofs.alive_only_under_lock. Qed.
Print Assumptions C07_registry_alive_only_under_lock.

(* in every reachable state some thread can move, or everything has terminated *)
Theorem C07_registry_no_deadlock :
  registry_source_facts = true -> forall (adds : list nat) (cl : bool) (st : state), reachable adds cl st -> terminatedb st = true \/ (exists (i : nat) (st' : state) (a : act), i < nthreads st /\ step st i 0 = Some (st', a)).
Proof. exact Registry.Proofs.no_deadlock. Qed.
Print Assumptions C07_registry_no_deadlock.

(* the listening thread is blocked only for the rest of the lock holder s section: add completes after boundedly many fair rounds *)
Theorem C07_registry_listener_progress :
  registry_source_facts = true -> forall (adds : list nat) (cl : bool) (st : state), reachable adds cl st -> (forall (c : nat) (st' : state) (a : act), step st 0 c = Some (st', a) -> lam st' < lam st) /\ lam st <= 12 * List.length (ladds st) + 15 /\ (lp st <> L_end -> forall sch : sched, rounds (nthreads st) (S (phi6 st)) sch -> exists (pre suf : list (nat * nat)) (st' : state) (a : act), sch = pre ++ suf /\ step (run st pre) 0 0 = Some (st', a)).
Proof. exact Registry.Proofs.listener_progress. Qed.
Print Assumptions C07_registry_listener_progress.

(* never two live transfers for one TID, never an entry overwritten without the old transfer being shut down, joined and closed *)
Theorem C07_registry_add_replaces :
  registry_source_facts = true -> forall (adds : list nat) (cl : bool) (st : state), reachable adds cl st -> NoDup (map fst (alive st)) /\ NoDup (map snd (alive st)) /\ (forall (c : nat) (st' : state) (tid s : nat), step st 0 c = Some (st', AStore tid s) -> lookup tid (alive st) = None /\ alive st' = alive st ++ [(tid, s)] /\ s = nadd st /\ (forall (u : nat) (x : sub), u < born st -> nth_error (subs st) u = Some x -> ~ In u (map snd (alive st)) -> sph x = Returned /\ sclosed x = true)) /\ (forall (r : rm) (c : nat) (st' : state) (a : act), lp st = L_rm r -> step st 0 c = Some (st', a) -> match lp st' with | L_rm r' => rm_tgt r' = rm_tgt r | L_store => exists x : sub, r = RmClose (rm_tgt r) /\ nth_error (subs st') (rm_tgt r) = Some x /\ sph x = Returned /\ sclosed x = true | _ => False end).
Proof. exact Registry.Proofs.add_replaces. Qed.
Print Assumptions C07_registry_add_replaces.

(* transfers reading one image share its volume under the read side of the file-system lock: a writer excludes them all, and nobody waits for ever
   (statements in Locks/Export.v; the lock model is the text of the current nobodd/locks.py: per-method digests regenerated on
   every run) *)
Theorem C07_lock_model_matches_source : NV.Locks.Export.model_matches_source_statement.
Proof. exact NV.Locks.Export.model_matches_source_holds. Qed.
Print Assumptions C07_lock_model_matches_source.

Theorem C07_lock_exclusion : NV.Locks.Export.exclusion_statement.
Proof. exact NV.Locks.Export.exclusion_holds. Qed.
Print Assumptions C07_lock_exclusion.

Theorem C07_lock_no_deadlock : NV.Locks.Export.no_deadlock_statement.
Proof. exact NV.Locks.Export.no_deadlock_holds. Qed.
Print Assumptions C07_lock_no_deadlock.
