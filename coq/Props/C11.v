(* C11 -- Names round-trip exactly and are stored as standard VFAT entries. Statements only.
   Unicode upper-casing is CPython s: it enters as the explicit argument [up] (see DESIGN.md). *)
From Coq Require Import List NArith ZArith Bool.
From NV Require Import Lib.Res Gen.Fat FatNames.Model FatNames.ProofsAlias FatNames.ProofsValid FatNames.ProofsLfn.
From NV Require Fat.Spec.
From NV Require FatDir.Model FatDir.ProofsBase FatDir.ProofsMain.
Import ListNotations.
Open Scope N_scope.

(* valid names = the VFAT rule (deny-list regenerated from fat.py) *)
Theorem C11_lfn_valid_spec :
  forall s : list N, lfn_valid s = vfat_valid s.
Proof. exact FatNames.ProofsValid.lfn_valid_spec. Qed.
Print Assumptions C11_lfn_valid_spec.

(* invalid names are rejected with ValueError and nothing is produced *)
Theorem C11_invalid_rejected :
  forall (name up : list N) (existing : list (list N * list N)) (entry : list N), vfat_valid name = false -> create_records name up existing entry = Err ValueError.
Proof. exact FatNames.ProofsValid.invalid_rejected. Qed.
Print Assumptions C11_invalid_rejected.

(* "." and ".." are references, never names: no entry is created under them (the guard of the FatPath mutators is a fact regenerated from path.py) *)
Theorem C11_dot_names_rejected :
  forall (name up : list N) (existing : list (list N * list N)) (entry : list N), is_dot_name name = true -> create_records name up existing entry = Err ValueError.
Proof. exact FatNames.ProofsValid.dot_names_rejected. Qed.
Print Assumptions C11_dot_names_rejected.

Theorem C11_too_long_rejected :
  forall (name up : list N) (existing : list (list N * list N)), existsb is_surrogate name = false -> (255 < length (utf16 name))%nat -> get_names name up existing = Err ValueError.
Proof. exact FatNames.ProofsValid.too_long_rejected. Qed.
Print Assumptions C11_too_long_rejected.

(* the independent specification reader (Fat.Spec.decode_dir) recovers exactly the name from the records written *)
Theorem C11_name_roundtrip :
  forall (name up : list N) (existing : list (list N * list N)) (entry : list N) (recs : list (list N)) (term : list N), let sp := short_parts name up in let k := N.of_nat (lfn_count (length (utf16 name))) in case_attr name (fst sp) (snd sp) = None -> name <> [] -> name_ok name = true -> (length (utf16 name) <= 255)%nat -> ~ In 229 up -> length entry = 32%nat -> Spec.rfield de_attr entry <> 15 -> N.land (Spec.rfield de_attr entry) 8 = 0 -> nth 0 term 0 = 0 -> prefix_entries name up existing entry = Ok recs -> exists short : list N, Spec.decode_dir (recs ++ [term]) 0 None 0 = ([{| Spec.d_name := name; Spec.d_sfn := snd (Spec.short_name short); Spec.d_raw := short; Spec.d_nlfn := k; Spec.d_off := k |}], 0) /\ last recs [] = short.
Proof. exact FatNames.ProofsLfn.name_roundtrip. Qed.
Print Assumptions C11_name_roundtrip.

(* order, terminator, padding, checksum, at most 20 records *)
Theorem C11_lfn_entries_standard :
  forall (name up : list N) (existing : list (list N * list N)) (entry : list N) (recs : list (list N)), let sp := short_parts name up in let u := utf16 name in let n := length u in let k := lfn_count n in case_attr name (fst sp) (snd sp) = None -> name <> [] -> existsb is_surrogate name = false -> code_points name = true -> (n <= 255)%nat -> prefix_entries name up existing entry = Ok recs -> exists (lrecs : list (list N)) (sfn8 ext3 : list N), recs = lrecs ++ [short_record entry sfn8 ext3 0] /\ length lrecs = k /\ (1 <= k <= 20)%nat /\ map (fun r : list N => nth 0 r 0) lrecs = ordinals k /\ Forall (std_lfn (Spec.checksum (sfn8 ++ ext3))) lrecs /\ concat (map Spec.lfn_units (rev lrecs)) = u ++ term_of n ++ repeat 65535 (13 * k - n - length (term_of n)).
Proof. exact FatNames.ProofsLfn.lfn_entries_standard. Qed.
Print Assumptions C11_lfn_entries_standard.

(* pure 8.3 names (optionally all-lower base / extension) need no long-name records *)
Theorem C11_pure_83_no_lfn :
  forall (base ext up : list N) (existing : list (list N * list N)) (entry : list N), pure83 base ext = true -> let name := make_sfn base ext in up = map upper_b name -> length entry = 32%nat -> exists attr : N, let r := short_record entry (ljust 8 32 (map upper_b base)) (ljust 3 32 (map upper_b ext)) attr in prefix_entries name up existing entry = Ok [r] /\ In attr [0; 8; 16; 24] /\ Spec.short_name r = (name, make_sfn (map upper_b base) (map upper_b ext)).
Proof. exact FatNames.ProofsValid.pure_83_no_lfn. Qed.
Print Assumptions C11_pure_83_no_lfn.

Theorem C11_short_only_shows_name :
  forall (name up : list N) (existing : list (list N * list N)) (entry : list N) (attr : N), let sp := short_parts name up in case_attr name (fst sp) (snd sp) = Some attr -> length entry = 32%nat -> let r := short_record entry (ljust 8 32 (fst sp)) (ljust 3 32 (snd sp)) attr in prefix_entries name up existing entry = Ok [r] /\ In attr [0; 8; 16; 24] /\ Spec.short_name r = (latin1_replace name, make_sfn (fst sp) (snd sp)).
Proof. exact FatNames.ProofsValid.short_only_shows_name. Qed.
Print Assumptions C11_short_only_shows_name.

(* the alias uses only legal 8.3 bytes, 8+3 long *)
Theorem C11_alias_standard :
  forall (name up : list N) (existing : list (list N * list N)) (lfn sfn8 ext3 : list N) (attr : N), is_dot_name name = false -> get_names name up existing = Ok (lfn, sfn8, ext3, attr) -> length sfn8 = 8%nat /\ length ext3 = 3%nat /\ forallb sfn_valid_char sfn8 = true /\ forallb sfn_valid_char ext3 = true /\ (~ In 229 up -> ~ In 229 sfn8).
Proof. exact FatNames.ProofsValid.alias_standard. Qed.
Print Assumptions C11_alias_standard.

Theorem C11_checksum_standard :
  forall sfn ext : list N, sfn_checksum sfn ext = Spec.checksum (sfn ++ ext).
Proof. exact FatNames.ProofsValid.checksum_standard. Qed.
Print Assumptions C11_checksum_standard.

(* a new name is appended: every case variant of it resolves to the new entry, every key that resolved before still resolves to the same entry, the listing grows by exactly that name (no shadowing, no merging) *)
Theorem C11_created_entry_found_no_shadowing :
  forall (upper : list N -> list N) (spc : N) (d : Model.dir) (name : list N) (entry : Model.rec) (recs_new : list Model.rec), ProofsClean.wf_recs (Model.d_recs d) -> ProofsView.cap_ok d -> 0 < spc -> ProofsOps.entry_ok entry -> name <> [] -> name_ok name = true -> (length (utf16 name) <= 255)%nat -> ProofsNames.ends_ffff name = false -> ~ In 229 (upper (Model.lstrip_dots name)) -> (forall a : N, case_attr name (fst (short_parts name (upper (Model.lstrip_dots name)))) (snd (short_parts name (upper (Model.lstrip_dots name)))) = Some a -> fst (short_parts name (upper (Model.lstrip_dots name))) <> []) -> Model.find upper (upper name) (upper name) (Model.groups (Model.d_recs d)) = Ok None -> (do xs <- Model.split_all (Model.groups (Model.d_recs d)); prefix_entries name (upper (Model.lstrip_dots name)) (Model.existing_of upper xs) entry) = Ok recs_new -> ProofsMain.succeeds d recs_new -> exists (d' : Model.dir) (sfn8 ext3 : list N) (a2 : N) (alias : list N), let e' := short_record entry sfn8 ext3 a2 in Model.setitem upper spc d name entry = (d', None) /\ Model.d_cap d' = Model.d_cap d /\ length sfn8 = 8%nat /\ length ext3 = 3%nat /\ ProofsView.view (Model.d_recs d') = ProofsView.view (Model.d_recs d) ++ [Ok (name, alias, e')] /\ (forall v : list N, upper v = upper name -> Model.getitem upper d' v = Ok e') /\ (forall (key : list N) (e : Model.rec), Model.getitem upper d key = Ok e -> Model.getitem upper d' key = Ok e) /\ (forall key : list N, upper key <> upper name -> upper key <> alias -> Model.getitem upper d' key = Model.getitem upper d key) /\ (exists names : list (list N), Model.listing d = Ok names /\ Model.listing d' = Ok (names ++ [name])).
Proof. exact FatDir.ProofsMain.setitem_new_then_getitem. Qed.
Print Assumptions C11_created_entry_found_no_shadowing.

(* the alias differs from every existing alias and long name of the directory *)
Theorem C11_alias_unique :
  forall (prefix ext : list N) (existing : list (list N * list N)) (a : list N), unique_sfn prefix ext existing = Ok a -> forall l s : list N, In (l, s) existing -> fs l <> fs (a ++ extpart ext) /\ fs s <> fs (a ++ extpart ext).
Proof. exact FatNames.ProofsAlias.alias_unique. Qed.
Print Assumptions C11_alias_unique.

(* the numeric tail is the least one not in use *)
Theorem C11_unique_sfn_least :
  forall (prefix ext : list N) (existing : list (list N * list N)) (a : list N), unique_sfn prefix ext existing = Ok a -> exists n : N, a = alias_of prefix n /\ 1 <= n /\ n < max_sfn_suffix /\ taken prefix ext existing n = false /\ (forall m : N, 1 <= m -> m < n -> taken prefix ext existing m = true).
Proof. exact FatNames.ProofsAlias.unique_sfn_least. Qed.
Print Assumptions C11_unique_sfn_least.

Theorem C11_unique_sfn_enospc :
  forall (prefix ext : list N) (existing : list (list N * list N)), (exists e : exn, unique_sfn prefix ext existing = Err e) <-> (forall m : N, 1 <= m -> m < max_sfn_suffix -> taken prefix ext existing m = true).
Proof. exact FatNames.ProofsAlias.unique_sfn_enospc. Qed.
Print Assumptions C11_unique_sfn_enospc.

(* adding an entry never changes what an existing name resolves to (no shadowing) *)
Theorem C11_lookup_stable :
  forall (uname : list N) (ex : list (list N * list N)) (new : list N * list N) (i j : N), lookup_from i uname ex = Some j -> lookup_from i uname (ex ++ [new]) = Some j.
Proof. exact FatNames.ProofsValid.lookup_stable. Qed.
Print Assumptions C11_lookup_stable.

Theorem C11_lookup_found :
  forall (uname : list N) (ex0 : list (list N * list N)) (i : N) (lu s : list N), In (lu, s) ex0 -> lu = uname \/ s = uname -> exists j : N, lookup_from i uname ex0 = Some j.
Proof. exact FatNames.ProofsValid.lookup_found. Qed.
Print Assumptions C11_lookup_found.


Theorem C11_source_facts :
  lfn_valid_guards_standard = true /\ lfn_valid_anchored_end = true /\ max_sfn_suffix = 65535 /\
  lfn_checksum_standard = true /\ lfn_sizeof = 32 /\ de_sizeof = 32.
Proof. repeat split; reflexivity. Qed.
Print Assumptions C11_source_facts.
