(* C03 -- Reading a FAT volume yields exactly what its on-disk structures define. Statements only. *)
From Coq Require Import List NArith ZArith Bool.
From NV Require Import Lib.Res Gen.Fat Fat.Spec.
From NV Require Import FatTable.Model FatTable.ProofsBase FatTable.ProofsSet32 FatTable.Proofs.
From NV Require Import FatRead.Model FatRead.ProofsBase FatRead.ProofsGeom FatRead.ProofsRead FatRead.ProofsTime FatRead.Proofs.
From NV Require FatDir.Model FatDir.ProofsBase FatDir.ProofsSpec.
From NV Require FatVol.Model FatVol.Spec FatVol.ProofsInv FatVol.ProofsWalk FatVol.ProofsDots FatVol.ProofsEx FatVol.ProofsDotsEx.
Import ListNotations.
Open Scope N_scope.

(* the FAT entry the code reads = the bit-level entry of the specification, for all three widths, every table, every index in range (odd/even and byte-straddling cases included) *)
Theorem C03_fat_entry_spec :
  forall (bits : N) (t : list N) (n : N), bytes t -> Proofs.in_range bits t n -> get bits t n = Ok (nth (N.to_nat n) (decode_fat bits t) 0).
Proof. exact FatTable.Proofs.get_spec. Qed.
Print Assumptions C03_fat_entry_spec.

Theorem C03_fat_entry_index_error :
  forall (bits : N) (t : list N) (n : N), ~ Proofs.in_range bits t n -> get bits t n = Err IndexError.
Proof. exact FatTable.Proofs.get_index_error. Qed.
Print Assumptions C03_fat_entry_index_error.

(* region offsets, sizes, cluster count and FAT type computed as FatFileSystem.__init__ does = the specification reader, for every header in the common domain *)
Theorem C03_geometry_spec :
  forall img : list N, 90 <= lenN img -> q_total_unused (parse img) -> same_verdict (geometry_model img) (geometry img).
Proof. exact FatRead.ProofsGeom.geometry_spec. Qed.
Print Assumptions C03_geometry_spec.

Theorem C03_cluster_offset_spec :
  forall (img : list N) (m : geom_m) (g : geom) (c : N), geometry_model img = Ok m -> agree m g -> let data := data_area m img in let n := clusters_len (m_cs m) data in n = g_count g /\ (2 <= c < g_count g + 2 -> cluster_get (m_cs m) data n c = Ok (cluster_bytes g img c) /\ cluster_bytes g img c = slice (m_data_off m + (c - 2) * m_cs m) (m_cs m) img /\ length (cluster_bytes g img c) = N.to_nat (m_cs m)) /\ (~ 2 <= c < g_count g + 2 -> cluster_get (m_cs m) data n c = Err IndexError).
Proof. exact FatRead.ProofsGeom.cluster_offset_spec. Qed.
Print Assumptions C03_cluster_offset_spec.

(* ANY sequence of seek / read / readinto / readall on a file = the same sequence on the content held in memory *)
Theorem C03_read_refines :
  forall (cs : N) (data map : list N) (size : N) (ops : list op), 0 < cs -> wf_file cs data map size -> run_file cs data map size ops = ref_run cs (content cs data map size) ops 0.
Proof. exact FatRead.ProofsRead.run_file_refines. Qed.
Print Assumptions C03_read_refines.

Theorem C03_raw_read_spec :
  forall (cs : N) (data : list N), 0 < cs -> forall (n : N) (map : list N) (size pos : N) (b : list N) (st' : fstate), wf_file cs data map size -> readinto cs data (nclusters cs data) n (mkfile map size pos) = Ok (b, st') -> exists m : N, b = firstn (N.to_nat m) (skipn (N.to_nat pos) (content cs data map size)) /\ N.of_nat (length b) = m /\ m <= n /\ (m = 0 <-> n = 0 \/ size <= pos) /\ st' = mkfile map size (pos + m).
Proof. exact FatRead.ProofsRead.raw_read_spec. Qed.
Print Assumptions C03_raw_read_spec.

(* repeating raw reads (what io.BufferedReader does) yields exactly the requested slice *)
Theorem C03_read_loop_refines :
  forall (cs : N) (data : list N), 0 < cs -> forall (map : list N) (size n pos : N), wf_file cs data map size -> read_full cs data (nclusters cs data) n (mkfile map size pos) = Ok (firstn (N.to_nat n) (skipn (N.to_nat pos) (content cs data map size)), mkfile map size (pos + N.min n (size - pos))).
Proof. exact FatRead.ProofsRead.read_loop_refines. Qed.
Print Assumptions C03_read_loop_refines.

(* reading never changes map or size (and no data area occurs in any result type) *)
Theorem C03_reads_preserve_file :
  forall (cs : N) (data : list N) (n : N) (o : op) (st : fstate), f_map (snd (step cs data n o st)) = f_map st /\ f_size (snd (step cs data n o st)) = f_size st.
Proof. exact FatRead.ProofsRead.run_preserves_file. Qed.
Print Assumptions C03_reads_preserve_file.

Theorem C03_timestamp_spec :
  forall date time cs : N, decode_timestamp_fields date time cs = (1980 + (date / 2 ^ 9) mod 2 ^ 7, (date / 2 ^ 5) mod 2 ^ 4, date mod 2 ^ 5, (time / 2 ^ 11) mod 2 ^ 5, (time / 2 ^ 5) mod 2 ^ 6, 2 * (time mod 2 ^ 5) + cs * 10 / 1000, (cs * 10) mod 1000 * 1000).
Proof. exact FatRead.ProofsTime.timestamp_spec. Qed.
Print Assumptions C03_timestamp_spec.

(* FatPath resolution of ANY component list -- "." and ".." included, which _resolve looks up as the dot entries stored in each sub-directory -- on a consistent volume is the walk over the plain tree the volume holds with a stack of the directories passed: "." stays, ".." pops, and at the root neither exists *)
Theorem C03_path_resolution_refines :
  forall (upper : Model.name -> Model.name) (V : Model.vparams) (s : Model.vol) (parts : list Model.name), ProofsInv.VolInv upper V s -> ProofsWalk.tilde_free upper parts -> match Model.resolved upper s parts with | Ok Model.RNone => Spec.twalkd upper [] (Spec.abs_tree s) parts = Ok None | Ok (Model.RRoot as r) | Ok (Model.RFound _ _ as r) => Spec.twalkd upper [] (Spec.abs_tree s) parts = Ok (Some (ProofsWalk.cur_node s r)) | Err x => x = NotADirectory /\ Spec.twalkd upper [] (Spec.abs_tree s) parts = Err NotADirectory end.
Proof. exact FatVol.ProofsDots.resolved_refines. Qed.
Print Assumptions C03_path_resolution_refines.

(* whatever a path spells, what it reaches is a node of this volume s tree *)
Theorem C03_path_resolution_confined :
  forall (upper : Model.name -> Model.name) (V : Model.vparams) (s : Model.vol) (parts : list Model.name) (r : Model.rres), ProofsInv.VolInv upper V s -> ProofsWalk.tilde_free upper parts -> Model.resolved upper s parts = Ok r -> r <> Model.RNone -> Spec.reach (Spec.abs_tree s) (ProofsWalk.cur_node s r).
Proof. exact FatVol.ProofsDots.resolved_confined. Qed.
Print Assumptions C03_path_resolution_confined.

(* what a dotted path reaches is what its dot-free normal form (Spec.lexnorm: "." dropped, "x/.." cancelled, both kept at the root) reaches in the volume s tree *)
Theorem C03_path_is_its_normal_form :
  forall (upper : Model.name -> Model.name) (V : Model.vparams) (s : Model.vol) (parts : list Model.name) (r : Model.rres), ProofsInv.VolInv upper V s -> ProofsWalk.tilde_free upper parts -> Model.resolved upper s parts = Ok r -> r <> Model.RNone -> Spec.twalk upper (Spec.abs_tree s) (Spec.lexnorm upper [] parts) = Ok (Some (ProofsWalk.cur_node s r)).
Proof. exact FatVol.ProofsDots.resolved_is_normalised_path. Qed.
Print Assumptions C03_path_is_its_normal_form.

Theorem C03_dot_skipped :
  forall (upper : Model.name -> Model.name) (p : Spec.node) (stk : list Spec.node) (ch : list (Model.name * Spec.node)) (h : Model.name) (r : list Model.name), upper h = [46] -> Spec.twalkd upper (p :: stk) (Spec.Dir ch) (h :: r) = Spec.twalkd upper (p :: stk) (Spec.Dir ch) r.
Proof. exact FatVol.ProofsDots.twalkd_dot. Qed.
Print Assumptions C03_dot_skipped.

(* lexical normalisation is sound below the root: "x/.." cancels when x names a directory *)
Theorem C03_dotdot_cancels :
  forall (upper : Model.name -> Model.name) (stk : list Spec.node) (ch : Spec.kids) (x h : Model.name) (r : list Model.name) (c : list (Model.name * Spec.node)), stk = [] \/ upper x <> [46] /\ upper x <> [46; 46] -> Spec.tfind upper (upper x) ch = Some (Spec.Dir c) -> upper h = [46; 46] -> Spec.twalkd upper stk (Spec.Dir ch) (x :: h :: r) = Spec.twalkd upper stk (Spec.Dir ch) r.
Proof. exact FatVol.ProofsDots.twalkd_dotdot. Qed.
Print Assumptions C03_dotdot_cancels.

(* non-vacuity: a volume grown by a guarded history is in VolInv; /d/e/../f.txt reaches the 700-byte file, "." and ".." at the root reach nothing, a file is not a directory *)
Theorem C03_dots_example :
  ProofsInv.VolInv ProofsEx.up ProofsEx.V0 ProofsDotsEx.s_d /\ (exists (i : N) (e : Model.entry), Model.resolved ProofsEx.up ProofsDotsEx.s_d [ProofsEx.n_d; ProofsDotsEx.n_e; ProofsDotsEx.dotdot; ProofsEx.n_f] = Ok (Model.RFound i e) /\ Model.e_size e = 700 /\ Model.is_dir e = false) /\ Spec.twalkd ProofsEx.up [] (Spec.abs_tree ProofsDotsEx.s_d) [ProofsEx.n_d; ProofsDotsEx.n_e; ProofsDotsEx.dotdot; ProofsEx.n_f] = Ok (Some (Spec.File 700)) /\ Model.resolved ProofsEx.up ProofsDotsEx.s_d [ProofsEx.n_d; ProofsDotsEx.n_e; ProofsDotsEx.dotdot; ProofsEx.n_f] = Model.resolved ProofsEx.up ProofsDotsEx.s_d [ProofsEx.n_d; ProofsDotsEx.dot; ProofsDotsEx.dot; ProofsEx.n_f] /\ Spec.twalkd ProofsEx.up [] (Spec.abs_tree ProofsDotsEx.s_d) [ProofsEx.n_d; ProofsDotsEx.dot; ProofsDotsEx.n_e; ProofsDotsEx.dotdot] = Spec.twalkd ProofsEx.up [] (Spec.abs_tree ProofsDotsEx.s_d) [ProofsEx.n_d] /\ Model.resolved ProofsEx.up ProofsDotsEx.s_d [ProofsDotsEx.dotdot] = Ok Model.RNone /\ Model.resolved ProofsEx.up ProofsDotsEx.s_d [ProofsDotsEx.dot; ProofsEx.n_d] = Ok Model.RNone /\ Model.resolved ProofsEx.up ProofsDotsEx.s_d [ProofsEx.n_d; ProofsDotsEx.dotdot; ProofsDotsEx.dotdot] = Ok Model.RNone /\ Model.resolved ProofsEx.up ProofsDotsEx.s_d [ProofsEx.n_d; ProofsEx.n_f; ProofsDotsEx.dotdot] = Err NotADirectory /\ Spec.reach (Spec.abs_tree ProofsDotsEx.s_d) (Spec.File 700) /\ Spec.lexnorm ProofsEx.up [] [ProofsEx.n_d; ProofsDotsEx.n_e; ProofsDotsEx.dotdot; ProofsDotsEx.dot; ProofsEx.n_f] = [ProofsEx.n_d; ProofsEx.n_f] /\ Spec.lexnorm ProofsEx.up [] [ProofsDotsEx.dotdot; ProofsEx.n_d; ProofsDotsEx.dotdot] = [ProofsDotsEx.dotdot].
Proof. exact FatVol.ProofsDotsEx.FV_dots_example. Qed.
Print Assumptions C03_dots_example.

(* the directory decoder of the code (_group_entries / _split_entries / _join_lfn_entries) = the specification decoder on every directory region whose long-name runs are valid or absent: same names, aliases, raw entries, offsets, no orphans *)
Theorem C03_directory_decode_spec :
  forall recs : list Model.rec, ProofsClean.wf_recs recs -> ProofsSpec.clean_dir recs = true -> let sp := decode_dir recs 0 None 0 in Model.split_all (Model.groups recs) = Ok (map ProofsSpec.triple_of (fst sp)) /\ map ProofsSpec.place_g (Model.groups recs) = map ProofsSpec.place_of (fst sp) /\ snd sp = 0 /\ Model.listing {| Model.d_recs := recs; Model.d_cap := None |} = Ok (map d_name (fst sp)).
Proof. exact FatDir.ProofsSpec.decode_agrees_with_spec. Qed.
Print Assumptions C03_directory_decode_spec.


(* constants and layouts regenerated from fat.py / fs.py on every run *)
Theorem C03_source_facts :
  (fat12_min_valid, fat12_max_valid, fat12_end_mark) = (2, 4079, 4095) /\
  (fat16_min_valid, fat16_max_valid, fat16_end_mark) = (2, 65519, 65535) /\
  (fat32_min_valid, fat32_max_valid, fat32_end_mark) = (2, 268435439, 268435455) /\
  (fat12_threshold, fat16_threshold) = (4085, 65525) /\ fs_default_atime = false /\
  de_sizeof = 32 /\ lfn_sizeof = 32 /\ bpb_sizeof = 36 /\ lfn_checksum_standard = true.
Proof. repeat split; reflexivity. Qed.
Print Assumptions C03_source_facts.
