(* C10 -- Running out of space fails cleanly with ENOSPC and a consistent volume. Statements only. *)
From Coq Require Import List NArith ZArith Bool String.
From NV Require Import Lib.Res Gen.Fat Fat.Spec.
From NV Require Import FatTable.Model FatTable.ProofsBase FatTable.ProofsSet32 FatTable.Proofs.
From NV Require Import FatAlloc.Model FatAlloc.ProofsBase FatAlloc.ProofsGrow FatAlloc.ProofsOps FatAlloc.ProofsWrite FatAlloc.ProofsFrame FatAlloc.Proofs.
From NV Require Import FatRead.Model FatData.Model FatData.Spec FatData.ProofsBase FatData.Proofs.
From NV Require FatDir.Model FatDir.ProofsBase FatDir.ProofsView FatDir.ProofsClean FatDir.ProofsOps FatDir.ProofsAppend FatDir.ProofsMain.
From NV Require FatVol.Model FatVol.Spec FatVol.ProofsBase FatVol.ProofsInv FatVol.Proofs.
Import ListNotations.
Open Scope N_scope.

(* only clusters that exist in the data area (and are free) are ever handed out *)
Theorem C10_free_in_data_area :
  forall (bits : N) (t : list N) (limit : N) (hint : option N) (c : N), In c (free_scan (PB bits) t limit hint) -> min_valid (PB bits) < c /\ c < limit /\ c < len t /\ get t c = 0.
Proof. exact FatAlloc.Proofs.FA_free_in_data_area. Qed.
Print Assumptions C10_free_in_data_area.

(* one scan never yields a cluster twice (FAT32 hint wrap-around included) *)
Theorem C10_free_nodup :
  forall (bits : N) (t : list N) (limit : N) (hint : option N), NoDup (free_scan (PB bits) t limit hint).
Proof. exact FatAlloc.Proofs.FA_free_nodup. Qed.
Print Assumptions C10_free_nodup.

(* ENOSPC only when there really is no free cluster *)
Theorem C10_free_complete :
  forall (bits : N) (t : list N) (limit : N) (hint : option N) (c : N), min_valid (PB bits) < c -> c < limit -> c < len t -> get t c = 0 -> c <= max_valid (PB bits) -> In c (free_scan (PB bits) t limit hint).
Proof. exact FatAlloc.Proofs.FA_free_complete. Qed.
Print Assumptions C10_free_complete.

(* growing truncate fails exactly when too few clusters are free, and then with ENOSPC (all or nothing: the state is returned unchanged) *)
Theorem C10_truncate_enospc :
  forall bits cs limit : N, 0 < cs -> limit <= max_valid (PB bits) + 1 -> forall (newsize : N) (st : FatAlloc.Model.fstate) (e : exn), truncate (PB bits) cs limit newsize st = Err e <-> e = OSError_ENOSPC /\ newsize <> size st /\ len (map st) < trunc_clusters cs newsize /\ (Datatypes.length (free_scan (PB bits) (tbl st) limit (hint_of (sfat st))) < N.to_nat (trunc_clusters cs newsize - len (map st)))%nat.
Proof. exact FatAlloc.Proofs.FA_truncate_enospc. Qed.
Print Assumptions C10_truncate_enospc.

Theorem C10_truncate_enospc_genuine :
  forall bits cs limit : N, 0 < cs -> limit <= max_valid (PB bits) + 1 -> forall (newsize : N) (st : FatAlloc.Model.fstate) (e : exn) (l : list N), truncate (PB bits) cs limit newsize st = Err e -> NoDup l -> (forall c : N, In c l -> is_free (PB bits) limit (tbl st) c /\ c <= max_valid (PB bits)) -> (Datatypes.length l < N.to_nat (trunc_clusters cs newsize - len (map st)))%nat.
Proof. exact FatAlloc.Proofs.FA_truncate_enospc_genuine. Qed.
Print Assumptions C10_truncate_enospc_genuine.

Theorem C10_alloc_one_enospc :
  forall (bits limit : N) (st : FatAlloc.Model.fstate) (e : exn), alloc_one (PB bits) limit st = Err e <-> e = OSError_ENOSPC /\ free_scan (PB bits) (tbl st) limit (hint_of (sfat st)) = [].
Proof. exact FatAlloc.Proofs.FA_alloc_one_enospc. Qed.
Print Assumptions C10_alloc_one_enospc.

(* a write that runs out of space leaves the file well-formed, holding a prefix, size and chain in agreement *)
Theorem C10_write_enospc_wf :
  forall bits cs limit : N, 0 < cs -> limit <= max_valid (PB bits) + 1 -> forall (nbytes : N) (st : FatAlloc.Model.fstate), st_wf (PB bits) cs limit st -> let r := write_clusters (PB bits) cs limit nbytes st in st_wf (PB bits) cs limit (fst r) /\ extends (PB bits) limit (tbl st) (map st) (tbl (fst r)) (map (fst r)) /\ (snd r = true -> pos (fst r) = pos st + nbytes /\ size (fst r) = N.max (size st) (pos st + nbytes) /\ (0 < nbytes -> cdiv (pos st + nbytes) cs <= len (map (fst r)))) /\ (snd r = false -> fst r = st \/ free_scan (PB bits) (tbl (fst r)) limit (hint_of (sfat (fst r))) = [] /\ pos (fst r) = len (map (fst r)) * cs /\ size (fst r) = N.max (size st) (pos (fst r))).
Proof. exact FatAlloc.Proofs.FA_write_wf. Qed.
Print Assumptions C10_write_enospc_wf.

Theorem C10_truncate_wf :
  forall bits cs limit : N, 0 < cs -> limit <= max_valid (PB bits) + 1 -> forall (newsize : N) (st st' : FatAlloc.Model.fstate), st_wf (PB bits) cs limit st -> truncate (PB bits) cs limit newsize st = Ok st' -> st_wf (PB bits) cs limit st' /\ size st' = newsize /\ pos st' = pos st /\ Datatypes.length (tbl st') = Datatypes.length (tbl st) /\ ((exists new : list N, new <> [] /\ map st' = map st ++ new /\ new = firstn (Datatypes.length new) (free_scan (PB bits) (tbl st) limit (hint_of (sfat st))) /\ extends (PB bits) limit (tbl st) (map st) (tbl st') (map st')) \/ (exists removed : list N, removed <> [] /\ map st = map st' ++ removed /\ map st' <> [] /\ (forall c : N, In c removed -> get (tbl st') c = 0) /\ (forall c : N, ~ In c (map st) -> get (tbl st') c = get (tbl st) c)) \/ map st' = map st /\ sfat st' = sfat st).
Proof. exact FatAlloc.Proofs.FA_truncate_wf. Qed.
Print Assumptions C10_truncate_wf.

(* at byte level: a step that fails does so with ENOSPC, keeps the invariant; a failed truncate changes nothing, a failed write keeps a strict prefix of the buffer *)
Theorem C10_data_step_enospc :
  forall bits cs : N, 0 < cs -> forall (s : dstate) (o : op) (s' : dstate) (e : exn), ProofsTrunc.Inv (PB bits) cs s -> step (PB bits) cs true s o = (s', Err e) -> ProofsTrunc.Inv (PB bits) cs s' /\ match o with | OSeek _ _ => spec_step cs (ProofsTrunc.abs s) o = (ProofsTrunc.abs s', Err e) /\ ProofsTrunc.abs s' = ProofsTrunc.abs s | OWrite b => e = OSError_ENOSPC /\ (ProofsTrunc.abs s' = ProofsTrunc.abs s /\ alen (ProofsTrunc.abs s) < apos (ProofsTrunc.abs s) \/ (exists k : nat, (k < Datatypes.length b)%nat /\ ProofsTrunc.abs s' = a_write (ProofsTrunc.abs s) (firstn k b))) | OTruncate _ => e = OSError_ENOSPC /\ ProofsTrunc.abs s' = ProofsTrunc.abs s /\ fs s' = fs s | _ => False end.
Proof. exact FatData.Proofs.FD_step_enospc. Qed.
Print Assumptions C10_data_step_enospc.

(* compaction of a directory (run when a fixed root is full) keeps the listing and every look-up, leaves no deleted record before the new end, zero-fills the tail *)
Theorem C10_clean_preserves_listing :
  forall (upper : list N -> list N) (d : Model.dir), ProofsClean.wf_recs (Model.d_recs d) -> ProofsClean.tidy (Model.d_recs d) = true -> let d' := fst (Model.clean d) in let eof := snd (Model.clean d) in ProofsView.view (Model.d_recs d') = ProofsView.view (Model.d_recs d) /\ (forall name : list N, Model.getitem upper d' name = Model.getitem upper d name) /\ (forall name : list N, Model.contains upper d' name = Model.contains upper d name) /\ Model.listing d' = Model.listing d /\ Model.items d' = Model.items d /\ Model.d_cap d' = Model.d_cap d /\ Datatypes.length (Model.d_recs d') = Datatypes.length (Model.d_recs d) /\ (exists (kept : list Model.rec) (m : nat) (pre rem : list Model.rec), Model.d_recs d' = kept ++ repeat Model.zero_rec m ++ rem /\ Model.d_recs d = pre ++ rem /\ Datatypes.length pre = (Datatypes.length kept + m)%nat /\ eof = Model.rlen kept /\ ProofsClean.ends_here rem /\ Forall (fun r : Model.rec => Model.b0 r <> 229 /\ ProofsBase.kind_of r <> ProofsBase.KEnd /\ Datatypes.length r = 32%nat) kept /\ kept = fst (Model.clean_go (Model.d_recs d) false)).
Proof. exact FatDir.ProofsClean.clean_preserves_listing. Qed.
Print Assumptions C10_clean_preserves_listing.

(* a fixed root: ENOSPC exactly when, even after compaction, the new records plus the end-of-directory record do not fit; the directory then lists and resolves exactly as before *)
Theorem C10_root_full_enospc :
  forall (upper : list N -> list N) (spc : N) (d : Model.dir) (name : list N) (entry : Model.rec) (recs_new : list Model.rec), ProofsClean.wf_recs (Model.d_recs d) -> ProofsView.cap_ok d -> 0 < spc -> ProofsOps.entry_ok entry -> name <> [] -> ProofsLfn.name_ok name = true -> (Datatypes.length (Model.utf16 name) <= 255)%nat -> ProofsNames.ends_ffff name = false -> ~ In 229 (upper (FatDir.Model.lstrip_dots name)) -> (forall a : N, Model.case_attr name (fst (Model.short_parts name (upper (FatDir.Model.lstrip_dots name)))) (snd (Model.short_parts name (upper (FatDir.Model.lstrip_dots name)))) = Some a -> fst (Model.short_parts name (upper (FatDir.Model.lstrip_dots name))) <> []) -> Model.find upper (upper name) (upper name) (Model.groups (Model.d_recs d)) = Ok None -> (do xs <- Model.split_all (Model.groups (Model.d_recs d)); Model.prefix_entries name (upper (FatDir.Model.lstrip_dots name)) (FatDir.Model.existing_of upper xs) entry) = Ok recs_new -> forall n : N, Model.d_cap d = Some n -> ProofsClean.tidy (Model.d_recs d) = true -> let e1 := snd (Model.clean d) in (snd (FatDir.Model.setitem upper spc d name entry) = Some OSError_ENOSPC <-> n <= Model.last_end (Model.groups (Model.d_recs d)) + N.of_nat (Datatypes.length recs_new) /\ n <= e1 + N.of_nat (Datatypes.length recs_new)) /\ (snd (FatDir.Model.setitem upper spc d name entry) = Some OSError_ENOSPC -> fst (FatDir.Model.setitem upper spc d name entry) = fst (Model.clean d) /\ ProofsView.view (Model.d_recs (fst (Model.clean d))) = ProofsView.view (Model.d_recs d) /\ Model.listing (fst (Model.clean d)) = Model.listing d /\ (forall key : list N, Model.getitem upper (fst (Model.clean d)) key = Model.getitem upper d key) /\ (forall key : list N, Model.contains upper (fst (Model.clean d)) key = Model.contains upper d key)) /\ (snd (FatDir.Model.setitem upper spc d name entry) <> Some OSError_ENOSPC -> snd (FatDir.Model.setitem upper spc d name entry) = None).
Proof. exact FatDir.ProofsMain.root_full_enospc. Qed.
Print Assumptions C10_root_full_enospc.

(* whole-volume invariant (no lost / shared cluster, sizes match chains, tree-shaped) after ANY history of path operations, whatever fails with ENOSPC on the way (mkdir releases its cluster, a failed unlink / rmdir changes nothing) *)
Theorem C10_path_history_inv :
  forall (upper : Model.name -> Model.name) (V : Model.vparams), ProofsInv.params_wf V -> forall (ops : list Model.op) (s : Model.vol), ProofsInv.VolInv upper V s -> Proofs.run_guard upper V s ops -> ProofsInv.VolInv upper V (fst (Model.run upper V s ops)).
Proof. exact FatVol.Proofs.FV_history_inv. Qed.
Print Assumptions C10_path_history_inv.

Theorem C10_unlink_fail_unchanged :
  forall (upper : Model.name -> Model.name) (V : Model.vparams) (s : Model.vol) (p : list Model.name) (x : exn), snd (Model.unlink upper V s p) = Err x -> fst (Model.unlink upper V s p) = s.
Proof. exact FatVol.Proofs.FV_unlink_fail_unchanged. Qed.
Print Assumptions C10_unlink_fail_unchanged.

Theorem C10_rmdir_fail_unchanged :
  forall (upper : Model.name -> Model.name) (V : Model.vparams) (s : Model.vol) (p : list Model.name) (x : exn), snd (Model.rmdir upper V s p) = Err x -> fst (Model.rmdir upper V s p) = s.
Proof. exact FatVol.Proofs.FV_rmdir_fail_unchanged. Qed.
Print Assumptions C10_rmdir_fail_unchanged.

Theorem C10_history_wf :
  forall bits cs limit : N, 0 < cs -> limit <= max_valid (PB bits) + 1 -> forall (ops : list (nat * ProofsFrame.op)) (v : volume), vol_wf (PB bits) cs limit v -> vol_wf (PB bits) cs limit (fold_left (vstep (PB bits) cs limit) ops v) /\ (forall c : N, foreign v c -> foreign (fold_left (vstep (PB bits) cs limit) ops v) c /\ get (ftbl (vfat (fold_left (vstep (PB bits) cs limit) ops v))) c = get (ftbl (vfat v)) c).
Proof. exact FatAlloc.Proofs.FA_history. Qed.
Print Assumptions C10_history_wf.


Theorem C10_source_facts :
  (fat12_min_valid, fat12_max_valid) = (2, 4079) /\ (fat16_min_valid, fat16_max_valid) = (2, 65519) /\
  (fat32_min_valid, fat32_max_valid) = (2, 268435439).
Proof. repeat split; reflexivity. Qed.
Print Assumptions C10_source_facts.
