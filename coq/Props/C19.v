(* C19 -- the shell tool moves exactly the named bytes and trees, and terminates.
   Byte-copy half (nobodd/transfer.py); proofs live in Copy/Proofs.v.  The tree half
   (nobodd/sh.py commands over host and image trees) is checked by the end-to-end
   oracle in harness/props/c19.py only. *)
From Coq Require Import List NArith Bool.
From NV Require Import Lib.Res Gen.Copy Copy.Model Copy.Proofs.
Import ListNotations.
Open Scope N_scope.

(* For every content, every position, every reader (short reads allowed in the
   loops; full reads where the single-read fast path is taken), with or without
   readinto, with a range or none: the copy returns within |content| + 2 loop
   iterations having written exactly content[start : min stop |content|]
   (the whole rest of the source when there is no range). *)
Theorem C19_copy_exact_terminates : forall fuel s has_readinto r,
  step_ok r ->
  (takes_fast_path r = true -> caps s = []) ->
  (length (content s) + 2 <= fuel)%nat ->
  copy_bytes fuel s has_readinto r = Ok (expected (content s) (pos s) r).
Proof. exact copy_exact_terminates. Qed.
Print Assumptions C19_copy_exact_terminates.

(* the fast path (range shorter than COPY_BUFSIZE) issues a single read: on a
   short-reading raw source it terminates with a non-empty prefix of the range *)
Theorem C19_fast_path_partial : forall fuel s has_readinto r,
  r_step r = 1 -> fast_path (range_len r) = true ->
  exists k, k <= range_len r /\
    copy_bytes fuel s has_readinto (Some r) = Ok (slice (content s) (r_start r) (r_start r + k)) /\
    (0 < range_len r -> r_start r < len (content s) -> 0 < k).
Proof. exact fast_path_partial. Qed.
Print Assumptions C19_fast_path_partial.

Theorem C19_bad_step_rejected : forall fuel s has_readinto r,
  r_step r <> 1 -> copy_bytes fuel s has_readinto (Some r) = Err ValueError.
Proof. exact bad_step_rejected. Qed.
Print Assumptions C19_bad_step_rejected.

(* non-vacuity: a range reaching far past a 3-byte source, through both loops,
   with short reads; a range inside; no range from a position *)
Example C19_nonvacuous :
  let s := {| content := [1; 2; 3]; pos := 0; caps := [0; 0] |} in
  copy_bytes 5 s true  (Some {| r_start := 1; r_stop := 200000; r_step := 1 |}) = Ok [2; 3] /\
  copy_bytes 5 s false (Some {| r_start := 1; r_stop := 200000; r_step := 1 |}) = Ok [2; 3] /\
  copy_bytes 5 {| content := [1; 2; 3]; pos := 0; caps := [] |} true
             (Some {| r_start := 1; r_stop := 2; r_step := 1 |}) = Ok [2] /\
  copy_bytes 5 {| content := [1; 2; 3]; pos := 2; caps := [] |} false None = Ok [3] /\
  takes_fast_path (Some {| r_start := 1; r_stop := 200000; r_step := 1 |}) = false.
Proof. repeat split; vm_compute; reflexivity. Qed.
