(* C19 -- the shell tool moves exactly the named bytes and trees, and terminates.
   Byte-copy half (nobodd/transfer.py); proofs live in Copy/Proofs.v.  The tree half
   (nobodd/sh.py commands over host and image trees) is proved over Shell/Model.v, which is tied to
   the real tool by harness/shell_corr.py, and checked end to end by the oracle in props/c19.py. *)
From Coq Require Import List NArith Bool.
From NV Require Import Lib.Res Gen.Copy Copy.Model Copy.Proofs.
From NV Require Gen.Fat FatVol.Model FatVol.ProofsInv FatVol.Proofs Shell.Paths Shell.PathAlg.
Import ListNotations.
Open Scope N_scope.

(* For every content, every position, every reader (short reads allowed in the
   loops; full reads where the single-read fast path is taken), with or without
   readinto, with a range or none: the copy returns within |content| + 2 loop
   iterations having written exactly content[start : min stop |content|]
   (the whole rest of the source when there is no range). *)
Theorem C19_copy_exact_terminates : forall fuel s has_readinto r,
  step_ok r ->
  (takes_fast_path r = true -> caps s = []) ->
  (length (content s) + 2 <= fuel)%nat ->
  copy_bytes fuel s has_readinto r = Ok (expected (content s) (pos s) r).
Proof. exact copy_exact_terminates. Qed.
Print Assumptions C19_copy_exact_terminates.

(* the fast path (range shorter than COPY_BUFSIZE) issues a single read: on a
   short-reading raw source it terminates with a non-empty prefix of the range *)
Theorem C19_fast_path_partial : forall fuel s has_readinto r,
  r_step r = 1 -> fast_path (range_len r) = true ->
  exists k, k <= range_len r /\
    copy_bytes fuel s has_readinto (Some r) = Ok (slice (content s) (r_start r) (r_start r + k)) /\
    (0 < range_len r -> r_start r < len (content s) -> 0 < k).
Proof. exact fast_path_partial. Qed.
Print Assumptions C19_fast_path_partial.

Theorem C19_bad_step_rejected : forall fuel s has_readinto r,
  r_step r <> 1 -> copy_bytes fuel s has_readinto (Some r) = Err ValueError.
Proof. exact bad_step_rejected. Qed.
Print Assumptions C19_bad_step_rejected.

(* non-vacuity: a range reaching far past a 3-byte source, through both loops,
   with short reads; a range inside; no range from a position *)
Example C19_nonvacuous :
  let s := {| content := [1; 2; 3]; pos := 0; caps := [0; 0] |} in
  copy_bytes 5 s true  (Some {| r_start := 1; r_stop := 200000; r_step := 1 |}) = Ok [2; 3] /\
  copy_bytes 5 s false (Some {| r_start := 1; r_stop := 200000; r_step := 1 |}) = Ok [2; 3] /\
  copy_bytes 5 {| content := [1; 2; 3]; pos := 0; caps := [] |} true
             (Some {| r_start := 1; r_stop := 2; r_step := 1 |}) = Ok [2] /\
  copy_bytes 5 {| content := [1; 2; 3]; pos := 2; caps := [] |} false None = Ok [3] /\
  takes_fast_path (Some {| r_start := 1; r_stop := 200000; r_step := 1 |}) = false.
Proof. repeat split; vm_compute; reflexivity. Qed.

(* ---------------- tree half: nobodd/sh.py commands over abstract host / partition trees (Shell/Model.v) ---------------- *)
From NV Require Import Shell.Model Shell.ProofsTree Shell.ProofsFrame Shell.ProofsCmd.

(* shell half (nobodd/sh.py over host and partition trees, any name folding on partitions). cp of a file: the destination holds exactly the source bytes, the source is unchanged, every disjoint path resolves as before *)
Theorem C19_cp_file_exact :
  forall (fold : name -> name) (r : bool) (s d : path) (c : list N) (w w' : world) (x : unit), do_cp fold r [s] d w = (w', Ok x) -> wlookup fold w s = Some (File c) -> let t := dest_of fold w d s in w' = wput fold w t (File c) /\ wlookup fold w' t = Some (File c) /\ wlookup fold w' s = Some (File c) /\ (forall q : path, disjoint fold q t -> wlookup fold w' q = wlookup fold w q).
Proof. exact Shell.ProofsCmd.cp_file_exact. Qed.
Print Assumptions C19_cp_file_exact.

(* cp -r of a directory: the destination is the merge of the old destination with the source tree (structure and bytes); equal to the source tree when the destination was missing *)
Theorem C19_cp_r_tree_exact :
  forall (fold : name -> name) (s d : path) (ch : list (name * node)) (w w' : world) (x : unit), do_cp fold true [s] d w = (w', Ok x) -> wlookup fold w s = Some (Dir ch) -> let t := dest_of fold w d s in let m := merge (key fold (fst t)) (wlookup fold w t) (Dir ch) in w' = wput fold w t m /\ wlookup fold w' t = Some m /\ (patheq fold s t = false -> wlookup fold w' s = Some (Dir ch)) /\ (forall q : path, disjoint fold q t -> wlookup fold w' q = wlookup fold w q) /\ (wlookup fold w t = None -> wfb (key fold (fst t)) (Dir ch) = true -> m = Dir ch).
Proof. exact Shell.ProofsCmd.cp_r_tree_exact. Qed.
Print Assumptions C19_cp_r_tree_exact.

(* a copy into an image followed by a copy out returns the original tree (no two siblings equal up to the partition s name folding) *)
Theorem C19_roundtrip :
  forall (fold : name -> name) (w : world) (a b c : N * list name) (n : node), fst a = 0 -> fst b <> 0 -> fst c = 0 -> wlookup fold w a = Some n -> wfb fold n = true -> creatable fold w b -> creatable fold w c -> exists w1 w2 : world, do_cp fold true [a] b w = (w1, Ok tt) /\ do_cp fold true [b] c w1 = (w2, Ok tt) /\ wlookup fold w2 c = Some n /\ wlookup fold w2 b = Some n /\ (below fold a c = false -> wlookup fold w2 a = Some n).
Proof. exact Shell.ProofsCmd.roundtrip. Qed.
Print Assumptions C19_roundtrip.

(* mv within one file system: the source is gone, the destination holds the old node, everything else unchanged *)
Theorem C19_mv_moves :
  forall (fold : name -> name) (s d : path) (n : node) (w w' : world) (x : unit), do_mv fold [s] d w = (w', Ok x) -> wlookup fold w s = Some n -> let t := dest_of fold w d s in fst s = fst t -> patheq fold s t = true /\ w' = w \/ patheq fold s t = false /\ w' = wrem fold (wput fold w t n) s /\ wlookup fold w' s = None /\ wlookup fold w' t = Some n /\ (forall q : path, disjoint fold q s -> disjoint fold q t -> wlookup fold w' q = wlookup fold w q).
Proof. exact Shell.ProofsCmd.mv_moves. Qed.
Print Assumptions C19_mv_moves.

(* mv across file systems = copy and remove; identical to a rename when the target was missing *)
Theorem C19_mv_across :
  forall (fold : name -> name) (s d : path) (n : node) (w w' : world) (x : unit), do_mv fold [s] d w = (w', Ok x) -> wlookup fold w s = Some n -> is_root s = false -> let t := dest_of fold w d s in fst s <> fst t -> let m := merge (key fold (fst t)) (wlookup fold w t) n in w' = wrem fold (wput fold w t m) s /\ wlookup fold w' s = None /\ wlookup fold w' t = Some m /\ (forall q : path, disjoint fold q s -> disjoint fold q t -> wlookup fold w' q = wlookup fold w q) /\ (wlookup fold w t = None -> wfb (key fold (fst t)) n = true -> w' = wrem fold (wput fold w t n) s).
Proof. exact Shell.ProofsCmd.mv_across. Qed.
Print Assumptions C19_mv_across.

(* removal removes exactly what was named *)
Theorem C19_rm_removes_exactly :
  forall (fold : name -> name) (r f : bool) (p : path) (n : node) (w w' : world) (x : unit), do_rm fold r f [p] w = (w', Ok x) -> wlookup fold w p = Some n -> is_root p = false -> w' = wrem fold w p /\ wlookup fold w' p = None /\ (forall q : path, disjoint fold q p -> wlookup fold w' q = wlookup fold w q) /\ (r = false -> exists c : list N, n = File c).
Proof. exact Shell.ProofsCmd.rm_removes_exactly. Qed.
Print Assumptions C19_rm_removes_exactly.

Theorem C19_rm_dir_needs_r :
  forall (fold : name -> name) (f : bool) (p : path) (ch : list (name * node)) (w : world), wlookup fold w p = Some (Dir ch) -> do_rm fold false f [p] w = (w, Err IsADirectory).
Proof. exact Shell.ProofsCmd.rm_dir_needs_r. Qed.
Print Assumptions C19_rm_dir_needs_r.

Theorem C19_rmdir_removes_exactly :
  forall (fold : name -> name) (p : path) (w w' : world) (x : unit), do_rmdir fold [p] w = (w', Ok x) -> wlookup fold w p = Some (Dir []) /\ is_root p = false /\ w' = wrem fold w p /\ wlookup fold w' p = None /\ (forall q : path, disjoint fold q p -> wlookup fold w' q = wlookup fold w q).
Proof. exact Shell.ProofsCmd.rmdir_removes_exactly. Qed.
Print Assumptions C19_rmdir_removes_exactly.

Theorem C19_rmdir_nonempty_fails :
  forall (fold : name -> name) (p : path) (e : name * node) (ch : list (name * node)) (w : world), wlookup fold w p = Some (Dir (e :: ch)) -> is_root p = false -> do_rmdir fold [p] w = (w, Err NotEmpty).
Proof. exact Shell.ProofsCmd.rmdir_nonempty_fails. Qed.
Print Assumptions C19_rmdir_nonempty_fails.

(* EVERY command, whatever its outcome, changes only paths at or below the ones it names as written *)
Theorem C19_command_frame :
  forall (fold : name -> name) (c : cmd) (w w' : world) (r : res (list N)), exec fold c w = (w', r) -> frame fold (written c) w w'.
Proof. exact Shell.ProofsFrame.command_frame. Qed.
Print Assumptions C19_command_frame.

(* in particular a failing command *)
Theorem C19_failing_command_frame :
  forall (fold : name -> name) (c : cmd) (w w' : world) (e : exn) (q : path), exec fold c w = (w', Err e) -> (forall p : path, In p (written c) -> disjoint fold q p) -> wlookup fold w' q = wlookup fold w q.
Proof. exact Shell.ProofsFrame.failing_command_frame. Qed.
Print Assumptions C19_failing_command_frame.

(* cat = concatenation *)
Theorem C19_cat_concat :
  forall (fold : name -> name) (w : world) (srcs : list path) (cs : list (list N)), Forall2 (fun (s : path) (c : list N) => wlookup fold w s = Some (File c)) srcs cs -> do_cat fold srcs None w = (w, Ok (concat cs)).
Proof. exact Shell.ProofsCmd.cat_concat. Qed.
Print Assumptions C19_cat_concat.

Theorem C19_cat_concat_o :
  forall (fold : name -> name) (w : world) (srcs : list path) (cs : list (list N)) (o : path), Forall2 (fun (s : path) (c : list N) => wlookup fold w s = Some (File c)) srcs cs -> creatable fold w o \/ (exists c0 : list N, wwalk fold w o = LNode (File c0)) -> Forall (fun s : path => disjoint fold s o) srcs -> let w' := wput fold w o (File (concat cs)) in do_cat fold srcs (Some o) w = (w', Ok []) /\ wlookup fold w' o = Some (File (concat cs)) /\ (forall q : path, disjoint fold q o -> wlookup fold w' q = wlookup fold w q).
Proof. exact Shell.ProofsCmd.cat_concat_o. Qed.
Print Assumptions C19_cat_concat_o.

(* "a failing command leaves every image structurally consistent": sh.py reaches the partitions through the public
   path API only (fact regenerated from sh.py: no private attribute of a path / file-system object, no table or cluster
   access), so what a command does to a partition -- whether it then succeeds or fails, wherever it stops -- is a history of
   path operations; and ANY history of path operations, whatever each one's outcome, keeps the volume invariant (all chains
   well-formed and disjoint, no lost cluster, sizes match chains, dot entries right, names unique, directory graph a tree) *)
Theorem C19_any_command_keeps_the_volume_consistent :
  Gen.Fat.sh_uses_public_path_api_only = true /\
  forall upper V, FatVol.ProofsInv.params_wf V -> forall ops s,
    FatVol.ProofsInv.VolInv upper V s -> FatVol.Proofs.run_guard upper V s ops ->
    FatVol.ProofsInv.VolInv upper V (fst (FatVol.Model.run upper V s ops)).
Proof. split; [reflexivity|exact FatVol.Proofs.FV_history_inv]. Qed.
Print Assumptions C19_any_command_keeps_the_volume_consistent.

(* which command-line words name something inside an image (sh.get_paths, through _image_re; the pattern text and its
   use are facts regenerated from sh.py).  A recognised word IS image ":" [partition] path -- partition 1..999 without
   a leading zero, path starting with "/", no newline in either part (one trailing newline apart) ... *)
Theorem C19_image_word_facts : sh_image_re_standard = true /\ sh_get_paths_uses_image_re = true.
Proof. split; reflexivity. Qed.
Print Assumptions C19_image_word_facts.

Theorem C19_image_word_sound : forall s img pt p,
  Shell.Paths.parse_image_word s = Some (img, pt, p) ->
  (s = Shell.Paths.render img pt p \/ s = Shell.Paths.render img pt p ++ [10]) /\
  Shell.Paths.no_nl img = true /\ Shell.Paths.no_nl p = true /\ (exists q, p = 47 :: q) /\
  match pt with None => True | Some n => 1 <= n /\ n <= 999 end.
Proof. exact Shell.Paths.parse_sound. Qed.
Print Assumptions C19_image_word_sound.

(* ... every image word whose image name holds no colon is read back as written ... *)
Theorem C19_image_word_complete : forall img pt p q,
  ~ In 58 img -> Shell.Paths.no_nl img = true -> p = 47 :: q -> Shell.Paths.no_nl p = true ->
  match pt with None => True | Some n => 1 <= n /\ n <= 999 end ->
  Shell.Paths.parse_image_word (Shell.Paths.render img pt p) = Some (img, pt, p).
Proof. exact Shell.Paths.parse_render. Qed.
Print Assumptions C19_image_word_complete.

(* ... and a word without a colon is a host path *)
Theorem C19_host_word : forall s, ~ In 58 s -> Shell.Paths.parse_image_word s = None.
Proof. exact Shell.Paths.host_words. Qed.
Print Assumptions C19_host_word.

(* the path algebra with which cp / mv / prep build destination paths (`dest / item.name`, `path.relative_to(source)`,
   `parent`): parsing yields canonical tuples and is idempotent, a path survives being written out and parsed again, the name
   of `p / n` is n and its parent is p, and relative_to gives back exactly what was appended *)
Theorem C19_parts_canonical : forall segs, Shell.PathAlg.canonical (Shell.PathAlg.get_parts segs) = true.
Proof. exact Shell.PathAlg.get_parts_canonical. Qed.
Print Assumptions C19_parts_canonical.

Theorem C19_parts_stable : forall parts, Shell.PathAlg.canonical parts = true -> Shell.PathAlg.get_parts parts = parts.
Proof. exact Shell.PathAlg.get_parts_stable. Qed.
Print Assumptions C19_parts_stable.

Theorem C19_path_survives_printing : forall parts, Shell.PathAlg.canonical parts = true -> parts <> [] ->
  Shell.PathAlg.get_parts [Shell.PathAlg.path_str parts] = parts.
Proof. exact Shell.PathAlg.parse_str. Qed.
Print Assumptions C19_path_survives_printing.

Theorem C19_child_path : forall parts n, Shell.PathAlg.canonical parts = true -> parts <> [] ->
  Shell.PathAlg.slash_free n = true -> n <> [] ->
  Shell.PathAlg.joinpath parts [n] = parts ++ [n] /\ Shell.PathAlg.name (Shell.PathAlg.joinpath parts [n]) = n /\
  (parts <> [[46]] -> List.length parts = 1%nat -> Shell.PathAlg.parent (Shell.PathAlg.joinpath parts [n]) = parts) /\
  (2 <= List.length parts -> Shell.PathAlg.parent (Shell.PathAlg.joinpath parts [n]) = parts)%nat.
Proof. exact Shell.PathAlg.joinpath_child. Qed.
Print Assumptions C19_child_path.

Theorem C19_relative_to_gives_back_what_was_appended : forall a b,
  Shell.PathAlg.canonical a = true -> Shell.PathAlg.canonical b = true -> Shell.PathAlg.is_absolute b = false ->
  Shell.PathAlg.canon_tail b = true -> Shell.PathAlg.relative_to (a ++ b) a = Some b.
Proof. exact Shell.PathAlg.relative_to_joined. Qed.
Print Assumptions C19_relative_to_gives_back_what_was_appended.

(* FatPath.resolve(), with which rmdir and rename find the directory that HOLDS an entry and rename tests for a move
   into the directory itself: no "." or ".." is left, a path without them is unchanged, the function is idempotent
   (the code's leftmost-first elimination is the stack machine of Shell/PathAlg.v: compared with the real method) *)
Theorem C19_resolve_dot_free : forall parts r, Shell.PathAlg.resolve_parts parts = Some r ->
  exists rest, r = [] :: rest /\ Shell.PathAlg.dot_free rest = true.
Proof. exact Shell.PathAlg.resolve_dot_free. Qed.
Print Assumptions C19_resolve_dot_free.

Theorem C19_resolve_identity_without_dots : forall rest, Shell.PathAlg.dot_free rest = true ->
  Shell.PathAlg.resolve_parts ([] :: rest) = Some ([] :: rest).
Proof. exact Shell.PathAlg.resolve_id. Qed.
Print Assumptions C19_resolve_identity_without_dots.

Theorem C19_resolve_idempotent : forall parts r, Shell.PathAlg.resolve_parts parts = Some r -> Shell.PathAlg.resolve_parts r = Some r.
Proof. exact Shell.PathAlg.resolve_idempotent. Qed.
Print Assumptions C19_resolve_idempotent.

Example C19_resolve_examples :
  Shell.PathAlg.resolve_parts [[]; [97]; [98]; [46; 46]; [99]] = Some [[]; [97]; [99]] /\
  Shell.PathAlg.resolve_parts [[]; [97]; [98]; [99]; [100]; [46; 46]; [101]] = Some [[]; [97]; [98]; [99]; [101]].
Proof. split; reflexivity. Qed.

Theorem C19_stem_suffix_split_the_name : forall parts,
  Shell.PathAlg.stem parts ++ Shell.PathAlg.suffix parts = Shell.PathAlg.name parts.
Proof. exact Shell.PathAlg.stem_suffix. Qed.
Print Assumptions C19_stem_suffix_split_the_name.

Theorem C19_with_name_replaces_the_last_component : forall a b r nm,
  Shell.PathAlg.canonical (a :: b :: r) = true -> Shell.PathAlg.slash_free nm = true -> nm <> [] ->
  Shell.PathAlg.with_name (a :: b :: r) nm = Some (removelast (a :: b :: r) ++ [nm]) /\
  Shell.PathAlg.name (removelast (a :: b :: r) ++ [nm]) = nm.
Proof. exact Shell.PathAlg.with_name_last. Qed.
Print Assumptions C19_with_name_replaces_the_last_component.
