(* C20 -- TFTP packets survive a serialise/parse round trip and obey the format.
   Only statements here; proofs in Tftp/PacketProofs.v. *)
From Coq Require Import List NArith ZArith Bool.
From NV Require Import Lib.Res Lib.PyInt Gen.Tftp Tftp.Packet Tftp.PacketProofs Tftp.PacketProofs2.
Import ListNotations.
Open Scope N_scope.

(* facts regenerated from tftp.py on every run *)
Theorem C20_source_facts :
  dispatch_table_standard = true /\ regexes_standard = true /\ oack_uses_rrq_options_re = true /\
  [op_RRQ; op_WRQ; op_DATA; op_ACK; op_ERROR; op_OACK] = [1; 2; 3; 4; 5; 6] /\
  error_codes = [0; 1; 2; 3; 4; 5; 6; 7; 8] /\
  (data_block_min, data_block_max, ack_block_min, ack_block_max) = (1, 65535, 0, 65535).
Proof. repeat split; reflexivity. Qed.
Print Assumptions C20_source_facts.

(* every packet value in normal form (non-empty filename of bytes 0x20..0x7F, a
   supported mode, option names non-empty 0x20..0x7F, values 0x01..0x7F, both
   lower-case, unique names; block in range; known error code, ASCII message
   without trailing NUL) serialises, and parses back to itself (integer option
   values come back as their decimal strings) *)
Theorem C20_parse_serialize : forall p,
  nf p = true -> exists b, serialize p = Ok b /\ parse b = Ok (strs_packet p).
Proof. exact parse_serialize. Qed.
Print Assumptions C20_parse_serialize.

(* second direction, for EVERY datagram: if it parses and the packet can be serialised, the
   re-serialised datagram parses to the same packet (block numbers, error codes, payload kept) *)
Theorem C20_serialize_parse : forall d p b,
  parse d = Ok p -> serialize p = Ok b -> parse b = Ok p.
Proof. exact serialize_parse. Qed.
Print Assumptions C20_serialize_parse.

(* whatever parses to a serialisable packet is in normal form *)
Theorem C20_parse_image_nf : forall d p b,
  parse d = Ok p -> serialize p = Ok b -> nf p = true /\ strs_packet p = p.
Proof. exact parse_image_nf. Qed.
Print Assumptions C20_parse_image_nf.

(* a request in any letter case: the mode, option names and option values are
   lower-cased (duplicates collapse in dict order) and nothing else changes *)
Theorem C20_case_folding_rrq : forall f m ps,
  fname_ok f = true -> mode_ok (lower m) = true -> forallb is_alpha m = true -> m <> [] ->
  forallb pair_ok ps = true ->
  parse (be16 op_RRQ ++ f ++ [0] ++ m ++ [0] ++ wire_pairs ps) = Ok (RRQ f (lower m) (fold_pairs ps [])).
Proof. exact case_folding_rrq. Qed.
Print Assumptions C20_case_folding_rrq.

Theorem C20_case_folding_oack : forall ps,
  forallb pair_ok ps = true -> parse (be16 op_OACK ++ wire_pairs ps) = Ok (OACK (fold_pairs ps [])).
Proof. exact case_folding_oack. Qed.
Print Assumptions C20_case_folding_oack.

Theorem C20_folded_options_lower : forall ps,
  forallb (fun kv => no_upper (fst kv) && match snd kv with OStr s => no_upper s | OInt _ => true end)
          (fold_pairs ps []) = true.
Proof. intros ps. apply fold_pairs_lower. reflexivity. Qed.
Print Assumptions C20_folded_options_lower.

(* two-byte big-endian opcode, fields in order, NUL-terminated strings, payload verbatim *)
Theorem C20_wire_format :
  (forall b d, serialize (DATA b d) = Ok ([op_DATA / 256; op_DATA mod 256; b / 256; b mod 256] ++ d)) /\
  (forall b, serialize (ACK b) = Ok [op_ACK / 256; op_ACK mod 256; b / 256; b mod 256]) /\
  (forall c m, all_lt 128 m = true ->
     serialize (ERROR c m) = Ok ([op_ERROR / 256; op_ERROR mod 256; c / 256; c mod 256] ++ m ++ [0])) /\
  (forall f m o, fname_ok f = true -> mode_ok m = true -> forallb opt_ok o = true ->
     serialize (RRQ f m o) = Ok ([op_RRQ / 256; op_RRQ mod 256] ++ f ++ [0] ++ m ++ [0] ++ wire_pairs (as_pairs o))) /\
  (forall o, forallb opt_ok o = true ->
     serialize (OACK o) = Ok ([op_OACK / 256; op_OACK mod 256] ++ wire_pairs (as_pairs o))) /\
  (forall b d, exists w, serialize (DATA b d) = Ok w /\ length w = (4 + length d)%nat).
Proof. exact wire_format. Qed.
Print Assumptions C20_wire_format.

Example C20_nonvacuous :
  nf (RRQ [99;102;103] tftp_binary_name [(tftp_blksize_name, OInt 1468); (tftp_tsize_name, OStr [48])]) = true /\
  nf (DATA 65535 [1;2;3]) = true /\ nf (ERROR 8 [98;97;100]) = true /\
  parse [0;1; 70; 0; 79;67;84;69;84; 0; 66;76;75; 0; 65; 0] = Ok (RRQ [70] tftp_binary_name [([98;108;107], OStr [97])]).
Proof. repeat split; reflexivity. Qed.
