(* C08 -- Option negotiation acknowledges only what was asked, with values it uses. *)
From Coq Require Import List NArith ZArith Bool String.
From NV Require Import Lib.Res Lib.PyInt Gen.Tftp Tftp.Packet Tftp.Transfer Tftp.TransferProofs Tftp.NegotiateProofs.
Import ListNotations.
Open Scope N_scope.

Theorem C08_source_facts :
  (tftp_min_blksize, tftp_def_blksize, tftp_max_blksize) = (8, 512, 65464) /\
  (tftp_min_timeout_ns, tftp_max_timeout_ns, tftp_def_timeout_ns) = (10000000, 255000000000, 1000000000) /\
  canon_TFTPClientState_negotiate = "948a6a154477490b"%string /\
  canon_TFTPBaseHandler_do_RRQ = "becd4f49731b7d53"%string /\
  (forall now ls tmo, gen_tick_resend_cmp now ls tmo = (tmo <? now - ls)%Z).
Proof. repeat split; reflexivity. Qed.
Print Assumptions C08_source_facts.

(* acknowledged names = a selection, in the client's order, of the supported names sent *)
Theorem C08_oack_names : forall o fl st o' st',
  negotiate o fl st = Ok (o', st') ->
  sublist (keys o') (filter (fun k => in_strs k tftp_options) (keys o)).
Proof. exact negotiate_names. Qed.
Print Assumptions C08_oack_names.

(* the state changes only in block size and timeout; the timeout is in range; blksize is
   the requested value capped at the maximum, at least the minimum, acknowledged as used *)
Theorem C08_values_used : forall o fl st o' st',
  negotiate o fl st = Ok (o', st') ->
  exists bs t, st' = set_neg st bs t /\ in_range_timeout t = true /\
    match opt_get tftp_blksize_name (o0_of o) with
    | None => bs = ts_block_size st
    | Some v => exists z, int_of_oval v = Ok z /\
                  bs = Z.to_N (Z.min (Z.of_N tftp_max_blksize) z) /\
                  tftp_min_blksize <= bs <= tftp_max_blksize /\
                  opt_get tftp_blksize_name o' = Some (OInt (Z.of_N bs))
    end.
Proof. exact negotiate_state. Qed.
Print Assumptions C08_values_used.

Theorem C08_timeout_range : forall o fl st o' st',
  negotiate o fl st = Ok (o', st') ->
  (Z.of_N tftp_min_timeout_ns <= ts_timeout st' <= Z.of_N tftp_max_timeout_ns)%Z.
Proof. exact negotiate_timeout_range. Qed.
Print Assumptions C08_timeout_range.

Theorem C08_tsize_exact : forall o fl st o' st' v sz,
  negotiate o fl st = Ok (o', st') -> ts_size st = Some sz ->
  opt_get tftp_tsize_name o' = Some v -> v = OInt (Z.of_N sz).
Proof. exact negotiate_tsize_exact. Qed.
Print Assumptions C08_tsize_exact.

(* every DATA payload of the transfer then has exactly the acknowledged size unless last
   (C01_data_sound + C01_short_only_last on the state produced here) *)
Theorem C08_accepted_uses_blksize : forall resolve addr f m o fl now content st p,
  resolve f = RFile content -> list_eqb_N m tftp_netascii_name = false ->
  do_RRQ resolve addr f m o fl now = Started st p ->
  1 <= ts_block_size st /\ Inv content (ts_block_size st) st /\ sound content (ts_block_size st) p.
Proof. exact accepted_request_inv. Qed.
Print Assumptions C08_accepted_uses_blksize.

Theorem C08_no_option_data1 : forall resolve addr f m fl now content,
  resolve f = RFile content -> list_eqb_N m tftp_netascii_name = false ->
  exists st, do_RRQ resolve addr f m [] fl now = Started st (DATA 1 (firstn (N.to_nat tftp_def_blksize) content)).
Proof. intros. eexists. apply no_option_data1; assumption. Qed.
Print Assumptions C08_no_option_data1.

Theorem C08_bad_options_refused : forall resolve addr f m o fl now content e,
  resolve f = RFile content -> negotiate o fl (new_state addr content m now) = Err e ->
  exists p, do_RRQ resolve addr f m o fl now = Refused p.
Proof. exact bad_options_refused. Qed.
Print Assumptions C08_bad_options_refused.

Example C08_nonvacuous :
  let st := new_state 1 [1;2;3] tftp_binary_name 0%Z in
  (exists st', negotiate [(tftp_utimeout_name, OStr [50;48;48;48;48]); ([120], OStr [49]); (tftp_timeout_name, OStr [51]);
              (tftp_blksize_name, OStr [57;57;57;57;57;57])] (Err ValueError) st
   = Ok ([(tftp_utimeout_name, OStr [50;48;48;48;48]); (tftp_blksize_name, OInt 65464)], st') /\ ts_timeout st' = 20000000%Z) /\
  negotiate [(tftp_blksize_name, OStr [55])] (Err ValueError) st = Err BadOptions.
Proof. cbn zeta. split; [eexists; split; reflexivity|reflexivity]. Qed.
