(* C06 -- Serving is read-only: images are never modified and writes are refused. *)
From Coq Require Import List Arith NArith Bool String.
From NV Require Import Lib.Res Fat.SkelDefs Fat.SkelProofs Gen.FatSkel Fat.SkelTheorems Gen.Boot Gen.Fat Gen.Tftp
     Tftp.Packet Tftp.Transfer Tftp.ServerProofs.
Import ListNotations.

(* the three independent defaults that make serving read-only, as the source has them now *)
Theorem C06_ro_defaults :
  diskimage_default_access_read = true /\ diskimage_opens_rb_unless_write = true /\
  diskimage_maps_with_access = true /\ boot_maps_image_with_defaults = true /\
  fs_default_atime = false /\ client_open_mode_rb = true.
Proof. repeat split; reflexivity. Qed.
Print Assumptions C06_ro_defaults.

Theorem C06_skeleton_check : check06 = true.
Proof. exact check06_holds. Qed.
Print Assumptions C06_skeleton_check.

(* With that configuration (file opened 'rb', access times off) NO execution of the entry points
   used while serving -- open, readinto / readall, seek, close, path resolution, listing --
   stores into the image: any volume, including dirty-flagged ones and ones with zero-length
   files that own a cluster. *)
Theorem C06_serving_never_stores : forall f body t,
  In f entries_serve -> nth_error skeleton f = Some body -> exec skeleton serve_env f body t ->
  no_poke t = true.
Proof. exact skel_serving_never_pokes. Qed.
Print Assumptions C06_serving_never_stores.

(* a write request is refused with an ERROR packet and starts nothing (from C05) *)
Theorem C06_wrq_refused : forall resolve src d fl now f m o,
  parse d = Ok (WRQ f m o) -> main_handle resolve src d fl now = MReply (handle_exn AttributeError).
Proof. exact wrq_refused. Qed.
Print Assumptions C06_wrq_refused.

Example C06_nonvacuous :
  (1 < List.length entries_serve)%nat /\ serve_env 0 = false /\ serve_env 3 = true /\
  ok_prog_from (fun _ => false) sel_none serve_env no_exempt 0 [[SGuard 1 [SPoke 0]]] = true /\
  ok_prog_from (fun _ => false) sel_none serve_env no_exempt 0 [[SGuard 3 [SPoke 0]]] = false.
Proof. repeat split; try reflexivity; vm_compute; repeat constructor. Qed.
