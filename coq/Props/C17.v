(* C17 -- preparing an image rewrites exactly the command line and the listed files.
   This file only restates the property theorems; proofs live in Prep/Proofs*.v.
   The file-tree part of the property (removed / copied / untouched files) is NOT a
   theorem here: it is checked by the oracle of harness/props/c17.py and rests on the
   FAT tree model of C04. *)
From Coq Require Import String.
From Coq Require Import List NArith ZArith Bool.
From NV Require Import Lib.Val Lib.Res Gen.Prep Prep.Model Prep.ProofsNum Prep.Proofs Prep.ProofsBoard.
From NV Require Prep.Detect Prep.Resize.
Import ListNotations.
Open Scope N_scope.

(* str.split() = the unique tokenisation into maximal white-space-free runs *)
Theorem C17_split_spec : forall s ws, Tokens s ws <-> split_ws s = ws.
Proof. exact split_spec. Qed.
Print Assumptions C17_split_spec.

(* every word is non-empty and free of white space *)
Theorem C17_split_words_clean : forall s,
  Forall (fun w => w <> [] /\ Forall (fun c => is_space c = false) w) (split_ws s).
Proof. exact split_words_clean. Qed.
Print Assumptions C17_split_words_clean.

(* the words, concatenated, are the line's non-space characters in order *)
Theorem C17_split_concat : forall s,
  concat (split_ws s) = filter (fun c => negb (is_space c)) s.
Proof. exact split_concat. Qed.
Print Assumptions C17_split_concat.

(* params[:params.index('\n')] / whole text: the part before the first LF *)
Theorem C17_first_line_spec : forall t l,
  first_line t = l <-> (~ In LF l /\ (t = l \/ exists r, t = l ++ LF :: r)).
Proof. exact first_line_spec. Qed.
Print Assumptions C17_first_line_spec.

(* the rewritten command line, for every original text, host, share and partition *)
Theorem C17_cmdline_spec : forall text host name n line ws,
  FirstLine (univ_nl text) line -> Tokens line ws ->
  rewrite_cmdline host name n text =
  join (str " ")
       ([str "ip=dhcp";
         str "nbdroot=" ++ host ++ str "/" ++ name;
         str "root=/dev/nbd0p" ++ show_base 10 n] ++
        filter (fun w => negb (starts_with (str "root=") w)) ws).
Proof. exact cmdline_spec. Qed.
Print Assumptions C17_cmdline_spec.

(* ... and that statement is about exactly one line and one word list *)
Theorem C17_cmdline_spec_total : forall text, exists line ws,
  FirstLine (univ_nl text) line /\ Tokens line ws /\
  (forall line' ws', FirstLine (univ_nl text) line' -> Tokens line' ws' -> line' = line /\ ws' = ws).
Proof. exact cmdline_spec_total. Qed.
Print Assumptions C17_cmdline_spec_total.

(* decimal partition number: digits only, reads back as n, no leading zero *)
Theorem C17_partition_decimal : forall n,
  show_base 10 n <> [] /\ forallb (is_digit_b 10) (show_base 10 n) = true /\
  dvalue 10 0 (show_base 10 n) = n /\ (n <> 0 -> hd 0 (show_base 10 n) <> 48).
Proof. intro n. apply show_base_spec. split; discriminate. Qed.
Print Assumptions C17_partition_decimal.

(* the filter: no word starting with root= survives, every other word does, order kept *)
Theorem C17_cmdline_filter : forall ws : list (list N),
  let out := filter (fun w => negb (starts_with (str "root=") w)) ws in
  (forall w, In w out <-> In w ws /\ starts_with (str "root=") w = false) /\
  (forall a b pre mid post, out = pre ++ a :: mid ++ b :: post ->
     exists p m q, ws = p ++ a :: m ++ b :: q).
Proof. exact cmdline_filter. Qed.
Print Assumptions C17_cmdline_filter.

(* running the tool again with the same host/share/partition keeps every parameter and
   the three leading ones, and repeats "ip=dhcp nbdroot=H/S" after them *)
Theorem C17_cmdline_reapply : forall text host name n,
  Forall (fun c => is_space c = false) host -> Forall (fun c => is_space c = false) name ->
  exists rest,
    rewrite_cmdline host name n text =
      join (str " ") ([str "ip=dhcp"; str "nbdroot=" ++ host ++ str "/" ++ name;
                       str "root=/dev/nbd0p" ++ show_base 10 n] ++ rest) /\
    rewrite_cmdline host name n (rewrite_cmdline host name n text) =
      join (str " ") ([str "ip=dhcp"; str "nbdroot=" ++ host ++ str "/" ++ name;
                       str "root=/dev/nbd0p" ++ show_base 10 n] ++
                      [str "ip=dhcp"; str "nbdroot=" ++ host ++ str "/" ++ name] ++ rest).
Proof. exact cmdline_reapply. Qed.
Print Assumptions C17_cmdline_reapply.

(* so the rewrite is not a fixpoint on its own output (the property does not ask for it) *)
Theorem C17_cmdline_not_idempotent : exists text host name n,
  rewrite_cmdline host name n (rewrite_cmdline host name n text) <> rewrite_cmdline host name n text.
Proof. exact cmdline_not_idempotent. Qed.
Print Assumptions C17_cmdline_not_idempotent.

(* serial numbers: any spelling with hex digits in either case, leading zeros, white
   space around, denoting a 32-bit number *)
Theorem C17_serial_roundtrip : forall pre s post,
  s <> [] -> forallb is_hex s = true -> hex_value s <= 4294967295 ->
  forallb is_space pre = true -> forallb is_space post = true ->
  serial (pre ++ s ++ post) = Ok (hex_value s).
Proof. exact serial_roundtrip. Qed.
Print Assumptions C17_serial_roundtrip.

Theorem C17_serial_show : forall n k, n <= 4294967295 ->
  serial (repeat 48 k ++ show_base 16 n) = Ok n /\
  serial (repeat 48 k ++ map upper (show_base 16 n)) = Ok n.
Proof. exact serial_show. Qed.
Print Assumptions C17_serial_show.

(* 10000000 / 00000000 followed by eight digits: the low 32 bits *)
Theorem C17_serial_prefix : forall t, List.length t = 8%nat -> forallb is_hex t = true ->
  serial (str "10000000" ++ t) = Ok (hex_value t) /\
  serial (str "00000000" ++ t) = Ok (hex_value t) /\ hex_value t < 2 ^ 32.
Proof. exact serial_prefix16. Qed.
Print Assumptions C17_serial_prefix.

Theorem C17_serial_range : forall s,
  (forall n, serial s = Ok n -> n <= 4294967295) /\
  (s <> [] -> forallb is_hex s = true -> (List.length s < 16)%nat ->
   4294967295 < hex_value s -> serial s = Err ValueError).
Proof. intro s. split; [apply serial_range|apply serial_rejects]. Qed.
Print Assumptions C17_serial_range.

(* the text prep writes to --tftpd-conf, and what the server's reader makes of it *)
Theorem C17_board_text : forall n p part,
  board_conf n p part =
  (str "[board:" ++ show_base 16 n ++ str "]") ++ LF ::
  (str "image = " ++ p) ++ LF ::
  (str "partition = " ++ show_base 10 part) ++ [LF].
Proof. exact board_conf_eq. Qed.
Print Assumptions C17_board_text.

Theorem C17_board_roundtrip : forall n p part,
  n <= 4294967295 -> path_ok p = true ->
  read_board (board_conf n p part) = Some (n, p, Z.of_N part).
Proof. exact board_roundtrip. Qed.
Print Assumptions C17_board_roundtrip.

(* facts regenerated from the source on every run *)
Theorem C17_prep_wiring :
  board_args_standard = true /\ image_path_resolved = true /\ cfg_options_standard = true /\
  open_file_dash_is_std_stream = true.
Proof. repeat split; reflexivity. Qed.
Print Assumptions C17_prep_wiring.

(* open_file('-') refers only to names that tools.py binds *)
Theorem C17_open_file_names_bound : open_file_names_bound = true.
Proof. reflexivity. Qed.
Print Assumptions C17_open_file_names_bound.

(* remove_items removes the collected directories children first *)
Theorem C17_remove_order_children_first : remove_dirs_children_first = true.
Proof. reflexivity. Qed.
Print Assumptions C17_remove_order_children_first.

(* non-vacuity *)
Example C17_nonvacuous :
  rewrite_cmdline (str "srv") (str "img") 2
    (str "console=tty1  root=/dev/mmcblk0p2" ++ [9] ++ str "rootwait root=x" ++ [13; 10] ++ str "second line")
  = str "ip=dhcp nbdroot=srv/img root=/dev/nbd0p2 console=tty1 rootwait" /\
  rewrite_cmdline (str "h") (str "s") 10 [] = str "ip=dhcp nbdroot=h/s root=/dev/nbd0p10" /\
  serial (str " 10000000DEADbeef ") = Ok 3735928559 /\
  serial (str "100000000") = Err ValueError /\
  board_conf 3735928559 (str "/srv/my image.img") 2 =
    str "[board:deadbeef]" ++ [10] ++ str "image = /srv/my image.img" ++ [10] ++ str "partition = 2" ++ [10] /\
  read_board (board_conf 3735928559 (str "/srv/my image.img") 2) = Some (3735928559, str "/srv/my image.img", 2%Z) /\
  path_ok (str "/srv/nobodd images/ubuntu=24.04:arm64 [v1].img") = true /\
  Tokens (str " a  b ") [str "a"; str "b"].
Proof.
  repeat split; try reflexivity. apply split_spec. reflexivity.
Qed.

(* which partitions are prepared when none is named ("all FAT types and partition-table styles"): detect_partitions
   walks what sh.fat_types reports per partition, in table order (loop body, error tests and the three kinds are facts
   regenerated from prep.py / sh.py).  The boot partition is the one given, else the FIRST partition that holds a FAT
   file system; the root partition the one given, else the FIRST partition that is neither FAT nor FAT-typed; the early
   break changes nothing; a FAT-typed partition without a file system is never chosen *)
Theorem C17_detect_source_facts :
  detect_loop_standard = true /\ detect_errors_standard = true /\ fat_types_kinds_standard = true.
Proof. repeat split; reflexivity. Qed.
Print Assumptions C17_detect_source_facts.

Theorem C17_detect_spec : forall b t l,
  Prep.Detect.detect b t l =
  match Prep.Detect.orelse b (Prep.Detect.first_of Prep.Detect.is_fat l),
        Prep.Detect.orelse t (Prep.Detect.first_of Prep.Detect.is_not l) with
  | None, _ => Prep.Detect.NoBoot
  | Some _, None => Prep.Detect.NoRoot
  | Some x, Some y => Prep.Detect.Detected x y
  end.
Proof. exact Prep.Detect.detect_spec. Qed.
Print Assumptions C17_detect_spec.

Theorem C17_detect_break_is_harmless : forall l b t,
  Prep.Detect.detect_loop b t l =
  fold_left (fun s x => Prep.Detect.detect_step (fst s) (snd s) x) l (b, t).
Proof. exact Prep.Detect.detect_loop_fold. Qed.
Print Assumptions C17_detect_break_is_harmless.

Theorem C17_maybefat_never_chosen : forall l b r,
  Prep.Detect.detect None None l = Prep.Detect.Detected b r ->
  In (b, Prep.Detect.KFat) l /\ In (r, Prep.Detect.KNot) l.
Proof. exact Prep.Detect.maybefat_never_chosen. Qed.
Print Assumptions C17_maybefat_never_chosen.

(* "the image is at least the requested size": the image file is grown, never shrunk and never rewritten (the block of
   prepare_image and config.size are pinned by facts regenerated from prep.py / config.py) *)
Theorem C17_resize_source_facts :
  prepare_order_standard = true /\ resize_block_standard = true /\ size_parser_standard = true /\
  Prep.Resize.size_of size_default_mantissa 0 Prep.Resize.SGB = 17179869184 /\ size_default_suffix = [71; 66].
Proof. repeat split; reflexivity. Qed.
Print Assumptions C17_resize_source_facts.

Theorem C17_image_at_least_requested_size : forall image want,
  want <= Prep.Resize.len (Prep.Resize.resize image want) /\
  Prep.Resize.len (Prep.Resize.resize image want) = N.max (Prep.Resize.len image) want /\
  firstn (List.length image) (Prep.Resize.resize image want) = image.
Proof.
  intros image want. split; [apply Prep.Resize.resize_at_least|].
  split; [apply Prep.Resize.resize_exact|apply Prep.Resize.resize_keeps_content].
Qed.
Print Assumptions C17_image_at_least_requested_size.

Theorem C17_resize_adds_zeros : forall image want i,
  (List.length image <= i)%nat -> (i < List.length (Prep.Resize.resize image want))%nat ->
  nth i (Prep.Resize.resize image want) 255 = 0.
Proof. exact Prep.Resize.resize_tail_zero. Qed.
Print Assumptions C17_resize_adds_zeros.

(* the requested size as written on the command line: a fraction is rounded down to whole bytes *)
Theorem C17_size_truncates : forall mant frac s,
  Prep.Resize.size_of mant frac s * 10 ^ frac <= mant * 2 ^ (10 * Prep.Resize.power s) /\
  mant * 2 ^ (10 * Prep.Resize.power s) < (Prep.Resize.size_of mant frac s + 1) * 10 ^ frac.
Proof. exact Prep.Resize.size_truncates. Qed.
Print Assumptions C17_size_truncates.
