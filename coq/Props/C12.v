(* C12 -- partition numbers map to exactly the byte ranges the table defines.
   This file only restates the property theorems; proofs live in Disk/Proofs*.v.
   Model: Disk/Model.v (nobodd/disk.py over the layouts and expressions regenerated
   in Gen/Disk.v); specification side: Disk/Build.v (layouts, standard on-disk
   formats, the image `build S l` a layout denotes). *)
From Coq Require Import String List NArith ZArith Bool.
From NV Require Import Lib.Val Lib.Res Lib.Struct Gen.Disk Disk.Model Disk.Build
  Disk.ProofsBase Disk.ProofsMBR Disk.ProofsGPT.
Import ListNotations.
Open Scope N_scope.

(* the struct tables of mbr.py / gpt.py are the standard on-disk formats ('<' prefix) *)
Theorem C12_layouts_standard :
  MBR_HEADER = STD_MBR_HEADER /\ MBR_PARTITION = STD_MBR_PARTITION /\
  GPT_HEADER = STD_GPT_HEADER /\ GPT_PARTITION = STD_GPT_PARTITION /\
  struct_prefix_le = true /\
  sizeN MBR_HEADER = 512 /\ sizeN MBR_PARTITION = 16 /\
  sizeN GPT_HEADER = 92 /\ sizeN GPT_PARTITION = 128.
Proof. exact layouts_standard. Qed.
Print Assumptions C12_layouts_standard.

(* every well-formed MBR layout (0-4 primaries in any slots, one extended partition of
   type 5 or 15 with an EBR chain of any length, gaps, unused first slots), every
   sector size 512k: the mapping lists exactly the defined numbers (logical
   partitions consecutively from 5), each number gives exactly the window
   [first*S, (first+size)*S) with its type and the label "Partition n", every
   other number gives KeyError *)
Theorem C12_parse_build_mbr : forall S l,
  sector_ok S -> wf_mbr l = true ->
  let img := build S (MBRLayout l) in
  exists t,
    partitions img S = Ok t /\ tab_is_gpt t = false /\
    tab_keys t = Ok (map fst (mbr_defined l)) /\ NoDup (map fst (mbr_defined l)) /\
    tab_len t = Ok (lenN (mbr_defined l)) /\
    (forall n ty first size, In (n, (ty, first, size)) (mbr_defined l) ->
       tab_getitem t (Z.of_N n) =
         Ok {| p_start := first * S;
               p_data := slice (first * S) ((first + size) * S) img;
               p_type := TMbr ty; p_label := mbr_label_text n |}
       /\ lenN (slice (first * S) ((first + size) * S) img) = size * S) /\
    (forall i, (forall n, In n (map fst (mbr_defined l)) -> Z.of_N n <> i) ->
       tab_getitem t i = Err KeyError).
Proof. exact parse_build_mbr. Qed.
Print Assumptions C12_parse_build_mbr.

(* every well-formed GPT layout (entry size 128*2^k, any number of entries, any used
   slots, table anywhere from LBA 2, ANY content of the first 512 bytes -- zeros, a
   protective or a hybrid MBR), every sector size 512k: the
   mapping lists exactly the used slot numbers, each gives exactly the window
   [first*S, (last+1)*S) with its type GUID and label, others give KeyError *)
Theorem C12_parse_build_gpt : forall S l,
  sector_ok S -> wf_gpt l = true ->
  let img := build S (GPTLayout l) in
  exists t,
    partitions img S = Ok t /\ tab_is_gpt t = true /\
    tab_keys t = Ok (map fst (gpt_defined l)) /\ NoDup (map fst (gpt_defined l)) /\
    tab_len t = Ok (lenN (gpt_defined l)) /\
    (forall n e, In (n, e) (gpt_defined l) ->
       tab_getitem t (Z.of_N n) =
         Ok {| p_start := ge_first e * S;
               p_data := slice (ge_first e * S) ((ge_last e + 1) * S) img;
               p_type := TGpt (ge_type e); p_label := ge_label e |}
       /\ lenN (slice (ge_first e * S) ((ge_last e + 1) * S) img)
          = (ge_last e + 1 - ge_first e) * S) /\
    (forall i, (forall n, In n (map fst (gpt_defined l)) -> Z.of_N n <> i) ->
       tab_getitem t i = Err KeyError).
Proof. exact parse_build_gpt. Qed.
Print Assumptions C12_parse_build_gpt.

(* a protective MBR defers to the GPT: the GPT mapping is returned, and the MBR
   parser on the same image refuses the protective MBR *)
Theorem C12_protective_defers : forall S l size,
  sector_ok S -> wf_gpt l = true -> size < 4294967296 -> gl_sector0 l = protective_sector size ->
  let img := build S (GPTLayout l) in
  (exists g, partitions img S = Ok (TabGPT g) /\
             tab_keys (TabGPT g) = Ok (map fst (gpt_defined l))) /\
  mbr_init img S = Err ValueError.
Proof. exact protective_defers. Qed.
Print Assumptions C12_protective_defers.

(* any image: a bad GPT signature, revision, header size or stored checksum makes the
   GPT parser raise ValueError *)
Theorem C12_reject_bad_gpt : forall mem ss h,
  unpack_from GPT_HEADER mem (gpt_header_offset ss) = Ok h ->
  get_bytes GPT_HEADER "signature" h <> EFI_PART \/
  get_int GPT_HEADER "revision" h <> GPT_REVISION \/
  get_int GPT_HEADER "header_size" h <> GPT_HEADER_SIZE \/
  header_crc_of h <> get_int GPT_HEADER "header_crc32" h ->
  gpt_init mem ss = Err ValueError.
Proof. exact reject_bad_gpt. Qed.
Print Assumptions C12_reject_bad_gpt.

(* any image: a bad boot signature (or non-zero reserved field) makes the MBR parser
   raise ValueError *)
Theorem C12_reject_bad_mbr : forall mem ss h,
  unpack_from MBR_HEADER mem (mbr_header_offset ss) = Ok h ->
  get_int MBR_HEADER "boot_sig" h <> BOOT_SIG \/ get_int MBR_HEADER "zero" h <> 0 ->
  mbr_init mem ss = Err ValueError.
Proof. exact reject_bad_mbr. Qed.
Print Assumptions C12_reject_bad_mbr.

(* neither a valid GPT nor a valid MBR: DiskImage.partitions raises ValueError *)
Theorem C12_reject_bad : forall mem ss,
  gpt_init mem ss = Err ValueError -> mbr_init mem ss = Err ValueError ->
  partitions mem ss = Err ValueError.
Proof. exact reject_bad. Qed.
Print Assumptions C12_reject_bad.

(* corruption of a CRC-covered field: rejected exactly when CRC-32 separates the
   headers (not proved to always do so; correspondence covers the concrete cases) *)
Theorem C12_reject_corrupt_covered_partial : forall mem ss h,
  unpack_from GPT_HEADER mem (gpt_header_offset ss) = Ok h ->
  get_bytes GPT_HEADER "signature" h = EFI_PART ->
  get_int GPT_HEADER "revision" h = GPT_REVISION ->
  get_int GPT_HEADER "header_size" h = GPT_HEADER_SIZE ->
  (gpt_init mem ss = Err ValueError <-> header_crc_of h <> get_int GPT_HEADER "header_crc32" h).
Proof. exact reject_corrupt_covered_partial. Qed.
Print Assumptions C12_reject_corrupt_covered_partial.

(* the checksum model on the standard check vector; re-packing never fails *)
Theorem C12_crc32_check :
  crc32 [49; 50; 51; 52; 53; 54; 55; 56; 57] = 0xCBF43926 /\
  (forall mem off h, bytes_ok mem = true -> unpack_from GPT_HEADER mem off = Ok h ->
     exists b, pack GPT_HEADER (set GPT_HEADER gpt_crc_replaced_field (VInt 0) h) = Some b).
Proof. split; [exact crc32_check_vector|exact repack_total]. Qed.
Print Assumptions C12_crc32_check.

(* an image too short to hold a GPT header gives struct.error, not ValueError *)
Theorem C12_short_image_struct_error : forall mem ss,
  lenN mem < gpt_header_offset ss + 92 -> partitions mem ss = Err StructError.
Proof. exact short_image_struct_error. Qed.
Print Assumptions C12_short_image_struct_error.

(* non-vacuity: a concrete MBR with an extended partition holding an unused first
   slot and two logical partitions, and a concrete GPT with sparse slots *)
Definition ex_mbr : mbr_layout :=
  {| ml_sig := 7; ml_tail := 1;
     ml_slots := [SPrimary 12 3 2;
                  SExtended 15 6 [{| e_part := None; e_link := 5; e_gap := 0 |};
                                  {| e_part := Some {| l_type := 131; l_rel := 1; l_size := 2 |};
                                     e_link := 15; e_gap := 1 |};
                                  {| e_part := Some {| l_type := 130; l_rel := 2; l_size := 1 |};
                                     e_link := 5; e_gap := 0 |}];
                  SEmpty; SPrimary 7 1 1] |}.

Definition ex_entry (b first last : N) (lab : list N) : gentry :=
  {| ge_type := repeat b 16; ge_guid := repeat (b + 1) 16; ge_first := first; ge_last := last;
     ge_flags := 0; ge_label := lab |}.
Definition ex_gpt : gpt_layout :=
  {| gl_esize_log := 1;
     gl_entries := [None; Some (ex_entry 10 4 5 [98; 111; 111; 116]); None; None;
                    Some (ex_entry 20 7 7 [])];
     gl_table_lba := 3; gl_disk_guid := repeat 9 16; gl_table_crc := 0;
     gl_backup_lba := 30; gl_first_usable := 6; gl_last_usable := 20;
     gl_sector0 := protective_sector 100; gl_tail := 0 |}.

Definition summary (r : res ptable) : res (list N) * list (res (N * N * ptype * list N)) :=
  match r with
  | Ok t =>
    (tab_keys t,
     map (fun k => match tab_getitem t (Z.of_N k) with
                   | Ok p => Ok (p_start p, lenN (p_data p), p_type p, p_label p)
                   | Err e => Err e
                   end)
         (match tab_keys t with Ok ks => ks ++ [9] | Err _ => [] end))
  | Err e => (Err e, [])
  end.

Example C12_nonvacuous :
  wf (MBRLayout ex_mbr) = true /\ wf (GPTLayout ex_gpt) = true /\
  summary (partitions (build 512 (MBRLayout ex_mbr)) 512) =
    (Ok [1; 5; 6; 4],
     [Ok (1536, 1024, TMbr 12, mbr_label_text 1);
      Ok (4096, 1024, TMbr 131, mbr_label_text 5);
      Ok (6656, 512, TMbr 130, mbr_label_text 6);
      Ok (512, 512, TMbr 7, mbr_label_text 4);
      Err KeyError]) /\
  summary (partitions (build 512 (GPTLayout ex_gpt)) 512) =
    (Ok [2; 5],
     [Ok (2048, 1024, TGpt (repeat 10 16), [98; 111; 111; 116]);
      Ok (3584, 512, TGpt (repeat 20 16), []);
      Err KeyError]) /\
  mbr_label_text 12 = [80; 97; 114; 116; 105; 116; 105; 111; 110; 32; 49; 50].
Proof. repeat split; vm_compute; reflexivity. Qed.
