(* C02 -- Requests are served only from the board's configured image, partition, IP. *)
From Coq Require Import List NArith ZArith Bool String.
From NV Require Import Lib.Res Lib.PyInt Gen.Boot Boot.Model Boot.Proofs Boot.Cache.
From NV Require FatVol.Model FatVol.Spec FatVol.ProofsInv FatVol.ProofsWalk FatVol.ProofsDots.
Import ListNotations.
Open Scope N_scope.

(* BootHandler.resolve_path has the statement structure that Boot/Model.v follows (regenerated
   from server.py on every run) *)
Theorem C02_source_facts :
  boot_stmt_parts = true /\ boot_stmt_empty = true /\ boot_stmt_serial = true /\ boot_stmt_rest = true /\
  boot_stmt_result = true /\ boot_statement_count = 7 /\
  boot_ip_check_hash = "84287f62913d0dc3"%string /\ boot_image_cache_hash = "34bfe4ddb289e1d9"%string /\
  boot_maps_image_with_defaults = true.
Proof. repeat split; reflexivity. Qed.
Print Assumptions C02_source_facts.

(* for EVERY request string, client and board table: whatever is served comes from the image and
   partition configured for the board whose serial the first component spells in hexadecimal
   (the result type cannot even name another volume or a host path), from the configured address *)
Theorem C02_served_confined : forall boards client parts image part path,
  boot_resolve boards client parts = Served image part path ->
  exists p0 b, parts = p0 :: path /\ In b boards /\ py_int16 p0 = Some (b_serial b) /\
               image = b_image b /\ part = b_partition b /\
               (b_ip b = None \/ exists a, b_ip b = Some a /\ client = Some a).
Proof. exact served_confined. Qed.
Print Assumptions C02_served_confined.

Theorem C02_unknown_not_found : forall boards client parts,
  (parts = [] \/ exists p0 r, parts = p0 :: r /\
     (py_int16 p0 = None \/ exists s, py_int16 p0 = Some s /\ find_board s boards = None)) ->
  boot_resolve boards client parts = NotFound.
Proof. exact unknown_not_found. Qed.
Print Assumptions C02_unknown_not_found.

Theorem C02_ip_exact : forall boards client p0 rest b a,
  py_int16 p0 = Some (b_serial b) -> find_board (b_serial b) boards = Some b -> b_ip b = Some a ->
  (client = Some a -> boot_resolve boards client (p0 :: rest) = Served (b_image b) (b_partition b) rest) /\
  (client <> Some a -> boot_resolve boards client (p0 :: rest) = Refused).
Proof. exact ip_exact. Qed.
Print Assumptions C02_ip_exact.

Theorem C02_no_ip_served : forall boards client p0 rest b,
  py_int16 p0 = Some (b_serial b) -> find_board (b_serial b) boards = Some b -> b_ip b = None ->
  boot_resolve boards client (p0 :: rest) = Served (b_image b) (b_partition b) rest.
Proof. exact no_ip_served. Qed.
Print Assumptions C02_no_ip_served.

(* the per-serial cache of opened volumes (server.images) is transparent: over ANY history of requests -- any
   serials, any clients, refusals and misses in between -- every request gets the outcome the board table alone
   gives, i.e. a cached volume never stands for another board's image or another partition of it *)
Theorem C02_cache_transparent : forall boards reqs,
  fst (serve_all boards [] reqs) = map (fun r => boot_resolve boards (fst r) (snd r)) reqs /\
  cache_ok boards (snd (serve_all boards [] reqs)).
Proof. intros boards reqs. apply serve_all_transparent, empty_cache_ok. Qed.
Print Assumptions C02_cache_transparent.

(* Inside the configured volume the remaining components are resolved by FatPath, which does not
   normalise: "." and ".." are looked up as the dot entries stored in each sub-directory (the root
   holds none).  On a consistent volume (VolInv: dot entries right, directory graph a tree) that walk is
   the stack walk over the volume's own tree -- ".." pops, "." stays, at the root neither exists -- so
   whatever the request spells, what is served is a node of the tree of THAT volume. *)
Theorem C02_volume_closed : forall upper V s parts r,
  FatVol.ProofsInv.VolInv upper V s -> FatVol.ProofsWalk.tilde_free upper parts ->
  FatVol.Model.resolved upper s parts = Ok r -> r <> FatVol.Model.RNone ->
  FatVol.Spec.reach (FatVol.Spec.abs_tree s) (FatVol.ProofsWalk.cur_node s r).
Proof. exact FatVol.ProofsDots.resolved_confined. Qed.
Print Assumptions C02_volume_closed.

Theorem C02_path_walk_is_tree_walk : forall upper V s parts,
  FatVol.ProofsInv.VolInv upper V s -> FatVol.ProofsWalk.tilde_free upper parts ->
  match FatVol.Model.resolved upper s parts with
  | Err x => x = NotADirectory /\ FatVol.Spec.twalkd upper [] (FatVol.Spec.abs_tree s) parts = Err NotADirectory
  | Ok FatVol.Model.RNone => FatVol.Spec.twalkd upper [] (FatVol.Spec.abs_tree s) parts = Ok None
  | Ok r => FatVol.Spec.twalkd upper [] (FatVol.Spec.abs_tree s) parts = Ok (Some (FatVol.ProofsWalk.cur_node s r))
  end.
Proof. exact FatVol.ProofsDots.resolved_refines. Qed.
Print Assumptions C02_path_walk_is_tree_walk.

(* the file served for "overlays/../config.txt" is the file at "config.txt": what a dotted path reaches is what its
   dot-free normal form reaches in the tree of the volume *)
Theorem C02_served_path_is_its_normal_form : forall upper V s parts r,
  FatVol.ProofsInv.VolInv upper V s -> FatVol.ProofsWalk.tilde_free upper parts ->
  FatVol.Model.resolved upper s parts = Ok r -> r <> FatVol.Model.RNone ->
  FatVol.Spec.twalk upper (FatVol.Spec.abs_tree s) (FatVol.Spec.lexnorm upper [] parts) = Ok (Some (FatVol.ProofsWalk.cur_node s r)).
Proof. exact FatVol.ProofsDots.resolved_is_normalised_path. Qed.
Print Assumptions C02_served_path_is_its_normal_form.

(* ".." from the root leads nowhere: the root directory holds no dot entries (unless an entry is
   literally called ".." -- which no creating call stores, C11_dot_names_rejected) *)
Theorem C02_dotdot_at_root_is_a_plain_lookup : forall upper ch h r,
  FatVol.Spec.twalkd upper [] (FatVol.Spec.Dir ch) (h :: r) =
  match FatVol.Spec.tfind upper (upper h) ch with
  | None => Ok None
  | Some n => FatVol.Spec.twalkd upper [FatVol.Spec.Dir ch] n r
  end.
Proof. reflexivity. Qed.
Print Assumptions C02_dotdot_at_root_is_a_plain_lookup.

Example C02_nonvacuous :
  let bs := [{| b_serial := 4660; b_image := 1; b_partition := 1; b_ip := None |};
             {| b_serial := 2748; b_image := 1; b_partition := 2; b_ip := Some [10;0;0;5] |}] in
  boot_resolve bs (Some [10;0;0;6]) [[49;50;51;52]; [99]] = Served 1 1 [[99]] /\
  boot_resolve bs (Some [10;0;0;6]) [[32;48;88;97;66;99]; [99]] = Refused /\
  boot_resolve bs (Some [10;0;0;5]) [[97;98;99]; [46;46]; [99]] = Served 1 2 [[46;46]; [99]] /\
  boot_resolve bs None [[122]] = NotFound.
Proof. repeat split; reflexivity. Qed.
