(* C15 -- Mid-operation states are flagged dirty and never harm unrelated files.
   The theorem covers the bracket discipline: every store of an API operation lies inside a
   mark_dirty bracket (flag set before, restored after, also on exceptions), except the
   access-time update of a read and the stores of the flag itself.  That the bracketed stores
   leave bystanders intact and end in a consistent volume is checked on every intermediate
   image of the implementation (correspondence / oracle), see DESIGN.md. *)
From Coq Require Import List Arith NArith Bool.
From NV Require Import Fat.SkelDefs Fat.SkelProofs Gen.FatSkel Fat.SkelTheorems.
From NV Require FatDir.Model FatDir.ProofsBase FatDir.ProofsAppend.
Import ListNotations.

Theorem C15_skeleton_check : check15 = true.
Proof. exact check15_holds. Qed.
Print Assumptions C15_skeleton_check.

Theorem C15_pokes_inside_dirty_bracket_partial : forall f body t,
  In f entries_api -> nth_error skeleton f = Some body -> exec skeleton all_on f body t ->
  pokes_ok is_d exempt15 0 [] t = true /\ final_depth is_d 0 t = 0.
Proof. exact skel_pokes_inside_dirty_bracket. Qed.
Print Assumptions C15_pokes_inside_dirty_bracket_partial.

Example C15_nonvacuous :
  (* a store under the plain write lock, outside mark_dirty, is rejected *)
  ok_prog_from (fun _ => false) is_d all_on no_exempt 0 [[SWith LW [SPoke 0]]] = false /\
  ok_prog_from (fun _ => false) is_d all_on no_exempt 0 [[SWith LD [SWith LW [SPoke 0]]]] = true /\
  (1 < List.length entries_api) /\ atime_edges <> [] /\ flag_functions <> [].
Proof. repeat split; try reflexivity; try (vm_compute; repeat constructor); discriminate. Qed.

(* appending a directory entry (long-name records, short record, new end-of-directory record) stores the records from the highest index down: after every proper prefix of the stores the records before the old end are unchanged and the decoded groups are the old ones (plus, only when deleted records trail the last group, a transient extra) -- every bystander entry is present at every crash point, the old terminator is overwritten last *)
Theorem C15_dir_append_back_to_front :
  (list N -> list N) -> forall (spc : N) (d : Model.dir) (recs_new : list Model.rec), ProofsView.cap_ok d -> (0 < spc)%N -> ProofsAppend.fits d (Model.last_end (Model.groups (Model.d_recs d)) + N.of_nat (length (recs_new ++ [Model.zero_rec])) - 1) -> map fst (Model.append_pokes (Model.last_end (Model.groups (Model.d_recs d))) (recs_new ++ [Model.zero_rec])) = rev (map (fun j : nat => (Model.last_end (Model.groups (Model.d_recs d)) + N.of_nat j)%N) (seq 0 (length (recs_new ++ [Model.zero_rec])))) /\ (forall j : nat, 1 <= j < length (recs_new ++ [Model.zero_rec]) -> exists dj : Model.dir, Model.pokes spc d (firstn j (Model.append_pokes (Model.last_end (Model.groups (Model.d_recs d))) (recs_new ++ [Model.zero_rec]))) = (dj, None) /\ firstn (N.to_nat (Model.last_end (Model.groups (Model.d_recs d)))) (Model.d_recs dj) = firstn (N.to_nat (Model.last_end (Model.groups (Model.d_recs d)))) (Model.d_recs d) /\ (exists extra : list Model.group, Model.groups (Model.d_recs dj) = Model.groups (Model.d_recs d) ++ extra) /\ (ProofsBase.kind_of (nth (N.to_nat (Model.last_end (Model.groups (Model.d_recs d)))) (Model.d_recs d) Model.zero_rec) = ProofsBase.KEnd -> Model.groups (Model.d_recs dj) = Model.groups (Model.d_recs d) /\ ProofsView.view (Model.d_recs dj) = ProofsView.view (Model.d_recs d))).
Proof. exact FatDir.ProofsAppend.setitem_pokes_back_to_front. Qed.
Print Assumptions C15_dir_append_back_to_front.
