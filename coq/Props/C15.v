(* C15 -- Mid-operation states are flagged dirty and never harm unrelated files.
   The theorem covers the bracket discipline: every store of an API operation lies inside a
   mark_dirty bracket (flag set before, restored after, also on exceptions), except the
   access-time update of a read and the stores of the flag itself.  That the bracketed stores
   leave bystanders intact and end in a consistent volume is checked on every intermediate
   image of the implementation (correspondence / oracle), see DESIGN.md. *)
From Coq Require Import List Arith NArith Bool.
From NV Require Import Fat.SkelDefs Fat.SkelProofs Gen.FatSkel Fat.SkelTheorems.
From NV Require FatDir.Model FatDir.ProofsBase FatDir.ProofsAppend.
Import ListNotations.

Theorem C15_skeleton_check : check15 = true.
Proof. exact check15_holds. Qed.
Print Assumptions C15_skeleton_check.

Theorem C15_pokes_inside_dirty_bracket_partial : forall f body t,
  In f entries_api -> nth_error skeleton f = Some body -> exec skeleton all_on f body t ->
  pokes_ok is_d exempt15 0 [] t = true /\ final_depth is_d 0 t = 0.
Proof. exact skel_pokes_inside_dirty_bracket. Qed.
Print Assumptions C15_pokes_inside_dirty_bracket_partial.

Example C15_nonvacuous :
  (* a store under the plain write lock, outside mark_dirty, is rejected *)
  ok_prog_from (fun _ => false) is_d all_on no_exempt 0 [[SWith LW [SPoke 0]]] = false /\
  ok_prog_from (fun _ => false) is_d all_on no_exempt 0 [[SWith LD [SWith LW [SPoke 0]]]] = true /\
  (1 < List.length entries_api) /\ atime_edges <> [] /\ flag_functions <> [].
Proof. repeat split; try reflexivity; try (vm_compute; repeat constructor); discriminate. Qed.

(* appending a directory entry (long-name records, short record, new end-of-directory record) stores the records from the highest index down: after every proper prefix of the stores the records before the old end are unchanged and the decoded groups are the old ones (plus, only when deleted records trail the last group, a transient extra) -- every bystander entry is present at every crash point, the old terminator is overwritten last *)
Theorem C15_dir_append_back_to_front :
  (list N -> list N) -> forall (spc : N) (d : Model.dir) (recs_new : list Model.rec), ProofsView.cap_ok d -> (0 < spc)%N -> ProofsAppend.fits d (Model.last_end (Model.groups (Model.d_recs d)) + N.of_nat (length (recs_new ++ [Model.zero_rec])) - 1) -> map fst (Model.append_pokes (Model.last_end (Model.groups (Model.d_recs d))) (recs_new ++ [Model.zero_rec])) = rev (map (fun j : nat => (Model.last_end (Model.groups (Model.d_recs d)) + N.of_nat j)%N) (seq 0 (length (recs_new ++ [Model.zero_rec])))) /\ (forall j : nat, 1 <= j < length (recs_new ++ [Model.zero_rec]) -> exists dj : Model.dir, Model.pokes spc d (firstn j (Model.append_pokes (Model.last_end (Model.groups (Model.d_recs d))) (recs_new ++ [Model.zero_rec]))) = (dj, None) /\ firstn (N.to_nat (Model.last_end (Model.groups (Model.d_recs d)))) (Model.d_recs dj) = firstn (N.to_nat (Model.last_end (Model.groups (Model.d_recs d)))) (Model.d_recs d) /\ (exists extra : list Model.group, Model.groups (Model.d_recs dj) = Model.groups (Model.d_recs d) ++ extra) /\ (ProofsBase.kind_of (nth (N.to_nat (Model.last_end (Model.groups (Model.d_recs d)))) (Model.d_recs d) Model.zero_rec) = ProofsBase.KEnd -> Model.groups (Model.d_recs dj) = Model.groups (Model.d_recs d) /\ ProofsView.view (Model.d_recs dj) = ProofsView.view (Model.d_recs d))).
Proof. exact FatDir.ProofsAppend.setitem_pokes_back_to_front. Qed.
Print Assumptions C15_dir_append_back_to_front.

(* ---------------- crash points of the path operations at record level (FatCrash/: micro-step decomposition of FatVol.step) ---------------- *)
From Coq Require Import ZArith.
From NV Require Import Lib.Res.
From NV Require FatAlloc.Model FatVol.Model FatVol.Spec FatVol.ProofsInv FatVol.Proofs FatCrash.Model FatCrash.Clean FatCrash.Proofs FatCrash.ProofsAll.

(* every path operation is the list of its elementary stores IN THE ORDER THE CODE PERFORMS THEM (one FAT entry, one directory slot, dot entries, one zeroed cluster, one size update); folding them gives exactly the proved operation of the volume model (FatVol.step), for every outcome *)
Theorem C15_micro_steps_refine_operation :
  forall (upper : Model.name -> Model.name) (V : Model.vparams) (s : Model.vol) (o : Model.op), ProofsInv.VolInv upper V s -> Proofs.op_guard upper s o -> fold_left (Model.apply_m upper) (Model.micro upper V s o) s = fst (Model.step upper V s o).
Proof. exact FatCrash.Proofs.micro_refines_step. Qed.
Print Assumptions C15_micro_steps_refine_operation.

(* AT EVERY PREFIX of those stores -- every crash point -- every entry that is not a target of the operation is found, by long name in any case and by alias, as the IDENTICAL entry; its chain is the same list of clusters, every FAT entry of the chain keeps its value, and none of its clusters has been re-linked, freed or zeroed *)
Theorem C15_bystanders_intact :
  forall (upper : Model.name -> Model.name) (V : Model.vparams), ProofsInv.params_wf V -> forall (s : Model.vol) (o : Model.op) (n : nat), ProofsInv.VolInv upper V s -> Proofs.op_guard upper s o -> let sn := Proofs.prefix_state upper V s o n in (forall (k : N) (key : Model.name) (e : Model.entry), Model.lookup upper key (Model.items_of s k) = Some e -> ~ ProofsOps.Tk upper s o k (Model.e_alias e) -> Model.lookup upper key (Model.items_of sn k) = Some e) /\ (forall (k : N) (e : Model.entry), In e (ProofsInv.lives_of s k) -> Model.is_dir e = false -> ~ ProofsOps.Tk upper s o k (Model.e_alias e) -> Model.chain_of V (Model.v_fat sn) (Model.e_clu e) = Model.chain_of V (Model.v_fat s) (Model.e_clu e) /\ (forall c : N, In c (Model.chain_of V (Model.v_fat s) (Model.e_clu e)) -> Model.get (Model.ftbl (Model.v_fat sn)) c = Model.get (Model.ftbl (Model.v_fat s)) c /\ ~ In c (Proofs.touched (firstn n (Model.micro upper V s o))))) /\ (forall k : N, ~ ProofsOps.Dset upper V s o k -> Model.d_dot (Model.get_dir sn k) = Model.d_dot (Model.get_dir s k) /\ (~ ProofsOps.DDset upper s o k -> Model.d_dotdot (Model.get_dir sn k) = Model.d_dotdot (Model.get_dir s k))).
Proof. exact FatCrash.Proofs.bystanders_intact. Qed.
Print Assumptions C15_bystanders_intact.

(* a path none of whose components selects a target resolves identically at every crash point *)
Theorem C15_bystander_paths_resolve :
  forall (upper : Model.name -> Model.name) (V : Model.vparams), ProofsInv.params_wf V -> forall (s : Model.vol) (o : Model.op) (n : nat) (p : list Model.name), ProofsInv.VolInv upper V s -> Proofs.op_guard upper s o -> Proofs.avoids upper s (ProofsOps.Tk upper s o) Model.RRoot p -> Model.resolve upper (Proofs.prefix_state upper V s o n) p = Model.resolve upper s p.
Proof. exact FatCrash.Proofs.bystander_paths_resolve. Qed.
Print Assumptions C15_bystander_paths_resolve.

(* what is in flux at a crash point belongs to the target: a FAT entry that differs was free, or belongs to the target s chain, or is the last cluster of the directory receiving the new entry; all other chains are unchanged, well-formed and pairwise disjoint *)
Theorem C15_prefix_inconsistent_only_in_target :
  forall (upper : Model.name -> Model.name) (V : Model.vparams), ProofsInv.params_wf V -> forall (s : Model.vol) (o : Model.op) (n : nat), ProofsInv.VolInv upper V s -> Proofs.op_guard upper s o -> let sn := Proofs.prefix_state upper V s o n in length (Model.ftbl (Model.v_fat sn)) = length (Model.ftbl (Model.v_fat s)) /\ (forall c : N, Model.get (Model.ftbl (Model.v_fat sn)) c <> Model.get (Model.ftbl (Model.v_fat s)) c -> Model.get (Model.ftbl (Model.v_fat s)) c = 0%N \/ In c (ProofsOps.tchain upper V s o) \/ In c (ProofsOps.growdir upper V s o)) /\ (forall c : N, In c (ProofsOps.growdir upper V s o) -> Model.get (Model.ftbl (Model.v_fat sn)) c <> 0%N) /\ (forall ow : N, In ow (ProofsInv.owners V s) -> Proofs.bystb upper V s o ow = true -> ProofsFat.chn V (Model.v_fat sn) ow = ProofsFat.chn V (Model.v_fat s) ow /\ ProofsBase.chain_wf (Model.PP V) (Model.vp_limit V) (Model.ftbl (Model.v_fat sn)) (ProofsFat.chn V (Model.v_fat s) ow)) /\ NoDup (flat_map (ProofsFat.chn V (Model.v_fat sn)) (filter (Proofs.bystb upper V s o) (ProofsInv.owners V s))) /\ (forall (k : N) (e : Model.entry), In e (ProofsInv.lives_of s k) -> Model.is_dir e = false -> ~ ProofsOps.Tk upper s o k (Model.e_alias e) -> In (Model.e_clu e) (filter (Proofs.bystb upper V s o) (ProofsInv.owners V s))).
Proof. exact FatCrash.Proofs.prefix_inv_weak. Qed.
Print Assumptions C15_prefix_inconsistent_only_in_target.

Theorem C15_directories_stay_readable :
  forall (upper : Model.name -> Model.name) (V : Model.vparams), ProofsInv.params_wf V -> forall (s : Model.vol) (o : Model.op) (n : nat) (d : N), ProofsInv.VolInv upper V s -> Proofs.op_guard upper s o -> ProofsInv.in_store s d -> ~ (exists p : list Model.name, o = Model.ORmdir p /\ ProofsOps.Dset upper V s o d) -> exists ext : list N, ProofsFat.chn V (Model.v_fat (Proofs.prefix_state upper V s o n)) (Model.dir_start V d) = ProofsFat.chn V (Model.v_fat s) (Model.dir_start V d) ++ ext.
Proof. exact FatCrash.Proofs.dir_chains_readable. Qed.
Print Assumptions C15_directories_stay_readable.

(* with the in-place compaction of a full directory spelled out record by record: every prefix state is a prefix state as above, or one with ONE directory in a compaction view in which every entry stays listed with its alias, attributes, size and first cluster (possibly twice, possibly under its 8.3 name only) *)
Theorem C15_bystanders_during_compaction :
  forall (upper : Model.name -> Model.name) (V : Model.vparams), ProofsInv.params_wf V -> forall (s : Model.vol) (o : Model.op) (n : nat), ProofsInv.VolInv upper V s -> Proofs.op_guard upper s o -> let sx := ProofsAll.prefix_state_x upper V s o n in (exists k : nat, sx = Proofs.prefix_state upper V s o k) \/ (exists (k : nat) (id : N) (v : list Model.item), let sp := Proofs.prefix_state upper V s o k in In v (Clean.clean_views (Model.items_of sp id)) /\ sx = Model.set_items sp id v /\ Model.v_fat sx = Model.v_fat sp /\ (forall d : N, d <> id -> Model.items_of sx d = Model.items_of sp d) /\ (forall e : Model.entry, In e (ProofsInv.lives_of sp id) -> ProofsClean.shown e (Model.items_of sx id)) /\ (forall x : Model.entry, In (Model.Live x) (Model.items_of sx id) -> exists e : Model.entry, In e (ProofsInv.lives_of sp id) /\ (x = e \/ x = Clean.short' e)) /\ (forall e : Model.entry, In e (ProofsInv.lives_of s id) -> ~ ProofsOps.Tk upper s o id (Model.e_alias e) -> exists x : Model.entry, In (Model.Live x) (Model.items_of sx id) /\ Model.e_alias x = Model.e_alias e /\ Model.e_attr x = Model.e_attr e /\ Model.e_size x = Model.e_size e /\ Model.e_clu x = Model.e_clu e)).
Proof. exact FatCrash.ProofsAll.bystanders_intact_x. Qed.
Print Assumptions C15_bystanders_during_compaction.
