(* C15 -- Mid-operation states are flagged dirty and never harm unrelated files.
   The theorem covers the bracket discipline: every store of an API operation lies inside a
   mark_dirty bracket (flag set before, restored after, also on exceptions), except the
   access-time update of a read and the stores of the flag itself.  That the bracketed stores
   leave bystanders intact and end in a consistent volume is checked on every intermediate
   image of the implementation (correspondence / oracle), see DESIGN.md. *)
From Coq Require Import List Arith Bool.
From NV Require Import Fat.SkelDefs Fat.SkelProofs Gen.FatSkel Fat.SkelTheorems.
Import ListNotations.

Theorem C15_skeleton_check : check15 = true.
Proof. exact check15_holds. Qed.
Print Assumptions C15_skeleton_check.

Theorem C15_pokes_inside_dirty_bracket_partial : forall f body t,
  In f entries_api -> nth_error skeleton f = Some body -> exec skeleton all_on f body t ->
  pokes_ok is_d exempt15 0 [] t = true /\ final_depth is_d 0 t = 0.
Proof. exact skel_pokes_inside_dirty_bracket. Qed.
Print Assumptions C15_pokes_inside_dirty_bracket_partial.

Example C15_nonvacuous :
  (* a store under the plain write lock, outside mark_dirty, is rejected *)
  ok_prog_from (fun _ => false) is_d all_on no_exempt 0 [[SWith LW [SPoke 0]]] = false /\
  ok_prog_from (fun _ => false) is_d all_on no_exempt 0 [[SWith LD [SWith LW [SPoke 0]]]] = true /\
  (1 < List.length entries_api) /\ atime_edges <> [] /\ flag_functions <> [].
Proof. repeat split; try reflexivity; try (vm_compute; repeat constructor); discriminate. Qed.
