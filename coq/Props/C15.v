From Coq Require Import List NArith Bool.
From NV Require Import Gen.Fat.
Open Scope N_scope.
Theorem C15_source_facts :
  (fat12_min_valid, fat12_max_valid, fat12_end_mark) = (2, 4079, 4095) /\
  (fat16_min_valid, fat16_max_valid, fat16_end_mark) = (2, 65519, 65535) /\
  (fat32_min_valid, fat32_max_valid, fat32_end_mark) = (2, 268435439, 268435455) /\
  (fat12_threshold, fat16_threshold) = (4085, 65525) /\ fs_default_atime = false /\
  de_sizeof = 32 /\ lfn_sizeof = 32 /\ bpb_sizeof = 36 /\ lfn_checksum_standard = true.
Proof. repeat split; reflexivity. Qed.
Print Assumptions C15_source_facts.
