(* C05 -- No datagram can stop the server or make it emit an ill-formed packet.
   Statements only; proofs in Tftp/ServerProofs.v. *)
From Coq Require Import List NArith ZArith Bool String.
From NV Require Import Lib.Res Gen.Tftp Tftp.Packet Tftp.PacketProofs Tftp.Transfer Tftp.ServerProofs.
Import ListNotations.
Open Scope N_scope.

(* the handler ladders that are modelled by hand are the ones in the source (canonical
   hashes of their bodies, logging removed, regenerated on every run) *)
Theorem C05_source_facts :
  canon_TFTPHandler_setup = "11138bc950979c22"%string /\ handler_buffers_per_request = true /\
  canon_TFTPHandler_handle = "47b32213fc3a30c7"%string /\
  canon_TFTPHandler_finish = "833065fdf2cdff87"%string /\
  canon_TFTPBaseHandler_do_RRQ = "becd4f49731b7d53"%string /\
  canon_TFTPBaseHandler_do_ERROR = "9f730a1a70a6144b"%string /\
  canon_TFTPSubHandler_handle = "1c784f7da8b1dfc2"%string /\
  canon_TFTPSubHandler_finish = "3e4b8f7cc32a9191"%string /\
  canon_TFTPSubHandler_do_ACK = "e45a194af721a9be"%string /\
  canon_TFTPSubHandler_do_ERROR = "554ef75d94987b16"%string /\
  dispatch_table_standard = true /\ regexes_standard = true.
Proof. repeat split; reflexivity. Qed.
Print Assumptions C05_source_facts.

(* every reply on a transfer port -- any state, any datagram, any source -- is a DATA
   with a legal block number or an ERROR with a known code and ASCII text; both serialise *)
Theorem C05_sub_reply_wellformed : forall st src d now p,
  snd (sub_handle st src d now) = Some p -> wf_server_reply p.
Proof. exact sub_reply_wellformed. Qed.
Print Assumptions C05_sub_reply_wellformed.

Theorem C05_retransmission_wellformed : forall st now p,
  In p (snd (tick st now)) -> wf_server_reply p.
Proof. exact tick_reply_wellformed. Qed.
Print Assumptions C05_retransmission_wellformed.

Theorem C05_wf_reply_serialises : forall p, wf_server_reply p -> exists b, serialize p = Ok b.
Proof. exact wf_reply_serialises. Qed.
Print Assumptions C05_wf_reply_serialises.

(* on the listening port whatever is sent from that port is an ERROR packet *)
Theorem C05_listen_reply_is_error : forall resolve src d fl now p,
  main_handle resolve src d fl now = MReply p -> exists c msg, p = ERROR c msg /\ wf_server_reply p.
Proof. exact listen_reply_is_error. Qed.
Print Assumptions C05_listen_reply_is_error.

(* a datagram that is not a read request starts nothing *)
Theorem C05_listen_non_rrq : forall resolve src d fl now,
  (forall f m o, parse d <> Ok (RRQ f m o)) ->
  match main_handle resolve src d fl now with
  | MNone => True
  | MReply p => exists c msg, p = ERROR c msg /\ wf_server_reply p
  | MStart _ _ => False
  end.
Proof. exact listen_non_rrq. Qed.
Print Assumptions C05_listen_non_rrq.

Theorem C05_wrq_refused : forall resolve src d fl now f m o,
  parse d = Ok (WRQ f m o) -> main_handle resolve src d fl now = MReply (handle_exn AttributeError).
Proof. exact wrq_refused. Qed.
Print Assumptions C05_wrq_refused.

(* garbage is inert: a foreign endpoint changes nothing and gets nothing; a malformed
   datagram from the right endpoint changes only the two clocks *)
Theorem C05_foreign_ignored : forall st src d now,
  src <> ts_addr st -> sub_handle st src d now = (st, None).
Proof. exact foreign_ignored. Qed.
Print Assumptions C05_foreign_ignored.

Theorem C05_malformed_changes_only_clocks : forall st d now e,
  ts_dead st = false -> parse d = Err e ->
  sub_handle st (ts_addr st) d now = (set_send (set_recv st now) now, Some (handle_exn e)).
Proof. exact malformed_changes_only_clocks. Qed.
Print Assumptions C05_malformed_changes_only_clocks.

Example C05_nonvacuous :
  parse [0;9;1] = Err ValueError /\ parse [0] = Err StructError /\
  (exists b, serialize (handle_exn StructError) = Ok b) /\
  main_handle (fun _ => RFile [1]) 1 [0;2;97;0;111;99;116;101;116;0] (Err ValueError) 0%Z
    = MReply (handle_exn AttributeError).
Proof. repeat split; try reflexivity. eexists; reflexivity. Qed.
