(* C14 -- All image mutations happen under the exclusive lock; locks always balance.
   Proved over the lock / mutation skeleton of fs.py and path.py that the translator regenerates
   from the source on every run (Gen/FatSkel.v); semantics and soundness in Fat/Skel*.v. *)
From Coq Require Import List Arith Bool.
From NV Require Import Fat.SkelDefs Fat.SkelProofs Fat.SpanProofs Gen.FatSkel Fat.SkelTheorems.
From NV Require Locks.Export.
Import ListNotations.

(* the executable check on the current source *)
Theorem C14_skeleton_check : check14 = true.
Proof. exact check14_holds. Qed.
Print Assumptions C14_skeleton_check.

(* For every public function of the two modules and EVERY execution of its body -- statements in
   any order, repeated any number of times, interrupted anywhere by return or exception, calls to
   any depth: each store into the image happens while the thread holds the write side (directly
   or through mark_dirty), and when the execution ends the thread holds neither side. *)
Theorem C14_pokes_under_write_and_balanced : forall f body t,
  In f entries_all -> nth_error skeleton f = Some body -> exec skeleton all_on f body t ->
  pokes_ok is_w no_exempt 0 [] t = true /\
  final_depth is_w 0 t = 0 /\ final_depth (fun l => negb (is_w l)) 0 t = 0.
Proof. exact skel_pokes_under_write. Qed.
Print Assumptions C14_pokes_under_write_and_balanced.

(* the soundness theorem itself, for any skeleton and any summary that the check accepts *)
Theorem C14_check_sound : forall prog env sel exempt need,
  (forall f body, nth_error prog f = Some body -> ok_fn need sel env exempt f body = true) ->
  forall f body t, nth_error prog f = Some body -> need f = false -> exec prog env f body t ->
  pokes_ok sel exempt 0 [] t = true.
Proof. exact entry_safe. Qed.
Print Assumptions C14_check_sound.

Theorem C14_locks_balanced : forall prog env sel fi items t,
  exec prog env fi items t -> final_depth sel 0 t = 0.
Proof. exact locks_balanced. Qed.
Print Assumptions C14_locks_balanced.

Example C14_nonvacuous :
  (* a store outside any with-block is rejected; the same store under lock.write is accepted *)
  ok_prog_from (fun _ => false) is_w all_on no_exempt 0 [[SPoke 0]] = false /\
  ok_prog_from (fun _ => false) is_w all_on no_exempt 0 [[SWith LW [SPoke 0]]] = true /\
  ok_prog_from (fun _ => false) is_w all_on no_exempt 0 [[SWith LR [SCall [1]]]; [SPoke 0]] = false /\
  exec [[SWith LW [SPoke 0]]] all_on 0 [SWith LW [SPoke 0]] [EAcq LW; EPoke 0; ERel LW] /\
  (1 < List.length entries_all).
Proof.
  repeat split; try reflexivity.
  - change [EAcq LW; EPoke 0; ERel LW] with ((EAcq LW :: [EPoke 0] ++ [ERel LW]) ++ []).
    eapply ex_pick; [left; reflexivity| |apply ex_stop].
    apply ex_with. change [EPoke 0] with ([EPoke 0] ++ []).
    eapply ex_pick; [left; reflexivity|apply ex_poke|apply ex_stop].
  - vm_compute. repeat constructor.
Qed.

(* Atomicity of the composite operations.  MUTATING: unlink, rename, mkdir, rmdir, touch, write_bytes / write_text,
   FatFile.write / truncate each are ONE outermost lock section opened with the WRITE side -- every lock event and
   every store of every execution (top level in program order; nested blocks in any order, any number of times, cut
   short anywhere; calls to any depth) lies inside a single with-block, with only lock-free and store-free code before
   and after.  READING (read_bytes / read_text / iterdir / glob / rglob / FatFile.readall, in the reading
   configuration: access times off, files opened for reading): ONE section opened with the read side in which the
   write side is never requested -- span_ok rejects an upgrade, because the lock implements it by letting go of the
   read side first.  Together with the exclusion theorems of the lock (C13) this is what makes concurrent operations
   equivalent to a serial order. *)
Theorem C14_composite_operations_single_section : forall f body t w,
  In f atomic_entries -> nth_error skeleton f = Some body -> exec_seq skeleton all_on f body t ->
  span_ok 0 0 w t = true.
Proof. exact skel_atomic_single_section. Qed.
Print Assumptions C14_composite_operations_single_section.

Theorem C14_reading_operations_single_section : forall f body t w,
  In f atomic_read_entries -> nth_error skeleton f = Some body -> exec_seq skeleton serve_env f body t ->
  span_ok 0 0 w t = true.
Proof. exact skel_atomic_read_single_section. Qed.
Print Assumptions C14_reading_operations_single_section.

Theorem C14_single_section_check_sound : forall prog env q nw,
  (forall f body, nth_error prog f = Some body -> quiet_fn q env f body = true) ->
  (forall f body, nth_error prog f = Some body -> nowrite_fn env nw f body = true) ->
  forall fi items t, exec_seq prog env fi items t ->
  forall seen w, one_span_items q env nw seen items = true -> span_ok (if seen then 2 else 0) 0 w t = true.
Proof. exact one_span_sound. Qed.
Print Assumptions C14_single_section_check_sound.

Example C14_single_section_nonvacuous :
  (* two sections in a row (pad, then write) are rejected; one section is accepted; checks under the read side
     followed by an upgrade for the change are rejected; so are the corresponding traces *)
  one_span_items (fun _ => false) all_on nw_none false [SWith LD [SPoke 0]; SWith LD [SPoke 0]] = false /\
  one_span_items (fun f => Nat.eqb f 7) all_on nw_none false [SCall [7]; SWith LD [SCall [3]; SPoke 0]; SCall [7]] = true /\
  one_span_items (fun _ => false) all_on nw_none false [SWith LR [SCall [3]; SWith LD [SPoke 0]]] = false /\
  one_span_items (fun _ => false) all_on (fun f => Nat.eqb f 3) false [SWith LR [SCall [3]; SWith LR [SYield]]] = true /\
  span_ok 0 0 false [EAcq LD; EPoke 0; ERel LD; EAcq LD; EPoke 0; ERel LD] = false /\
  span_ok 0 0 false [EAcq LR; EAcq LD; EPoke 0; ERel LD; ERel LR] = false /\
  span_ok 0 0 false [EEnter 0 7; EExit; EAcq LD; EAcq LW; EPoke 0; ERel LW; EPoke 1; ERel LD; EYield] = true /\
  (8 < List.length atomic_entries) /\ (5 < List.length atomic_read_entries).
Proof. repeat split; vm_compute; auto. Qed.

(* serial equivalence rests on the lock itself: while a thread holds the exclusive side no other thread holds either side, and nobody waits for ever
   (statements in Locks/Export.v; the lock model is the text of the current nobodd/locks.py: per-method digests regenerated on
   every run) *)
Theorem C14_lock_model_matches_source : NV.Locks.Export.model_matches_source_statement.
Proof. exact NV.Locks.Export.model_matches_source_holds. Qed.
Print Assumptions C14_lock_model_matches_source.

Theorem C14_lock_exclusion : NV.Locks.Export.exclusion_statement.
Proof. exact NV.Locks.Export.exclusion_holds. Qed.
Print Assumptions C14_lock_exclusion.

Theorem C14_lock_no_deadlock : NV.Locks.Export.no_deadlock_statement.
Proof. exact NV.Locks.Export.no_deadlock_holds. Qed.
Print Assumptions C14_lock_no_deadlock.
