(* C16 -- netascii coding is exact, chunk-independent and works on a real server.
   This file only restates the property theorems; proofs live in Netascii/Proofs.v. *)
From Coq Require Import List NArith Bool.
From NV Require Import Lib.Res Gen.Netascii Netascii.Model Netascii.Proofs.
Import ListNotations.
Open Scope N_scope.

(* encoding: LF -> CR LF, CR -> CR NUL, all else untouched; everything consumed *)
Theorem C16_encode_spec : forall m f s,
  all_ascii s = true -> encode m f s = Ok (flat_map enc1 s, length s).
Proof. exact encode_spec. Qed.
Print Assumptions C16_encode_spec.

(* decoding inverts encoding exactly (any error mode, final or not) *)
Theorem C16_decode_encode : forall m f b,
  all_ascii b = true -> decode m f (enc_bytes b) = Ok (b, length (enc_bytes b)).
Proof. exact decode_encode. Qed.
Print Assumptions C16_decode_encode.

Theorem C16_encode_decode_image : forall m f s,
  all_ascii s = true ->
  (do e <- encode m f s; do d <- decode m true (fst e); encode m f (fst d)) = encode m f s.
Proof. exact encode_decode_image. Qed.
Print Assumptions C16_encode_decode_image.

(* incremental decoding: any way of cutting the input into chunks gives the
   one-shot result (same text, or both fail) *)
Theorem C16_decode_chunk_independent : forall m chunks,
  res_sim (iterdecode m chunks) (text_of (decode m true (concat chunks))).
Proof. exact decode_chunk_independent. Qed.
Print Assumptions C16_decode_chunk_independent.

(* between calls at most one trailing CR is held back *)
Theorem C16_decoder_holds_back_only_cr : forall m buf input out buf',
  idec_step m buf input false = Ok (out, buf') ->
  buf' = [] \/ (buf' = [CR] /\ exists pre, buf ++ input = pre ++ [CR]).
Proof. exact decoder_holds_back_only_cr. Qed.
Print Assumptions C16_decoder_holds_back_only_cr.

Theorem C16_encode_chunk_independent : forall m chunks,
  forallb all_ascii chunks = true -> iterencode m chunks = Ok (enc_bytes (concat chunks)).
Proof. exact encode_chunk_independent. Qed.
Print Assumptions C16_encode_chunk_independent.

Theorem C16_streamwriter_chunk_independent : forall m chunks,
  forallb all_ascii chunks = true -> swriter_run m [] chunks = Ok (enc_bytes (concat chunks)).
Proof. exact streamwriter_chunk_independent. Qed.
Print Assumptions C16_streamwriter_chunk_independent.

(* malformed sequences under each error mode *)
Theorem C16_error_modes : forall final b,
  (if well_formed final b
   then (exists k, dec_loop Strict final b = Ok (fst (dec_sub [] final b), k)) /\
        (exists k, dec_loop OtherMode final b = Ok (fst (dec_sub [] final b), k))
   else dec_loop Strict final b = Err UnicodeError /\
        dec_loop OtherMode final b = Err ValueError) /\
  (exists k, dec_loop Ignore final b = Ok (fst (dec_sub [] final b), k)) /\
  (exists k, dec_loop Replace final b = Ok (fst (dec_sub [QM] final b), k)).
Proof. exact error_modes. Qed.
Print Assumptions C16_error_modes.

(* the transcoding stream: never more than asked, delivered ++ pending is
   invariant, failure only as UnicodeEncodeError on non-ASCII content *)
Theorem C16_transcoder_bounded_exact : forall ns st,
  match xreads ns st with
  | Ok (outs, st') =>
      Forall2 (fun out n => (length out <= n)%nat) outs ns /\
      concat outs ++ pending st' = pending st
  | Err e => e = UnicodeEncodeError /\ all_ascii (xsrc st) = false
  end.
Proof. exact transcoder_bounded_exact. Qed.
Print Assumptions C16_transcoder_bounded_exact.

Theorem C16_transcoder_zero_only_at_end : forall n st,
  match xreadinto n st with
  | Ok (out, st') =>
      (length out <= n)%nat /\ out ++ pending st' = pending st /\
      (out = [] -> (0 < n)%nat -> pending st' = [])
  | Err e => e = UnicodeEncodeError /\ all_ascii (xsrc st) = false
  end.
Proof. exact xreadinto_spec. Qed.
Print Assumptions C16_transcoder_zero_only_at_end.

Theorem C16_transcoder_ascii_total : forall ns content outs st',
  all_ascii content = true ->
  xreads ns {| xsrc := content; xbuf := [] |} = Ok (outs, st') ->
  concat outs ++ pending st' = enc_bytes content.
Proof. exact transcoder_ascii_total. Qed.
Print Assumptions C16_transcoder_ascii_total.

(* the codec is reachable from a server that imported only its entry point,
   is wired to the functions modelled above, and the server builds the
   transcoder as modelled (facts regenerated from the source on every run) *)
Theorem C16_netascii_served_by_fresh_server :
  tftpd_imports_netascii = true /\ server_imports_netascii = true /\
  codec_registered = true /\ codec_wiring_standard = true /\
  stateless_final = true /\ transcoder_args_standard = true /\ linesep_is_lf = true.
Proof. repeat split; reflexivity. Qed.
Print Assumptions C16_netascii_served_by_fresh_server.

(* non-vacuity *)
Example C16_nonvacuous :
  encode Strict true [97; 10; 13; 98] = Ok ([97; 13; 10; 13; 0; 98], 4%nat) /\
  iterdecode Strict [[97; 13]; [10; 13]; [0]] = Ok [97; 10; 13] /\
  well_formed true [13; 97] = false /\
  (exists o st, xreads [2; 3; 8]%nat {| xsrc := [10; 98; 13]; xbuf := [] |} = Ok (o, st)
                /\ concat o = [13; 10; 98; 13; 0]).
Proof. repeat split; try reflexivity. eexists; eexists; split; reflexivity. Qed.
