(* C01 -- Octet transfers deliver exactly the file under any network behaviour.
   Statements only; proofs in Tftp/TransferProofs.v and Tftp/NegotiateProofs.v. *)
From Coq Require Import List NArith ZArith Bool.
From NV Require Import Lib.Res Gen.Tftp Tftp.Packet Tftp.Transfer Tftp.TransferProofs Tftp.NegotiateProofs.
Import ListNotations.
Open Scope N_scope.

(* decision points regenerated from tftpd.py / tftp.py on every run *)
Theorem C01_source_facts :
  (forall s bs, gen_finished_cmp s bs = (s <? bs)) /\
  (forall r n, gen_next_block_cmp r n = (r + 1 =? n)) /\
  (forall n r, gen_already_acked_cmp n r = (n <=? r)) /\
  (data_block_min, data_block_max) = (1, 65535) /\
  tftp_def_blksize = 512 /\ client_open_mode_rb = true /\ client_state_defaults_standard = true.
Proof. repeat split; reflexivity. Qed.
Print Assumptions C01_source_facts.

(* For every file F, every block size B >= 1, every reachable transfer state and
   EVERY schedule (any list of datagrams from any endpoints and timer ticks, so loss,
   duplication, delay and reordering of client packets, ACKs for past / current /
   future blocks, garbage, foreign packets): every packet the transfer emits -- reply
   or retransmission -- that is a DATA k carries exactly bytes [(k-1)B, kB) of F with
   1 <= k <= 65535, and the invariant is kept. *)
Theorem C01_data_sound : forall (F : bytes) (B : N), 1 <= B -> forall evs st,
  Inv F B st ->
  (forall p, In p (fst (run st evs)) -> sound F B p) /\ Inv F B (snd (run st evs)).
Proof. exact data_sound. Qed.
Print Assumptions C01_data_sound.

(* an accepted octet request starts in such a state, whatever options it carried *)
Theorem C01_accepted_request_inv : forall resolve addr f m o fl now content st p,
  resolve f = RFile content -> list_eqb_N m tftp_netascii_name = false ->
  do_RRQ resolve addr f m o fl now = Started st p ->
  1 <= ts_block_size st /\ Inv content (ts_block_size st) st /\ sound content (ts_block_size st) p.
Proof. exact accepted_request_inv. Qed.
Print Assumptions C01_accepted_request_inv.

(* only the last block is short (empty when the length is a multiple of B) *)
Theorem C01_short_only_last : forall (F : bytes) (B : N), 1 <= B -> forall k d,
  sound F B (DATA k d) -> (length d < Bn B)%nat ->
  ((N.to_nat k - 1) * Bn B + length d = length F)%nat.
Proof. exact short_only_last. Qed.
Print Assumptions C01_short_only_last.

(* an RFC 1350 client fed ANY sequence of datagrams, each either a sound packet of
   this transfer (any subsequence, order, repetition) or anything at all from another
   TID: its buffer is always the prefix it has acknowledged, and equals F when it finishes *)
Theorem C01_client_reconstructs : forall (F : bytes) (B : N), 1 <= B -> forall tid ds,
  (forall from p, In (from, p) ds -> from = tid -> sound F B p) ->
  let c := client_run B tid client_init ds in
  c_buf c = firstn ((N.to_nat (c_expect c) - 1) * Bn B) F /\ (c_finished c = true -> c_buf c = F).
Proof. exact client_reconstructs. Qed.
Print Assumptions C01_client_reconstructs.

(* a file that does not fit in 65535 blocks is never delivered wrapped or truncated ... *)
Theorem C01_no_wrap : forall (F : bytes) (B : N), 1 <= B -> forall tid ds,
  65535 * B <= N.of_nat (length F) ->
  (forall from p, In (from, p) ds -> from = tid -> sound F B p) ->
  c_finished (client_run B tid client_init ds) = false /\
  c_expect (client_run B tid client_init ds) <= 65536.
Proof. exact no_wrap. Qed.
Print Assumptions C01_no_wrap.

(* ... and the acknowledgement of block 65535 is answered by an ERROR, ending the transfer *)
Theorem C01_no_wrap_error : forall st d st2,
  get_block 65536 (ack 65535 st) = Ok (d, st2) ->
  do_ACK 65535 st = (set_done st2, Some (handle_exn ValueError)).
Proof. exact no_wrap_error. Qed.
Print Assumptions C01_no_wrap_error.

Example C01_nonvacuous :
  let F := [1;2;3;4;5;6;7;8;9;10] in
  let st0 := new_state 7 F tftp_binary_name 0%Z in
  exists st p, do_RRQ (fun _ => RFile F) 7 [102] tftp_binary_name [(tftp_blksize_name, OStr [56])] (Err ValueError) 0%Z = Started st p
    /\ ts_block_size st = 8
    /\ fst (run st [EvPacket 7 [0;4;0;0] 5%Z; EvPacket 9 [0;4;0;1] 6%Z; EvPacket 7 [0;4;0;1] 7%Z]) =
       [DATA 1 [1;2;3;4;5;6;7;8]; DATA 2 [9;10]].
Proof. cbn zeta. eexists. eexists. split; [reflexivity|]. split; reflexivity. Qed.
