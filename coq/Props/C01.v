(* C01 -- Octet transfers deliver exactly the file under any network behaviour.
   Statements only; proofs in Tftp/TransferProofs.v, Tftp/NegotiateProofs.v and Tftp/LivenessProofs.v
   (closed loop server + RFC client + lossy network defined in Tftp/Liveness.v). *)
From Coq Require Import List NArith ZArith Bool.
From NV Require Import Lib.Res Gen.Tftp Tftp.Packet Tftp.Transfer Tftp.TransferProofs Tftp.NegotiateProofs Tftp.Liveness Tftp.LivenessProofs.
Import ListNotations.
Open Scope N_scope.

(* decision points regenerated from tftpd.py / tftp.py on every run *)
Theorem C01_source_facts :
  (forall s bs, gen_finished_cmp s bs = (s <? bs)) /\
  (forall r n, gen_next_block_cmp r n = (r + 1 =? n)) /\
  (forall n r, gen_already_acked_cmp n r = (n <=? r)) /\
  (data_block_min, data_block_max) = (1, 65535) /\
  tftp_def_blksize = 512 /\ client_open_mode_rb = true /\ client_state_defaults_standard = true.
Proof. repeat split; reflexivity. Qed.
Print Assumptions C01_source_facts.

(* For every file F, every block size B >= 1, every reachable transfer state and
   EVERY schedule (any list of datagrams from any endpoints and timer ticks, so loss,
   duplication, delay and reordering of client packets, ACKs for past / current /
   future blocks, garbage, foreign packets): every packet the transfer emits -- reply
   or retransmission -- that is a DATA k carries exactly bytes [(k-1)B, kB) of F with
   1 <= k <= 65535, and the invariant is kept. *)
Theorem C01_data_sound : forall (F : bytes) (B : N), 1 <= B -> forall evs st,
  Inv F B st ->
  (forall p, In p (fst (run st evs)) -> sound F B p) /\ Inv F B (snd (run st evs)).
Proof. exact data_sound. Qed.
Print Assumptions C01_data_sound.

(* an accepted octet request starts in such a state, whatever options it carried *)
Theorem C01_accepted_request_inv : forall resolve addr f m o fl now content st p,
  resolve f = RFile content -> list_eqb_N m tftp_netascii_name = false ->
  do_RRQ resolve addr f m o fl now = Started st p ->
  1 <= ts_block_size st /\ Inv content (ts_block_size st) st /\ sound content (ts_block_size st) p.
Proof. exact accepted_request_inv. Qed.
Print Assumptions C01_accepted_request_inv.

(* only the last block is short (empty when the length is a multiple of B) *)
Theorem C01_short_only_last : forall (F : bytes) (B : N), 1 <= B -> forall k d,
  sound F B (DATA k d) -> (length d < Bn B)%nat ->
  ((N.to_nat k - 1) * Bn B + length d = length F)%nat.
Proof. exact short_only_last. Qed.
Print Assumptions C01_short_only_last.

(* an RFC 1350 client fed ANY sequence of datagrams, each either a sound packet of
   this transfer (any subsequence, order, repetition) or anything at all from another
   TID: its buffer is always the prefix it has acknowledged, and equals F when it finishes *)
Theorem C01_client_reconstructs : forall (F : bytes) (B : N), 1 <= B -> forall tid ds,
  (forall from p, In (from, p) ds -> from = tid -> sound F B p) ->
  let c := client_run B tid client_init ds in
  c_buf c = firstn ((N.to_nat (c_expect c) - 1) * Bn B) F /\ (c_finished c = true -> c_buf c = F).
Proof. exact client_reconstructs. Qed.
Print Assumptions C01_client_reconstructs.

(* a file that does not fit in 65535 blocks is never delivered wrapped or truncated ... *)
Theorem C01_no_wrap : forall (F : bytes) (B : N), 1 <= B -> forall tid ds,
  65535 * B <= N.of_nat (length F) ->
  (forall from p, In (from, p) ds -> from = tid -> sound F B p) ->
  c_finished (client_run B tid client_init ds) = false /\
  c_expect (client_run B tid client_init ds) <= 65536.
Proof. exact no_wrap. Qed.
Print Assumptions C01_no_wrap.

(* ... and the acknowledgement of block 65535 is answered by an ERROR, ending the transfer *)
Theorem C01_no_wrap_error : forall st d st2,
  get_block 65536 (ack 65535 st) = Ok (d, st2) ->
  do_ACK 65535 st = (set_done st2, Some (handle_exn ValueError)).
Proof. exact no_wrap_error. Qed.
Print Assumptions C01_no_wrap_error.

Example C01_nonvacuous :
  let F := [1;2;3;4;5;6;7;8;9;10] in
  let st0 := new_state 7 F tftp_binary_name 0%Z in
  exists st p, do_RRQ (fun _ => RFile F) 7 [102] tftp_binary_name [(tftp_blksize_name, OStr [56])] (Err ValueError) 0%Z = Started st p
    /\ ts_block_size st = 8
    /\ fst (run st [EvPacket 7 [0;4;0;0] 5%Z; EvPacket 9 [0;4;0;1] 6%Z; EvPacket 7 [0;4;0;1] 7%Z]) =
       [DATA 1 [1;2;3;4;5;6;7;8]; DATA 2 [9;10]].
Proof. cbn zeta. eexists. eexists. split; [reflexivity|]. split; reflexivity. Qed.

(* ---------------- completion (closed loop: server model + RFC 1350 client + network events) ---------------- *)
(* an accepted request starts in a fresh state: DATA 1 cached and sent, or an OACK *)
Theorem C01_accepted_request_fresh :
  forall (resolve : str -> resolved) (addr : N) (f : str) (m : list N) (o : options) (fl : res Z) (now : Z) (content : bytes) (st : tstate) (p : packet), resolve f = RFile content -> list_eqb_N m tftp_netascii_name = false -> do_RRQ resolve addr f m o fl now = Started st p -> 1 <= ts_block_size st /\ fresh content (ts_block_size st) st p.
Proof. exact LivenessProofs.accepted_request_fresh. Qed.
Print Assumptions C01_accepted_request_fresh.

(* COMPLETION, loss-free lock step: the RFC client ends finished holding exactly F, the server done, having sent exactly blocks 1..|F|/B+1 (DATA-first and OACK-first starts) *)
Theorem C01_ideal_run_completes :
  forall (F : bytes) (B : N), 1 <= B -> N.of_nat (length F) < 65535 * B -> forall (tid : N) (st0 : tstate) (p0 : packet) (fuel : nat), fresh F B st0 p0 -> (length F / N.to_nat B + 2 <= fuel)%nat -> let '(c, st, log) := ideal B tid fuel st0 p0 in c_finished c = true /\ c_buf c = F /\ ts_done st = true /\ finished st = true /\ Inv F B st /\ log = match p0 with | DATA _ _ => [] | _ => [p0] end ++ data_seq F B 1 (length F / N.to_nat B + 1).
Proof. exact LivenessProofs.ideal_run_completes. Qed.
Print Assumptions C01_ideal_run_completes.

(* every schedule of deliver / duplicate / lose / reorder / timer events on both directions, with no hypothesis on retries: the client buffer is the acknowledged prefix, the server never skips or alters a block *)
Theorem C01_lossy_run_safe :
  forall (F : bytes) (B : N), 1 <= B -> N.of_nat (length F) < 65535 * B -> forall (tid : N) (st0 : tstate) (p0 : packet) (sch : list ev), fresh F B st0 p0 -> let s := lrun B tid (sys_init st0 p0) sch in c_buf (cl s) = firstn ((N.to_nat (c_expect (cl s)) - 1) * Bn B) F /\ (c_finished (cl s) = true -> c_buf (cl s) = F) /\ cl s = client_run B tid client_init (heard s) /\ (forall (k : N) (d : bytes), In (DATA k d) (sent s) <-> 1 <= k <= ts_blocks_read (sv s) /\ d = slice F B k) /\ (forall p : packet, In p (to_cl s) -> sound F B p) /\ c_expect (cl s) <= ts_blocks_read (sv s) + 1 /\ ts_blocks_read (sv s) <= c_expect (cl s).
Proof. exact LivenessProofs.lossy_run_safe. Qed.
Print Assumptions C01_lossy_run_safe.

(* COMPLETION under loss, duplication and reordering: if the server never reaches its give-up test and the schedule contains the needed number of effective deliveries, the client ends finished with exactly F *)
Theorem C01_lossy_run_completes :
  forall (F : bytes) (B : N), 1 <= B -> N.of_nat (length F) < 65535 * B -> forall (tid : N) (st0 : tstate) (p0 : packet) (sch : list ev), fresh F B st0 p0 -> never_abandoned B tid (sys_init st0 p0) sch -> (deliveries_needed F B p0 <= effective_count B tid (sys_init st0 p0) sch)%nat -> let s := lrun B tid (sys_init st0 p0) sch in c_finished (cl s) = true /\ c_buf (cl s) = F /\ cl s = client_run B tid client_init (heard s).
Proof. exact LivenessProofs.lossy_run_completes. Qed.
Print Assumptions C01_lossy_run_completes.

(* the give-up hypothesis follows from a condition on the clock alone *)
Theorem C01_never_silent_never_abandoned :
  forall (B tid : N) (sch : list ev) (s : sys), clock_ok (sv s) -> never_silent B tid s sch -> never_abandoned B tid s sch.
Proof. exact LivenessProofs.never_silent_never_abandoned. Qed.
Print Assumptions C01_never_silent_never_abandoned.

(* a lost packet is always recoverable by the retransmission timers *)
Theorem C01_recover_by_client_timer :
  forall (F : bytes) (B : N), 1 <= B -> N.of_nat (length F) < 65535 * B -> forall (tid : N) (s : sys) (now : Z), LInv F B tid s -> Alive s -> c_finished (cl s) = false -> cl_last s <> None -> let sch := if ts_blocks_read (sv s) =? c_expect (cl s) then [CliTimer; DeliverAck 0 now; DeliverData 0] else [CliTimer; DeliverAck 0 now] in never_abandoned B tid s sch /\ effective_count B tid s sch = 1%nat.
Proof. exact LivenessProofs.recover_by_client_timer. Qed.
Print Assumptions C01_recover_by_client_timer.

Theorem C01_recover_by_server_timer :
  forall (F : bytes) (B : N), 1 <= B -> N.of_nat (length F) < 65535 * B -> forall (tid : N) (s : sys) (now ls : Z), LInv F B tid s -> Alive s -> c_finished (cl s) = false -> ts_blocks_read (sv s) = c_expect (cl s) -> ts_last_send (sv s) = Some ls -> (ts_timeout (sv s) < now - ts_last_recv (sv s))%Z -> (ts_timeout (sv s) < now - ls)%Z -> (ls - ts_last_recv (sv s) <= ts_timeout (sv s) * 5)%Z -> never_abandoned B tid s [SrvTimer now; DeliverData 0] /\ effective_count B tid s [SrvTimer now; DeliverData 0] = 1%nat.
Proof. exact LivenessProofs.recover_by_server_timer. Qed.
Print Assumptions C01_recover_by_server_timer.
