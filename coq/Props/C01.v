From Coq Require Import List NArith ZArith Bool.
From NV Require Import Gen.Tftp.
Open Scope N_scope.
Theorem C01_source_facts :
  (forall s bs, gen_finished_cmp s bs = (s <? bs)) /\
  (forall r n, gen_next_block_cmp r n = (r + 1 =? n)) /\
  (forall n r, gen_already_acked_cmp n r = (n <=? r)) /\
  tftp_def_blksize = 512 /\ client_open_mode_rb = true /\ client_state_defaults_standard = true.
Proof. repeat split; reflexivity. Qed.
Print Assumptions C01_source_facts.
