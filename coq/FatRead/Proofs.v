(* C03 (read path): everything proved about the FatRead model, in one place.

   geometry_spec, geometry_short_spec, geometry_short_model, geometry_model_facts,
   open_model_ok, open_model_exn, cluster_offset_spec        (ProofsGeom.v)
   readinto_ok, raw_read_spec, readall_ok, read_loop_refines, read_refines,
   run_file_refines, run_preserves_file                      (ProofsRead.v)
   timestamp_spec, get_cluster_spec                          (ProofsTime.v)

   read_no_write: the read-path functions of Model.v (cluster_get, readinto, readall,
   read, read_full, seek, step, run) take the data area as an argument and return bytes,
   positions and a file state only; no data area occurs in their result types, so the
   model cannot express a read that modifies the image.  The statement is therefore a
   typing fact; what can be stated and is proved is run_preserves_file (the open file
   keeps its cluster map and size).  That the CODE writes nothing while reading (atime
   is off by default: Gen.Fat.fs_default_atime = false) is checked on the real code by
   the harness (image hash before/after). *)
From NV Require Export FatRead.Model FatRead.ProofsBase FatRead.ProofsGeom FatRead.ProofsRead FatRead.ProofsTime.
From Coq Require Import List NArith.
From NV Require Import Gen.Fat.

Lemma read_no_write_default_atime : fs_default_atime = false.
Proof. reflexivity. Qed.

(* the result types, for the record *)
Check (readinto : N -> list N -> N -> N -> fstate -> Res.res (list N * fstate)).
Check (step : N -> list N -> N -> op -> fstate -> oresult * fstate).
Check (run : N -> list N -> N -> list op -> fstate -> list oresult).
