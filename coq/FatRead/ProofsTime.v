(* C03: the fields tools.decode_timestamp hands to datetime are the bit slices of the
   on-disk date / time / centisecond fields; path.get_cluster joins the two halves. *)
From Coq Require Import List NArith Bool Lia.
From NV Require Import FatRead.Model.
Open Scope N_scope.

(* (x & (ones(w) << s)) >> s  =  bits [s, s+w) of x *)
Lemma bitfield x s w : N.shiftr (N.land x (N.shiftl (N.ones w) s)) s = (x / 2 ^ s) mod 2 ^ w.
Proof.
  rewrite N.shiftr_land, N.shiftr_shiftl_l by lia. rewrite N.sub_diag, N.shiftl_0_r.
  now rewrite N.land_ones, N.shiftr_div_pow2.
Qed.

Theorem timestamp_spec date time cs :
  decode_timestamp_fields date time cs =
  (1980 + (date / 2 ^ 9) mod 2 ^ 7,        (* year   = date[15:9] + 1980 *)
   (date / 2 ^ 5) mod 2 ^ 4,               (* month  = date[8:5] *)
   date mod 2 ^ 5,                         (* day    = date[4:0] *)
   (time / 2 ^ 11) mod 2 ^ 5,              (* hour   = time[15:11] *)
   (time / 2 ^ 5) mod 2 ^ 6,               (* minute = time[10:5] *)
   2 * (time mod 2 ^ 5) + cs * 10 / 1000,  (* second = 2 * time[4:0] + whole seconds of cs *)
   (cs * 10 mod 1000) * 1000).             (* microsecond *)
Proof.
  unfold decode_timestamp_fields.
  change 65024 with (N.shiftl (N.ones 7) 9). change 480 with (N.shiftl (N.ones 4) 5).
  change 63488 with (N.shiftl (N.ones 5) 11). change 2016 with (N.shiftl (N.ones 6) 5).
  change 31 with (N.ones 5).
  rewrite !bitfield, !N.land_ones. rewrite (N.mul_comm (time mod 2 ^ 5) 2). reflexivity.
Qed.

Lemma land_low_high lo hi : lo < 2 ^ 16 -> N.land lo (N.shiftl hi 16) = 0.
Proof.
  intros H. apply N.bits_inj. intros n. rewrite N.land_spec, N.bits_0.
  destruct (N.lt_ge_cases n 16) as [Hn|Hn].
  - rewrite (N.shiftl_spec_low hi 16 n Hn). apply andb_false_r.
  - rewrite <- (N.mod_small lo (2 ^ 16) H), (N.mod_pow2_bits_high lo 16 n Hn). reflexivity.
Qed.

Theorem get_cluster_spec lo hi :
  lo < 65536 ->
  get_cluster lo hi true = lo + 65536 * hi /\ get_cluster lo hi false = lo.
Proof.
  intros H. unfold get_cluster. split; [|apply N.lor_0_r].
  change 65536 with (2 ^ 16) in *.
  rewrite <- N.lxor_lor by (now apply land_low_high).
  rewrite <- N.add_nocarry_lxor by (now apply land_low_high).
  rewrite N.shiftl_mul_pow2. lia.
Qed.

Example timestamp_example :
  decode_timestamp_fields 22561 24576 100 = (2024, 1, 1, 12, 0, 1, 0) /\
  decode_timestamp_fields 65439 49021 199 = (2107, 12, 31, 23, 59, 59, 990000).
Proof. split; vm_compute; reflexivity. Qed.

Print Assumptions timestamp_spec.
Print Assumptions get_cluster_spec.
