(* C03, geometry: the header/offset arithmetic of fs.fat_type + FatFileSystem.__init__
   (FatRead.Model.geometry_model) computes what the specification reader
   Fat.Spec.geometry defines, and a data cluster is the image bytes the specification
   assigns to it. *)
From Coq Require Import List NArith ZArith Bool Lia Arith ZifyN ZifyNat ZifyBool.
From NV Require Import Lib.Res Gen.Fat Fat.Spec FatRead.Model FatRead.ProofsBase.
Import ListNotations.
Open Scope N_scope.

(* ------------------------------------------------ int.bit_count() == 1 *)
Lemma pos_bit_count_pos p : 1 <= pos_bit_count p.
Proof. induction p; cbn [pos_bit_count]; lia. Qed.

Lemma land_pred_xO q :
  N.land (Npos q~0) (Npos q~0 - 1) = N.double (N.land (Npos q) (Npos q - 1)).
Proof. destruct q; reflexivity. Qed.

Lemma land_pred_xI q : N.land (Npos q~1) (Npos q~1 - 1) = Npos q~0.
Proof.
  change (Npos q~1 - 1) with (Npos q~0).
  change (N.land (Npos q~1) (Npos q~0)) with (N.double (N.land (Npos q) (Npos q))).
  now rewrite N.land_diag.
Qed.

(* n.bit_count() == 1  <->  n != 0 and n & (n-1) == 0 *)
Lemma bit_count_pow2 n : (bit_count n =? 1) = is_pow2 n.
Proof.
  unfold is_pow2. destruct n as [|p]; [reflexivity|]. cbn [bit_count N.eqb negb andb].
  induction p as [q IH|q IH|].
  - rewrite land_pred_xI. cbn [pos_bit_count]. pose proof (pos_bit_count_pos q).
    destruct (1 + pos_bit_count q =? 1) eqn:E; [lia|reflexivity].
  - rewrite land_pred_xO. cbn [pos_bit_count]. rewrite IH.
    destruct (N.land (Npos q) (Npos q - 1)); reflexivity.
  - reflexivity.
Qed.

Lemma is_pow2_nonzero n : is_pow2 n = true -> n <> 0.
Proof. unfold is_pow2. intros H ->. discriminate. Qed.

(* ------------------------------------------------ Spec.geometry on the parsed header *)
Definition plain_total (r : rawhdr) : N := if r_tot16 r =? 0 then r_tot32 r else r_tot16 r.

Definition spec_by_count (r : rawhdr) (spf : N) : N :=
  let c := (plain_total r -
            (r_reserved r + r_nfats r * spf + (r_rootent r * 32 + (r_bps r - 1)) / r_bps r)) / r_spc r in
  if c <? fat12_threshold then 12 else if c <? fat16_threshold then 16 else 32.

Definition spec_choice (r : rawhdr) : option (N * bool) :=
  match type_by_string (r_fs1 r) with
  | Some b => Some (b, false)
  | None =>
    if (r_sig1 r =? 40) || (r_sig1 r =? 41) then Some (spec_by_count r (r_spf16 r), false)
    else match type_by_string (r_fs2 r) with
         | Some b => Some (b, true)
         | None => if (r_sig2 r =? 40) || (r_sig2 r =? 41)
                   then Some (spec_by_count r (r_spf32 r), true) else None
         end
  end.

Definition spec_tail (r : rawhdr) (len : N) (c : N * bool) : res geom :=
  match c with
  | (bits, has32) =>
    let bps := r_bps r in let spc := r_spc r in
    let rootent := r_rootent r in let nfats := r_nfats r in let total := plain_total r in
    let spf := if has32 then r_spf32 r else r_spf16 r in
    let fat_size := spf * bps in
    let root_size := rootent * 32 in
    if fat_size =? 0 then Err ValueError
    else if negb (root_size mod bps =? 0) then Err ValueError
    else if (bits =? 32) && negb has32 then Err ValueError
    else if (bits =? 32) && negb (rootent =? 0) then Err ValueError
    else if negb (bits =? 32) && (rootent =? 0) then Err ValueError
    else
      let fat_off := r_reserved r * bps in
      let root_off := fat_off + fat_size * nfats in
      let data_off := root_off + root_size in
      let endo := N.min (total * bps) len in
      let cs := bps * spc in
      let info := if has32 then r_info32 r else 0 in
      Ok {| g_bits := bits; g_bps := bps; g_spc := spc; g_cs := cs;
            g_fat_off := fat_off; g_fat_size := fat_size; g_nfats := nfats;
            g_root_off := root_off; g_root_size := root_size;
            g_root_cluster := if has32 then r_root32 r else 0;
            g_data_off := data_off; g_count := (endo - data_off) / cs;
            g_info_off := if has32 && negb (info =? 0) && negb (info =? 65535) then Some (info * bps) else None;
            g_total := total |}
  end.

Definition bad_sizes (r : rawhdr) : bool :=
  negb (is_pow2 (r_bps r)) || (r_bps r <? 32) || negb (is_pow2 (r_spc r)).

Definition spec_of (r : rawhdr) (len : N) : res geom :=
  if len <? 90 then Err ValueError else
  if bad_sizes r then Err ValueError else
  match spec_choice r with
  | None => Err ValueError
  | Some c => spec_tail r len c
  end.

(* the specification reader is this function of the parsed header and the length *)
Lemma spec_of_eq img : geometry img = spec_of (parse img) (lenN img).
Proof. rewrite lenN_length. reflexivity. Qed.

(* ------------------------------------------------ the type decision *)
Lemma beq_eq a b : beq a b = true -> a = b.
Proof.
  revert b; induction a as [|x a IH]; intros [|y b] H; cbn [beq] in H; try discriminate; [reflexivity|].
  apply andb_true_iff in H. destruct H as [H1 H2]. apply N.eqb_eq in H1. subst y. f_equal. now apply IH.
Qed.

Lemma fat_types_spec s :
  match fat_types s with
  | Some (Some t) => type_by_string s = Some (ftype_bits t)
  | _ => type_by_string s = None
  end.
Proof.
  unfold fat_types, type_by_string.
  destruct (beq s s_FAT) eqn:E0.
  - apply beq_eq in E0. subst s. reflexivity.
  - destruct (beq s s_FAT12); [reflexivity|]. destruct (beq s s_FAT16); [reflexivity|].
    destruct (beq s s_FAT32); reflexivity.
Qed.

(* the 8-byte total (file-system field read as '<Q' when both totals are 0 and the boot
   signature is 0x29) is not in force at either candidate EBPB position *)
Definition q_total_unused (r : rawhdr) : Prop :=
  total_sectors r (r_sig1 r) (r_fs1 r) = plain_total r /\
  total_sectors r (r_sig2 r) (r_fs2 r) = plain_total r.

Lemma from_count_spec r sig fs has32 :
  r_spc r <> 0 -> total_sectors r sig fs = plain_total r ->
  ftype_bits (fat_type_from_count r sig fs has32) = spec_by_count r (sectors_per_fat r has32).
Proof.
  intros Hspc Ht. unfold fat_type_from_count, spec_by_count. rewrite Ht. cbv zeta.
  change de_sizeof with 32.
  set (total := plain_total r).
  set (d := r_reserved r + r_nfats r * sectors_per_fat r has32 + (r_rootent r * 32 + (r_bps r - 1)) / r_bps r).
  assert (Hc : forall thr, 0 < thr ->
            ((Z.of_N total - Z.of_N d) / Z.of_N (r_spc r) <? Z.of_N thr)%Z = ((total - d) / r_spc r <? thr)).
  { intros thr Hthr. destruct (N.le_gt_cases d total) as [Hle|Hgt].
    - rewrite <- N2Z.inj_sub by exact Hle. rewrite <- N2Z.inj_div.
      generalize ((total - d) / r_spc r). intros c. lia.
    - replace (total - d) with 0 by lia. rewrite N.div_0_l by exact Hspc.
      assert (Hneg : ((Z.of_N total - Z.of_N d) / Z.of_N (r_spc r) < 0)%Z).
      { apply Z.div_lt_upper_bound; lia. }
      lia. }
  rewrite !Hc by (unfold fat12_threshold, fat16_threshold; lia).
  destruct ((total - d) / r_spc r <? fat12_threshold); [reflexivity|].
  destruct ((total - d) / r_spc r <? fat16_threshold); reflexivity.
Qed.

Lemma fat_type_agree r len :
  90 <= len -> q_total_unused r ->
  if bad_sizes r then fat_type r len = Err ValueError
  else match spec_choice r with
       | None => fat_type r len = Err ValueError
       | Some (bits, has32) =>
         exists h, fat_type r len = Ok h /\ ftype_bits (h_type h) = bits /\ h_has32 h = has32 /\
                   total_sectors r (h_sig h) (h_fs h) = plain_total r
       end.
Proof.
  intros Hlen [Hq1 Hq2]. unfold fat_type, bad_sizes.
  unfold e1, e2, bpb_sizeof, f32_sizeof, ebpb_sizeof.
  replace (len <? 36) with false by lia. replace (len <? 36 + 26) with false by lia.
  replace (len <? 36 + 28) with false by lia. replace (len <? 36 + 28 + 26) with false by lia.
  rewrite !bit_count_pow2.
  destruct (r_bps r <? 32); [rewrite orb_true_r; reflexivity|].
  destruct (is_pow2 (r_bps r)); [|reflexivity].
  destruct (is_pow2 (r_spc r)) eqn:Espc; [|reflexivity].
  cbn [negb orb]. apply is_pow2_nonzero in Espc.
  unfold spec_choice, sig_ok.
  pose proof (fat_types_spec (r_fs1 r)) as F1. pose proof (fat_types_spec (r_fs2 r)) as F2.
  destruct (fat_types (r_fs1 r)) as [[t|]|]; rewrite F1.
  1:{ eexists. split; [reflexivity|]. cbn [h_type h_has32 h_sig h_fs]. auto. }
  all: destruct ((r_sig1 r =? 40) || (r_sig1 r =? 41)).
  1,3:( eexists; split; [reflexivity|]; cbn [h_type h_has32 h_sig h_fs];
        split; [now apply from_count_spec|auto] ).
  all: destruct (fat_types (r_fs2 r)) as [[t|]|]; rewrite F2.
  1,4:( eexists; split; [reflexivity|]; cbn [h_type h_has32 h_sig h_fs]; auto ).
  all: destruct ((r_sig2 r =? 40) || (r_sig2 r =? 41)); try reflexivity.
  all: eexists; split; [reflexivity|]; cbn [h_type h_has32 h_sig h_fs];
       split; [now apply from_count_spec|auto].
Qed.

(* ------------------------------------------------ agreement *)
Definition agree (m : geom_m) (g : geom) : Prop :=
  g_bits g = ftype_bits (m_type m) /\ g_bps g = m_bps m /\ g_cs g = m_cs m /\
  g_fat_off g = m_fat_off m /\ g_fat_size g = m_fat_size m /\ g_nfats g = m_nfats m /\
  g_root_off g = m_root_off m /\ g_root_size g = m_root_size m /\
  g_data_off g = m_data_off m /\ g_count g = m_count m /\
  g_info_off g = m_info_off m /\ g_total g = m_total m /\
  (m_type m = Fat32 -> g_root_cluster g = m_root_cluster m).

Definition same_verdict (a : res geom_m) (b : res geom) : Prop :=
  match a, b with
  | Ok m, Ok g => agree m g
  | Err ValueError, Err ValueError => True
  | _, _ => False
  end.

Lemma tail_agree r len h :
  fat_type r len = Ok h -> total_sectors r (h_sig h) (h_fs h) = plain_total r ->
  same_verdict (geometry_at r len) (spec_tail r len (ftype_bits (h_type h), h_has32 h)).
Proof.
  intros Hft Ht. unfold geometry_at, init_early. rewrite Hft. cbn [bind]. rewrite Ht.
  unfold spec_tail, sectors_per_fat. change de_sizeof with 32. cbv zeta.
  destruct ((if h_has32 h then r_spf32 r else r_spf16 r) * r_bps r =? 0); [exact I|].
  destruct (r_rootent r * 32 mod r_bps r =? 0); [|exact I].
  cbn [negb bind]. unfold init_late. cbn [m_type m_has32].
  destruct (h_type h), (h_has32 h), (r_rootent r =? 0); cbn [ftype_bits N.eqb Pos.eqb negb andb]; try exact I.
  all: unfold same_verdict, agree, m_count, m_data_len, clip_len;
       cbn [g_bits g_bps g_cs g_fat_off g_fat_size g_nfats g_root_off g_root_size g_data_off g_count g_info_off
            g_total g_root_cluster m_type m_bps m_cs m_fat_off m_fat_size m_nfats m_root_off m_root_size
            m_data_off m_end_off m_len m_info_off m_total m_root_cluster ftype_bits andb negb].
  all: repeat split; try reflexivity; try discriminate.
  all: destruct (r_info32 r =? 0), (r_info32 r =? 65535); reflexivity.
Qed.

Lemma agree_at r len : 90 <= len -> q_total_unused r -> same_verdict (geometry_at r len) (spec_of r len).
Proof.
  intros Hlen Hq. pose proof (fat_type_agree r len Hlen Hq) as H.
  unfold spec_of. replace (len <? 90) with false by lia.
  destruct (bad_sizes r).
  - unfold geometry_at, init_early. rewrite H. exact I.
  - destruct (spec_choice r) as [[bits has32]|].
    + destruct H as [h [Hft [<- [<- Ht]]]]. now apply tail_agree.
    + unfold geometry_at, init_early. rewrite H. exact I.
Qed.

(* MAIN: on every buffer of at least 90 bytes whose 16/32-bit total is in force, the
   code's header arithmetic and the specification reader either both reject with
   ValueError or both accept with the same type, FAT offset/size/count, root
   offset/size, data offset, cluster size, data-cluster count, info offset, total and
   (FAT32) root cluster. *)
Theorem geometry_spec img :
  90 <= lenN img -> q_total_unused (parse img) ->
  same_verdict (geometry_model img) (geometry img).
Proof. intros H1 H2. rewrite spec_of_eq. now apply agree_at. Qed.

(* Where the two differ by design.  (1) Fewer than 90 bytes: the specification rejects;
   the code needs 62 bytes when the first EBPB position settles the type, 90 otherwise,
   and fails with struct.error (not ValueError) below that. *)
Theorem geometry_short_spec img : lenN img < 90 -> geometry img = Err ValueError.
Proof.
  intros H. rewrite spec_of_eq. unfold spec_of. replace (lenN img <? 90) with true by lia. reflexivity.
Qed.
Theorem geometry_short_model img m :
  geometry_model img = Ok m -> 62 <= lenN img /\ (m_has32 m = true -> 90 <= lenN img).
Proof.
  unfold geometry_model, geometry_at, init_early, fat_type.
  unfold e1, e2, bpb_sizeof, f32_sizeof, ebpb_sizeof.
  set (len := lenN img). set (r := parse img).
  destruct (len <? 36) eqn:E1; [discriminate|].
  destruct (r_bps r <? 32); [discriminate|].
  destruct (negb _); [discriminate|]. destruct (negb _); [discriminate|].
  destruct (len <? 36 + 26) eqn:E2; [discriminate|].
  assert (H62 : 62 <= len) by lia.
  assert (Hlate : forall m0 m1, init_late r m0 = Ok m1 -> m1 = m0).
  { intros m0 m1. unfold init_late.
    destruct (m_type m0), (m_has32 m0), (r_rootent r =? 0); cbn [negb]; congruence. }
  assert (Hearly : forall h (x : res geom_m),
     (do m0 <- (let total := total_sectors r (h_sig h) (h_fs h) in
                let fat_size := sectors_per_fat r (h_has32 h) * r_bps r in
                if fat_size =? 0 then Err ValueError else
                let root_size := r_rootent r * de_sizeof in
                if negb (root_size mod r_bps r =? 0) then Err ValueError else
                Ok {| m_type := h_type h; m_has32 := h_has32 h; m_bps := r_bps r; m_cs := r_bps r * r_spc r;
                      m_total := total; m_fat_off := r_reserved r * r_bps r; m_fat_size := fat_size;
                      m_nfats := r_nfats r; m_root_off := r_reserved r * r_bps r + fat_size * r_nfats r;
                      m_root_size := root_size;
                      m_data_off := r_reserved r * r_bps r + fat_size * r_nfats r + root_size;
                      m_end_off := total * r_bps r;
                      m_root_cluster := match h_type h with Fat32 => r_root32 r | _ => 0 end;
                      m_info_off := if h_has32 h && negb ((r_info32 r =? 0) || (r_info32 r =? 65535))
                                    then Some (r_info32 r * r_bps r) else None;
                      m_len := len |}); init_late r m0) = Ok m -> m_has32 m = h_has32 h).
  { intros h _. cbv zeta. destruct (_ =? 0); [discriminate|]. destruct (negb _); [discriminate|].
    cbn [bind]. intros H. apply Hlate in H. subst m. reflexivity. }
  destruct (fat_types (r_fs1 r)) as [[t|]|].
  1:{ cbn [bind]. intros H. apply (Hearly _ (Err ValueError)) in H. cbn [h_has32] in H. split; [exact H62|congruence]. }
  all: destruct (sig_ok (r_sig1 r)).
  1,3:( cbn [bind]; intros H; apply (Hearly _ (Err ValueError)) in H; cbn [h_has32] in H; split; [exact H62|congruence] ).
  all: destruct (len <? 36 + 28) eqn:E3; [discriminate|];
       destruct (len <? 36 + 28 + 26) eqn:E4; [discriminate|]; intros _; split; [exact H62|intros _; lia].
Qed.

(* ------------------------------------------------ inversion of the model *)
Lemma init_late_inv r m0 m : init_late r m0 = Ok m -> m = m0.
Proof.
  unfold init_late. destruct (m_type m0), (m_has32 m0), (r_rootent r =? 0); cbn [negb]; congruence.
Qed.

Lemma fat_type_inv r len h : fat_type r len = Ok h -> 32 <= r_bps r /\ r_spc r <> 0.
Proof.
  unfold fat_type. destruct (len <? bpb_sizeof); [discriminate|].
  destruct (r_bps r <? 32) eqn:E; [discriminate|]. rewrite !bit_count_pow2.
  destruct (is_pow2 (r_bps r)); [|discriminate].
  destruct (is_pow2 (r_spc r)) eqn:E2; [|discriminate].
  intros _. split; [lia|now apply is_pow2_nonzero].
Qed.

Lemma init_early_inv r len m :
  init_early r len = Ok m ->
  m_len m = len /\ m_cs m = r_bps r * r_spc r /\ m_bps m = r_bps r /\ 32 <= r_bps r /\ r_spc r <> 0.
Proof.
  unfold init_early. destruct (fat_type r len) as [h|e] eqn:Hft; [|discriminate]. cbn [bind]. cbv zeta.
  destruct (_ =? 0); [discriminate|]. destruct (negb _); [discriminate|].
  intros H. injection H as <-. cbn [m_len m_cs m_bps].
  destruct (fat_type_inv r len h Hft). auto.
Qed.

Theorem geometry_model_facts img m :
  geometry_model img = Ok m -> m_len m = lenN img /\ 32 <= m_bps m /\ 0 < m_cs m.
Proof.
  unfold geometry_model, geometry_at.
  destruct (init_early (parse img) (lenN img)) as [m0|e] eqn:He; [|discriminate]. cbn [bind].
  intros H. apply init_late_inv in H. subst m0.
  destruct (init_early_inv _ _ _ He) as [H1 [H2 [H3 [H4 H5]]]].
  split; [exact H1|]. split; [lia|]. rewrite H2. lia.
Qed.

(* FatFileSystem(mem) succeeds exactly when the header arithmetic succeeds and neither
   the table constructors nor the dirty/damaged probe raise; a ValueError/struct.error
   of the constructor is one of the header arithmetic *)
Theorem open_model_ok img m :
  open_model img = OOk m <->
  geometry_model img = Ok m /\ table_hazard m = None /\ probe_hazard m = None.
Proof.
  unfold open_model, open_at, geometry_model, geometry_at.
  destruct (init_early (parse img) (lenN img)) as [m0|e]; cbn [bind].
  2:{ split; [discriminate|]. intros [H _]. discriminate. }
  split.
  - destruct (table_hazard m0) eqn:Et; [discriminate|].
    destruct (init_late (parse img) m0) as [m1|e] eqn:El; [|discriminate].
    pose proof (init_late_inv _ _ _ El). subst m1.
    destruct (probe_hazard m0) eqn:Ep; [discriminate|]. intros H. injection H as <-. auto.
  - intros [Hl [Ht Hp]]. pose proof (init_late_inv _ _ _ Hl). subst m0.
    rewrite Ht, Hl, Hp. reflexivity.
Qed.
Theorem open_model_exn img e : open_model img = OExn e -> geometry_model img = Err e.
Proof.
  unfold open_model, open_at, geometry_model, geometry_at.
  destruct (init_early (parse img) (lenN img)) as [m0|e0]; cbn [bind]; [|congruence].
  destruct (table_hazard m0); [discriminate|].
  destruct (init_late (parse img) m0) as [m1|e1]; [|congruence].
  destruct (probe_hazard m1); discriminate.
Qed.

(* ------------------------------------------------ data clusters *)
Lemma data_area_length m img :
  m_len m = lenN img -> lenN (data_area m img) = m_data_len m.
Proof.
  intros Hl. unfold data_area, m_data_len, clip_len. rewrite Hl, !lenN_length, pyslice_slice.
  rewrite firstn_length, skipn_length. lia.
Qed.

(* FatClusters[c] over mem[data_offset:end_offset] is the specification's cluster c,
   i.e. image bytes [data_off + (c-2)*cs, +cs), for 2 <= c < count + 2; any other
   index is rejected *)
Theorem cluster_offset_spec img m g c :
  geometry_model img = Ok m -> agree m g ->
  let data := data_area m img in
  let n := clusters_len (m_cs m) data in
  n = g_count g /\
  (2 <= c < g_count g + 2 ->
     cluster_get (m_cs m) data n c = Ok (cluster_bytes g img c) /\
     cluster_bytes g img c = slice (m_data_off m + (c - 2) * m_cs m) (m_cs m) img /\
     length (cluster_bytes g img c) = N.to_nat (m_cs m)) /\
  (~ 2 <= c < g_count g + 2 -> cluster_get (m_cs m) data n c = Err IndexError).
Proof.
  intros Hm Ha. destruct (geometry_model_facts img m Hm) as [Hlen [_ Hcs]].
  destruct Ha as [_ [_ [Hgcs [_ [_ [_ [_ [_ [Hdo [Hcount _]]]]]]]]]].
  cbv zeta. unfold clusters_len. rewrite (data_area_length m img Hlen).
  fold (m_count m). rewrite <- Hcount.
  split; [reflexivity|]. split.
  - intros [H2 Hc]. unfold cluster_get. replace ((2 <=? c) && (c <? g_count g + 2)) with true by lia.
    assert (Hfit : (c - 2) * m_cs m + m_cs m <= m_data_len m).
    { rewrite Hcount in Hc. unfold m_count in Hc.
      assert (H3 : (c - 2 + 1) * m_cs m <= m_data_len m / m_cs m * m_cs m) by (apply N.mul_le_mono_r; lia).
      pose proof (N.mul_div_le (m_data_len m) (m_cs m) ltac:(lia)). lia. }
    assert (Heq : cluster_bytes g img c = slice (m_data_off m + (c - 2) * m_cs m) (m_cs m) img).
    { unfold cluster_bytes. now rewrite Hdo, Hgcs. }
    split; [|split; [exact Heq|]].
    + f_equal. rewrite pyslice_spec. unfold data_area. rewrite pyslice_spec, Heq.
      replace ((c - 2) * m_cs m + m_cs m - (c - 2) * m_cs m) with (m_cs m) by lia.
      apply slice_slice. unfold m_data_len, clip_len in Hfit. clear - Hfit Hcs.
      set (k := (c - 2) * m_cs m) in *. clearbody k. lia.
    + rewrite Heq. apply slice_full_length.
      unfold m_data_len, clip_len in Hfit. rewrite Hlen, lenN_length in Hfit. clear - Hfit Hcs.
      set (k := (c - 2) * m_cs m) in *. clearbody k. lia.
  - intros Hn. unfold cluster_get.
    destruct ((2 <=? c) && (c <? g_count g + 2)) eqn:E; [|reflexivity]. exfalso. apply Hn. lia.
Qed.

(* ------------------------------------------------------------- non-vacuity *)
Definition le_bytes (n : nat) (v : N) : list N := Struct.le_encode n v.
Definition ex_bpb (bps spc reserved nfats rootent tot16 spf16 tot32 : N) : list N :=
  [235; 60; 144] ++ [118; 101; 114; 105; 102; 32; 32; 32] ++ le_bytes 2 bps ++ [spc] ++ le_bytes 2 reserved ++ [nfats] ++
  le_bytes 2 rootent ++ le_bytes 2 tot16 ++ [248] ++ le_bytes 2 spf16 ++ le_bytes 2 32 ++ le_bytes 2 64 ++ le_bytes 4 0 ++ le_bytes 4 tot32.
Definition ex_ebpb (sig : N) (fs : list N) : list N :=
  [128; 0; sig] ++ [18; 52; 86; 120] ++ [78; 79; 32; 78; 65; 77; 69; 32; 32; 32; 32] ++ fs.
Definition ex_f32 (spf root info : N) : list N :=
  le_bytes 4 spf ++ le_bytes 2 0 ++ le_bytes 2 0 ++ le_bytes 4 root ++ le_bytes 2 info ++ le_bytes 2 6 ++ repeat 0 12%nat.
Definition spaces8 : list N := repeat 32 8%nat.

(* a complete 4096-byte FAT12 volume: 512-byte sectors, 1 reserved, 1 FAT sector,
   16 root entries, 8 sectors in all = 5 data clusters; type from the string *)
Definition ex_img12 : list N :=
  let h := ex_bpb 512 1 1 1 16 8 1 0 ++ ex_ebpb 41 s_FAT12 in h ++ repeat 0 (4096 - length h)%nat.
Example geometry_fat12 :
  exists m g, geometry_model ex_img12 = Ok m /\ geometry ex_img12 = Ok g /\ agree m g /\
              m_type m = Fat12 /\ m_fat_off m = 512 /\ m_root_off m = 1024 /\ m_data_off m = 1536 /\
              m_cs m = 512 /\ m_count m = 5 /\ open_model ex_img12 = OOk m /\
              cluster_get 512 (data_area m ex_img12) 5 6 = Ok (cluster_bytes g ex_img12 6) /\
              cluster_get 512 (data_area m ex_img12) 5 7 = Err IndexError.
Proof. eexists. eexists. split; [vm_compute; reflexivity|]. split; [vm_compute; reflexivity|].
  vm_compute. repeat split; reflexivity. Qed.

(* type from the cluster count alone (no type string; 32-byte sectors, 16 reserved,
   one FAT of 192 sectors, 2 root entries): 4084 clusters are FAT12, 4085 are FAT16 *)
Definition ex_hdr_count (n : N) : list N :=
  ex_bpb 32 1 16 1 2 (16 + 192 + 2 + n) 192 0 ++ ex_ebpb 41 spaces8 ++ repeat 0 40%nat.
Definition type_at (hdr : list N) (len : N) : option ftype :=
  match geometry_at (parse hdr) len with Ok m => Some (m_type m) | Err _ => None end.
Definition count_at (hdr : list N) (len : N) : option N :=
  match geometry_at (parse hdr) len with Ok m => Some (m_count m) | Err _ => None end.
Example geometry_boundary_4085 :
  type_at (ex_hdr_count 4084) ((210 + 4084) * 32) = Some Fat12 /\
  count_at (ex_hdr_count 4084) ((210 + 4084) * 32) = Some 4084 /\
  type_at (ex_hdr_count 4085) ((210 + 4085) * 32) = Some Fat16 /\
  count_at (ex_hdr_count 4085) ((210 + 4085) * 32) = Some 4085 /\
  same_verdict (geometry_at (parse (ex_hdr_count 4084)) ((210 + 4084) * 32))
               (spec_of (parse (ex_hdr_count 4084)) ((210 + 4084) * 32)) /\
  same_verdict (geometry_at (parse (ex_hdr_count 4085)) ((210 + 4085) * 32))
               (spec_of (parse (ex_hdr_count 4085)) ((210 + 4085) * 32)).
Proof. vm_compute. repeat split; try reflexivity; discriminate. Qed.

(* FAT32 layout (512-byte sectors, 32 reserved, two FATs of 512 sectors): with the type
   string, and by count: 65525 clusters are FAT32; 65524 would be FAT16, which a volume
   without fixed root directory cannot be: ValueError on both sides *)
Definition ex_hdr32 (n : N) (fs : list N) : list N :=
  ex_bpb 512 1 32 2 0 0 0 (32 + 1024 + n) ++ ex_f32 512 2 1 ++ ex_ebpb 41 fs ++ repeat 0 38%nat.
Example geometry_fat32 :
  type_at (ex_hdr32 100 s_FAT32) ((1056 + 100) * 512) = Some Fat32 /\
  type_at (ex_hdr32 65525 spaces8) ((1056 + 65525) * 512) = Some Fat32 /\
  count_at (ex_hdr32 65525 spaces8) ((1056 + 65525) * 512) = Some 65525 /\
  geometry_at (parse (ex_hdr32 65524 spaces8)) ((1056 + 65524) * 512) = Err ValueError /\
  spec_of (parse (ex_hdr32 65524 spaces8)) ((1056 + 65524) * 512) = Err ValueError /\
  (exists m, geometry_at (parse (ex_hdr32 100 s_FAT32)) ((1056 + 100) * 512) = Ok m /\
             m_info_off m = Some 512 /\ m_root_cluster m = 2 /\ m_data_off m = 540672 /\
             m_table_lens m = [262144; 262144]).
Proof. vm_compute. repeat split; try reflexivity. eexists. repeat split; reflexivity. Qed.

(* the hazards of the constructor that are not header ValueErrors: a FAT12 type string in
   a FAT32-layout header with an info sector (assert in Fat12Table), and a buffer cut
   inside the first FAT16 table entry (IndexError from the dirty-bit probe) *)
Example open_hazards :
  open_at (parse (ex_hdr32 100 s_FAT12)) ((1056 + 100) * 512) = OHazard HAssertInfo /\
  open_at (parse (ex_bpb 512 1 1 1 16 8 1 0 ++ ex_ebpb 41 s_FAT16 ++ repeat 0 40%nat)) 514 = OHazard HNoEntry1 /\
  open_at (parse (ex_bpb 512 1 1 1 16 8 1 0 ++ ex_ebpb 41 s_FAT16 ++ repeat 0 40%nat)) 517 = OHazard HCast.
Proof. vm_compute. repeat split; reflexivity. Qed.

Print Assumptions geometry_spec.
Print Assumptions geometry_short_spec.
Print Assumptions geometry_short_model.
Print Assumptions open_model_ok.
Print Assumptions cluster_offset_spec.
