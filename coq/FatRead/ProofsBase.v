(* List slicing facts shared by the FatRead proofs: the model's N-indexed python
   slices are firstn/skipn (= Fat.Spec.slice), slices of slices, and reading a piece
   out of a concatenation of equally long blocks. *)
From Coq Require Import List NArith ZArith Bool Lia Arith ZifyN ZifyNat ZifyBool.
From NV Require Import Lib.Res Gen.Fat Fat.Spec FatRead.Model.
From NV Require Lib.Struct Lib.StructProofs.
Import ListNotations.
Open Scope N_scope.
Ltac Zify.zify_post_hook ::= Z.div_mod_to_equations.

(* lia's div/mod hook introduces unrelated quotients for [a / b] and [a mod b] over N;
   this names both and states their relation once *)
Ltac divmod a b :=
  let q := fresh "q" in let r := fresh "r" in
  let H1 := fresh "Hdm" in let H2 := fresh "Hml" in
  assert (H1 : a = b * (a / b) + a mod b) by (apply N.div_mod; lia);
  assert (H2 : a mod b < b) by (apply N.mod_lt; lia);
  set (q := a / b) in *; set (r := a mod b) in *; clearbody q r.

Lemma lenN_acc {A} (l : list A) a :
  fold_left (fun a _ => N.succ a) l a = a + N.of_nat (length l).
Proof.
  revert a; induction l as [|x l IH]; intros a; cbn [fold_left length]; [lia|].
  rewrite IH. lia.
Qed.
Lemma lenN_length {A} (l : list A) : lenN l = N.of_nat (length l).
Proof. unfold lenN. rewrite lenN_acc. lia. Qed.

(* python slice = specification slice *)
Lemma pyslice_slice {A} a b (l : list A) :
  pyslice a b l = firstn (N.to_nat (b - a)) (skipn (N.to_nat a) l).
Proof. unfold pyslice. now rewrite StructProofs.takeN_firstn, StructProofs.dropN_skipn. Qed.
Lemma pyslice_spec a b (l : list N) : pyslice a b l = slice a (b - a) l.
Proof. apply pyslice_slice. Qed.

Lemma skipn_skipn' {A} a b (l : list A) : skipn b (skipn a l) = skipn (a + b) l.
Proof.
  revert l; induction a as [|a IH]; intros l; [reflexivity|].
  destruct l as [|x l]; [cbn; apply skipn_nil|]. cbn [skipn Nat.add]. apply IH.
Qed.

Lemma slice_length (off len : N) (l : list N) :
  length (slice off len l) = Nat.min (N.to_nat len) (length l - N.to_nat off).
Proof. unfold slice. now rewrite firstn_length, skipn_length. Qed.

Lemma slice_full_length (off len : N) (l : list N) :
  off + len <= N.of_nat (length l) -> length (slice off len l) = N.to_nat len.
Proof. intros H. rewrite slice_length. lia. Qed.

(* a slice of a slice *)
Lemma slice_slice (a w k n : N) (l : list N) :
  k + n <= w -> slice k n (slice a w l) = slice (a + k) n l.
Proof.
  intros H. unfold slice.
  rewrite skipn_firstn_comm, firstn_firstn, skipn_skipn'.
  replace (Nat.min (N.to_nat n) (N.to_nat w - N.to_nat k)) with (N.to_nat n) by lia.
  replace (N.to_nat a + N.to_nat k)%nat with (N.to_nat (a + k)) by lia. reflexivity.
Qed.

(* cutting the buffer first does not matter when the slice ends before the cut *)
Lemma slice_firstn (off len : N) (e : nat) (l : list N) :
  (N.to_nat off + N.to_nat len <= e)%nat -> slice off len (firstn e l) = slice off len l.
Proof.
  intros H. unfold slice. rewrite skipn_firstn_comm, firstn_firstn.
  replace (Nat.min (N.to_nat len) (e - N.to_nat off)) with (N.to_nat len) by lia. reflexivity.
Qed.

(* ---- blocks of uniform length ---- *)
Lemma concat_uniform_length {A} (w : nat) (bl : list (list A)) :
  Forall (fun b => length b = w) bl -> length (concat bl) = (length bl * w)%nat.
Proof.
  induction 1 as [|b bl Hb _ IH]; cbn [concat length]; [reflexivity|].
  rewrite app_length, IH, Hb. lia.
Qed.

Lemma Forall_firstn {A} (P : A -> Prop) n (l : list A) : Forall P l -> Forall P (firstn n l).
Proof.
  intros H. revert n. induction H as [|x l Hx _ IH]; intros [|n]; cbn [firstn]; auto.
Qed.

(* bytes [i*w + left, +m) of the concatenation lie in block i *)
Lemma concat_block_piece {A} (w : nat) (bl : list (list A)) i b left m :
  Forall (fun b => length b = w) bl -> nth_error bl i = Some b -> (left + m <= w)%nat ->
  firstn m (skipn (i * w + left) (concat bl)) = firstn m (skipn left b).
Proof.
  intros Hu Hn Hle.
  assert (Hb : length b = w).
  { rewrite Forall_forall in Hu. apply Hu. eapply nth_error_In; eauto. }
  assert (Hi : (i < length bl)%nat) by (apply nth_error_Some; congruence).
  rewrite (StructProofs.concat_split_nth bl i b Hn).
  assert (Hpre : length (concat (firstn i bl)) = (i * w)%nat).
  { rewrite (concat_uniform_length w) by (now apply Forall_firstn).
    rewrite firstn_length. lia. }
  rewrite skipn_app, Hpre.
  rewrite (skipn_all2 (concat (firstn i bl))) by lia. cbn [app].
  replace (i * w + left - i * w)%nat with left by lia.
  rewrite skipn_app, firstn_app, skipn_length, Hb.
  replace (m - (w - left))%nat with 0%nat by lia.
  rewrite firstn_O. apply app_nil_r.
Qed.
