(* C03, file reads: any sequence of seeks and raw reads on an open FatFile returns what
   the same sequence returns on the file content held in memory. *)
From Coq Require Import List NArith ZArith Bool Lia Arith ZifyN ZifyNat ZifyBool.
From NV Require Import Lib.Res Gen.Fat Fat.Spec FatRead.Model FatRead.ProofsBase.
Import ListNotations.
Open Scope N_scope.
Ltac Zify.zify_post_hook ::= Z.div_mod_to_equations.

Lemma firstn_then_firstn {A} a b (l : list A) :
  firstn a l ++ firstn b (skipn a l) = firstn (a + b) l.
Proof.
  revert l; induction a as [|a IH]; intros l; [reflexivity|].
  destruct l as [|x l]; [cbn; rewrite firstn_nil; reflexivity|].
  cbn [firstn skipn Nat.add app]. f_equal. apply IH.
Qed.
Lemma firstn_then_skipn {A} p m (l : list A) :
  firstn m (skipn p l) ++ skipn (p + m) l = skipn p l.
Proof. rewrite <- skipn_skipn'. apply firstn_skipn. Qed.

Lemma div_next cs pos : 0 < cs -> (pos + (cs - pos mod cs)) / cs = pos / cs + 1.
Proof.
  intros H. divmod pos cs. replace (pos + (cs - r)) with ((q + 1) * cs) by lia.
  apply N.div_mul. lia.
Qed.

Section Read.
Variable cs : N.
Variable data : list N.
Hypothesis cs_pos : 0 < cs.

Definition nclusters : N := clusters_len cs data.
(* the bytes of data cluster c *)
Definition cluster_ref (c : N) : list N := slice ((c - 2) * cs) cs data.
Definition in_range (c : N) : Prop := 2 <= c < nclusters + 2.

Lemma cluster_get_ok c : in_range c -> cluster_get cs data nclusters c = Ok (cluster_ref c).
Proof.
  intros [H1 H2]. unfold cluster_get.
  replace ((2 <=? c) && (c <? nclusters + 2)) with true by lia.
  rewrite pyslice_spec. unfold cluster_ref. do 2 f_equal. lia.
Qed.
Lemma cluster_get_err c : ~ in_range c -> cluster_get cs data nclusters c = Err IndexError.
Proof.
  intros H. unfold cluster_get.
  destruct ((2 <=? c) && (c <? nclusters + 2)) eqn:E; [|reflexivity]. exfalso. apply H. unfold in_range. lia.
Qed.
Lemma cluster_ref_length c : in_range c -> length (cluster_ref c) = N.to_nat cs.
Proof.
  intros [H1 H2]. unfold cluster_ref. apply slice_full_length.
  unfold nclusters, clusters_len in H2. rewrite lenN_length in H2.
  assert (H3 : (c - 2 + 1) * cs <= (N.of_nat (length data) / cs) * cs) by (apply N.mul_le_mono_r; lia).
  lia.
Qed.

(* a well-formed open file: clusters in range, chain long enough for the size *)
Definition wf_file (map : list N) (size : N) : Prop :=
  Forall in_range map /\ size <= cs * N.of_nat (length map).
Definition content (map : list N) (size : N) : list N :=
  firstn (N.to_nat size) (concat (List.map cluster_ref map)).

Lemma blocks_uniform map : Forall in_range map ->
  Forall (fun b => length b = N.to_nat cs) (List.map cluster_ref map).
Proof.
  intros H. rewrite Forall_forall in *. intros b Hb. apply in_map_iff in Hb.
  destruct Hb as [c [<- Hc]]. apply cluster_ref_length. auto.
Qed.

Lemma content_length map size : wf_file map size -> N.of_nat (length (content map size)) = size.
Proof.
  intros [Hr Hs]. unfold content. rewrite firstn_length.
  rewrite (concat_uniform_length (N.to_nat cs)) by (now apply blocks_uniform).
  rewrite map_length. lia.
Qed.

Definition mkfile (map : list N) (size pos : N) : fstate := {| f_map := map; f_size := size; f_pos := pos |}.

(* ---------------------------------------------------------------- readinto *)
Lemma readinto_len n size pos :
  let index := pos / cs in
  let left := pos - index * cs in
  let right := Z.min (Z.min (Z.of_N cs) (Z.of_N left + Z.of_N n)) (Z.of_N size - Z.of_N (index * cs)) in
  Z.max (right - Z.of_N left) 0 = Z.of_N (raw_len cs size pos n) /\
  left = pos mod cs /\
  (0 < raw_len cs size pos n -> Z.to_N right - left = raw_len cs size pos n).
Proof. cbv zeta. unfold raw_len. divmod pos cs. lia. Qed.

Theorem readinto_ok n map size pos :
  wf_file map size ->
  readinto cs data nclusters n (mkfile map size pos) =
  Ok (ref_bytes (content map size) pos (raw_len cs size pos n), mkfile map size (pos + raw_len cs size pos n)).
Proof.
  intros [Hr Hs]. unfold readinto. cbn [f_pos f_size f_map mkfile].
  destruct (readinto_len n size pos) as [Hread [Hleft Hright]]. cbv zeta in Hread, Hright.
  rewrite Hread. set (m := raw_len cs size pos n) in *.
  destruct (0 <? Z.of_N m)%Z eqn:Em.
  - assert (Hm : 0 < m) by lia.
    assert (Hps : pos + m <= size) by (unfold m, raw_len; lia).
    assert (Hlm : pos mod cs + m <= cs) by (unfold m, raw_len; pose proof (N.mod_lt pos cs); lia).
    assert (Hidx : pos / cs < N.of_nat (length map)).
    { destruct (N.lt_ge_cases (pos / cs) (N.of_nat (length map))) as [H|H]; [exact H|].
      apply (N.mul_le_mono_l _ _ cs) in H. lia. }
    destruct (nth_error map (N.to_nat (pos / cs))) as [c|] eqn:Ec.
    2:{ apply nth_error_None in Ec. lia. }
    assert (Hc : in_range c).
    { rewrite Forall_forall in Hr. apply Hr. eapply nth_error_In; eauto. }
    rewrite (cluster_get_ok c Hc). cbn [bind fst snd].
    unfold set_pos. cbn [f_pos f_size f_map]. rewrite N2Z.id. unfold mkfile. f_equal. f_equal.
    rewrite pyslice_spec, (Hright Hm), Hleft.
    unfold ref_bytes, content.
    change (firstn (N.to_nat m) (skipn (N.to_nat pos) (firstn (N.to_nat size) ?l)))
      with (slice pos m (firstn (N.to_nat size) l)).
    rewrite slice_firstn by lia. unfold slice.
    replace (N.to_nat pos) with (N.to_nat (pos / cs) * N.to_nat cs + N.to_nat (pos mod cs))%nat
      by (clear - cs_pos; divmod pos cs; lia).
    symmetry. apply concat_block_piece.
    + now apply blocks_uniform.
    + now apply map_nth_error.
    + lia.
  - assert (Hm : m = 0) by lia. rewrite Hm.
    unfold ref_bytes. cbn [N.to_nat firstn]. rewrite N.add_0_r. reflexivity.
Qed.

Lemma raw_len_props size pos n :
  let m := raw_len cs size pos n in
  m <= n /\ pos + m <= N.max pos size /\ (m = 0 <-> n = 0 \/ size <= pos) /\
  (pos + m < size -> m < n -> (pos + m) mod cs = 0 /\ (pos + m) / cs = pos / cs + 1).
Proof.
  cbv zeta. unfold raw_len. pose proof (N.mod_lt pos cs ltac:(lia)) as Hml.
  split; [lia|]. split; [lia|]. split; [lia|]. intros H1 H2. split.
  - replace (N.min (N.min (cs - pos mod cs) n) (size - pos)) with (cs - pos mod cs) by lia.
    clear H1 H2. divmod pos cs.
    replace (pos + (cs - r)) with ((q + 1) * cs) by lia. apply N.mod_mul. lia.
  - replace (N.min (N.min (cs - pos mod cs) n) (size - pos)) with (cs - pos mod cs) by lia.
    now apply div_next.
Qed.

(* the statement for RAW reads: a prefix of what remains, at most n bytes, empty only
   when nothing was asked for or nothing is left; the position advances by it *)
Theorem raw_read_spec n map size pos b st' :
  wf_file map size -> readinto cs data nclusters n (mkfile map size pos) = Ok (b, st') ->
  exists m, b = firstn (N.to_nat m) (skipn (N.to_nat pos) (content map size)) /\
            N.of_nat (length b) = m /\ m <= n /\ (m = 0 <-> n = 0 \/ size <= pos) /\
            st' = mkfile map size (pos + m).
Proof.
  intros Hwf H. rewrite (readinto_ok n map size pos Hwf) in H. injection H as <- <-.
  exists (raw_len cs size pos n).
  destruct (raw_len_props size pos n) as [H1 [H2 [H3 _]]]. cbv zeta in *.
  repeat split; try tauto.
  unfold ref_bytes. rewrite firstn_length, skipn_length.
  pose proof (content_length map size Hwf). lia.
Qed.

Lemma index_in_map map size p : wf_file map size -> p < size -> (N.to_nat (p / cs) < length map)%nat.
Proof.
  intros [_ Hs] Hp.
  destruct (N.lt_ge_cases (p / cs) (N.of_nat (length map))) as [H|H]; [lia|].
  apply (N.mul_le_mono_l _ _ cs) in H. divmod p cs. lia.
Qed.

(* ----------------------------------------------------------------- readall *)
Lemma readall_loop_ok map size : wf_file map size ->
  forall fuel pos,
  (pos < size -> (length map - N.to_nat (pos / cs) < fuel)%nat) ->
  readall_loop cs data nclusters fuel (mkfile map size pos) =
  (Ok (skipn (N.to_nat pos) (content map size)), mkfile map size (N.max pos size)).
Proof.
  intros Hwf. induction fuel as [|f IH]; intros pos Hfuel.
  - (* no fuel needed only when nothing is left *)
    assert (Hge : size <= pos) by (destruct (N.lt_ge_cases pos size) as [H|H]; [specialize (Hfuel H); lia|exact H]).
    cbn [readall_loop f_pos f_size mkfile]. replace (pos <? size) with false by lia.
    rewrite skipn_all2 by (pose proof (content_length map size Hwf); lia).
    unfold mkfile. do 2 f_equal. lia.
  - cbn [readall_loop f_pos f_size mkfile]. destruct (pos <? size) eqn:E.
    + assert (Hlt : pos < size) by lia. specialize (Hfuel Hlt).
      change {| f_map := map; f_size := size; f_pos := pos |} with (mkfile map size pos).
      rewrite (readinto_ok _ map size pos Hwf). cbn [fst snd].
      set (m := raw_len cs size pos (size - pos)).
      destruct (raw_len_props size pos (size - pos)) as [H1 [H2 [H3 H4]]]. fold m in H1, H2, H3, H4.
      rewrite IH.
      * cbn [fst snd]. unfold ref_bytes.
        replace (N.to_nat (pos + m)) with (N.to_nat pos + N.to_nat m)%nat by lia.
        rewrite firstn_then_skipn. unfold mkfile. do 2 f_equal. lia.
      * intros Hlt'. assert (Hm : m < size - pos) by (clear - Hlt'; lia).
        destruct (H4 Hlt' Hm) as [_ H5]. rewrite H5.
        pose proof (index_in_map map size pos Hwf Hlt) as Hi. clear - Hfuel Hi.
        generalize dependent (pos / cs). intros k Hk Hi. lia.
    + rewrite skipn_all2 by (pose proof (content_length map size Hwf); lia).
      unfold mkfile. do 2 f_equal. lia.
Qed.

Theorem readall_ok map size pos : wf_file map size ->
  readall cs data nclusters (mkfile map size pos) =
  (Ok (skipn (N.to_nat pos) (content map size)), mkfile map size (N.max pos size)).
Proof.
  intros Hwf. unfold readall. cbn [f_map mkfile]. apply readall_loop_ok; [exact Hwf|].
  intros _. generalize (N.to_nat (pos / cs)). intros k. lia.
Qed.

(* --------------------------------------------- repeated raw reads (buffered) *)
Lemma read_loop_ok map size : wf_file map size ->
  forall fuel n pos,
  (0 < n -> if pos <? size then (length map - N.to_nat (pos / cs) + 2 <= fuel)%nat else (1 <= fuel)%nat) ->
  read_loop cs data nclusters fuel n (mkfile map size pos) =
  Ok (firstn (N.to_nat n) (skipn (N.to_nat pos) (content map size)), mkfile map size (pos + N.min n (size - pos))).
Proof.
  intros Hwf. pose proof (content_length map size Hwf) as Hlen.
  assert (Hidx : forall p, p < size -> (N.to_nat (p / cs) < length map)%nat)
    by (intros p; now apply index_in_map).
  induction fuel as [|f IH]; intros n pos Hfuel.
  - assert (Hn : n = 0).
    { destruct (N.eq_0_gt_0_cases n) as [H|H]; [exact H|]. specialize (Hfuel H). destruct (pos <? size); lia. }
    subst n. cbn [read_loop N.eqb]. cbn [N.to_nat firstn]. unfold mkfile. do 3 f_equal. lia.
  - cbn [read_loop]. destruct (n =? 0) eqn:En.
    + assert (n = 0) by lia. subst n. cbn [N.to_nat firstn]. unfold mkfile. do 3 f_equal. lia.
    + assert (Hn : 0 < n) by lia. specialize (Hfuel Hn).
      rewrite (readinto_ok _ map size pos Hwf). cbn [bind fst snd].
      set (m := raw_len cs size pos n).
      destruct (raw_len_props size pos n) as [H1 [H2 [H3 H4]]]. fold m in H1, H2, H3, H4.
      assert (Hbl : N.of_nat (length (ref_bytes (content map size) pos m)) = m).
      { unfold ref_bytes. rewrite firstn_length, skipn_length. lia. }
      remember (ref_bytes (content map size) pos m) as bs eqn:Eb.
      destruct bs as [|x b].
      * cbn [length] in Hbl. assert (Hm : m = 0) by lia. rewrite Hm.
        assert (Hge : size <= pos) by lia.
        rewrite skipn_all2 by lia. rewrite firstn_nil. unfold mkfile. do 3 f_equal. lia.
      * rewrite lenN_length, Hbl. rewrite IH.
        -- cbn [bind fst snd]. rewrite Eb. unfold ref_bytes.
           replace (N.to_nat (pos + m)) with (N.to_nat pos + N.to_nat m)%nat by lia.
           rewrite <- skipn_skipn', firstn_then_firstn.
           replace (N.to_nat m + N.to_nat (n - m))%nat with (N.to_nat n) by lia.
           unfold mkfile. do 3 f_equal. lia.
        -- intros Hn'. assert (Hlt : pos < size) by (cbn [length] in Hbl; lia).
           replace (pos <? size) with true in Hfuel by lia.
           destruct (pos + m <? size) eqn:E2; [|lia].
           assert (Hlt2 : pos + m < size) by lia.
           assert (Hm : m < n) by (clear - Hn'; lia).
           destruct (H4 Hlt2 Hm) as [_ H5]. rewrite H5.
           pose proof (Hidx pos Hlt) as Hi. clear - Hfuel Hi.
           generalize dependent (pos / cs). intros k Hk Hi. lia.
Qed.

Theorem read_loop_refines map size n pos : wf_file map size ->
  read_full cs data nclusters n (mkfile map size pos) =
  Ok (firstn (N.to_nat n) (skipn (N.to_nat pos) (content map size)), mkfile map size (pos + N.min n (size - pos))).
Proof.
  intros Hwf. unfold read_full. cbn [f_map mkfile]. apply read_loop_ok; [exact Hwf|].
  intros _. generalize (N.to_nat (pos / cs)). intros k. destruct (pos <? size); lia.
Qed.

(* ------------------------------------------- sequences of operations *)
Lemma step_refines map size pos o : wf_file map size ->
  step cs data nclusters o (mkfile map size pos) =
  (fst (ref_step cs (content map size) o pos), mkfile map size (snd (ref_step cs (content map size) o pos))).
Proof.
  intros Hwf. pose proof (content_length map size Hwf) as Hlen.
  destruct o as [off w|n|n|]; unfold step, ref_step; rewrite Hlen.
  - unfold seek. cbn [f_pos f_size mkfile].
    destruct w as [|[p|p|]]; cbn [bind]; try reflexivity;
      try (destruct p as [p|p|]; cbn [bind]; try reflexivity).
    all: match goal with |- context [(?z <? 0)%Z] => destruct (z <? 0)%Z; reflexivity end.
  - unfold read. destruct (n <? 0)%Z.
    + rewrite (readall_ok map size pos Hwf). reflexivity.
    + rewrite (readinto_ok _ map size pos Hwf). reflexivity.
  - rewrite (readinto_ok _ map size pos Hwf). reflexivity.
  - rewrite (readall_ok map size pos Hwf). reflexivity.
Qed.

(* For every cluster size, data area and well-formed open file: EVERY finite sequence
   of seek / read(n) / readinto(n) / readall gives, result by result, what the same
   sequence gives on the file content held in memory with a plain position. *)
Theorem read_refines map size : wf_file map size ->
  forall ops pos,
  run cs data nclusters ops (mkfile map size pos) = ref_run cs (content map size) ops pos.
Proof.
  intros Hwf. induction ops as [|o ops IH]; intros pos; [reflexivity|].
  cbn [run ref_run]. rewrite (step_refines map size pos o Hwf). cbn [fst snd].
  f_equal. apply IH.
Qed.
End Read.

Theorem run_file_refines cs data map size ops :
  0 < cs -> wf_file cs data map size ->
  run_file cs data map size ops = ref_run cs (content cs data map size) ops 0.
Proof. intros Hcs Hwf. unfold run_file. apply (read_refines cs data Hcs map size Hwf). Qed.

(* Reading never changes the file-system: the read-path functions take the data area as
   an argument and return only bytes and a file state (there is no data area in their
   result types: "read_no_write" holds by typing), and the file state keeps its cluster
   map and size.  No well-formedness is needed. *)
Lemma readall_loop_keeps cs data n fuel : forall st,
  f_map (snd (readall_loop cs data n fuel st)) = f_map st /\
  f_size (snd (readall_loop cs data n fuel st)) = f_size st.
Proof.
  induction fuel as [|f IH]; intros st; cbn [readall_loop];
    destruct (f_pos st <? f_size st); cbn [snd]; auto.
  unfold readinto.
  match goal with |- context [if ?c then _ else _] => destruct c end; cbn [snd]; auto.
  destruct (nth_error _ _); cbn [snd]; auto.
  destruct (cluster_get _ _ _ _); cbn [bind snd]; auto.
  destruct (IH (set_pos st (f_pos st +
     Z.to_N (Z.max (Z.min (Z.min (Z.of_N cs) (Z.of_N (f_pos st - f_pos st / cs * cs) + Z.of_N (f_size st - f_pos st)))
                          (Z.of_N (f_size st) - Z.of_N (f_pos st / cs * cs)) - Z.of_N (f_pos st - f_pos st / cs * cs)) 0))))
    as [H1 H2].
  cbn [fst snd]. rewrite H1, H2. auto.
Qed.

Theorem run_preserves_file cs data n o st :
  f_map (snd (step cs data n o st)) = f_map st /\ f_size (snd (step cs data n o st)) = f_size st.
Proof.
  assert (Hri : forall k, match readinto cs data n k st with
                          | Ok x => f_map (snd x) = f_map st /\ f_size (snd x) = f_size st
                          | Err _ => True end).
  { intros k. unfold readinto.
    match goal with |- context [if ?c then _ else _] => destruct c end; cbn [snd]; auto.
    destruct (nth_error _ _); auto. destruct (cluster_get _ _ _ _); cbn [bind snd]; auto. }
  destruct o as [off w|k|k|]; unfold step.
  - unfold seek. destruct (match w with 0 => _ | _ => _ end) as [p|e]; cbn [bind snd]; auto.
    destruct (p <? 0)%Z; cbn [snd]; auto.
  - unfold read. destruct (k <? 0)%Z; cbn [snd].
    + apply readall_loop_keeps.
    + specialize (Hri (Z.to_N k)). destruct (readinto _ _ _ _ _); cbn [snd]; auto.
  - specialize (Hri k). destruct (readinto _ _ _ _ _) as [[b st']|e]; cbn [snd] in *; auto.
  - apply readall_loop_keeps.
Qed.

(* ------------------------------------------------------------- non-vacuity *)
(* 10 clusters of 4 bytes (byte i has value i); a fragmented 3-cluster file [7; 3; 9]
   of 10 bytes: reads straddling cluster boundaries come back short, exactly as on
   the in-memory content *)
Definition ex_data : list N := map N.of_nat (seq 0 40).
Definition ex_ops : list op :=
  [ORead 3; ORead 3; OSeek (-4) 2; OReadinto 10; OReadall; ORead 5; OSeek (-1) 1;
   OSeek (-20) 1; OSeek 2 0; ORead (-1); OSeek 0 3; OSeek 5 0; OReadinto 2; OReadinto 2].
Example read_example :
  run_file 4 ex_data [7; 3; 9] 10 ex_ops =
  [RBytes [20; 21; 22]; RBytes [23]; RPos 6; RBytes [6; 7]; RBytes [28; 29]; RBytes []; RPos 9;
   RErr OSError_Other; RPos 2; RBytes [22; 23; 4; 5; 6; 7; 28; 29]; RErr ValueError; RPos 5;
   RBytes [5; 6]; RBytes [7]].
Proof. vm_compute. reflexivity. Qed.
Example read_example_wf : wf_file 4 ex_data [7; 3; 9] 10 /\ content 4 ex_data [7; 3; 9] 10 = [20; 21; 22; 23; 4; 5; 6; 7; 28; 29].
Proof.
  split; [|vm_compute; reflexivity]. split.
  - assert (E : nclusters 4 ex_data = 10) by (vm_compute; reflexivity).
    assert (R : forall c, 2 <= c < 12 -> in_range 4 ex_data c) by (intros c Hc; unfold in_range; rewrite E; lia).
    constructor; [apply R; lia|]. constructor; [apply R; lia|]. constructor; [apply R; lia|]. constructor.
  - cbn. lia.
Qed.
Example read_example_ref :
  ref_run 4 [20; 21; 22; 23; 4; 5; 6; 7; 28; 29] ex_ops 0 = run_file 4 ex_data [7; 3; 9] 10 ex_ops.
Proof. vm_compute. reflexivity. Qed.
(* a chain shorter than the size: the code raises IndexError, and so does the model *)
Example read_short_chain :
  run_file 4 ex_data [7] 6 [ORead 9; ORead 9; OSeek 0 0; OReadall; ORead 1] =
  [RBytes [20; 21; 22; 23]; RErr IndexError; RPos 0; RErr IndexError; RErr IndexError].
Proof. vm_compute. reflexivity. Qed.

Print Assumptions read_refines.
Print Assumptions read_loop_refines.
Print Assumptions raw_read_spec.
Print Assumptions run_preserves_file.
