(* Wire interface of the FatRead model (runner area `FatRead`). *)
From Coq Require Import List NArith ZArith String Bool.
From NV Require Import Lib.Val Lib.Res Lib.Wire Gen.Fat Fat.Spec FatRead.Model.
Import ListNotations.
Open Scope string_scope.

Definition VGeomM (m : geom_m) : val :=
  VL [VN (ftype_bits (m_type m)); VB (m_has32 m); VN (m_bps m); VN (m_cs m); VN (m_total m);
      VN (m_fat_off m); VN (m_fat_size m); VN (m_nfats m); VN (m_root_off m); VN (m_root_size m);
      VN (m_data_off m); VN (m_end_off m); VN (m_root_cluster m);
      match m_info_off m with Some o => VL [VN o] | None => VL [] end;
      VN (m_count m); VN (m_data_len m); VL (map VN (m_table_lens m))].

Definition hazard_name (h : hazard) : string :=
  match h with
  | HAssertInfo => "AssertionError" | HCast => "TypeError"
  | HInfoShort => "StructError" | HNoEntry1 => "IndexError"
  end.

Definition VOutcome (o : outcome) : val :=
  match o with
  | OOk m => VL [VN 0; VGeomM m]
  | OExn e => VL [VN 1; VStr (exn_name e)]
  | OHazard h => VL [VN 1; VStr (hazard_name h)]
  end.

(* "geometry": a whole image, or (prefix of >= 90 bytes, len(image)) *)
Definition hdr_args (a : val) : rawhdr * N :=
  match a with
  | VS s => (parse s, lenN s)
  | _ => (parse (getS (arg 0 a)), getN (arg 1 a))
  end.

Definition get_op (v : val) : op :=
  match getN (arg 0 v) with
  | 0%N => OSeek (getZ (arg 1 v)) (getN (arg 2 v))
  | 1%N => ORead (getZ (arg 1 v))
  | 2%N => OReadinto (getN (arg 1 v))
  | _ => OReadall
  end.
Definition VOres (r : oresult) : val :=
  match r with
  | RPos p => VL [VN 0; VN p]
  | RBytes b => VL [VN 1; VS b]
  | RErr e => VL [VN 2; VStr (exn_name e)]
  end.

Definition run_one (cs : N) (data : list N) (ncl : N) (f : val) : val :=
  VL (map VOres (run cs data ncl (map get_op (getL (arg 2 f)))
                     {| f_map := map getN (getL (arg 0 f)); f_size := getN (arg 1 f); f_pos := 0 |})).

Definition VTs (x : N * N * N * N * N * N * N) : val :=
  let '(y, mo, d, h, mi, s, us) := x in VL [VN y; VN mo; VN d; VN h; VN mi; VN s; VN us].

Definition dispatch (cmd : string) (a : val) : val :=
  if String.eqb cmd "geometry" then
    let x := hdr_args a in VOutcome (open_at (fst x) (snd x))
  else if String.eqb cmd "geometry_pure" then
    let x := hdr_args a in VRes VGeomM (geometry_at (fst x) (snd x))
  else if String.eqb cmd "reads" then
    (* (cs, data area, map, size, ops) *)
    let cs := getN (arg 0 a) in let data := getS (arg 1 a) in
    run_one cs data (clusters_len cs data) (VL [arg 2 a; arg 3 a; arg 4 a])
  else if String.eqb cmd "reads_many" then
    (* (cs, data area, [(map, size, ops) ...]) *)
    let cs := getN (arg 0 a) in let data := getS (arg 1 a) in
    let ncl := clusters_len cs data in
    VL (map (run_one cs data ncl) (getL (arg 2 a)))
  else if String.eqb cmd "refrun" then
    (* (cs, content, ops): the reference semantics *)
    VL (map VOres (ref_run (getN (arg 0 a)) (getS (arg 1 a)) (map get_op (getL (arg 2 a))) 0))
  else if String.eqb cmd "cluster" then
    let cs := getN (arg 0 a) in let data := getS (arg 1 a) in
    VRes VS (cluster_get cs data (clusters_len cs data) (getN (arg 2 a)))
  else if String.eqb cmd "timestamp" then
    VTs (decode_timestamp_fields (getN (arg 0 a)) (getN (arg 1 a)) (getN (arg 2 a)))
  else if String.eqb cmd "get_cluster" then
    VN (get_cluster (getN (arg 0 a)) (getN (arg 1 a)) (getB (arg 2 a)))
  else VErr "unknown command".
